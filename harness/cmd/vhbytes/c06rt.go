package main

import (
	"encoding/json"
	"fmt"
	"math/rand"
	"os"

	"verifharness/internal/rep"

	"github.com/go-git/go-git/v6/plumbing/format/packfile"
)

// C06 round-trip half (Engine B, batch trace validation): the symbolic (source, target) pairs enumerated
// by TLC (Delta.tla, Mode = "pairs") are expanded to bytes, go-git's DiffDelta is run on each and the
// triple (src, tgt, delta) is recorded as ndjson.  The acceptance predicate -- git's patch-delta applied to
// (src, delta) yields exactly tgt -- is evaluated by TLC on every record (Delta.tla, Mode = "rt").

func init() { rep.Register("c06rt", c06rt) }

type symPair struct {
	A []string `json:"a"`
	B []string `json:"b"`
}

func bytes2ints(b []byte) []int {
	o := make([]int, len(b))
	for i, v := range b {
		o[i] = int(v)
	}
	return o
}

// c06rt pairs.ndjson out.ndjson
func c06rt(args []string) error {
	if len(args) < 2 {
		return fmt.Errorf("usage: c06rt pairs.ndjson out.ndjson")
	}
	r := rep.New()
	rnd := rand.New(rand.NewSource(rep.Seed()))
	// symbol -> block bytes per scale (rendering of the symbols; seeded)
	scales := []int{1, 16, 16 * 4097}
	blocks := map[int]map[string][]byte{}
	for _, sc := range scales {
		blocks[sc] = map[string][]byte{}
		for _, sym := range []string{"A", "B"} {
			b := make([]byte, sc)
			rnd.Read(b)
			if sc == 1 {
				b[0] = map[string]byte{"A": 'a', "B": 'b'}[sym]
			}
			blocks[sc][sym] = b
		}
	}
	expand := func(s []string, sc int) []byte {
		var o []byte
		for _, x := range s {
			o = append(o, blocks[sc][x]...)
		}
		return o
	}
	var pairs []symPair
	if err := rep.ReadNDJSON(args[0], func(line []byte) error {
		var p symPair
		if err := json.Unmarshal(line, &p); err != nil {
			return err
		}
		pairs = append(pairs, p)
		return nil
	}); err != nil {
		return err
	}
	out, err := os.Create(args[1])
	if err != nil {
		return err
	}
	defer out.Close()
	enc := json.NewEncoder(out)
	nbig, bigSyms := 2, 3
	if rep.Thorough() {
		nbig, bigSyms = 24, 6
	}
	bigPick := map[int]bool{}
	for _, k := range rnd.Perm(len(pairs)) {
		// > 64 KiB scale: a seeded sample, preferring pairs that share a block (so that copies > 64 KiB occur)
		if len(bigPick) >= nbig {
			break
		}
		if len(pairs[k].A) > 0 && len(pairs[k].B) > 0 && len(pairs[k].A)+len(pairs[k].B) <= bigSyms {
			bigPick[k] = true
		}
	}
	n := 0
	for k, p := range pairs {
		for _, sc := range scales {
			if sc > 16 && !bigPick[k] {
				continue
			}
			src, tgt := expand(p.A, sc), expand(p.B, sc)
			var delta []byte
			pan := ""
			func() {
				defer func() {
					if x := recover(); x != nil {
						pan = fmt.Sprint(x)
					}
				}()
				delta = packfile.DiffDelta(src, tgt)
			}()
			r.Eval(1)
			if pan != "" {
				r.Diverge("DiffDelta|panics|scale="+scaleName(sc), "DiffDelta panics: "+pan, map[string]any{"a": p.A, "b": p.B, "scale": sc})
				continue
			}
			n++
			if err := enc.Encode(map[string]any{"a": p.A, "b": p.B, "scale": sc, "src": bytes2ints(src), "tgt": bytes2ints(tgt), "delta": bytes2ints(delta)}); err != nil {
				return err
			}
			if n <= 3 {
				r.Sample(map[string]any{"a": p.A, "b": p.B, "scale": sc, "delta_len": len(delta)})
			}
		}
	}
	r.Traces = n
	r.Distinct = n
	r.Extra["rt_records"] = n
	r.Extra["rt_big_records"] = len(bigPick)
	return r.Emit()
}

func scaleName(sc int) string {
	switch sc {
	case 1:
		return "1"
	case 16:
		return "16"
	}
	return "64k"
}
