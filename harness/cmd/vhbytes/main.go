// Command vhbytes is the conformance harness for the byte-level codec properties
// (C06 delta, C34 pkt-line/sideband framing, C10 pack index): it binds the TLA+ modules
// spec/rules/Delta.tla, spec/abstract/PktStream.tla / Sideband.tla and spec/abstract/IdxMap.tla
// to the real go-git code.  The last line of stdout is a JSON report (internal/rep).
package main

import "verifharness/internal/rep"

func main() { rep.Main() }
