package main

// The harness' own minimal pack reader: bytes -> the record judged by
// spec/abstract/PackRecord.tla.  It follows each entry's own pointer (offset distance or
// base id) to obtain the content the entry resolves to; whether those pointers form a
// well-formed pack is decided in TLA+, not here.

import (
	"bytes"
	"compress/zlib"
	"encoding/binary"
	"encoding/hex"
	"fmt"
	"io"
)

type recEntry struct {
	Off    int64  `json:"off"`
	Kind   string `json:"kind"`
	Neg    int64  `json:"neg"`
	BaseID string `json:"baseid"`
	ID     string `json:"id"`
	Type   string `json:"type"`
	Size   int64  `json:"size"`
	Len    int64  `json:"len"` // bytes of the entry in the pack
	CRC    uint32 `json:"-"`

	raw     []byte // inflated payload (object or delta)
	content []byte // resolved content
	done    bool
}

type packRecord struct {
	Req       []string   `json:"req"`
	Ext       []string   `json:"ext"`
	Count     int        `json:"count"`
	Version   int        `json:"version"`
	SigOK     bool       `json:"sigok"`
	TrailerOK bool       `json:"trailerok"`
	Junk      int        `json:"junk"`
	Es        []recEntry `json:"es"`
	Trailer   string     `json:"-"`
	ParseErr  string     `json:"-"`
}

var kindNames = map[byte]string{1: "commit", 2: "tree", 3: "blob", 4: "tag", 6: "ofs", 7: "ref"}

// parsePack reads count entries.  external: id -> (type, content) of objects a thin pack may refer to.
func parsePack(f objFormat, data []byte, external map[string]wantObj) (*packRecord, error) {
	rec := &packRecord{Req: []string{}, Ext: []string{}}
	if len(data) < 12+f.size {
		return nil, fmt.Errorf("short pack (%d bytes)", len(data))
	}
	rec.SigOK = string(data[:4]) == "PACK"
	rec.Version = int(binary.BigEndian.Uint32(data[4:8]))
	rec.Count = int(binary.BigEndian.Uint32(data[8:12]))
	pos := int64(12)
	for i := 0; i < rec.Count; i++ {
		if pos >= int64(len(data)-f.size) {
			break // fewer entries than announced: count-mismatch is decided by the spec
		}
		e := recEntry{Off: pos}
		b := data[pos]
		pos++
		kind, ok := kindNames[(b>>4)&7]
		if !ok {
			return nil, fmt.Errorf("entry %d at %d: type bits %d", i, e.Off, (b>>4)&7)
		}
		e.Kind = kind
		size := int64(b & 0x0f)
		shift := uint(4)
		for b&0x80 != 0 {
			b = data[pos]
			pos++
			size |= int64(b&0x7f) << shift
			shift += 7
		}
		switch kind {
		case "ofs":
			c := data[pos]
			pos++
			n := int64(c & 0x7f)
			for c&0x80 != 0 {
				n++
				c = data[pos]
				pos++
				n = n<<7 | int64(c&0x7f)
			}
			e.Neg = n
		case "ref":
			e.BaseID = hex.EncodeToString(data[pos : pos+int64(f.size)])
			pos += int64(f.size)
		}
		cr := &countingByteReader{r: bytes.NewReader(data[pos:])}
		zr, err := zlib.NewReader(cr)
		if err != nil {
			return nil, fmt.Errorf("entry %d at %d: zlib: %v", i, e.Off, err)
		}
		raw, err := io.ReadAll(zr)
		if err != nil {
			return nil, fmt.Errorf("entry %d at %d: inflate: %v", i, e.Off, err)
		}
		if int64(len(raw)) != size {
			return nil, fmt.Errorf("entry %d at %d: declared size %d, inflated %d", i, e.Off, size, len(raw))
		}
		e.raw = raw
		pos += cr.n
		e.Len = pos - e.Off
		rec.Es = append(rec.Es, e)
	}
	end := pos
	if end+int64(f.size) > int64(len(data)) {
		return nil, fmt.Errorf("no room for the trailer")
	}
	rec.Trailer = hex.EncodeToString(data[end : end+int64(f.size)])
	rec.TrailerOK = bytes.Equal(f.sum(data[:end]), data[end:end+int64(f.size)])
	rec.Junk = len(data) - int(end) - f.size
	// resolve every entry by following its own pointer: fix-point iteration (an entry resolves once
	// the entry its pointer designates has resolved; cyclic or dangling pointers never do)
	byOff := map[int64]int{}
	for i := range rec.Es {
		byOff[rec.Es[i].Off] = i
	}
	finish := func(e *recEntry, typ string, content []byte) {
		e.Type, e.content = typ, content
		e.ID = hex.EncodeToString(f.objectID(typ, content))
		e.Size = int64(len(content))
		e.done = true
	}
	extSeen := map[string]bool{}
	for progress := true; progress; {
		progress = false
		byID := map[string]int{}
		for i := range rec.Es {
			if rec.Es[i].done {
				if _, ok := byID[rec.Es[i].ID]; !ok {
					byID[rec.Es[i].ID] = i
				}
			}
		}
		for i := range rec.Es {
			e := &rec.Es[i]
			if e.done {
				continue
			}
			var baseType string
			var baseContent []byte
			switch e.Kind {
			case "ofs":
				j, ok := byOff[e.Off-e.Neg]
				if !ok || j == i || !rec.Es[j].done {
					continue
				}
				baseType, baseContent = rec.Es[j].Type, rec.Es[j].content
			case "ref":
				if j, ok := byID[e.BaseID]; ok && j != i {
					baseType, baseContent = rec.Es[j].Type, rec.Es[j].content
				} else if w, ok := external[e.BaseID]; ok {
					baseType, baseContent = w.typ, w.content
					if !extSeen[e.BaseID] {
						extSeen[e.BaseID] = true
						rec.Ext = append(rec.Ext, e.BaseID)
					}
				} else {
					continue
				}
			default:
				finish(e, e.Kind, e.raw)
				progress = true
				continue
			}
			out, err := applyDelta(baseContent, e.raw)
			if err != nil {
				continue
			}
			finish(e, baseType, out)
			progress = true
		}
	}
	return rec, nil
}

type countingByteReader struct {
	r *bytes.Reader
	n int64
}

func (c *countingByteReader) Read(p []byte) (int, error) {
	n, err := c.r.Read(p)
	c.n += int64(n)
	return n, err
}

func (c *countingByteReader) ReadByte() (byte, error) {
	b, err := c.r.ReadByte()
	if err == nil {
		c.n++
	}
	return b, err
}

// applyDelta: git's patch-delta, strict.
func applyDelta(base, delta []byte) ([]byte, error) {
	rd := func() (uint64, error) {
		var v uint64
		var shift uint
		for {
			if len(delta) == 0 {
				return 0, fmt.Errorf("short delta header")
			}
			b := delta[0]
			delta = delta[1:]
			v |= uint64(b&0x7f) << shift
			shift += 7
			if b&0x80 == 0 {
				return v, nil
			}
		}
	}
	src, err := rd()
	if err != nil {
		return nil, err
	}
	tgt, err := rd()
	if err != nil {
		return nil, err
	}
	if src != uint64(len(base)) {
		return nil, fmt.Errorf("delta source size %d, base has %d", src, len(base))
	}
	out := make([]byte, 0, tgt)
	for len(delta) > 0 {
		op := delta[0]
		delta = delta[1:]
		switch {
		case op&0x80 != 0:
			var off, sz uint64
			for k := uint(0); k < 4; k++ {
				if op&(1<<k) != 0 {
					if len(delta) == 0 {
						return nil, fmt.Errorf("short copy")
					}
					off |= uint64(delta[0]) << (8 * k)
					delta = delta[1:]
				}
			}
			for k := uint(0); k < 3; k++ {
				if op&(0x10<<k) != 0 {
					if len(delta) == 0 {
						return nil, fmt.Errorf("short copy")
					}
					sz |= uint64(delta[0]) << (8 * k)
					delta = delta[1:]
				}
			}
			if sz == 0 {
				sz = 0x10000
			}
			if off+sz > uint64(len(base)) {
				return nil, fmt.Errorf("copy out of range")
			}
			out = append(out, base[off:off+sz]...)
		case op != 0:
			if int(op) > len(delta) {
				return nil, fmt.Errorf("short insert")
			}
			out = append(out, delta[:op]...)
			delta = delta[op:]
		default:
			return nil, fmt.Errorf("opcode 0")
		}
	}
	if uint64(len(out)) != tgt {
		return nil, fmt.Errorf("delta result %d bytes, header says %d", len(out), tgt)
	}
	return out, nil
}
