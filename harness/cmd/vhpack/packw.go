package main

// The projection from the abstract pack of spec/abstract/PackGraph.tla to bytes.
// This is a *renderer*: which entries exist, what they point at, which fields are
// off by one and whether the result must be accepted is decided by the TLA+ row;
// this file only produces zlib streams, varints and digests for it.

import (
	"bytes"
	"compress/zlib"
	"crypto/sha1"
	"crypto/sha256"
	"encoding/binary"
	"encoding/hex"
	"fmt"
	"hash"
	"io"
	"sync"
)

// ---- row format (Row(p, tags) of PackGraph.tla) ----

type pgEnt struct {
	K    string `json:"k"`
	Tb   string `json:"tb"`
	O    int    `json:"o"`
	B    int    `json:"b"`
	Bx   string `json:"bx"`
	Decl int    `json:"decl"`
	Infl int    `json:"infl"`
	Z    bool   `json:"z"`
	Ds   int    `json:"ds"`
	Dt   int    `json:"dt"`
	Rt   string `json:"rt"`
	Ed   []string `json:"ed"`
}

type pgObj struct {
	I   int    `json:"i"`
	T   string `json:"t"`
	O   int    `json:"o"`
	Adj int    `json:"adj"`
}

type pgRow struct {
	N      int      `json:"n"`
	Rot    int      `json:"rot"`
	Sig    string   `json:"sig"`
	Ver    int      `json:"ver"`
	Cnt    int      `json:"cnt"`
	Cutw   string   `json:"cutw"`
	Cutat  int      `json:"cutat"`
	Tr     string   `json:"tr"`
	Junk   bool     `json:"junk"`
	Deepat int      `json:"deepat"`
	Deepl  string   `json:"deepl"`
	Extra  int      `json:"extra"`
	Dup    int      `json:"dup"`
	Es     []pgEnt  `json:"es"`
	Tags   []string `json:"tags"`
	Why    []string `json:"why"`
	Swhy   []string `json:"swhy"`
	V      string   `json:"v"`
	Sv     string   `json:"sv"`
	Objs   []pgObj  `json:"objs"`
}

// ---- digests ----

type objFormat struct {
	name string
	size int
	new  func() hash.Hash
}

var (
	fmtSHA1   = objFormat{"sha1", 20, sha1.New}
	fmtSHA256 = objFormat{"sha256", 32, sha256.New}
)

func (f objFormat) objectID(typ string, content []byte) []byte {
	h := f.new()
	fmt.Fprintf(h, "%s %d\x00", typ, len(content))
	h.Write(content)
	return h.Sum(nil)
}

func (f objFormat) sum(b []byte) []byte {
	h := f.new()
	h.Write(b)
	return h.Sum(nil)
}

// ---- contents: one concrete byte string per (content symbol, type, extra) ----

const (
	identA = "A U Thor <author@example.com> 1000000000 +0000"
	identC = "C O Mitter <committer@example.com> 1000000000 +0000"
)

func nominal(f objFormat, o int, typ string, x int) []byte {
	emptyBlob := f.objectID("blob", nil)
	emptyTree := f.objectID("tree", nil)
	tail := fmt.Sprintf("entry %d.%d", o, x)
	switch typ {
	case "commit":
		return []byte("tree " + hex.EncodeToString(emptyTree) + "\nauthor " + identA + "\ncommitter " + identC + "\n\n" + tail + "\n")
	case "tree":
		var b bytes.Buffer
		b.WriteString("100644 a\x00")
		b.Write(emptyBlob)
		b.WriteString("100644 b\x00")
		b.Write(emptyBlob)
		fmt.Fprintf(&b, "100644 e%d.%d\x00", o, x)
		b.Write(emptyBlob)
		return b.Bytes()
	case "tag":
		return []byte("object " + hex.EncodeToString(emptyBlob) + "\ntype blob\ntag t\ntagger " + identC + "\n\n" + tail + "\n")
	default:
		return []byte("a line shared by every generated blob, long enough to be copied by a delta\nsecond shared line 0123456789\n" + tail + "\n")
	}
}

func adjust(b []byte, adj int) []byte {
	switch adj {
	case 1:
		return append(append([]byte{}, b...), 'X')
	case -1:
		return append([]byte{}, b[:len(b)-1]...)
	}
	return b
}

// ---- varints ----

func typeCode(k string) byte {
	switch k {
	case "commit":
		return 1
	case "tree":
		return 2
	case "blob":
		return 3
	case "tag":
		return 4
	case "ofs":
		return 6
	case "ref":
		return 7
	case "t0":
		return 0
	case "t5":
		return 5
	}
	panic("kind " + k)
}

func entryHeader(code byte, size uint64) []byte {
	b := []byte{code<<4 | byte(size&0x0f)}
	size >>= 4
	for size > 0 {
		b[len(b)-1] |= 0x80
		b = append(b, byte(size&0x7f))
		size >>= 7
	}
	return b
}

func ofsVarint(n uint64) []byte {
	buf := []byte{byte(n & 0x7f)}
	for n >>= 7; n > 0; n >>= 7 {
		n--
		buf = append([]byte{0x80 | byte(n&0x7f)}, buf...)
	}
	return buf
}

func leb(n uint64) []byte {
	var b []byte
	for {
		c := byte(n & 0x7f)
		n >>= 7
		if n == 0 {
			return append(b, c)
		}
		b = append(b, c|0x80)
	}
}

// makeDelta: copy the common prefix from the base, insert the rest; always ends with an
// insert so that dropping the last byte of the stream leaves a short insert.
func makeDelta(base, target []byte, ds, dt int) []byte {
	var d []byte
	d = append(d, leb(uint64(len(base)+ds))...)
	d = append(d, leb(uint64(len(target)+dt))...)
	k := 0
	for k < len(base) && k < len(target)-1 && base[k] == target[k] && k < 0xffff {
		k++
	}
	if k > 0 {
		// copy offset 0 (no offset bytes), size k
		op := byte(0x80)
		var sz []byte
		if k&0xff != 0 {
			op |= 0x10
			sz = append(sz, byte(k))
		}
		if k>>8 != 0 {
			op |= 0x20
			sz = append(sz, byte(k>>8))
		}
		d = append(d, op)
		d = append(d, sz...)
	}
	rest := target[k:]
	for len(rest) > 0 {
		n := len(rest)
		if n > 127 {
			n = 127
		}
		d = append(d, byte(n))
		d = append(d, rest[:n]...)
		rest = rest[n:]
	}
	return d
}

var zwPool = sync.Pool{New: func() any { return zlib.NewWriter(io.Discard) }}

func deflate(b []byte) []byte {
	var z bytes.Buffer
	zw := zwPool.Get().(*zlib.Writer)
	zw.Reset(&z)
	zw.Write(b)
	zw.Close()
	zwPool.Put(zw)
	return z.Bytes()
}

// ---- rendering ----

type rendered struct {
	bytes    []byte
	offsets  []int64           // offset of every written entry, in pack order (incl. scaled intermediates)
	atOffset map[int64]wantObj // what a correct reader resolves at each offset (only meaningful if the row is not "reject")
	want     map[string]wantObj
	external map[string]wantObj // objects a thin pack refers to (the receiver must already have them)
	entryOf  map[string]int // content bytes of an entry -> entry index (attribution of a wrong object to its entry)
}

type wantObj struct {
	typ     string
	content []byte
	id      string
}

func (f objFormat) want(typ string, content []byte) wantObj {
	return wantObj{typ, content, hex.EncodeToString(f.objectID(typ, content))}
}

// render produces the bytes of the abstract pack r.
func render(f objFormat, r *pgRow) *rendered {
	n := len(r.Es)
	// resolved ("actual") content of every entry: full entries carry their adjusted content,
	// delta entries resolve to their nominal target.
	actual := make([]wantObj, n+1)
	for i := 1; i <= n; i++ {
		e := r.Es[i-1]
		c := nominal(f, e.O, e.Rt, 0)
		if e.K != "ofs" && e.K != "ref" {
			c = adjust(c, e.Infl)
		}
		actual[i] = f.want(e.Rt, c)
	}
	out := &rendered{atOffset: map[int64]wantObj{}, want: map[string]wantObj{}, entryOf: map[string]int{}, external: map[string]wantObj{}}
	for i := n; i >= 1; i-- { // among entries with the same bytes prefer one that has defects of its own
		if j, ok := out.entryOf[string(actual[i].content)]; ok && len(r.Es[j-1].Ed) > 0 && len(r.Es[i-1].Ed) == 0 {
			continue
		}
		out.entryOf[string(actual[i].content)] = i
	}
	var body bytes.Buffer
	entryOff := make([]int64, n+1)
	entryLen := make([]int, n+1)
	total := n + r.Extra
	body.WriteString("PACK")
	if r.Sig != "ok" {
		body.Reset()
		body.WriteString("PACX")
	}
	var u [4]byte
	binary.BigEndian.PutUint32(u[:], uint32(r.Ver))
	body.Write(u[:])
	binary.BigEndian.PutUint32(u[:], uint32(total+r.Cnt))
	body.Write(u[:])

	writeEntry := func(code byte, declared int, baseRef []byte, payload []byte, badZ bool) (int64, int) {
		off := int64(body.Len())
		body.Write(entryHeader(code, uint64(declared)))
		body.Write(baseRef)
		z := deflate(payload)
		if badZ {
			z[len(z)-1] ^= 0x01
		}
		body.Write(z)
		return off, body.Len() - int(off)
	}

	for i := 1; i <= n; i++ {
		e := r.Es[i-1]
		isDelta := e.K == "ofs" || e.K == "ref"
		code := typeCode(e.K)
		if e.Tb != "ok" {
			code = typeCode(e.Tb)
		}
		if !isDelta {
			nom := nominal(f, e.O, e.Rt, 0)
			off, l := writeEntry(code, len(nom)+e.Decl, nil, adjust(nom, e.Infl), e.Z)
			entryOff[i], entryLen[i] = off, l
			out.offsets = append(out.offsets, off)
			out.atOffset[off] = actual[i]
			continue
		}
		// base content / base reference
		baseContent := nominal(f, 99, e.Rt, 0)
		var baseID []byte
		var baseOff int64 = -1
		if e.Bx == "ok" && e.B >= 1 && e.B <= n {
			baseContent = actual[e.B].content
			baseID, _ = hex.DecodeString(actual[e.B].id)
			if e.B < i {
				baseOff = entryOff[e.B]
			}
		}
		if e.K == "ref" && e.Bx == "ext" {
			baseID = f.objectID("blob", []byte("no such object in this pack\n"))
		}
		if e.K == "ref" && e.Bx == "thin" {
			baseContent = nominal(f, 98, "blob", 0)
			w := f.want("blob", baseContent)
			baseID, _ = hex.DecodeString(w.id)
			out.external[w.id] = w
		}
		// scaled chain: Extra intermediate ofs-deltas between the base and this entry
		if r.Deepat == i && r.Extra > 0 && baseOff >= 0 {
			for m := 1; m <= r.Extra; m++ {
				tgt := nominal(f, e.O, e.Rt, m)
				d := makeDelta(baseContent, tgt, 0, 0)
				own := int64(body.Len())
				off, _ := writeEntry(6, len(d), ofsVarint(uint64(own-baseOff)), d, false)
				w := f.want(e.Rt, tgt)
				out.offsets = append(out.offsets, off)
				out.atOffset[off] = w
				out.want[w.id] = w
				baseContent, baseOff = tgt, off
				baseID, _ = hex.DecodeString(w.id)
			}
		}
		target := actual[i].content
		d := makeDelta(baseContent, target, e.Ds, e.Dt)
		payload := d
		switch e.Infl {
		case 1:
			payload = append(append([]byte{}, d...), 0x00)
		case -1:
			payload = d[:len(d)-1]
		}
		own := int64(body.Len())
		var ref []byte
		if e.K == "ofs" {
			switch e.Bx {
			case "ok":
				ref = ofsVarint(uint64(own - baseOff))
			case "zero":
				ref = ofsVarint(0)
			case "mid":
				ref = ofsVarint(uint64(own - entryOff[e.B] - 1))
			case "hdr":
				ref = ofsVarint(uint64(own - 4))
			case "start":
				ref = ofsVarint(uint64(own))
			case "before":
				ref = ofsVarint(uint64(own + 7))
			case "ovf":
				ref = append(bytes.Repeat([]byte{0xff}, 10), 0x7f)
			default:
				panic("ofs designator " + e.Bx)
			}
		} else {
			ref = baseID
		}
		off, l := writeEntry(code, len(d)+e.Decl, ref, payload, e.Z)
		entryOff[i], entryLen[i] = off, l
		out.offsets = append(out.offsets, off)
		out.atOffset[off] = actual[i]
	}
	packLen := body.Len()
	trailer := f.sum(body.Bytes())
	if r.Tr != "ok" {
		trailer[len(trailer)-1] ^= 0x01
	}
	body.Write(trailer)
	if r.Junk {
		body.WriteString("JUNKJUNK")
	}
	b := body.Bytes()
	switch r.Cutw {
	case "hdr":
		b = b[:6]
	case "trailer":
		b = b[:packLen+f.size/2]
	case "start":
		b = b[:entryOff[r.Cutat]]
	case "mid":
		h := entryLen[r.Cutat] / 2
		if h < 1 {
			h = 1
		}
		b = b[:int(entryOff[r.Cutat])+h]
	}
	out.bytes = append([]byte{}, b...)
	// expected objects, from the spec's Objects(p)
	for _, o := range r.Objs {
		w := f.want(o.T, adjust(nominal(f, o.O, o.T, 0), o.Adj))
		out.want[w.id] = w
	}
	if r.V == "reject" {
		out.want = map[string]wantObj{}
	}
	return out
}
