package main

// C01: rows of spec/rules/ObjFile.tla.
//  write rows: the object is written through one go-git entry point; the id must be the one
//    `git hash-object -t <type> --literally` computes, the loose file must sit at the fan-out
//    path and inflate to the header tokens the spec states, and `git cat-file --batch` on the
//    same directory must report the same type, size and bytes.  Conversely the same content is
//    written by `git hash-object -w` and read back through go-git.
//  read rows: a valid loose file with one header/body mutation; spec verdict vs git cat-file vs go-git.
// Digest and zlib equality are delegated to git (it interprets H and the compressed stream).

import (
	"bytes"
	"compress/zlib"
	"encoding/json"
	"fmt"
	"io"
	"os"
	"path/filepath"
	"strconv"
	"strings"

	git "github.com/go-git/go-git/v6"
	"github.com/go-git/go-billy/v6/osfs"
	"github.com/go-git/go-git/v6/plumbing"
	"github.com/go-git/go-git/v6/plumbing/cache"
	"github.com/go-git/go-git/v6/storage/filesystem"

	"verifharness/internal/gitcli"
	"verifharness/internal/rep"
)

func init() { rep.Register("c01", c01) }

type c01Row struct {
	Dir string `json:"dir"`
	W   struct {
		Ep      string `json:"ep"`
		Type    string `json:"type"`
		Fmt     string `json:"fmt"`
		Content string `json:"content"`
	} `json:"w"`
	Expect struct {
		Header  []any `json:"header"`
		Dirlen  int   `json:"dirlen"`
		Filelen int   `json:"filelen"`
		Stored  bool  `json:"stored"`
	} `json:"expect"`
	R struct {
		Mut     string `json:"mut"`
		Fmt     string `json:"fmt"`
		Content string `json:"content"`
	} `json:"r"`
	Verdict string `json:"verdict"`
	// life rows: several writers of one process, open / write / close as separate steps
	Prior string `json:"prior"`
	Hist  []struct {
		W   int    `json:"w"`
		Api string `json:"api"`
		Op  string `json:"op"`
		Pub []bool `json:"pub"`
	} `json:"hist"`
}

// lifeWriter: one loose-object writer of a life-cycle history
type lifeWriter struct {
	api     string
	typ     plumbing.ObjectType
	content []byte
	id      string
	w       io.WriteCloser
	wh      func(plumbing.ObjectType, int64) error
}

type lifeObj struct {
	id, typ, api, fmt string
	content           []byte
	line              string
}

// replayLife executes one life-cycle history on the shared storage handle st and returns the objects that
// the spec says are published (every closed writer, and the prior one).
func replayLife(f objFormat, st *filesystem.Storage, row *c01Row, n int, line string, div func(class, api, what string)) (out []lifeObj) {
	defer func() {
		if p := recover(); p != nil {
			div("panic", "any", fmt.Sprint(p))
		}
	}()
	types := []plumbing.ObjectType{plumbing.BlobObject, plumbing.TreeObject, plumbing.CommitObject, plumbing.TagObject}
	mk := func(k int, api string) *lifeWriter {
		lw := &lifeWriter{api: api, typ: types[(n+k)%4]}
		lw.content = []byte(fmt.Sprintf("life-cycle history %d writer %d api %s seed %d\n%s", n, k, api, rep.Seed(), strings.Repeat("payload line\n", 10+(n+k)%7)))
		lw.id = fmt.Sprintf("%x", f.objectID(lw.typ.String(), lw.content))
		return lw
	}
	open := func(lw *lifeWriter) error {
		var err error
		switch lw.api {
		case "raw":
			lw.w, err = st.RawObjectWriter(lw.typ, int64(len(lw.content)))
		case "lazy":
			lw.w, lw.wh, err = st.LazyWriter()
		}
		return err
	}
	write := func(lw *lifeWriter) error {
		if lw.wh != nil {
			if err := lw.wh(lw.typ, int64(len(lw.content))); err != nil {
				return err
			}
		}
		h := len(lw.content) / 2
		if _, err := lw.w.Write(lw.content[:h]); err != nil {
			return err
		}
		_, err := lw.w.Write(lw.content[h:])
		return err
	}
	set := func(lw *lifeWriter) error {
		o := st.NewEncodedObject()
		o.SetType(lw.typ)
		o.SetSize(int64(len(lw.content)))
		ow, _ := o.Writer()
		ow.Write(lw.content)
		ow.Close()
		h, err := st.SetEncodedObject(o)
		if err == nil && h.String() != lw.id {
			div("wrong-id", "set", fmt.Sprintf("SetEncodedObject returned %s, the object is %s", h, lw.id))
		}
		return err
	}
	published := func(lw *lifeWriter) {
		out = append(out, lifeObj{lw.id, lw.typ.String(), lw.api, f.name, lw.content, line})
		// the same process reads it back at once
		h, _ := plumbing.FromHex(lw.id)
		o, err := st.EncodedObject(plumbing.AnyObject, h)
		if err != nil {
			div("gogit-cannot-read", lw.api, fmt.Sprintf("EncodedObject(%s) right after Close: %v", lw.id, err))
			return
		}
		rd, err := o.Reader()
		var b []byte
		if err == nil {
			b, err = io.ReadAll(rd)
			rd.Close()
		}
		if err != nil || o.Type() != lw.typ || !bytes.Equal(b, lw.content) {
			div("gogit-reads-different", lw.api, fmt.Sprintf("%s read back as %s, %d bytes, err %v; written %s, %d bytes", lw.id, o.Type(), len(b), err, lw.typ, len(lw.content)))
		}
	}
	if row.Prior != "none" {
		// an earlier writer of this process, closed twice (a checked Close plus a deferred one)
		p := mk(0, row.Prior)
		func() {
			if err := open(p); err != nil {
				div("open-error", p.api, err.Error())
				return
			}
			defer p.w.Close()
			if err := write(p); err != nil {
				div("write-error", p.api, err.Error())
				return
			}
			if err := p.w.Close(); err != nil {
				div("close-error", p.api, err.Error())
				return
			}
			published(p)
		}()
	}
	ws := map[int]*lifeWriter{}
	for _, st := range row.Hist {
		lw := ws[st.W]
		if lw == nil {
			lw = mk(st.W, st.Api)
			ws[st.W] = lw
		}
		var err error
		switch st.Op {
		case "open":
			err = open(lw)
		case "write":
			err = write(lw)
		case "set":
			if err = set(lw); err == nil {
				published(lw)
			}
		case "close":
			if err = lw.w.Close(); err == nil {
				published(lw)
			}
		case "reclose":
			_ = lw.w.Close() // a repeated Close may report "already closed"; what matters is that it changes nothing
		}
		if err != nil {
			div(st.Op+"-error", lw.api, fmt.Sprintf("%s of writer %d failed: %v", st.Op, st.W, err))
			return out
		}
	}
	return out
}

// c01Content renders a content class; salt makes rows distinct where the class has room for it.
func c01Content(class string, salt int) []byte {
	s := fmt.Sprintf("%06d", salt)
	switch class {
	case "empty":
		return nil
	case "onebyte":
		return []byte{byte(salt)}
	case "nul":
		b := bytes.Repeat([]byte{0, 1, 0xff, 0}, 16)
		copy(b[20:], s)
		return b
	case "headerlike":
		return []byte("blob 3\x00abc" + s[3:])
	case "overthreshold":
		b := []byte(strings.Repeat("0123456789abcdef\n", 70000/17+1))[:70000]
		copy(b[100:], s)
		return b
	case "mib":
		b := bytes.Repeat([]byte("the quick brown fox jumps over the lazy dog 0123456789\x00\n"), 1048576/56+1)[:1048576]
		copy(b[1000:], s)
		return b
	}
	panic(class)
}

type c01Repo struct {
	f      objFormat
	bare   string // go-git writes here
	work   string // non-bare, for Worktree.Add
	gitw   string // git writes here, go-git reads
	st     *filesystem.Storage
	stBig  *filesystem.Storage // LargeObjectThreshold 64 KiB
	wrepo  *git.Repository
	gitst  [2]*filesystem.Storage
	readst string
	swdir  string              // directory of the handle below
	swst   *filesystem.Storage // created without a format, switched with SetObjectFormat, never reopened
}

func newC01Repo(f objFormat) (*c01Repo, error) {
	root := gitcli.TempDir("c01" + f.name)
	r := &c01Repo{f: f, bare: filepath.Join(root, "gogit.git"), work: filepath.Join(root, "work"), gitw: filepath.Join(root, "git.git"), readst: filepath.Join(root, "read.git")}
	for _, d := range []string{r.bare, r.gitw, r.readst} {
		if _, err := gitOut(root, nil, "init", "-q", "--bare", "--object-format="+f.name, d); err != nil {
			return nil, err
		}
	}
	if _, err := gitOut(root, nil, "init", "-q", "--object-format="+f.name, r.work); err != nil {
		return nil, err
	}
	r.st = filesystem.NewStorageWithOptions(osfs.New(r.bare), cache.NewObjectLRUDefault(), filesystem.Options{})
	r.stBig = filesystem.NewStorageWithOptions(osfs.New(r.bare), cache.NewObjectLRUDefault(), filesystem.Options{LargeObjectThreshold: 64 << 10})
	// the switched handle: what a clone from a remote of this format does to a fresh storage
	r.swdir = filepath.Join(root, "switched.git")
	if err := os.MkdirAll(r.swdir, 0o755); err != nil {
		return nil, err
	}
	r.swst = filesystem.NewStorageWithOptions(osfs.New(r.swdir), cache.NewObjectLRUDefault(), filesystem.Options{})
	if err := r.swst.Init(); err != nil {
		return nil, fmt.Errorf("Init: %w", err)
	}
	if err := r.swst.SetObjectFormat(gogitFormat(f)); err != nil {
		return nil, fmt.Errorf("SetObjectFormat: %w", err)
	}
	if err := r.swst.SetReference(plumbing.NewSymbolicReference(plumbing.HEAD, plumbing.Master)); err != nil {
		return nil, err
	}
	if err := os.MkdirAll(filepath.Join(r.swdir, "refs", "heads"), 0o755); err != nil {
		return nil, err
	}
	var err error
	r.wrepo, err = git.PlainOpen(r.work)
	if err != nil {
		return nil, fmt.Errorf("PlainOpen: %w", err)
	}
	return r, nil
}

// looseTokens inflates a loose file and splits the header into the spec's tokens.
func looseTokens(path string) (typ string, sp bool, size string, nul bool, content []byte, err error) {
	raw, err := os.ReadFile(path)
	if err != nil {
		return
	}
	zr, err := zlib.NewReader(bytes.NewReader(raw))
	if err != nil {
		return
	}
	b, err := io.ReadAll(zr)
	if err != nil {
		return
	}
	i := bytes.IndexByte(b, ' ')
	j := bytes.IndexByte(b, 0)
	if i < 0 || j < i {
		err = fmt.Errorf("no header in %q", capBytes(b, 40))
		return
	}
	return string(b[:i]), true, string(b[i+1 : j]), true, b[j+1:], nil
}

func c01(args []string) error {
	if len(args) < 1 {
		return fmt.Errorf("usage: c01 rows.ndjson")
	}
	r := rep.New()
	if !gitcli.Available() {
		return fmt.Errorf("c01 needs git (it interprets the digest)")
	}
	repos := map[string]*c01Repo{}
	for _, f := range []objFormat{fmtSHA1, fmtSHA256} {
		rp, err := newC01Repo(f)
		if err != nil {
			return err
		}
		repos[f.name] = rp
	}
	type written struct {
		row     c01Row
		content []byte
		gitID   string
		gogitID string
		line    string
	}
	var ws []written
	type readCase struct {
		row     c01Row
		id      string
		content []byte
	}
	var rs []readCase
	var lifeObjs []lifeObj
	lifeRows := 0
	n := 0
	err := rep.ReadNDJSON(args[0], func(line []byte) error {
		var row c01Row
		if err := json.Unmarshal(line, &row); err != nil {
			return err
		}
		n++
		salt := n*7 + int(rep.Seed())*1000
		if row.Dir == "life" {
			fn := "sha1"
			if (n+int(rep.Seed()))%2 == 1 {
				fn = "sha256"
			}
			rp := repos[fn]
			ln := string(line)
			r.Eval(len(row.Hist))
			lifeRows++
			objs := replayLife(rp.f, rp.st, &row, n, ln, func(class, api, what string) {
				r.Diverge("life|"+class+"|"+api, fmt.Sprintf("writer life cycle (%s, prior %s): %s", fn, row.Prior, what), map[string]any{"row": json.RawMessage(ln), "format": fn})
			})
			lifeObjs = append(lifeObjs, objs...)
			return nil
		}
		if row.Dir == "read" {
			rp := repos[row.R.Fmt]
			content := c01Content(row.R.Content, salt)
			valid := append([]byte(fmt.Sprintf("blob %d\x00", len(content))), content...)
			id := fmt.Sprintf("%x", rp.f.sum(valid))
			var body []byte
			hdr := func(t, sep, size, end string) []byte {
				return append([]byte(t+sep+size+end), content...)
			}
			sz := len(content)
			switch row.R.Mut {
			case "none":
				body = valid
			case "size+1":
				body = hdr("blob", " ", strconv.Itoa(sz+1), "\x00")
			case "size-1":
				body = hdr("blob", " ", strconv.Itoa(sz-1), "\x00")
			case "leading-zero":
				body = hdr("blob", " ", "0"+strconv.Itoa(sz), "\x00")
			case "size-empty":
				body = hdr("blob", " ", "", "\x00")
			case "size-nondigit":
				body = hdr("blob", " ", strconv.Itoa(sz)+"x", "\x00")
			case "size-negative":
				body = hdr("blob", " ", "-"+strconv.Itoa(sz), "\x00")
			case "unknown-type":
				body = hdr("blub", " ", strconv.Itoa(sz), "\x00")
			case "uppercase-type":
				body = hdr("BLOB", " ", strconv.Itoa(sz), "\x00")
			case "no-space":
				body = hdr("blob", "", strconv.Itoa(sz), "\x00")
			case "two-spaces":
				body = hdr("blob", "  ", strconv.Itoa(sz), "\x00")
			case "no-nul":
				body = hdr("blob", " ", strconv.Itoa(sz), "")
			case "trailing-garbage":
				body = append(append([]byte{}, valid...), "garbage"...)
			case "empty-file", "not-zlib", "truncated-zlib":
				body = valid
			default:
				return fmt.Errorf("mutation %q", row.R.Mut)
			}
			file := deflate(body)
			switch row.R.Mut {
			case "empty-file":
				file = nil
			case "not-zlib":
				file = append([]byte("not a zlib stream "), valid...)
			case "truncated-zlib":
				file = file[:len(file)/2]
			}
			p := filepath.Join(rp.readst, "objects", id[:2], id[2:])
			if err := os.MkdirAll(filepath.Dir(p), 0o755); err != nil {
				return err
			}
			if err := os.WriteFile(p, file, 0o444); err != nil {
				return err
			}
			rs = append(rs, readCase{row, id, content})
			return nil
		}
		// ---- write row
		rp := repos[row.W.Fmt]
		content := c01Content(row.W.Content, salt)
		typ, _ := plumbing.ParseObjectType(row.W.Type)
		w := written{row: row, content: content, line: string(line)}
		id, err := gitOut(rp.gitw, content, "hash-object", "-w", "-t", row.W.Type, "--literally", "--stdin")
		if err != nil {
			return err
		}
		w.gitID = id
		key := fmt.Sprintf("%s,%s,%s", row.W.Ep, row.W.Type, row.W.Content)
		div := func(class, what string) {
			r.Diverge("write|"+class+"|"+key, fmt.Sprintf("%s of a %s (%s, %d bytes, %s): %s", row.W.Ep, row.W.Type, row.W.Content, len(content), row.W.Fmt, what),
				map[string]any{"row": json.RawMessage(w.line)})
		}
		r.Eval(1)
		var werr error
		st := rp.st
		if strings.HasPrefix(row.W.Ep, "Switched") {
			st = rp.swst
		}
		switch row.W.Ep {
		case "SwitchedReadBack":
			// git writes into the directory of the switched handle, the handle reads
			gid, err := gitOut(rp.swdir, content, "hash-object", "-w", "-t", row.W.Type, "--literally", "--stdin")
			if err != nil {
				return err
			}
			if gid != id {
				return fmt.Errorf("git names the same content %s and %s in two repositories of one format", gid, id)
			}
			h, _ := plumbing.FromHex(id)
			o, err := st.EncodedObject(plumbing.AnyObject, h)
			if err != nil {
				werr = fmt.Errorf("EncodedObject(%s) on the switched handle: %w", id, err)
				break
			}
			w.gogitID = o.Hash().String()
			rd, err := o.Reader()
			var b []byte
			if err == nil {
				b, err = io.ReadAll(rd)
				rd.Close()
			}
			if err != nil || o.Type() != typ || o.Size() != int64(len(content)) || !bytes.Equal(b, content) {
				div("reads-git-object-differently", fmt.Sprintf("type %s Size %d, %d bytes, err %v; git wrote %s, %d bytes", o.Type(), o.Size(), len(b), err, row.W.Type, len(content)))
			}
		case "SetEncodedObject", "SwitchedSetEncodedObject":
			o := st.NewEncodedObject()
			o.SetType(typ)
			o.SetSize(int64(len(content)))
			ow, _ := o.Writer()
			ow.Write(content)
			ow.Close()
			var h plumbing.Hash
			h, werr = st.SetEncodedObject(o)
			w.gogitID = h.String()
		case "RawObjectWriter":
			var ow io.WriteCloser
			ow, werr = rp.st.RawObjectWriter(typ, int64(len(content)))
			if werr == nil {
				_, werr = ow.Write(content)
				if cerr := ow.Close(); werr == nil {
					werr = cerr
				}
			}
		case "LazyWriter", "SwitchedLazyWriter":
			ow, wh, err := st.LazyWriter()
			werr = err
			if werr == nil {
				werr = wh(typ, int64(len(content)))
				if werr == nil {
					_, werr = ow.Write(content)
				}
				if cerr := ow.Close(); werr == nil {
					werr = cerr
				}
			}
		case "WorktreeAdd":
			name := fmt.Sprintf("f%04d", n)
			if err := os.WriteFile(filepath.Join(rp.work, name), content, 0o644); err != nil {
				return err
			}
			wt, err := rp.wrepo.Worktree()
			if err != nil {
				return err
			}
			var h plumbing.Hash
			h, werr = wt.Add(name)
			w.gogitID = h.String()
		case "ObjectHasher":
			h, err := plumbing.FromObjectFormat(gogitFormat(rp.f)).Compute(typ, content)
			werr = err
			w.gogitID = h.String()
			mo := plumbing.NewMemoryObject(plumbing.FromObjectFormat(gogitFormat(rp.f)))
			mo.SetType(typ)
			mo.Write(content)
			if mo.Hash().String() != id {
				div("wrong-id", fmt.Sprintf("MemoryObject.Hash()=%s, git hash-object says %s", mo.Hash(), id))
			}
		}
		if werr != nil {
			div("error", werr.Error())
			return nil
		}
		if w.gogitID != "" && w.gogitID != id {
			div("wrong-id", fmt.Sprintf("go-git names it %s, git hash-object says %s", w.gogitID, id))
		}
		if row.Expect.Stored {
			dir := rp.bare
			if row.W.Ep == "WorktreeAdd" {
				dir = filepath.Join(rp.work, ".git")
			}
			if strings.HasPrefix(row.W.Ep, "Switched") {
				dir = rp.swdir
			}
			p := filepath.Join(dir, "objects", id[:row.Expect.Dirlen], id[row.Expect.Dirlen:])
			if len(id[row.Expect.Dirlen:]) != row.Expect.Filelen {
				return fmt.Errorf("spec file name length %d, id %s", row.Expect.Filelen, id)
			}
			t, sp, size, nul, body, err := looseTokens(p)
			if err != nil {
				div("loose-file", fmt.Sprintf("no readable loose object at objects/%s/%s: %v", id[:2], id[2:], err))
			} else {
				want := row.Expect.Header
				if t != want[0].(string) || !sp || size != fmt.Sprint(int(want[2].(float64))) || !nul {
					div("header", fmt.Sprintf("header tokens <%s SP %s NUL>, spec <%v SP %v NUL>", t, size, want[0], want[2]))
				}
				if !bytes.Equal(body, content) {
					div("stored-bytes", fmt.Sprintf("stored %d bytes differ from the %d written", len(body), len(content)))
				}
			}
		}
		ws = append(ws, w)
		r.Sample(map[string]any{"entry": row.W.Ep, "type": row.W.Type, "format": row.W.Fmt, "content": row.W.Content, "id": id})
		return nil
	})
	if err != nil {
		return err
	}
	// git reads what go-git wrote (one cat-file --batch per directory)
	for _, f := range []string{"sha1", "sha256"} {
		rp := repos[f]
		for _, dir := range []string{rp.bare, filepath.Join(rp.work, ".git"), rp.swdir} {
			var ids []string
			var sel []written
			for _, w := range ws {
				wdir := rp.bare
				if w.row.W.Ep == "WorktreeAdd" {
					wdir = filepath.Join(rp.work, ".git")
				} else if strings.HasPrefix(w.row.W.Ep, "Switched") {
					wdir = rp.swdir
				}
				if w.row.W.Fmt == f && w.row.Expect.Stored && wdir == dir {
					ids = append(ids, w.gitID)
					sel = append(sel, w)
				}
			}
			got, err := catFile(dir, ids)
			if err != nil && len(ids) > 0 {
				// git died on (or garbled) some object go-git wrote: ask object by object; what git cannot
				// deliver is reported below as git-cannot-read
				got = map[string]wantObj{}
				for _, id := range ids {
					if one, oerr := catFile(dir, []string{id}); oerr == nil {
						if g, ok := one[id]; ok {
							got[id] = g
						}
					}
				}
			}
			for _, w := range sel {
				r.Eval(1)
				g, ok := got[w.gitID]
				key := fmt.Sprintf("%s,%s,%s", w.row.W.Ep, w.row.W.Type, w.row.W.Content)
				switch {
				case !ok:
					r.Diverge("write|git-cannot-read|"+key, fmt.Sprintf("git cat-file does not find %s written through %s", w.gitID, w.row.W.Ep), map[string]any{"row": json.RawMessage(w.line)})
				case g.typ != w.row.W.Type || !bytes.Equal(g.content, w.content):
					r.Diverge("write|git-reads-different|"+key, fmt.Sprintf("git cat-file reads %s %d bytes, written %s %d bytes", g.typ, len(g.content), w.row.W.Type, len(w.content)), map[string]any{"row": json.RawMessage(w.line)})
				}
			}
		}
		// go-git reads what git wrote, default options and LargeObjectThreshold
		for k, opt := range []filesystem.Options{{}, {LargeObjectThreshold: 64 << 10}} {
			st := filesystem.NewStorageWithOptions(osfs.New(rp.gitw), cache.NewObjectLRUDefault(), opt)
			for _, w := range ws {
				if w.row.W.Fmt != f || w.row.W.Ep != "SetEncodedObject" {
					continue // one git-written object per (type, content) suffices: ids do not depend on the entry point
				}
				r.Eval(1)
				key := fmt.Sprintf("%s,%s", w.row.W.Type, w.row.W.Content)
				_ = k
				h, _ := plumbing.FromHex(w.gitID)
				o, err := st.EncodedObject(plumbing.AnyObject, h)
				if err != nil {
					r.Diverge("read|cannot-read-git-object|"+key, fmt.Sprintf("EncodedObject(%s) written by git hash-object: %v", w.gitID, err), nil)
					continue
				}
				rd, err := o.Reader()
				var b []byte
				if err == nil {
					b, err = io.ReadAll(rd)
					rd.Close()
				}
				if err != nil || o.Type().String() != w.row.W.Type || o.Size() != int64(len(w.content)) || !bytes.Equal(b, w.content) || o.Hash().String() != w.gitID {
					r.Diverge("read|reads-git-object-differently|"+key, fmt.Sprintf("go-git reads %s as %s, %d bytes (Size %d, err %v); git wrote %s, %d bytes", w.gitID, o.Type(), len(b), o.Size(), err, w.row.W.Type, len(w.content)), nil)
				}
			}
			st.Close()
		}
	}
	// ---- life rows: git reads every object a closed writer published (one cat-file --batch per format)
	for _, f := range []string{"sha1", "sha256"} {
		var ids []string
		var sel []lifeObj
		for _, o := range lifeObjs {
			if o.fmt == f {
				ids = append(ids, o.id)
				sel = append(sel, o)
			}
		}
		if len(ids) == 0 {
			continue
		}
		dir := repos[f].bare
		got, err := catFile(dir, ids)
		if err != nil {
			got = map[string]wantObj{}
			for _, id := range ids {
				if one, oerr := catFile(dir, []string{id}); oerr == nil {
					if g, ok := one[id]; ok {
						got[id] = g
					}
				}
			}
		}
		for _, o := range sel {
			r.Eval(1)
			g, ok := got[o.id]
			switch {
			case !ok:
				r.Diverge("life|git-cannot-read|"+o.api, fmt.Sprintf("git cat-file cannot read %s (%s, %d bytes) published by a closed %s writer", o.id, o.typ, len(o.content), o.api), map[string]any{"row": json.RawMessage(o.line), "format": f})
			case g.typ != o.typ || !bytes.Equal(g.content, o.content):
				r.Diverge("life|git-reads-different|"+o.api, fmt.Sprintf("git cat-file reads %s as %s, %d bytes; the %s writer wrote %s, %d bytes", o.id, g.typ, len(g.content), o.api, o.typ, len(o.content)), map[string]any{"row": json.RawMessage(o.line), "format": f})
			}
		}
	}
	// ---- read rows: three-way
	for _, f := range []string{"sha1", "sha256"} {
		rp := repos[f]
		var ids []string
		var sel []readCase
		for _, c := range rs {
			if c.row.R.Fmt == f {
				ids = append(ids, c.id)
				sel = append(sel, c)
			}
		}
		if len(sel) == 0 {
			continue
		}
		oks, err := gitcli.BatchOK(rp.readst, []string{"cat-file", "blob"}, ids)
		if err != nil {
			return err
		}
		for k, opt := range []filesystem.Options{{}, {LargeObjectThreshold: 64 << 10}} {
			st := filesystem.NewStorageWithOptions(osfs.New(rp.readst), cache.NewObjectLRUDefault(), opt)
			for i, c := range sel {
				r.Eval(1)
				specAccept := c.row.Verdict != "reject"
				if k == 0 && oks[i] != specAccept {
					r.SpecError(map[string]any{"mutation": c.row.R.Mut, "content": c.row.R.Content, "format": f, "spec": c.row.Verdict, "git_accepts": oks[i]})
					continue
				}
				h, _ := plumbing.FromHex(c.id)
				o, err := st.EncodedObject(plumbing.AnyObject, h)
				var b []byte
				if err == nil {
					var rd io.ReadCloser
					rd, err = o.Reader()
					if err == nil {
						b, err = io.ReadAll(rd)
						if cerr := rd.Close(); err == nil {
							err = cerr
						}
					}
				}
				accepted := err == nil
				if c.row.Verdict == "lenient" {
					continue // git's CLI does not enforce the length rules on this path: nothing to compare
				}
				key := c.row.R.Mut
				switch {
				case accepted && !specAccept:
					r.Diverge("read|accepts-invalid-loose-object|"+key, fmt.Sprintf("go-git reads a loose object git refuses (%s; content %s, LargeObjectThreshold row %d): type %s, Size %d, %d bytes", c.row.R.Mut, c.row.R.Content, k, o.Type(), o.Size(), len(b)), map[string]any{"mutation": c.row.R.Mut, "format": f})
				case !accepted && specAccept:
					r.Diverge("read|rejects-valid-loose-object|"+key, fmt.Sprintf("go-git cannot read a valid loose object: %v", err), map[string]any{"format": f})
				case accepted && (!bytes.Equal(b, c.content) || o.Size() != int64(len(c.content)) || o.Type() != plumbing.BlobObject):
					r.Diverge("read|reads-valid-loose-object-differently|"+key, fmt.Sprintf("type %s Size %d, %d bytes read; stored blob of %d bytes", o.Type(), o.Size(), len(b), len(c.content)), map[string]any{"format": f})
				}
			}
			st.Close()
		}
	}
	r.Distinct = n
	r.Traces = n
	r.Extra["life_rows"] = lifeRows
	r.Extra["life_objects"] = len(lifeObjs)
	r.Extra["write_rows"] = len(ws)
	r.Extra["read_rows"] = len(rs)
	r.Extra["git_leg"] = true
	return r.Emit()
}
