// Command vhpack is the conformance harness for the pack / object-store properties
// (C09, C07, C08, C11, C01).
package main

import "verifharness/internal/rep"

func main() { rep.Main() }
