package main

// C09: every abstract pack enumerated by TLC from spec/abstract/PackGraph.tla (base graph x
// corruption classes, verdict computed in TLA+) is rendered to bytes and fed to go-git's
// Scanner, Parser (several modes) and storage PackfileWriter; everything go-git returns is
// re-hashed.  git leg: `git index-pack` on a seeded sample (spec vs git => SpecError).

import (
	"bytes"
	"encoding/binary"
	"encoding/hex"
	"encoding/json"
	"errors"
	"fmt"
	"io"
	"math/rand"
	"os"
	"path/filepath"
	"runtime"
	"runtime/pprof"
	"sort"
	"strings"
	"sync"
	"time"

	"github.com/go-git/go-billy/v6"
	"github.com/go-git/go-billy/v6/memfs"
	"github.com/go-git/go-git/v6/plumbing"
	"github.com/go-git/go-git/v6/plumbing/cache"
	formatcfg "github.com/go-git/go-git/v6/plumbing/format/config"
	"github.com/go-git/go-git/v6/plumbing/format/packfile"
	"github.com/go-git/go-git/v6/plumbing/storer"
	"github.com/go-git/go-git/v6/storage/filesystem"
	"github.com/go-git/go-git/v6/storage/memory"

	"verifharness/internal/gitcli"
	"verifharness/internal/rep"
)

func init() { rep.Register("c09", c09) }

// yield: one object go-git handed out (or stored) under a name
type yield struct {
	id      string
	typ     string
	content []byte // nil when the API reports only (name, offset)
	offset  int64  // -1 when unknown
	hasData bool
}

type legResult struct {
	err    error
	yields []yield
	panicv any
	hang   bool
}

type leg struct {
	name string
	op   string // API entry point: the operation part of finding signatures
	// stream: the leg is a purely sequential reader, judged by the spec's StreamVerdict
	stream bool
	run    func(f objFormat, data []byte) legResult
}

type onlyReader struct{ r io.Reader }

func (o onlyReader) Read(p []byte) (int, error) { return o.r.Read(p) }

func gogitFormat(f objFormat) formatcfg.ObjectFormat {
	if f.name == "sha256" {
		return formatcfg.SHA256
	}
	return formatcfg.SHA1
}

func mkReader(data []byte, seekable bool) io.Reader {
	if seekable {
		return bytes.NewReader(data)
	}
	return onlyReader{bytes.NewReader(data)}
}

// ---- Scanner ----

func scannerLeg(seekable bool) func(objFormat, []byte) legResult {
	return func(f objFormat, data []byte) legResult {
		var opts []packfile.ScannerOption
		if f.name == "sha256" {
			opts = append(opts, packfile.WithSHA256())
		}
		sc := packfile.NewScanner(mkReader(data, seekable), opts...)
		var heads []packfile.ObjectHeader
		for sc.Scan() {
			d := sc.Data()
			if d.Section == packfile.ObjectSection {
				oh := d.Value().(packfile.ObjectHeader)
				if !oh.Type.IsDelta() {
					heads = append(heads, oh)
				}
			}
		}
		res := legResult{err: sc.Error()}
		if res.err != nil {
			return res
		}
		for i := range heads {
			oh := heads[i]
			var buf bytes.Buffer
			y := yield{id: oh.Hash.String(), typ: oh.Type.String(), offset: oh.Offset}
			if err := sc.WriteObject(&oh, &buf); err == nil {
				y.content, y.hasData = buf.Bytes(), true
				if int64(buf.Len()) != oh.Size {
					// the header the scanner handed out disagrees with the content it hands out
					y.typ = fmt.Sprintf("%s(size %d, content %d)", y.typ, oh.Size, buf.Len())
				}
			}
			res.yields = append(res.yields, y)
		}
		return res
	}
}

// ---- Parser ----

type recObserver struct {
	typ  map[int64]plumbing.ObjectType
	out  []yield
	last int64
}

func (o *recObserver) OnHeader(uint32) error { return nil }
func (o *recObserver) OnInflatedObjectHeader(t plumbing.ObjectType, _ int64, pos int64) error {
	o.typ[pos] = t
	return nil
}
func (o *recObserver) OnInflatedObjectContent(h plumbing.Hash, pos int64, _ uint32, _ []byte) error {
	o.out = append(o.out, yield{id: h.String(), typ: o.typ[pos].String(), offset: pos})
	return nil
}
func (o *recObserver) OnFooter(plumbing.Hash) error { return nil }

func readAllObjects(s storer.EncodedObjectStorer) ([]yield, error) {
	it, err := s.IterEncodedObjects(plumbing.AnyObject)
	if err != nil {
		return nil, err
	}
	var out []yield
	err = it.ForEach(func(o plumbing.EncodedObject) error {
		r, err := o.Reader()
		if err != nil {
			return fmt.Errorf("reader %s: %w", o.Hash(), err)
		}
		b, err := io.ReadAll(r)
		r.Close()
		if err != nil {
			return fmt.Errorf("read %s: %w", o.Hash(), err)
		}
		y := yield{id: o.Hash().String(), typ: o.Type().String(), content: b, offset: -1, hasData: true}
		if int64(len(b)) != o.Size() {
			y.typ = fmt.Sprintf("%s(size %d, content %d)", y.typ, o.Size(), len(b))
		}
		out = append(out, y)
		return nil
	})
	return out, err
}

func newFS(f objFormat, fs billy.Filesystem, high bool) *filesystem.Storage {
	return filesystem.NewStorageWithOptions(fs, cache.NewObjectLRUDefault(),
		filesystem.Options{HighMemoryMode: high, ObjectFormat: gogitFormat(f)})
}

// parserLeg: storage in {"none","memory","fs-low","fs-high"}
func parserLeg(storage string, seekable bool) func(objFormat, []byte) legResult {
	return func(f objFormat, data []byte) legResult {
		obs := &recObserver{typ: map[int64]plumbing.ObjectType{}}
		opts := []packfile.ParserOption{packfile.WithScannerObservers(obs), packfile.WithObjectFormat(gogitFormat(f))}
		var mem *memory.Storage
		var fs billy.Filesystem
		switch storage {
		case "memory":
			mem = memory.NewStorage(memory.WithObjectFormat(gogitFormat(f)))
			opts = append(opts, packfile.WithStorage(mem))
		case "fs-low", "fs-high":
			fs = memfs.New()
			st := newFS(f, fs, storage == "fs-high")
			defer st.Close()
			opts = append(opts, packfile.WithStorage(st))
		}
		p := packfile.NewParser(mkReader(data, seekable), opts...)
		_, err := p.Parse()
		res := legResult{err: err}
		// what was announced to observers is only a result when Parse succeeded;
		// what was written to the storage stays there either way.
		if err == nil {
			res.yields = append(res.yields, obs.out...)
		}
		switch {
		case mem != nil:
			// the map key is the name under which the object is served
			for k, o := range mem.Objects {
				r, _ := o.Reader()
				b, _ := io.ReadAll(r)
				res.yields = append(res.yields, yield{id: k.String(), typ: o.Type().String(), content: b, offset: -1, hasData: true})
			}
		case fs != nil:
			st := newFS(f, fs, false)
			ys, rerr := readAllObjects(st)
			st.Close()
			if rerr != nil && err == nil {
				res.err = fmt.Errorf("read back after successful parse: %w", rerr)
				res.yields = nil
				return res
			}
			res.yields = append(res.yields, ys...)
		}
		return res
	}
}

// ---- storage PackfileWriter ----

func packWriterLeg(chunk int) func(objFormat, []byte) legResult {
	return func(f objFormat, data []byte) legResult {
		fs := memfs.New()
		st := newFS(f, fs, false)
		w, err := st.PackfileWriter()
		if err != nil {
			return legResult{err: fmt.Errorf("PackfileWriter: %w", err)}
		}
		var werr error
		for off := 0; off < len(data) && werr == nil; off += chunk {
			end := off + chunk
			if end > len(data) {
				end = len(data)
			}
			_, werr = w.Write(data[off:end])
		}
		cerr := w.Close()
		st.Close()
		res := legResult{err: errors.Join(werr, cerr)}
		st2 := newFS(f, fs, false)
		ys, rerr := readAllObjects(st2)
		st2.Close()
		if res.err == nil && rerr != nil {
			res.err = fmt.Errorf("read back after successful write: %w", rerr)
			return res
		}
		if res.err == nil && len(data) > 0 {
			// an accepted pack must have been kept
			if fis, _ := fs.ReadDir("objects/pack"); len(fis) == 0 {
				res.err = fmt.Errorf("pack silently dropped")
				return res
			}
		}
		res.yields = ys
		return res
	}
}

var c09Legs = []leg{
	{"Scanner[seek]", "Scanner", true, scannerLeg(true)},
	{"Scanner[stream]", "Scanner", true, scannerLeg(false)},
	{"Parser[nostorage,seek]", "Parser", false, parserLeg("none", true)},
	{"Parser[nostorage,stream]", "Parser", false, parserLeg("none", false)},
	{"Parser[memory,stream]", "Parser+storage", false, parserLeg("memory", false)},
	{"Parser[fs-lowmem,seek]", "Parser+storage", false, parserLeg("fs-low", true)},
	{"Parser[fs-highmem,seek]", "Parser+storage", false, parserLeg("fs-high", true)},
	{"PackfileWriter[fs]", "PackfileWriter", false, packWriterLeg(1 << 20)},
	{"PackfileWriter[fs,chunk7]", "PackfileWriter", false, packWriterLeg(7)},
}

func runLeg(l leg, f objFormat, data []byte) (res legResult) {
	done := make(chan legResult, 1)
	go func() {
		defer func() {
			if p := recover(); p != nil {
				done <- legResult{panicv: p}
			}
		}()
		done <- l.run(f, data)
	}()
	select {
	case res = <-done:
		return res
	case <-time.After(180 * time.Second):
		return legResult{hang: true}
	}
}

// tagKey: the classes that matter for the signature (benign / lenient ones only when alone)
func tagKey(tags []string) string {
	var hard []string
	for _, t := range tags {
		switch t {
		case "DupFull", "Depth-under", "Depth-max", "Version3", "TrailingJunk", "Depth-over", "Thin":
		default:
			hard = append(hard, t)
		}
	}
	if len(hard) == 0 {
		hard = tags
	}
	if len(hard) == 0 {
		return "base"
	}
	s := append([]string{}, hard...)
	sort.Strings(s)
	return strings.Join(s, "+")
}

func shapeKey(r *pgRow) string {
	var b strings.Builder
	for i, e := range r.Es {
		if i > 0 {
			b.WriteByte(' ')
		}
		switch e.K {
		case "ofs", "ref":
			fmt.Fprintf(&b, "%s(%d)", e.K, e.B)
		default:
			b.WriteString(e.K)
		}
	}
	return b.String()
}

func idxIDs(path string, f objFormat) ([]string, error) {
	b, err := os.ReadFile(path)
	if err != nil {
		return nil, err
	}
	if len(b) < 8+256*4 || !bytes.Equal(b[:4], []byte{0xff, 't', 'O', 'c'}) {
		return nil, fmt.Errorf("not a v2 idx")
	}
	n := int(binary.BigEndian.Uint32(b[8+255*4:]))
	var ids []string
	p := 8 + 256*4
	for i := 0; i < n; i++ {
		ids = append(ids, hex.EncodeToString(b[p:p+f.size]))
		p += f.size
	}
	return ids, nil
}

type c09Div struct {
	sig, what string
	c         any
	// accepts-rejected only: operation and the spec defects of the row; the signature key is
	// fixed after the whole shard is seen (see missedSingles)
	op      string
	defects []string
}

type c09RowResult struct {
	evals   int
	divs    []c09Div
	sample  any
	err     error
	legTime map[string]time.Duration
}

// evalRow renders one abstract pack in format f and judges every go-git leg against the spec verdict.
func evalRow(row *pgRow, line []byte, f objFormat) (out c09RowResult) {
	out.legTime = map[string]time.Duration{}
	rd := render(f, row)
	tk := tagKey(row.Tags)
	keyOf := func(defects []string) string {
		if len(defects) == 0 {
			return tk
		}
		return strings.Join(defects, "+")
	}
	diverge := func(sig, what string, c any) { out.divs = append(out.divs, c09Div{sig: sig, what: what, c: c}) }
	caseOf := func(extra map[string]any) map[string]any {
		m := map[string]any{"format": f.name, "shape": shapeKey(row), "tags": row.Tags, "spec_verdict": row.V,
			"spec_stream_verdict": row.Sv, "spec_defects": row.Why, "row": json.RawMessage(line), "pack_hex": hex.EncodeToString(capBytes(rd.bytes, 600))}
		for k, v := range extra {
			m[k] = v
		}
		return m
	}
	if row.V == "accept" {
		// renderer self-check: what the spec resolves is what was written
		for _, w := range rd.atOffset {
			if _, ok := rd.want[w.id]; !ok {
				out.err = fmt.Errorf("renderer and spec disagree on the objects of an accepted row: %s", line)
				return out
			}
		}
	}
	for _, l := range c09Legs {
		v, why := row.V, keyOf(row.Why)
		if l.stream {
			v, why = row.Sv, keyOf(row.Swhy)
		}
		t0 := time.Now()
		res := runLeg(l, f, rd.bytes)
		out.legTime[l.name] += time.Since(t0)
		out.evals++
		switch {
		case res.panicv != nil:
			diverge(l.op+"|panic|"+why, fmt.Sprintf("%s panicked on a %s pack (%v): %v", l.name, v, row.Tags, res.panicv), caseOf(nil))
			continue
		case res.hang:
			diverge(l.op+"|hang|"+why, fmt.Sprintf("%s did not return within 180s on a %s pack (%v)", l.name, v, row.Tags), caseOf(nil))
			continue
		}
		accepted := res.err == nil
		if v == "reject" && accepted {
			d := row.Why
			if l.stream {
				d = row.Swhy
			}
			out.divs = append(out.divs, c09Div{what: fmt.Sprintf("%s accepted a pack the spec (and git index-pack) rejects: defects %v", l.name, d),
				c: caseOf(nil), op: l.op, defects: d})
		}
		if v == "accept" && !accepted {
			diverge(l.op+"|rejects-valid|"+tk,
				fmt.Sprintf("%s rejected a structurally valid pack (%v): %v", l.name, row.Tags, res.err), caseOf(map[string]any{"error": res.err.Error()}))
		}
		// whatever was yielded or stored must hash to its name
		got := map[string]bool{}
		for _, y := range res.yields {
			got[y.id] = true
			if y.hasData {
				re := hex.EncodeToString(f.objectID(y.typ, y.content))
				if re != y.id {
					cls := "wrong-object"
					if !accepted {
						cls = "wrong-object-stored-by-rejected-pack"
					}
					// attribute the object to the entry that carries these bytes: its own defects are the key
					ek := why
					if i, ok := rd.entryOf[string(y.content)]; ok && len(row.Es[i-1].Ed) > 0 {
						ek = strings.Join(row.Es[i-1].Ed, "+")
					}
					if strings.Trim(y.id, "0") == "" {
						// an object served under the all-zero id: which corruption makes an entry fail before
						// its first byte is a matter of byte luck (e.g. the trailer read as an entry), the
						// scenario is "incomplete object committed under the null id"
						ek = "zero-id"
					}
					diverge(l.op+"|"+cls+"|"+ek,
						fmt.Sprintf("%s yields object %s (%s, %d bytes) whose content hashes to %s (%v)", l.name, y.id, y.typ, len(y.content), re, row.Tags),
						caseOf(map[string]any{"name": y.id, "rehash": re, "type": y.typ, "accepted": accepted}))
				}
			} else if accepted && v != "reject" {
				// name announced for an offset: must be the object rendered there
				if w, ok := rd.atOffset[y.offset]; !ok || w.id != y.id || w.typ != y.typ {
					diverge(l.op+"|wrong-name-at-offset|"+why,
						fmt.Sprintf("%s announces %s %s at offset %d, the pack has %s %s there (%v)", l.name, y.typ, y.id, y.offset, w.typ, w.id, row.Tags),
						caseOf(map[string]any{"name": y.id, "offset": y.offset}))
				}
			}
		}
		if accepted && v == "accept" && !l.stream {
			var miss, extra []string
			for id := range rd.want {
				if !got[id] {
					miss = append(miss, id)
				}
			}
			for id := range got {
				if _, ok := rd.want[id]; !ok {
					extra = append(extra, id)
				}
			}
			if len(miss)+len(extra) > 0 {
				sort.Strings(miss)
				sort.Strings(extra)
				diverge(l.op+"|wrong-object-set|"+tk,
					fmt.Sprintf("%s accepted the pack but returned a different object set (missing %d, unexpected %d) (%v)", l.name, len(miss), len(extra), row.Tags),
					caseOf(map[string]any{"missing": miss, "unexpected": extra}))
			}
		}
	}
	out.sample = map[string]any{"shape": shapeKey(row), "tags": row.Tags, "spec": row.V, "format": f.name, "bytes": len(rd.bytes)}
	return out
}

type c09Item struct {
	row  *pgRow
	line []byte
	fmt  objFormat
	res  c09RowResult
}

func c09(args []string) error {
	if len(args) < 1 {
		return fmt.Errorf("usage: c09 rows.ndjson [gitlimit]")
	}
	r := rep.New()
	if pp := os.Getenv("VERIF_PPROF"); pp != "" {
		fh, _ := os.Create(pp)
		pprof.StartCPUProfile(fh)
		defer pprof.StopCPUProfile()
	}
	rnd := rand.New(rand.NewSource(rep.Seed()))
	gitLimit := 2000
	if rep.Thorough() {
		gitLimit = 20000
	}
	if len(args) > 1 {
		fmt.Sscanf(args[1], "%d", &gitLimit)
	}
	gitOK := gitcli.Available() && gitLimit > 0
	gitDir := ""
	if gitOK {
		gitDir = gitcli.TempDir("c09git")
	}
	type gitJob struct {
		file string
		row  *pgRow
		fmt  objFormat
		pri  int64
	}
	var jobs []gitJob // bounded: the gitLimit best priorities seen so far
	distinct := 0
	verdicts := map[string]int{}
	classes := map[string]int{}
	rowNo := 0
	legTime := map[string]time.Duration{}
	workers := runtime.NumCPU() / 2
	if workers < 2 {
		workers = 2
	}
	if workers > 8 {
		workers = 8
	}
	var batch []*c09Item
	// signature normalisation for accepted-but-rejected packs: a pack with several defects is keyed by
	// those of its defects that the same operation also misses when they occur alone (the root cause);
	// only if none is, by the whole defect set.
	var pending []c09Div
	missedSingles := map[string]bool{}
	flush := func() error {
		var wg sync.WaitGroup
		ch := make(chan *c09Item)
		for w := 0; w < workers; w++ {
			wg.Add(1)
			go func() {
				defer wg.Done()
				for it := range ch {
					it.res = evalRow(it.row, it.line, it.fmt)
				}
			}()
		}
		for _, it := range batch {
			ch <- it
		}
		close(ch)
		wg.Wait()
		// merge in row order: the report does not depend on scheduling
		for _, it := range batch {
			if it.res.err != nil {
				return it.res.err
			}
			r.Eval(it.res.evals)
			for _, d := range it.res.divs {
				if d.op != "" {
					pending = append(pending, d)
					if len(d.defects) == 1 {
						missedSingles[d.op+"|"+d.defects[0]] = true
					}
					continue
				}
				r.Diverge(d.sig, d.what, d.c)
			}
			r.Sample(it.res.sample)
			for k, v := range it.res.legTime {
				legTime[k] += v
			}
		}
		batch = batch[:0]
		return nil
	}
	err := rep.ReadNDJSON(args[0], func(line []byte) error {
		row := new(pgRow)
		line = append([]byte{}, line...)
		if err := json.Unmarshal(line, row); err != nil {
			return err
		}
		rowNo++
		// object format: SHA-1 everywhere; a seeded quarter of the rows also in SHA-256
		fmts := []objFormat{fmtSHA1}
		if rnd.Intn(4) == 0 {
			fmts = append(fmts, fmtSHA256)
		}
		verdicts[row.V]++
		for _, t := range row.Tags {
			classes[t]++
		}
		for _, f := range fmts {
			distinct++
			batch = append(batch, &c09Item{row: row, line: line, fmt: f})
			if gitOK {
				// priority: fewer corruption steps first, then seeded; deep chains are large, few of them
				pri := int64(len(row.Tags))<<40 | int64(rnd.Intn(1<<30))
				if row.Extra > 0 {
					pri |= 1 << 39
				}
				jobs = append(jobs, gitJob{row: row, fmt: f, pri: pri})
				if len(jobs) > 4*gitLimit+64 {
					sort.Slice(jobs, func(i, j int) bool { return jobs[i].pri < jobs[j].pri })
					jobs = jobs[:gitLimit]
				}
			}
		}
		if len(batch) >= 512 {
			return flush()
		}
		return nil
	})
	if err == nil {
		err = flush()
	}
	if err != nil {
		return err
	}
	for _, d := range pending {
		var key []string
		for _, x := range d.defects {
			if missedSingles[d.op+"|"+x] {
				key = append(key, x)
			}
		}
		if len(key) == 0 {
			key = d.defects
		}
		r.Diverge(d.op+"|accepts-rejected|"+strings.Join(key, "+"), d.what, d.c)
	}
	// ---- git leg: spec vs git (disagreement = SpecError) on a seeded sample; single-step rows first
	gitChecked := 0
	if gitOK && len(jobs) > 0 {
		sort.Slice(jobs, func(i, j int) bool { return jobs[i].pri < jobs[j].pri })
		var sel []gitJob
		deep := 0
		for _, j := range jobs {
			if j.row.Extra > 0 {
				deep++
				if deep > 8 {
					continue
				}
			}
			sel = append(sel, j)
			if len(sel) >= gitLimit {
				break
			}
		}
		byFmt := map[string][]int{}
		wants := make([]map[string]wantObj, len(sel))
		for i := range sel {
			rd := render(sel[i].fmt, sel[i].row)
			wants[i] = rd.want
			sel[i].file = filepath.Join(gitDir, fmt.Sprintf("p%06d.pack", i))
			if err := os.WriteFile(sel[i].file, rd.bytes, 0o644); err != nil {
				return err
			}
			byFmt[sel[i].fmt.name] = append(byFmt[sel[i].fmt.name], i)
		}
		for _, name := range []string{"sha1", "sha256"} {
			idxs := byFmt[name]
			if len(idxs) == 0 {
				continue
			}
			files := make([]string, len(idxs))
			for k, i := range idxs {
				files[k] = sel[i].file
			}
			oks, err := gitcli.BatchOK(gitDir, []string{"index-pack", "--object-format=" + name}, files)
			if err != nil {
				return err
			}
			for k, i := range idxs {
				j := sel[i]
				gitChecked++
				specAccepts := j.row.V != "reject"
				if j.row.Junk && j.row.V == "may" {
					// a regular file with bytes after the trailer is refused by index-pack, the same
					// bytes on a pipe are not: no expectation
					continue
				}
				if oks[k] != specAccepts {
					r.SpecError(map[string]any{"format": name, "tags": j.row.Tags, "shape": shapeKey(j.row), "spec": j.row.V, "git_accepts": oks[k]})
					continue
				}
				if oks[k] && j.row.V == "accept" {
					ids, err := idxIDs(strings.TrimSuffix(j.file, ".pack")+".idx", j.fmt)
					if err != nil {
						return err
					}
					set := map[string]bool{}
					for _, id := range ids {
						set[id] = true
					}
					same := len(set) == len(wants[i])
					for id := range wants[i] {
						same = same && set[id]
					}
					if !same {
						r.SpecError(map[string]any{"format": name, "tags": j.row.Tags, "shape": shapeKey(j.row), "what": "git resolves a different object set", "git": ids})
					}
				}
			}
		}
	}
	r.Distinct = distinct
	r.Traces = rowNo
	r.Extra["git_leg"] = gitOK
	r.Extra["git_checked"] = gitChecked
	r.Extra["spec_verdicts"] = verdicts
	r.Extra["corruption_classes"] = classes
	r.Extra["gogit_legs"] = legNames()
	lt := map[string]float64{}
	for k, v := range legTime {
		lt[k] = float64(int(v.Seconds()*100)) / 100
	}
	r.Extra["leg_seconds"] = lt
	return r.Emit()
}

func legNames() []string {
	var s []string
	for _, l := range c09Legs {
		s = append(s, l.name)
	}
	return s
}

func capBytes(b []byte, n int) []byte {
	if len(b) > n {
		return b[:n]
	}
	return b
}
