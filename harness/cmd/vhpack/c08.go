package main

// C08: packs are indexed by go-git exactly as git indexes them.
//   c08a rows.ndjson out.recs out.idx   spec-generated packs (accepted PackGraph states incl. duplicates and thin packs)
//   c08b scen.ndjson out.recs out.idx   packs written by `git pack-objects` over generated histories (option matrix of PackSource.tla)
// For every pack: go-git Parser in five modes (+ storage PackfileWriter), the objects it resolves
// (-> record for PackRecord.tla, entry ids taken from go-git), the idx/rev bytes it writes
// (-> tokens for PackIndex.tla and `cmp` with git index-pack --rev-index).

import (
	"bytes"
	"crypto/sha1"
	"crypto/sha256"
	"encoding/binary"
	"encoding/hex"
	"encoding/json"
	"fmt"
	"hash"
	"hash/crc32"
	"io"
	"math/rand"
	"os"
	"os/exec"
	"path/filepath"
	"sort"
	"strings"

	"github.com/go-git/go-billy/v6"
	"github.com/go-git/go-billy/v6/memfs"
	"github.com/go-git/go-billy/v6/osfs"
	"github.com/go-git/go-git/v6/plumbing"
	"github.com/go-git/go-git/v6/plumbing/format/idxfile"
	"github.com/go-git/go-git/v6/plumbing/format/packfile"
	"github.com/go-git/go-git/v6/plumbing/format/revfile"
	"github.com/go-git/go-git/v6/plumbing/storer"
	"github.com/go-git/go-git/v6/storage/memory"

	"verifharness/internal/gitcli"
	"verifharness/internal/rep"
)

func init() {
	rep.Register("c08a", func(a []string) error { return c08(a, false) })
	rep.Register("c08b", func(a []string) error { return c08(a, true) })
}

func newHash(f objFormat) hash.Hash {
	if f.name == "sha256" {
		return sha256.New()
	}
	return sha1.New()
}

var c08Modes = []string{"nostorage,seek", "nostorage,stream", "memory,stream", "fs-lowmem,seek", "fs-highmem,seek"}

type c08Parse struct {
	err      error
	yields   []yield
	idx, rev []byte
}

func preload(s storer.EncodedObjectStorer, ext map[string]wantObj) error {
	for _, w := range ext {
		o := s.NewEncodedObject()
		t, _ := plumbing.ParseObjectType(w.typ)
		o.SetType(t)
		o.SetSize(int64(len(w.content)))
		wr, _ := o.Writer()
		wr.Write(w.content)
		wr.Close()
		if _, err := s.SetEncodedObject(o); err != nil {
			return err
		}
	}
	return nil
}

// gogitParse runs packfile.Parser in one mode with an idxfile.Writer attached and encodes idx + rev.
func gogitParse(f objFormat, data []byte, mode string, ext map[string]wantObj) (res c08Parse) {
	defer func() {
		if p := recover(); p != nil {
			res.err = fmt.Errorf("panic: %v", p)
		}
	}()
	obs := &recObserver{typ: map[int64]plumbing.ObjectType{}}
	iw := new(idxfile.Writer)
	opts := []packfile.ParserOption{packfile.WithScannerObservers(obs, iw), packfile.WithObjectFormat(gogitFormat(f))}
	seek := strings.HasSuffix(mode, "seek")
	switch {
	case strings.HasPrefix(mode, "memory"):
		m := memory.NewStorage(memory.WithObjectFormat(gogitFormat(f)))
		if err := preload(m, ext); err != nil {
			res.err = err
			return
		}
		opts = append(opts, packfile.WithStorage(m))
	case strings.HasPrefix(mode, "fs-"):
		st := newFS(f, memfs.New(), strings.HasPrefix(mode, "fs-high"))
		defer st.Close()
		if err := preload(st, ext); err != nil {
			res.err = err
			return
		}
		opts = append(opts, packfile.WithStorage(st))
	}
	_, err := packfile.NewParser(mkReader(data, seek), opts...).Parse()
	if err != nil {
		res.err = err
		return
	}
	res.yields = obs.out
	idx, err := iw.Index()
	if err != nil {
		res.err = fmt.Errorf("idxfile.Writer.Index: %w", err)
		return
	}
	var ib, rb bytes.Buffer
	if err := idxfile.Encode(&ib, newHash(f), idx); err != nil {
		res.err = fmt.Errorf("idxfile.Encode: %w", err)
		return
	}
	if err := revfile.Encode(&rb, newHash(f), idx); err != nil {
		res.err = fmt.Errorf("revfile.Encode: %w", err)
		return
	}
	res.idx, res.rev = ib.Bytes(), rb.Bytes()
	return
}

// ---- idx / rev bytes -> tokens (for PackIndex.tla) ----

type idxTokens struct {
	Es        []idxEntryTok `json:"es"`
	Names     [][]int       `json:"names"`
	Crcs      []string      `json:"crcs"`
	Offs      []uint64      `json:"offs"`
	Fanout    []uint32      `json:"fanout"`
	Large     int           `json:"large"`
	Rev       []uint32      `json:"rev"`
	PacksumOK bool          `json:"packsum_ok"`
	IdxsumOK  bool          `json:"idxsum_ok"`
	RevsumOK  bool          `json:"revsum_ok"`
	RevhdrOK  bool          `json:"revhdr_ok"`
	Meta      any           `json:"meta"`
}

type idxEntryTok struct {
	ID  []int  `json:"id"`
	Off int64  `json:"off"`
	Crc string `json:"crc"`
}

func ints(b []byte) []int {
	o := make([]int, len(b))
	for i, x := range b {
		o[i] = int(x)
	}
	return o
}

func idxToTokens(f objFormat, idx, rev []byte, packTrailer []byte) (*idxTokens, error) {
	t := &idxTokens{}
	if len(idx) < 8+1024+2*f.size || !bytes.Equal(idx[:8], []byte{0xff, 't', 'O', 'c', 0, 0, 0, 2}) {
		return nil, fmt.Errorf("idx: bad header / too short (%d bytes)", len(idx))
	}
	p := 8
	for i := 0; i < 256; i++ {
		t.Fanout = append(t.Fanout, binary.BigEndian.Uint32(idx[p:]))
		p += 4
	}
	n := int(t.Fanout[255])
	need := p + n*(f.size+8) + 2*f.size
	if len(idx) < need {
		return nil, fmt.Errorf("idx: %d bytes, need %d for %d objects", len(idx), need, n)
	}
	for i := 0; i < n; i++ {
		t.Names = append(t.Names, ints(idx[p:p+f.size]))
		p += f.size
	}
	for i := 0; i < n; i++ {
		t.Crcs = append(t.Crcs, fmt.Sprintf("%08x", binary.BigEndian.Uint32(idx[p:])))
		p += 4
	}
	raw := make([]uint32, n)
	for i := 0; i < n; i++ {
		raw[i] = binary.BigEndian.Uint32(idx[p:])
		p += 4
		if raw[i]&0x80000000 != 0 {
			t.Large++
		}
	}
	largeAt := p
	p += 8 * t.Large
	if len(idx) != p+2*f.size {
		return nil, fmt.Errorf("idx: %d trailing bytes", len(idx)-p-2*f.size)
	}
	for i := 0; i < n; i++ {
		if raw[i]&0x80000000 != 0 {
			k := int(raw[i] & 0x7fffffff)
			if k >= t.Large {
				return nil, fmt.Errorf("idx: large offset index %d out of range", k)
			}
			t.Offs = append(t.Offs, binary.BigEndian.Uint64(idx[largeAt+8*k:]))
		} else {
			t.Offs = append(t.Offs, uint64(raw[i]))
		}
	}
	t.PacksumOK = bytes.Equal(idx[p:p+f.size], packTrailer)
	t.IdxsumOK = bytes.Equal(f.sum(idx[:p+f.size]), idx[p+f.size:])
	// rev: RIDX, version 1, hash id, n positions, pack checksum, rev checksum
	hid := uint32(1)
	if f.name == "sha256" {
		hid = 2
	}
	if len(rev) == 12+4*n+2*f.size {
		t.RevhdrOK = string(rev[:4]) == "RIDX" && binary.BigEndian.Uint32(rev[4:]) == 1 && binary.BigEndian.Uint32(rev[8:]) == hid
		for i := 0; i < n; i++ {
			t.Rev = append(t.Rev, binary.BigEndian.Uint32(rev[12+4*i:]))
		}
		q := 12 + 4*n
		t.RevsumOK = bytes.Equal(rev[q:q+f.size], packTrailer) && bytes.Equal(f.sum(rev[:q+f.size]), rev[q+f.size:])
	} else {
		t.Rev = []uint32{}
	}
	if t.Names == nil {
		t.Names, t.Crcs, t.Offs = [][]int{}, []string{}, []uint64{}
	}
	return t, nil
}

// ---- one pack through all legs ----

type c08Pack struct {
	f        objFormat
	data     []byte
	ext      map[string]wantObj
	meta     map[string]any
	key      string   // abstract scenario key for signatures
	want     []string // ids git / the spec says the pack resolves to ("" = unknown yet)
	gitIdx   []byte
	gitRev   []byte
	thin     bool
	mayRefuse bool // the spec verdict is "may" (chain deeper than the limit): a refusal is not judged
	big      bool // thousands of entries: judged against git directly (bytes, names), no TLA+ record
	wantKind map[string]bool // kinds PackSource allows (c08b); nil = anything
	maxChain int
}

type c08Out struct {
	r        *rep.Report
	recs     *os.File
	idxs     *os.File
	nrec     int
	nidx     int
	idxBytes int
}

func (o *c08Out) judge(p *c08Pack) error {
	r := o.r
	rec, err := parsePack(p.f, p.data, p.ext)
	if err != nil {
		return fmt.Errorf("harness reader cannot parse a pack git accepted (%v): %v", p.meta, err)
	}
	var first *c08Parse
	for _, mode := range c08Modes {
		ext := p.ext
		if strings.HasPrefix(mode, "nostorage") {
			ext = nil
		}
		res := gogitParse(p.f, p.data, mode, ext)
		r.Eval(1)
		if res.err != nil {
			if p.thin && strings.HasPrefix(mode, "nostorage") {
				continue // a thin pack cannot be resolved without the receiver's objects
			}
			if p.mayRefuse {
				continue
			}
			r.Diverge("Parser|rejects-git-pack|"+p.key, fmt.Sprintf("Parser[%s] fails on a pack git index-pack accepts: %v", mode, res.err),
				map[string]any{"scenario": p.meta, "mode": mode, "error": res.err.Error()})
			continue
		}
		// record for PackRecord.tla: structure from the harness reader, resolved names from go-git
		byOff := map[int64]yield{}
		for _, y := range res.yields {
			byOff[y.offset] = y
		}
		line := *rec
		line.Es = make([]recEntry, len(rec.Es))
		copy(line.Es, rec.Es)
		for i := range line.Es {
			y, ok := byOff[line.Es[i].Off]
			line.Es[i].ID, line.Es[i].Type = "", ""
			if ok {
				line.Es[i].ID, line.Es[i].Type = y.id, y.typ
			}
		}
		if len(res.yields) != len(rec.Es) {
			r.Diverge("Parser|announces-wrong-number-of-objects|"+p.key, fmt.Sprintf("Parser[%s] announced %d objects for a pack of %d entries", mode, len(res.yields), len(rec.Es)),
				map[string]any{"scenario": p.meta, "mode": mode})
		}
		line.Req = p.want
		meta := map[string]any{"key": p.key, "mode": mode, "scenario": p.meta}
		if p.big {
			// judged directly: the names go-git announces are the ones git index-pack lists
			got := map[string]bool{}
			for _, y := range res.yields {
				got[y.id] = true
			}
			same := len(got) == len(p.want)
			for _, id := range p.want {
				same = same && got[id]
			}
			if !same {
				r.Diverge("Parser-result|requested-object-missing|"+p.key, fmt.Sprintf("Parser[%s] resolves %d distinct objects, git index-pack lists %d", mode, len(got), len(p.want)), map[string]any{"scenario": p.meta, "mode": mode})
			}
			o.nrec++
		} else {
			b, _ := json.Marshal(struct {
				*packRecord
				Meta any `json:"meta"`
			}{&line, meta})
			o.recs.Write(append(b, '\n'))
			o.nrec++
		}
		// idx / rev
		if first == nil {
			first = &res
			tok, terr := idxToTokens(p.f, res.idx, res.rev, mustHex(rec.Trailer))
			if terr != nil {
				r.Diverge("idxfile.Encode|undecodable|"+p.key, fmt.Sprintf("the idx go-git wrote (Parser[%s]) cannot be decoded: %v", mode, terr), map[string]any{"scenario": p.meta})
			} else if o.idxBytes < 48<<20 && !p.big {
				for _, e := range rec.Es {
					id, _ := hex.DecodeString(e.ID)
					tok.Es = append(tok.Es, idxEntryTok{ints(id), e.Off, fmt.Sprintf("%08x", crc32.ChecksumIEEE(p.data[e.Off:e.Off+e.Len]))})
				}
				tok.Meta = meta
				tb, _ := json.Marshal(tok)
				o.idxs.Write(append(tb, '\n'))
				o.nidx++
				o.idxBytes += len(tb)
			}
			if p.gitIdx != nil && !bytes.Equal(res.idx, p.gitIdx) {
				r.Diverge("idxfile.Encode|differs-from-git|"+p.key, fmt.Sprintf("idx bytes differ from git index-pack's (%d vs %d bytes, first difference at %d)", len(res.idx), len(p.gitIdx), firstDiff(res.idx, p.gitIdx)),
					map[string]any{"scenario": p.meta, "mode": mode})
			}
			if p.gitRev != nil && !bytes.Equal(res.rev, p.gitRev) {
				r.Diverge("revfile.Encode|differs-from-git|"+p.key, fmt.Sprintf("rev bytes differ from git index-pack --rev-index's (%d vs %d bytes, first difference at %d)", len(res.rev), len(p.gitRev), firstDiff(res.rev, p.gitRev)),
					map[string]any{"scenario": p.meta, "mode": mode})
			}
		} else if !bytes.Equal(first.idx, res.idx) || !bytes.Equal(first.rev, res.rev) {
			r.Diverge("Parser|modes-disagree-on-index|"+p.key, fmt.Sprintf("Parser[%s] yields a different idx/rev than Parser[%s]", mode, c08Modes[0]),
				map[string]any{"scenario": p.meta, "mode": mode})
		}
	}
	return nil
}

func mustHex(s string) []byte { b, _ := hex.DecodeString(s); return b }

func firstDiff(a, b []byte) int {
	for i := 0; i < len(a) && i < len(b); i++ {
		if a[i] != b[i] {
			return i
		}
	}
	if len(a) < len(b) {
		return len(a)
	}
	return len(b)
}

// gitIndexPack runs `git index-pack --rev-index -o` on the given pack files (parallel through xargs).
func gitIndexPack(f objFormat, bases []string) error {
	var list bytes.Buffer
	for _, b := range bases {
		list.WriteString(b + "\x00")
	}
	script := `git index-pack --rev-index --object-format=` + f.name + ` -o "$1.idx" "$1.pack" >"$1.out" 2>&1; echo $? >"$1.rc"; true`
	c := exec.Command("xargs", "-0", "-n", "1", "-P", "8", "sh", "-c", script, "_")
	c.Env = gitcli.Env()
	c.Stdin = &list
	if o, err := c.CombinedOutput(); err != nil {
		return fmt.Errorf("git index-pack batch: %v: %s", err, o)
	}
	return nil
}

func idxNames(f objFormat, idx []byte) []string {
	n := int(binary.BigEndian.Uint32(idx[8+255*4:]))
	var out []string
	for i := 0; i < n; i++ {
		out = append(out, hex.EncodeToString(idx[8+1024+i*f.size:8+1024+(i+1)*f.size]))
	}
	return out
}

// fixThin: what git makes of a thin pack in a repository that has the bases, and what go-git's
// storage PackfileWriter makes of it in a copy of the same repository.
func (o *c08Out) fixThin(p *c08Pack, recvRepo string) error {
	r := o.r
	gdir := filepath.Join(gitcli.TempDir("c08thin"), "g.git")
	if err := os.CopyFS(gdir, os.DirFS(recvRepo)); err != nil {
		return err
	}
	gout, gerr, err := gitcli.RunEnv(gdir, p.data, []string{"GIT_DIR=" + gdir}, "index-pack", "--fix-thin", "--stdin", "--rev-index")
	if err != nil {
		r.SpecError(map[string]any{"what": "git index-pack --fix-thin refuses a thin pack the spec accepts", "scenario": p.meta, "stderr": gerr})
		return nil
	}
	gname := strings.Fields(gout)
	ddir := filepath.Join(gitcli.TempDir("c08thin"), "d.git")
	if err := os.CopyFS(ddir, os.DirFS(recvRepo)); err != nil {
		return err
	}
	var fs billy.Filesystem = osfs.New(ddir)
	st := newFS(p.f, fs, false)
	w, err := st.PackfileWriter()
	if err != nil {
		return err
	}
	_, werr := w.Write(p.data)
	cerr := w.Close()
	st.Close()
	r.Eval(1)
	if werr != nil || cerr != nil {
		r.Diverge("PackfileWriter|rejects-thin-pack|"+p.key, fmt.Sprintf("storage PackfileWriter refuses a thin pack whose bases are in the repository (git index-pack --fix-thin completes it): %v %v", werr, cerr),
			map[string]any{"scenario": p.meta, "git_pack": gname})
		return nil
	}
	// compare the pack directory: same pack name, same bytes
	for _, extn := range []string{".pack", ".idx", ".rev"} {
		gfiles, _ := filepath.Glob(filepath.Join(gdir, "objects/pack/*"+extn))
		dfiles, _ := filepath.Glob(filepath.Join(ddir, "objects/pack/*"+extn))
		sort.Strings(gfiles)
		sort.Strings(dfiles)
		var gn, dn []string
		for _, x := range gfiles {
			gn = append(gn, filepath.Base(x))
		}
		for _, x := range dfiles {
			dn = append(dn, filepath.Base(x))
		}
		if strings.Join(gn, ",") != strings.Join(dn, ",") {
			r.Diverge("PackfileWriter|thin-pack-completed-differently|"+p.key, fmt.Sprintf("after receiving a thin pack git has %v, go-git has %v", gn, dn), map[string]any{"scenario": p.meta})
			continue
		}
		for i := range gfiles {
			a, _ := os.ReadFile(gfiles[i])
			b, _ := os.ReadFile(dfiles[i])
			if !bytes.Equal(a, b) {
				r.Diverge("PackfileWriter|thin-pack-completed-differently|"+p.key, fmt.Sprintf("%s differs from git's after receiving a thin pack", gn[i]), map[string]any{"scenario": p.meta})
			}
		}
	}
	return nil
}

// ---- part (a): spec-generated packs ----

func c08(args []string, fromGit bool) error {
	if len(args) < 3 {
		return fmt.Errorf("usage: c08a|c08b in.ndjson records.ndjson idxtokens.ndjson [gitlimit]")
	}
	r := rep.New()
	rnd := rand.New(rand.NewSource(rep.Seed()))
	gitLimit := 400
	if rep.Thorough() {
		gitLimit = 3000
	}
	if len(args) > 3 {
		fmt.Sscanf(args[3], "%d", &gitLimit)
	}
	recs, err := os.Create(args[1])
	if err != nil {
		return err
	}
	defer recs.Close()
	idxs, err := os.Create(args[2])
	if err != nil {
		return err
	}
	defer idxs.Close()
	out := &c08Out{r: r, recs: recs, idxs: idxs}
	if fromGit {
		err = c08b(args[0], out, rnd)
	} else {
		err = c08a(args[0], out, rnd, gitLimit)
	}
	if err != nil {
		return err
	}
	r.Distinct = out.nrec
	r.Traces = out.nrec
	r.Extra["records"] = out.nrec
	r.Extra["idx_records"] = out.nidx
	return r.Emit()
}

func c08a(path string, out *c08Out, rnd *rand.Rand, gitLimit int) error {
	r := out.r
	var packs []*c08Pack
	err := rep.ReadNDJSON(path, func(line []byte) error {
		var row pgRow
		if err := json.Unmarshal(line, &row); err != nil {
			return err
		}
		if row.V != "accept" && !(row.V == "may" && row.Deepl == "over") {
			return nil
		}
		fmts := []objFormat{fmtSHA1}
		if rnd.Intn(4) == 0 {
			fmts = append(fmts, fmtSHA256)
		}
		for _, f := range fmts {
			rd := render(f, &row)
			var want []string
			for id := range rd.want {
				want = append(want, id)
			}
			sort.Strings(want)
			tk := "plain"
			if len(row.Tags) > 0 {
				tk = strings.Join(row.Tags, "+")
			}
			packs = append(packs, &c08Pack{f: f, data: rd.bytes, ext: rd.external, want: want, thin: len(rd.external) > 0, mayRefuse: row.V == "may", big: row.Extra > 0,
				key: "spec-pack," + tk, meta: map[string]any{"source": "PackGraph", "shape": shapeKey(&row), "tags": row.Tags, "format": f.name}})
		}
		return nil
	})
	if err != nil {
		return err
	}
	// git leg: index-pack --rev-index on a seeded sample of the self-contained packs
	dir := gitcli.TempDir("c08a")
	perm := rnd.Perm(len(packs))
	byFmt := map[string][]int{}
	n := 0
	sort.SliceStable(perm, func(a, b int) bool { return packs[perm[a]].big && !packs[perm[b]].big }) // the depth-boundary packs always
	for _, i := range perm {
		if packs[i].thin || !gitcli.Available() || (n >= gitLimit && !packs[i].big) {
			continue
		}
		n++
		base := filepath.Join(dir, fmt.Sprintf("p%05d", i))
		if err := os.WriteFile(base+".pack", packs[i].data, 0o644); err != nil {
			return err
		}
		byFmt[packs[i].f.name] = append(byFmt[packs[i].f.name], i)
	}
	gitChecked := 0
	for _, f := range []objFormat{fmtSHA1, fmtSHA256} {
		var bases []string
		for _, i := range byFmt[f.name] {
			bases = append(bases, filepath.Join(dir, fmt.Sprintf("p%05d", i)))
		}
		if len(bases) == 0 {
			continue
		}
		if err := gitIndexPack(f, bases); err != nil {
			return err
		}
		for k, i := range byFmt[f.name] {
			rc, _ := os.ReadFile(bases[k] + ".rc")
			gitChecked++
			if strings.TrimSpace(string(rc)) != "0" {
				msg, _ := os.ReadFile(bases[k] + ".out")
				r.SpecError(map[string]any{"what": "git index-pack refuses a pack the spec accepts", "scenario": packs[i].meta, "git": string(msg)})
				continue
			}
			packs[i].gitIdx, _ = os.ReadFile(bases[k] + ".idx")
			packs[i].gitRev, _ = os.ReadFile(bases[k] + ".rev")
			names := idxNames(f, packs[i].gitIdx)
			set := map[string]bool{}
			for _, x := range names {
				set[x] = true
			}
			ok := len(set) == len(packs[i].want)
			for _, x := range packs[i].want {
				ok = ok && set[x]
			}
			if !ok {
				r.SpecError(map[string]any{"what": "git resolves a different object set than the spec", "scenario": packs[i].meta})
			}
		}
	}
	thinChecked := 0
	for _, p := range packs {
		if err := out.judge(p); err != nil {
			return err
		}
		r.Sample(p.meta)
		if p.thin && gitcli.Available() && thinChecked < gitLimit/8+2 {
			thinChecked++
			recv, err := recvRepoWith(p.f, p.ext)
			if err != nil {
				return err
			}
			if err := out.fixThin(p, recv); err != nil {
				return err
			}
		}
	}
	r.Extra["git_checked"] = gitChecked
	r.Extra["thin_checked"] = thinChecked
	r.Extra["packs"] = len(packs)
	return nil
}

var recvCache = map[string]string{}

// recvRepoWith: a bare repository that has exactly the given objects (loose, written by git).
func recvRepoWith(f objFormat, ext map[string]wantObj) (string, error) {
	var ids []string
	for id := range ext {
		ids = append(ids, id)
	}
	sort.Strings(ids)
	k := f.name + strings.Join(ids, ",")
	if d, ok := recvCache[k]; ok {
		return d, nil
	}
	dir := filepath.Join(gitcli.TempDir("c08recv"), "r.git")
	if _, se, err := gitcli.Run(filepath.Dir(dir), nil, "init", "-q", "--bare", "--object-format="+f.name, dir); err != nil {
		return "", fmt.Errorf("git init: %v %s", err, se)
	}
	for _, id := range ids {
		w := ext[id]
		o, se, err := gitcli.Run(dir, w.content, "hash-object", "-w", "-t", w.typ, "--stdin")
		if err != nil || strings.TrimSpace(o) != id {
			return "", fmt.Errorf("git hash-object: %v %s (%s vs %s)", err, se, o, id)
		}
	}
	recvCache[k] = dir
	return dir, nil
}

// ---- part (b): packs written by git pack-objects ----

type c08Scenario struct {
	Hist     string `json:"hist"`
	Window   int    `json:"window"`
	Depth    int    `json:"depth"`
	Dbo      bool   `json:"dbo"`
	Thin     bool   `json:"thin"`
	Range    string `json:"range"`
	Deltas   bool   `json:"deltas"`
	Ofs      bool   `json:"ofs"`
	External bool   `json:"external"`
	MaxChain int    `json:"maxchain"`
}

type histRepo struct {
	dir   string // full history
	recv  string // repository that has only the first commit (receiver of incremental packs)
	first string
}

func textFile(tag string, n int, salt int) string {
	var b strings.Builder
	for i := 0; i < n; i++ {
		fmt.Fprintf(&b, "%s %04d lorem ipsum dolor sit amet %d\n", tag, i, (i*7+salt)%13)
	}
	return b.String()
}

func fastImportStream(hist string) []byte {
	var s bytes.Buffer
	mark := 0
	blob := func(data string) int {
		mark++
		fmt.Fprintf(&s, "blob\nmark :%d\ndata %d\n%s\n", mark, len(data), data)
		return mark
	}
	commit := func(n int, files map[string]int, del []string) {
		fmt.Fprintf(&s, "commit refs/heads/master\nmark :%d\ncommitter C O Mitter <committer@example.com> %d +0000\ndata %d\ncommit %d\n", 1000+n, 1000000000+n, len(fmt.Sprintf("commit %d\n", n)), n)
		if n > 1 {
			fmt.Fprintf(&s, "from :%d\n", 1000+n-1)
		}
		var names []string
		for k := range files {
			names = append(names, k)
		}
		sort.Strings(names)
		for _, k := range names {
			fmt.Fprintf(&s, "M 100644 :%d %s\n", files[k], k)
		}
		for _, d := range del {
			fmt.Fprintf(&s, "D %s\n", d)
		}
		s.WriteString("\n")
	}
	switch hist {
	case "linear":
		a, b := textFile("alpha", 60, 1), textFile("beta", 40, 2)
		commit(1, map[string]int{"a.txt": blob(a), "dir/b.txt": blob(b)}, nil)
		a += textFile("alpha-more", 5, 3)
		commit(2, map[string]int{"a.txt": blob(a)}, nil)
		b = strings.Replace(b, "beta 0010", "BETA 0010 changed", 1)
		commit(3, map[string]int{"dir/b.txt": blob(b), "dir/sub/c.txt": blob(textFile("gamma", 30, 4))}, nil)
		a = textFile("alpha-head", 3, 5) + a
		commit(4, map[string]int{"a.txt": blob(a)}, nil)
		commit(5, map[string]int{"e.txt": blob("")}, []string{"dir/sub/c.txt"})
	case "similar":
		base := textFile("sim", 80, 1)
		commit(1, map[string]int{"s0.txt": blob(base)}, nil)
		files := map[string]int{}
		for i := 1; i <= 8; i++ {
			base += fmt.Sprintf("extra line %d\n", i)
			files[fmt.Sprintf("s%d.txt", i)] = blob(base)
		}
		commit(2, files, nil)
	case "big":
		big := textFile("big", 30000, 1) // ~1.2 MiB
		commit(1, map[string]int{"big.bin": blob(big), "small.txt": blob("small\n")}, nil)
		big2 := big[:len(big)/2] + "a change in the middle of the large file\n" + big[len(big)/2:]
		commit(2, map[string]int{"big.bin": blob(big2)}, nil)
		commit(3, map[string]int{"big.bin": blob(big2 + textFile("tail", 50, 2))}, nil)
	case "dup":
		x := textFile("dup", 20, 1)
		m := blob(x)
		commit(1, map[string]int{"one.txt": m, "two.txt": m, "d/three.txt": m, "empty": blob("")}, nil)
		commit(2, map[string]int{"d/e/four.txt": m, "five.txt": blob(x + "five\n")}, nil)
		fmt.Fprintf(&s, "tag v1\nfrom :1002\ntagger C O Mitter <committer@example.com> 1000000100 +0000\ndata 8\nthe tag\n\n")
	}
	return s.Bytes()
}

func buildHist(f objFormat, hist string) (*histRepo, error) {
	h := &histRepo{dir: filepath.Join(gitcli.TempDir("c08h"+hist), "h.git")}
	if _, se, err := gitcli.Run(filepath.Dir(h.dir), nil, "init", "-q", "--bare", "--object-format="+f.name, h.dir); err != nil {
		return nil, fmt.Errorf("git init: %v %s", err, se)
	}
	if _, se, err := gitcli.Run(h.dir, fastImportStream(hist), "fast-import", "--quiet"); err != nil {
		return nil, fmt.Errorf("fast-import %s: %v %s", hist, err, se)
	}
	o, se, err := gitcli.Run(h.dir, nil, "rev-list", "--max-parents=0", "refs/heads/master")
	if err != nil {
		return nil, fmt.Errorf("rev-list: %v %s", err, se)
	}
	h.first = strings.TrimSpace(o)
	// receiver: has the first commit only
	h.recv = filepath.Join(gitcli.TempDir("c08r"+hist), "r.git")
	if _, se, err := gitcli.Run(filepath.Dir(h.recv), nil, "init", "-q", "--bare", "--object-format="+f.name, h.recv); err != nil {
		return nil, fmt.Errorf("git init: %v %s", err, se)
	}
	pk, se, err := gitcli.Run(h.dir, []byte(h.first+"\n"), "pack-objects", "--stdout", "--revs", "-q")
	if err != nil {
		return nil, fmt.Errorf("pack-objects first: %v %s", err, se)
	}
	if _, se, err := gitcli.Run(h.recv, []byte(pk), "unpack-objects", "-q"); err != nil {
		return nil, fmt.Errorf("unpack-objects: %v %s", err, se)
	}
	return h, nil
}

// catFile fetches objects from a repository (one git cat-file --batch).
func catFile(dir string, ids []string) (map[string]wantObj, error) {
	out := map[string]wantObj{}
	if len(ids) == 0 {
		return out, nil
	}
	o, se, err := gitcli.Run(dir, []byte(strings.Join(ids, "\n")+"\n"), "cat-file", "--batch")
	if err != nil {
		return nil, fmt.Errorf("cat-file: %v %s", err, se)
	}
	b := []byte(o)
	for len(b) > 0 {
		nl := bytes.IndexByte(b, '\n')
		if nl < 0 {
			return nil, fmt.Errorf("cat-file --batch: truncated output")
		}
		fs := strings.Fields(string(b[:nl]))
		if len(fs) == 2 && fs[1] == "missing" {
			b = b[nl+1:]
			continue
		}
		if len(fs) != 3 {
			return nil, fmt.Errorf("cat-file --batch: %q", b[:nl])
		}
		var sz int
		fmt.Sscanf(fs[2], "%d", &sz)
		if nl+1+sz+1 > len(b) || b[nl+1+sz] != '\n' {
			return nil, fmt.Errorf("cat-file --batch: %s announces %d bytes, output does not have them", fs[0], sz)
		}
		out[fs[0]] = wantObj{typ: fs[1], content: append([]byte{}, b[nl+1:nl+1+sz]...), id: fs[0]}
		b = b[nl+1+sz+1:]
	}
	return out, nil
}

func c08b(path string, out *c08Out, rnd *rand.Rand) error {
	r := out.r
	if !gitcli.Available() {
		return fmt.Errorf("c08b needs git")
	}
	hists := map[string]*histRepo{}
	n := 0
	kinds := map[string]int{}
	err := rep.ReadNDJSON(path, func(line []byte) error {
		var sc c08Scenario
		if err := json.Unmarshal(line, &sc); err != nil {
			return err
		}
		f := fmtSHA1
		if rnd.Intn(4) == 0 {
			f = fmtSHA256
		}
		hk := f.name + sc.Hist
		if hists[hk] == nil {
			h, err := buildHist(f, sc.Hist)
			if err != nil {
				return err
			}
			hists[hk] = h
		}
		h := hists[hk]
		args := []string{"pack-objects", "--stdout", "--revs", "-q", fmt.Sprintf("--window=%d", sc.Window), fmt.Sprintf("--depth=%d", sc.Depth), "--threads=1"}
		if sc.Dbo {
			args = append(args, "--delta-base-offset")
		}
		if sc.Thin {
			args = append(args, "--thin")
		}
		revs := "refs/heads/master\n"
		if sc.Hist == "dup" {
			revs += "refs/tags/v1\n"
		}
		if sc.Range == "incremental" {
			revs += "^" + h.first + "\n"
		}
		pk, se, err := gitcli.Run(h.dir, []byte(revs), args...)
		if err != nil {
			return fmt.Errorf("git %v: %v %s", args, err, se)
		}
		data := []byte(pk)
		n++
		meta := map[string]any{"source": "git pack-objects", "scenario": sc, "format": f.name, "bytes": len(data)}
		key := fmt.Sprintf("git-pack,thin=%v,dbo=%v", sc.Thin, sc.Dbo)
		p := &c08Pack{f: f, data: data, meta: meta, key: key}
		// the harness reading of the pack: find external bases, then check PackSource's statements about git
		rec, err := parsePack(f, data, nil)
		if err != nil {
			return fmt.Errorf("harness reader: %v (%v)", err, meta)
		}
		var extIDs []string
		seen := map[string]bool{}
		ids := map[string]bool{}
		for _, e := range rec.Es {
			ids[e.ID] = true
		}
		for _, e := range rec.Es {
			kinds[e.Kind]++
			if e.Kind == "ref" && e.ID == "" && !seen[e.BaseID] {
				seen[e.BaseID] = true
				extIDs = append(extIDs, e.BaseID)
			}
			if e.Kind == "ofs" && !sc.Ofs || (e.Kind == "ofs" || e.Kind == "ref") && !sc.Deltas {
				r.SpecError(map[string]any{"what": "PackSource: git emitted an entry kind the options should exclude", "kind": e.Kind, "scenario": sc})
			}
		}
		if len(extIDs) > 0 {
			// (a base may itself be an unresolved in-pack delta: only ids git knows in the receiver are external)
			ext, err := catFile(h.recv, extIDs)
			if err != nil {
				return err
			}
			p.ext = ext
			p.thin = len(ext) > 0
			if p.thin && !sc.External {
				r.SpecError(map[string]any{"what": "PackSource: git emitted a thin pack without --thin", "scenario": sc})
			}
		}
		base := filepath.Join(gitcli.TempDir("c08b"), "p")
		if !p.thin {
			if err := os.WriteFile(base+".pack", data, 0o644); err != nil {
				return err
			}
			if err := gitIndexPack(f, []string{base}); err != nil {
				return err
			}
			rc, _ := os.ReadFile(base + ".rc")
			if strings.TrimSpace(string(rc)) != "0" {
				msg, _ := os.ReadFile(base + ".out")
				return fmt.Errorf("git index-pack refuses git pack-objects output: %s", msg)
			}
			p.gitIdx, _ = os.ReadFile(base + ".idx")
			p.gitRev, _ = os.ReadFile(base + ".rev")
			p.want = idxNames(f, p.gitIdx)
		} else {
			// git's listing of a thin pack: what the harness reader resolves with the receiver's objects
			rec2, err := parsePack(f, data, p.ext)
			if err != nil {
				return err
			}
			for _, e := range rec2.Es {
				p.want = append(p.want, e.ID)
			}
			sort.Strings(p.want)
		}
		if err := out.judge(p); err != nil {
			return err
		}
		if p.thin {
			if err := out.fixThin(p, h.recv); err != nil {
				return err
			}
		}
		r.Sample(meta)
		return nil
	})
	r.Extra["git_packs"] = n
	r.Extra["git_entry_kinds"] = kinds
	return err
}

var _ = io.EOF
