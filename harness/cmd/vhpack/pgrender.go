package main

import (
	"encoding/json"
	"fmt"
	"os"
	"path/filepath"

	"verifharness/internal/rep"
)

// pgrender rows.ndjson outdir [sha1|sha256]: write the bytes of every row as outdir/rNNNN.pack
// (hand reproduction of a case; no verdict).
func init() {
	rep.Register("pgrender", pgrender)
	rep.Register("pgprobe", pgprobe)
}

// pgprobe rows.ndjson [sha1|sha256]: run every go-git leg on every row and print what it returned and what it
// left in its storage (hand reproduction of a case against the real code; no verdict).
func pgprobe(args []string) error {
	if len(args) < 1 {
		return fmt.Errorf("usage: pgprobe rows.ndjson [sha1|sha256]")
	}
	f := fmtSHA1
	if len(args) > 1 && args[1] == "sha256" {
		f = fmtSHA256
	}
	n := 0
	err := rep.ReadNDJSON(args[0], func(line []byte) error {
		var row pgRow
		if err := json.Unmarshal(line, &row); err != nil {
			return err
		}
		rd := render(f, &row)
		n++
		fmt.Fprintf(os.Stderr, "row %d shape=[%s] tags=%v spec=%s bytes=%d\n", n, shapeKey(&row), row.Tags, row.V, len(rd.bytes))
		for _, l := range c09Legs {
			res := runLeg(l, f, rd.bytes)
			fmt.Fprintf(os.Stderr, "  %-28s err=%v panic=%v\n", l.name, res.err, res.panicv)
			for _, y := range res.yields {
				if y.hasData {
					fmt.Fprintf(os.Stderr, "      holds %s %s %d bytes, content hashes to %x\n", y.id, y.typ, len(y.content), f.objectID(y.typ, y.content))
				}
			}
		}
		return nil
	})
	if err != nil {
		return err
	}
	r := rep.New()
	r.Eval(n)
	return r.Emit()
}

func pgrender(args []string) error {
	if len(args) < 2 {
		return fmt.Errorf("usage: pgrender rows.ndjson outdir [sha1|sha256]")
	}
	f := fmtSHA1
	if len(args) > 2 && args[2] == "sha256" {
		f = fmtSHA256
	}
	if err := os.MkdirAll(args[1], 0o755); err != nil {
		return err
	}
	n := 0
	err := rep.ReadNDJSON(args[0], func(line []byte) error {
		var row pgRow
		if err := json.Unmarshal(line, &row); err != nil {
			return err
		}
		rd := render(f, &row)
		p := filepath.Join(args[1], fmt.Sprintf("r%04d.pack", n))
		n++
		fmt.Fprintf(os.Stderr, "%s shape=[%s] tags=%v spec=%s bytes=%d\n", p, shapeKey(&row), row.Tags, row.V, len(rd.bytes))
		return os.WriteFile(p, rd.bytes, 0o644)
	})
	if err != nil {
		return err
	}
	r := rep.New()
	r.Eval(n)
	return r.Emit()
}
