package main

import (
	"encoding/json"
	"fmt"
	"os"
	"path/filepath"

	"verifharness/internal/rep"
)

// pgrender rows.ndjson outdir [sha1|sha256]: write the bytes of every row as outdir/rNNNN.pack
// (hand reproduction of a case; no verdict).
func init() { rep.Register("pgrender", pgrender) }

func pgrender(args []string) error {
	if len(args) < 2 {
		return fmt.Errorf("usage: pgrender rows.ndjson outdir [sha1|sha256]")
	}
	f := fmtSHA1
	if len(args) > 2 && args[2] == "sha256" {
		f = fmtSHA256
	}
	if err := os.MkdirAll(args[1], 0o755); err != nil {
		return err
	}
	n := 0
	err := rep.ReadNDJSON(args[0], func(line []byte) error {
		var row pgRow
		if err := json.Unmarshal(line, &row); err != nil {
			return err
		}
		rd := render(f, &row)
		p := filepath.Join(args[1], fmt.Sprintf("r%04d.pack", n))
		n++
		fmt.Fprintf(os.Stderr, "%s shape=[%s] tags=%v spec=%s bytes=%d\n", p, shapeKey(&row), row.Tags, row.V, len(rd.bytes))
		return os.WriteFile(p, rd.bytes, 0o644)
	})
	if err != nil {
		return err
	}
	r := rep.New()
	r.Eval(n)
	return r.Emit()
}
