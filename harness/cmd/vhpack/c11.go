package main

// C11: read histories enumerated by TLC (spec/abstract/ObjectStoreRead.tla) are replayed on a
// repository built by git (3 packs, loose objects, an alternate, delta chains, an object both
// loose and packed, a large blob) through filesystem.Storage under an option matrix; every
// observation is compared with the spec's expectation, the object bytes with what
// `git cat-file --batch-all-objects --batch` reports for the slot's id.

import (
	"bytes"
	"crypto"
	"encoding/json"
	"errors"
	"fmt"
	"io"
	"os"
	"path/filepath"
	"runtime"
	"sort"
	"strconv"
	"strings"
	"sync"

	"github.com/go-git/go-billy/v6"
	"github.com/go-git/go-billy/v6/osfs"
	"github.com/go-git/go-git/v6/plumbing"
	"github.com/go-git/go-git/v6/plumbing/cache"
	"github.com/go-git/go-git/v6/plumbing/format/idxfile"
	"github.com/go-git/go-git/v6/plumbing/format/packfile"
	gogithash "github.com/go-git/go-git/v6/plumbing/hash"
	"github.com/go-git/go-git/v6/storage/filesystem"

	"verifharness/internal/gitcli"
	"verifharness/internal/rep"
)

func init() { rep.Register("c11", c11) }

var byOffsetMu sync.Mutex

type c11Read struct {
	Op     string `json:"op"`
	S      string `json:"s"`
	T      string `json:"t"`
	Expect struct {
		R     string   `json:"r"`
		Slots []string `json:"slots"`
	} `json:"expect"`
}

type c11Opt struct {
	name      string
	cacheSize cache.FileSize
	memIdx    bool
	large     int64
	exclusive bool
	mmap      bool
}

func c11Options() []c11Opt {
	var out []c11Opt
	for i := 0; i < 32; i++ {
		o := c11Opt{cacheSize: cache.DefaultMaxSize, memIdx: i&1 != 0, exclusive: i&4 != 0, mmap: i&16 != 0}
		if i&2 != 0 {
			o.large = 64 << 10
		}
		if i&8 != 0 {
			o.cacheSize = 1 // nothing fits: every read goes to the files
		}
		o.name = fmt.Sprintf("cache=%d,memidx=%v,largeThreshold=%d,exclusive=%v,mmap=%v", o.cacheSize, o.memIdx, o.large, o.exclusive, o.mmap)
		out = append(out, o)
	}
	return out
}

type c11Repo struct {
	dir    string
	slot   map[string]string  // slot -> id
	oracle map[string]wantObj // id -> what git cat-file reports
	packOf map[string]string  // slot -> pack base path (objects/pack/pack-x)
	offOf  map[string]int64
	idxOf  map[string]*idxfile.MemoryIndex
	filler map[string]bool // ids of stored objects without a slot (the deep delta chain's history)
}

func gitOut(dir string, stdin []byte, args ...string) (string, error) {
	o, se, err := gitcli.Run(dir, stdin, args...)
	if err != nil {
		return "", fmt.Errorf("git %v: %v %s", args, err, se)
	}
	return strings.TrimSpace(o), nil
}

func buildC11Repo(f objFormat) (*c11Repo, error) {
	root := gitcli.TempDir("c11")
	r := &c11Repo{dir: filepath.Join(root, "main.git"), slot: map[string]string{}, packOf: map[string]string{}, offOf: map[string]int64{}, idxOf: map[string]*idxfile.MemoryIndex{}}
	alt := filepath.Join(root, "alt.git")
	for _, d := range []string{r.dir, alt} {
		if _, err := gitOut(root, nil, "init", "-q", "--bare", "--object-format="+f.name, d); err != nil {
			return nil, err
		}
	}
	blob := func(dir, slot, content string) error {
		id, err := gitOut(dir, []byte(content), "hash-object", "-w", "--stdin")
		r.slot[slot] = id
		return err
	}
	// a delta chain deeper than 50 links (git's default pack.depth; git itself reads chains up to 4095):
	// 70 revisions of one file in a scratch history, repacked by git with --depth=200; the resulting pack
	// is copied in as an extra pack.  p1a / p1b / p1c are the first, middle and last revision's blob, every
	// other object of that pack is a filler without a slot.
	a := lines("pack one", 200)
	version := func(i int) string {
		ls := strings.Split(strings.TrimSuffix(a, "\n"), "\n")
		for j := 0; j < i; j++ {
			ls[(3*j)%len(ls)] = fmt.Sprintf("pack one line changed in revision %d", j)
		}
		return strings.Join(ls, "\n") + "\n"
	}
	const revs = 180
	b := version(revs / 2)
	c := version(revs - 1)
	big := c + lines("a large blob", 4000) // ~ 250 KiB
	a = version(0)
	chainDir := gitcli.TempDir("c11chain")
	defer os.RemoveAll(chainDir)
	if _, se, err := gitcli.Run(chainDir, nil, "init", "-q", "--object-format="+f.name, "."); err != nil {
		return nil, fmt.Errorf("chain init: %v %s", err, se)
	}
	var fi bytes.Buffer
	for i := 0; i < revs; i++ {
		v := version(i)
		fmt.Fprintf(&fi, "blob\nmark :%d\ndata %d\n%s\n", i+1, len(v), v)
		fmt.Fprintf(&fi, "commit refs/heads/master\nmark :%d\ncommitter C <c@example.com> %d +0000\ndata 2\nc\n", 1000+i, 1000000000+i)
		if i > 0 {
			fmt.Fprintf(&fi, "from :%d\n", 1000+i-1)
		}
		fmt.Fprintf(&fi, "M 100644 :%d f.txt\n\n", i+1)
	}
	if _, se, err := gitcli.Run(chainDir, fi.Bytes(), "fast-import", "--quiet"); err != nil {
		return nil, fmt.Errorf("chain fast-import: %v %s", err, se)
	}
	if _, se, err := gitcli.Run(chainDir, nil, "repack", "-q", "-a", "-d", "-f", "--depth=200", "--window=200"); err != nil {
		return nil, fmt.Errorf("chain repack: %v %s", err, se)
	}
	chainPacks, _ := filepath.Glob(filepath.Join(chainDir, ".git", "objects", "pack", "pack-*.pack"))
	if len(chainPacks) != 1 {
		return nil, fmt.Errorf("chain repository has %d packs", len(chainPacks))
	}
	chainBase := strings.TrimSuffix(filepath.Base(chainPacks[0]), ".pack")
	for _, ext := range []string{".pack", ".idx"} {
		data, err := os.ReadFile(filepath.Join(chainDir, ".git", "objects", "pack", chainBase+ext))
		if err != nil {
			return nil, err
		}
		if err := os.WriteFile(filepath.Join(r.dir, "objects", "pack", chainBase+ext), data, 0o444); err != nil {
			return nil, err
		}
	}
	vpOut, _, err0 := gitcli.Run(chainDir, nil, "verify-pack", "-v", filepath.Join(chainDir, ".git", "objects", "pack", chainBase+".idx"))
	if err0 != nil {
		return nil, fmt.Errorf("chain verify-pack: %v", err0)
	}
	var fillers []string
	deep := 0
	for _, ln := range strings.Split(vpOut, "\n") {
		var n, cnt int
		if _, err := fmt.Sscanf(ln, "chain length = %d: %d object", &n, &cnt); err == nil {
			if n > deep {
				deep = n
			}
			continue
		}
		fs := strings.Fields(ln)
		if len(fs) >= 5 && len(fs[0]) == f.size*2 {
			fillers = append(fillers, fs[0])
		}
	}
	if deep <= 50 {
		return nil, fmt.Errorf("fixture delta chain is only %d deep", deep)
	}
	contents := map[string]string{"p1a": a, "p1b": b, "p1c": c, "big": big, "both": lines("both", 30), "loose": lines("loose", 10)}
	for _, s := range []string{"p1a", "p1b", "p1c"} {
		// hashed only: the objects themselves are in the chain pack
		id, err := gitOut(r.dir, []byte(contents[s]), "hash-object", "--stdin")
		if err != nil {
			return nil, err
		}
		r.slot[s] = id
		r.packOf[s] = filepath.Join("objects", "pack", chainBase)
	}
	for _, s := range []string{"big", "both", "loose"} {
		if err := blob(r.dir, s, contents[s]); err != nil {
			return nil, err
		}
	}
	{
		isSlot := map[string]bool{r.slot["p1a"]: true, r.slot["p1b"]: true, r.slot["p1c"]: true}
		var rest []string
		for _, f := range fillers {
			if !isSlot[f] {
				rest = append(rest, f)
			}
		}
		if len(rest) != len(fillers)-3 {
			return nil, fmt.Errorf("chain pack does not hold the three slot blobs")
		}
		fillers = rest
	}
	if err := blob(alt, "alt", lines("alternate", 15)); err != nil {
		return nil, err
	}
	var err error
	tree := fmt.Sprintf("100644 blob %s\ta.txt\n100644 blob %s\tb.txt\n100644 blob %s\tc.txt\n100644 blob %s\tlarge.bin\n100644 blob %s\tloose.txt\n100644 blob %s\tboth.txt\n",
		r.slot["p1a"], r.slot["p1b"], r.slot["p1c"], r.slot["big"], r.slot["loose"], r.slot["both"])
	if r.slot["p2t"], err = gitOut(r.dir, []byte(tree), "mktree"); err != nil {
		return nil, err
	}
	if r.slot["p2c"], err = gitOut(r.dir, []byte("the commit\n"), "commit-tree", r.slot["p2t"]); err != nil {
		return nil, err
	}
	tag := fmt.Sprintf("object %s\ntype commit\ntag v1\ntagger %s\n\nthe tag\n", r.slot["p2c"], identC)
	if r.slot["p3g"], err = gitOut(r.dir, []byte(tag), "mktag"); err != nil {
		return nil, err
	}
	for _, grp := range [][]string{{"big"}, {"p2t", "p2c"}, {"p3g", "both"}} {
		var ids bytes.Buffer
		for _, s := range grp {
			ids.WriteString(r.slot[s] + "\n")
		}
		name, err := gitOut(r.dir, ids.Bytes(), "pack-objects", "-q", "--window=10", "--depth=10", "objects/pack/pack")
		if err != nil {
			return nil, err
		}
		for _, s := range grp {
			r.packOf[s] = filepath.Join("objects", "pack", "pack-"+name)
		}
	}
	if _, err := gitOut(r.dir, nil, "prune-packed"); err != nil {
		return nil, err
	}
	if err := blob(r.dir, "both", contents["both"]); err != nil { // loose again
		return nil, err
	}
	if err := os.WriteFile(filepath.Join(r.dir, "objects", "info", "alternates"), []byte(filepath.Join(alt, "objects")+"\n"), 0o644); err != nil {
		return nil, err
	}
	r.slot["none"] = strings.Repeat("5a", f.size)
	// the oracle
	o, se, err := gitcli.Run(r.dir, nil, "cat-file", "--batch-all-objects", "--batch")
	if err != nil {
		return nil, fmt.Errorf("cat-file: %v %s", err, se)
	}
	r.oracle = map[string]wantObj{}
	raw := []byte(o)
	for len(raw) > 0 {
		nl := bytes.IndexByte(raw, '\n')
		fs := strings.Fields(string(raw[:nl]))
		var sz int
		fmt.Sscanf(fs[2], "%d", &sz)
		r.oracle[fs[0]] = wantObj{typ: fs[1], content: append([]byte{}, raw[nl+1:nl+1+sz]...), id: fs[0]}
		raw = raw[nl+1+sz+1:]
	}
	for s, id := range r.slot {
		if _, ok := r.oracle[id]; ok != (s != "none") {
			return nil, fmt.Errorf("git cat-file --batch-all-objects: slot %s (%s) listed=%v", s, id, ok)
		}
	}
	r.filler = map[string]bool{}
	for _, f := range fillers {
		r.filler[f] = true
	}
	if len(r.oracle) != len(r.slot)-1+len(fillers) {
		return nil, fmt.Errorf("repository has %d objects, %d slots + %d fillers", len(r.oracle), len(r.slot)-1, len(fillers))
	}
	// offsets, from the idx git wrote
	for s, base := range r.packOf {
		if r.idxOf[base] == nil {
			fh, err := os.Open(filepath.Join(r.dir, base+".idx"))
			if err != nil {
				return nil, err
			}
			idx := idxfile.NewMemoryIndex(f.size)
			hh := gogithash.New(crypto.SHA1)
			if f.name == "sha256" {
				hh = gogithash.New(crypto.SHA256)
			}
			err = idxfile.NewDecoder(fh, hh).Decode(idx)
			fh.Close()
			if err != nil {
				return nil, fmt.Errorf("decode %s.idx: %w", base, err)
			}
			r.idxOf[base] = idx
		}
		h, _ := plumbing.FromHex(r.slot[s])
		off, err := r.idxOf[base].FindOffset(h)
		if err != nil {
			return nil, fmt.Errorf("slot %s not in %s.idx: %v", s, base, err)
		}
		r.offOf[s] = off
	}
	return r, nil
}

func typeFromName(t string) plumbing.ObjectType {
	if t == "any" {
		return plumbing.AnyObject
	}
	ot, _ := plumbing.ParseObjectType(t)
	return ot
}

func c11(args []string) error {
	if len(args) < 1 {
		return fmt.Errorf("usage: c11 histories.ndjson [rows-per-history]")
	}
	r := rep.New()
	per := 2
	if len(args) > 1 {
		fmt.Sscanf(args[1], "%d", &per)
	}
	if !gitcli.Available() {
		return fmt.Errorf("c11 needs git to build the repository")
	}
	f := fmtSHA1
	if rep.Seed()%4 == 3 {
		f = fmtSHA256
	}
	repo, err := buildC11Repo(f)
	if err != nil {
		return err
	}
	opts := c11Options()
	slotOfID := map[string]string{}
	for s, id := range repo.slot {
		slotOfID[id] = s
	}
	usedRows := map[int]int{}
	ops := map[string]int{}
	var mu sync.Mutex
	// the histories are independent (a fresh Storage each): read them all, replay on a pool of goroutines
	var hists [][]c11Read
	err = rep.ReadNDJSON(args[0], func(line []byte) error {
		var hist []c11Read
		if err := json.Unmarshal(line, &hist); err != nil {
			return err
		}
		hists = append(hists, hist)
		return nil
	})
	if err != nil {
		return err
	}
	nh := len(hists)
	// measured: goroutines inside one process make the replay slower (kernel-side contention on the
	// mmap / open paths of one address space); the runner shards over processes instead. VERIF_WORKERS overrides.
	workers := 1
	if n, _ := strconv.Atoi(os.Getenv("VERIF_WORKERS")); n > 0 && n <= runtime.NumCPU() {
		workers = n
	}
	jobs := make(chan int)
	var wg sync.WaitGroup
	for w := 0; w < workers; w++ {
		wg.Add(1)
		go func() {
			defer wg.Done()
			for hi := range jobs {
				hist := hists[hi]
				for k := 0; k < per; k++ {
					oi := ((hi+1)*7 + k*13 + int(rep.Seed())) % len(opts)
					opt := opts[oi]
					mu.Lock()
					usedRows[oi]++
					for _, rd := range hist {
						ops[rd.Op]++
					}
					mu.Unlock()
					var fsys billy.Filesystem
					if opt.mmap {
						fsys = osfs.New(repo.dir, osfs.WithMmap())
					} else {
						fsys = osfs.New(repo.dir)
					}
					st := filesystem.NewStorageWithOptions(fsys, cache.NewObjectLRU(opt.cacheSize), filesystem.Options{
						UseInMemoryIdx: opt.memIdx, LargeObjectThreshold: opt.large, ExclusiveAccess: opt.exclusive,
						AlternatesFS: osfs.New("/")}) // alternates are absolute paths outside the repository directory
					var prefix []string
					for i, rd := range hist {
						r.Eval(1)
						pre := strings.Join(prefix, " ")
						prefix = append(prefix, rd.Op+"("+rd.S+","+rd.T+")")
						div := func(class, what string) {
							key := rd.S + "," + rd.T
							if class == "wrong-actual-size" {
								key = "delta-stored" // which slots git stores as deltas is git's choice
							}
							r.Diverge(rd.Op+"|"+class+"|"+key, fmt.Sprintf("%s(%s, %s) %s [after: %s] [options: %s, %s]", rd.Op, rd.S, rd.T, what, pre, opt.name, f.name),
								map[string]any{"history": hist, "step": i + 1, "options": opt.name, "format": f.name})
						}
						c11Step(repo, st, fsys, opt, rd, div)
					}
					st.Close()
				}
				if hi < 5 {
					r.Sample(map[string]any{"history": hist})
				}
			}
		}()
	}
	for i := range hists {
		jobs <- i
	}
	close(jobs)
	wg.Wait()
	r.Distinct = nh * per
	r.Traces = nh * per
	r.Extra["histories"] = nh
	r.Extra["option_rows_used"] = len(usedRows)
	r.Extra["reads_by_op"] = ops
	r.Extra["format"] = f.name
	r.Extra["git_leg"] = true
	return r.Emit()
}

// checkObject compares an object go-git returned with what git reports for the id.
func checkObject(repo *c11Repo, o plumbing.EncodedObject, wantID string, div func(string, string)) {
	w := repo.oracle[wantID]
	if o.Hash().String() != wantID {
		div("wrong-id", fmt.Sprintf("returned object %s, asked for %s", o.Hash(), wantID))
		return
	}
	if o.Type().String() != w.typ {
		div("wrong-type", fmt.Sprintf("Type()=%s, git says %s", o.Type(), w.typ))
	}
	if o.Size() != int64(len(w.content)) {
		div("wrong-size", fmt.Sprintf("Size()=%d, git says %d", o.Size(), len(w.content)))
	}
	rd, err := o.Reader()
	if err != nil {
		div("reader-error", err.Error())
		return
	}
	b, err := io.ReadAll(rd)
	rd.Close()
	if err != nil {
		div("read-error", err.Error())
		return
	}
	if !bytes.Equal(b, w.content) {
		div("wrong-bytes", fmt.Sprintf("%d bytes read, differ from git cat-file's %d bytes at %d", len(b), len(w.content), firstDiff(b, w.content)))
	}
}

func c11Step(repo *c11Repo, st *filesystem.Storage, fsys billy.Filesystem, opt c11Opt, rd c11Read, div func(string, string)) {
	id := repo.slot[rd.S]
	h, _ := plumbing.FromHex(id)
	want := map[string]bool{}
	for _, s := range rd.Expect.Slots {
		want[repo.slot[s]] = true
	}
	if rd.Op == "iter1" || rd.Op == "iterall" {
		// objects without a slot are stored objects too: an iteration must yield them, identical to git's
		for f := range repo.filler {
			if rd.T == "any" || repo.oracle[f].typ == rd.T {
				want[f] = true
			}
		}
	}
	notFound := func(err error) bool { return errors.Is(err, plumbing.ErrObjectNotFound) }
	switch rd.Op {
	case "get", "delta":
		var o plumbing.EncodedObject
		var err error
		if rd.Op == "get" {
			o, err = st.EncodedObject(typeFromName(rd.T), h)
		} else {
			o, err = st.DeltaObject(plumbing.AnyObject, h)
		}
		switch {
		case rd.Expect.R == "notfound" && err == nil:
			div("found-absent", fmt.Sprintf("returned %s %s, spec: not found", o.Type(), o.Hash()))
		case rd.Expect.R == "notfound" && !notFound(err):
			div("error", "spec: not found, got error "+err.Error())
		case rd.Expect.R == "object" && err != nil:
			div("not-found", "spec: object, got error "+err.Error())
		case rd.Expect.R == "object":
			if d, ok := o.(plumbing.DeltaObject); ok && rd.Op == "delta" {
				w := repo.oracle[id]
				if d.ActualHash().String() != id {
					div("wrong-id", fmt.Sprintf("DeltaObject.ActualHash=%s, asked for %s", d.ActualHash(), id))
				}
				if d.ActualSize() != int64(len(w.content)) {
					div("wrong-actual-size", fmt.Sprintf("DeltaObject.ActualSize()=%d, the object has %d bytes (git cat-file -s)", d.ActualSize(), len(w.content)))
				}
				return
			}
			checkObject(repo, o, id, div)
		}
	case "size":
		n, err := st.EncodedObjectSize(h)
		switch {
		case rd.Expect.R == "notfound" && err == nil:
			div("found-absent", fmt.Sprintf("size %d, spec: not found", n))
		case rd.Expect.R == "notfound" && !notFound(err):
			div("error", "spec: not found, got error "+err.Error())
		case rd.Expect.R == "size" && err != nil:
			div("not-found", "spec: size, got error "+err.Error())
		case rd.Expect.R == "size" && n != int64(len(repo.oracle[id].content)):
			div("wrong-size", fmt.Sprintf("EncodedObjectSize=%d, git says %d", n, len(repo.oracle[id].content)))
		}
	case "has":
		err := st.HasEncodedObject(h)
		if (err == nil) != (rd.Expect.R == "yes") {
			div("wrong-answer", fmt.Sprintf("HasEncodedObject error=%v, spec: %s", err, rd.Expect.R))
		}
	case "byoffset":
		// the decoded idx is shared by all goroutines and may build lookup tables lazily: one at a time
		byOffsetMu.Lock()
		defer byOffsetMu.Unlock()
		base := repo.packOf[rd.S]
		fh, err := fsys.Open(base + ".pack")
		if err != nil {
			div("error", err.Error())
			return
		}
		pf := packfile.NewPackfile(fh, packfile.WithIdx(repo.idxOf[base]), packfile.WithFs(fsys), packfile.WithCache(cache.NewObjectLRU(opt.cacheSize)),
			packfile.WithObjectIDSize(len(id)/2))
		defer pf.Close()
		o, err := pf.GetByOffset(repo.offOf[rd.S])
		if err != nil {
			div("not-found", "GetByOffset: "+err.Error())
			return
		}
		checkObject(repo, o, id, div)
	case "iter1", "iterall":
		it, err := st.IterEncodedObjects(typeFromName(rd.T))
		if err != nil {
			div("error", "IterEncodedObjects: "+err.Error())
			return
		}
		if rd.Op == "iter1" {
			o, err := it.Next()
			it.Close()
			if err != nil {
				if len(want) > 0 || err != io.EOF {
					div("error", fmt.Sprintf("Next: %v with %d objects of the type", err, len(want)))
				}
				return
			}
			if !want[o.Hash().String()] {
				div("foreign-object", fmt.Sprintf("iterator yields %s %s, not an object of the requested type", o.Type(), o.Hash()))
				return
			}
			checkObject(repo, o, o.Hash().String(), div)
			return
		}
		seen := map[string]int{}
		err = it.ForEach(func(o plumbing.EncodedObject) error {
			seen[o.Hash().String()]++
			if want[o.Hash().String()] {
				checkObject(repo, o, o.Hash().String(), div)
			}
			return nil
		})
		if err != nil {
			div("error", "ForEach: "+err.Error())
		}
		var miss, extra, dup []string
		for id := range want {
			if seen[id] == 0 {
				miss = append(miss, repoSlot(repo, id))
			}
		}
		for id, n := range seen {
			if !want[id] {
				extra = append(extra, id)
			}
			if n > 1 {
				dup = append(dup, repoSlot(repo, id))
			}
		}
		sort.Strings(miss)
		sort.Strings(dup)
		if len(miss) > 0 {
			div("missing", fmt.Sprintf("iteration misses %v", miss))
		}
		if len(extra) > 0 {
			div("foreign-object", fmt.Sprintf("iteration yields %d objects outside the expected set", len(extra)))
		}
		if len(dup) > 0 {
			div("duplicate", fmt.Sprintf("iteration yields %v more than once", dup))
		}
	case "prefix":
		p, _ := plumbing.FromHex(id)
		hs, err := st.HashesWithPrefix(p.Bytes()[:1])
		if err != nil {
			div("error", "HashesWithPrefix: "+err.Error())
			return
		}
		got := map[string]int{}
		for _, x := range hs {
			got[x.String()]++
		}
		// git's listing interprets "ids with this prefix"
		for oid := range repo.oracle {
			if strings.HasPrefix(oid, id[:2]) && got[oid] == 0 {
				div("missing", fmt.Sprintf("HashesWithPrefix(%s) misses %s (slot %s)", id[:2], oid, repoSlot(repo, oid)))
			}
		}
		for x, n := range got {
			if _, ok := repo.oracle[x]; !ok || !strings.HasPrefix(x, id[:2]) {
				div("foreign-object", fmt.Sprintf("HashesWithPrefix(%s) returns %s", id[:2], x))
			}
			if n > 1 {
				div("duplicate", fmt.Sprintf("HashesWithPrefix(%s) returns %s %d times (slot %s)", id[:2], x, n, repoSlot(repo, x)))
			}
		}
		for w := range want {
			if got[w] == 0 {
				div("missing", "the slot's own id is not returned")
			}
		}
	}
}

func repoSlot(repo *c11Repo, id string) string {
	for s, x := range repo.slot {
		if x == id {
			return s
		}
	}
	return id
}
