package main

// C07: scenarios enumerated by TLC (spec/abstract/PackRequest.tla: which objects, repeated
// ids, window, delta kind, source storage) are encoded with go-git's packfile.Encoder; the
// bytes are parsed back by the harness' own reader into one record per pack, which
// PackRecord.tla judges (well-formed graph, ids(Resolve) = Requested, count, trailer).
// git leg: `git index-pack --strict` + `git verify-pack -v` on a seeded sample.

import (
	"bytes"
	"encoding/hex"
	"encoding/json"
	"fmt"
	"math/rand"
	"os"
	"os/exec"
	"path/filepath"
	"sort"
	"strings"

	"github.com/go-git/go-billy/v6/memfs"
	"github.com/go-git/go-billy/v6/osfs"
	"github.com/go-git/go-git/v6/plumbing"
	"github.com/go-git/go-git/v6/plumbing/cache"
	"github.com/go-git/go-git/v6/plumbing/format/packfile"
	"github.com/go-git/go-git/v6/plumbing/storer"
	"github.com/go-git/go-git/v6/storage/filesystem"
	"github.com/go-git/go-git/v6/storage/memory"

	"verifharness/internal/gitcli"
	"verifharness/internal/rep"
)

func init() { rep.Register("c07", c07) }

type c07Scenario struct {
	Req    []string          `json:"req"`
	Want   []string          `json:"want"`
	Window uint              `json:"window"`
	Kind   string            `json:"kind"`
	Src    string            `json:"src"`
	Fam    map[string]string `json:"fam"`
	Idx    int               `json:"idx"`
}

// ---- the fixed object universe ----

func lines(prefix string, n int) string {
	var b strings.Builder
	for i := 0; i < n; i++ {
		fmt.Fprintf(&b, "%s line %03d: the quick brown fox jumps over the lazy dog\n", prefix, i)
	}
	return b.String()
}

type uniObj struct {
	sym     string
	typ     string
	content []byte
	id      string
}

func treeEntry(mode, name string, id []byte) []byte {
	return append([]byte(mode+" "+name+"\x00"), id...)
}

func universe(f objFormat) (map[string]*uniObj, []string) {
	u := map[string]*uniObj{}
	var order []string
	add := func(sym, typ string, c []byte) *uniObj {
		o := &uniObj{sym, typ, c, hex.EncodeToString(f.objectID(typ, c))}
		u[sym] = o
		order = append(order, sym)
		return o
	}
	rawID := func(sym string) []byte { b, _ := hex.DecodeString(u[sym].id); return b }
	c := lines("chain", 40)
	for k := 1; k <= 5; k++ {
		add(fmt.Sprintf("c%d", k), "blob", []byte(c))
		c += lines(fmt.Sprintf("chain-extra-%d", k), 3)
	}
	x := lines("near", 30)
	add("x", "blob", []byte(x))
	add("x1", "blob", []byte(x+"!"))
	add("xx", "blob", []byte(x+x))
	add("eb", "blob", nil)
	add("et", "tree", nil)
	var t1 bytes.Buffer
	for i, s := range []string{"c1", "c2", "c3", "c4", "c5", "eb", "x", "x1", "xx"} {
		t1.Write(treeEntry("100644", fmt.Sprintf("file-%02d-%s", i, s), rawID(s)))
	}
	add("t1", "tree", t1.Bytes())
	t2 := append(append([]byte{}, t1.Bytes()...), treeEntry("100755", "zz-extra", rawID("x1"))...)
	add("t2", "tree", t2)
	add("cm", "commit", []byte("tree "+u["t1"].id+"\nauthor "+identA+"\ncommitter "+identC+"\n\nthe commit\n"))
	add("tg", "tag", []byte("object "+u["cm"].id+"\ntype commit\ntag v1\ntagger "+identC+"\n\nthe tag\n"))
	big := lines("big", 1100) // ~ 70 KiB
	add("b1", "blob", []byte(big))
	mid := len(big) / 2
	add("b2", "blob", []byte(big[:mid]+"a changed line in the middle\n"+big[mid:]+lines("big-tail", 5)))
	return u, order
}

// ---- source storages ----

func fillStorage(s storer.EncodedObjectStorer, u map[string]*uniObj, order []string) error {
	for _, sym := range order {
		o := u[sym]
		eo := s.NewEncodedObject()
		t, _ := plumbing.ParseObjectType(o.typ)
		eo.SetType(t)
		eo.SetSize(int64(len(o.content)))
		w, err := eo.Writer()
		if err != nil {
			return err
		}
		w.Write(o.content)
		w.Close()
		h, err := s.SetEncodedObject(eo)
		if err != nil {
			return err
		}
		if h.String() != o.id {
			return fmt.Errorf("storage names %s %s, harness computes %s", sym, h, o.id)
		}
	}
	return nil
}

// gitUniverse builds a bare repository with the universe as loose objects (written by git).
func gitUniverse(f objFormat, u map[string]*uniObj, order []string, tag string) (string, error) {
	dir := filepath.Join(gitcli.TempDir("c07"+tag), "repo.git")
	if _, se, err := gitcli.Run(filepath.Dir(dir), nil, "init", "-q", "--bare", "--object-format="+f.name, dir); err != nil {
		return "", fmt.Errorf("git init: %v %s", err, se)
	}
	for _, sym := range order {
		o := u[sym]
		out, se, err := gitcli.Run(dir, o.content, "hash-object", "-w", "-t", o.typ, "--stdin")
		if err != nil {
			return "", fmt.Errorf("git hash-object %s: %v %s", sym, err, se)
		}
		if strings.TrimSpace(out) != o.id {
			return "", fmt.Errorf("git names %s %s, harness computes %s", sym, strings.TrimSpace(out), o.id)
		}
	}
	return dir, nil
}

// gitPackedCopy copies the loose repository and lets git pack-objects pack everything (deltas, window 10).
func gitPackedCopy(loose string, u map[string]*uniObj, order []string, tag string) (string, error) {
	dir := filepath.Join(gitcli.TempDir("c07"+tag), "repo.git")
	if err := os.CopyFS(dir, os.DirFS(loose)); err != nil {
		return "", err
	}
	var ids bytes.Buffer
	for _, sym := range order {
		ids.WriteString(u[sym].id + "\n")
	}
	if _, se, err := gitcli.Run(dir, ids.Bytes(), "pack-objects", "-q", "--window=10", "--depth=50", "objects/pack/pack"); err != nil {
		return "", fmt.Errorf("git pack-objects: %v %s", err, se)
	}
	if _, se, err := gitcli.Run(dir, nil, "prune-packed"); err != nil {
		return "", fmt.Errorf("git prune-packed: %v %s", err, se)
	}
	return dir, nil
}

// hugePair: h1 = 17 MiB + 4 KiB of seeded pseudo-random bytes, h2 = h1 without its first 5 MiB plus a tail
// (the delta selector only pairs objects when the target is at least 2/3 of the base).
// A delta of h2 against h1 copies from offsets >= 16 MiB (fourth offset byte of the copy instruction).
func hugePair(f objFormat) []*uniObj {
	rnd := rand.New(rand.NewSource(rep.Seed()*7919 + 17))
	h1 := make([]byte, 17<<20+4096)
	rnd.Read(h1)
	h2 := append(append([]byte{}, h1[5<<20:]...), "a few trailing bytes that only the second blob has\n"...)
	var out []*uniObj
	for i, c := range [][]byte{h1, h2} {
		out = append(out, &uniObj{fmt.Sprintf("h%d", i+1), "blob", c, hex.EncodeToString(f.objectID("blob", c))})
	}
	return out
}

// ensureHuge adds the huge pair to the memory source of the environment on first use.
func (e *c07Env) ensureHuge() error {
	if e.u["h1"] != nil {
		return nil
	}
	hp := hugePair(e.f)
	um := map[string]*uniObj{}
	var order []string
	for _, o := range hp {
		um[o.sym] = o
		order = append(order, o.sym)
	}
	if err := fillStorage(e.src["memory"], um, order); err != nil {
		return err
	}
	for _, o := range hp {
		e.u[o.sym] = o
		e.byID[o.id] = o
	}
	return nil
}

type c07Env struct {
	f      objFormat
	u      map[string]*uniObj
	order  []string
	byID   map[string]*uniObj
	src    map[string]storer.EncodedObjectStorer
	gitDir string // repository with the whole universe, for --strict link checks
}

func newC07Env(f objFormat) (*c07Env, error) {
	e := &c07Env{f: f, src: map[string]storer.EncodedObjectStorer{}, byID: map[string]*uniObj{}}
	e.u, e.order = universe(f)
	for _, o := range e.u {
		e.byID[o.id] = o
	}
	mem := memory.NewStorage(memory.WithObjectFormat(gogitFormat(f)))
	if err := fillStorage(mem, e.u, e.order); err != nil {
		return nil, err
	}
	e.src["memory"] = mem
	loose := filesystem.NewStorageWithOptions(memfs.New(), cache.NewObjectLRUDefault(), filesystem.Options{ObjectFormat: gogitFormat(f)})
	if err := fillStorage(loose, e.u, e.order); err != nil {
		return nil, err
	}
	e.src["fs-loose"] = loose
	if gitcli.Available() {
		var err error
		e.gitDir, err = gitUniverse(f, e.u, e.order, f.name+"l")
		if err != nil {
			return nil, err
		}
		d, err := gitPackedCopy(e.gitDir, e.u, e.order, f.name+"p")
		if err != nil {
			return nil, err
		}
		e.src["fs-packed"] = filesystem.NewStorage(osfs.New(d), cache.NewObjectLRUDefault())
	}
	return e, nil
}

type c07Meta struct {
	Key    string   `json:"key"`
	Format string   `json:"format"`
	Scn    int      `json:"scenario"`
	Req    []string `json:"req_symbols"`
	Window uint     `json:"window"`
	Kind   string   `json:"kind"`
	Src    string   `json:"src"`
}

type c07Line struct {
	*packRecord
	Meta c07Meta `json:"meta"`
}

func c07(args []string) error {
	if len(args) < 2 {
		return fmt.Errorf("usage: c07 scenarios.ndjson records.ndjson [gitlimit]")
	}
	r := rep.New()
	rnd := rand.New(rand.NewSource(rep.Seed()))
	gitLimit := 100
	if rep.Thorough() {
		gitLimit = 1500
	}
	if len(args) > 2 {
		fmt.Sscanf(args[2], "%d", &gitLimit)
	}
	envs := map[string]*c07Env{}
	for _, f := range []objFormat{fmtSHA1, fmtSHA256} {
		e, err := newC07Env(f)
		if err != nil {
			return fmt.Errorf("%s universe: %w", f.name, err)
		}
		envs[f.name] = e
	}
	out, err := os.Create(args[1])
	if err != nil {
		return err
	}
	defer out.Close()
	type gitJob struct {
		base string
		env  *c07Env
		want []string
		meta c07Meta
		ids  map[string]bool
	}
	var jobs []gitJob
	packDir := gitcli.TempDir("c07packs")
	nrec := 0
	kinds := map[string]int{}
	scn := 0
	err = rep.ReadNDJSON(args[0], func(line []byte) error {
		var sc c07Scenario
		if err := json.Unmarshal(line, &sc); err != nil {
			return err
		}
		scn++
		fmts := []string{"sha1"}
		if rnd.Intn(4) == 0 {
			fmts = append(fmts, "sha256")
		}
		if sc.Fam["huge"] == "pair" {
			fmts = []string{"sha1"} // the huge pair is rendered for one format (cost)
			if err := envs["sha1"].ensureHuge(); err != nil {
				return err
			}
		}
		for _, fn := range fmts {
			env := envs[fn]
			st, ok := env.src[sc.Src]
			if !ok {
				continue
			}
			meta := c07Meta{Format: fn, Scn: scn, Req: sc.Req, Window: sc.Window, Kind: sc.Kind, Src: sc.Src}
			// abstract scenario key of finding signatures: delta kind and whether ids repeat in the request
			// (window, source and format are reported in the case, not in the signature)
			rep := "distinct-ids"
			if sc.Fam["dup"] != "none" {
				rep = "repeated-ids"
			}
			meta.Key = fmt.Sprintf("%s,%s", sc.Kind, rep)
			var hashes []plumbing.Hash
			for _, sym := range sc.Req {
				h, _ := plumbing.FromHex(env.u[sym].id)
				hashes = append(hashes, h)
			}
			var want []string
			for _, sym := range sc.Want {
				want = append(want, env.u[sym].id)
			}
			sort.Strings(want)
			var buf bytes.Buffer
			enc := packfile.NewEncoder(&buf, st, sc.Kind == "ref")
			ret, err := enc.Encode(hashes, sc.Window)
			r.Eval(1)
			if err != nil {
				r.Diverge("Encoder|error|"+meta.Key, fmt.Sprintf("Encode(%v, window %d) failed: %v", sc.Req, sc.Window, err), meta)
				continue
			}
			rec, perr := parsePack(env.f, buf.Bytes(), nil)
			if perr != nil {
				r.Diverge("Encoder|unparsable-pack|"+meta.Key, fmt.Sprintf("the pack written for %v (window %d, %s) cannot be parsed: %v", sc.Req, sc.Window, sc.Kind, perr), meta)
				continue
			}
			if ret.String() != rec.Trailer {
				r.Diverge("Encoder|returned-checksum-is-not-the-trailer|"+meta.Key, fmt.Sprintf("Encode returned %s, the pack ends with %s", ret, rec.Trailer), meta)
			}
			rec.Req = want
			for _, e := range rec.Es {
				kinds[e.Kind]++
			}
			b, _ := json.Marshal(c07Line{rec, meta})
			out.Write(append(b, '\n'))
			nrec++
			r.Sample(map[string]any{"scenario": meta, "entries": len(rec.Es), "bytes": buf.Len()})
			if env.gitDir != "" && gitLimit > 0 {
				// reservoir of gitLimit packs
				ids := map[string]bool{}
				for _, e := range rec.Es {
					ids[e.ID] = true
				}
				j := gitJob{env: env, want: want, meta: meta, ids: ids}
				slot := -1
				if len(jobs) < gitLimit {
					jobs = append(jobs, j)
					slot = len(jobs) - 1
				} else if k := rnd.Intn(nrec); k < gitLimit {
					jobs[k] = j
					slot = k
				}
				if slot >= 0 {
					jobs[slot].base = filepath.Join(packDir, fmt.Sprintf("p%05d", slot))
					if err := os.WriteFile(jobs[slot].base+".pack", buf.Bytes(), 0o644); err != nil {
						return err
					}
				}
			}
		}
		return nil
	})
	if err != nil {
		return err
	}
	// ---- git leg
	gitChecked := 0
	for _, fn := range []string{"sha1", "sha256"} {
		var list bytes.Buffer
		var sel []gitJob
		for _, j := range jobs {
			if j.env.f.name == fn {
				list.WriteString(j.base + "\x00")
				sel = append(sel, j)
			}
		}
		if len(sel) == 0 {
			continue
		}
		script := `git index-pack --strict -o "$1.idx" "$1.pack" >"$1.ip" 2>&1; echo $? >"$1.rc"; git verify-pack -v "$1.idx" >"$1.vp" 2>&1; true`
		c := exec.Command("xargs", "-0", "-n", "1", "-P", "8", "sh", "-c", script, "_")
		c.Env = append(gitcli.Env(), "GIT_DIR="+envs[fn].gitDir)
		c.Stdin = &list
		if o, err := c.CombinedOutput(); err != nil {
			return fmt.Errorf("git leg: %v: %s", err, o)
		}
		for _, j := range sel {
			gitChecked++
			rc, _ := os.ReadFile(j.base + ".rc")
			if strings.TrimSpace(string(rc)) != "0" {
				msg, _ := os.ReadFile(j.base + ".ip")
				r.Diverge("Encoder|git-index-pack-rejects|"+j.meta.Key, fmt.Sprintf("git index-pack --strict rejects the pack written for %v: %s", j.meta.Req, strings.TrimSpace(string(msg))), j.meta)
				continue
			}
			vp, _ := os.ReadFile(j.base + ".vp")
			var got []string
			for _, ln := range strings.Split(string(vp), "\n") {
				fs := strings.Fields(ln)
				if len(fs) >= 5 && len(fs[0]) == 2*j.env.f.size {
					o := j.env.byID[fs[0]]
					// (for a deltified entry verify-pack prints the size of the delta, not of the object)
					if o == nil || o.typ != fs[1] || (len(fs) == 5 && fmt.Sprint(len(o.content)) != fs[2]) {
						r.Diverge("Encoder|git-resolves-different-object|"+j.meta.Key, fmt.Sprintf("git verify-pack lists %q, not an object of the request %v", ln, j.meta.Req), j.meta)
					}
					got = append(got, fs[0])
					if !j.ids[fs[0]] {
						return fmt.Errorf("harness reader and git verify-pack disagree on the objects of %s (%s)", j.base, ln)
					}
				}
			}
			sort.Strings(got)
			if strings.Join(got, ",") != strings.Join(j.want, ",") {
				r.Diverge("Encoder|git-lists-different-set|"+j.meta.Key, fmt.Sprintf("git verify-pack lists %d objects, requested %d (%v)", len(got), len(j.want), j.meta.Req), j.meta)
			}
		}
	}
	r.Distinct = nrec
	r.Traces = nrec
	r.Extra["git_leg"] = gitLimit > 0 && gitcli.Available()
	r.Extra["git_checked"] = gitChecked
	r.Extra["entry_kinds"] = kinds
	r.Extra["records"] = nrec
	return r.Emit()
}
