package main

import (
	"encoding/json"
	"fmt"
	"math/rand"
	"os"
	"path/filepath"
	"sort"
	"strconv"
	"strings"
	"sync"

	"verifharness/internal/gate"
	"verifharness/internal/gitcli"
	"verifharness/internal/hookfs"
	"verifharness/internal/rep"

	"github.com/go-git/go-billy/v6/osfs"
	"github.com/go-git/go-git/v6/plumbing"
	"github.com/go-git/go-git/v6/storage/filesystem"
)

// C16: concurrent reference updates.  Scenarios (initial layout + one program per
// process) and key-step schedules come from TLC's exploration of
// spec/impl/RefStoreFS.tla; each schedule (plus seeded random fine-grained ones) is
// executed on REAL filesystem.Storage instances sharing one directory, gated at every
// filesystem step.  The recorded call histories are written for TLC
// (spec/trace/TraceRefHist.tla) which decides linearizability.

type c16Op struct {
	Op  string `json:"op"`
	Old string `json:"old"`
	New string `json:"new"`
}

type c16Scenario struct {
	ID         string             `json:"id"`
	InitLoose  string             `json:"init_loose"`
	InitPacked string             `json:"init_packed"`
	Procs      map[string][]c16Op `json:"procs"`
	Schedules  [][]int            `json:"schedules"`
	Random     int                `json:"random"`
}

type c16Event struct {
	P   int    `json:"p"`
	Ev  string `json:"ev"`
	Op  string `json:"op"`
	Old string `json:"old"`
	New string `json:"new"`
	Val string `json:"val"`
}

type c16Hist struct {
	ID    int        `json:"id"`
	Scen  string     `json:"scen"`
	Kind  string     `json:"kind"`
	Init  string     `json:"init"`
	Log   []c16Event `json:"log"`
	Sched []int      `json:"sched"`
	Keys  []string   `json:"keys,omitempty"`
}

const c16Ref = "refs/heads/x"

var c16Hash = map[string]plumbing.Hash{}
var c16Sym = map[plumbing.Hash]string{}

func init() {
	register("c16", c16)
	for i, s := range []string{"h0", "h1", "h2", "h3", "h4"} {
		h := plumbing.NewHash(strings.Repeat(strconv.Itoa(i+1), 40))
		c16Hash[s] = h
		c16Sym[h] = s
	}
}

func c16Template(dir, loose, packed string) error {
	st := filesystem.NewStorage(osfs.New(dir), nil)
	if err := st.Init(); err != nil {
		return err
	}
	st.Close()
	os.MkdirAll(filepath.Join(dir, "refs", "heads"), 0o755)
	os.WriteFile(filepath.Join(dir, "HEAD"), []byte("ref: refs/heads/master\n"), 0o644)
	pk := "# pack-refs with: peeled fully-peeled sorted \n"
	if packed != "none" {
		pk += c16Hash[packed].String() + " " + c16Ref + "\n"
	}
	if err := os.WriteFile(filepath.Join(dir, "packed-refs"), []byte(pk), 0o644); err != nil {
		return err
	}
	if loose != "none" {
		return os.WriteFile(filepath.Join(dir, c16Ref), []byte(c16Hash[loose].String()+"\n"), 0o644)
	}
	return nil
}

func c16Run(sc *c16Scenario, schedule []int, keyMode bool, rnd *rand.Rand) (*c16Hist, error) {
	dir := gitcli.TempDir("c16")
	defer os.RemoveAll(dir)
	if err := c16Template(dir, sc.InitLoose, sc.InitPacked); err != nil {
		return nil, err
	}
	s := gate.New()
	locked := map[*hookfs.File]bool{}
	readOnce := map[*hookfs.File]bool{}
	var keys []string
	isKey := func(op *hookfs.Op) bool {
		if strings.HasPrefix(op.Kind, "inv:") {
			return true
		}
		switch {
		case op.Path == c16Ref:
			switch op.Kind {
			case "Stat", "Open", "OpenFile", "Remove", "Lock", "Truncate", "Write":
				return true
			case "Read":
				return !readOnce[op.H]
			case "Close":
				return locked[op.H]
			}
		case op.Path == "packed-refs":
			switch op.Kind {
			case "Open", "Lock":
				return true
			case "Close":
				return locked[op.H]
			}
		case op.Kind == "Rename" && op.Path2 == "packed-refs":
			return true
		}
		return false
	}
	s.OnGrant = func(pid int, op *hookfs.Op) {
		if isKey(op) && !strings.HasPrefix(op.Kind, "inv:") {
			keys = append(keys, fmt.Sprintf("%d:%s:%s", pid, op.Kind, filepath.Base(op.Path)))
		}
		switch op.Kind {
		case "Lock":
			locked[op.H] = true
		case "Read":
			readOnce[op.H] = true
		}
	}
	if keyMode {
		s.IsKey = isKey
	}
	pids := make([]int, 0)
	for k := range sc.Procs {
		n, _ := strconv.Atoi(k)
		pids = append(pids, n)
	}
	sort.Ints(pids)
	for _, pid := range pids {
		pid := pid
		st := filesystem.NewStorage(hookfs.New(osfs.New(dir), s.Hook(pid)), nil)
		prog := sc.Procs[strconv.Itoa(pid)]
		s.Go(pid, func() {
			for _, op := range prog {
				op := op
				s.Call(pid, op.Op, op, func() string {
					switch op.Op {
					case "read":
						r, err := st.Reference(c16Ref)
						if err != nil {
							if k := errKind(err); k == "notfound" {
								return "none"
							} else {
								return k
							}
						}
						if r.Type() != plumbing.HashReference {
							return "error:symbolic"
						}
						if v, ok := c16Sym[r.Hash()]; ok {
							return v
						}
						return "error:unknown-hash"
					case "cas":
						return errKind(st.CheckAndSetReference(plumbing.NewHashReference(c16Ref, c16Hash[op.New]), plumbing.NewHashReference(c16Ref, c16Hash[op.Old])))
					case "set":
						return errKind(st.SetReference(plumbing.NewHashReference(c16Ref, c16Hash[op.New])))
					case "remove":
						return errKind(st.RemoveReference(c16Ref))
					case "pack":
						return errKind(st.PackRefs())
					}
					return "error:unknown-op"
				})
			}
		})
	}
	s.Arm()
	if err := s.Run(schedule, rnd); err != nil {
		return nil, err
	}
	h := &c16Hist{Scen: sc.ID, Sched: s.Steps, Keys: keys}
	h.Init = sc.InitLoose
	if h.Init == "none" {
		h.Init = sc.InitPacked
	}
	for _, e := range s.Log {
		if e.Ev == "step" {
			continue
		}
		ev := c16Event{P: e.P, Ev: e.Ev, Op: e.Kind, Val: e.Val}
		if e.Ev == "inv" {
			if o, ok := e.Arg.(c16Op); ok {
				ev.Old, ev.New = o.Old, o.New
			}
		}
		h.Log = append(h.Log, ev)
	}
	// a final read after every process has finished, through a fresh storage on the plain directory
	// (process 9): whatever the interleaving was, the register's final value must be explained by the
	// history - a successful update that left no trace shows here even if no scheduled read followed it
	{
		fst := filesystem.NewStorage(osfs.New(dir), nil)
		val := ""
		r, err := fst.Reference(c16Ref)
		switch {
		case err != nil:
			if k := errKind(err); k == "notfound" {
				val = "none"
			} else {
				val = k
			}
		case r.Type() != plumbing.HashReference:
			val = "error:symbolic"
		default:
			if v, ok := c16Sym[r.Hash()]; ok {
				val = v
			} else {
				val = "error:unknown-hash"
			}
		}
		h.Log = append(h.Log, c16Event{P: 9, Ev: "inv", Op: "read"}, c16Event{P: 9, Ev: "res", Op: "read", Val: val})
	}
	// copy old/new onto res events for readability
	last := map[int]c16Event{}
	for i := range h.Log {
		if h.Log[i].Ev == "inv" {
			last[h.Log[i].P] = h.Log[i]
		} else {
			h.Log[i].Old, h.Log[i].New = last[h.Log[i].P].Old, last[h.Log[i].P].New
		}
	}
	return h, nil
}

// c16 scenarios.json out.ndjson
func c16(args []string) error {
	if len(args) < 2 {
		return fmt.Errorf("usage: c16 scenarios.json out.ndjson")
	}
	b, err := os.ReadFile(args[0])
	if err != nil {
		return err
	}
	var scs []c16Scenario
	if err := json.Unmarshal(b, &scs); err != nil {
		return err
	}
	out, err := os.Create(args[1])
	if err != nil {
		return err
	}
	defer out.Close()
	enc := json.NewEncoder(out)
	r := rep.New()
	rnd := rand.New(rand.NewSource(rep.Seed()))
	id := 0
	distinct := map[string]bool{}
	emit := func(h *c16Hist, kind string) {
		id++
		h.ID = id
		h.Kind = kind
		enc.Encode(h)
		r.Eval(1)
		k, _ := json.Marshal(h.Log)
		distinct[h.Scen+string(k)] = true
		if id%97 == 1 {
			r.Sample(h)
		}
	}
	type job struct {
		sc    *c16Scenario
		sched []int
		key   bool
		seed  int64
		kind  string
	}
	var jobs []job
	for i := range scs {
		sc := &scs[i]
		for _, sched := range sc.Schedules {
			jobs = append(jobs, job{sc, sched, true, 0, "tlc"})
		}
		for k := 0; k < sc.Random; k++ {
			jobs = append(jobs, job{sc, nil, false, rnd.Int63(), "rand"})
		}
	}
	res := make([]*c16Hist, len(jobs))
	errs := make([]error, len(jobs))
	var wg sync.WaitGroup
	sem := make(chan struct{}, 12)
	for i := range jobs {
		wg.Add(1)
		sem <- struct{}{}
		go func(i int) {
			defer wg.Done()
			defer func() { <-sem }()
			j := jobs[i]
			var rr *rand.Rand
			if !j.key {
				rr = rand.New(rand.NewSource(j.seed))
			}
			res[i], errs[i] = c16Run(j.sc, j.sched, j.key, rr)
		}(i)
	}
	wg.Wait()
	for i := range jobs {
		if errs[i] != nil {
			return fmt.Errorf("scenario %s %s schedule %v: %v", jobs[i].sc.ID, jobs[i].kind, jobs[i].sched, errs[i])
		}
		emit(res[i], jobs[i].kind)
	}
	r.Distinct = len(distinct)
	r.Traces = id
	return r.Emit()
}
