package main

import (
	"bytes"
	"encoding/json"
	"errors"
	"fmt"
	"io"
	"time"

	"verifharness/internal/rep"

	"github.com/go-git/go-billy/v6/memfs"
	"github.com/go-git/go-git/v6/plumbing"
	"github.com/go-git/go-git/v6/plumbing/cache"
	"github.com/go-git/go-git/v6/plumbing/format/packfile"
	"github.com/go-git/go-git/v6/storage/filesystem"
	"github.com/go-git/go-git/v6/storage/memory"
)

// C18: ObjectVisibility histories replayed on real filesystem object storage.

type ovStep struct {
	Op   string            `json:"op"`
	W    string            `json:"w"`
	Kind string            `json:"kind"`
	O    string            `json:"o"`
	Vis  map[string]string `json:"vis"`
}

func init() { register("c18", c18) }

// onePack returns the bytes of a pack holding just obj (encoded with go-git's own encoder from a memory storage).
func onePack(obj plumbing.EncodedObject) ([]byte, error) {
	ms := memory.NewStorage()
	if _, err := ms.SetEncodedObject(obj); err != nil {
		return nil, err
	}
	var buf bytes.Buffer
	enc := packfile.NewEncoder(&buf, ms, false)
	if _, err := enc.Encode([]plumbing.Hash{obj.Hash()}, 0); err != nil {
		return nil, err
	}
	return buf.Bytes(), nil
}

func c18(args []string) error {
	if len(args) < 1 {
		return fmt.Errorf("usage: c18 hist.ndjson")
	}
	var hists [][]ovStep
	err := rep.ReadNDJSON(args[0], func(b []byte) error {
		var h []ovStep
		if err := json.Unmarshal(b, &h); err != nil {
			return err
		}
		hists = append(hists, h)
		return nil
	})
	if err != nil {
		return err
	}
	objs := map[string]plumbing.EncodedObject{
		"o1": memObj(plumbing.BlobObject, []byte("object one\n")),
		"o2": memObj(plumbing.BlobObject, []byte("object two, a little longer\n")),
	}
	packs := map[string][]byte{}
	for n, o := range objs {
		p, err := onePack(o)
		if err != nil {
			return err
		}
		packs[n] = p
	}
	r := rep.New()
	type variant struct {
		name string
		opts filesystem.Options
		c1   bool
	}
	variants := []variant{
		{"default", filesystem.Options{}, false},
		{"exclusive", filesystem.Options{ExclusiveAccess: true}, false},
		{"exclusive+memidx+cache1", filesystem.Options{ExclusiveAccess: true, UseInMemoryIdx: true}, true},
		{"largeobj1", filesystem.Options{LargeObjectThreshold: 1}, false},
	}
	for hi, h := range hists {
		for vi, v := range variants {
			// quick tier: default + exclusive on every history, the other variants on a quarter
			if !rep.Thorough() && vi >= 2 && (hi+vi)%4 != 0 {
				continue
			}
			r.Eval(1)
			var oc cache.Object
			if v.c1 {
				oc = cache.NewObjectLRU(1)
			}
			st := filesystem.NewStorageWithOptions(memfs.New(), oc, v.opts)
			if err := st.Init(); err != nil {
				return err
			}
			open := map[string]io.WriteCloser{}
			fail := func(i int, sig, what string) {
				r.Diverge(sig, what, map[string]any{"options": v.name, "steps": h[:i+1]})
			}
			ok := true
			for i := 0; ok && i < len(h); i++ {
				s := h[i]
				switch s.Op {
				case "set":
					if _, err := st.SetEncodedObject(objs[s.O]); err != nil {
						return fmt.Errorf("SetEncodedObject: %v", err)
					}
				case "open":
					o := objs[s.O]
					rd, _ := o.Reader()
					content, _ := io.ReadAll(rd)
					switch s.Kind {
					case "raw":
						w, err := st.RawObjectWriter(o.Type(), o.Size())
						if err != nil {
							return fmt.Errorf("RawObjectWriter: %v", err)
						}
						w.Write(content)
						open[s.W] = w
					case "lazy":
						w, wh, err := st.LazyWriter()
						if err != nil {
							return fmt.Errorf("LazyWriter: %v", err)
						}
						if err := wh(o.Type(), o.Size()); err != nil {
							return fmt.Errorf("LazyWriter header: %v", err)
						}
						w.Write(content)
						open[s.W] = w
					case "pack":
						w, err := st.PackfileWriter()
						if err != nil {
							return fmt.Errorf("PackfileWriter: %v", err)
						}
						w.Write(packs[s.O])
						open[s.W] = w
					}
				case "setpack":
					w, err := st.PackfileWriter()
					if err != nil {
						return fmt.Errorf("PackfileWriter: %v", err)
					}
					w.Write(packs[s.O])
					if err := w.Close(); err != nil {
						ok = false
						r.Extra["close_errors"] = fmt.Sprint(err)
						continue
					}
				case "droppack":
					// the pack id is the trailer of the pack bytes
					pk := packs[s.O]
					id, _ := plumbing.FromBytes(pk[len(pk)-20:])
					if err := st.DeleteOldObjectPackAndIndex(id, time.Time{}); err != nil {
						fail(i, "droppack|error|"+normErr(err), fmt.Sprintf("DeleteOldObjectPackAndIndex failed: %v", err))
						ok = false
						continue
					}
				case "close":
					if err := open[s.W].Close(); err != nil {
						// an unsuccessful write promises nothing: stop this history
						ok = false
						r.Extra["close_errors"] = fmt.Sprint(err)
						continue
					}
					delete(open, s.W)
				case "read":
				}
				// probe: for a "read" step only the named lookup kind (it decides which caches get filled);
				// after writes every lookup kind must agree.
				kinds := []string{"has", "size", "get", "iter", "prefix"}
				if s.Op == "read" {
					kinds = []string{s.Kind}
				} else if s.Op == "open" {
					kinds = nil
				}
				for _, k := range kinds {
					for n, o := range objs {
						vis, perr := probeObj(st, k, o)
						if perr != nil {
							fail(i, "probe-error|"+k+"|"+normErr(perr), fmt.Sprintf("%s lookup failed: %v", k, perr))
							ok = false
							break
						}
						want := s.Vis[n]
						if want == "maybe" {
							continue
						}
						if (want == "yes") != vis {
							cls := "invisible-after-write"
							if vis {
								cls = "visible-but-never-written"
							}
							fail(i, fmt.Sprintf("%s|%s|after=%s:%s", cls, k, s.Op, s.Kind),
								fmt.Sprintf("%s(%s) says present=%v after %s(%s), the model says %s [options %s]", k, n, vis, s.Op, s.Kind, want, v.name))
							ok = false
							break
						}
					}
					if !ok {
						break
					}
				}
			}
			for _, w := range open {
				w.Close()
			}
			st.Close()
		}
		if hi%1000 == 0 {
			r.Sample(h)
		}
	}
	r.Distinct = len(hists)
	return r.Emit()
}

func probeObj(st *filesystem.Storage, kind string, o plumbing.EncodedObject) (bool, error) {
	h := o.Hash()
	switch kind {
	case "has":
		err := st.HasEncodedObject(h)
		if err == nil {
			return true, nil
		}
		if errors.Is(err, plumbing.ErrObjectNotFound) {
			return false, nil
		}
		return false, err
	case "size":
		sz, err := st.EncodedObjectSize(h)
		if err == nil {
			if sz != o.Size() {
				return false, fmt.Errorf("wrong size")
			}
			return true, nil
		}
		if errors.Is(err, plumbing.ErrObjectNotFound) {
			return false, nil
		}
		return false, err
	case "get":
		g, err := st.EncodedObject(plumbing.AnyObject, h)
		if err == nil {
			if g.Type() != o.Type() || g.Size() != o.Size() {
				return false, fmt.Errorf("wrong type or size")
			}
			return true, nil
		}
		if errors.Is(err, plumbing.ErrObjectNotFound) {
			return false, nil
		}
		return false, err
	case "iter":
		it, err := st.IterEncodedObjects(o.Type())
		if err != nil {
			return false, err
		}
		found := false
		err = it.ForEach(func(x plumbing.EncodedObject) error {
			if x.Hash() == h {
				found = true
			}
			return nil
		})
		return found, err
	case "prefix":
		hs, err := st.HashesWithPrefix(h.Bytes()[:2])
		if err != nil {
			return false, err
		}
		for _, x := range hs {
			if x == h {
				return true, nil
			}
		}
		return false, nil
	}
	return false, fmt.Errorf("unknown probe kind")
}
