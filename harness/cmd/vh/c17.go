package main

import (
	"fmt"
	"os"
	"runtime"
	"sync"

	"verifharness/internal/gitcli"
	"verifharness/internal/rep"

	"github.com/go-git/go-billy/v6"
	"github.com/go-git/go-billy/v6/memfs"
	"github.com/go-git/go-billy/v6/osfs"
	"github.com/go-git/go-git/v6/plumbing/cache"
	"github.com/go-git/go-git/v6/storage"
	"github.com/go-git/go-git/v6/storage/filesystem"
	"github.com/go-git/go-git/v6/storage/memory"
	"github.com/go-git/go-git/v6/storage/transactional"
)

func init() {
	register("c17", c17)
	register("c19", c19)
}

func smMemory() smBackend {
	return smBackend{name: "memory", mk: func(w *smWorld, init smState) (storage.Storer, func() storage.Storer, func(), error) {
		s := memory.NewStorage()
		return s, nil, func() {}, w.applyState(s, init)
	}}
}

func smFS(name string, onOS bool, opts filesystem.Options, smallCache bool) smBackend {
	return smBackend{name: name, mk: func(w *smWorld, init smState) (storage.Storer, func() storage.Storer, func(), error) {
		var f billy.Filesystem
		cleanup := func() {}
		if onOS {
			d := gitcli.TempDir("c17")
			f = osfs.New(d)
			cleanup = func() { os.RemoveAll(d) }
		} else {
			f = memfs.New()
		}
		mkCache := func() cache.Object {
			if smallCache {
				return cache.NewObjectLRU(1)
			}
			return nil
		}
		st0 := filesystem.NewStorageWithOptions(f, mkCache(), opts)
		if err := st0.Init(); err != nil {
			return nil, nil, cleanup, err
		}
		if err := w.applyState(st0, init); err != nil {
			return nil, nil, cleanup, err
		}
		st0.Close()
		st := filesystem.NewStorageWithOptions(f, mkCache(), opts)
		var opened []*filesystem.Storage
		reopen := func() storage.Storer {
			s2 := filesystem.NewStorageWithOptions(f, nil, filesystem.Options{})
			opened = append(opened, s2)
			return s2
		}
		return st, reopen, func() {
			st.Close()
			for _, o := range opened {
				o.Close()
			}
			cleanup()
		}, nil
	}}
}

func smBackends(thorough bool) []smBackend {
	bs := []smBackend{
		smMemory(),
		smFS("filesystem", false, filesystem.Options{}, false),
		smFS("filesystem+exclusive", false, filesystem.Options{ExclusiveAccess: true}, false),
		smFS("filesystem+memidx+largeobj1+cache1", false, filesystem.Options{UseInMemoryIdx: true, LargeObjectThreshold: 1}, true),
	}
	if thorough {
		bs = append(bs,
			smFS("filesystem+exclusive+largeobj1", false, filesystem.Options{ExclusiveAccess: true, LargeObjectThreshold: 1}, false),
			smFS("filesystem+highmem+cache1", false, filesystem.Options{HighMemoryMode: true}, true),
			smFS("filesystem-osfs", true, filesystem.Options{}, false),
			smFS("filesystem-osfs+exclusive+memidx", true, filesystem.Options{ExclusiveAccess: true, UseInMemoryIdx: true}, false))
	}
	return bs
}

func backendClass(n string) string {
	if n == "memory" {
		return "memory"
	}
	return "filesystem"
}

func c17(args []string) error {
	if len(args) < 1 {
		return fmt.Errorf("usage: c17 hist.ndjson")
	}
	hs, names, err := loadSMHists(args[0])
	if err != nil {
		return err
	}
	w := newSMWorld(names)
	r := rep.New()
	bs := smBackends(rep.Thorough())
	// histories are independent: replay them on several workers (the report is shared under a lock)
	var mu sync.Mutex
	workers := 4
	if rep.Thorough() {
		workers = 6
	}
	seed := uint64(rep.Seed())
	var firstErr error
	var wg sync.WaitGroup
	for wk := 0; wk < workers; wk++ {
		wg.Add(1)
		go func(wk int) {
			defer wg.Done()
			r := &lockedReport{r: r, mu: &mu}
			for hi, h := range hs {
				if hi%workers != wk {
					continue
				}
				// file descriptors that go-git leaves to finalizers (files of directories already removed)
				// pile up when several workers replay thousands of histories per second: collect regularly
				if (hi/workers)%50 == 0 {
					runtime.GC()
				}
				for bi, be := range bs {
					// memory + plain filesystem always; the option variants on a seeded half of the histories
					if bi >= 2 && !rep.Thorough() && ((uint64(hi)*2654435761+uint64(bi)*40503+seed*97)>>5)&1 == 0 {
						continue
					}
					r.Eval(1)
					s, reopen, cleanup, err := be.mk(w, h.Init)
					if err != nil {
						cleanup()
						mu.Lock()
						firstErr = fmt.Errorf("backend %s init: %v", be.name, err)
						mu.Unlock()
						return
					}
					cs := func(i int) map[string]any {
						return map[string]any{"backend": be.name, "init": h.Init, "steps": h.Steps[:i+1]}
					}
					ok := true
					if c, d := w.compare(s, h.Init); c != "" {
						r.Diverge(backendClass(be.name)+"|init|"+c+"|"+d, "initial state read-back differs from the model", cs(-1))
						ok = false
					}
					for i := 0; ok && i < len(h.Steps); i++ {
						st := h.Steps[i]
						got := w.apply(s, st)
						if got != st.Res {
							r.Diverge(backendClass(be.name)+"|"+st.Op+"|result|want="+st.Res+",got="+got,
								fmt.Sprintf("%s on %s returned %s, the abstract repository says %s", st.Op, be.name, got, st.Res), cs(i))
							ok = false
							break
						}
						if c, d := w.compare(s, st.St); c != "" {
							r.Diverge(backendClass(be.name)+"|"+st.Op+"="+st.Res+"|"+c+"|"+d,
								fmt.Sprintf("after %s on %s: %s differs from the abstract repository (%s)", st.Op, be.name, c, d), cs(i))
							ok = false
						}
					}
					if ok && reopen != nil && len(h.Steps) > 0 {
						s2 := reopen()
						if c, d := w.compare(s2, h.Steps[len(h.Steps)-1].St); c != "" {
							r.Diverge("filesystem|reopen|"+c+"|"+d, "a fresh storage on the same directory does not see the final state ("+c+" "+d+")", cs(len(h.Steps)-1))
						}
					}
					cleanup()
				}
				if hi%500 == 0 {
					r.Sample(h)
				}
			}
		}(wk)
	}
	wg.Wait()
	if firstErr != nil {
		return firstErr
	}
	r.Distinct = len(hs)
	var bn []string
	for _, b := range bs {
		bn = append(bn, b.name)
	}
	r.Extra["backends"] = bn
	return r.Emit()
}

// lockedReport serialises the report calls of concurrent replay workers.
type lockedReport struct {
	r  *rep.Report
	mu *sync.Mutex
}

func (l *lockedReport) Eval(n int)   { l.mu.Lock(); l.r.Eval(n); l.mu.Unlock() }
func (l *lockedReport) Sample(c any) { l.mu.Lock(); l.r.Sample(c); l.mu.Unlock() }
func (l *lockedReport) Diverge(sig, what string, c any) {
	l.mu.Lock()
	l.r.Diverge(sig, what, c)
	l.mu.Unlock()
}

// c19: the same histories through transactional storage.
func c19(args []string) error {
	if len(args) < 1 {
		return fmt.Errorf("usage: c19 hist.ndjson")
	}
	hs, names, err := loadSMHists(args[0])
	if err != nil {
		return err
	}
	w := newSMWorld(names)
	r := rep.New()
	bases := []smBackend{smMemory(), smFS("filesystem", false, filesystem.Options{}, false)}
	for hi, h := range hs {
		for _, be := range bases {
			r.Eval(1)
			base, _, cleanup, err := be.mk(w, h.Init)
			if err != nil {
				cleanup()
				return fmt.Errorf("base %s init: %v", be.name, err)
			}
			txn := transactional.NewStorage(base, memory.NewStorage())
			cs := func(i int) map[string]any {
				return map[string]any{"base": be.name, "init": h.Init, "steps": h.Steps[:i+1]}
			}
			ok := true
			if c, d := w.compare(txn, h.Init); c != "" {
				r.Diverge("txn-view|init|"+c+"|"+d, "fresh transaction does not show the base state", cs(-1))
				ok = false
			}
			for i := 0; ok && i < len(h.Steps); i++ {
				st := h.Steps[i]
				if st.Op == "pack" {
					continue
				}
				got := w.apply(txn, st)
				if got != st.Res {
					r.Diverge("txn-view|"+st.Op+"|result|want="+st.Res+",got="+got,
						fmt.Sprintf("%s through the transaction returned %s, base+pending model says %s", st.Op, got, st.Res), cs(i))
					ok = false
					break
				}
				if c, d := w.compare(txn, st.St); c != "" {
					r.Diverge("txn-view|"+st.Op+"="+st.Res+"|"+c+"|"+d,
						fmt.Sprintf("view through the transaction after %s: %s differs from base+pending (%s)", st.Op, c, d), cs(i))
					ok = false
					break
				}
				if c, d := w.compare(base, h.Init); c != "" {
					r.Diverge("base-before-commit|"+st.Op+"|"+c+"|"+d, "base storage changed before Commit ("+c+" "+d+")", cs(i))
					ok = false
				}
			}
			if ok && len(h.Steps) > 0 {
				if err := txn.Commit(); err != nil {
					r.Diverge("commit|error|"+normErr(err), "Commit failed: "+err.Error(), cs(len(h.Steps)-1))
				} else if c, d := w.compare(base, h.Steps[len(h.Steps)-1].St); c != "" {
					r.Diverge("base-after-commit|"+c+"|"+d, "base after Commit differs from the transaction's view ("+c+" "+d+")", cs(len(h.Steps)-1))
				}
			}
			cleanup()
		}
		if hi%500 == 0 {
			r.Sample(h)
		}
	}
	r.Distinct = len(hs)
	return r.Emit()
}
