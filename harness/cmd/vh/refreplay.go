package main

import (
	"encoding/json"
	"errors"
	"fmt"
	"os"
	"path/filepath"
	"sort"
	"strings"

	"verifharness/internal/fsutil"
	"verifharness/internal/gitcli"
	"verifharness/internal/rep"

	"github.com/go-git/go-billy/v6"
	"github.com/go-git/go-billy/v6/osfs"
	"github.com/go-git/go-git/v6/plumbing"
	"github.com/go-git/go-git/v6/plumbing/storer"
	"github.com/go-git/go-git/v6/storage"
	"github.com/go-git/go-git/v6/storage/filesystem"
)

// Replay of RefMap histories (spec/abstract/RefMap.tla) on real reference storers.

type refStep struct {
	Op  string            `json:"op"`
	N   string            `json:"n"`
	V   string            `json:"v"`
	Old string            `json:"old"`
	Res string            `json:"res"`
	St  map[string]string `json:"st"`
}

type refHist struct {
	Init  map[string]string `json:"init"`
	Steps []refStep         `json:"steps"`
}

// refWorld: real hashes for the abstract hash symbols, and templates of the
// initial states built with git.
type refWorld struct {
	hash  map[string]plumbing.Hash // "h1" -> real commit id
	sym   map[plumbing.Hash]string
	tmpl  map[string]*fsutil.Tree // key: initKey + "|" + layout
	gitOK bool
}

func initKey(m map[string]string) string {
	ks := make([]string, 0, len(m))
	for k := range m {
		ks = append(ks, k)
	}
	sort.Strings(ks)
	var b strings.Builder
	for _, k := range ks {
		b.WriteString(k + "=" + m[k] + ";")
	}
	return b.String()
}

var refLayouts = []string{"loose", "packed", "mixed", "gogit-packed-in-rounds"}

// buildRefWorld creates, with git, a repository holding two commits (h1, h2) and, per
// initial map and layout, a template .git directory.
func buildRefWorld(inits []map[string]string) (*refWorld, error) {
	w := &refWorld{hash: map[string]plumbing.Hash{}, sym: map[plumbing.Hash]string{}, tmpl: map[string]*fsutil.Tree{}, gitOK: gitcli.Available()}
	if !w.gitOK {
		return nil, errors.New("git not available: reference templates need git")
	}
	base := gitcli.TempDir("refworld")
	seedDir := filepath.Join(base, "seed")
	if err := gitcli.Init(seedDir, false); err != nil {
		return nil, err
	}
	for i, h := range []string{"h1", "h2", "h3"} {
		os.WriteFile(filepath.Join(seedDir, "f"), []byte(h), 0o644)
		if _, e, err := gitcli.Run(seedDir, nil, "add", "f"); err != nil {
			return nil, fmt.Errorf("git add: %v %s", err, e)
		}
		if _, e, err := gitcli.Run(seedDir, nil, "commit", "-q", "-m", h); err != nil {
			return nil, fmt.Errorf("git commit: %v %s", err, e)
		}
		o, _, err := gitcli.Run(seedDir, nil, "rev-parse", "HEAD")
		if err != nil {
			return nil, err
		}
		hh := plumbing.NewHash(strings.TrimSpace(o))
		w.hash[h] = hh
		w.sym[hh] = h
		_ = i
	}
	// detach so that refs/heads/master can be deleted, then clean refs
	gitcli.Run(seedDir, nil, "checkout", "-q", "--detach")
	gitcli.Run(seedDir, nil, "update-ref", "-d", "refs/heads/master")
	for ii, in := range inits {
		for _, lay := range refLayouts {
			d := filepath.Join(base, fmt.Sprintf("t%d-%s", ii, lay))
			if _, e, err := gitcli.Run(base, nil, "clone", "-q", "--no-checkout", seedDir, d); err != nil {
				return nil, fmt.Errorf("clone: %v %s", err, e)
			}
			gd := filepath.Join(d, ".git")
			// remove what clone created
			gitcli.Run(d, nil, "checkout", "-q", "--detach", w.hash["h1"].String())
			out, _, _ := gitcli.Run(d, nil, "for-each-ref", "--format=%(refname)")
			for _, r := range strings.Fields(out) {
				gitcli.Run(d, nil, "update-ref", "--no-deref", "-d", r)
			}
			gitcli.Run(d, nil, "symbolic-ref", "--delete", "refs/remotes/origin/HEAD")
			os.Remove(filepath.Join(gd, "packed-refs"))
			// fetch h2,h3 objects too (clone of detached HEAD has them all: same object store)
			names := make([]string, 0)
			for n := range in {
				names = append(names, n)
			}
			sort.Strings(names)
			set := func(n, v string) error {
				if v == "none" {
					return nil
				}
				if strings.HasPrefix(v, "sym:") {
					_, e, err := gitcli.Run(d, nil, "symbolic-ref", n, v[4:])
					if err != nil {
						return fmt.Errorf("symbolic-ref %s: %v %s", n, err, e)
					}
					return nil
				}
				_, e, err := gitcli.Run(d, nil, "update-ref", "--no-deref", n, w.hash[v].String())
				if err != nil {
					return fmt.Errorf("update-ref %s: %v %s", n, err, e)
				}
				return nil
			}
			switch lay {
			case "loose":
				for _, n := range names {
					if err := set(n, in[n]); err != nil {
						return nil, err
					}
				}
			case "packed":
				for _, n := range names {
					if err := set(n, in[n]); err != nil {
						return nil, err
					}
				}
				gitcli.Run(d, nil, "pack-refs", "--all")
			case "gogit-packed-in-rounds":
				// go-git's own PackRefs, one round per reference in reverse name order: the resulting
				// packed-refs is NOT sorted by name (go-git writes the newly packed refs first)
				gst := filesystem.NewStorage(osfs.New(gd), nil)
				for k := len(names) - 1; k >= 0; k-- {
					n := names[k]
					if err := set(n, in[n]); err != nil {
						return nil, err
					}
					if n != "HEAD" && in[n] != "none" {
						if err := gst.PackRefs(); err != nil {
							return nil, fmt.Errorf("PackRefs: %v", err)
						}
					}
				}
				gst.Close()
			case "mixed":
				// stale packed values shadowed by fresh loose ones, plus a packed-only annotated-style peel line
				for _, n := range names {
					if n != "HEAD" && in[n] != "none" && !strings.HasPrefix(in[n], "sym:") {
						other := "h3"
						if err := set(n, other); err != nil {
							return nil, err
						}
					}
				}
				gitcli.Run(d, nil, "pack-refs", "--all")
				for _, n := range names {
					if err := set(n, in[n]); err != nil {
						return nil, err
					}
				}
			}
			// reflogs are not part of this model
			os.RemoveAll(filepath.Join(gd, "logs"))
			t, err := fsutil.SnapshotOS(gd)
			if err != nil {
				return nil, err
			}
			w.tmpl[initKey(in)+"|"+lay] = t
		}
	}
	return w, nil
}

func (w *refWorld) refOf(n, v string) *plumbing.Reference {
	if strings.HasPrefix(v, "sym:") {
		return plumbing.NewSymbolicReference(plumbing.ReferenceName(n), plumbing.ReferenceName(v[4:]))
	}
	return plumbing.NewHashReference(plumbing.ReferenceName(n), w.hash[v])
}

func (w *refWorld) valOf(r *plumbing.Reference) string {
	if r.Type() == plumbing.SymbolicReference {
		return "sym:" + r.Target().String()
	}
	if s, ok := w.sym[r.Hash()]; ok {
		return s
	}
	return "hash:" + r.Hash().String()
}

func errKind(err error) string {
	switch {
	case err == nil:
		return "ok"
	case errors.Is(err, plumbing.ErrReferenceNotFound):
		return "notfound"
	case errors.Is(err, storage.ErrReferenceHasChanged):
		return "changed"
	}
	return "error:" + normErr(err)
}

// normErr strips paths / hashes from error texts so signatures are finite.
func normErr(err error) string {
	s := err.Error()
	out := make([]string, 0)
	for _, f := range strings.Fields(s) {
		if strings.ContainsAny(f, "/\\") || len(f) >= 40 {
			continue
		}
		out = append(out, strings.Trim(f, ":\"'"))
	}
	if len(out) > 6 {
		out = out[:6]
	}
	return strings.Join(out, "-")
}

// observeRefs returns the full observable map via List and via Get for every name.
func observeRefs(w *refWorld, s storer.ReferenceStorer, names []string) (list map[string]string, lerr error, get map[string]string, gerr map[string]string) {
	get, gerr = map[string]string{}, map[string]string{}
	for _, n := range names {
		r, err := s.Reference(plumbing.ReferenceName(n))
		if err != nil {
			get[n] = "none"
			if k := errKind(err); k != "notfound" {
				gerr[n] = k
			}
			continue
		}
		get[n] = w.valOf(r)
	}
	it, err := s.IterReferences()
	if err != nil {
		return nil, err, get, gerr
	}
	list = map[string]string{}
	dup := false
	err = it.ForEach(func(r *plumbing.Reference) error {
		if _, ok := list[r.Name().String()]; ok {
			dup = true
		}
		list[r.Name().String()] = w.valOf(r)
		return nil
	})
	if err != nil {
		return nil, err, get, gerr
	}
	if dup {
		return list, errors.New("duplicate-name-in-listing"), get, gerr
	}
	return list, nil, get, gerr
}

type refBackend struct {
	name string
	mk   func(t *fsutil.Tree) (storer.ReferenceStorer, billy.Filesystem, func(), error)
}

func fsRefBackend(kind string, opts filesystem.Options) refBackend {
	return refBackend{name: kind, mk: func(t *fsutil.Tree) (storer.ReferenceStorer, billy.Filesystem, func(), error) {
		var f billy.Filesystem
		cleanup := func() {}
		if strings.HasPrefix(kind, "osfs") {
			d := gitcli.TempDir("refrep")
			f = osfs.New(d)
			cleanup = func() { os.RemoveAll(d) }
			if err := t.Materialise(f); err != nil {
				return nil, nil, cleanup, err
			}
		} else {
			var err error
			f, err = t.Mem()
			if err != nil {
				return nil, nil, cleanup, err
			}
		}
		st := filesystem.NewStorageWithOptions(f, nil, opts)
		return st, f, func() { st.Close(); cleanup() }, nil
	}}
}

// replayRefHist runs one history; returns at the first divergence.
func replayRefHist(r *rep.Report, w *refWorld, h *refHist, lay string, be refBackend, names []string, prop string) (billy.Filesystem, func(), bool) {
	t := w.tmpl[initKey(h.Init)+"|"+lay]
	if t == nil {
		panic("no template for " + initKey(h.Init) + "|" + lay)
	}
	s, f, cleanup, err := be.mk(t)
	if err != nil {
		panic(err)
	}
	ctxt := func(i int) map[string]any {
		return map[string]any{"backend": be.name, "layout": lay, "init": h.Init, "steps": h.Steps[:i+1]}
	}
	// initial observation
	check := func(i int, op string, want map[string]string) bool {
		list, lerr, get, gerr := observeRefs(w, s, names)
		for n, k := range gerr {
			r.Diverge(op+"|get-error|"+k, fmt.Sprintf("Reference(%s) failed with %s after %s", n, k, op), ctxt(i))
			return false
		}
		for _, n := range names {
			if get[n] != want[n] {
				cls := "get-mismatch"
				r.Diverge(op+"|"+cls+"|want="+kindOf(want[n])+",got="+kindOf(get[n]), fmt.Sprintf("Reference(%s) = %s, map model says %s", n, get[n], want[n]), ctxt(i))
				return false
			}
		}
		if lerr != nil {
			r.Diverge(op+"|list-error|"+normErr(lerr), fmt.Sprintf("IterReferences failed: %v", lerr), ctxt(i))
			return false
		}
		for _, n := range names {
			got, ok := list[n]
			if !ok {
				got = "none"
			}
			if got != want[n] {
				r.Diverge(op+"|list-mismatch|want="+kindOf(want[n])+",got="+kindOf(got), fmt.Sprintf("listing has %s = %s, map model says %s", n, got, want[n]), ctxt(i))
				return false
			}
		}
		for n := range list {
			if _, ok := want[n]; !ok {
				r.Diverge(op+"|list-extra|unexpected-name", fmt.Sprintf("listing has unexpected %s", n), ctxt(i))
				return false
			}
		}
		return true
	}
	if !check(-1, "init-"+lay, h.Init) {
		return f, cleanup, false
	}
	for i, st := range h.Steps {
		var err error
		switch st.Op {
		case "set":
			err = s.SetReference(w.refOf(st.N, st.V))
		case "cas":
			err = s.CheckAndSetReference(w.refOf(st.N, st.V), w.refOf(st.N, st.Old))
		case "remove":
			err = s.RemoveReference(plumbing.ReferenceName(st.N))
		case "pack":
			if p, ok := s.(interface{ PackRefs() error }); ok {
				err = p.PackRefs()
			}
		}
		got := errKind(err)
		if got != st.Res {
			r.Diverge(st.Op+"|result|want="+st.Res+",got="+got, fmt.Sprintf("%s(%s) returned %s, model says %s", st.Op, st.N, got, st.Res), ctxt(i))
			return f, cleanup, false
		}
		if !check(i, st.Op+"="+st.Res, st.St) {
			return f, cleanup, false
		}
	}
	return f, cleanup, true
}

func kindOf(v string) string {
	switch {
	case v == "none":
		return "none"
	case strings.HasPrefix(v, "sym:"):
		return "sym"
	case strings.HasPrefix(v, "hash:"):
		return "unknown-hash"
	}
	return "hash"
}

func loadRefHists(path string) ([]*refHist, []map[string]string, []string, error) {
	var hs []*refHist
	seen := map[string]map[string]string{}
	err := rep.ReadNDJSON(path, func(b []byte) error {
		var h refHist
		if err := json.Unmarshal(b, &h); err != nil {
			return err
		}
		hs = append(hs, &h)
		seen[initKey(h.Init)] = h.Init
		return nil
	})
	if err != nil {
		return nil, nil, nil, err
	}
	var inits []map[string]string
	keys := make([]string, 0)
	for k := range seen {
		keys = append(keys, k)
	}
	sort.Strings(keys)
	for _, k := range keys {
		inits = append(inits, seen[k])
	}
	var names []string
	if len(inits) > 0 {
		for n := range inits[0] {
			names = append(names, n)
		}
	}
	sort.Strings(names)
	return hs, inits, names, nil
}

func hashOf(s string) plumbing.Hash { return plumbing.NewHash(s) }
