package main

import (
	"encoding/json"
	"errors"
	"fmt"
	"math/rand"
	"os"
	"path/filepath"
	"sort"
	"strings"
	"time"

	"verifharness/internal/gitcli"
	"verifharness/internal/rep"

	git "github.com/go-git/go-git/v6"
	"github.com/go-git/go-git/v6/config"
	"github.com/go-git/go-git/v6/plumbing"
	"github.com/go-git/go-git/v6/plumbing/filemode"
	"github.com/go-git/go-git/v6/plumbing/format/index"
	"github.com/go-git/go-git/v6/plumbing/object"
	"github.com/go-git/go-git/v6/storage"
)

// Replay of spec/abstract/Repo.tla rows (C25, C27, C28, C29, C30, C32) on a real
// repository + worktree on the OS filesystem.

type repoExp struct {
	Verdict string              `json:"verdict"`
	Head    string              `json:"head"`
	Idx     map[string][]string `json:"idx"`
	Wt      map[string][]string `json:"wt"`
	St      map[string][]string `json:"st"`
	Skip    map[string]bool     `json:"skip"`
	NoDir   bool                `json:"nodir"`
}

type repoRow struct {
	H   map[string]string `json:"H"`
	I   map[string]string `json:"I"`
	W   map[string]string `json:"W"`
	T   map[string]string `json:"T"`
	Op  string            `json:"op"`
	Arg []string          `json:"arg"`
	Exp repoExp           `json:"exp"`
}

var blobContent = map[string]string{"b1": "one", "b2": "two", "b3": "three"}

type repoWorld struct {
	dir      string
	r        *git.Repository
	w        *git.Worktree
	blobHash map[string]plumbing.Hash
	blobSym  map[plumbing.Hash]string
	treeH    plumbing.Hash
	treeT    plumbing.Hash
	treeI    plumbing.Hash
	commitH  plumbing.Hash
	commitT  plumbing.Hash
	commitD  plumbing.Hash
	paths    []string
}

func entryMode(e string) filemode.FileMode {
	switch e[0] {
	case 'x':
		return filemode.Executable
	case 'l':
		return filemode.Symlink
	}
	return filemode.Regular
}

// writeTree stores the (nested) tree objects of a path -> entry map and returns the root hash.
func (rw *repoWorld) writeTree(s storage.Storer, m map[string]string) (plumbing.Hash, error) {
	type node struct {
		entry string
		kids  map[string]*node
	}
	root := &node{kids: map[string]*node{}}
	for p, e := range m {
		if e == "none" {
			continue
		}
		cur := root
		parts := strings.Split(p, "/")
		for i, c := range parts {
			n, ok := cur.kids[c]
			if !ok {
				n = &node{kids: map[string]*node{}}
				cur.kids[c] = n
			}
			if i == len(parts)-1 {
				n.entry = e
			}
			cur = n
		}
	}
	var rec func(n *node) (plumbing.Hash, error)
	rec = func(n *node) (plumbing.Hash, error) {
		t := &object.Tree{}
		for name, k := range n.kids {
			if k.entry != "" {
				t.Entries = append(t.Entries, object.TreeEntry{Name: name, Mode: entryMode(k.entry), Hash: rw.blobHash[k.entry[2:]]})
			} else {
				h, err := rec(k)
				if err != nil {
					return plumbing.ZeroHash, err
				}
				t.Entries = append(t.Entries, object.TreeEntry{Name: name, Mode: filemode.Dir, Hash: h})
			}
		}
		sort.Sort(object.TreeEntrySorter(t.Entries))
		o := s.NewEncodedObject()
		if err := t.Encode(o); err != nil {
			return plumbing.ZeroHash, err
		}
		return s.SetEncodedObject(o)
	}
	return rec(root)
}

var repoSig = &object.Signature{Name: "V", Email: "v@example.com", When: time.Unix(1000000000, 0).UTC()}

func (rw *repoWorld) commit(tree plumbing.Hash, parents ...plumbing.Hash) (plumbing.Hash, error) {
	c := &object.Commit{Author: *repoSig, Committer: *repoSig, Message: "m\n", TreeHash: tree, ParentHashes: parents}
	o := rw.r.Storer.NewEncodedObject()
	if err := c.Encode(o); err != nil {
		return plumbing.ZeroHash, err
	}
	return rw.r.Storer.SetEncodedObject(o)
}

func writeWtEntry(dir, p, e string) error {
	full := filepath.Join(dir, filepath.FromSlash(p))
	if err := os.MkdirAll(filepath.Dir(full), 0o755); err != nil {
		return err
	}
	c := blobContent[e[2:]]
	switch e[0] {
	case 'l':
		return os.Symlink(c, full)
	case 'x':
		return os.WriteFile(full, []byte(c), 0o755)
	}
	return os.WriteFile(full, []byte(c), 0o644)
}

// newRepoWorld builds the pre-state (H, I, W, T) of a row.
func newRepoWorld(row *repoRow) (*repoWorld, error) {
	rw := &repoWorld{blobHash: map[string]plumbing.Hash{}, blobSym: map[plumbing.Hash]string{}}
	rw.dir = gitcli.TempDir("repo")
	r, err := git.PlainInit(rw.dir, false)
	if err != nil {
		return nil, err
	}
	rw.r = r
	for p := range row.H {
		rw.paths = append(rw.paths, p)
	}
	sort.Strings(rw.paths)
	for sym, c := range blobContent {
		o := r.Storer.NewEncodedObject()
		o.SetType(plumbing.BlobObject)
		o.SetSize(int64(len(c)))
		w, _ := o.Writer()
		w.Write([]byte(c))
		w.Close()
		h, err := r.Storer.SetEncodedObject(o)
		if err != nil {
			return nil, err
		}
		rw.blobHash[sym] = h
		rw.blobSym[h] = sym
	}
	if rw.treeH, err = rw.writeTree(r.Storer, row.H); err != nil {
		return nil, err
	}
	if rw.treeT, err = rw.writeTree(r.Storer, row.T); err != nil {
		return nil, err
	}
	if rw.treeI, err = rw.writeTree(r.Storer, row.I); err != nil {
		return nil, err
	}
	if rw.commitH, err = rw.commit(rw.treeH); err != nil {
		return nil, err
	}
	if rw.commitT, err = rw.commit(rw.treeT, rw.commitH); err != nil {
		return nil, err
	}
	r.Storer.SetReference(plumbing.NewHashReference("refs/heads/master", rw.commitH))
	r.Storer.SetReference(plumbing.NewHashReference("refs/heads/target", rw.commitT))
	r.Storer.SetReference(plumbing.NewHashReference("refs/heads/twin", rw.commitH))
	// a root commit with the target tree: a branch that does not descend from HEAD
	dc := &object.Commit{Author: *repoSig, Committer: *repoSig, Message: "diverged\n", TreeHash: rw.treeT}
	do := r.Storer.NewEncodedObject()
	if err := dc.Encode(do); err != nil {
		return nil, err
	}
	if rw.commitD, err = r.Storer.SetEncodedObject(do); err != nil {
		return nil, err
	}
	r.Storer.SetReference(plumbing.NewHashReference("refs/heads/diverged", rw.commitD))
	r.Storer.SetReference(plumbing.NewSymbolicReference(plumbing.HEAD, "refs/heads/master"))
	idx := &index.Index{Version: 2}
	if row.Op == "sparse2" {
		idx.Version = 3 // skip-worktree is an extended flag
	}
	for _, p := range rw.paths {
		if e := row.I[p]; e != "none" {
			ent := &index.Entry{Name: p, Hash: rw.blobHash[e[2:]], Mode: entryMode(e)}
			// sparse2: the worktree is already sparse - tracked paths without a file carry the skip-worktree bit
			if row.Op == "sparse2" && row.W[p] == "none" {
				ent.SkipWorktree = true
			}
			idx.Entries = append(idx.Entries, ent)
		}
	}
	if err := r.Storer.SetIndex(idx); err != nil {
		return nil, err
	}
	for _, p := range rw.paths {
		if e := row.W[p]; e != "none" {
			if err := writeWtEntry(rw.dir, p, e); err != nil {
				return nil, err
			}
		}
	}
	if row.Op == "clean" && len(row.Arg) > 0 && row.Arg[0] == "empty-dir" {
		if err := os.MkdirAll(filepath.Join(rw.dir, emptyDirName, "nested"), 0o755); err != nil {
			return nil, err
		}
	}
	// reopen so that nothing of the construction is cached
	r2, err := git.PlainOpen(rw.dir)
	if err != nil {
		return nil, err
	}
	rw.r = r2
	rw.w, err = r2.Worktree()
	return rw, err
}

const emptyDirName = "zz-empty"

// emptyDirLeft: the empty directory tree of a clean / empty-dir row is still there
func (rw *repoWorld) emptyDirLeft() bool {
	_, err := os.Lstat(filepath.Join(rw.dir, emptyDirName))
	return err == nil
}

func (rw *repoWorld) close() { os.RemoveAll(rw.dir) }

type repoObs struct {
	HeadRef  string // symbolic target of HEAD or "detached"
	HeadTree string // "H" | "T" | "I" | "other"
	Master   string // tree symbol of refs/heads/master
	Target   string
	Feature  string // tree symbol of refs/heads/feature (created by checkout -b), "none" if absent
	Idx      map[string]string
	Skip     map[string]bool
	Wt       map[string]string
	Extra    []string // worktree paths outside the universe
	Err      string
}

func (rw *repoWorld) treeSym(commit plumbing.Hash) string {
	c, err := rw.r.CommitObject(commit)
	if err != nil {
		return "missing"
	}
	switch c.TreeHash {
	case rw.treeH:
		if c.Hash == rw.commitH {
			return "H"
		}
		if rw.treeH == rw.treeT && c.Hash == rw.commitT {
			return "T"
		}
		return "H*"
	case rw.treeT:
		if c.Hash == rw.commitT {
			return "T"
		}
		return "T*"
	case rw.treeI:
		return "I"
	}
	return "other"
}

func (rw *repoWorld) entrySym(mode filemode.FileMode, h plumbing.Hash) string {
	b, ok := rw.blobSym[h]
	if !ok {
		b = "?"
	}
	switch mode {
	case filemode.Executable:
		return "x:" + b
	case filemode.Symlink:
		return "l:" + b
	case filemode.Regular:
		return "f:" + b
	}
	return "m" + mode.String() + ":" + b
}

func (rw *repoWorld) observe() *repoObs {
	o := &repoObs{Idx: map[string]string{}, Wt: map[string]string{}, Skip: map[string]bool{}}
	r, err := git.PlainOpen(rw.dir) // fresh view of the persistent state
	if err != nil {
		o.Err = "open:" + err.Error()
		return o
	}
	hr, err := r.Storer.Reference(plumbing.HEAD)
	if err != nil {
		o.Err = "HEAD:" + err.Error()
		return o
	}
	var hc plumbing.Hash
	if hr.Type() == plumbing.SymbolicReference {
		o.HeadRef = hr.Target().String()
		if tr, err := r.Storer.Reference(hr.Target()); err == nil {
			hc = tr.Hash()
		}
	} else {
		o.HeadRef = "detached"
		hc = hr.Hash()
	}
	o.HeadTree = rw.treeSym(hc)
	o.Feature = "none"
	if f, err := r.Storer.Reference("refs/heads/feature"); err == nil {
		o.Feature = rw.treeSym(f.Hash())
	}
	if m, err := r.Storer.Reference("refs/heads/master"); err == nil {
		o.Master = rw.treeSym(m.Hash())
	} else {
		o.Master = "none"
	}
	if t, err := r.Storer.Reference("refs/heads/target"); err == nil {
		o.Target = rw.treeSym(t.Hash())
	} else {
		o.Target = "none"
	}
	idx, err := r.Storer.Index()
	if err != nil {
		o.Err = "index:" + err.Error()
		return o
	}
	for _, p := range rw.paths {
		o.Idx[p] = "none"
		o.Wt[p] = "none"
	}
	for _, e := range idx.Entries {
		key := e.Name
		if e.Stage != 0 {
			key = fmt.Sprintf("%s#%d", e.Name, e.Stage)
		}
		o.Idx[key] = rw.entrySym(e.Mode, e.Hash)
		if e.SkipWorktree {
			o.Skip[e.Name] = true
		}
	}
	filepath.Walk(rw.dir, func(p string, info os.FileInfo, err error) error {
		if err != nil {
			return nil
		}
		rel, _ := filepath.Rel(rw.dir, p)
		rel = filepath.ToSlash(rel)
		if rel == ".git" {
			return filepath.SkipDir
		}
		if rel == "." || info.IsDir() {
			return nil
		}
		var sym string
		if info.Mode()&os.ModeSymlink != 0 {
			t, _ := os.Readlink(p)
			sym = "l:" + contentSym(t)
		} else {
			b, _ := os.ReadFile(p)
			k := "f:"
			if info.Mode()&0o100 != 0 {
				k = "x:"
			}
			sym = k + contentSym(string(b))
		}
		if _, ok := o.Wt[rel]; ok {
			o.Wt[rel] = sym
		} else {
			o.Extra = append(o.Extra, rel)
		}
		return nil
	})
	return o
}

func contentSym(c string) string {
	for s, v := range blobContent {
		if v == c {
			return s
		}
	}
	return "?"
}

func (rw *repoWorld) run(row *repoRow) error {
	w := rw.w
	switch row.Op {
	case "reset-hard":
		return w.Reset(&git.ResetOptions{Commit: rw.commitT, Mode: git.HardReset})
	case "reset-merge":
		return w.Reset(&git.ResetOptions{Commit: rw.commitT, Mode: git.MergeReset})
	case "reset-keep":
		return w.Reset(&git.ResetOptions{Commit: rw.commitT, Mode: git.KeepReset})
	case "checkout-force":
		return w.Checkout(&git.CheckoutOptions{Branch: "refs/heads/target", Force: true})
	case "checkout-force-create":
		return w.Checkout(&git.CheckoutOptions{Hash: rw.commitT, Branch: "refs/heads/feature", Create: true, Force: true})
	case "checkout":
		return w.Checkout(&git.CheckoutOptions{Branch: "refs/heads/target"})
	case "checkout-twin":
		return w.Checkout(&git.CheckoutOptions{Branch: "refs/heads/twin"})
	case "checkout-create":
		return w.Checkout(&git.CheckoutOptions{Branch: "refs/heads/feature", Create: true})
	case "reset-merge-head":
		return w.Reset(&git.ResetOptions{Mode: git.MergeReset})
	case "reset-keep-head":
		return w.Reset(&git.ResetOptions{Mode: git.KeepReset})
	case "reset-hard-badsparse", "reset-merge-badsparse", "reset-keep-badsparse", "reset-mixed-badsparse":
		mode := map[string]git.ResetMode{"reset-hard-badsparse": git.HardReset, "reset-merge-badsparse": git.MergeReset,
			"reset-keep-badsparse": git.KeepReset, "reset-mixed-badsparse": git.MixedReset}[row.Op]
		return w.Reset(&git.ResetOptions{Commit: rw.commitT, Mode: mode, SparseDirs: []string{"no-such-dir"}})
	case "reset-hard-missing":
		return w.Reset(&git.ResetOptions{Commit: plumbing.NewHash("1234567890123456789012345678901234567890"), Mode: git.HardReset})
	case "checkout-create-existing":
		return w.Checkout(&git.CheckoutOptions{Branch: "refs/heads/target", Create: true})
	case "checkout-missing-branch":
		return w.Checkout(&git.CheckoutOptions{Branch: "refs/heads/no-such-branch"})
	case "checkout-branch-and-hash":
		return w.Checkout(&git.CheckoutOptions{Branch: "refs/heads/target", Hash: rw.commitT})
	case "checkout-force-missing-hash":
		return w.Checkout(&git.CheckoutOptions{Hash: plumbing.NewHash("1234567890123456789012345678901234567890"), Force: true})
	case "merge-ff":
		return rw.r.Merge(*plumbing.NewHashReference("refs/heads/target", rw.commitT), git.MergeOptions{Strategy: git.FastForwardMerge})
	case "merge-nonff":
		return rw.r.Merge(*plumbing.NewHashReference("refs/heads/diverged", rw.commitD), git.MergeOptions{Strategy: git.FastForwardMerge})
	case "merge-unsupported":
		return rw.r.Merge(*plumbing.NewHashReference("refs/heads/target", rw.commitT), git.MergeOptions{Strategy: git.MergeStrategy(99)})
	case "pull":
		// the repository is its own remote: "origin" points at its directory, the upstream branch is target
		// (a child commit of HEAD), so the pull is a fast-forward of master to T
		if _, err := rw.r.CreateRemote(&config.RemoteConfig{Name: "origin", URLs: []string{rw.dir}}); err != nil {
			return fmt.Errorf("harness: create remote: %v", err)
		}
		err := w.Pull(&git.PullOptions{RemoteName: "origin", ReferenceName: "refs/heads/target", SingleBranch: true})
		if errors.Is(err, git.NoErrAlreadyUpToDate) {
			return nil
		}
		return err
	case "sparse-keep":
		return w.Reset(&git.ResetOptions{Commit: rw.commitT, Mode: git.KeepReset, SparseDirs: strings.Split(row.Arg[0], "+")})
	case "sparse", "sparse2":
		var dirs []string
		for _, d := range strings.Split(row.Arg[0], "+") {
			dirs = append(dirs, d)
		}
		return w.Checkout(&git.CheckoutOptions{Branch: "refs/heads/target", Force: true, SparseCheckoutDirectories: dirs})
	case "add":
		_, err := w.Add(row.Arg[0])
		return err
	case "add-all":
		return w.AddWithOptions(&git.AddOptions{All: true})
	case "remove":
		_, err := w.Remove(row.Arg[0])
		return err
	case "move":
		_, err := w.Move(row.Arg[0], row.Arg[1])
		return err
	case "clean":
		return w.Clean(&git.CleanOptions{Dir: true})
	case "commit":
		_, err := w.Commit("c\n", &git.CommitOptions{Author: repoSig, Committer: repoSig})
		return err
	}
	return errors.New("unknown op " + row.Op)
}

// shape is the refactoring-stable abstract key of one path of a row: the local situation of
// the path (what kind of uncommitted state it carries) and how the target relates to HEAD.
func shape(row *repoRow, p string) string {
	h, i, w, t := row.H[p], row.I[p], row.W[p], row.T[p]
	var sit string
	switch {
	case i == "none" && h == "none" && w != "none":
		sit = "untracked"
	case i == "none" && w != "none":
		sit = "untracked-after-staged-deletion"
	case i == "none" && h != "none":
		sit = "staged-deletion"
	case w != i && w != "none":
		if i != h {
			sit = "staged+unstaged-modification"
		} else {
			sit = "unstaged-modification"
		}
	case w == "none" && i != "none":
		if i != h {
			sit = "staged+deleted-file"
		} else {
			sit = "deleted-file"
		}
	case i != h:
		sit = "staged-change"
	case i == "none":
		sit = "absent"
	default:
		sit = "clean"
	}
	tr := "target-same"
	switch {
	case t == h:
	case t == "none":
		tr = "target-removes"
	case h == "none":
		tr = "target-adds"
	default:
		tr = "target-changes"
	}
	if len(row.H) > 1 {
		for q := range row.H {
			if q != p && (strings.HasPrefix(q, p+"/") || strings.HasPrefix(p, q+"/")) {
				if row.H[q] != "none" || row.I[q] != "none" || row.W[q] != "none" || row.T[q] != "none" {
					tr += ",dir-file-neighbour"
				}
			}
		}
	}
	_ = tr
	return sit
}

// errClass reduces an error to its last clause (paths stripped) for signatures.
func errClass(err error) string {
	s := err.Error()
	if k := strings.LastIndex(s, ": "); k >= 0 {
		s = s[k+2:]
	}
	return strings.ReplaceAll(strings.ToLower(s), " ", "-")
}

func in(set []string, v string) bool {
	for _, x := range set {
		if x == v {
			return true
		}
	}
	return false
}

func multi(row *repoRow) string { return "" }

var repoOpsOf = map[string][]string{
	"C25": {"reset-hard", "checkout-force", "checkout-force-create"},
	"C30": {"checkout", "checkout-twin", "checkout-create", "reset-merge", "reset-keep", "reset-merge-head", "reset-keep-head", "sparse-keep"},
	"C28": {"add", "add-all", "remove", "move", "clean", "commit"},
	"C27": {"status"},
	"C32": {"sparse", "sparse2"},
	"C29": {"reset-hard", "checkout-force", "checkout-force-create", "checkout", "checkout-twin", "checkout-create", "reset-merge", "reset-keep", "add", "add-all", "remove", "move", "clean", "commit", "sparse", "sparse2", "sparse-keep",
		"pull", "merge-ff", "merge-nonff", "merge-unsupported", "reset-merge-head", "reset-keep-head", "reset-hard-badsparse", "reset-merge-badsparse", "reset-keep-badsparse", "reset-mixed-badsparse",
		"reset-hard-missing", "checkout-create-existing", "checkout-missing-branch", "checkout-branch-and-hash", "checkout-force-missing-hash"},
}

func init() { register("repo", repoCmd) }

// repo <prop> rows.ndjson [maxRows]
func repoCmd(args []string) error {
	if len(args) < 2 {
		return fmt.Errorf("usage: repo <C25|C27|C28|C29|C30|C32> rows.ndjson [max]")
	}
	prop := args[0]
	ops := repoOpsOf[prop]
	if ops == nil {
		return fmt.Errorf("unknown property %s", prop)
	}
	var rows []*repoRow
	err := rep.ReadNDJSON(args[1], func(b []byte) error {
		var row repoRow
		if err := json.Unmarshal(b, &row); err != nil {
			return err
		}
		if in(ops, row.Op) {
			rows = append(rows, &row)
		}
		return nil
	})
	if err != nil {
		return err
	}
	max := len(rows)
	if len(args) > 2 {
		fmt.Sscan(args[2], &max)
	}
	rnd := rand.New(rand.NewSource(rep.Seed()))
	if max < len(rows) {
		// a fixed, seed-independent stratified subset (every k-th row of the table in TLC's order), so
		// that the quick tier explores the same situations for every seed; the seed varies the git leg
		// operations with few rows (e.g. sparse2: 36) are kept whole; the others share the rest of the budget
		perOp := map[string]int{}
		for _, r0 := range rows {
			perOp[r0.Op]++
		}
		var sub, rest []*repoRow
		for _, r0 := range rows {
			if perOp[r0.Op] <= 200 {
				sub = append(sub, r0)
			} else {
				rest = append(rest, r0)
			}
		}
		if left := max - len(sub); left > 0 && len(rest) > 0 {
			if left > len(rest) {
				left = len(rest)
			}
			for k := 0; k < left; k++ {
				sub = append(sub, rest[k*len(rest)/left])
			}
		}
		rows = sub
	}
	_ = rnd
	r := rep.New()
	gitBudget := 120
	if rep.Thorough() {
		gitBudget = 1500
	}
	gitEvery := len(rows)/gitBudget + 1
	okCount, refusedCount := 0, 0
	twinInC29 := map[string]bool{"pull": true, "merge-nonff": true, "reset-merge-head": true, "reset-keep-head": true, "reset-hard-missing": true,
		"checkout-create-existing": true, "checkout-missing-branch": true, "checkout-force-missing-hash": true}
	for ri, row := range rows {
		// C25 runs every row twice: plainly, and with cached stat data in the index while the files that differ
		// from it were rewritten with the same size inside the same second (a metadata shortcut must not make a
		// forced checkout / hard reset skip them)
		variants := []string{""}
		if prop == "C25" {
			variants = []string{"", "cached-stat"}
		}
		for _, variant := range variants {
			r.Eval(1)
			rw, err := newRepoWorld(row)
			if err != nil {
				return fmt.Errorf("pre-state: %v (row %+v)", err, row)
			}
			opName := row.Op
			if variant != "" {
				opName += "+" + variant
				if err := rw.statCache(row); err != nil {
					rw.close()
					continue
				}
			}
			cs := map[string]any{"H": row.H, "I": row.I, "W": row.W, "T": row.T, "op": opName, "arg": row.Arg, "expect": row.Exp}
			if variant == "" && ri%gitEvery == 0 && gitcli.Available() && ((prop != "C27" && prop != "C29" && prop != "C32") || (prop == "C29" && twinInC29[row.Op])) {
				gitTwin(r, row)
			}
			pre := rw.observe()
			if prop == "C27" {
				repoStatus(r, rw, row, cs, ri%gitEvery == 0, "status")
				rw.close()
				// second pass: index entries carry cached stat data (size, mtime) and files that differ from
				// the index were rewritten within the SAME second with the same size (racy situation); the
				// expected status is the same - a metadata shortcut must not hide the modification
				rw2, err := newRepoWorld(row)
				if err == nil {
					if err := rw2.statCache(row); err == nil {
						r.Eval(1)
						repoStatus(r, rw2, row, cs, false, "status-with-cached-stat")
					}
					rw2.close()
				}
				continue
			}
			opErr := rw.run(row)
			post := rw.observe()
			cs["error"] = fmt.Sprint(opErr)
			cs["post_index"] = post.Idx
			cs["post_worktree"] = post.Wt
			cs["post_head"] = post.HeadRef + ":" + post.HeadTree
			if post.Err != "" {
				r.Diverge(row.Op+"|repository-unreadable-after|"+normErr(errors.New(post.Err)), "repository cannot be read after the operation: "+post.Err, cs)
				rw.close()
				continue
			}
			if opErr != nil {
				refusedCount++
				// C29: a refused operation changes nothing (HEAD, branches, index, tracked worktree files)
				if prop == "C29" {
					if d := repoDiff(pre, post, row); d != "" {
						r.Diverge(row.Op+"|refused-but-changed|"+d+"|error="+errClass(opErr), fmt.Sprintf("%s returned %q but changed %s", row.Op, normErr(opErr), d), cs)
					}
				}
				// C28: where git refuses (and so changes nothing), the index entries and the remaining files
			// (untracked ones included) after go-git's refusal must be git's, i.e. the ones before the call
			if prop == "C28" && row.Exp.Verdict == "refuse" {
				what := ""
				for _, p := range rw.paths {
					if post.Idx[p] != pre.Idx[p] {
						what = "index"
					} else if post.Wt[p] != pre.Wt[p] && what == "" {
						what = "files:" + shape(row, p)
					}
				}
				if what == "" && len(post.Extra) != len(pre.Extra) {
					what = "files:extra-path"
				}
				if what != "" {
					r.Diverge(row.Op+"|refused-like-git-but-changed|"+what, fmt.Sprintf("%s returned %q (git refuses too and changes nothing) but changed %s", row.Op, normErr(opErr), what), cs)
				}
			}
			if prop == "C28" && row.Exp.Verdict == "ok" {
					r.Diverge(row.Op+"|unexpected-error|"+errClass(opErr), fmt.Sprintf("%s failed (%v) where git succeeds", row.Op, normErr(opErr)), cs)
				}
				rw.close()
				continue
			}
			okCount++
			if prop == "C29" || row.Exp.Verdict == "unspecified" {
				rw.close()
				continue
			}
			// success: the post-state must be inside the allowed sets
			if row.Exp.Verdict == "refuse" && prop != "C28" {
				// C30: what was lost?
				lost := ""
				for _, p := range rw.paths {
					if row.W[p] != row.I[p] && post.Wt[p] != row.W[p] {
						lost = "worktree-content:" + shape(row, p)
						break
					}
					if row.I[p] != row.H[p] && post.Idx[p] != row.I[p] {
						lost = "staged-content:" + shape(row, p)
					}
				}
				if lost == "" {
					lost = "nothing-observed:" + firstShape(row)
				}
				r.Diverge(row.Op+"|succeeded-where-it-must-refuse|lost="+lost+multi(row), fmt.Sprintf("%s succeeded although it overwrites local changes (%s)", row.Op, lost), cs)
				rw.close()
				continue
			}
			if row.Exp.Verdict == "refuse" && prop == "C28" {
				if d := repoDiff(pre, post, row); d != "" {
					r.Diverge(row.Op+"|succeeded-where-git-refuses|"+d, fmt.Sprintf("%s succeeded and changed %s where git refuses", row.Op, d), cs)
				}
				rw.close()
				continue
			}
			bad := ""
			if row.Exp.NoDir && len(row.Arg) > 0 && row.Arg[0] == "empty-dir" && rw.emptyDirLeft() {
				bad = "worktree|empty-directory-left"
			}
			wantHead := row.Exp.Head
			gotHead := post.HeadTree
			if strings.HasSuffix(gotHead, "*") {
				gotHead = gotHead[:1]
			}
			headOK := gotHead == wantHead ||
				(wantHead == "T" && post.HeadTree == "H" && rw.treeH == rw.treeT) ||
				(wantHead == "H" && post.HeadTree == "T" && rw.treeH == rw.treeT)
			if wantHead == "I" {
				headOK = post.HeadTree == "I" || (rw.treeI == rw.treeH && gotHead == "H") || (rw.treeI == rw.treeT && gotHead == "T")
			}
			if !headOK && bad == "" {
				bad = "head|want=" + wantHead + ",got=" + post.HeadTree
			}
			for _, p := range rw.paths {
				if bad != "" {
					break
				}
				if !in(row.Exp.Idx[p], post.Idx[p]) {
					bad = "index|" + shape(row, p)
				} else if !in(row.Exp.Wt[p], post.Wt[p]) {
					bad = "worktree|" + shape(row, p)
				} else if row.Exp.Skip != nil && row.Exp.Skip[p] != post.Skip[p] {
					bad = fmt.Sprintf("skip-worktree|want=%v,got=%v|incone=%v", row.Exp.Skip[p], post.Skip[p], !row.Exp.Skip[p])
				}
			}
			if bad == "" && len(post.Extra) > 0 {
				bad = "worktree|unexpected-extra-path"
			}
			if bad == "" {
				for k := range post.Idx {
					if _, ok := row.I[k]; !ok {
						bad = "index|unexpected-entry"
					}
				}
			}
			if bad != "" {
				r.Diverge(row.Op+"|post-state|"+bad+multi(row), fmt.Sprintf("after successful %s the %s differs from the specification", row.Op, strings.SplitN(bad, "|", 2)[0]), cs)
			} else if (prop == "C25" || prop == "C28") && ri%gitEvery == 0 && gitcli.Available() {
				repoGitAgrees(r, rw, row, post, cs, prop)
			}
			rw.close()
			if ri%300 == 0 {
				r.Sample(map[string]any{"H": row.H, "I": row.I, "W": row.W, "T": row.T, "op": row.Op, "arg": row.Arg, "verdict": row.Exp.Verdict, "error": fmt.Sprint(opErr)})
			}
		}
	}
	r.Distinct = len(rows)
	r.Extra["succeeded"] = okCount
	r.Extra["refused"] = refusedCount
	return r.Emit()
}

func firstShape(row *repoRow) string {
	ps := make([]string, 0)
	for p := range row.H {
		ps = append(ps, p)
	}
	sort.Strings(ps)
	return shape(row, ps[0])
}

// repoDiff: what differs between two observations, restricted to what C29 names.
func repoDiff(pre, post *repoObs, row *repoRow) string {
	if pre.HeadRef != post.HeadRef || pre.HeadTree != post.HeadTree {
		return "HEAD"
	}
	if pre.Master != post.Master || pre.Target != post.Target || pre.Feature != post.Feature {
		return "branch"
	}
	for p, v := range pre.Idx {
		if post.Idx[p] != v {
			return "index"
		}
	}
	for p, v := range post.Idx {
		if pre.Idx[p] != v {
			return "index"
		}
	}
	for p := range pre.Skip {
		if !post.Skip[p] {
			return "index-flags"
		}
	}
	for p := range row.H {
		tracked := row.I[p] != "none" || row.H[p] != "none"
		if tracked && pre.Wt[p] != post.Wt[p] {
			return "tracked-worktree-file"
		}
	}
	return ""
}

// repoStatus: C27 - go-git Status vs the specification, and (sampled) git status vs the specification.
func repoStatus(r *rep.Report, rw *repoWorld, row *repoRow, cs map[string]any, withGit bool, label string) {
	st, err := rw.w.Status()
	if err != nil {
		r.Diverge(label+"|error|"+normErr(err), "Status failed: "+err.Error(), cs)
		return
	}
	got := map[string]string{}
	for p, fs := range st {
		got[p] = string([]byte{byte(fs.Staging), byte(fs.Worktree)})
	}
	cs["gogit_status"] = got
	for _, p := range rw.paths {
		want := strings.Join(row.Exp.St[p], "")
		g, ok := got[p]
		if !ok {
			g = "  "
		}
		if g != want {
			r.Diverge("status|mismatch|want="+want+",got="+g+"|"+shape(row, p), fmt.Sprintf("Status (%s) reports %q for a path where git status --porcelain reports %q", label, g, want), cs)
			break
		}
	}
	for p := range got {
		if _, ok := row.H[p]; !ok && got[p] != "  " {
			r.Diverge(label+"|unexpected-path", "Status lists a path outside the universe: "+p, cs)
		}
	}
	if !withGit || !gitcli.Available() {
		return
	}
	out, e, err := gitcli.Run(rw.dir, nil, "status", "--porcelain=v1", "-z", "--untracked-files=all", "--no-renames")
	if err != nil {
		r.SpecError(map[string]any{"why": "git status failed on a go-git-built repository", "stderr": e, "row": cs})
		return
	}
	gitst := map[string]string{}
	for _, rec := range strings.Split(out, "\x00") {
		if len(rec) < 4 {
			continue
		}
		xy, p := rec[:2], rec[3:]
		if xy == "??" {
			if prev, ok := gitst[p]; ok {
				gitst[p] = prev[:1] + "?"
			} else {
				gitst[p] = "??"
			}
			continue
		}
		if prev, ok := gitst[p]; ok && prev == "??" {
			gitst[p] = xy[:1] + "?"
		} else {
			gitst[p] = xy
		}
	}
	for _, p := range rw.paths {
		want := strings.Join(row.Exp.St[p], "")
		g, ok := gitst[p]
		if !ok {
			g = "  "
		}
		if g != want {
			r.SpecError(map[string]any{"why": "spec status differs from git status", "path": p, "spec": want, "git": g, "row": cs})
			return
		}
	}
	r.Traces++
}

// repoGitAgrees: after a successful operation git must see the same index and a clean / expected status.
func repoGitAgrees(r *rep.Report, rw *repoWorld, row *repoRow, post *repoObs, cs map[string]any, prop string) {
	out, e, err := gitcli.Run(rw.dir, nil, "ls-files", "-s")
	if err != nil {
		r.Diverge(row.Op+"|git-cannot-read-index|"+normErr(errors.New(e)), "git ls-files fails on the index go-git wrote: "+e, cs)
		return
	}
	gidx := map[string]string{}
	for _, ln := range strings.Split(strings.TrimSpace(out), "\n") {
		if ln == "" {
			continue
		}
		// mode SP hash SP stage TAB path
		tab := strings.SplitN(ln, "\t", 2)
		f := strings.Fields(tab[0])
		k := "f:"
		switch f[0] {
		case "100755":
			k = "x:"
		case "120000":
			k = "l:"
		}
		b, ok := rw.blobSym[plumbing.NewHash(f[1])]
		if !ok {
			b = "?"
		}
		gidx[tab[1]] = k + b
	}
	for _, p := range rw.paths {
		g, ok := gidx[p]
		if !ok {
			g = "none"
		}
		if g != post.Idx[p] {
			r.Diverge(row.Op+"|git-sees-different-index|"+shape(row, p), fmt.Sprintf("git ls-files -s shows %s for a path go-git's index decodes as %s", g, post.Idx[p]), cs)
			return
		}
	}
	if prop == "C25" {
		out, _, err := gitcli.Run(rw.dir, nil, "status", "--porcelain=v1", "--untracked-files=no")
		if err == nil && strings.TrimSpace(out) != "" {
			r.Diverge(row.Op+"|git-status-not-clean|"+firstShape(row)+multi(row), "git status reports tracked changes after a successful forced checkout / hard reset: "+strings.TrimSpace(out), cs)
			return
		}
	}
	if prop == "C28" && row.Op == "commit" {
		out, _, err := gitcli.Run(rw.dir, nil, "rev-parse", "HEAD^{tree}")
		wt, _, err2 := gitcli.Run(rw.dir, nil, "write-tree")
		if err == nil && err2 == nil && strings.TrimSpace(out) != strings.TrimSpace(wt) {
			r.Diverge("commit|tree-differs-from-git-write-tree|"+firstShape(row)+multi(row), "the committed tree is not the tree git write-tree produces from the same index", cs)
			return
		}
	}
	r.Traces++
}

// gitTwin runs the equivalent git command on an identical pre-state and checks that git's own
// outcome is inside what the specification allows.  A disagreement is a SPEC error (the
// specification is wrong about git), never a go-git violation.
func gitTwin(r *rep.Report, row *repoRow) {
	rw, err := newRepoWorld(row)
	if err != nil {
		return
	}
	defer rw.close()
	var args []string
	switch row.Op {
	case "reset-hard":
		args = []string{"reset", "-q", "--hard", "target"}
	case "reset-merge":
		args = []string{"reset", "-q", "--merge", "target"}
	case "reset-keep":
		args = []string{"reset", "-q", "--keep", "target"}
	case "checkout-force":
		args = []string{"checkout", "-q", "-f", "target"}
	case "checkout-force-create":
		args = []string{"checkout", "-q", "-f", "-b", "feature", "target"}
	case "checkout":
		args = []string{"checkout", "-q", "target"}
	case "checkout-twin":
		args = []string{"checkout", "-q", "twin"}
	case "checkout-create":
		args = []string{"checkout", "-q", "-b", "feature"}
	case "reset-merge-head":
		args = []string{"reset", "-q", "--merge", "HEAD"}
	case "reset-keep-head":
		args = []string{"reset", "-q", "--keep", "HEAD"}
	case "pull":
		args = []string{"merge", "-q", "--ff-only", "target"}
	case "merge-nonff":
		args = []string{"merge", "-q", "--ff-only", "diverged"}
	case "reset-hard-missing":
		args = []string{"reset", "-q", "--hard", "1234567890123456789012345678901234567890"}
	case "checkout-create-existing":
		args = []string{"checkout", "-q", "-b", "target"}
	case "checkout-missing-branch":
		args = []string{"checkout", "-q", "no-such-branch"}
	case "checkout-force-missing-hash":
		args = []string{"checkout", "-q", "-f", "1234567890123456789012345678901234567890"}
	case "add":
		args = []string{"add", "--", row.Arg[0]}
	case "add-all":
		args = []string{"add", "-A"}
	case "remove":
		args = []string{"rm", "-q", "-f", "--", row.Arg[0]}
	case "move":
		args = []string{"mv", row.Arg[0], row.Arg[1]}
	case "clean":
		args = []string{"clean", "-q", "-f", "-d"}
	case "commit":
		args = []string{"commit", "-q", "-m", "c"}
	default:
		return
	}
	_, e, gerr := gitcli.Run(rw.dir, nil, args...)
	post := rw.observe()
	cs := map[string]any{"H": row.H, "I": row.I, "W": row.W, "T": row.T, "op": row.Op, "arg": row.Arg, "expect": row.Exp,
		"git_error": strings.TrimSpace(e), "git_index": post.Idx, "git_worktree": post.Wt, "git_head": post.HeadRef + ":" + post.HeadTree}
	if row.Exp.Verdict == "unspecified" {
		return
	}
	if gerr != nil {
		if row.Exp.Verdict == "ok" {
			cs["why"] = "git refuses where the spec demands success"
			r.SpecError(cs)
		}
		return
	}
	if row.Exp.Verdict == "refuse" {
		cs["why"] = "git succeeds where the spec demands refusal"
		r.SpecError(cs)
		return
	}
	if row.Exp.NoDir && len(row.Arg) > 0 && row.Arg[0] == "empty-dir" && rw.emptyDirLeft() {
		cs["why"] = "git clean -d leaves the empty directory the spec says it removes"
		r.SpecError(cs)
		return
	}
	for _, p := range rw.paths {
		if !in(row.Exp.Idx[p], post.Idx[p]) {
			cs["why"] = "git's index at " + p + " is outside the spec's allowed set"
			r.SpecError(cs)
			return
		}
		if !in(row.Exp.Wt[p], post.Wt[p]) {
			cs["why"] = "git's worktree at " + p + " is outside the spec's allowed set"
			r.SpecError(cs)
			return
		}
	}
	r.Traces++
}

// statCache gives every regular index entry cached stat data and places the worktree files in the
// racy-git situation: same size, modification time inside the same second as the recorded one
// (identical when the content is unchanged), index file clearly newer.
func (rw *repoWorld) statCache(row *repoRow) error {
	base := time.Now().Add(-time.Hour).Truncate(time.Second).Add(100 * time.Millisecond)
	idx, err := rw.r.Storer.Index()
	if err != nil {
		return err
	}
	for _, e := range idx.Entries {
		if e.Mode == filemode.Symlink {
			continue
		}
		e.ModifiedAt = base
		e.CreatedAt = base
		e.Size = uint32(len(blobContent[rw.blobSym[e.Hash]]))
	}
	if err := rw.r.Storer.SetIndex(idx); err != nil {
		return err
	}
	for _, p := range rw.paths {
		w := row.W[p]
		if w == "none" || w[0] == 'l' {
			continue
		}
		mt := base
		if w != row.I[p] {
			mt = base.Add(200 * time.Millisecond)
		}
		if err := os.Chtimes(filepath.Join(rw.dir, filepath.FromSlash(p)), mt, mt); err != nil {
			return err
		}
	}
	it := base.Add(5 * time.Second)
	if err := os.Chtimes(filepath.Join(rw.dir, ".git", "index"), it, it); err != nil {
		return err
	}
	r2, err := git.PlainOpen(rw.dir)
	if err != nil {
		return err
	}
	rw.r = r2
	rw.w, err = r2.Worktree()
	return err
}
