package main

import (
	"encoding/json"
	"fmt"
	"math/rand"
	"strings"

	"verifharness/internal/gitcli"
	"verifharness/internal/rep"

	"github.com/go-git/go-git/v6/plumbing"
)

// C13: rows from spec/rules/RefName.tla are rendered to concrete names and
// compared three ways (spec / go-git / git check-ref-format).

// symBytes: several concrete byte strings per symbol class; [0] is the canonical one.
var refSymBytes = map[string][]string{
	"w": {"a", "Z", "0", "_", "}", "]", "+", "lockx", "xlock"}, "/": {"/"}, ".": {"."}, "@": {"@"}, "{": {"{"},
	"~": {"~"}, "^": {"^"}, ":": {":"}, "?": {"?"}, "*": {"*"}, "[": {"["}, "bs": {"\\"},
	"sp": {" "}, "ctl": {"\x01", "\x1f", "\x7f", "\t", "\n"}, "hi": {"\xc3\xa9", "\x80", "\xff"},
	"-": {"-"}, "lock": {"lock"}, "wlock": {"x.lock", "a.b.lock"}, "refs": {"refs"}, "heads": {"heads"}, "tags": {"tags"},
}

type refRow struct {
	S                  []string `json:"s"`
	G, V               bool
	Gh, Vh, Gt, Vt, Gx, Vx bool
	W, Wh, Wt, Wx      []string
}

func renderSyms(s []string, rnd *rand.Rand, tab map[string][]string) string {
	var b strings.Builder
	for _, x := range s {
		c := tab[x]
		if rnd == nil {
			b.WriteString(c[0])
		} else {
			b.WriteString(c[rnd.Intn(len(c))])
		}
	}
	return b.String()
}

func init() { register("c13", c13) }

func c13(args []string) error {
	if len(args) < 1 {
		return fmt.Errorf("usage: c13 rows.ndjson")
	}
	r := rep.New()
	rnd := rand.New(rand.NewSource(rep.Seed()))
	nvar := 1
	if rep.Thorough() {
		nvar = 3
	}
	gitOK := gitcli.Available()
	type gitJob struct {
		name string
		want bool
		abs  []string
		pre  string
	}
	var jobs []gitJob
	distinct := map[string]bool{}
	err := rep.ReadNDJSON(args[0], func(line []byte) error {
		var row refRow
		if err := json.Unmarshal(line, &row); err != nil {
			return err
		}
		for k := 0; k <= nvar; k++ {
			var rr *rand.Rand
			if k > 0 {
				rr = rnd
			}
			base := renderSyms(row.S, rr, refSymBytes)
			if k > 0 && base == renderSyms(row.S, nil, refSymBytes) {
				continue
			}
			for _, v := range []struct {
				pre  string
				g, v bool
				why  []string
			}{{"", row.G, row.V, row.W}, {"refs/heads/", row.Gh, row.Vh, row.Wh}, {"refs/tags/", row.Gt, row.Vt, row.Wt}, {"refs/x/", row.Gx, row.Vx, row.Wx}} {
				name := v.pre + base
				if distinct[name] {
					continue
				}
				distinct[name] = true
				r.Eval(1)
				got := plumbing.ReferenceName(name).Validate() == nil
				if got != v.v {
					dir := "rejects-valid"
					key := "none"
					if got {
						dir = "accepts-invalid"
						key = strings.Join(v.why, "+")
					} else {
						for _, comp := range strings.Split(name, "/") {
							if comp == "@" {
								key = "component-is-@"
							}
						}
					}
					r.Diverge("Validate|"+dir+"|"+key, fmt.Sprintf("ReferenceName(%q).Validate() accepted=%v, spec (git check-ref-format + dash rule) says %v", name, got, v.v),
						map[string]any{"name": name, "abstract": row.S, "prefix": v.pre, "spec": v.v, "gogit": got})
				}
				if gitOK && !strings.HasPrefix(name, "-") && !strings.Contains(name, "\x00") {
					// git leg: all valid ones, a seeded 1/4 sample of invalid ones in thorough
					{
						jobs = append(jobs, gitJob{name, v.g, row.S, v.pre})
					}
				}
				r.Sample(map[string]any{"name": name, "spec_git": v.g, "spec_gogit": v.v, "gogit": got})
			}
		}
		return nil
	})
	if err != nil {
		return err
	}
	// git leg (spec vs git): disagreement is a SPEC-ERROR, never a violation
	gitChecked := 0
	// process creation costs ~5 ms here and does not parallelise: cap the git leg by a seeded sample
	limit := 2500
	if rep.Thorough() {
		limit = 20000
	}
	rnd.Shuffle(len(jobs), func(i, j int) { jobs[i], jobs[j] = jobs[j], jobs[i] })
	if len(jobs) > limit {
		jobs = jobs[:limit]
	}
	if len(jobs) > 0 {
		names := make([]string, len(jobs))
		for i, j := range jobs {
			names[i] = j.name
		}
		oks, err := gitcli.BatchOK(gitcli.TempDir("c13"), []string{"check-ref-format"}, names)
		if err != nil {
			return err
		}
		for i, j := range jobs {
			gitChecked++
			if oks[i] != j.want {
				r.SpecError(map[string]any{"name": j.name, "spec_git": j.want, "git": oks[i], "abstract": j.abs})
			}
		}
	}
	r.Distinct = len(distinct)
	r.Extra["git_leg"] = gitOK
	r.Extra["git_checked"] = gitChecked
	return r.Emit()
}
