package main

import (
	"fmt"
	"math/rand"
	"strings"

	"verifharness/internal/gitcli"
	"verifharness/internal/rep"

	"github.com/go-git/go-billy/v6"
	"github.com/go-git/go-git/v6/storage/filesystem"
)

func init() { register("c15", c15) }

// gitRefView returns git's view of the references in gitdir as the abstract map.
func gitRefView(w *refWorld, gitdir string, names []string) (map[string]string, string) {
	view := map[string]string{}
	for _, n := range names {
		view[n] = "none"
	}
	env := []string{"GIT_DIR=" + gitdir}
	out, e, err := gitcli.RunEnv(gitdir, nil, env, "for-each-ref", "--format=%(refname) %(objectname) %(symref)")
	if err != nil || strings.Contains(e, "fatal") || strings.Contains(e, "error") || strings.Contains(e, "warning") {
		return nil, "for-each-ref: " + strings.TrimSpace(e)
	}
	for _, ln := range strings.Split(strings.TrimSpace(out), "\n") {
		if ln == "" {
			continue
		}
		p := strings.SplitN(ln, " ", 3)
		if len(p) == 3 && p[2] != "" {
			view[p[0]] = "sym:" + p[2]
		} else if s, ok := w.sym[hashOf(p[1])]; ok {
			view[p[0]] = s
		} else {
			view[p[0]] = "hash:" + p[1]
		}
	}
	out, _, err = gitcli.RunEnv(gitdir, nil, env, "symbolic-ref", "-q", "HEAD")
	if err == nil {
		view["HEAD"] = "sym:" + strings.TrimSpace(out)
	} else {
		out, e, err = gitcli.RunEnv(gitdir, nil, env, "rev-parse", "--verify", "HEAD")
		if err != nil {
			return nil, "rev-parse HEAD: " + strings.TrimSpace(e)
		}
		if s, ok := w.sym[hashOf(strings.TrimSpace(out))]; ok {
			view["HEAD"] = s
		} else {
			view["HEAD"] = "hash:" + strings.TrimSpace(out)
		}
	}
	return view, ""
}

func c15(args []string) error {
	if len(args) < 1 {
		return fmt.Errorf("usage: c15 hist.ndjson")
	}
	hs, inits, names, err := loadRefHists(args[0])
	if err != nil {
		return err
	}
	w, err := buildRefWorld(inits)
	if err != nil {
		return err
	}
	r := rep.New()
	rnd := rand.New(rand.NewSource(rep.Seed()))
	mem := fsRefBackend("memfs", filesystem.Options{})
	osb := fsRefBackend("osfs", filesystem.Options{})
	gitBudget := 150
	if rep.Thorough() {
		gitBudget = 1500
	}
	osEvery := len(hs)*len(refLayouts)/gitBudget + 1
	k := 0
	distinct := map[string]bool{}
	for _, h := range hs {
		for _, lay := range refLayouts {
			k++
			r.Eval(1)
			distinct[initKey(h.Init)+lay+fmt.Sprint(h.Steps)] = true
			_, cleanup, _ := replayRefHist(r, w, h, lay, mem, names, "C15")
			cleanup()
			if (k+int(rnd.Int63()%int64(osEvery)))%osEvery == 0 {
				var f billy.Filesystem
				f, cleanup, ok := replayRefHist(r, w, h, lay, osb, names, "C15")
				if ok {
					// git must see the same references (observer of go-git's on-disk state)
					want := map[string]string{}
					for n, v := range h.Init {
						want[n] = v
					}
					if len(h.Steps) > 0 {
						want = h.Steps[len(h.Steps)-1].St
					}
					view, gerr := gitRefView(w, f.Root(), names)
					c := map[string]any{"backend": "osfs+git", "layout": lay, "init": h.Init, "steps": h.Steps}
					if gerr != "" {
						r.Diverge("git-view|error|"+normErr(fmt.Errorf("%s", gerr)), "git cannot list the references go-git wrote: "+gerr, c)
					} else {
						for _, n := range names {
							wv := want[n]
							// a dangling symbolic ref under refs/ is not listed by for-each-ref
							if strings.HasPrefix(wv, "sym:") && n != "HEAD" && want[wv[4:]] == "none" {
								wv = "none"
							}
							if view[n] != wv {
								r.Diverge("git-view|mismatch|want="+kindOf(wv)+",got="+kindOf(view[n]), fmt.Sprintf("git sees %s = %s, map model says %s", n, view[n], wv), c)
								break
							}
						}
					}
					r.Traces++
				}
				cleanup()
			}
		}
		r.Sample(h)
	}
	r.Distinct = len(distinct)
	r.Extra["layouts"] = refLayouts
	r.Extra["git_observed_histories"] = r.Traces
	return r.Emit()
}
