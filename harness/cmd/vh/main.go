// Command vh is the conformance harness: it binds the TLA+ specifications under
// /verif/spec to the real go-git code in /repo.  Each subcommand replays
// TLC-generated behaviours / rule rows against go-git (and git, where the
// property says "as git does"), or records traces from go-git for TLC to
// validate.  The last line of stdout is a JSON report (see internal/rep).
package main

import (
	"fmt"
	"os"
	"sort"
)

type subcmd func(args []string) error

var subcmds = map[string]subcmd{}

func register(name string, f subcmd) { subcmds[name] = f }

func main() {
	if len(os.Args) < 2 {
		var names []string
		for n := range subcmds {
			names = append(names, n)
		}
		sort.Strings(names)
		fmt.Fprintln(os.Stderr, "usage: vh <subcommand> [args]; subcommands:", names)
		os.Exit(2)
	}
	f, ok := subcmds[os.Args[1]]
	if !ok {
		fmt.Fprintln(os.Stderr, "unknown subcommand", os.Args[1])
		os.Exit(2)
	}
	if err := f(os.Args[2:]); err != nil {
		fmt.Fprintln(os.Stderr, "vh:", err)
		os.Exit(2)
	}
}
