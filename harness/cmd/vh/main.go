// Command vh is the conformance harness: it binds the TLA+ specifications under
// /verif/spec to the real go-git code in /repo.  Each subcommand replays
// TLC-generated behaviours / rule rows against go-git (and git, where the
// property says "as git does"), or records traces from go-git for TLC to
// validate.  The last line of stdout is a JSON report (see internal/rep).
package main

import "verifharness/internal/rep"

func register(name string, f rep.Sub) { rep.Register(name, f) }

func main() { rep.Main() }
