package main

import (
	"encoding/json"
	"fmt"
	"os"
	"path/filepath"
	"strings"
	"time"

	"verifharness/internal/gitcli"
	"verifharness/internal/rep"

	git "github.com/go-git/go-git/v6"
)

// C27 (core.autocrlf leg): StatusEOL rows replayed on real repositories.

type eolRow struct {
	AutoCRLF string `json:"autocrlf"`
	WtEol    string `json:"wteol"`
	Edited   bool   `json:"edited"`
	Layout   string `json:"layout"`
	Exp      string `json:"exp"`
}

func init() { register("c27eol", c27eol) }

// eolLines returns the LF text of a layout: lines such that, with CRLF endings, a CR falls at the
// byte offset the layout names ("cr@N"), or a plain small / large file.
func eolLines(layout string) []string {
	rec := func(i int) string { return fmt.Sprintf("record %08d", i) } // 15 characters
	var lines []string
	switch {
	case layout == "small":
		return []string{"alpha", "beta", "gamma"}
	case layout == "large":
		for i := 0; i < 700; i++ {
			lines = append(lines, rec(i))
		}
		// make sure no CR sits on 4096*k-1: records are 17 bytes with CRLF, CRs at 15+17k; shift by one
		return append([]string{"x"}, lines...)
	case strings.HasPrefix(layout, "cr@"):
		var x int
		fmt.Sscan(layout[3:], &x)
		l0 := x % 17
		first := strings.Repeat("h", l0)
		if l0 == 0 {
			first = strings.Repeat("h", 17)
		}
		lines = append(lines, first)
		for i := 0; len(lines)*17 < x+17*40; i++ {
			lines = append(lines, rec(i))
		}
		return lines
	}
	return nil
}

func c27eol(args []string) error {
	if len(args) < 1 {
		return fmt.Errorf("usage: c27eol rows.ndjson")
	}
	var rows []eolRow
	if err := rep.ReadNDJSON(args[0], func(b []byte) error {
		var row eolRow
		if err := json.Unmarshal(b, &row); err != nil {
			return err
		}
		rows = append(rows, row)
		return nil
	}); err != nil || len(rows) == 0 {
		return fmt.Errorf("no rows: %v", err)
	}
	r := rep.New()
	for _, row := range rows {
		lines := eolLines(row.Layout)
		if lines == nil {
			return fmt.Errorf("unknown layout %q", row.Layout)
		}
		r.Eval(1)
		dir := gitcli.TempDir("c27eol")
		cs := map[string]any{"row": row}
		lf := strings.Join(lines, "\n") + "\n"
		if strings.HasPrefix(row.Layout, "cr@") {
			var x int
			fmt.Sscan(row.Layout[3:], &x)
			crlf := strings.ReplaceAll(lf, "\n", "\r\n")
			if x >= len(crlf) || crlf[x] != '\r' {
				return fmt.Errorf("layout %s: byte %d is not a CR", row.Layout, x)
			}
		}
		repo, err := git.PlainInit(dir, false)
		if err != nil {
			return err
		}
		w, _ := repo.Worktree()
		os.WriteFile(filepath.Join(dir, "records.txt"), []byte(lf), 0o644)
		if _, err := w.Add("records.txt"); err != nil {
			return err
		}
		if _, err := w.Commit("c\n", &git.CommitOptions{Author: repoSig, Committer: repoSig}); err != nil {
			return err
		}
		// the index entry carries no cached stat data (as right after read-tree): both git and go-git must
		// then compare content (with cached stat data and a changed size git reports a modification
		// without looking at the content, whatever core.autocrlf says)
		idx, err := repo.Storer.Index()
		if err != nil {
			return err
		}
		for _, e := range idx.Entries {
			e.Size, e.Dev, e.Inode, e.UID, e.GID = 0, 0, 0, 0, 0
			e.ModifiedAt, e.CreatedAt = time.Time{}, time.Time{}
		}
		if err := repo.Storer.SetIndex(idx); err != nil {
			return err
		}
		cfg, err := repo.Config()
		if err != nil {
			return err
		}
		cfg.Raw.Section("core").SetOption("autocrlf", row.AutoCRLF)
		if err := repo.SetConfig(cfg); err != nil {
			return err
		}
		wt := lf
		if row.Edited {
			k := len(wt) / 2
			for wt[k] == '\n' {
				k++
			}
			wt = wt[:k] + "#" + wt[k+1:]
		}
		if row.WtEol == "crlf" {
			wt = strings.ReplaceAll(wt, "\n", "\r\n")
		}
		os.WriteFile(filepath.Join(dir, "records.txt"), []byte(wt), 0o644)
		// fresh handle: no cached stat data can apply (the index entry was written before the rewrite and the
		// size differs or the content comparison is forced by a different mtime)
		repo2, err := git.PlainOpen(dir)
		if err != nil {
			return err
		}
		w2, _ := repo2.Worktree()
		st, err := w2.Status()
		if err != nil {
			r.Diverge("status-eol|error|"+normErr(err), "Status failed: "+err.Error(), cs)
			os.RemoveAll(dir)
			continue
		}
		got := " "
		if fs, ok := st["records.txt"]; ok && fs.Worktree != git.Unmodified {
			got = string([]byte{byte(fs.Worktree)})
		}
		// the second witness: git itself, on every row
		if gitcli.Available() {
			out, e, gerr := gitcli.Run(dir, nil, "status", "--porcelain=v1", "--untracked-files=no")
			if gerr != nil {
				r.SpecError(map[string]any{"why": "git status failed", "stderr": e, "row": row})
			} else {
				g := " "
				for _, ln := range strings.Split(out, "\n") {
					if strings.HasSuffix(ln, "records.txt") && len(ln) > 2 {
						g = ln[1:2]
					}
				}
				if g != row.Exp {
					r.SpecError(map[string]any{"why": "git status disagrees with StatusEOL", "git": g, "row": row})
				} else {
					r.Traces++
				}
			}
		}
		if got != row.Exp {
			lay := row.Layout
			if strings.HasPrefix(lay, "cr@") {
				lay = "cr-on-4096-boundary"
				var x int
				fmt.Sscan(row.Layout[3:], &x)
				if (x+1)%4096 != 0 {
					lay = "cr-near-4096-boundary"
				}
			}
			r.Diverge(fmt.Sprintf("status-eol|mismatch|want=%q,got=%q|autocrlf=%s,wt=%s,edited=%v,%s", row.Exp, got, row.AutoCRLF, row.WtEol, row.Edited, lay),
				fmt.Sprintf("Status reports %q for a file where git status reports %q (core.autocrlf=%s, worktree %s, layout %s)", got, row.Exp, row.AutoCRLF, row.WtEol, row.Layout), cs)
		}
		os.RemoveAll(dir)
	}
	r.Distinct = len(rows)
	return r.Emit()
}
