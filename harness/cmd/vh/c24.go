package main

import (
	"encoding/json"
	"errors"
	"fmt"
	"math/rand"
	"os"
	"sync"
	"sync/atomic"
	"time"

	"verifharness/internal/gate"
	"verifharness/internal/rep"

	"github.com/go-git/go-git/v6/x/fdpool"
	"github.com/go-git/go-git/v6/x/verifbridge"
)

// C24: real SharedFile / Pool objects driven by the gated scheduler (every hook
// yield point and every API call is a schedulable step); every hook emission is
// logged together with DIRECT observations (which fake descriptors are closed,
// which handles are held).  TLC (spec/trace/TraceSFP*.tla) judges the logs.

type fakeFD struct {
	id     int
	file   string
	closed atomic.Bool
}

func (f *fakeFD) ReadAt(p []byte, off int64) (int, error) {
	if f.closed.Load() {
		return 0, errors.New("read on closed descriptor")
	}
	return 0, nil
}
func (f *fakeFD) Read(p []byte) (int, error) { return f.ReadAt(p, 0) }
func (f *fakeFD) Close() error               { f.closed.Store(true); return nil }

type c24Held struct {
	F        string `json:"f"`
	SfClosed bool   `json:"sfclosed"`
	FdClosed bool   `json:"fdclosed"`
}

type c24Ev struct {
	Ev       string    `json:"ev"`
	T        string    `json:"t"`
	F        string    `json:"f"`
	Refs     int       `json:"refs"`
	Open     bool      `json:"open"`
	Closed   bool      `json:"closed"`
	Imm      bool      `json:"imm"`
	Lru      []string  `json:"lru"`
	Held     []c24Held `json:"held"`
	OpenFds  int       `json:"openfds"`
	Pinned   int       `json:"pinned"`
	Inflight int       `json:"inflight"`
}

type c24Run struct {
	ID      int      `json:"id"`
	Cap     int      `json:"cap"`
	Pool    bool     `json:"pool"`
	Files   []string `json:"files"`
	Threads []string `json:"threads"`
	Seed    int64    `json:"seed"`
	Ev      []c24Ev  `json:"ev"`
}

func init() { register("c24", c24) }

type c24Cfg struct {
	files, threads, cap, ops int
	pool                     bool
	churn                    bool // eviction churn: only acquire / release over few files at capacity 1, eviction windows always held open
}

func c24One(id int, cfg c24Cfg, seed int64) (*c24Run, error) {
	rnd := rand.New(rand.NewSource(seed))
	run := &c24Run{ID: id, Cap: cfg.cap, Pool: cfg.pool, Seed: seed}
	var mu sync.Mutex // protects the observation state (timer callbacks run outside the scheduler)
	var pool *fdpool.Pool
	if cfg.pool {
		pool = fdpool.New(cfg.cap)
	}
	grace := 300 * time.Microsecond
	names := map[*verifbridge.SharedFile]string{}
	var sfs []*verifbridge.SharedFile
	var fds []*fakeFD
	latest := map[string]*fakeFD{}
	for i := 0; i < cfg.files; i++ {
		name := fmt.Sprintf("f%d", i+1)
		run.Files = append(run.Files, name)
		sf := verifbridge.NewSharedFile(func() (verifbridge.ReadAtCloser, error) {
			fd := &fakeFD{id: len(fds) + 1, file: name}
			fds = append(fds, fd)
			latest[name] = fd
			return fd, nil
		}, grace, pool)
		names[sf] = name
		sfs = append(sfs, sf)
	}
	s := gate.New()
	// observation state
	lastRefs := map[string]int{}
	sfClosed := map[string]bool{}
	held := map[int]map[string][]*fakeFD{} // pid -> file -> stack
	inflight := 0
	evicting := map[int]string{}
	var lru []string
	record := func(ev c24Ev) {
		for pid := 1; pid <= cfg.threads; pid++ {
			for _, f := range run.Files {
				// a timer callback runs in real time, outside the scheduler: while it emits, a scheduled
				// goroutine may be in the middle of a critical section of ANOTHER file (descriptor already
				// closed by Close(), its own event not emitted yet), so only the timer's own file is
				// observed at a TimerFire event (its fields are read under that file's mutex)
				if ev.T == "timer" && f != ev.F {
					continue
				}
				for _, fd := range held[pid][f] {
					ev.Held = append(ev.Held, c24Held{F: f, SfClosed: sfClosed[f], FdClosed: fd.closed.Load()})
				}
			}
		}
		if ev.Held == nil {
			ev.Held = []c24Held{}
		}
		for _, fd := range fds {
			if !fd.closed.Load() {
				ev.OpenFds++
			}
		}
		for _, f := range run.Files {
			if lastRefs[f] > 0 {
				ev.Pinned++
			}
		}
		ev.Inflight = inflight
		ev.Lru = append([]string{}, lru...)
		run.Ev = append(run.Ev, ev)
	}
	emit := func(obj any, ev string, fields []int64) {
		mu.Lock()
		defer mu.Unlock()
		tname := fmt.Sprintf("t%d", s.Current())
		if ev == "TimerFire" {
			tname = "timer"
		}
		if sf, ok := obj.(*verifbridge.SharedFile); ok {
			f := names[sf]
			e := c24Ev{Ev: ev, T: tname, F: f, Refs: int(fields[0]), Open: fields[1] == 1, Closed: fields[2] == 1, Imm: fields[3] == 1}
			lastRefs[f] = e.Refs
			if e.Closed {
				sfClosed[f] = true
			}
			switch ev {
			case "Acquire":
				// the handle about to be returned is the currently open descriptor of f
				pid := s.Current()
				if held[pid] == nil {
					held[pid] = map[string][]*fakeFD{}
				}
				held[pid][f] = append(held[pid][f], latest[f])
			case "ReleaseNow":
				if evicting[s.Current()] == f {
					delete(evicting, s.Current())
					inflight--
				}
			}
			record(e)
			return
		}
		if _, about, order, ok := verifbridge.PoolEvent(obj); ok {
			f := names[about.(*verifbridge.SharedFile)]
			lru = lru[:0]
			for _, m := range order {
				lru = append(lru, names[m.(*verifbridge.SharedFile)])
			}
			if ev == "Evict" {
				inflight++
				evicting[s.Current()] = f
			}
			record(c24Ev{Ev: ev, T: tname, F: f, Refs: lastRefs[f]})
		}
	}
	yield := func(obj any, point string) {
		pid := s.Current()
		s.Park(pid, point)
	}
	verifbridge.InstallHooks(emit, yield)
	defer verifbridge.InstallHooks(nil, nil)
	for pid := 1; pid <= cfg.threads; pid++ {
		pid := pid
		run.Threads = append(run.Threads, fmt.Sprintf("t%d", pid))
		prnd := rand.New(rand.NewSource(rnd.Int63()))
		s.Go(pid, func() {
			for k := 0; k < cfg.ops; k++ {
				fi := prnd.Intn(cfg.files)
				f := run.Files[fi]
				sf := sfs[fi]
				x := prnd.Intn(100)
				if cfg.churn {
					// acquire (0..44) or release (45..84) only
					x = prnd.Intn(85)
				}
				switch {
				case x < 45:
					s.Call(pid, "acquire", f, func() string {
						_, err := sf.Acquire()
						if err != nil {
							return "closed"
						}
						return "ok"
					})
				case x < 85:
					// release a held handle of any file, if there is one
					var cand []int
					mu.Lock()
					for i, g := range run.Files {
						if len(held[pid][g]) > 0 {
							cand = append(cand, i)
						}
					}
					mu.Unlock()
					if len(cand) == 0 {
						continue
					}
					gi := cand[prnd.Intn(len(cand))]
					g := run.Files[gi]
					s.Call(pid, "release", g, func() string {
						mu.Lock()
						st := held[pid][g]
						held[pid][g] = st[:len(st)-1]
						mu.Unlock()
						sfs[gi].Release()
						return "ok"
					})
				case x < 93:
					s.Call(pid, "releasenow", f, func() string {
						sf.ReleaseNow()
						return "ok"
					})
				default:
					s.Call(pid, "close", f, func() string {
						sf.Close()
						return "ok"
					})
				}
				if !cfg.pool && prnd.Intn(3) == 0 {
					time.Sleep(time.Duration(prnd.Intn(500)) * time.Microsecond)
				}
			}
			// release everything still held
			for gi, g := range run.Files {
				for {
					mu.Lock()
					n := len(held[pid][g])
					mu.Unlock()
					if n == 0 {
						break
					}
					s.Call(pid, "release", g, func() string {
						mu.Lock()
						st := held[pid][g]
						held[pid][g] = st[:len(st)-1]
						mu.Unlock()
						sfs[gi].Release()
						return "ok"
					})
				}
			}
		})
	}
	s.Arm()
	// keep the unlocked eviction window (victim unlinked, ReleaseNow pending) open for a while in half of
	// the runs, so that the other goroutines acquire / release / touch inside it
	if seed%2 == 0 || cfg.churn {
		s.WindowKinds = map[string]bool{"yield:evict-before-releasenow": true, "yield:evict-after-releasenow": true}
		s.WindowDelay = 16
	}
	if err := s.Run(nil, rand.New(rand.NewSource(rnd.Int63()))); err != nil {
		return nil, err
	}
	if !cfg.pool {
		// idle handles are eventually closed: wait well beyond the grace period - and, because the timers
		// run in real time, keep polling (up to 5 s) while a descriptor is still open, so that a loaded
		// machine delays the observation instead of deciding the verdict
		time.Sleep(40 * grace)
		for waited := time.Duration(0); waited < 5*time.Second; waited += 5 * time.Millisecond {
			open := 0
			mu.Lock()
			for _, fd := range fds {
				if !fd.closed.Load() {
					open++
				}
			}
			mu.Unlock()
			if open == 0 {
				break
			}
			time.Sleep(5 * time.Millisecond)
		}
		mu.Lock()
		record(c24Ev{Ev: "Quiesce", T: "t1", F: run.Files[0]})
		mu.Unlock()
	}
	mu.Lock()
	defer mu.Unlock()
	return run, nil
}

// c24 out.ndjson
func c24(args []string) error {
	if len(args) < 1 {
		return fmt.Errorf("usage: c24 out.ndjson")
	}
	out, err := os.Create(args[0])
	if err != nil {
		return err
	}
	defer out.Close()
	enc := json.NewEncoder(out)
	r := rep.New()
	rnd := rand.New(rand.NewSource(rep.Seed()))
	n := 40
	if rep.Thorough() {
		n = 600
	}
	cfgs := []c24Cfg{
		{files: 3, threads: 2, cap: 1, ops: 6, pool: true},
		{files: 3, threads: 3, cap: 2, ops: 6, pool: true},
		{files: 3, threads: 3, cap: 1, ops: 8, pool: true},
		{files: 2, threads: 2, cap: 0, ops: 6, pool: false},
		{files: 2, threads: 2, cap: 1, ops: 8, pool: true, churn: true},
		{files: 3, threads: 3, cap: 1, ops: 8, pool: true, churn: true},
	}
	id := 0
	distinct := map[string]bool{}
	for ci, cfg := range cfgs {
		nk := n
		if cfg.churn {
			nk = 3 * n
		}
		for k := 0; k < nk; k++ {
			id++
			run, err := c24One(id, cfg, rnd.Int63())
			if err != nil {
				return fmt.Errorf("config %d run %d: %v", ci, k, err)
			}
			enc.Encode(run)
			r.Eval(1)
			b, _ := json.Marshal(run.Ev)
			distinct[string(b)] = true
			if k == 0 {
				r.Sample(map[string]any{"cfg": fmt.Sprintf("%+v", cfg), "events": len(run.Ev), "first": run.Ev[:min(6, len(run.Ev))]})
			}
		}
	}
	r.Distinct = len(distinct)
	r.Traces = id
	return r.Emit()
}
