package main

import (
	"bytes"
	"encoding/json"
	"errors"
	"fmt"
	"io"
	"sort"
	"strings"

	"verifharness/internal/rep"

	"github.com/go-git/go-billy/v6"
	"github.com/go-git/go-git/v6/config"
	"github.com/go-git/go-git/v6/plumbing"
	"github.com/go-git/go-git/v6/plumbing/filemode"
	"github.com/go-git/go-git/v6/plumbing/format/index"
	"github.com/go-git/go-git/v6/plumbing/format/packfile"
	"github.com/go-git/go-git/v6/plumbing/storer"
	"github.com/go-git/go-git/v6/storage/memory"
	"github.com/go-git/go-git/v6/storage"
)

// Replay of StorerModel histories (spec/abstract/StorerModel.tla) on real storage.Storer values.

type smState struct {
	Refs    map[string]string `json:"refs"`
	Objs    []string          `json:"objs"`
	Idx     string            `json:"idx"`
	Shallow []string          `json:"shallow"`
	Cfg     string            `json:"cfg"`
}

type smStep struct {
	Op  string          `json:"op"`
	A   json.RawMessage `json:"a"`
	B   string          `json:"b"`
	C   string          `json:"c"`
	Res string          `json:"res"`
	St  smState         `json:"st"`
}

type smHist struct {
	Init  smState  `json:"init"`
	Steps []smStep `json:"steps"`
}

func (s smStep) aStr() string {
	var x string
	json.Unmarshal(s.A, &x)
	return x
}

func (s smStep) aSet() []string {
	var x []string
	json.Unmarshal(s.A, &x)
	return x
}

// ---- interpretation of the symbols

type smWorld struct {
	hash   map[string]plumbing.Hash
	sym    map[plumbing.Hash]string
	objSym map[plumbing.Hash]string
	objs   map[string]plumbing.EncodedObject
	names  []string
}

func memObj(t plumbing.ObjectType, content []byte) plumbing.EncodedObject {
	o := &plumbing.MemoryObject{}
	o.SetType(t)
	o.Write(content)
	return o
}

func newSMWorld(names []string) *smWorld {
	w := &smWorld{hash: map[string]plumbing.Hash{}, sym: map[plumbing.Hash]string{}, objSym: map[plumbing.Hash]string{}, objs: map[string]plumbing.EncodedObject{}, names: names}
	for i, s := range []string{"h1", "h2", "h3"} {
		h := plumbing.NewHash(strings.Repeat(fmt.Sprint(i+1), 40))
		w.hash[s] = h
		w.sym[h] = s
	}
	blobA := memObj(plumbing.BlobObject, []byte("A"))
	blobB := memObj(plumbing.BlobObject, []byte("B\n"))
	tree := memObj(plumbing.TreeObject, append([]byte("100644 a\x00"), blobA.Hash().Bytes()...))
	commit := memObj(plumbing.CommitObject, []byte("tree "+tree.Hash().String()+"\nauthor A <a@x> 1000000000 +0000\ncommitter A <a@x> 1000000000 +0000\n\nmsg\n"))
	tag := memObj(plumbing.TagObject, []byte("object "+commit.Hash().String()+"\ntype commit\ntag g\ntagger A <a@x> 1000000000 +0000\n\nmsg\n"))
	for n, o := range map[string]plumbing.EncodedObject{"blobA": blobA, "blobB": blobB, "treeT": tree, "commitC": commit, "tagG": tag} {
		w.objs[n] = o
		w.objSym[o.Hash()] = n
	}
	return w
}

func (w *smWorld) ref(n, v string) *plumbing.Reference {
	if strings.HasPrefix(v, "sym:") {
		return plumbing.NewSymbolicReference(plumbing.ReferenceName(n), plumbing.ReferenceName(v[4:]))
	}
	return plumbing.NewHashReference(plumbing.ReferenceName(n), w.hash[v])
}

func (w *smWorld) index(sym string) *index.Index {
	idx := &index.Index{Version: 2}
	add := func(name, obj string) {
		idx.Entries = append(idx.Entries, &index.Entry{Name: name, Hash: w.objs[obj].Hash(), Mode: filemode.Regular, Size: uint32(w.objs[obj].Size())})
	}
	switch sym {
	case "i1":
		add("a", "blobA")
	case "i2":
		add("a", "blobB")
		add("b", "blobA")
	}
	return idx
}

func (w *smWorld) idxSym(idx *index.Index) string {
	var parts []string
	for _, e := range idx.Entries {
		parts = append(parts, e.Name+"="+w.objSym[e.Hash])
	}
	switch strings.Join(parts, ",") {
	case "":
		return "none"
	case "a=blobA":
		return "i1"
	case "a=blobB,b=blobA":
		return "i2"
	}
	return "unknown:" + strings.Join(parts, ",")
}

func (w *smWorld) cfg(base *config.Config, sym string) *config.Config {
	c := base
	if c == nil {
		c = config.NewConfig()
	}
	switch sym {
	case "c1":
		c.Remotes["origin"] = &config.RemoteConfig{Name: "origin", URLs: []string{"https://example.com/u1"}}
	case "c2":
		c.Remotes["origin"] = &config.RemoteConfig{Name: "origin", URLs: []string{"https://example.com/u2"}}
	}
	return c
}

func cfgSym(c *config.Config) string {
	r, ok := c.Remotes["origin"]
	if !ok || len(r.URLs) == 0 {
		return "c0"
	}
	switch r.URLs[0] {
	case "https://example.com/u1":
		return "c1"
	case "https://example.com/u2":
		return "c2"
	}
	return "unknown:" + r.URLs[0]
}

// apply performs one model operation on a real storer; returns the error kind.
func (w *smWorld) apply(s storage.Storer, st smStep) string {
	switch st.Op {
	case "set":
		return errKind(s.SetReference(w.ref(st.aStr(), st.B)))
	case "cas":
		return errKind(s.CheckAndSetReference(w.ref(st.aStr(), st.B), w.ref(st.aStr(), st.C)))
	case "remove":
		return errKind(s.RemoveReference(plumbing.ReferenceName(st.aStr())))
	case "pack":
		if p, ok := s.(interface{ PackRefs() error }); ok {
			return errKind(p.PackRefs())
		}
		return "ok"
	case "setobj":
		src := w.objs[st.aStr()]
		o := s.NewEncodedObject()
		o.SetType(src.Type())
		o.SetSize(src.Size())
		wr, err := o.Writer()
		if err != nil {
			return errKind(err)
		}
		rd, _ := src.Reader()
		io.Copy(wr, rd)
		rd.Close()
		wr.Close()
		h, err := s.SetEncodedObject(o)
		if err == nil && h != src.Hash() {
			return "error:wrong-hash"
		}
		return errKind(err)
	case "addpack":
		// the objects arrive together as one pack; backends without a PackfileWriter take them one by one
		names := st.aSet()
		pw, ok := s.(storer.PackfileWriter)
		if !ok {
			for _, n := range names {
				a, _ := json.Marshal(n)
				if k := w.apply(s, smStep{Op: "setobj", A: a}); k != "ok" {
					return k
				}
			}
			return "ok"
		}
		ms := memory.NewStorage()
		var hs []plumbing.Hash
		for _, n := range names {
			if _, err := ms.SetEncodedObject(w.objs[n]); err != nil {
				return errKind(err)
			}
			hs = append(hs, w.objs[n].Hash())
		}
		var buf bytes.Buffer
		if _, err := packfile.NewEncoder(&buf, ms, false).Encode(hs, 0); err != nil {
			return errKind(err)
		}
		wr, err := pw.PackfileWriter()
		if err != nil {
			return errKind(err)
		}
		if _, err := wr.Write(buf.Bytes()); err != nil {
			wr.Close()
			return errKind(err)
		}
		return errKind(wr.Close())
	case "setindex":
		return errKind(s.SetIndex(w.index(st.aStr())))
	case "setshallow":
		var hs []plumbing.Hash
		for _, x := range st.aSet() {
			hs = append(hs, w.hash[x])
		}
		return errKind(s.SetShallow(hs))
	case "setconfig":
		c, err := s.Config()
		if err != nil {
			return errKind(err)
		}
		// work on a private copy: some backends hand out their internal *Config
		if b, err := c.Marshal(); err == nil {
			cc := config.NewConfig()
			if cc.Unmarshal(b) == nil {
				c = cc
			}
		}
		return errKind(s.SetConfig(w.cfg(c, st.aStr())))
	}
	return "error:unknown-op"
}

// applyState brings an (empty) storer to the given model state.
func (w *smWorld) applyState(s storage.Storer, st smState) error {
	for n, v := range st.Refs {
		if v != "none" {
			if err := s.SetReference(w.ref(n, v)); err != nil {
				return err
			}
		}
	}
	for _, o := range st.Objs {
		a, _ := json.Marshal(o)
		if k := w.apply(s, smStep{Op: "setobj", A: a}); k != "ok" {
			return errors.New("setobj " + k)
		}
	}
	if st.Idx != "none" {
		if err := s.SetIndex(w.index(st.Idx)); err != nil {
			return err
		}
	}
	if len(st.Shallow) > 0 {
		var hs []plumbing.Hash
		for _, x := range st.Shallow {
			hs = append(hs, w.hash[x])
		}
		if err := s.SetShallow(hs); err != nil {
			return err
		}
	}
	if st.Cfg != "c0" {
		c, err := s.Config()
		if err != nil {
			return err
		}
		return s.SetConfig(w.cfg(c, st.Cfg))
	}
	return nil
}

var smTypes = []plumbing.ObjectType{plumbing.CommitObject, plumbing.TreeObject, plumbing.BlobObject, plumbing.TagObject}

// compare observes the storer completely and returns "" or (component, detail) of the first mismatch.
func (w *smWorld) compare(s storage.Storer, want smState) (string, string) {
	// references: Get + List
	for _, n := range w.names {
		r, err := s.Reference(plumbing.ReferenceName(n))
		got := "none"
		if err == nil {
			got = w.refVal(r)
		} else if k := errKind(err); k != "notfound" {
			return "ref-get-error", k
		}
		if got != want.Refs[n] {
			return "ref-get", fmt.Sprintf("want=%s,got=%s", kindOf(want.Refs[n]), kindOf(got))
		}
	}
	it, err := s.IterReferences()
	if err != nil {
		return "ref-list-error", normErr(err)
	}
	list := map[string]string{}
	dup := false
	err = it.ForEach(func(r *plumbing.Reference) error {
		if _, ok := list[r.Name().String()]; ok {
			dup = true
		}
		list[r.Name().String()] = w.refVal(r)
		return nil
	})
	if err != nil {
		return "ref-list-error", normErr(err)
	}
	if dup {
		return "ref-list", "duplicate-name"
	}
	for _, n := range w.names {
		got, ok := list[n]
		if !ok {
			got = "none"
		}
		if got != want.Refs[n] {
			return "ref-list", fmt.Sprintf("want=%s,got=%s", kindOf(want.Refs[n]), kindOf(got))
		}
	}
	for n := range list {
		if _, ok := want.Refs[n]; !ok {
			return "ref-list", "unexpected-name"
		}
	}
	// objects
	wantObj := map[string]bool{}
	for _, o := range want.Objs {
		wantObj[o] = true
	}
	for name, o := range w.objs {
		h := o.Hash()
		herr := s.HasEncodedObject(h)
		if (herr == nil) != wantObj[name] {
			return "obj-has", fmt.Sprintf("want=%v,got=%v", wantObj[name], herr == nil)
		}
		got, gerr := s.EncodedObject(plumbing.AnyObject, h)
		if wantObj[name] {
			if gerr != nil {
				return "obj-get", "present-but-error:" + normErr(gerr)
			}
			if got.Type() != o.Type() || got.Size() != o.Size() || got.Hash() != h {
				return "obj-get", "wrong-type-size-or-hash"
			}
			rd, err := got.Reader()
			if err != nil {
				return "obj-get", "reader-error"
			}
			b, _ := io.ReadAll(rd)
			rd.Close()
			ord, _ := o.Reader()
			ob, _ := io.ReadAll(ord)
			if string(b) != string(ob) {
				return "obj-get", "wrong-content"
			}
			if sz, err := s.EncodedObjectSize(h); err != nil || sz != o.Size() {
				return "obj-size", "wrong-or-error"
			}
			if _, err := s.EncodedObject(o.Type(), h); err != nil {
				return "obj-get-typed", "error:" + normErr(err)
			}
			wrong := plumbing.BlobObject
			if o.Type() == plumbing.BlobObject {
				wrong = plumbing.TreeObject
			}
			if _, err := s.EncodedObject(wrong, h); !errors.Is(err, plumbing.ErrObjectNotFound) {
				return "obj-get-wrongtype", "not-ErrObjectNotFound"
			}
		} else {
			if !errors.Is(gerr, plumbing.ErrObjectNotFound) {
				return "obj-get", "absent-but-not-ErrObjectNotFound"
			}
			if _, err := s.EncodedObjectSize(h); !errors.Is(err, plumbing.ErrObjectNotFound) {
				return "obj-size", "absent-but-not-ErrObjectNotFound"
			}
		}
	}
	for _, t := range smTypes {
		oi, err := s.IterEncodedObjects(t)
		if err != nil {
			return "obj-iter-error", normErr(err)
		}
		seen := map[string]int{}
		err = oi.ForEach(func(o plumbing.EncodedObject) error {
			n, ok := w.objSym[o.Hash()]
			if !ok {
				n = "unknown"
			}
			if o.Type() != t {
				n = "wrongtype:" + n
			}
			seen[n]++
			return nil
		})
		if err != nil {
			return "obj-iter-error", normErr(err)
		}
		for n, c := range seen {
			if c > 1 {
				return "obj-iter", "duplicate"
			}
			if !wantObj[n] || w.objs[n] == nil || w.objs[n].Type() != t {
				return "obj-iter", "unexpected:" + strings.SplitN(n, ":", 2)[0]
			}
		}
		for n := range wantObj {
			if w.objs[n].Type() == t && seen[n] == 0 {
				return "obj-iter", "missing"
			}
		}
	}
	// index
	idx, err := s.Index()
	if err != nil {
		return "index-error", normErr(err)
	}
	if g := w.idxSym(idx); g != want.Idx {
		return "index", fmt.Sprintf("want=%s,got=%s", want.Idx, strings.SplitN(g, ":", 2)[0])
	}
	// shallow
	sh, err := s.Shallow()
	if err != nil {
		return "shallow-error", normErr(err)
	}
	var got []string
	for _, h := range sh {
		if x, ok := w.sym[h]; ok {
			got = append(got, x)
		} else {
			got = append(got, "unknown")
		}
	}
	sort.Strings(got)
	ws := append([]string{}, want.Shallow...)
	sort.Strings(ws)
	if strings.Join(got, ",") != strings.Join(ws, ",") {
		return "shallow", fmt.Sprintf("want=%d,got=%d", len(ws), len(got))
	}
	// config
	c, err := s.Config()
	if err != nil {
		return "config-error", normErr(err)
	}
	if g := cfgSym(c); g != want.Cfg {
		return "config", fmt.Sprintf("want=%s,got=%s", want.Cfg, strings.SplitN(g, ":", 2)[0])
	}
	return "", ""
}

func (w *smWorld) refVal(r *plumbing.Reference) string {
	if r.Type() == plumbing.SymbolicReference {
		return "sym:" + r.Target().String()
	}
	if s, ok := w.sym[r.Hash()]; ok {
		return s
	}
	return "hash:" + r.Hash().String()
}

func loadSMHists(path string) ([]*smHist, []string, error) {
	var hs []*smHist
	err := rep.ReadNDJSON(path, func(b []byte) error {
		var h smHist
		if err := json.Unmarshal(b, &h); err != nil {
			return err
		}
		hs = append(hs, &h)
		return nil
	})
	if err != nil || len(hs) == 0 {
		return nil, nil, fmt.Errorf("no histories: %v", err)
	}
	var names []string
	for n := range hs[0].Init.Refs {
		names = append(names, n)
	}
	sort.Strings(names)
	return hs, names, nil
}

type smBackend struct {
	name string
	// mk returns a storer in the given initial state, a function that reopens the
	// persistent state in a fresh storer (nil for memory), and a cleanup.
	mk func(w *smWorld, init smState) (storage.Storer, func() storage.Storer, func(), error)
}

var _ billy.Filesystem
