package main

import (
	"encoding/json"
	"fmt"
	"os"
	"path/filepath"
	"sort"
	"strings"

	"verifharness/internal/gitcli"
	"verifharness/internal/rep"

	"github.com/go-git/go-billy/v6/osfs"
	git "github.com/go-git/go-git/v6"
	"github.com/go-git/go-git/v6/plumbing"
	xworktree "github.com/go-git/go-git/v6/x/plumbing/worktree"
)

// C33: LinkedWorktrees histories replayed on a real main repository with linked worktrees.

type lwWT struct {
	Exists bool   `json:"exists"`
	Head   string `json:"head"`
	Headc  int    `json:"headc"`
	Idx    string `json:"idx"`
	File   string `json:"file"`
}

type lwState struct {
	Commits []string        `json:"commits"`
	Refs    map[string]int  `json:"refs"`
	Wt      map[string]lwWT `json:"wt"`
}

type lwStep struct {
	Op  string          `json:"op"`
	W   string          `json:"w"`
	A   json.RawMessage `json:"a"`
	Res string          `json:"res"`
	St  lwState         `json:"st"`
}

func init() { register("c33", c33) }

type lwWorld struct {
	base    string
	commits []plumbing.Hash // index k-1 = commit k
	blob    map[plumbing.Hash]string
}

func (w *lwWorld) dir(name string) string { return filepath.Join(w.base, name) }

func (w *lwWorld) open(name string) (*git.Repository, error) {
	if name == "main" {
		return git.PlainOpen(w.dir("main"))
	}
	m, err := git.PlainOpen(w.dir("main"))
	if err != nil {
		return nil, err
	}
	mgr, err := xworktree.New(m.Storer)
	if err != nil {
		return nil, err
	}
	return mgr.Open(osfs.New(w.dir(name)))
}

func (w *lwWorld) commitIdx(h plumbing.Hash) int {
	for i, c := range w.commits {
		if c == h {
			return i + 1
		}
	}
	return -1
}

func (w *lwWorld) observe(names []string) (lwState, string) {
	st := lwState{Refs: map[string]int{}, Wt: map[string]lwWT{}}
	m, err := git.PlainOpen(w.dir("main"))
	if err != nil {
		return st, "open-main:" + err.Error()
	}
	for _, b := range append([]string{"master"}, names[1:]...) {
		r, err := m.Storer.Reference(plumbing.NewBranchReferenceName(b))
		if err != nil {
			st.Refs[b] = 0
		} else {
			st.Refs[b] = w.commitIdx(r.Hash())
		}
	}
	mgr, err := xworktree.New(m.Storer)
	if err != nil {
		return st, "manager:" + err.Error()
	}
	listed, err := mgr.List()
	if err != nil {
		return st, "list:" + err.Error()
	}
	isListed := map[string]bool{"main": true}
	for _, n := range listed {
		isListed[n] = true
	}
	for _, n := range names {
		if !isListed[n] {
			st.Wt[n] = lwWT{Head: "none", Idx: "none", File: "none"}
			continue
		}
		r, err := w.open(n)
		if err != nil {
			return st, "open-" + n + ":" + normErr(err)
		}
		o := lwWT{Exists: true, Idx: "none", File: "none"}
		hr, err := r.Storer.Reference(plumbing.HEAD)
		if err != nil {
			return st, "head-" + n + ":" + normErr(err)
		}
		if hr.Type() == plumbing.SymbolicReference {
			o.Head = hr.Target().Short()
			if t, err := r.Storer.Reference(hr.Target()); err == nil {
				o.Headc = w.commitIdx(t.Hash())
			}
		} else {
			o.Head = "detached"
			o.Headc = w.commitIdx(hr.Hash())
		}
		idx, err := r.Storer.Index()
		if err != nil {
			return st, "index-" + n + ":" + normErr(err)
		}
		for _, e := range idx.Entries {
			if e.Name == "f" {
				if v, ok := w.blob[e.Hash]; ok {
					o.Idx = v
				} else {
					o.Idx = "unknown"
				}
			}
		}
		if b, err := os.ReadFile(filepath.Join(w.dir(n), "f")); err == nil {
			o.File = strings.TrimSpace(string(b))
		}
		st.Wt[n] = o
	}
	return st, ""
}

func c33(args []string) error {
	if len(args) < 1 {
		return fmt.Errorf("usage: c33 hist.ndjson")
	}
	var hists [][]lwStep
	err := rep.ReadNDJSON(args[0], func(b []byte) error {
		var h []lwStep
		if err := json.Unmarshal(b, &h); err != nil {
			return err
		}
		hists = append(hists, h)
		return nil
	})
	if err != nil || len(hists) == 0 {
		return fmt.Errorf("no histories: %v", err)
	}
	var names []string
	for n := range hists[0][0].St.Wt {
		if n != "main" {
			names = append(names, n)
		}
	}
	sort.Strings(names)
	names = append([]string{"main"}, names...)
	r := rep.New()
	gitBudget := 40
	if rep.Thorough() {
		gitBudget = 400
	}
	gitEvery := len(hists)/gitBudget + 1
	staleGit, staleGitBudget := 0, gitBudget
	for hi, h := range hists {
		r.Eval(1)
		w := &lwWorld{base: gitcli.TempDir("c33"), blob: map[plumbing.Hash]string{}}
		fail := func(i int, sig, what string) {
			r.Diverge(sig, what, map[string]any{"steps": h[:i+1]})
		}
		main, err := git.PlainInit(w.dir("main"), false)
		if err != nil {
			return err
		}
		for _, v := range []string{"v0", "v1", "v2"} {
			w.blob[memObj(plumbing.BlobObject, []byte(v+"\n")).Hash()] = v
		}
		os.WriteFile(filepath.Join(w.dir("main"), "f"), []byte("v0\n"), 0o644)
		mw, _ := main.Worktree()
		if _, err := mw.Add("f"); err != nil {
			return err
		}
		c1, err := mw.Commit("c1\n", &git.CommitOptions{Author: repoSig, Committer: repoSig})
		if err != nil {
			return err
		}
		w.commits = []plumbing.Hash{c1}
		ok := true
		for i := 0; ok && i < len(h); i++ {
			s := h[i]
			var opErr error
			switch s.Op {
			case "edit":
				var v string
				json.Unmarshal(s.A, &v)
				opErr = os.WriteFile(filepath.Join(w.dir(s.W), "f"), []byte(v+"\n"), 0o644)
			case "stage", "commit", "reset-hard":
				repo, err := w.open(s.W)
				if err != nil {
					opErr = err
					break
				}
				wt, err := repo.Worktree()
				if err != nil {
					opErr = err
					break
				}
				switch s.Op {
				case "stage":
					_, opErr = wt.Add("f")
				case "commit":
					var hh plumbing.Hash
					hh, opErr = wt.Commit(fmt.Sprintf("c%d\n", len(w.commits)+1), &git.CommitOptions{Author: repoSig, Committer: repoSig})
					if opErr == nil {
						w.commits = append(w.commits, hh)
					}
				case "reset-hard":
					var c int
					json.Unmarshal(s.A, &c)
					opErr = wt.Reset(&git.ResetOptions{Commit: w.commits[c-1], Mode: git.HardReset})
				}
			case "use-stale":
				// The directory of a removed worktree: opening it must not give a repository whose
				// operations land in another worktree.  If it opens, work in it and let the state
				// comparison below decide (the model says nothing changes).
				if staleGit < staleGitBudget && gitcli.Available() {
					staleGit++
					if _, _, gerr := gitcli.Run(w.dir(s.W), nil, "rev-parse", "--git-dir"); gerr == nil {
						r.SpecError(map[string]any{"what": "git still treats the directory of a removed worktree as a repository", "steps": h[:i+1]})
					}
				}
				if repo, err := w.open(s.W); err == nil {
					r.Extra["stale_open_accepted"] = 1
					if wt, err := repo.Worktree(); err == nil {
						os.WriteFile(filepath.Join(w.dir(s.W), "f"), []byte("v2\n"), 0o644)
						if _, err := wt.Add("f"); err == nil {
							wt.Commit("stale\n", &git.CommitOptions{Author: repoSig, Committer: repoSig})
						}
					}
				}
			case "wt-add-dup":
				// a second add under a name in use, into another directory: must be refused, and the
				// state comparison below checks that the existing worktree is left alone
				m, err := git.PlainOpen(w.dir("main"))
				if err != nil {
					opErr = err
					break
				}
				mgr, err := xworktree.New(m.Storer)
				if err != nil {
					opErr = err
					break
				}
				dup := w.dir(s.W + "-dup")
				os.RemoveAll(dup)
				if err := mgr.Add(osfs.New(dup), s.W); err == nil {
					fail(i, "wt-add-dup|accepted", "a second worktree add under the name "+s.W+" (in use) was accepted")
					ok = false
				}
				os.RemoveAll(dup)
			case "wt-add", "wt-add-detached", "wt-remove":
				m, err := git.PlainOpen(w.dir("main"))
				if err != nil {
					opErr = err
					break
				}
				mgr, err := xworktree.New(m.Storer)
				if err != nil {
					opErr = err
					break
				}
				switch s.Op {
				case "wt-add":
					os.RemoveAll(w.dir(s.W))
					opErr = mgr.Add(osfs.New(w.dir(s.W)), s.W)
				case "wt-add-detached":
					os.RemoveAll(w.dir(s.W))
					opErr = mgr.Add(osfs.New(w.dir(s.W)), s.W, xworktree.WithDetachedHead())
				case "wt-remove":
					opErr = mgr.Remove(s.W)
				}
			}
			if opErr != nil {
				fail(i, s.Op+"|error|"+errClass(opErr), fmt.Sprintf("%s in worktree %s failed: %v", s.Op, s.W, normErr(opErr)))
				ok = false
				break
			}
			got, oerr := w.observe(names)
			if oerr != "" {
				fail(i, s.Op+"|unreadable-after|"+strings.SplitN(oerr, ":", 2)[0], "repository / worktree unreadable after "+s.Op+": "+oerr)
				ok = false
				break
			}
			for _, b := range append([]string{"master"}, names[1:]...) {
				if got.Refs[b] != s.St.Refs[b] {
					fail(i, s.Op+"|shared-branch|"+roleOf(b, s.W), fmt.Sprintf("after %s in %s branch %s is at commit %d, the model says %d", s.Op, s.W, b, got.Refs[b], s.St.Refs[b]))
					ok = false
					break
				}
			}
			for _, n := range names {
				if !ok {
					break
				}
				g, want := got.Wt[n], s.St.Wt[n]
				if g != want {
					field := "exists"
					switch {
					case g.Exists != want.Exists:
					case g.Head != want.Head || g.Headc != want.Headc:
						field = "HEAD"
					case g.Idx != want.Idx:
						field = "index"
					default:
						field = "files"
					}
					fail(i, s.Op+"|"+field+"|"+roleOf(n, s.W), fmt.Sprintf("after %s in %s worktree %s has %+v, the model says %+v", s.Op, s.W, n, g, want))
					ok = false
				}
			}
		}
		if ok && hi%gitEvery == 0 && gitcli.Available() {
			last := h[len(h)-1].St
			out, e, err := gitcli.Run(w.dir("main"), nil, "worktree", "list", "--porcelain")
			if err != nil {
				fail(len(h)-1, "git-worktree-list|error", "git worktree list fails: "+e)
			} else {
				listed := map[string]string{}
				var cur string
				for _, ln := range strings.Split(out, "\n") {
					if strings.HasPrefix(ln, "worktree ") {
						cur = filepath.Base(strings.TrimPrefix(ln, "worktree "))
					} else if strings.HasPrefix(ln, "HEAD ") {
						listed[cur] = strings.TrimPrefix(ln, "HEAD ")
					}
				}
				for _, n := range names {
					want := last.Wt[n]
					hc, has := listed[n]
					if want.Exists != has {
						fail(len(h)-1, "git-worktree-list|presence|"+roleOf(n, ""), fmt.Sprintf("git lists worktree %s: %v, the model says exists=%v", n, has, want.Exists))
						break
					}
					if has && w.commitIdx(plumbing.NewHash(hc)) != want.Headc {
						fail(len(h)-1, "git-worktree-list|HEAD|"+roleOf(n, ""), "git sees a different HEAD commit for worktree "+n)
						break
					}
				}
				r.Traces++
			}
		}
		os.RemoveAll(w.base)
		if hi%200 == 0 {
			r.Sample(h)
		}
	}
	r.Distinct = len(hists)
	return r.Emit()
}

// roleOf: is the observed worktree / branch the one the operation ran in, or another one?
func roleOf(n, actor string) string {
	if actor == "" {
		if n == "main" {
			return "main"
		}
		return "linked"
	}
	if n == actor {
		return "own"
	}
	return "other"
}
