package main

import (
	"fmt"
	"os"

	"verifharness/internal/rep"

	"github.com/go-git/go-git/v6/plumbing"
	"github.com/go-git/go-git/v6/plumbing/object"
)

// probe: hand reproduction helper.  `vhcodec probe commit|tag <file>` decodes the file's bytes
// with go-git and prints the decoded fields, the re-encoding and the verification payload.
func init() { rep.Register("probe", probe) }

func probe(args []string) error {
	if len(args) != 2 {
		return fmt.Errorf("usage: probe commit|tag <file>")
	}
	raw, err := os.ReadFile(args[1])
	if err != nil {
		return err
	}
	fmt.Printf("stored        %q\n", raw)
	switch args[0] {
	case "commit":
		c := &object.Commit{}
		if err := c.Decode(memObj(plumbing.CommitObject, raw)); err != nil {
			fmt.Println("Decode error:", err)
			return nil
		}
		fmt.Printf("tree          %s\nparents       %v\n", c.TreeHash, c.ParentHashes)
		fmt.Printf("author        %q <%q> %d %s zero=%v\n", c.Author.Name, c.Author.Email, c.Author.When.Unix(), c.Author.When.Format("-0700"), c.Author.When.IsZero())
		fmt.Printf("committer     %q <%q> %d %s zero=%v\n", c.Committer.Name, c.Committer.Email, c.Committer.When.Unix(), c.Committer.When.Format("-0700"), c.Committer.When.IsZero())
		fmt.Printf("encoding      %q\nextra         %q\nsignature     %q\nsignature256  %q\nmessage       %q\n", c.Encoding, c.ExtraHeaders, c.Signature, c.SignatureSHA256, c.Message)
		o := &plumbing.MemoryObject{}
		err := c.Encode(o)
		fmt.Printf("re-encoded    %q (err=%v) same=%v\n", objBytes(o), err, string(objBytes(o)) == string(raw))
		p := &plumbing.MemoryObject{}
		err = c.EncodeWithoutSignature(p)
		fmt.Printf("payload       %q (err=%v)\n", objBytes(p), err)
	case "tag":
		t := &object.Tag{}
		if err := t.Decode(memObj(plumbing.TagObject, raw)); err != nil {
			fmt.Println("Decode error:", err)
			return nil
		}
		fmt.Printf("object        %s\ntype          %s\ntag           %q\n", t.Target, t.TargetType, t.Name)
		fmt.Printf("tagger        %q <%q> %d %s zero=%v\n", t.Tagger.Name, t.Tagger.Email, t.Tagger.When.Unix(), t.Tagger.When.Format("-0700"), t.Tagger.When.IsZero())
		fmt.Printf("signature256  %q\nmessage       %q\nsignature     %q\n", t.SignatureSHA256, t.Message, t.Signature)
		o := &plumbing.MemoryObject{}
		err := t.Encode(o)
		fmt.Printf("re-encoded    %q (err=%v) same=%v\n", objBytes(o), err, string(objBytes(o)) == string(raw))
		p := &plumbing.MemoryObject{}
		err = t.EncodeWithoutSignature(p)
		fmt.Printf("payload       %q (err=%v)\n", objBytes(p), err)
	default:
		return fmt.Errorf("unknown object kind %q", args[0])
	}
	fmt.Println("{}")
	return nil
}
