package main

import (
	"bytes"
	"encoding/json"
	"fmt"
	"math/rand"
	"os"
	"path/filepath"
	"regexp"
	"sort"
	"strings"
	"time"

	"verifharness/internal/gitcli"
	"verifharness/internal/rep"

	"github.com/go-git/go-billy/v6/osfs"
	"github.com/go-git/go-git/v6/plumbing"
	"github.com/go-git/go-git/v6/plumbing/cache"
	"github.com/go-git/go-git/v6/plumbing/format/reflog"
	"github.com/go-git/go-git/v6/storage/filesystem"
)

// C52: rows of spec/rules/Reflog.tla.
//   enc rows : an entry is appended with go-git (filesystem ReflogStorage.AppendReflog ->
//              reflog.Encode) and listed by `git log -g`; the same entry is written by git itself
//              (`git update-ref -m`, sample) and decoded by go-git (ReflogStorage.Reflog);
//              expectation (normalised message, sanitised identity, listed or not) from TLC.
//   line rows: stored lines are listed by git and decoded by go-git; expectation from TLC.
//   history  : a small porcelain history written by git is decoded by go-git and compared with
//              git's own listing.

type encRow struct {
	M      []string `json:"m"`
	Name   []string `json:"name"`
	Mail   []string `json:"mail"`
	Zone   string   `json:"zone"`
	Ts     string   `json:"ts"`
	Norm   []string `json:"norm"`
	LName  []string `json:"lname"`
	LMail  []string `json:"lmail"`
	Listed bool     `json:"listed"`
	Tab    bool     `json:"tab"`
	Ik     string   `json:"ik"`
	Mk     string   `json:"mk"`
	id     int
}

type lineRow struct {
	ID       []string `json:"id"`
	Ts       string   `json:"ts"`
	Zone     string   `json:"zone"`
	Tail     []string `json:"tail"`
	Listed   bool     `json:"listed"`
	Why      string   `json:"why"`
	LName    []string `json:"lname"`
	LMail    []string `json:"lmail"`
	LMailAt  int      `json:"lmailAt"`
	LMsg     []string `json:"lmsg"`
	Writable bool     `json:"writable"`
	Tk       string   `json:"tk"`
	id       int
}

var rzones = map[string]struct {
	text, shown string
	off         int
}{
	"z0": {"+0000", "+0000", 0}, "zp": {"+0530", "+0530", 19800}, "zm": {"-0330", "-0330", -12600},
	"zmax": {"+1400", "+1400", 50400}, "zmin": {"-1200", "-1200", -43200},
	"zmz": {"-0000", "+0000", 0}, "z3": {"+053", "", 0},
}

func rsym(s string, k int) string {
	switch s {
	case "a":
		return fmt.Sprintf("wd%d", k)
	case "w":
		return fmt.Sprintf("Nm%d", k)
	case "sp":
		return " "
	case "tab":
		return "\t"
	case "lf":
		return "\n"
	case "cr":
		return "\r"
	case "vt":
		return "\v"
	case "lt":
		return "<"
	case "gt":
		return ">"
	}
	panic("unknown reflog symbol " + s)
}

// rtext renders symbols; words are numbered by their ordinal among the non-blank symbols so that
// a normalised or sanitised sequence renders to the corresponding part of the original text.
func rtext(syms []string) string {
	var b strings.Builder
	k := 0
	for _, s := range syms {
		if s == "a" || s == "w" {
			k++
		}
		b.WriteString(rsym(s, k))
	}
	return b.String()
}

const (
	encBase  = 1500000000
	gitBase  = 1520000000
	lineBase = 1600000000
)

type listed struct {
	ts, zone, name, mail, msg, new string
}

var reSelector = regexp.MustCompile(`@\{(\d+) ([+-]\d+)\}$`)

// gitList lists the reflog of ref with `git log -g` (one process).
func gitList(fx *fixture, ref string) ([]listed, error) {
	format := strings.Join([]string{"%gd", "%gn", "%ge", "%gs", "%H"}, "%x1f") + "%x1e"
	out, e, err := gitcli.Run(fx.dir, nil, "log", "-g", "--date=raw", "--format="+format, ref, "--")
	if err != nil {
		return nil, fmt.Errorf("git log -g %s: %v: %s", ref, err, e)
	}
	var res []listed
	for _, rec := range splitRecords(out) {
		if len(rec) != 5 {
			return nil, fmt.Errorf("git log -g: unexpected record %q", rec)
		}
		m := reSelector.FindStringSubmatch(rec[0])
		if m == nil {
			return nil, fmt.Errorf("git log -g: unexpected selector %q", rec[0])
		}
		res = append(res, listed{m[1], m[2], rec[1], rec[2], rec[3], rec[4]})
	}
	return res, nil
}

func entryListed(e *reflog.Entry) listed {
	return listed{fmt.Sprint(e.Committer.When.Unix()), e.Committer.When.Format("-0700"), e.Committer.Name, e.Committer.Email, e.Message, e.NewHash.String()}
}

func init() { rep.Register("c52", c52) }

func c52(args []string) error {
	if len(args) < 2 {
		return fmt.Errorf("usage: c52 reflog_enc_rows.ndjson reflog_line_rows.ndjson")
	}
	r := rep.New()
	rnd := rand.New(rand.NewSource(rep.Seed()))
	fx, err := newFixture("c52")
	if err != nil {
		return err
	}
	var encs []*encRow
	if err := rep.ReadNDJSON(args[0], func(line []byte) error {
		row := &encRow{}
		if err := json.Unmarshal(line, row); err != nil {
			return err
		}
		row.id = len(encs)
		encs = append(encs, row)
		return nil
	}); err != nil {
		return err
	}
	var lines []*lineRow
	if err := rep.ReadNDJSON(args[1], func(line []byte) error {
		row := &lineRow{}
		if err := json.Unmarshal(line, row); err != nil {
			return err
		}
		row.id = len(lines)
		lines = append(lines, row)
		return nil
	}); err != nil {
		return err
	}
	ids := [2]plumbing.Hash{plumbing.NewHash(fx.parent[0]), plumbing.NewHash(fx.parent[1])}
	gitDir := fx.dir
	if fx.haveGit {
		gitDir = filepath.Join(fx.dir, ".git")
	} else {
		gitDir = gitcli.TempDir("c52nogit")
	}
	st := filesystem.NewStorage(osfs.New(gitDir), cache.NewObjectLRUDefault())
	setRef := func(name string, h plumbing.Hash) error {
		p := filepath.Join(gitDir, filepath.FromSlash(name))
		os.MkdirAll(filepath.Dir(p), 0o755)
		return os.WriteFile(p, []byte(h.String()+"\n"), 0o644)
	}
	entryOf := func(row *encRow, base int) (*reflog.Entry, int64) {
		ts := int64(base + row.id)
		if row.Ts == "zero" {
			ts = 0
		}
		z := rzones[row.Zone]
		return &reflog.Entry{OldHash: ids[row.id%2], NewHash: ids[(row.id+1)%2],
			Committer: reflog.Signature{Name: rtext(row.Name), Email: rtext(row.Mail), When: time.Unix(ts, 0).In(time.FixedZone("", z.off))},
			Message:   rtext(row.M)}, ts
	}
	wantOf := func(row *encRow, ts int64) listed {
		return listed{fmt.Sprint(ts), rzones[row.Zone].shown, rtext(row.LName), rtext(row.LMail), rtext(row.Norm), ids[(row.id+1)%2].String()}
	}
	key := func(row *encRow) string {
		if row.Ik != "plain-identity" {
			return row.Ik
		}
		return row.Mk
	}

	// ---- A. go-git appends, git lists; B. go-git reads its own line back
	const refA = plumbing.ReferenceName("refs/heads/gogit")
	for _, row := range encs {
		r.Eval(1)
		e, ts := entryOf(row, encBase)
		if err := st.AppendReflog(refA, e); err != nil {
			r.Diverge("AppendReflog|error|"+key(row), err.Error(), map[string]any{"m": row.M, "name": row.Name})
			continue
		}
		var buf bytes.Buffer
		if err := reflog.Encode(&buf, e); err != nil {
			continue
		}
		want := wantOf(row, ts)
		back, derr := reflog.Decode(bytes.NewReader(buf.Bytes()))
		cs := map[string]any{"m": row.M, "name": row.Name, "mail": row.Mail, "zone": row.Zone, "ts": row.Ts, "line": buf.String()}
		switch {
		case derr != nil || len(back) != 1:
			r.Diverge("Encode+Decode|own-line-unreadable|"+key(row), fmt.Sprintf("reflog.Decode of the line reflog.Encode wrote gives %d entries, err=%v", len(back), derr), cs)
		case entryListed(back[0]) != want || back[0].OldHash != e.OldHash:
			r.Diverge("Encode+Decode|fields-differ|"+key(row), fmt.Sprintf("Decode(Encode(e)) = %+v, the normalised entry is %+v", entryListed(back[0]), want), cs)
		}
		r.Sample(map[string]any{"entry_message": row.M, "normalised": row.Norm, "line": buf.String()})
	}
	if fx.haveGit {
		if err := setRef(string(refA), ids[len(encs)%2]); err != nil {
			return err
		}
		got, err := gitList(fx, string(refA))
		if err != nil {
			return err
		}
		byTs := map[string][]listed{}
		for _, l := range got {
			byTs[l.ts] = append(byTs[l.ts], l)
		}
		used := 0
		for _, row := range encs {
			_, ts := entryOf(row, encBase)
			want := wantOf(row, ts)
			g := byTs[want.ts]
			cs := map[string]any{"m": row.M, "name": row.Name, "mail": row.Mail, "zone": row.Zone, "ts": row.Ts}
			if row.Ts == "zero" {
				continue // git's reader skips timestamp 0 whoever wrote it (spec: listed = FALSE); nothing to compare
			}
			used += len(g)
			switch {
			case len(g) == 0:
				r.Diverge("AppendReflog|entry-not-listed-by-git|"+key(row), fmt.Sprintf("git log -g does not list the entry appended for name %q message %q", rtext(row.Name), rtext(row.M)), cs)
			case len(g) > 1 || g[0] != want:
				cs["git"], cs["spec"] = g, want
				r.Diverge("AppendReflog|git-lists-different-fields|"+key(row), fmt.Sprintf("git lists %+v for an entry that must read %+v", g[0], want), cs)
			}
		}
		zeros := 0
		for _, l := range got {
			if l.ts == "0" {
				zeros++
			}
		}
		if used+zeros != len(got) {
			r.Diverge("AppendReflog|git-lists-unknown-entries|any", fmt.Sprintf("git lists %d entries that belong to no appended entry", len(got)-used-zeros), nil)
		}
		r.Extra["git_listed_gogit_entries"] = len(got)
	}

	// ---- C. git writes (sample), go-git decodes
	if fx.haveGit {
		limit := 250
		if rep.Thorough() {
			limit = 1900
		}
		idx := rnd.Perm(len(encs))
		if len(idx) > limit {
			idx = idx[:limit]
		}
		sort.Ints(idx)
		const refG = "refs/heads/bygit"
		written := map[int]bool{}
		cur := -1
		for _, i := range idx {
			row := encs[i]
			if row.Ts == "zero" {
				continue // GIT_COMMITTER_DATE=@0 is the "unset" value for git's date parser
			}
			nw := (cur + 1) % 2
			env := []string{"GIT_COMMITTER_NAME=" + rtext(row.Name), "GIT_COMMITTER_EMAIL=" + rtext(row.Mail),
				fmt.Sprintf("GIT_COMMITTER_DATE=@%d %s", gitBase+row.id, rzones[row.Zone].text)}
			if _, _, err := gitcli.RunEnv(fx.dir, nil, env, "update-ref", "--create-reflog", "-m", rtext(row.M), refG, ids[nw].String()); err != nil {
				continue // git refuses this identity (e.g. empty after sanitising)
			}
			cur = nw
			written[i] = true
		}
		got, err := gitList(fx, refG)
		if err != nil {
			return err
		}
		gitBy := map[string]listed{}
		for _, l := range got {
			gitBy[l.ts] = l
		}
		gitLines := map[string]string{} // timestamp -> text after the two ids
		if raw, err := os.ReadFile(filepath.Join(gitDir, "logs", filepath.FromSlash(refG))); err == nil {
			for _, l := range strings.Split(string(raw), "\n") {
				if len(l) > 82 {
					if m := regexp.MustCompile(`> (\d+) [+-]\d{4}`).FindStringSubmatch(l); m != nil {
						gitLines[m[1]] = l[82:]
					}
				}
			}
		}
		ents, derr := st.Reflog(plumbing.ReferenceName(refG))
		if derr != nil {
			r.Diverge("Reflog|error|git-written-file", fmt.Sprintf("ReflogStorage.Reflog fails on a reflog written by git update-ref: %v", derr), nil)
		}
		goBy := map[string]listed{}
		for _, e := range ents {
			goBy[fmt.Sprint(e.Committer.When.Unix())] = entryListed(e)
		}
		n := 0
		for i := range written {
			row := encs[i]
			want := listed{fmt.Sprint(gitBase + row.id), rzones[row.Zone].shown, rtext(row.LName), rtext(row.LMail), rtext(row.Norm), ""}
			g, ok := gitBy[want.ts]
			g.new = ""
			if !ok || g != want {
				r.SpecError(map[string]any{"what": "entry written by git update-ref -m", "m": row.M, "name": row.Name, "mail": row.Mail, "spec": want, "git": g, "listed": ok})
				continue
			}
			n++
			r.Eval(1)
			// byte level: the line git wrote for this entry, after the two ids, must be the line
			// reflog.Encode writes for the same entry (spec: identity, ts, zone, [TAB message])
			tail := want.name + " <" + want.mail + "> " + want.ts + " " + rzones[row.Zone].text
			if row.Tab {
				tail += "\t" + want.msg
			}
			if gl := gitLines[want.ts]; gl != tail {
				r.SpecError(map[string]any{"what": "bytes of the line written by git", "spec": tail, "git": gl})
			} else {
				e, _ := entryOf(row, gitBase)
				var buf bytes.Buffer
				reflog.Encode(&buf, e)
				if got := strings.TrimSuffix(buf.String(), "\n"); len(got) < 82 || got[82:] != tail {
					r.Diverge("Encode|line-bytes-differ-from-git|"+key(row), fmt.Sprintf("reflog.Encode writes %q, git writes %q after the ids", got[min(82, len(got)):], tail), map[string]any{"m": row.M, "name": row.Name})
				}
			}
			d, ok := goBy[want.ts]
			d.new = ""
			if derr == nil && (!ok || d != want) {
				r.Diverge("Reflog|decodes-git-entry-differently|"+key(row), fmt.Sprintf("go-git decodes %+v (found=%v), git shows %+v", d, ok, want), map[string]any{"m": row.M, "name": row.Name, "mail": row.Mail, "zone": row.Zone})
			}
		}
		if derr == nil && len(ents) != len(got) {
			r.Diverge("Reflog|entry-count-differs|git-written-file", fmt.Sprintf("go-git decodes %d entries, git lists %d", len(ents), len(got)), nil)
		}
		r.Extra["git_written_entries_compared"] = n
	}

	// ---- D. stored lines
	var file bytes.Buffer
	lineText := map[int]string{}
	for _, row := range lines {
		ts := fmt.Sprint(lineBase + row.id)
		if row.Ts == "zero" {
			ts = "0"
		}
		l := fmt.Sprintf("%s %s %s %s %s%s\n", ids[0], ids[1], rtext(row.ID), ts, rzones[row.Zone].text, rtext(row.Tail))
		lineText[row.id] = l
		file.WriteString(l)
	}
	lwant := func(row *lineRow) listed {
		return listed{fmt.Sprint(lineBase + row.id), rzones[row.Zone].shown, rtext(row.LName), lmail(row), rtext(row.LMsg), ids[1].String()}
	}
	if fx.haveGit {
		const refL = "refs/heads/lines"
		p := filepath.Join(gitDir, "logs", filepath.FromSlash(refL))
		os.MkdirAll(filepath.Dir(p), 0o755)
		if err := os.WriteFile(p, file.Bytes(), 0o644); err != nil {
			return err
		}
		if err := setRef(refL, ids[1]); err != nil {
			return err
		}
		got, err := gitList(fx, refL)
		if err != nil {
			return err
		}
		gitBy := map[string]listed{}
		for _, l := range got {
			gitBy[l.ts] = l
		}
		nl := 0
		for _, row := range lines {
			if row.Ts == "zero" {
				continue
			}
			g, ok := gitBy[fmt.Sprint(lineBase+row.id)]
			if ok != row.Listed || (ok && g != lwant(row)) {
				r.SpecError(map[string]any{"what": "stored line", "line": lineText[row.id], "spec_listed": row.Listed, "git_listed": ok, "spec": lwant(row), "git": g})
			}
			if row.Listed {
				nl++
			}
		}
		zero := 0
		for _, l := range got {
			if l.ts == "0" {
				zero++
			}
		}
		if zero != 0 || len(got) != nl {
			r.SpecError(map[string]any{"what": "stored lines: count", "git_lists": len(got), "spec_lists": nl, "git_lists_zero_ts": zero})
		}
	}
	unwritable := map[string]int{}
	for _, row := range lines {
		r.Eval(1)
		ents, err := reflog.Decode(strings.NewReader(lineText[row.id]))
		cs := map[string]any{"line": lineText[row.id], "tail": row.Tail, "ident": row.ID}
		if !row.Listed {
			// lines git's reader skips (git's writer does not produce them either, except timestamp 0
			// which its own reader then hides): counted, not judged
			if err == nil && len(ents) == 1 {
				unwritable["skipped-by-git:"+row.Why]++
			}
			continue
		}
		if !row.Writable {
			// git lists the line but its own writer never produces it: outside "reflogs git writes"
			if err != nil || len(ents) != 1 || entryListed(ents[0]) != lwant(row) {
				unwritable[row.Tk]++
			}
			continue
		}
		if err != nil || len(ents) != 1 {
			r.Diverge("Decode|rejects-line-git-lists|"+row.Tk, fmt.Sprintf("reflog.Decode: %d entries, err=%v for a line git lists", len(ents), err), cs)
			continue
		}
		if got, want := entryListed(ents[0]), lwant(row); got != want || ents[0].OldHash != ids[0] {
			what := "other"
			switch {
			case got.msg != want.msg:
				what = "message"
			case got.name != want.name || got.mail != want.mail:
				what = "identity"
			case got.zone != want.zone || got.ts != want.ts:
				what = "time"
			}
			r.Diverge("Decode|"+what+"-differs|"+row.Tk, fmt.Sprintf("go-git decodes %+v, git lists %+v", got, want), cs)
		}
	}
	r.Distinct = len(encs) + len(lines)
	r.Extra["listed_but_unwritable_lines_gogit_reads_differently"] = unwritable

	// ---- E. a porcelain history written by git
	if fx.haveGit {
		if err := gitHistory(r, fx, st); err != nil {
			return err
		}
	}
	r.Extra["git_leg"] = fx.haveGit
	return r.Emit()
}

// lmail renders the mail part the spec selected (symbols LMail starting at position LMailAt of
// the identity) with the word numbering of the whole identity.
func lmail(row *lineRow) string {
	if !row.Listed {
		return ""
	}
	full := rtext(row.ID[:row.LMailAt-1+len(row.LMail)])
	return strings.TrimPrefix(full, rtext(row.ID[:row.LMailAt-1]))
}

// gitHistory: commit, branch, reset, rename, amend with git; every reflog git wrote is decoded by
// go-git and compared with git's own listing (identity, time, zone, message, new id).
func gitHistory(r *rep.Report, fx *fixture, st *filesystem.Storage) error {
	run := func(env []string, args ...string) error {
		_, e, err := gitcli.RunEnv(fx.dir, nil, env, args...)
		if err != nil {
			return fmt.Errorf("git %v: %v: %s", args, err, e)
		}
		return nil
	}
	day := 0
	env := func() []string {
		day++
		return []string{fmt.Sprintf("GIT_COMMITTER_DATE=@%d %s", 1700000000+day*1000, posZones[day%len(posZones)]), fmt.Sprintf("GIT_AUTHOR_DATE=@%d +0000", 1700000000+day)}
	}
	steps := [][]string{
		{"commit", "-q", "--allow-empty", "-m", "first\n\nbody"},
		{"commit", "-q", "--allow-empty", "-m", "second  with   blanks\tand tab"},
		{"checkout", "-q", "-b", "topic"},
		{"commit", "-q", "--allow-empty", "-m", "on topic"},
		{"reset", "-q", "--hard", "HEAD~1"},
		{"branch", "-m", "topic", "renamed"},
		{"commit", "-q", "--allow-empty", "--amend", "-m", "amended"},
		{"checkout", "-q", "master"},
		{"update-ref", "refs/heads/nomsg", "HEAD"},
	}
	for _, s := range steps {
		if err := run(env(), s...); err != nil {
			return err
		}
	}
	total := 0
	for _, ref := range []string{"HEAD", "refs/heads/master", "refs/heads/renamed", "refs/heads/nomsg"} {
		want, err := gitList(fx, ref)
		if err != nil {
			return err
		}
		ents, err := st.Reflog(plumbing.ReferenceName(ref))
		if err != nil {
			r.Diverge("Reflog|error|history:"+ref, fmt.Sprintf("ReflogStorage.Reflog(%s) fails on a reflog written by git: %v", ref, err), nil)
			continue
		}
		r.Eval(1)
		// git log -g can only show entries whose new id is a commit: a branch rename leaves a
		// "-> 0000000" entry in HEAD's reflog that git's listing skips
		kept := ents[:0:0]
		for _, e := range ents {
			if !e.NewHash.IsZero() {
				kept = append(kept, e)
			}
		}
		ents = kept
		if len(ents) != len(want) {
			r.Diverge("Reflog|entry-count-differs|history:"+ref, fmt.Sprintf("go-git decodes %d entries of %s, git lists %d", len(ents), ref, len(want)), nil)
			continue
		}
		for i, e := range ents { // go-git: oldest first; git: newest first
			w := want[len(want)-1-i]
			if g := entryListed(e); g != w {
				r.Diverge("Reflog|decodes-git-entry-differently|history:"+ref, fmt.Sprintf("entry %d of %s: go-git %+v, git %+v", i, ref, g, w), nil)
			}
			if i > 0 && e.OldHash != ents[i-1].NewHash && ref != "HEAD" {
				r.Diverge("Reflog|old-id-chain-broken|history:"+ref, fmt.Sprintf("entry %d of %s: old id %s is not the previous new id", i, ref, e.OldHash), nil)
			}
			total++
		}
	}
	r.Extra["history_entries_compared"] = total
	r.Traces = 1
	return nil
}
