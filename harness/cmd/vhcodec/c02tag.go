package main

import (
	"bytes"
	"encoding/json"
	"fmt"
	"math/rand"
	"strconv"
	"strings"
	"time"

	"verifharness/internal/gitcli"
	"verifharness/internal/rep"

	"github.com/go-git/go-git/v6/plumbing"
	"github.com/go-git/go-git/v6/plumbing/object"
)

type tagRow struct {
	H          []string `json:"h"`
	EOF        bool     `json:"eof"`
	B          []string `json:"b"`
	Acc        bool     `json:"acc"`
	Why        string   `json:"why"`
	Tagger     int      `json:"tagger"`
	Sig256     []int    `json:"sig256"`
	Split      int      `json:"split"`
	MsgLen     int      `json:"msglen"`
	Keep       []int    `json:"keep"`
	Undef      bool     `json:"undef"`
	Verifiable bool     `json:"verifiable"`
	Canon      bool     `json:"canon"`
	Nc         string   `json:"nc"`
	Tk         string   `json:"tk"`
	Bk         string   `json:"bk"`
	Hk         string   `json:"hk"`

	id    int
	v     int
	bytes []byte
}

func (row *tagRow) abstract() map[string]any {
	return map[string]any{"h": row.H, "eof": row.EOF, "body": row.B, "bytes": string(row.bytes)}
}

func (row *tagRow) msg() string { return bodyText(row.B, 1, row.MsgLen) }
func (row *tagRow) sig() string {
	if row.Split == 0 {
		return ""
	}
	return bodyText(row.B, row.Split, len(row.B))
}

func readTagRows(fx *fixture, rnd *rand.Rand, files []string) ([]*tagRow, error) {
	var rows []*tagRow
	seen := map[string]bool{}
	for _, a := range files {
		err := rep.ReadNDJSON(a, func(line []byte) error {
			row := &tagRow{}
			if err := json.Unmarshal(line, row); err != nil {
				return err
			}
			k := strings.Join(row.H, ",") + "|" + strconv.FormatBool(row.EOF) + "|" + strings.Join(row.B, ",")
			if seen[k] {
				return nil
			}
			seen[k] = true
			row.id = len(rows)
			row.v = rnd.Intn(1 << 20)
			row.bytes = fx.renderTag(row.H, row.EOF, row.B, row.id, row.v)
			rows = append(rows, row)
			return nil
		})
		if err != nil {
			return nil, err
		}
	}
	return rows, nil
}

func init() { rep.Register("c02tag", c02tag) }

func c02tag(args []string) error {
	if len(args) < 1 {
		return fmt.Errorf("usage: c02tag tag_rows.ndjson...")
	}
	r := rep.New()
	rnd := rand.New(rand.NewSource(rep.Seed()))
	fx, err := newFixture("c02t")
	if err != nil {
		return err
	}
	rows, err := readTagRows(fx, rnd, args)
	if err != nil {
		return err
	}
	acceptsRejected := map[string]int{}
	reencodeSame := 0
	for _, row := range rows {
		r.Eval(1)
		checkTagRow(r, fx, row, acceptsRejected, &reencodeSame)
	}
	r.Distinct = len(rows)
	r.Extra["tag_gogit_accepts_what_git_cannot_parse"] = acceptsRejected
	r.Extra["tag_noncanonical_rows_reencoded_identically"] = reencodeSame
	if fx.haveGit {
		if err := gitLegTags(r, fx, rows); err != nil {
			return err
		}
	}
	return r.Emit()
}

func checkTagRow(r *rep.Report, fx *fixture, row *tagRow, acceptsRejected map[string]int, reencodeSame *int) {
	fx.rowid = row.id
	t := &object.Tag{}
	err := t.Decode(memObj(plumbing.TagObject, row.bytes))
	if !row.Acc {
		if err == nil {
			acceptsRejected[row.Why]++
		}
		return
	}
	if err != nil {
		r.Diverge("Tag.Decode|rejects-what-git-parses|"+row.Nc, fmt.Sprintf("Tag.Decode fails (%v) on a tag git parses", err), row.abstract())
		return
	}
	div := func(field, class, key, what string) {
		m := row.abstract()
		m["field"] = field
		r.Diverge("Tag.Decode|"+field+":"+class+"|"+key, what, m)
	}
	h := row.H
	if t.Target.String() != fx.parent[0] {
		div("object", "wrong", row.Nc, fmt.Sprintf("Target=%s, git reports %s", t.Target, fx.parent[0]))
	}
	if t.TargetType != plumbing.CommitObject {
		div("type", "wrong", row.Nc, fmt.Sprintf("TargetType=%s, git reports commit", t.TargetType))
	}
	if _, want, _ := fx.tagLineKV(h[2], 3, row.id, row.v); t.Name != want {
		div("tag", "wrong", row.Nc, fmt.Sprintf("Name=%q, git reports %q", t.Name, want))
	}
	if p := posOfIdent('T', t.Tagger); p != row.Tagger {
		class := "wrong-line"
		if p == 0 {
			class = "dropped"
		} else if p < 0 {
			class = "garbled"
		}
		div("tagger", class, row.Tk, fmt.Sprintf("Tagger decoded as %q <%s> (line %d); git for-each-ref reports line %d", t.Tagger.Name, t.Tagger.Email, p, row.Tagger))
	}
	if want := fx.tagSigText(h, row.Sig256, row.id, row.v); t.SignatureSHA256 != want {
		div("gpgsig-sha256", "wrong", row.Hk, fmt.Sprintf("SignatureSHA256=%q, the header lines give %q", t.SignatureSHA256, want))
	}
	wantMsg, wantSig := row.msg(), row.sig()
	if row.EOF {
		wantMsg, wantSig = "", ""
	}
	if t.Message != wantMsg {
		div("message", "wrong", row.Bk, fmt.Sprintf("Message=%q, git reports %q", t.Message, wantMsg))
	}
	if t.Signature != wantSig {
		div("signature", "wrong", row.Bk, fmt.Sprintf("Signature=%q, git extracts %q", t.Signature, wantSig))
	}
	out := &plumbing.MemoryObject{}
	if err := t.Encode(out); err != nil {
		r.Diverge("Tag.Encode|error|"+row.Nc, fmt.Sprintf("Encode of a decoded tag fails: %v", err), row.abstract())
		return
	}
	same := bytes.Equal(objBytes(out), row.bytes)
	switch {
	case same && !row.Canon:
		*reencodeSame++
	case !same:
		m := row.abstract()
		m["reencoded"] = string(objBytes(out))
		class := "not-byte-exact"
		if row.Canon {
			class = reencodeClass(row.bytes, objBytes(out))
		}
		r.Diverge("Tag.Decode+Encode|"+class+"|"+row.Nc, "decoding a stored tag and re-encoding it does not reproduce its bytes ("+row.Nc+")", m)
	}
	r.Sample(map[string]any{"tag_h": row.H, "body": row.B, "spec_accept": row.Acc, "canonical": row.Canon, "reencode_same": same})
	if row.Canon {
		checkTagStruct(r, fx, row)
	}
}

// checkTagStruct: struct -> bytes -> struct for canonical rows (see checkCommitStruct).
func checkTagStruct(r *rep.Report, fx *fixture, row *tagRow) {
	_, name, _ := fx.tagLineKV(row.H[2], 3, row.id, row.v)
	t := &object.Tag{Name: name, Target: plumbing.NewHash(fx.parent[0]), TargetType: plumbing.CommitObject,
		Message: row.msg(), Signature: row.sig(), SignatureSHA256: fx.tagSigText(row.H, row.Sig256, row.id, row.v)}
	if row.Tagger != 0 {
		id := posIdent('T', row.Tagger)
		hh, _ := strconv.Atoi(id.tz[1:3])
		mm, _ := strconv.Atoi(id.tz[3:5])
		off := hh*3600 + mm*60
		if id.tz[0] == '-' {
			off = -off
		}
		t.Tagger = object.Signature{Name: id.name, Email: id.email, When: time.Unix(id.ts, 0).In(time.FixedZone("", off))}
	}
	out := &plumbing.MemoryObject{}
	if err := t.Encode(out); err != nil {
		r.Diverge("Tag.Encode|error|canonical", fmt.Sprintf("Encode of a well-formed tag fails: %v", err), row.abstract())
		return
	}
	if !bytes.Equal(objBytes(out), row.bytes) {
		m := row.abstract()
		m["encoded"] = string(objBytes(out))
		r.Diverge("Tag.Encode|"+reencodeClass(row.bytes, objBytes(out))+"|canonical/"+row.Bk, "encoding a well-formed in-memory tag does not give git's canonical bytes", m)
		return
	}
	back := &object.Tag{}
	if err := back.Decode(memObj(plumbing.TagObject, objBytes(out))); err != nil {
		r.Diverge("Tag.Encode+Decode|error|canonical", fmt.Sprintf("Decode of an encoded tag fails: %v", err), row.abstract())
		return
	}
	if back.Name != t.Name || back.Target != t.Target || back.TargetType != t.TargetType || !signatureSame(back.Tagger, t.Tagger) && !(row.Tagger == 0 && back.Tagger.When.IsZero()) ||
		back.Message != t.Message || back.Signature != t.Signature || back.SignatureSHA256 != t.SignatureSHA256 {
		r.Diverge("Tag.Encode+Decode|fields-differ|canonical/"+row.Bk, "encoding a well-formed tag and decoding it does not give back the same field values", row.abstract())
	}
}

func gitLegTags(r *rep.Report, fx *fixture, rows []*tagRow) error {
	objs := make([][]byte, len(rows))
	for i, row := range rows {
		objs[i] = row.bytes
	}
	ids, err := fx.storeObjects("tag", objs)
	if err != nil {
		return err
	}
	exprs := make([]string, len(ids))
	for j, id := range ids {
		exprs[j] = id + "^{}"
	}
	ans, err := fx.batchCheck(exprs)
	if err != nil {
		return err
	}
	byID := map[string]*tagRow{}
	var accepted []string
	for j, row := range rows {
		acc := ans[j] != ""
		if acc != row.Acc {
			r.SpecError(map[string]any{"what": "tag accept", "h": row.H, "eof": row.EOF, "spec": row.Acc, "git": acc})
			continue
		}
		if acc {
			if ans[j] != fx.parent[0]+" commit" {
				r.SpecError(map[string]any{"what": "tag target", "h": row.H, "git": ans[j]})
			}
			if _, dup := byID[ids[j]]; !dup {
				accepted = append(accepted, ids[j])
			}
			byID[ids[j]] = row
		}
	}
	if err := fx.writePackedRefs("refs/t/", accepted); err != nil {
		return err
	}
	format := strings.Join([]string{"%(objectname)", "%(object)", "%(type)", "%(tag)", "%(taggername)", "%(taggeremail:trim)", "%(taggerdate:raw)", "%(contents:signature)", "%(contents)"}, "%1f") + "%1e"
	out, e, err := gitcli.Run(fx.dir, nil, "for-each-ref", "--format="+format, "refs/t/")
	if err != nil {
		return fmt.Errorf("git for-each-ref: %v: %s", err, e)
	}
	recs := splitRecords(out)
	if len(recs) != len(accepted) {
		return fmt.Errorf("git for-each-ref (tags): %d records for %d refs", len(recs), len(accepted))
	}
	for _, rec := range recs {
		row := byID[rec[0]]
		if row == nil || len(rec) != 9 {
			return fmt.Errorf("git for-each-ref (tags): unexpected record %q", rec)
		}
		_, name, _ := fx.tagLineKV(row.H[2], 3, row.id, row.v)
		want := []string{rec[0], fx.parent[0], "commit", name, "", "", "", "", ""}
		if row.Tagger != 0 {
			id := posIdent('T', row.Tagger)
			want[4], want[5], want[6] = id.name, id.email, fmt.Sprintf("%d %s", id.ts, id.tz)
		}
		if !row.EOF {
			want[7] = row.sig()
			// %(contents) starts at the first non-blank body line and runs to the end of the object
			want[8] = strings.TrimLeft(row.msg()+row.sig(), "\n")
		}
		for k := range want {
			if rec[k] != want[k] {
				r.SpecError(map[string]any{"what": "git for-each-ref tag field " + strconv.Itoa(k), "h": row.H, "eof": row.EOF, "body": row.B, "spec": want[k], "git": rec[k]})
				break
			}
		}
	}
	r.Extra["git_tags_stored"] = len(ids)
	r.Extra["git_tags_parsed"] = len(accepted)
	return nil
}

// reencodeClass says, at line level, how a re-encoded object differs from the stored one.
func reencodeClass(orig, reenc []byte) string {
	split := func(b []byte) (hdr []string, body string) {
		s := string(b)
		if i := strings.Index(s, "\n\n"); i >= 0 {
			return strings.Split(s[:i], "\n"), s[i+1:]
		}
		return strings.Split(strings.TrimSuffix(s, "\n"), "\n"), "<no-blank-line>"
	}
	oh, ob := split(orig)
	rh, rb := split(reenc)
	count := func(ls []string) map[string]int {
		m := map[string]int{}
		for _, l := range ls {
			m[l]++
		}
		return m
	}
	oc, rc := count(oh), count(rh)
	var cls []string
	for l, n := range oc {
		if rc[l] < n {
			cls = append(cls, "drops-lines")
			break
		}
	}
	for l, n := range rc {
		if oc[l] < n {
			cls = append(cls, "adds-lines")
			break
		}
	}
	if len(cls) == 0 && strings.Join(oh, "\n") != strings.Join(rh, "\n") {
		cls = append(cls, "reorders-lines")
	}
	if ob != rb {
		cls = append(cls, "changes-body")
	}
	if len(cls) == 0 {
		return "differs"
	}
	return strings.Join(cls, "+")
}
