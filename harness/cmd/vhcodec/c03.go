package main

import (
	"encoding/json"
	"fmt"
	"math/rand"
	"os"
	"path/filepath"
	"regexp"
	"sort"
	"strconv"
	"strings"
	"time"

	"verifharness/internal/gitcli"
	"verifharness/internal/rep"

	"github.com/go-git/go-git/v6/plumbing"
	"github.com/go-git/go-git/v6/plumbing/object"
)

// C03: the payload go-git hands to a signature verifier (EncodeWithoutSignature) and the
// signature it extracts are compared with the partition computed by TLC
// (CommitCodec!SigScan = parse_buffer_signed_by_header for commits, TagCodec!Split/RemoveSig =
// parse_signed_buffer + remove_signature for tags).  git leg: git verify-commit / verify-tag
// with this binary as gpg.program; it records the payload on stdin and the detached
// signature file (no cryptography involved).

// captureScript is what git runs as gpg.program / gpg.x509.program:
//
//	<prog> --status-fd=1 [--keyid-format=long] --verify <sigfile> -
//
// It copies the detached signature file and the payload on stdin into VH_CAPTURE_DIR and
// answers with the status lines of a good signature.  (A shell script: three cheap processes;
// starting this Go binary once per signed object costs ~100x more under load.)
const captureScript = `#!/bin/sh
eval "sig=\${$(($# - 1))}"
f="$VH_CAPTURE_DIR/c.$$.${sig##*/}"
cp "$sig" "$f.sig" && cat > "$f.payload"
printf '[GNUPG:] NEWSIG\n[GNUPG:] GOODSIG 0123456789ABCDEF capture <capture@example.com>\n[GNUPG:] VALIDSIG 0123456789ABCDEF0123456789ABCDEF01234567 2020-01-01 1577836800 0 4 0 1 8 00 0123456789ABCDEF0123456789ABCDEF01234567\n[GNUPG:] TRUST_ULTIMATE 0 pgp\n'
`

func init() { rep.Register("c03", c03) }

type capture struct {
	Payload string
	Sig     string
}

// verifyBatch runs `git verify-commit|verify-tag <ids...>` (one git process, one capture script
// run per object git considers signed) and returns what the verifier was given.
func verifyBatch(fx *fixture, cmd string, ids []string) ([]capture, error) {
	dir := gitcli.TempDir("cap")
	defer os.RemoveAll(dir)
	prog := filepath.Join(dir, "capture.sh")
	if err := os.WriteFile(prog, []byte(captureScript), 0o755); err != nil {
		return nil, err
	}
	out := filepath.Join(dir, "out")
	if err := os.Mkdir(out, 0o755); err != nil {
		return nil, err
	}
	args := []string{"-c", "gpg.program=" + prog, "-c", "gpg.x509.program=" + prog, "-c", "gpg.minTrustLevel=undefined", cmd}
	args = append(args, ids...)
	// exit status is non-zero when some object carries no signature: expected
	gitcli.RunEnv(fx.dir, nil, []string{"VH_CAPTURE_DIR=" + out}, args...)
	ents, err := os.ReadDir(out)
	if err != nil {
		return nil, err
	}
	var caps []capture
	for _, e := range ents {
		if !strings.HasSuffix(e.Name(), ".payload") {
			continue
		}
		p, err := os.ReadFile(filepath.Join(out, e.Name()))
		if err != nil {
			return nil, err
		}
		s, err := os.ReadFile(filepath.Join(out, strings.TrimSuffix(e.Name(), ".payload")+".sig"))
		if err != nil {
			return nil, err
		}
		caps = append(caps, capture{string(p), string(s)})
	}
	return caps, nil
}

type signedCase struct {
	id      string // git object id
	rowid   int
	payload string // spec
	sig     string // spec ("" = spec says unsigned: git must not call the verifier)
	abs     map[string]any
}

var (
	reRowSig = regexp.MustCompile(` r(\d+)\.`)        // commits: the first gpgsig line mentions the row
	reRowTag = regexp.MustCompile(`(?m)^tag v(\d+)-`) // tags: the tag name mentions the row
)

// gitLegVerify compares the spec's payload/signature with what git hands to the verifier.
// Captures are matched to rows by the row id rendered into the object, not by order.
func gitLegVerify(r *rep.Report, fx *fixture, cmd string, cases []signedCase) (int, error) {
	const batch = 500
	checked := 0
	for lo := 0; lo < len(cases); lo += batch {
		hi := lo + batch
		if hi > len(cases) {
			hi = len(cases)
		}
		var ids []string
		for _, c := range cases[lo:hi] {
			ids = append(ids, c.id)
		}
		caps, err := verifyBatch(fx, cmd, ids)
		if err != nil {
			return checked, err
		}
		byRow := map[int][]capture{}
		for _, c := range caps {
			var m []string
			if cmd == "verify-commit" {
				m = reRowSig.FindStringSubmatch(c.Sig)
			} else {
				m = reRowTag.FindStringSubmatch(c.Payload)
			}
			if m == nil {
				return checked, fmt.Errorf("%s: capture without row id: payload %q sig %q", cmd, c.Payload, c.Sig)
			}
			n, _ := strconv.Atoi(m[1])
			byRow[n] = append(byRow[n], c)
		}
		for _, c := range cases[lo:hi] {
			checked++
			got := byRow[c.rowid]
			switch {
			case c.sig == "" && len(got) == 0:
			case c.sig == "" || len(got) != 1:
				m := c.abs
				m["what"] = cmd + ": is the object signed?"
				m["spec_signed"], m["git_verifier_calls"] = c.sig != "", len(got)
				r.SpecError(m)
			case got[0].Payload != c.payload || got[0].Sig != c.sig:
				m := c.abs
				m["what"] = cmd + ": payload / signature"
				m["spec_payload"], m["git_payload"] = c.payload, got[0].Payload
				m["spec_sig"], m["git_sig"] = c.sig, got[0].Sig
				r.SpecError(m)
			}
		}
	}
	return checked, nil
}

func c03(args []string) error {
	if len(args) < 2 {
		return fmt.Errorf("usage: c03 tag_rows.ndjson commit_rows.ndjson...")
	}
	r := rep.New()
	t0 := time.Now()
	rnd := rand.New(rand.NewSource(rep.Seed()))
	fx, err := newFixture("c03")
	if err != nil {
		return err
	}
	// ---------------- commits
	var rows []*commitRow
	seen := map[string]bool{}
	for _, a := range args[1:] {
		err = rep.ReadNDJSON(a, func(line []byte) error {
			row := &commitRow{}
			if err := json.Unmarshal(line, row); err != nil {
				return err
			}
			k := strings.Join(row.H, ",") + "|" + row.E
			if seen[k] || !row.Acc {
				return nil
			}
			seen[k] = true
			row.id = len(rows)
			row.v = rnd.Intn(1 << 20)
			row.bytes = fx.renderCommit(row.H, row.E, row.id, row.v)
			rows = append(rows, row)
			return nil
		})
		if err != nil {
			return err
		}
	}
	var ccases []signedCase
	for _, row := range rows {
		r.Eval(1)
		fx.rowid = row.id
		payload := fx.linesText(row.H, row.Pay, row.v)
		if row.E != "eof" {
			payload += "\n" + msgText(row.E, row.id)
		}
		sig := fx.sigText(row.H, row.Sig, row.v)
		// scenario key: the signature shape, plus whether git drops further gpgsig-prefixed headers
		key := row.Sk
		if len(row.Pay)+len(row.Sig) != len(row.H) {
			key = "other-gpgsig-prefixed-headers"
		}
		c := &object.Commit{}
		if err := c.Decode(memObj(plumbing.CommitObject, row.bytes)); err != nil {
			r.Diverge("Commit.Decode|rejects-what-git-parses|"+row.Nc, fmt.Sprintf("Commit.Decode fails (%v) on a commit git parses", err), row.abstract())
			continue
		}
		if c.Signature != sig {
			m := row.abstract()
			r.Diverge("Commit.Decode|gpgsig:wrong|"+row.Sk, fmt.Sprintf("extracted signature %q, git extracts %q", c.Signature, sig), m)
		}
		out := &plumbing.MemoryObject{}
		if err := c.EncodeWithoutSignature(out); err != nil {
			r.Diverge("Commit.EncodeWithoutSignature|error|"+key, err.Error(), row.abstract())
			continue
		}
		if got := string(objBytes(out)); got != payload {
			m := row.abstract()
			m["gogit_payload"], m["spec_payload"] = got, payload
			r.Diverge("Commit.EncodeWithoutSignature|payload:wrong|"+key, "the payload handed to the verifier is not the one git verify-commit verifies", m)
		}
		// mutating only the signature fields must not change the payload
		c.Signature, c.SignatureSHA256 = "tampered\n", ""
		out = &plumbing.MemoryObject{}
		if err := c.EncodeWithoutSignature(out); err != nil || string(objBytes(out)) != payload {
			if c2 := (&object.Commit{}); c2.Decode(memObj(plumbing.CommitObject, row.bytes)) == nil {
				o2 := &plumbing.MemoryObject{}
				c2.EncodeWithoutSignature(o2)
				if string(objBytes(o2)) == payload { // only report when the unmutated payload was right
					r.Diverge("Commit.EncodeWithoutSignature|payload-depends-on-signature-field|"+key, "changing only Commit.Signature changes the verification payload", row.abstract())
				}
			}
		}
		// a decoded canonical commit whose message was changed must be verified over the changed fields
		if row.Canon {
			c3 := &object.Commit{}
			c3.Decode(memObj(plumbing.CommitObject, row.bytes))
			c3.Message += "!"
			out = &plumbing.MemoryObject{}
			want := payload + "!"
			if err := c3.EncodeWithoutSignature(out); err != nil || string(objBytes(out)) != want {
				m := row.abstract()
				m["gogit_payload"], m["spec_payload"] = string(objBytes(out)), want
				mkey := key
				if row.Xk != "plain" && key != "other-gpgsig-prefixed-headers" {
					mkey = "extra-header:" + row.Xk // representation limit of ExtraHeader.Value (see C02)
				}
				r.Diverge("Commit.EncodeWithoutSignature|mutated-fields-ignored-or-misencoded|"+mkey, "after changing Message of a decoded commit the payload is not the encoding of the changed fields", m)
			}
		}
		r.Sample(map[string]any{"h": row.H, "end": row.E, "sig_lines": row.Sig, "payload_lines": row.Pay})
		if !row.Verifiable {
			sig = "" // git refuses to run the verifier without a committer header: no call expected
		}
		ccases = append(ccases, signedCase{rowid: row.id, payload: payload, sig: sig, abs: map[string]any{"h": row.H, "end": row.E}})
	}
	// ---------------- tags
	trows, err := readTagRows(fx, rnd, args[:1])
	if err != nil {
		return err
	}
	var tcases []signedCase
	var tkept []*tagRow
	undefRows := 0
	for _, row := range trows {
		if !row.Acc {
			continue
		}
		if row.Undef {
			undefRows++ // three or more signature-header regions: git's remove_signature is undefined
			continue
		}
		r.Eval(1)
		fx.rowid = row.id
		payload := fx.tagLinesText(row.H, row.Keep, row.id, row.v)
		if !row.EOF {
			payload += "\n" + row.msg()
		}
		sig := ""
		if !row.EOF {
			sig = row.sig()
		}
		key := row.Hk
		if row.Hk == "no-signature-header" {
			key = row.Bk
		}
		t := &object.Tag{}
		if err := t.Decode(memObj(plumbing.TagObject, row.bytes)); err != nil {
			r.Diverge("Tag.Decode|rejects-what-git-parses|"+row.Nc, fmt.Sprintf("Tag.Decode fails (%v) on a tag git parses", err), row.abstract())
			continue
		}
		if t.Signature != sig {
			r.Diverge("Tag.Decode|signature:wrong|"+row.Bk, fmt.Sprintf("extracted signature %q, git extracts %q", t.Signature, sig), row.abstract())
		}
		out := &plumbing.MemoryObject{}
		if err := t.EncodeWithoutSignature(out); err != nil {
			r.Diverge("Tag.EncodeWithoutSignature|error|"+key, err.Error(), row.abstract())
			continue
		}
		if got := string(objBytes(out)); got != payload {
			m := row.abstract()
			m["gogit_payload"], m["spec_payload"] = got, payload
			r.Diverge("Tag.EncodeWithoutSignature|payload:wrong|"+key, "the payload handed to the verifier is not the one git verify-tag verifies", m)
		}
		if row.Canon {
			t3 := &object.Tag{}
			t3.Decode(memObj(plumbing.TagObject, row.bytes))
			t3.Message += "!"
			out = &plumbing.MemoryObject{}
			want := payload + "!"
			if err := t3.EncodeWithoutSignature(out); err != nil || string(objBytes(out)) != want {
				m := row.abstract()
				m["gogit_payload"], m["spec_payload"] = string(objBytes(out)), want
				r.Diverge("Tag.EncodeWithoutSignature|mutated-fields-ignored-or-misencoded|"+key, "after changing Message of a decoded tag the payload is not the encoding of the changed fields", m)
			}
		}
		r.Sample(map[string]any{"tag_h": row.H, "body": row.B, "split": row.Split, "kept_header_lines": row.Keep})
		// git leg only where git can be asked: an ssh signature needs ssh-keygen and an allowed-signers file
		if !row.Verifiable {
			sig = "" // no tagger header: git refuses to run the verifier
		}
		if sig != "" && row.B[row.Split-1] != "ssh" {
			tcases = append(tcases, signedCase{rowid: row.id, payload: payload, sig: sig, abs: map[string]any{"h": row.H, "body": row.B}})
			tkept = append(tkept, row)
		} else if sig == "" {
			tcases = append(tcases, signedCase{rowid: row.id, payload: payload, sig: "", abs: map[string]any{"h": row.H, "body": row.B}})
			tkept = append(tkept, row)
		}
	}
	r.Distinct = len(rows) + len(trows)
	r.Extra["gogit_leg_s"] = time.Since(t0).Seconds()
	r.Extra["tag_rows_with_undefined_git_behaviour_skipped"] = undefRows
	r.Extra["git_leg"] = fx.haveGit
	if fx.haveGit {
		// process budget: every signed object costs one verifier process
		limit := 100
		if rep.Thorough() {
			limit = 800
		}
		pick := func(n int, signed func(i int) bool) []int {
			idx := rnd.Perm(n)
			var out []int
			ns := 0
			for _, i := range idx {
				if signed(i) {
					if ns >= limit {
						continue
					}
					ns++
				} else if len(out)-ns >= limit/4 {
					continue
				}
				out = append(out, i)
			}
			sort.Ints(out)
			return out
		}
		ci := pick(len(ccases), func(i int) bool { return ccases[i].sig != "" })
		objs := make([][]byte, len(ci))
		for j, i := range ci {
			objs[j] = rows[i].bytes
		}
		ids, err := fx.storeObjects("commit", objs)
		if err != nil {
			return err
		}
		sel := make([]signedCase, len(ci))
		for j, i := range ci {
			sel[j] = ccases[i]
			sel[j].id = ids[j]
		}
		n1, err := gitLegVerify(r, fx, "verify-commit", sel)
		if err != nil {
			return err
		}
		ti := pick(len(tcases), func(i int) bool { return tcases[i].sig != "" })
		objs = make([][]byte, len(ti))
		for j, i := range ti {
			objs[j] = tkept[i].bytes
		}
		ids, err = fx.storeObjects("tag", objs)
		if err != nil {
			return err
		}
		sel = make([]signedCase, len(ti))
		for j, i := range ti {
			sel[j] = tcases[i]
			sel[j].id = ids[j]
		}
		n2, err := gitLegVerify(r, fx, "verify-tag", sel)
		if err != nil {
			return err
		}
		r.Extra["total_s"] = time.Since(t0).Seconds()
		r.Extra["git_verify_commit_payloads_compared"] = n1
		r.Extra["git_verify_tag_payloads_compared"] = n2
		r.Extra["git_objects_asked"] = len(ci) + len(ti)
	}
	return r.Emit()
}
