package main

import (
	"bytes"
	"encoding/json"
	"fmt"
	"strings"

	"verifharness/internal/gitcli"
	"verifharness/internal/rep"

	"github.com/go-git/go-git/v6/plumbing"
	"github.com/go-git/go-git/v6/plumbing/object"
)

// Identity lines (spec/rules/IdentCodec.tla): each row is embedded as the author and as the
// committer line of an otherwise canonical commit and as the tagger line of a canonical tag.

type identRow struct {
	L     []string `json:"l"`
	OK    bool     `json:"ok"`
	Name  []string `json:"name"`
	Mail  []string `json:"mail"`
	Date  int      `json:"date"`
	Tz    int      `json:"tz"`
	Nc    string   `json:"nc"`
	Dk    string   `json:"dk"`
	Shape string   `json:"shape"`

	id   int
	text string
}

// concrete zones: text, what `git log --date=raw` prints for it, offset in seconds
var zoneTab = map[string]struct {
	text, shown string
	off         int
}{
	"zp": {"+0530", "+0530", 19800}, "zm": {"-0330", "-0330", -12600}, "zmz": {"-0000", "+0000", 0},
	"z9": {"+9999", "+9999", 99*3600 + 99*60}, "z3": {"+053", "+0053", 53 * 60},
}

func identSym(s string, i int) string {
	switch s {
	case "w":
		return []string{"Ab", "x.y", "J", "o'k"}[i%4] + fmt.Sprint(i)
	case "sp":
		return " "
	case "lt":
		return "<"
	case "gt":
		return ">"
	case "num":
		return fmt.Sprint(1100000000 + i)
	case "big":
		return "1099511627776"
	case "neg":
		return "-5"
	}
	if z, ok := zoneTab[s]; ok {
		return z.text
	}
	panic("unknown identity symbol " + s)
}

// identText renders syms, which are the symbols of the line starting at position off+1.
func identText(syms []string, off int) string {
	var b strings.Builder
	for i, s := range syms {
		b.WriteString(identSym(s, off+i+1))
	}
	return b.String()
}

func init() { rep.Register("c02ident", c02ident) }

func c02ident(args []string) error {
	if len(args) < 1 {
		return fmt.Errorf("usage: c02ident ident_rows.ndjson")
	}
	r := rep.New()
	fx, err := newFixture("c02i")
	if err != nil {
		return err
	}
	var rows []*identRow
	err = rep.ReadNDJSON(args[0], func(line []byte) error {
		row := &identRow{}
		if err := json.Unmarshal(line, row); err != nil {
			return err
		}
		row.id = len(rows)
		row.text = identText(row.L, 0)
		rows = append(rows, row)
		return nil
	})
	if err != nil {
		return err
	}
	normal := posIdent('N', 1).String()
	commitWith := func(role string, row *identRow) []byte {
		a, c := normal, normal
		if role == "author" {
			a = row.text
		} else {
			c = row.text
		}
		return []byte(fmt.Sprintf("tree %s\nauthor %s\ncommitter %s\n\nident row %d\n", fx.tree[0], a, c, row.id))
	}
	tagWith := func(row *identRow) []byte {
		return []byte(fmt.Sprintf("object %s\ntype commit\ntag v%d\ntagger %s\n\nident row %d\n", fx.parent[0], row.id, row.text, row.id))
	}
	// offset of a part inside the line: name starts at 0; mail after the first lt; see spec
	mailOff := func(row *identRow) int {
		for i, s := range row.L {
			if s == "lt" {
				return i + 1
			}
		}
		return 0
	}
	for _, row := range rows {
		wantName, wantMail := "", ""
		if row.OK {
			wantName, wantMail = identText(row.Name, 0), identText(row.Mail, mailOff(row))
		}
		for _, role := range []string{"author", "committer", "tagger"} {
			r.Eval(1)
			var got object.Signature
			var raw []byte
			var reenc func() ([]byte, error)
			if role == "tagger" {
				raw = tagWith(row)
				t := &object.Tag{}
				if err := t.Decode(memObj(plumbing.TagObject, raw)); err != nil {
					r.Diverge("Tag.Decode|rejects-what-git-parses|ident:"+row.Nc, fmt.Sprintf("Tag.Decode fails on tagger line %q: %v", row.text, err), map[string]any{"l": row.L, "text": row.text})
					continue
				}
				got = t.Tagger
				reenc = func() ([]byte, error) { o := &plumbing.MemoryObject{}; err := t.Encode(o); return objBytes(o), err }
			} else {
				raw = commitWith(role, row)
				c := &object.Commit{}
				if err := c.Decode(memObj(plumbing.CommitObject, raw)); err != nil {
					r.Diverge("Commit.Decode|rejects-what-git-parses|ident:"+row.Nc, fmt.Sprintf("Commit.Decode fails on %s line %q: %v", role, row.text, err), map[string]any{"l": row.L, "text": row.text})
					continue
				}
				got = c.Author
				if role == "committer" {
					got = c.Committer
				}
				reenc = func() ([]byte, error) { o := &plumbing.MemoryObject{}; err := c.Encode(o); return objBytes(o), err }
			}
			cs := map[string]any{"l": row.L, "text": row.text, "role": role}
			// scenario key: the first structural peculiarity of the line; for structurally plain
			// lines the class of the date part
			dkey, ekey := row.Shape, row.Shape
			if row.Shape == "plain" || row.Shape == "plain-person" {
				dkey, ekey = row.Dk, row.Nc+"/"+row.Dk
			}
			if got.Name != wantName {
				r.Diverge("Signature.Decode|name:wrong|"+row.Shape, fmt.Sprintf("identity %q: Name=%q, git reports %q", row.text, got.Name, wantName), cs)
			}
			if got.Email != wantMail {
				r.Diverge("Signature.Decode|email:wrong|"+row.Shape, fmt.Sprintf("identity %q: Email=%q, git reports %q", row.text, got.Email, wantMail), cs)
			}
			if row.Date == 0 {
				if !got.When.IsZero() {
					r.Diverge("Signature.Decode|when:invented|"+dkey, fmt.Sprintf("identity %q: When=%s, git reports no date", row.text, got.When.Format("2006-01-02T15:04:05 -0700")), cs)
				}
			} else {
				ts := identSym(row.L[row.Date-1], row.Date)
				z := zoneTab[row.L[row.Tz-1]]
				_, off := got.When.Zone()
				if got.When.IsZero() || fmt.Sprint(got.When.Unix()) != ts {
					r.Diverge("Signature.Decode|when:wrong|"+dkey, fmt.Sprintf("identity %q: When=%d, git reports %s", row.text, got.When.Unix(), ts), cs)
				} else if off != z.off {
					r.Diverge("Signature.Decode|zone:wrong|"+dkey, fmt.Sprintf("identity %q: zone offset %ds, git reports %s (%ds)", row.text, off, z.shown, z.off), cs)
				}
			}
			out, err := reenc()
			if err != nil {
				r.Diverge("Signature.Encode|error|"+row.Nc, err.Error(), cs)
				continue
			}
			if !bytes.Equal(out, raw) {
				r.Diverge("Signature.Decode+Encode|not-byte-exact|"+ekey, fmt.Sprintf("identity line %q is not reproduced by decode+encode (%s)", row.text, row.Nc), cs)
			}
			r.Sample(map[string]any{"ident": row.text, "role": role, "spec_nc": row.Nc, "name": got.Name, "email": got.Email})
		}
	}
	r.Distinct = len(rows)
	if fx.haveGit {
		var objs [][]byte
		for _, row := range rows {
			objs = append(objs, commitWith("author", row), commitWith("committer", row))
		}
		ids, err := fx.storeObjects("commit", objs)
		if err != nil {
			return err
		}
		format := strings.Join([]string{"%H", "%an", "%ae", "%ad", "%cn", "%ce", "%cd"}, "%x1f") + "%x1e"
		out, e, err := gitcli.Run(fx.dir, []byte(strings.Join(ids, "\n")+"\n"), "log", "--no-walk=unsorted", "--stdin", "--date=raw", "--format="+format)
		if err != nil {
			return fmt.Errorf("git log: %v: %s", err, e)
		}
		recs := splitRecords(out)
		if len(recs) != len(ids) {
			return fmt.Errorf("git log: %d records for %d commits", len(recs), len(ids))
		}
		for j, rec := range recs {
			row := rows[j/2]
			if rec[0] != ids[j] || len(rec) != 7 {
				return fmt.Errorf("git log: unexpected record %q", rec)
			}
			want := []string{"", "", ""}
			if row.OK {
				want[0], want[1] = identText(row.Name, 0), identText(row.Mail, mailOff(row))
				if row.Date != 0 {
					want[2] = identSym(row.L[row.Date-1], row.Date) + " " + zoneTab[row.L[row.Tz-1]].shown
				}
			}
			got := rec[1:4]
			if j%2 == 1 {
				got = rec[4:7]
			}
			if strings.Join(got, fs) != strings.Join(want, fs) {
				r.SpecError(map[string]any{"what": "identity", "l": row.L, "text": row.text, "spec": want, "git": got})
			}
		}
		r.Extra["git_ident_commits"] = len(ids)
	}
	return r.Emit()
}
