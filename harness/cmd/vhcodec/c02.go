package main

import (
	"bytes"
	"encoding/json"
	"fmt"
	"math/rand"
	"sort"
	"strconv"
	"strings"
	"time"

	"verifharness/internal/gitcli"
	"verifharness/internal/rep"

	"github.com/go-git/go-git/v6/plumbing"
	"github.com/go-git/go-git/v6/plumbing/object"
)

// C02: rows of spec/rules/CommitCodec.tla (and TagCodec, IdentCodec, the struct tables) are
// rendered to bytes, pushed through object.Commit / object.Tag Decode and Encode, and compared
// with the positions TLC computed; git (hash-object --literally, cat-file --batch-check,
// log --no-walk --stdin, for-each-ref) is asked the same questions about the same bytes.

type commitRow struct {
	H            []string `json:"h"`
	E            string   `json:"e"`
	Acc          bool     `json:"acc"`
	Why          string   `json:"why"`
	Parents      []int    `json:"parents"`
	Author       int      `json:"author"`
	AuthorLog    int      `json:"authorLog"`
	Committer    int      `json:"committer"`
	CommitterLog int      `json:"committerLog"`
	Enc          int      `json:"enc"`
	Extras       [][]int  `json:"extras"`
	Sig          []int    `json:"sig"`
	Sig256       []int    `json:"sig256"`
	Msg          string   `json:"msg"`
	Pay          []int    `json:"pay"`
	Pay256       []int    `json:"pay256"`
	Verifiable   bool     `json:"verifiable"`
	Canon        bool     `json:"canon"`
	Nc           string   `json:"nc"`
	Pk           string   `json:"pk"`
	Ek           string   `json:"ek"`
	Ak           string   `json:"ak"`
	Ck           string   `json:"ck"`
	Xk           string   `json:"xk"`
	Sk           string   `json:"sk"`
	Sk256        string   `json:"sk256"`

	id    int
	v     int
	bytes []byte
}

func init() { rep.Register("c02commit", c02commit) }

func memObj(t plumbing.ObjectType, b []byte) *plumbing.MemoryObject {
	o := &plumbing.MemoryObject{}
	o.SetType(t)
	o.Write(b)
	return o
}

func objBytes(o *plumbing.MemoryObject) []byte {
	r, _ := o.Reader()
	var b bytes.Buffer
	b.ReadFrom(r)
	return b.Bytes()
}

// posOfIdent maps a decoded identity back to the position it was rendered from (0 = zero value,
// -1 = not a rendered identity), checking that every component is the rendered one.
func posOfIdent(role byte, s object.Signature) int {
	if s.Name == "" && s.Email == "" && s.When.IsZero() {
		return 0
	}
	if len(s.Name) < 2 || s.Name[0] != role {
		return -1
	}
	n, err := strconv.Atoi(strings.TrimSuffix(s.Name[1:], " Name"))
	if err != nil {
		return -1
	}
	want := posIdent(role, n)
	if s.Name != want.name || s.Email != want.email || s.When.Unix() != want.ts || s.When.Format("-0700") != want.tz {
		return -1
	}
	return n
}

func intsEq(a, b []int) bool {
	if len(a) != len(b) {
		return false
	}
	for i := range a {
		if a[i] != b[i] {
			return false
		}
	}
	return true
}

func (row *commitRow) abstract() map[string]any {
	return map[string]any{"h": row.H, "end": row.E, "bytes": string(row.bytes)}
}

func c02commit(args []string) error {
	if len(args) < 1 {
		return fmt.Errorf("usage: c02commit rows.ndjson...")
	}
	r := rep.New()
	rnd := rand.New(rand.NewSource(rep.Seed()))
	tStart := time.Now()
	fx, err := newFixture("c02")
	if err != nil {
		return err
	}
	r.Extra["fixture_s"] = time.Since(tStart).Seconds()
	var rows []*commitRow
	seen := map[string]bool{}
	for _, a := range args {
		err = rep.ReadNDJSON(a, func(line []byte) error {
			row := &commitRow{}
			if err := json.Unmarshal(line, row); err != nil {
				return err
			}
			k := strings.Join(row.H, ",") + "|" + row.E
			if seen[k] {
				return nil
			}
			seen[k] = true
			row.id = len(rows)
			row.v = rnd.Intn(1 << 20)
			row.bytes = fx.renderCommit(row.H, row.E, row.id, row.v)
			rows = append(rows, row)
			return nil
		})
		if err != nil {
			return err
		}
	}
	acceptsRejected := map[string]int{}
	reencodeSame := 0
	t0 := time.Now()
	defer func() { r.Extra["wall_s"] = time.Since(t0).Seconds() }()
	for _, row := range rows {
		r.Eval(1)
		checkCommitRow(r, fx, row, acceptsRejected, &reencodeSame)
	}
	r.Distinct = len(rows)
	r.Extra["gogit_leg_s"] = time.Since(t0).Seconds()
	r.Extra["gogit_accepts_what_git_cannot_parse"] = acceptsRejected
	r.Extra["noncanonical_rows_reencoded_identically"] = reencodeSame
	r.Extra["git_leg"] = fx.haveGit
	if fx.haveGit {
		if err := gitLegCommits(r, fx, rows, rnd); err != nil {
			return err
		}
	}
	r.Extra["total_s"] = time.Since(tStart).Seconds()
	return r.Emit()
}

func checkCommitRow(r *rep.Report, fx *fixture, row *commitRow, acceptsRejected map[string]int, reencodeSame *int) {
	fx.rowid = row.id
	c := &object.Commit{}
	err := c.Decode(memObj(plumbing.CommitObject, row.bytes))
	if !row.Acc {
		// git cannot parse this object: nothing to compare; go-git's leniency is only counted
		if err == nil {
			acceptsRejected[row.Why]++
		}
		return
	}
	if err != nil {
		r.Diverge("Commit.Decode|rejects-what-git-parses|"+row.Nc, fmt.Sprintf("Commit.Decode fails (%v) on a commit git parses", err), row.abstract())
		return
	}
	h := row.H
	div := func(field, class, key, what string) {
		m := row.abstract()
		m["field"] = field
		r.Diverge("Commit.Decode|"+field+":"+class+"|"+key, what, m)
	}
	// tree
	if c.TreeHash.String() != fx.tree[0] {
		div("tree", "wrong", row.Nc, fmt.Sprintf("TreeHash=%s, git reports the first line's %s", c.TreeHash, fx.tree[0]))
	}
	// parents
	var wantP []string
	for _, p := range row.Parents {
		_, v, _ := fx.lineKV(h[p-1], p, row.v)
		wantP = append(wantP, v)
	}
	var gotP []string
	for _, p := range c.ParentHashes {
		gotP = append(gotP, p.String())
	}
	if strings.Join(gotP, " ") != strings.Join(wantP, " ") {
		div("parents", "wrong", row.Pk, fmt.Sprintf("ParentHashes=%v, git links %v", gotP, wantP))
	}
	// identities: git log reports the last line, for-each-ref the first; either is "what git reports"
	for _, x := range []struct {
		field      string
		role       byte
		got        object.Signature
		first, log int
		key        string
	}{{"author", 'A', c.Author, row.Author, row.AuthorLog, row.Ak}, {"committer", 'C', c.Committer, row.Committer, row.CommitterLog, row.Ck}} {
		p := posOfIdent(x.role, x.got)
		if p == x.first || p == x.log {
			continue
		}
		class := "wrong-line"
		if p == 0 {
			class = "dropped"
		} else if p < 0 {
			class = "garbled"
		}
		div(x.field, class, x.key, fmt.Sprintf("%s decoded as %q <%s> (line %d); git log reports line %d, for-each-ref line %d", x.field, x.got.Name, x.got.Email, p, x.log, x.first))
	}
	// encoding
	wantEnc := "UTF-8" // go-git's documented default when the header is absent
	if row.Enc != 0 {
		_, wantEnc, _ = fx.lineKV(h[row.Enc-1], row.Enc, row.v)
	}
	if string(c.Encoding) != wantEnc {
		div("encoding", "wrong", row.Ek, fmt.Sprintf("Encoding=%q, git reports %q", c.Encoding, wantEnc))
	}
	// extra headers: key and value lines
	var wantX, gotX []string
	for _, g := range row.Extras {
		key, val, sp := fx.lineKV(h[g[0]-1], g[0], row.v)
		ls := []string{}
		if sp {
			ls = append(ls, val)
		}
		for _, p := range g[1:] {
			_, cv, _ := fx.lineKV(h[p-1], p, row.v)
			ls = append(ls, cv)
		}
		wantX = append(wantX, key+"="+strings.Join(ls, "\\n"))
	}
	for _, e := range c.ExtraHeaders {
		v := ""
		if e.Value != "" {
			v = strings.Join(strings.Split(e.Value, "\n"), "\\n")
		}
		gotX = append(gotX, e.Key+"="+v)
	}
	if strings.Join(gotX, ";") != strings.Join(wantX, ";") {
		div("extra-headers", "wrong", row.Xk, fmt.Sprintf("ExtraHeaders=%q, git's read_commit_extra_headers gives %q", gotX, wantX))
	}
	// signatures
	if want := fx.sigText(h, row.Sig, row.v); c.Signature != want {
		div("gpgsig", "wrong", row.Sk, fmt.Sprintf("Signature=%q, git extracts %q", c.Signature, want))
	}
	if want := fx.sigText(h, row.Sig256, row.v); c.SignatureSHA256 != want {
		div("gpgsig-sha256", "wrong", row.Sk256, fmt.Sprintf("SignatureSHA256=%q, git (sha256 repository) extracts %q", c.SignatureSHA256, want))
	}
	// message
	if want := msgText(row.Msg, row.id); c.Message != want {
		div("message", "wrong", row.E, fmt.Sprintf("Message=%q, git reports %q", c.Message, want))
	}
	// re-encoding
	out := &plumbing.MemoryObject{}
	if err := c.Encode(out); err != nil {
		r.Diverge("Commit.Encode|error|"+row.Nc, fmt.Sprintf("Encode of a decoded commit fails: %v", err), row.abstract())
		return
	}
	same := bytes.Equal(objBytes(out), row.bytes)
	switch {
	case same && !row.Canon:
		*reencodeSame++
	case !same:
		key := row.Nc
		if row.Canon && row.Xk != "plain" {
			key += "+" + row.Xk
		}
		m := row.abstract()
		m["reencoded"] = string(objBytes(out))
		class := "not-byte-exact"
		if key == "canonical" {
			class = reencodeClass(row.bytes, objBytes(out))
		}
		r.Diverge("Commit.Decode+Encode|"+class+"|"+key, "decoding a stored commit and re-encoding it does not reproduce its bytes ("+key+")", m)
	}
	r.Sample(map[string]any{"h": row.H, "end": row.E, "spec_accept": row.Acc, "canonical": row.Canon, "reencode_same": same})
	if row.Canon {
		checkCommitStruct(r, fx, row)
	}
}

// checkCommitStruct is the struct -> bytes -> struct direction: for a canonical row the spec's
// decoded fields ARE a well-formed in-memory commit whose canonical encoding is the row itself.
// The struct is built from the spec's fields (not from go-git's Decode), encoded, compared with
// the rendered row, decoded again and compared field by field.
func checkCommitStruct(r *rep.Report, fx *fixture, row *commitRow) {
	h := row.H
	idOf := func(role byte, p int) object.Signature {
		id := posIdent(role, p)
		hh, _ := strconv.Atoi(id.tz[1:3])
		mm, _ := strconv.Atoi(id.tz[3:5])
		off := hh*3600 + mm*60
		if id.tz[0] == '-' {
			off = -off
		}
		return object.Signature{Name: id.name, Email: id.email, When: time.Unix(id.ts, 0).In(time.FixedZone("", off))}
	}
	c := &object.Commit{TreeHash: plumbing.NewHash(fx.tree[0]), Author: idOf('A', row.Author), Committer: idOf('C', row.Committer),
		Message: msgText(row.Msg, row.id), Signature: fx.sigText(h, row.Sig, row.v), SignatureSHA256: fx.sigText(h, row.Sig256, row.v)}
	for _, p := range row.Parents {
		_, v, _ := fx.lineKV(h[p-1], p, row.v)
		c.ParentHashes = append(c.ParentHashes, plumbing.NewHash(v))
	}
	if row.Enc != 0 {
		_, v, _ := fx.lineKV(h[row.Enc-1], row.Enc, row.v)
		c.Encoding = object.MessageEncoding(v)
	}
	for _, g := range row.Extras {
		key, val, sp := fx.lineKV(h[g[0]-1], g[0], row.v)
		ls := []string{}
		if sp {
			ls = append(ls, val)
		}
		for _, p := range g[1:] {
			_, cv, _ := fx.lineKV(h[p-1], p, row.v)
			ls = append(ls, cv)
		}
		c.ExtraHeaders = append(c.ExtraHeaders, object.ExtraHeader{Key: key, Value: strings.Join(ls, "\n")})
	}
	key := "canonical"
	if row.Xk != "plain" {
		key += "+" + row.Xk
	}
	out := &plumbing.MemoryObject{}
	if err := c.Encode(out); err != nil {
		r.Diverge("Commit.Encode|error|"+key, fmt.Sprintf("Encode of a well-formed commit fails: %v", err), row.abstract())
		return
	}
	if !bytes.Equal(objBytes(out), row.bytes) {
		m := row.abstract()
		m["encoded"] = string(objBytes(out))
		class := "not-byte-exact"
		if key == "canonical" {
			class = reencodeClass(row.bytes, objBytes(out))
		}
		r.Diverge("Commit.Encode|"+class+"|"+key, "encoding a well-formed in-memory commit does not give git's canonical bytes", m)
		return
	}
	back := &object.Commit{}
	if err := back.Decode(memObj(plumbing.CommitObject, objBytes(out))); err != nil {
		r.Diverge("Commit.Encode+Decode|error|"+key, fmt.Sprintf("Decode of an encoded commit fails: %v", err), row.abstract())
		return
	}
	same := back.TreeHash == c.TreeHash && len(back.ParentHashes) == len(c.ParentHashes) && signatureSame(back.Author, c.Author) && signatureSame(back.Committer, c.Committer) &&
		back.Message == c.Message && back.Signature == c.Signature && back.SignatureSHA256 == c.SignatureSHA256 && len(back.ExtraHeaders) == len(c.ExtraHeaders) &&
		(back.Encoding == c.Encoding || (c.Encoding == "" && back.Encoding == "UTF-8"))
	for i := range c.ParentHashes {
		same = same && back.ParentHashes[i] == c.ParentHashes[i]
	}
	for i := range c.ExtraHeaders {
		same = same && back.ExtraHeaders[i] == c.ExtraHeaders[i]
	}
	if !same {
		r.Diverge("Commit.Encode+Decode|fields-differ|"+key, "encoding a well-formed commit and decoding it does not give back the same field values", row.abstract())
	}
}

func signatureSame(a, b object.Signature) bool {
	return a.Name == b.Name && a.Email == b.Email && a.When.Unix() == b.When.Unix() && a.When.Format("-0700") == b.When.Format("-0700")
}

// gitLegCommits: spec vs git.  Any disagreement is a SpecError.
func gitLegCommits(r *rep.Report, fx *fixture, rows []*commitRow, rnd *rand.Rand) error {
	limit := 30000
	if rep.Thorough() {
		limit = 120000
	}
	idx := rnd.Perm(len(rows))
	if len(idx) > limit {
		idx = idx[:limit]
	}
	sort.Ints(idx)
	objs := make([][]byte, len(idx))
	for j, i := range idx {
		objs[j] = rows[i].bytes
	}
	ids, err := fx.storeObjects("commit", objs)
	if err != nil {
		return err
	}
	// 1. can git parse it, and which tree does it see?
	exprs := make([]string, len(ids))
	for j, id := range ids {
		exprs[j] = id + "^{tree}"
	}
	ans, err := fx.batchCheck(exprs)
	if err != nil {
		return err
	}
	byID := map[string]*commitRow{}
	var accepted []string
	for j, i := range idx {
		row := rows[i]
		acc := ans[j] != ""
		if acc != row.Acc {
			r.SpecError(map[string]any{"what": "accept", "h": row.H, "end": row.E, "spec": row.Acc, "git": acc})
			continue
		}
		if acc {
			if ans[j] != fx.tree[0]+" tree" {
				r.SpecError(map[string]any{"what": "tree", "h": row.H, "end": row.E, "git": ans[j]})
			}
			if _, dup := byID[ids[j]]; !dup {
				accepted = append(accepted, ids[j])
			}
			byID[ids[j]] = row
		}
	}
	// 2. git log: tree, parents, identities (last line wins), encoding, raw body.  Commits without
	// a blank line are asked without %B: there git prints bytes from beyond the object buffer
	// (pretty.c: msg + message_off + 1), which may even contain our separators.
	fields := []string{"%H", "%T", "%P", "%an", "%ae", "%ad", "%cn", "%ce", "%cd", "%e", "%B"}
	var recs [][]string
	for _, withBody := range []bool{true, false} {
		var sel []string
		for _, id := range accepted {
			if (byID[id].E != "eof") == withBody {
				sel = append(sel, id)
			}
		}
		if len(sel) == 0 {
			continue
		}
		fl := fields
		if !withBody {
			fl = fields[:10]
		}
		format := strings.Join(fl, "%x1f") + "%x1e"
		out, e, err := gitcli.Run(fx.dir, []byte(strings.Join(sel, "\n")+"\n"), "log", "--no-walk=unsorted", "--stdin", "--date=raw", "--encoding=none", "--format="+format)
		if err != nil {
			return fmt.Errorf("git log: %v: %s", err, e)
		}
		part := splitRecords(out)
		if len(part) != len(sel) {
			return fmt.Errorf("git log: %d records for %d commits", len(part), len(sel))
		}
		recs = append(recs, part...)
	}
	identWant := func(role byte, p int) []string {
		if p == 0 {
			return []string{"", "", ""}
		}
		id := posIdent(role, p)
		return []string{id.name, id.email, fmt.Sprintf("%d %s", id.ts, id.tz)}
	}
	for _, rec := range recs {
		row := byID[rec[0]]
		if row == nil || len(rec) < 10 {
			return fmt.Errorf("git log: unexpected record %q", rec)
		}
		h := row.H
		var wantP []string
		for _, p := range row.Parents {
			_, v, _ := fx.lineKV(h[p-1], p, row.v)
			wantP = append(wantP, v)
		}
		wantEnc := ""
		if row.Enc != 0 {
			_, wantEnc, _ = fx.lineKV(h[row.Enc-1], row.Enc, row.v)
		}
		want := []string{rec[0], fx.tree[0], strings.Join(wantP, " ")}
		want = append(want, identWant('A', row.AuthorLog)...)
		want = append(want, identWant('C', row.CommitterLog)...)
		want = append(want, wantEnc, msgText(row.Msg, row.id))
		if row.E == "eof" {
			want = want[:10]
		}
		if len(rec) != len(want) {
			return fmt.Errorf("git log: unexpected record %q", rec)
		}
		for k := range want {
			if rec[k] != want[k] {
				r.SpecError(map[string]any{"what": "git log field " + strconv.Itoa(k), "h": row.H, "end": row.E, "spec": want[k], "git": rec[k]})
				break
			}
		}
	}
	// 3. for-each-ref: identities (first line wins)
	refIDs := make([]string, len(accepted))
	copy(refIDs, accepted)
	if err := fx.writePackedRefs("refs/r/", refIDs); err != nil {
		return err
	}
	fformat := strings.Join([]string{"%(objectname)", "%(authorname)", "%(authoremail:trim)", "%(authordate:raw)", "%(committername)", "%(committeremail:trim)", "%(committerdate:raw)", "%(tree)", "%(parent)"}, "%1f") + "%1e"
	out, e, err := gitcli.Run(fx.dir, nil, "for-each-ref", "--format="+fformat, "refs/r/")
	if err != nil {
		return fmt.Errorf("git for-each-ref: %v: %s", err, e)
	}
	recs = splitRecords(out)
	if len(recs) != len(accepted) {
		return fmt.Errorf("git for-each-ref: %d records for %d refs", len(recs), len(accepted))
	}
	for _, rec := range recs {
		row := byID[rec[0]]
		if row == nil || len(rec) != 9 {
			return fmt.Errorf("git for-each-ref: unexpected record %q", rec)
		}
		var wantP []string
		for _, p := range row.Parents {
			_, v, _ := fx.lineKV(row.H[p-1], p, row.v)
			wantP = append(wantP, v)
		}
		want := []string{rec[0]}
		want = append(want, identWant('A', row.Author)...)
		want = append(want, identWant('C', row.Committer)...)
		want = append(want, fx.tree[0], strings.Join(wantP, " "))
		for k := range want {
			if rec[k] != want[k] {
				r.SpecError(map[string]any{"what": "git for-each-ref field " + strconv.Itoa(k), "h": row.H, "end": row.E, "spec": want[k], "git": rec[k]})
				break
			}
		}
	}
	r.Extra["git_commits_stored"] = len(ids)
	r.Extra["git_commits_parsed"] = len(accepted)
	return nil
}
