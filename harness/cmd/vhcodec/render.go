package main

import (
	"bytes"
	"compress/zlib"
	"crypto/sha1"
	"encoding/binary"
	"fmt"
	"os"
	"path/filepath"
	"strconv"
	"strings"

	"verifharness/internal/gitcli"
)

// ---------------------------------------------------------------------------
// Rendering of the abstract vocabulary of spec/rules/CommitCodec.tla to bytes.
// Line i of kind k is rendered to text that mentions i (positional content), so
// that the spec can name every decoded field by the position it came from.
// Nothing here decides anything: the expected positions come from TLC.
// ---------------------------------------------------------------------------

// fixture is the git repository of the git leg together with the ids used in rendered objects.
type fixture struct {
	dir     string
	tree    [2]string // T1 (empty tree), T2
	parent  [2]string // P1, P2 (real commits)
	blob    string
	haveGit bool
	rowid   int // row being rendered / expected (signature texts mention it, see lineKV)
}

// The ids below are those of the objects newFixture creates (fixed author/committer/date env of
// gitcli.Env): they are constants so that rendering does not depend on git being present.
const (
	idT1   = "4b825dc642cb6eb9a060e54bf8d69288fbee4904"
	zeroID = "0000000000000000000000000000000000000000"
)

func newFixture(prefix string) (*fixture, error) {
	f := &fixture{haveGit: gitcli.Available()}
	f.tree[0] = idT1
	if !f.haveGit {
		f.tree[1] = "df55a7dce59d040dc7819c1e241082965a80ebd9"
		f.parent = [2]string{"1111111111111111111111111111111111111111", "2222222222222222222222222222222222222222"}
		f.blob = "45b983be36b73c0788dc9cbcb76cbb80fc7bb057"
		return f, nil
	}
	f.dir = filepath.Join(gitcli.TempDir(prefix), "repo")
	if err := gitcli.Init(f.dir, false); err != nil {
		return nil, err
	}
	run := func(stdin string, args ...string) (string, error) {
		o, e, err := gitcli.Run(f.dir, []byte(stdin), args...)
		if err != nil {
			return "", fmt.Errorf("git %v: %v: %s", args, err, e)
		}
		return strings.TrimSpace(o), nil
	}
	var err error
	if _, err = run("", "mktree"); err != nil {
		return nil, err
	}
	if f.blob, err = run("hi\n", "hash-object", "-w", "--stdin"); err != nil {
		return nil, err
	}
	if f.tree[1], err = run("100644 blob "+f.blob+"\tf\n", "mktree"); err != nil {
		return nil, err
	}
	if f.parent[0], err = run("", "commit-tree", "-m", "p1", f.tree[0]); err != nil {
		return nil, err
	}
	if f.parent[1], err = run("", "commit-tree", "-m", "p2", f.tree[1]); err != nil {
		return nil, err
	}
	return f, nil
}

// zones used for positional identities: all of them survive a decode/encode round trip.
var posZones = []string{"+0000", "+0100", "-0230", "+0530", "-0800", "+1245", "-0330"}

type ident struct {
	name, email string
	ts          int64
	tz          string
}

func posIdent(role byte, i int) ident {
	return ident{fmt.Sprintf("%c%d Name", role, i), fmt.Sprintf("%c%d@example.com", role+32, i), 1000000000 + int64(i)*86400, posZones[i%len(posZones)]}
}

func (id ident) String() string { return fmt.Sprintf("%s <%s> %d %s", id.name, id.email, id.ts, id.tz) }

// variant selects among equivalent concrete renderings of a class (seeded).
type variant struct{ n int }

var badIDs = []string{
	strings.Repeat("z", 40),                     // right length, not hex
	"4b825dc642cb6eb9a060e54bf8d69288fbee4904a", // 41 hex digits
	"4b825dc642cb6eb9a060e54bf8d69288fbee490 ",  // 39 hex digits and a space
	"4B825DC642CB6EB9A060E54BF8D69288FBEE490G",  // upper case, last char not hex
}

const pgpBegin = "-----BEGIN PGP SIGNATURE-----"

// lineKV returns the key and the value (text after "key ") of line i of kind k; for continuation
// lines key is "" and the value is the text after the leading space.
func (f *fixture) lineKV(k string, i int, v int) (key, val string, hasSpace bool) {
	switch k {
	case "tree":
		if i == 1 {
			return "tree", f.tree[0], true
		}
		return "tree", f.tree[1], true
	case "treeBad":
		return "tree", badIDs[v%len(badIDs)], true
	case "parent":
		return "parent", f.parent[i%2], true
	case "parentBad":
		return "parent", badIDs[v%len(badIDs)], true
	case "author":
		return "author", posIdent('A', i).String(), true
	case "committer":
		return "committer", posIdent('C', i).String(), true
	case "encoding":
		return "encoding", fmt.Sprintf("ENC-%d", i), true
	case "gpgsig":
		return "gpgsig", fmt.Sprintf("%s s%d r%d.", pgpBegin, i, f.rowid), true
	case "gpgsig256":
		return "gpgsig-sha256", fmt.Sprintf("%s t%d r%d.", pgpBegin, i, f.rowid), true
	case "mergetag":
		return "mergetag", fmt.Sprintf("object %s m%d", f.parent[0], i), true
	case "other":
		return fmt.Sprintf("x-other%d", i), fmt.Sprintf("value %d", i), true
	case "bare":
		return fmt.Sprintf("x-bare%d", i), "", false
	case "gpgsigx":
		return fmt.Sprintf("gpgsigx%d", i), fmt.Sprintf("g%d", i), true
	case "cont":
		return "", fmt.Sprintf("c%d more", i), true
	case "contE":
		return "", "", true
	}
	panic("unknown line kind " + k)
}

func (f *fixture) lineText(k string, i int, v int) string {
	key, val, sp := f.lineKV(k, i, v)
	if sp {
		return key + " " + val + "\n"
	}
	return key + "\n"
}

// message classes (Ends of CommitCodec.tla); "eof" has neither blank line nor message.
func msgText(e string, rowid int) string {
	switch e {
	case "eof", "none", "blank":
		return ""
	case "m":
		return fmt.Sprintf("msg r%d", rowid)
	case "mLF":
		return fmt.Sprintf("msg r%d\n", rowid)
	case "mBlankM":
		return fmt.Sprintf("subject r%d\n\nbody line\n \nlast\n", rowid)
	case "blankM":
		return fmt.Sprintf("\nmsg after blank r%d\n", rowid)
	case "hdrM":
		return fmt.Sprintf("author Z%d <z@z> 9 +0000\ngpgsig %s\n cont\nparent %s\nencoding M\nx-other v\n", rowid, pgpBegin, zeroID)
	}
	panic("unknown end class " + e)
}

func (f *fixture) renderCommit(h []string, e string, rowid, v int) []byte {
	f.rowid = rowid
	var b bytes.Buffer
	for i, k := range h {
		b.WriteString(f.lineText(k, i+1, v))
	}
	if e != "eof" {
		b.WriteByte('\n')
		b.WriteString(msgText(e, rowid))
	}
	return b.Bytes()
}

// linesText concatenates the rendered lines at the given positions (payload rendering).
func (f *fixture) linesText(h []string, pos []int, v int) string {
	var b strings.Builder
	for _, p := range pos {
		b.WriteString(f.lineText(h[p-1], p, v))
	}
	return b.String()
}

// sigText renders the signature git extracts from the lines at pos: for each line the text after
// "key " (or after the leading space), each with its newline.
func (f *fixture) sigText(h []string, pos []int, v int) string {
	var b strings.Builder
	for _, p := range pos {
		_, val, _ := f.lineKV(h[p-1], p, v)
		b.WriteString(val)
		b.WriteByte('\n')
	}
	return b.String()
}

// ---------------------------------------------------------------------------
// git batch helpers
// ---------------------------------------------------------------------------

// storeObjects stores objs (all of one type) in the fixture repository and returns git's object
// ids.  Loose-object writes cost several ms each here, so the objects are framed as one pack
// (rendering only: header, per-object type/size varint + zlib stream, SHA-1 trailer), handed to
// one `git index-pack --stdin`, and the ids are read back from git's own index with
// `git show-index` via the pack offsets.  index-pack stores the bytes verbatim, like
// `hash-object --literally -w`; a sample is cross-checked against
// `git hash-object --literally --stdin-paths`.
func (f *fixture) storeObjects(typ string, objs [][]byte) ([]string, error) {
	code := map[string]byte{"commit": 1, "tree": 2, "blob": 3, "tag": 4}[typ]
	uniq := map[string]int{}
	var order [][]byte
	for _, o := range objs {
		if _, ok := uniq[string(o)]; !ok {
			uniq[string(o)] = len(order)
			order = append(order, o)
		}
	}
	var pack bytes.Buffer
	pack.WriteString("PACK")
	binary.Write(&pack, binary.BigEndian, uint32(2))
	binary.Write(&pack, binary.BigEndian, uint32(len(order)))
	offsets := make([]int, len(order))
	var zw *zlib.Writer
	for i, o := range order {
		offsets[i] = pack.Len()
		n := len(o)
		b := code<<4 | byte(n&0xf)
		n >>= 4
		for n > 0 {
			pack.WriteByte(b | 0x80)
			b = byte(n & 0x7f)
			n >>= 7
		}
		pack.WriteByte(b)
		if zw == nil {
			zw = zlib.NewWriter(&pack)
		} else {
			zw.Reset(&pack)
		}
		zw.Write(o)
		zw.Close()
	}
	sum := sha1.Sum(pack.Bytes())
	pack.Write(sum[:])
	out, e, err := gitcli.Run(f.dir, pack.Bytes(), "index-pack", "--stdin")
	if err != nil {
		return nil, fmt.Errorf("index-pack: %v: %s", err, e)
	}
	name := strings.Fields(out)
	if len(name) != 2 {
		return nil, fmt.Errorf("index-pack: unexpected output %q", out)
	}
	idx, err := os.ReadFile(filepath.Join(f.dir, ".git", "objects", "pack", "pack-"+name[1]+".idx"))
	if err != nil {
		return nil, err
	}
	out, e, err = gitcli.Run(f.dir, idx, "show-index")
	if err != nil {
		return nil, fmt.Errorf("show-index: %v: %s", err, e)
	}
	byOff := map[int]string{}
	for _, l := range strings.Split(strings.TrimSpace(out), "\n") {
		fl := strings.Fields(l)
		if len(fl) < 2 {
			return nil, fmt.Errorf("show-index: unexpected line %q", l)
		}
		off, _ := strconv.Atoi(fl[0])
		byOff[off] = fl[1]
	}
	ids := make([]string, len(objs))
	for i, o := range objs {
		ids[i] = byOff[offsets[uniq[string(o)]]]
		if ids[i] == "" {
			return nil, fmt.Errorf("show-index: no id for object %d", i)
		}
	}
	// cross-check a sample with hash-object --literally
	d := gitcli.TempDir("objs")
	defer os.RemoveAll(d)
	var in bytes.Buffer
	var sample []int
	for i := 0; i < len(objs); i += 1 + len(objs)/64 {
		p := filepath.Join(d, fmt.Sprintf("o%07d", i))
		if err := os.WriteFile(p, objs[i], 0o644); err != nil {
			return nil, err
		}
		in.WriteString(p + "\n")
		sample = append(sample, i)
	}
	out, e, err = gitcli.Run(f.dir, in.Bytes(), "hash-object", "-t", typ, "--literally", "--stdin-paths")
	if err != nil {
		return nil, fmt.Errorf("hash-object: %v: %s", err, e)
	}
	hs := strings.Fields(out)
	if len(hs) != len(sample) {
		return nil, fmt.Errorf("hash-object: %d ids for %d objects", len(hs), len(sample))
	}
	for j, i := range sample {
		if hs[j] != ids[i] {
			return nil, fmt.Errorf("object id mismatch between index-pack and hash-object --literally for object %d", i)
		}
	}
	return ids, nil
}

// batchCheck feeds the expressions to `git cat-file --batch-check` (one process); result[i] is
// "" when git answered "missing" (object unparsable for a peel expression), else "<oid> <type>".
func (f *fixture) batchCheck(exprs []string) ([]string, error) {
	out, e, err := gitcli.Run(f.dir, []byte(strings.Join(exprs, "\n")+"\n"), "cat-file", "--batch-check=%(objectname) %(objecttype)")
	if err != nil {
		return nil, fmt.Errorf("cat-file --batch-check: %v: %s", err, e)
	}
	lines := strings.Split(strings.TrimSuffix(out, "\n"), "\n")
	if len(lines) != len(exprs) {
		return nil, fmt.Errorf("cat-file --batch-check: %d answers for %d questions", len(lines), len(exprs))
	}
	res := make([]string, len(lines))
	for i, l := range lines {
		if strings.HasSuffix(l, " missing") {
			continue
		}
		res[i] = l
	}
	return res, nil
}

// writePackedRefs points refs/r/<n> at ids[n] by writing packed-refs directly (rendering; one
// file instead of one process per ref).
func (f *fixture) writePackedRefs(prefix string, ids []string) error {
	var b bytes.Buffer
	for i, id := range ids {
		if id == "" {
			continue
		}
		fmt.Fprintf(&b, "%s %s%07d\n", id, prefix, i)
	}
	return os.WriteFile(filepath.Join(f.dir, ".git", "packed-refs"), b.Bytes(), 0o644)
}

const (
	fs = "\x1f" // field separator in git --format output
	rs = "\x1e" // record separator
)

func splitRecords(out string) [][]string {
	var recs [][]string
	for _, r := range strings.Split(out, rs) {
		r = strings.TrimPrefix(r, "\n")
		if r == "" {
			continue
		}
		recs = append(recs, strings.Split(r, fs))
	}
	return recs
}

// ---------------------------------------------------------------------------
// Tags (spec/rules/TagCodec.tla)
// ---------------------------------------------------------------------------

func (f *fixture) tagLineKV(k string, i, rowid, v int) (key, val string, hasSpace bool) {
	switch k {
	case "object":
		if i == 1 {
			return "object", f.parent[0], true
		}
		return "object", f.parent[1], true
	case "objectBad":
		return "object", badIDs[v%len(badIDs)], true
	case "type":
		return "type", "commit", true
	case "typeBad":
		return "type", "bogus", true
	case "tag":
		return "tag", fmt.Sprintf("v%d-%d", rowid, i), true
	case "tagger":
		return "tagger", posIdent('T', i).String(), true
	}
	return f.lineKV(k, i, v)
}

func (f *fixture) tagLineText(k string, i, rowid, v int) string {
	key, val, sp := f.tagLineKV(k, i, rowid, v)
	if sp {
		return key + " " + val + "\n"
	}
	return key + "\n"
}

func bodyLineText(k string, j int) string {
	switch k {
	case "text":
		return fmt.Sprintf("body text %d\n", j)
	case "blankline":
		return "\n"
	case "pgp":
		return "-----BEGIN PGP SIGNATURE-----\n"
	case "pgpmsg":
		return "-----BEGIN PGP MESSAGE-----\n"
	case "ssh":
		return "-----BEGIN SSH SIGNATURE-----\n"
	case "x509":
		return "-----BEGIN SIGNED MESSAGE-----\n"
	case "data":
		return fmt.Sprintf("iQEzBAABCAAdFiEE%d==\n", j)
	case "ipgp":
		return " -----BEGIN PGP SIGNATURE-----\n"
	}
	panic("unknown body line kind " + k)
}

func bodyText(b []string, from, to int) string { // lines from..to (1-based, inclusive)
	var s strings.Builder
	for j := from; j <= to && j <= len(b); j++ {
		s.WriteString(bodyLineText(b[j-1], j))
	}
	return s.String()
}

func (f *fixture) renderTag(h []string, eof bool, b []string, rowid, v int) []byte {
	f.rowid = rowid
	var out bytes.Buffer
	for i, k := range h {
		out.WriteString(f.tagLineText(k, i+1, rowid, v))
	}
	if !eof {
		out.WriteByte('\n')
		out.WriteString(bodyText(b, 1, len(b)))
	}
	return out.Bytes()
}

func (f *fixture) tagLinesText(h []string, pos []int, rowid, v int) string {
	var s strings.Builder
	for _, p := range pos {
		s.WriteString(f.tagLineText(h[p-1], p, rowid, v))
	}
	return s.String()
}

func (f *fixture) tagSigText(h []string, pos []int, rowid, v int) string {
	var s strings.Builder
	for _, p := range pos {
		_, val, _ := f.tagLineKV(h[p-1], p, rowid, v)
		s.WriteString(val)
		s.WriteByte('\n')
	}
	return s.String()
}
