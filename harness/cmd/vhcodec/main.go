// Command vhcodec is the conformance harness for the text codecs of go-git
// (C02 commit/tag codecs, C03 signature payload, C52 reflog): it binds the rule
// tables computed by TLC from spec/rules/{CommitCodec,CommitStruct,TagCodec,IdentCodec,Reflog}.tla
// to the real code in /repo and to git.  Last stdout line = JSON report (internal/rep).
package main

import "verifharness/internal/rep"

func main() { rep.Main() }
