package main

// C51: rows from spec/rules/CommitGraphFile.tla (per commit: parents incl. extra-edge list, time, generation
// v1, corrected date / offset / overflow class - all computed by TLC) are bound to real files:
//   (<-) `git commit-graph write --reachable` and a `--split=no-merge` chain, read through go-git
//        (OpenFileIndex / OpenChainOrFileIndex) and compared field by field with the spec values;
//        git's own bytes are decoded by a minimal independent reader only to check the SPEC against git
//        (a disagreement there is a SpecError, never a verdict);
//   (->) a MemoryIndex filled with the spec values, and the index go-git read from git's chain, are written
//        by go-git's Encoder into objects/info/commit-graph: `git commit-graph verify` must accept the
//        file, and go-git must read its own file back with the spec values.

import (
	"bytes"
	encbin "encoding/binary"
	"encoding/json"
	"fmt"
	"os"
	"path/filepath"
	"sort"
	"strings"
	"time"

	"verifharness/internal/gitcli"
	"verifharness/internal/rep"

	"github.com/go-git/go-billy/v6/osfs"
	"github.com/go-git/go-git/v6/plumbing"
	"github.com/go-git/go-git/v6/plumbing/format/commitgraph"
)

func init() { rep.Register("c51", c51) }

type cgInstant struct {
	B int `json:"b"`
	S int `json:"s"`
}
type cgOff struct {
	Hi int `json:"hi"`
	Lo int `json:"lo"`
}
type cgCommit struct {
	C        int       `json:"c"`
	Par      []int     `json:"par"`
	Tm       cgInstant `json:"tm"`
	Gen      int       `json:"gen"`
	CD       cgInstant `json:"cd"`
	Off      cgOff     `json:"off"`
	OffClass string    `json:"offclass"`
	Layer    int       `json:"layer"`
}
type cgRow struct {
	G         int        `json:"g"`
	Cuts      []int      `json:"cuts"`
	Commits   []cgCommit `json:"commits"`
	NExtra    int        `json:"nextra"`
	NOverflow int        `json:"noverflow"`
	Chunks    []string   `json:"chunks"`
}

const cgBase = int64(1000000000)

func cgSecs(t cgInstant) int64 { return cgBase + int64(t.B)<<31 + int64(t.S) }

// what a reader says about one commit, in the abstract vocabulary
type cgSeen struct {
	tree    string
	parents []int // commit numbers, 0 = unknown hash
	when    int64
	gen     uint64
	genV2   uint64
	err     string
}

func (s cgSeen) parentsKey() string { return fmt.Sprint(s.parents) }

// minimal independent decoder of a single commit-graph file (spec-vs-git leg only)
func cgDecodeFile(b []byte, byHash map[string]int) (map[int]cgSeen, []string, error) {
	if len(b) < 8 || string(b[:4]) != "CGPH" {
		return nil, nil, fmt.Errorf("bad signature")
	}
	nchunks := int(b[6])
	type ch struct {
		id  string
		off uint64
	}
	var chs []ch
	for i := 0; i <= nchunks; i++ {
		p := 8 + 12*i
		chs = append(chs, ch{string(b[p : p+4]), encbin.BigEndian.Uint64(b[p+4 : p+12])})
	}
	at := map[string][]byte{}
	var ids []string
	for i := 0; i < nchunks; i++ {
		at[chs[i].id] = b[chs[i].off:chs[i+1].off]
		ids = append(ids, chs[i].id)
	}
	n := len(at["OIDL"]) / 20
	hashes := make([]string, n)
	for i := 0; i < n; i++ {
		hashes[i] = fmt.Sprintf("%x", at["OIDL"][20*i:20*i+20])
	}
	num := func(pos uint32) int { return byHash[hashes[pos]] }
	out := map[int]cgSeen{}
	for i := 0; i < n; i++ {
		e := at["CDAT"][36*i : 36*i+36]
		s := cgSeen{tree: fmt.Sprintf("%x", e[:20])}
		p1, p2 := encbin.BigEndian.Uint32(e[20:24]), encbin.BigEndian.Uint32(e[24:28])
		gt := encbin.BigEndian.Uint64(e[28:36])
		s.gen, s.when = gt>>34, int64(gt&0x3FFFFFFFF)
		if p1 != 0x70000000 {
			s.parents = append(s.parents, num(p1))
		}
		if p2&0x80000000 != 0 {
			for pos := p2 & 0x7fffffff; ; pos++ {
				v := encbin.BigEndian.Uint32(at["EDGE"][4*pos : 4*pos+4])
				s.parents = append(s.parents, num(v&0x7fffffff))
				if v&0x80000000 != 0 {
					break
				}
			}
		} else if p2 != 0x70000000 {
			s.parents = append(s.parents, num(p2))
		}
		if g, ok := at["GDA2"]; ok {
			v := encbin.BigEndian.Uint32(g[4*i : 4*i+4])
			if v&0x80000000 != 0 {
				pos := v & 0x7fffffff
				s.genV2 = uint64(s.when) + encbin.BigEndian.Uint64(at["GDO2"][8*pos:8*pos+8])
			} else {
				s.genV2 = uint64(s.when) + uint64(v)
			}
		}
		out[byHash[hashes[i]]] = s
	}
	return out, ids, nil
}

func cgFromIndex(idx commitgraph.Index, hashes []string, byHash map[string]int) (m map[int]cgSeen) {
	m = map[int]cgSeen{}
	for i := 1; i < len(hashes); i++ {
		func() {
			defer func() {
				if p := recover(); p != nil {
					m[i] = cgSeen{err: fmt.Sprintf("panic: %v", p)}
				}
			}()
			pos, err := idx.GetIndexByHash(plumbing.NewHash(hashes[i]))
			if err != nil {
				m[i] = cgSeen{err: "GetIndexByHash: " + err.Error()}
				return
			}
			d, err := idx.GetCommitDataByIndex(pos)
			if err != nil {
				m[i] = cgSeen{err: "GetCommitDataByIndex: " + err.Error()}
				return
			}
			s := cgSeen{tree: d.TreeHash.String(), when: d.When.Unix(), gen: d.Generation, genV2: d.GenerationV2}
			for _, ph := range d.ParentHashes {
				s.parents = append(s.parents, byHash[ph.String()])
			}
			// the index form must agree with the hash form
			if len(d.ParentIndexes) != len(d.ParentHashes) {
				s.err = "ParentIndexes and ParentHashes differ in length"
			}
			for k, pi := range d.ParentIndexes {
				if k < len(d.ParentHashes) {
					if h, err := idx.GetHashByIndex(pi); err != nil || h != d.ParentHashes[k] {
						s.err = "ParentIndexes do not name ParentHashes"
					}
				}
			}
			m[i] = s
		}()
	}
	return m
}

func c51(args []string) error {
	if len(args) < 1 {
		return fmt.Errorf("usage: c51 rows.ndjson")
	}
	if !gitcli.Available() {
		return fmt.Errorf("git is required for C51")
	}
	r := rep.New()
	base := gitcli.TempDir("c51")
	graphs, filesVerified, gitFilesRead := 0, 0, 0
	err := rep.ReadNDJSON(args[0], func(line []byte) error {
		var row cgRow
		if err := json.Unmarshal(line, &row); err != nil {
			return err
		}
		graphs++
		n := len(row.Commits)
		dir := filepath.Join(base, fmt.Sprintf("g%d", row.G))
		if err := os.MkdirAll(dir, 0o755); err != nil {
			return err
		}
		if err := gitcli.Init(dir, false); err != nil {
			return err
		}
		// ---- render the history with one fast-import stream
		var fi bytes.Buffer
		for _, c := range row.Commits {
			msg := fmt.Sprintf("c%d\n", c.C)
			fmt.Fprintf(&fi, "commit refs/heads/c%d\nmark :%d\nauthor A <a@example.com> %d +0000\ncommitter C <c@example.com> %d +0000\ndata %d\n%s",
				c.C, c.C, cgSecs(c.Tm), cgSecs(c.Tm), len(msg), msg)
			for k, p := range c.Par {
				if k == 0 {
					fmt.Fprintf(&fi, "from :%d\n", p)
				} else {
					fmt.Fprintf(&fi, "merge :%d\n", p)
				}
			}
			body := fmt.Sprintf("content of c%d\n", c.C)
			fmt.Fprintf(&fi, "deleteall\nM 100644 inline f\ndata %d\n%s\n", len(body), body)
		}
		marks := filepath.Join(dir, "marks")
		if _, e, err := gitcli.Run(dir, fi.Bytes(), "fast-import", "--quiet", "--export-marks="+marks); err != nil {
			return fmt.Errorf("fast-import: %v %s", err, e)
		}
		mb, err := os.ReadFile(marks)
		if err != nil {
			return err
		}
		hashes := make([]string, n+1)
		byHash := map[string]int{}
		for _, ln := range strings.Split(strings.TrimSpace(string(mb)), "\n") {
			var m int
			var h string
			if _, err := fmt.Sscanf(ln, ":%d %s", &m, &h); err != nil {
				return fmt.Errorf("marks line %q", ln)
			}
			hashes[m] = h
			byHash[h] = m
		}
		var q bytes.Buffer
		for i := 1; i <= n; i++ {
			fmt.Fprintf(&q, "%s^{tree}\n", hashes[i])
		}
		out, e, err := gitcli.Run(dir, q.Bytes(), "cat-file", "--batch-check")
		if err != nil {
			return fmt.Errorf("cat-file: %v %s", err, e)
		}
		trees := make([]string, n+1)
		for i, ln := range strings.Split(strings.TrimSpace(out), "\n") {
			trees[i+1] = strings.Fields(ln)[0]
		}
		// ---- the spec's statement about every commit
		want := map[int]cgSeen{}
		for _, c := range row.Commits {
			want[c.C] = cgSeen{tree: trees[c.C], parents: append([]int(nil), c.Par...), when: cgSecs(c.Tm), gen: uint64(c.Gen), genV2: uint64(cgSecs(c.CD))}
		}
		scen := func(c cgCommit, field string) string {
			switch field {
			case "parents":
				if len(c.Par) > 2 {
					return "octopus"
				}
				return fmt.Sprintf("parents=%d", len(c.Par))
			case "generationV2", "lookup-error":
				return "offset-" + c.OffClass
			}
			return "any"
		}
		compare := func(op, layout string, got map[int]cgSeen, withV2 bool) {
			for _, c := range row.Commits {
				g, w := got[c.C], want[c.C]
				r.Eval(1)
				diff := func(field, gs, ws string) {
					r.Diverge(op+"|"+field+"-differs|"+scen(c, field),
						fmt.Sprintf("%s (%s): commit c%d %s = %s, derived from the commit objects (spec): %s", op, layout, c.C, field, gs, ws),
						map[string]any{"graph": row.G, "layout": layout, "commit": c.C, "field": field, "got": gs, "spec": ws, "par": c.Par, "tm": c.Tm, "off": c.Off, "cuts": row.Cuts})
				}
				if g.err != "" {
					diff("lookup-error", g.err, "found")
					continue
				}
				if g.tree != w.tree {
					diff("tree", g.tree, w.tree)
				}
				if g.parentsKey() != w.parentsKey() {
					diff("parents", g.parentsKey(), w.parentsKey())
				}
				if g.when != w.when {
					diff("time", fmt.Sprint(g.when), fmt.Sprint(w.when))
				}
				if g.gen != w.gen {
					diff("generation", fmt.Sprint(g.gen), fmt.Sprint(w.gen))
				}
				if withV2 && g.genV2 != w.genV2 {
					diff("generationV2", fmt.Sprint(g.genV2), fmt.Sprint(w.genV2))
				}
			}
		}
		info := filepath.Join(dir, ".git", "objects", "info")
		gitfs := osfs.New(filepath.Join(dir, ".git"))
		cleanGraphs := func() {
			os.Remove(filepath.Join(info, "commit-graph"))
			os.RemoveAll(filepath.Join(info, "commit-graphs"))
		}
		// ---- (<-) single file written by git
		if _, e, err := gitcli.Run(dir, nil, "commit-graph", "write", "--reachable"); err != nil {
			return fmt.Errorf("commit-graph write: %v %s", err, e)
		}
		raw, err := os.ReadFile(filepath.Join(info, "commit-graph"))
		if err != nil {
			return err
		}
		gitSays, chunkIDs, err := cgDecodeFile(raw, byHash)
		if err != nil {
			return fmt.Errorf("witness decoder: %v", err)
		}
		// spec vs git
		for _, c := range row.Commits {
			g, w := gitSays[c.C], want[c.C]
			if g.tree != w.tree || g.parentsKey() != w.parentsKey() || g.when != w.when || g.gen != w.gen || g.genV2 != w.genV2 {
				r.SpecError(map[string]any{"graph": row.G, "commit": c.C, "git": fmt.Sprint(g), "spec": fmt.Sprint(w)})
			}
		}
		sortedCopy := func(x []string) []string { y := append([]string(nil), x...); sort.Strings(y); return y }
		if strings.Join(sortedCopy(chunkIDs), ",") != strings.Join(sortedCopy(row.Chunks), ",") { // the chunk SET; order is free
			// git may add optional chunks (BIDX/BDAT) only when asked; anything else is the spec being wrong
			r.SpecError(map[string]any{"graph": row.G, "git_chunks": chunkIDs, "spec_chunks": row.Chunks})
		}
		idx, err := commitgraph.OpenChainOrFileIndex(gitfs)
		if err != nil {
			r.Diverge("Read|open-error|file", "OpenChainOrFileIndex fails on a file written by git commit-graph write --reachable: "+err.Error(),
				map[string]any{"graph": row.G, "chunks": row.Chunks})
		} else {
			gitFilesRead++
			compare("Read", "file", cgFromIndex(idx, hashes, byHash), idx.HasGenerationV2())
			if !idx.HasGenerationV2() {
				r.Diverge("Read|generationV2-missing|file", "HasGenerationV2() is false on a file with a GDA2 chunk", map[string]any{"graph": row.G})
			}
			if len(idx.Hashes()) != n {
				r.Diverge("Read|hash-count-differs|file", fmt.Sprintf("Hashes() returns %d commits, the file has %d", len(idx.Hashes()), n), map[string]any{"graph": row.G})
			}
			idx.Close()
		}
		// ---- (<-) split chain written by git, one layer per non-empty cut
		cleanGraphs()
		layers := 0
		prev := 0
		for _, k := range []int{row.Cuts[0], row.Cuts[1], n} {
			if k <= prev || k > n {
				continue
			}
			var in bytes.Buffer
			for i := 1; i <= k; i++ {
				in.WriteString(hashes[i] + "\n")
			}
			if _, e, err := gitcli.Run(dir, in.Bytes(), "commit-graph", "write", "--stdin-commits", "--split=no-merge"); err != nil {
				return fmt.Errorf("commit-graph write --split: %v %s", err, e)
			}
			prev = k
			layers++
		}
		var chainIdx commitgraph.Index
		if layers > 0 {
			chainIdx, err = commitgraph.OpenChainOrFileIndex(gitfs)
			if err != nil {
				r.Diverge("Read|open-error|chain", "OpenChainOrFileIndex fails on a chain written by git commit-graph write --split: "+err.Error(),
					map[string]any{"graph": row.G, "layers": layers})
				chainIdx = nil
			} else {
				gitFilesRead++
				compare("Read", fmt.Sprintf("chain-%d", layers), cgFromIndex(chainIdx, hashes, byHash), chainIdx.HasGenerationV2())
				if len(chainIdx.Hashes()) != n {
					r.Diverge("Read|hash-count-differs|chain", fmt.Sprintf("Hashes() returns %d commits, the chain has %d", len(chainIdx.Hashes()), n), map[string]any{"graph": row.G, "layers": layers})
				}
			}
		}
		// ---- (->) go-git writes: from the spec values, and from what it read out of git's chain
		// scenario key of a written file: the most demanding thing it has to encode
		has := func(cls string) bool {
			for _, c := range row.Commits {
				if c.OffClass == cls {
					return true
				}
			}
			return false
		}
		features := "plain"
		switch {
		case has("2^31-to-2^32"):
			features = "has-offset-2^31-to-2^32"
		case has("ge-2^32"):
			features = "has-offset-ge-2^32"
		case row.NExtra > 0:
			features = "has-octopus"
		}
		writeAndVerify := func(src string, mk func() (commitgraph.Index, error)) error {
			var buf bytes.Buffer
			var encErr error
			func() {
				defer func() {
					if p := recover(); p != nil {
						encErr = fmt.Errorf("panic: %v", p)
					}
				}()
				var src commitgraph.Index
				src, encErr = mk()
				if encErr == nil {
					encErr = commitgraph.NewEncoder(&buf).Encode(src)
				}
			}()
			r.Eval(1)
			if encErr != nil {
				r.Diverge("Encode|error|"+features, "Encoder.Encode fails: "+encErr.Error(), map[string]any{"graph": row.G, "source": src})
				return nil
			}
			cleanGraphs()
			if err := os.WriteFile(filepath.Join(info, "commit-graph"), buf.Bytes(), 0o644); err != nil {
				return err
			}
			filesVerified++
			_, e, err := gitcli.Run(dir, nil, "commit-graph", "verify")
			if err != nil {
				r.Diverge("Encode|git-verify-rejects|"+features,
					fmt.Sprintf("git commit-graph verify rejects the file go-git's Encoder wrote (%s): %s", src, firstLine(e)),
					map[string]any{"graph": row.G, "source": src, "stderr": e, "chunks": row.Chunks, "commits": row.Commits})
				return nil // the file is not a commit-graph as far as git is concerned: nothing to read back
			}
			back, err := commitgraph.OpenChainOrFileIndex(gitfs)
			if err != nil {
				r.Diverge("Encode|own-file-unreadable|"+features, "go-git cannot open the file its Encoder wrote: "+err.Error(), map[string]any{"graph": row.G, "source": src})
				return nil
			}
			compare("Encode+Read", "file", cgFromIndex(back, hashes, byHash), true)
			back.Close()
			return nil
		}
		if err := writeAndVerify("spec-values", func() (commitgraph.Index, error) {
			mi := commitgraph.NewMemoryIndex()
			// insertion order must not matter: insert youngest first
			for i := n; i >= 1; i-- {
				c := row.Commits[i-1]
				var ph []plumbing.Hash
				for _, p := range c.Par {
					ph = append(ph, plumbing.NewHash(hashes[p]))
				}
				mi.Add(plumbing.NewHash(hashes[i]), &commitgraph.CommitData{TreeHash: plumbing.NewHash(trees[i]), ParentHashes: ph,
					Generation: uint64(c.Gen), GenerationV2: uint64(cgSecs(c.CD)), When: time.Unix(cgSecs(c.Tm), 0)})
			}
			return mi, nil
		}); err != nil {
			return err
		}
		if chainIdx != nil {
			if err := writeAndVerify("reencode-git-chain", func() (commitgraph.Index, error) { return chainIdx, nil }); err != nil {
				return err
			}
			chainIdx.Close()
		}
		r.Sample(map[string]any{"graph": row.G, "commits": n, "chunks": row.Chunks, "layers": layers, "nextra": row.NExtra, "noverflow": row.NOverflow})
		return nil
	})
	if err != nil {
		return err
	}
	r.Distinct = graphs
	r.Traces = filesVerified + gitFilesRead
	r.Extra["graphs"] = graphs
	r.Extra["files_written_by_gogit_and_verified_by_git"] = filesVerified
	r.Extra["git_files_and_chains_read_by_gogit"] = gitFilesRead
	r.Extra["git_leg"] = true
	return r.Emit()
}

func firstLine(s string) string {
	s = strings.TrimSpace(s)
	if i := strings.IndexByte(s, '\n'); i >= 0 {
		return s[:i]
	}
	return s
}
