package main

// C47: rows from spec/rules/Revision.tla (expression, expected commit or error, computed by TLC)
// are rendered to concrete revision strings over concrete repositories and compared three ways:
// spec / go-git Repository.ResolveRevision / git (cat-file --batch-check '<rev>^{commit}', plus a
// seeded sample through `git rev-parse --verify --quiet`).  Nothing about revision resolution is
// decided here: this file only renders symbols into bytes and projects hashes back to commit numbers.

import (
	"bytes"
	"compress/zlib"
	"crypto/sha1"
	"encoding/hex"
	"encoding/json"
	"fmt"
	"math/rand"
	"os"
	"path/filepath"
	"sort"
	"strings"

	"verifharness/internal/gitcli"
	"verifharness/internal/rep"

	git "github.com/go-git/go-git/v6"
	"github.com/go-git/go-git/v6/plumbing"
)

func init() { rep.Register("c47", c47) }

type revTarget struct {
	K string   `json:"k"`
	O int      `json:"o"`
	S []string `json:"s"`
}
type revRef struct {
	N []string  `json:"n"`
	T revTarget `json:"t"`
}
type revHex struct {
	Sym string `json:"sym"`
	O   int    `json:"o"`
	F   string `json:"f"`
}
type revRepo struct {
	R     int      `json:"r"`
	Par   [][]int  `json:"par"`
	Tm    []int    `json:"tm"`
	Msg   []string `json:"msg"`
	TagA  int      `json:"tagA"`
	Refs  []revRef `json:"refs"`
	TwinC []int    `json:"twinC"`
	TwinB []int    `json:"twinB"`
	Hex   []revHex `json:"hex"`
	Anc   [][]int  `json:"anc"`
}
type revRow struct {
	R    int      `json:"r"`
	N    []string `json:"n"`
	S    []string `json:"s"`
	Exp  int      `json:"exp"`
	Sup  bool     `json:"sup"`
	Why  string   `json:"why"`
	Bwhy string   `json:"bwhy"`
	Prev string   `json:"prev"`
}

// concrete repository
type revDisk struct {
	dir     string
	objs    map[string]string // hex id -> kind
	commit  []string          // 1-based: hex id of commit i
	tagA    string
	tagB    string
	tree1   string
	twins   map[string]bool
	hexsym  map[string]string // "#2p7" -> rendered
	byHash  map[string]int    // commit hex -> index
	msgText []string
}

func objID(kind string, body []byte) (string, []byte) {
	hdr := fmt.Sprintf("%s %d\x00", kind, len(body))
	full := append([]byte(hdr), body...)
	s := sha1.Sum(full)
	return hex.EncodeToString(s[:]), full
}

func (d *revDisk) put(kind string, body []byte) (string, error) {
	id, full := objID(kind, body)
	if _, ok := d.objs[id]; ok {
		return id, nil
	}
	p := filepath.Join(d.dir, ".git", "objects", id[:2], id[2:])
	if err := os.MkdirAll(filepath.Dir(p), 0o755); err != nil {
		return "", err
	}
	var buf bytes.Buffer
	w := zlib.NewWriter(&buf)
	w.Write(full)
	w.Close()
	if err := os.WriteFile(p, buf.Bytes(), 0o444); err != nil {
		return "", err
	}
	d.objs[id] = kind
	return id, nil
}

// message classes -> concrete messages preserving what the spec's patterns match
var revMsgVariants = map[string][]string{
	"fix":  {"fix\n", "a fix\n\ndetails\n"},
	"fix2": {"fix2\n", "title\n\nbody fix2 here\n"},
	"feat": {"feat\n", "feat: add\n\nmore\n"},
}

func ident(who string, t int) string {
	return fmt.Sprintf("%s <%s@example.com> %d +0000", who, strings.ToLower(who), 1000000000+1000*t)
}

// buildRevRepo renders the abstract repository; salt perturbs every object id (retry on accidental
// abbreviation collisions the spec does not know about).
func buildRevRepo(base string, ar *revRepo, rnd *rand.Rand, salt int) (*revDisk, error) {
	d := &revDisk{dir: filepath.Join(base, fmt.Sprintf("r%d-s%d", ar.R, salt)), objs: map[string]string{}, twins: map[string]bool{},
		hexsym: map[string]string{}, byHash: map[string]int{}}
	if err := os.MkdirAll(d.dir, 0o755); err != nil {
		return nil, err
	}
	if err := gitcli.Init(d.dir, false); err != nil {
		return nil, err
	}
	n := len(ar.Par)
	d.commit = make([]string, n+1)
	d.msgText = make([]string, n+1)
	trees := make([]string, n+1)
	for i := 1; i <= n; i++ {
		b, err := d.put("blob", []byte(fmt.Sprintf("c%d salt%d\n", i, salt)))
		if err != nil {
			return nil, err
		}
		raw, _ := hex.DecodeString(b)
		t, err := d.put("tree", append([]byte("100644 f\x00"), raw...))
		if err != nil {
			return nil, err
		}
		trees[i] = t
	}
	d.tree1 = trees[1]
	for i := 1; i <= n; i++ {
		var sb strings.Builder
		fmt.Fprintf(&sb, "tree %s\n", trees[i])
		for _, p := range ar.Par[i-1] {
			fmt.Fprintf(&sb, "parent %s\n", d.commit[p])
		}
		vs := revMsgVariants[ar.Msg[i-1]]
		d.msgText[i] = vs[rnd.Intn(len(vs))]
		fmt.Fprintf(&sb, "author %s\ncommitter %s\n\n%s", ident("Author", ar.Tm[i-1]), ident("Committer", ar.Tm[i-1]), d.msgText[i])
		id, err := d.put("commit", []byte(sb.String()))
		if err != nil {
			return nil, err
		}
		d.commit[i] = id
		d.byHash[id] = i
	}
	var err error
	d.tagA, err = d.put("tag", []byte(fmt.Sprintf("object %s\ntype commit\ntag vA\ntagger %s\n\nannotated\n", d.commit[ar.TagA], ident("Tagger", 0))))
	if err != nil {
		return nil, err
	}
	d.tagB, err = d.put("tag", []byte(fmt.Sprintf("object %s\ntype tag\ntag vB\ntagger %s\n\nnested\n", d.tagA, ident("Tagger", 0))))
	if err != nil {
		return nil, err
	}
	// twins: agree on exactly the first 4 hex digits
	twin := func(kind string, target string, mk func(nonce int) []byte) error {
		for nonce := 0; nonce < 5_000_000; nonce++ {
			body := mk(nonce)
			id, _ := objID(kind, body)
			// prefer a twin whose 5th digit has all the bits of the target's (a sloppy comparison of the
			// odd digit then cannot tell them apart); settle for any other digit after a while
			super := hexVal(id[4])&hexVal(target[4]) == hexVal(target[4])
			if id[:4] == target[:4] && id[4] != target[4] && (super || nonce > 600_000 || target[4] == 'f') {
				if _, err := d.put(kind, body); err != nil {
					return err
				}
				d.twins[id] = true
				return nil
			}
		}
		return fmt.Errorf("no twin found for %s", target)
	}
	for _, c := range ar.TwinC {
		c := c
		if err := twin("commit", d.commit[c], func(nonce int) []byte {
			return []byte(fmt.Sprintf("tree %s\nauthor %s\ncommitter %s\n\ntwin %d of c%d\n", trees[1], ident("Author", 0), ident("Committer", 0), nonce, c))
		}); err != nil {
			return nil, err
		}
	}
	for _, c := range ar.TwinB {
		c := c
		if err := twin("blob", d.commit[c], func(nonce int) []byte { return []byte(fmt.Sprintf("twin %d of c%d\n", nonce, c)) }); err != nil {
			return nil, err
		}
	}
	// hex symbols
	objOf := func(o int) string {
		switch {
		case o >= 1 && o <= n:
			return d.commit[o]
		case o == 6:
			return d.tagA
		case o == 7:
			return d.tagB
		case o == 8:
			return d.tree1
		}
		return ""
	}
	for _, h := range ar.Hex {
		id := objOf(h.O)
		var s string
		switch h.F {
		case "full":
			s = id
		case "p7", "p5", "p4", "p3":
			s = id[:int(h.F[1]-'0')]
		case "u7", "u5":
			s = strings.ToUpper(id[:int(h.F[1]-'0')])
		case "w7", "w5":
			// the right even-length part followed by a wrong last digit that no object has there;
			// digits whose bits are a subset of the real digit come first (0, then 8, 4, 2, 1, ...)
			k := int(h.F[1]-'0') - 1
			real := hexVal(id[k])
			s = ""
			for pass := 0; pass < 2 && s == ""; pass++ {
				for _, c := range "084213569acdb7ef" {
					v := hexVal(byte(c))
					if v == real || (pass == 0 && v&real != v) {
						continue
					}
					cand := id[:k] + string(c)
					free := true
					for oid := range d.objs {
						if strings.HasPrefix(oid, cand) {
							free = false
						}
					}
					if free {
						s = cand
						break
					}
				}
			}
			if s == "" {
				return nil, errCollision
			}
		default:
			return nil, fmt.Errorf("unknown hex form %q", h.F)
		}
		d.hexsym[h.Sym] = s
	}
	// the abbreviations must denote exactly what the spec assumes
	count := func(pfx string) int {
		k := 0
		for id := range d.objs {
			if strings.HasPrefix(id, strings.ToLower(pfx)) {
				k++
			}
		}
		return k
	}
	hasTwin := map[int]bool{}
	for _, c := range ar.TwinC {
		hasTwin[c] = true
	}
	for _, c := range ar.TwinB {
		hasTwin[c] = true
	}
	for _, h := range ar.Hex {
		if h.F == "full" {
			continue
		}
		want := 1
		if hasTwin[h.O] && (h.F == "p4" || h.F == "p3") {
			want = 2
		}
		if h.F == "w5" || h.F == "w7" {
			want = 0
		}
		if count(d.hexsym[h.Sym]) != want {
			return nil, errCollision
		}
		// a letter-free prefix cannot be upper-cased: the spec's "uppercase" class needs a letter
		if (h.F == "u7" || h.F == "u5") && d.hexsym[h.Sym] == strings.ToLower(d.hexsym[h.Sym]) {
			return nil, errCollision
		}
	}
	// references, written as loose files
	for _, rf := range ar.Refs {
		name := d.renderName(rf.N)
		p := filepath.Join(d.dir, ".git", filepath.FromSlash(name))
		if err := os.MkdirAll(filepath.Dir(p), 0o755); err != nil {
			return nil, err
		}
		var content string
		if rf.T.K == "sym" {
			content = "ref: " + d.renderName(rf.T.S) + "\n"
		} else {
			content = objOf(rf.T.O) + "\n"
		}
		if err := os.WriteFile(p, []byte(content), 0o644); err != nil {
			return nil, err
		}
	}
	return d, nil
}

var errCollision = fmt.Errorf("abbreviation collision")

func hexVal(c byte) int {
	if c >= 'a' {
		return int(c-'a') + 10
	}
	return int(c - '0')
}

func (d *revDisk) renderName(n []string) string {
	parts := make([]string, len(n))
	for i, c := range n {
		if strings.HasPrefix(c, "#") {
			parts[i] = d.hexsym[c]
		} else {
			parts[i] = c
		}
	}
	return strings.Join(parts, "/")
}

func (d *revDisk) renderExpr(row *revRow) string {
	if len(row.N) == 2 && row.N[0] == ":/" {
		return ":/" + row.N[1]
	}
	return d.renderName(row.N) + strings.Join(row.S, "")
}

func isColon(row *revRow) bool { return len(row.N) == 2 && row.N[0] == ":/" }

func absKey(row *revRow) string { return strings.Join(row.N, "/") + strings.Join(row.S, "") }

// project a go-git answer to the abstract vocabulary: commit number, 0 = error, -1 twin, -2 other object
func (d *revDisk) project(h *plumbing.Hash, err error) int {
	if err != nil || h == nil {
		return 0
	}
	s := h.String()
	if i, ok := d.byHash[s]; ok {
		return i
	}
	if d.twins[s] {
		return -1
	}
	return -2
}

func resolveGoGit(r *git.Repository, expr string) (h *plumbing.Hash, err error) {
	defer func() {
		if p := recover(); p != nil {
			h, err = nil, fmt.Errorf("panic: %v", p)
		}
	}()
	return r.ResolveRevision(plumbing.Revision(expr))
}

func c47(args []string) error {
	if len(args) < 2 {
		return fmt.Errorf("usage: c47 repos.ndjson rows.ndjson")
	}
	r := rep.New()
	rnd := rand.New(rand.NewSource(rep.Seed()))
	gitOK := gitcli.Available()
	var repos []*revRepo
	if err := rep.ReadNDJSON(args[0], func(line []byte) error {
		var ar revRepo
		if err := json.Unmarshal(line, &ar); err != nil {
			return err
		}
		repos = append(repos, &ar)
		return nil
	}); err != nil {
		return err
	}
	rows := map[int][]*revRow{}
	if err := rep.ReadNDJSON(args[1], func(line []byte) error {
		var row revRow
		if err := json.Unmarshal(line, &row); err != nil {
			return err
		}
		rows[row.R] = append(rows[row.R], &row)
		return nil
	}); err != nil {
		return err
	}
	base := gitcli.TempDir("c47")
	layouts := []string{"loose"}
	if rep.Thorough() {
		layouts = append(layouts, "packed")
	}
	distinct := 0
	unsupportedRejected, derived, gitChecked, revParseChecked, saltRetries := 0, 0, 0, 0, 0
	classes := map[string]int{}
	for _, ar := range repos {
		var d *revDisk
		var err error
		for salt := 0; salt < 40; salt++ {
			d, err = buildRevRepo(base, ar, rnd, salt)
			if err == errCollision {
				saltRetries++
				continue
			}
			break
		}
		if err != nil {
			return fmt.Errorf("repo %d: %v", ar.R, err)
		}
		rs := rows[ar.R]
		sort.SliceStable(rs, func(i, j int) bool {
			if len(rs[i].S) != len(rs[j].S) {
				return len(rs[i].S) < len(rs[j].S)
			}
			return absKey(rs[i]) < absKey(rs[j])
		})
		anc := map[int]map[int]bool{}
		for i, a := range ar.Anc {
			anc[i+1] = map[int]bool{}
			for _, x := range a {
				anc[i+1][x] = true
			}
		}
		for _, layout := range layouts {
			if layout == "packed" {
				if !gitOK {
					continue
				}
				if _, e, err := gitcli.Run(d.dir, nil, "repack", "-a", "-d", "-k", "-q"); err != nil {
					return fmt.Errorf("repack: %v %s", err, e)
				}
				if _, e, err := gitcli.Run(d.dir, nil, "pack-refs", "--all"); err != nil {
					return fmt.Errorf("pack-refs: %v %s", err, e)
				}
			}
			// ---- git leg: one cat-file --batch-check per repository and layout
			gitAns := make([]int, len(rs))
			if gitOK {
				var in bytes.Buffer
				for _, row := range rs {
					e := d.renderExpr(row)
					if !isColon(row) {
						e += "^{commit}"
					}
					in.WriteString(e)
					in.WriteByte('\n')
				}
				out, stderr, err := gitcli.Run(d.dir, in.Bytes(), "cat-file", "--batch-check")
				if err != nil {
					return fmt.Errorf("cat-file --batch-check: %v %s", err, stderr)
				}
				lines := strings.Split(strings.TrimSuffix(out, "\n"), "\n")
				if len(lines) != len(rs) {
					return fmt.Errorf("cat-file --batch-check: %d answers for %d questions", len(lines), len(rs))
				}
				for i, ln := range lines {
					f := strings.Fields(ln)
					gitAns[i] = 0
					if len(f) == 3 && f[1] == "commit" {
						if idx, ok := d.byHash[f[0]]; ok {
							gitAns[i] = idx
						} else if d.twins[f[0]] {
							gitAns[i] = -1
						} else {
							gitAns[i] = -2
						}
					} else if len(f) == 3 {
						gitAns[i] = -2
					}
					gitChecked++
				}
				// the property's own observation point on a seeded sample
				nsamp := 40
				if rep.Thorough() {
					nsamp = 150
				}
				for k := 0; k < nsamp && len(rs) > 0; k++ {
					i := rnd.Intn(len(rs))
					e := d.renderExpr(rs[i])
					if !isColon(rs[i]) {
						e += "^{commit}"
					}
					out, _, err := gitcli.Run(d.dir, nil, "rev-parse", "--verify", "--quiet", e)
					a := 0
					if err == nil {
						if idx, ok := d.byHash[strings.TrimSpace(out)]; ok {
							a = idx
						} else {
							a = -2
						}
					}
					revParseChecked++
					if a != gitAns[i] {
						return fmt.Errorf("git rev-parse --verify and cat-file --batch-check disagree on %q: %d vs %d", e, a, gitAns[i])
					}
				}
			}
			// ---- go-git leg
			gr, err := git.PlainOpen(d.dir)
			if err != nil {
				return fmt.Errorf("PlainOpen: %v", err)
			}
			diverged := map[string]bool{}
			for i, row := range rs {
				expr := d.renderExpr(row)
				h, gerr := resolveGoGit(gr, expr)
				got := d.project(h, gerr)
				r.Eval(1)
				distinct++
				c := map[string]any{"repo": ar.R, "layout": layout, "expr": expr, "abstract": absKey(row), "spec": row.Exp, "gogit": got,
					"why": row.Why, "base": row.Bwhy, "supported": row.Sup}
				if gerr != nil {
					c["gogit_err"] = gerr.Error()
				}
				if gitOK {
					c["git"] = gitAns[i]
					if gitAns[i] != row.Exp {
						r.SpecError(c)
						continue
					}
				}
				r.Sample(c)
				if got == row.Exp {
					continue
				}
				key := absKey(row)
				diverged[key] = true
				if !row.Sup && got == 0 {
					// a form go-git documents as not accepted (^3 and above, :/re): refusing is not a wrong answer
					unsupportedRejected++
					continue
				}
				if len(row.S) > 0 && diverged[strings.Join(row.N, "/")+strings.Join(row.S[:len(row.S)-1], "")] {
					derived++ // the shorter expression already diverges; reported there
					continue
				}
				class, rel := "", ""
				switch {
				case row.Exp == 0:
					class = "resolves-unresolvable"
				case got == 0:
					class = "rejects-resolvable"
					if gerr != nil && strings.HasPrefix(gerr.Error(), "panic") {
						class = "panics"
					}
				default:
					class = "wrong-commit"
					switch {
					case got < 0:
						rel = "foreign-object"
					case anc[row.Exp][got]:
						rel = "ancestor-of-expected"
					case anc[got][row.Exp]:
						rel = "descendant-of-expected"
					default:
						rel = "unrelated"
					}
					c["got_relation"] = rel
				}
				sig := "ResolveRevision|" + class + "|" + scenarioKey(row)
				classes[class]++
				r.Diverge(sig, fmt.Sprintf("ResolveRevision(%q) = %s, git rev-parse %q = %s (spec: %s)", expr, showAns(got, gerr), expr+"^{commit}", showAns(row.Exp, nil), scenarioKey(row)), c)
			}
		}
	}
	r.Distinct = distinct
	r.Extra["git_leg"] = gitOK
	r.Extra["git_checked"] = gitChecked
	r.Extra["git_rev_parse_sampled"] = revParseChecked
	r.Extra["unsupported_form_rejected_by_gogit"] = unsupportedRejected
	r.Extra["derived_divergences_not_reported"] = derived
	r.Extra["salt_retries"] = saltRetries
	r.Extra["repositories"] = len(repos)
	r.Extra["layouts"] = layouts
	r.Extra["divergence_classes"] = classes
	return r.Emit()
}

// scenarioKey: the spec-level scenario of the shortest diverging expression (finite, seed-independent)
func scenarioKey(row *revRow) string {
	base := strings.TrimSuffix(row.Bwhy, "-to-commit")
	if strings.Contains(base, "-shadows-short-oid") {
		base = "ref-shadows-short-oid" // whichever rule finds the ref and whatever it points at
	}
	if strings.HasPrefix(base, "ref-toplevel-name") {
		base = "ref-toplevel-name" // a ref file directly under $GIT_DIR other than HEAD (rule 1)
	} else if strings.HasSuffix(base, "-to-nested-tag") {
		base = "ref-to-nested-tag"
	}
	if strings.HasPrefix(base, "short-oid-uppercase") {
		base = "short-oid-uppercase"
	}
	switch {
	case len(row.S) == 0:
		return base
	case row.Why == "after-error" || strings.HasPrefix(row.Why, "after-error"):
		return base + "+" + row.S[0][:1] + "-suffix" // the base name fails under this suffix's lookup hint
	case row.Prev == "peel":
		return "suffix-after-empty-braces"
	}
	return "step:" + row.Why
}

func showAns(a int, err error) string {
	switch {
	case a > 0:
		return fmt.Sprintf("commit c%d", a)
	case a == 0 && err != nil:
		return "error(" + err.Error() + ")"
	case a == 0:
		return "error"
	case a == -1:
		return "the unreachable twin commit"
	}
	return "another object"
}
