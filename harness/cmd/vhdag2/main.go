package main

import "verifharness/internal/rep"

func main() { rep.Main() }
