// Command vsrv serves one go-git repository over stdin/stdout so that the real git
// client can talk to go-git's server side:
//
//	git -c remote.origin.uploadpack='vsrv upload-pack' fetch ...
//	git push --receive-pack='vsrv receive-pack' ...
//
// The protocol version requested by the client arrives in GIT_PROTOCOL.
package main

import (
	"context"
	"fmt"
	"io"
	"os"

	"github.com/go-git/go-billy/v6/osfs"
	"github.com/go-git/go-git/v6/plumbing/transport"
	"github.com/go-git/go-git/v6/storage/filesystem"
)

func main() {
	if len(os.Args) < 3 {
		fmt.Fprintln(os.Stderr, "usage: vsrv upload-pack|receive-pack <dir>")
		os.Exit(2)
	}
	svc, path := os.Args[1], os.Args[len(os.Args)-1]
	fs := osfs.New(path)
	if _, err := fs.Stat(".git"); err == nil {
		fs, _ = fs.Chroot(".git")
	}
	st := filesystem.NewStorage(fs, nil)
	defer st.Close()
	// go-git's servers close the reader between protocol rounds; like go-git's own file
	// transport (io.NopCloser(pipe)) the connection must survive that.
	in := io.NopCloser(os.Stdin)
	var err error
	proto := os.Getenv("GIT_PROTOCOL")
	switch svc {
	case "upload-pack":
		err = transport.UploadPack(context.Background(), st, in, os.Stdout, &transport.UploadPackRequest{GitProtocol: proto})
	case "receive-pack":
		err = transport.ReceivePack(context.Background(), st, in, os.Stdout, &transport.ReceivePackRequest{GitProtocol: proto})
	default:
		err = fmt.Errorf("unknown service %s", svc)
	}
	if err != nil {
		fmt.Fprintln(os.Stderr, "vsrv:", err)
		os.Exit(1)
	}
}
