----------------------------- MODULE MCNegotiate -----------------------------
EXTENDS Negotiate
NDags3 == {p \in [1..3 -> SUBSET (1..3)] : \A c \in 1..3 : p[c] \subseteq 1..(c-1)}
NDags4 == {p \in [1..4 -> SUBSET (1..4)] : \A c \in 1..4 : p[c] \subseteq 1..(c-1) /\ Cardinality(p[c]) <= 2}
NDags5 == {p \in [1..5 -> SUBSET (1..5)] : \A c \in 1..5 : p[c] \subseteq 1..(c-1) /\ Cardinality(p[c]) <= 2 /\ (c > 1 => p[c] # {})}
=============================================================================
