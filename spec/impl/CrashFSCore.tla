---------------------------- MODULE CrashFSCore ----------------------------
(* C21 (shared definitions; the model is CrashFS, the trace validation CrashFSTrace).
   The abstract .git tree of a repository and the filesystem steps by which go-git mutates it.

   Part 1  the property: Recoverable, stated on a *view* (what an observer who opens the directory
           after the crash can see).  The same predicate judges (a) the states of the small model below,
           (b) the abstract states obtained by replaying recorded step sequences of the real operations
           (CrashFSTrace) and (c) the fact records projected from real crashed directories (CrashFSTrace).
   Part 2  the machine: state = tokens of the live files (HEAD, config, index, each loose ref file),
           the packed-refs table, the set of loose objects, the packs with their object sets;
           Apply(W, S, step) is the effect of one filesystem step, in the vocabulary the harness records
           (kind, path class, ref / object / pack attribute).  A crash may follow any step: every reachable
           state is a crash state.  A Write may be torn: the state with token "torn" is reachable too.
   Part 3  the write-ordering discipline as guards on steps, and the model: every operation in two styles,
           "gogit" (the step order go-git really performs, as recorded) and "safe" (temp file + rename for
           live files, pack in place before loose objects go).  TLC checks
                 Clean => Recoverable      (the discipline implies recoverability, all ops, all crash points)
           and reports every unrecoverable state of the "gogit" style (the predicted windows).           *)
EXTENDS Integers, Sequences, FiniteSets, TLC, Json

ToSet(s) == {s[i] : i \in 1..Len(s)}

(* ------------------------------------------------------------------ Part 1: the property *)

Conjuncts == <<"opens", "config", "index", "lists", "ref-unresolved", "ref-lost", "old-closure",
               "ref-closure", "ref-foreign", "git-fsck", "git-show-ref", "git-old-objects">>

(* A view is a record
     init        the directory was not a repository before the operation and HEAD does not yet hold its final
                 value: the operation is still creating the repository (clone); nothing can have been lost
     opens       go-git opens it                       config / index   they decode
     lists       the references can be enumerated      unresolved        a reference that is present does not resolve
     lost        a reference that exists before and after the operation is absent
     oldclosure  every object reachable from a reference of the before-state is readable
     refclosure  every object reachable from every present reference is readable
     foreign     some reference holds a value that is neither its before- nor its after-value
     gitrun      git was asked;  gfsck / gshow / gold   `git fsck --connectivity-only`, `git show-ref`,
                 `git cat-file --batch-check` over the before-closure succeeded                                *)
Holds(v, c) ==
  CASE c = "opens"           -> v.opens
    [] c = "config"          -> ~v.opens \/ v.config
    [] c = "index"           -> ~v.opens \/ v.index
    [] c = "lists"           -> ~v.opens \/ v.lists
    [] c = "ref-unresolved"  -> ~v.opens \/ ~v.lists \/ ~v.unresolved
    [] c = "ref-lost"        -> ~v.opens \/ ~v.lists \/ ~v.lost
    [] c = "old-closure"     -> ~v.opens \/ v.oldclosure
    [] c = "ref-closure"     -> ~v.opens \/ ~v.lists \/ v.refclosure
    [] c = "ref-foreign"     -> ~v.opens \/ ~v.lists \/ ~v.foreign
    [] c = "git-fsck"        -> ~v.gitrun \/ v.gfsck
    [] c = "git-show-ref"    -> ~v.gitrun \/ v.gshow
    [] c = "git-old-objects" -> ~v.gitrun \/ v.gold

FailedOf(v) == IF v.init THEN <<>> ELSE SelectSeq(Conjuncts, LAMBDA c : ~Holds(v, c))
Recoverable(v) == FailedOf(v) = <<>>

(* ------------------------------------------------------------------ Part 2: the machine *)

(* World W: refs (names), both (names present before and after), need[r].old / .new (objects reachable from the
   before / after value of r), oldset, isrepo.
   State S: f[file] token in {"absent","empty","torn","partial","old","new","other"} for HEAD, config, index and every
   loose ref file; pk[r] token of r inside packed-refs; loose (objects); packs[p] = [objs, pack, idx].       *)

Scalar == {"HEAD", "config", "index"}
FileOf(st) == IF st.cls = "ref" THEN st.ref ELSE st.cls
Live(st) == st.cls \in Scalar \/ st.cls = "ref"

PackVisible(S, p) == S.packs[p].pack /\ S.packs[p].idx = "ok"
Present(S) == S.loose \cup UNION {S.packs[p].objs : p \in {q \in DOMAIN S.packs : PackVisible(S, q)}}
PkOf(S, r) == IF r \in DOMAIN S.pk THEN S.pk[r] ELSE "absent"
RefVal(S, r) == IF S.f[r] # "absent" THEN S.f[r] ELSE PkOf(S, r)
LooseRefs(W) == W.refs \ {"HEAD"}
NeedOf(W, r, tok) == IF tok = "old" THEN W.need[r].old ELSE IF tok = "new" THEN W.need[r].new ELSE {}
NeededNow(W, S) == W.oldset \cup UNION {NeedOf(W, r, RefVal(S, r)) : r \in LooseRefs(W)}

NoPack == [objs |-> {}, pack |-> FALSE, idx |-> "absent"]
PackOf(S, p) == IF p \in DOMAIN S.packs THEN S.packs[p] ELSE NoPack
SetPack(S, p, v) == [S EXCEPT !.packs = [q \in DOMAIN S.packs \cup {p} |-> IF q = p THEN v ELSE S.packs[q]]]

Apply(W, S, st) ==
  IF Live(st) THEN
    LET id == FileOf(st) IN
    CASE st.kind \in {"CreateNew", "OpenTrunc", "Truncate"} -> [S EXCEPT !.f[id] = "empty"]
      [] st.kind = "Write"  -> [S EXCEPT !.f[id] = IF st.last THEN st.val ELSE "partial"]
      [] st.kind = "Remove" -> [S EXCEPT !.f[id] = "absent"]
      [] st.kind = "Rename" -> [S EXCEPT !.f[id] = st.val]        \* temp file renamed over a live file (safe style)
      [] OTHER -> S
  ELSE IF st.cls = "packed-refs" /\ st.kind = "Rename" THEN [S EXCEPT !.pk = st.pk]
  ELSE IF st.cls = "loose-object" /\ st.kind = "Rename" THEN [S EXCEPT !.loose = @ \cup {st.obj}]
  ELSE IF st.cls = "loose-object" /\ st.kind = "Remove" THEN [S EXCEPT !.loose = @ \ {st.obj}]
  ELSE IF st.cls = "idx" /\ st.kind \in {"CreateNew", "OpenTrunc"} THEN SetPack(S, st.pack, [PackOf(S, st.pack) EXCEPT !.idx = "partial"])
  ELSE IF st.cls = "idx" /\ st.kind = "Write" /\ st.last THEN SetPack(S, st.pack, [PackOf(S, st.pack) EXCEPT !.idx = "ok"])
  ELSE IF st.cls = "idx" /\ st.kind = "Remove" THEN SetPack(S, st.pack, [PackOf(S, st.pack) EXCEPT !.idx = "absent"])
  ELSE IF st.cls = "pack" /\ st.kind = "Rename" THEN SetPack(S, st.pack, [PackOf(S, st.pack) EXCEPT !.pack = TRUE, !.objs = st.objs])
  ELSE IF st.cls = "pack" /\ st.kind = "Remove" THEN SetPack(S, st.pack, [PackOf(S, st.pack) EXCEPT !.pack = FALSE])
  ELSE S    \* temp files, directories, rev files, worktree files: invisible to the observer

(* the torn variant of a Write step: what the file holds if the process dies inside the write *)
Tear(W, S, st) == IF Live(st) /\ st.kind = "Write" THEN [S EXCEPT !.f[FileOf(st)] = "torn"] ELSE S

ViewOf(W, S) ==
  LET vals == [r \in LooseRefs(W) |-> RefVal(S, r)] IN
  [init       |-> ~W.isrepo /\ S.f["HEAD"] # "new",
   opens      |-> S.f["HEAD"] \notin {"absent", "empty"} /\ S.f["config"] \notin {"torn", "partial"},
   config     |-> S.f["config"] \notin {"torn", "partial"},
   index      |-> S.f["index"] \in {"absent", "old", "new"},
   lists      |-> \A r \in LooseRefs(W) : S.f[r] # "empty",
   unresolved |-> S.f["HEAD"] \in {"torn", "partial"},
   lost       |-> \E r \in LooseRefs(W) \cap W.both : vals[r] = "absent",
   oldclosure |-> W.oldset \subseteq Present(S),
   refclosure |-> \A r \in LooseRefs(W) : /\ NeedOf(W, r, vals[r]) \subseteq Present(S)
                                          /\ vals[r] \notin {"torn", "partial"},
   foreign    |-> S.f["HEAD"] \in {"other", "torn", "partial"} \/ \E r \in LooseRefs(W) : vals[r] \in {"other", "torn", "partial"},
   gitrun     |-> FALSE, gfsck |-> TRUE, gshow |-> TRUE, gold |-> TRUE]

(* ------------------------------------------------------------------ Part 3: the discipline *)

(* Guards: the names of the ordering rules a step violates in state S. *)
SetsRef(st) == st.cls = "ref" /\ st.kind \in {"Write", "Rename"}
Violations(W, S, st) ==
  {g \in {"in-place-rewrite", "objects-before-ref", "pack-before-loose", "new-pack-before-old-pack", "packed-before-loose-ref"} :
     CASE g = "in-place-rewrite" ->
            Live(st) /\ st.kind \in {"CreateNew", "OpenTrunc", "Truncate", "Write"}
       [] g = "objects-before-ref" ->
            SetsRef(st) /\ ~(NeedOf(W, st.ref, st.val) \subseteq Present(S))
       [] g = "pack-before-loose" ->
            st.cls = "loose-object" /\ st.kind = "Remove" /\ st.obj \in NeededNow(W, S)
              /\ st.obj \notin Present([S EXCEPT !.loose = @ \ {st.obj}])
       [] g = "new-pack-before-old-pack" ->
            st.cls \in {"pack", "idx"} /\ st.kind = "Remove"
              /\ ~(NeededNow(W, S) \subseteq Present(Apply(W, S, st)))
       [] g = "packed-before-loose-ref" ->
            st.cls = "ref" /\ st.kind = "Remove" /\ st.ref \in W.both /\ PkOf(S, st.ref) # S.f[st.ref]}
=============================================================================
