--------------------------- MODULE SharedFilePool ---------------------------
(* Implementation-level model of go-git's pooled, reference-counted pack file
   descriptors (C24): internal/sharedfile.SharedFile and x/fdpool.Pool.  One action
   per mutex critical section of the Go code:

     SharedFile (s.mu):  AcquireCS, Release, TimerFire, CloseCS, ReleaseNow (body shared by
                         the pool's eviction and CloseIdleDescriptors), Pinned (= WalkStep)
     Pool (p.mu):        TouchStart (hit -> move to front | register, maybe start the
                         eviction walk), WalkStep (one Pinned() per step: other goroutines'
                         SharedFile sections interleave, the pool lock stays held),
                         EvSelect (remove victim, clear its handle, DROP p.mu), Forget
     between sections:   after AcquireCS and before Touch ("touch"), after CloseCS and
                         before Forget ("forget"), after EvSelect and before the victim's
                         ReleaseNow ("relnow") - these are the hook yield points.

   fdid models descriptor identity: every (re)open yields a fresh descriptor; a
   reader holds the descriptor it was handed.                                   *)
EXTENDS Naturals, Sequences, FiniteSets, TLC

CONSTANTS Files, Threads, Cap, UsePool, MaxOps

VARIABLES refs, open, fdid, closed, immediate, timer, gen,   \* per file (SharedFile fields)
          lru, reg,                                           \* pool: sequence, front = MRU; handle registered?
          pc, cur, held, walk, victim, ops                    \* per thread
vars == <<refs, open, fdid, closed, immediate, timer, gen, lru, reg, pc, cur, held, walk, victim, ops>>
NoFile == "nofile"

Init ==
  /\ refs = [f \in Files |-> 0] /\ open = [f \in Files |-> FALSE] /\ fdid = [f \in Files |-> 0]
  /\ closed = [f \in Files |-> FALSE] /\ immediate = [f \in Files |-> FALSE]
  /\ timer = [f \in Files |-> 0] /\ gen = [f \in Files |-> 0]      \* timer = 0: none, else gen+1 it was armed at
  /\ lru = <<>> /\ reg = [f \in Files |-> FALSE]
  /\ pc = [t \in Threads |-> "idle"] /\ cur = [t \in Threads |-> NoFile]
  /\ held = [t \in Threads |-> [f \in Files |-> <<>>]]   \* descriptors (fdids) this thread holds per file
  /\ walk = [t \in Threads |-> 0] /\ victim = [t \in Threads |-> NoFile] /\ ops = 0

Remove(s, e) == SelectSeq(s, LAMBDA x : x # e)

\* ---- SharedFile.Acquire critical section (s.mu)
AcquireCS(t, f) ==
  /\ pc[t] = "idle" /\ ops < MaxOps /\ ops' = ops + 1
  /\ IF closed[f] THEN UNCHANGED <<refs, open, fdid, timer, gen, held, pc, cur>>     \* ErrClosed
     ELSE /\ timer' = [timer EXCEPT ![f] = 0]
          /\ open' = [open EXCEPT ![f] = TRUE]
          /\ fdid' = [fdid EXCEPT ![f] = IF open[f] THEN @ ELSE @ + 1]
          /\ refs' = [refs EXCEPT ![f] = @ + 1] /\ gen' = [gen EXCEPT ![f] = @ + 1]
          /\ held' = [held EXCEPT ![t][f] = Append(@, fdid'[f])]
          /\ IF UsePool THEN pc' = [pc EXCEPT ![t] = "touch"] /\ cur' = [cur EXCEPT ![t] = f]
             ELSE UNCHANGED <<pc, cur>>
  /\ UNCHANGED <<closed, immediate, lru, reg, walk, victim>>

\* p.mu is held by a thread that is inside the eviction walk
PoolFree == \A t \in Threads : pc[t] \notin {"walk", "evsel"}

\* ---- Pool.Touch entry (p.mu)
TouchStart(t) ==
  /\ pc[t] = "touch" /\ PoolFree
  /\ LET f == cur[t] IN
     IF reg[f] THEN /\ lru' = <<f>> \o Remove(lru, f) /\ pc' = [pc EXCEPT ![t] = "idle"] /\ cur' = [cur EXCEPT ![t] = NoFile]
                    /\ UNCHANGED <<reg, walk>>
     ELSE /\ lru' = <<f>> \o lru /\ reg' = [reg EXCEPT ![f] = TRUE]
          /\ IF Len(lru') > Cap THEN pc' = [pc EXCEPT ![t] = "walk"] /\ walk' = [walk EXCEPT ![t] = Len(lru')] /\ UNCHANGED cur
             ELSE pc' = [pc EXCEPT ![t] = "idle"] /\ cur' = [cur EXCEPT ![t] = NoFile] /\ UNCHANGED walk
  /\ UNCHANGED <<refs, open, fdid, closed, immediate, timer, gen, held, victim, ops>>

\* ---- one Pinned() probe of the back-to-front walk (victim's s.mu; p.mu still held)
WalkStep(t) ==
  /\ pc[t] = "walk" /\ walk[t] >= 2
  /\ LET i == walk[t] IN
       IF refs[lru[i]] = 0
         THEN /\ victim' = [victim EXCEPT ![t] = lru[i]] /\ pc' = [pc EXCEPT ![t] = "evsel"] /\ UNCHANGED walk
         ELSE /\ walk' = [walk EXCEPT ![t] = i - 1] /\ UNCHANGED <<victim, pc>>
  /\ UNCHANGED <<refs, open, fdid, closed, immediate, timer, gen, lru, reg, cur, held, ops>>

\* ---- victim chosen (an unpinned member, or the LRU tail when every member is pinned):
\*      unlink it, clear its handle, drop p.mu
EvSelect(t) ==
  /\ pc[t] = "evsel" \/ (pc[t] = "walk" /\ walk[t] <= 1)
  /\ LET v == IF pc[t] = "evsel" THEN victim[t] ELSE lru[Len(lru)] IN
       /\ lru' = Remove(lru, v) /\ reg' = [reg EXCEPT ![v] = FALSE]
       /\ victim' = [victim EXCEPT ![t] = v]
  /\ pc' = [pc EXCEPT ![t] = "relnow"]
  /\ UNCHANGED <<refs, open, fdid, closed, immediate, timer, gen, cur, held, walk, ops>>

\* ---- SharedFile.ReleaseNow body (s.mu)
ReleaseNowBody(f) ==
  IF closed[f] THEN UNCHANGED <<timer, gen, open, immediate>>
  ELSE /\ timer' = [timer EXCEPT ![f] = 0] /\ gen' = [gen EXCEPT ![f] = @ + 1]
       /\ IF refs[f] = 0 THEN open' = [open EXCEPT ![f] = FALSE] /\ UNCHANGED immediate
          ELSE immediate' = [immediate EXCEPT ![f] = TRUE] /\ UNCHANGED open

EvReleaseNow(t) ==
  /\ pc[t] = "relnow" /\ ReleaseNowBody(victim[t])
  /\ pc' = [pc EXCEPT ![t] = "idle"] /\ cur' = [cur EXCEPT ![t] = NoFile] /\ victim' = [victim EXCEPT ![t] = NoFile]
  /\ UNCHANGED <<refs, fdid, closed, lru, reg, held, walk, ops>>

\* ---- SharedFile.Release (s.mu)
Release(t, f) ==
  /\ pc[t] = "idle" /\ held[t][f] # <<>>
  /\ held' = [held EXCEPT ![t][f] = Tail(@)]
  /\ IF refs[f] = 0 THEN UNCHANGED <<refs, gen, open, immediate, timer>>
     ELSE /\ refs' = [refs EXCEPT ![f] = @ - 1] /\ gen' = [gen EXCEPT ![f] = @ + 1]
          /\ IF refs'[f] > 0 \/ closed[f] \/ ~open[f] THEN UNCHANGED <<open, immediate, timer>>
             ELSE IF immediate[f] THEN /\ immediate' = [immediate EXCEPT ![f] = FALSE]
                                       /\ open' = [open EXCEPT ![f] = FALSE] /\ UNCHANGED timer
             ELSE IF UsePool THEN UNCHANGED <<open, immediate, timer>>
             ELSE /\ timer' = [timer EXCEPT ![f] = gen'[f] + 1] /\ UNCHANGED <<open, immediate>>
  /\ UNCHANGED <<fdid, closed, lru, reg, pc, cur, walk, victim, ops>>

\* ---- grace timer callback (s.mu)
TimerFire(f) ==
  /\ timer[f] # 0
  /\ timer' = [timer EXCEPT ![f] = 0]
  /\ IF closed[f] \/ gen[f] + 1 # timer[f] \/ refs[f] > 0 \/ ~open[f] THEN UNCHANGED open
     ELSE open' = [open EXCEPT ![f] = FALSE]
  /\ UNCHANGED <<refs, fdid, closed, immediate, gen, lru, reg, pc, cur, held, walk, victim, ops>>

\* ---- SharedFile.Close critical section (s.mu)
CloseCS(t, f) ==
  /\ pc[t] = "idle" /\ ~closed[f] /\ ops < MaxOps /\ ops' = ops + 1
  /\ closed' = [closed EXCEPT ![f] = TRUE] /\ gen' = [gen EXCEPT ![f] = @ + 1]
  /\ timer' = [timer EXCEPT ![f] = 0] /\ open' = [open EXCEPT ![f] = FALSE]
  /\ IF UsePool THEN pc' = [pc EXCEPT ![t] = "forget"] /\ cur' = [cur EXCEPT ![t] = f] ELSE UNCHANGED <<pc, cur>>
  /\ UNCHANGED <<refs, fdid, immediate, lru, reg, held, walk, victim>>

\* ---- Pool.Forget (p.mu)
Forget(t) ==
  /\ pc[t] = "forget" /\ PoolFree
  /\ lru' = Remove(lru, cur[t]) /\ reg' = [reg EXCEPT ![cur[t]] = FALSE]
  /\ pc' = [pc EXCEPT ![t] = "idle"] /\ cur' = [cur EXCEPT ![t] = NoFile]
  /\ UNCHANGED <<refs, open, fdid, closed, immediate, timer, gen, held, walk, victim, ops>>

\* ---- ReleaseNow called from outside the pool (CloseIdleDescriptors)
ExtReleaseNow(t, f) ==
  /\ pc[t] = "idle" /\ ops < MaxOps /\ ops' = ops + 1 /\ ReleaseNowBody(f)
  /\ UNCHANGED <<refs, fdid, closed, lru, reg, pc, cur, held, walk, victim>>

Next == \/ \E t \in Threads, f \in Files : AcquireCS(t, f) \/ Release(t, f) \/ CloseCS(t, f) \/ ExtReleaseNow(t, f)
        \/ \E t \in Threads : TouchStart(t) \/ WalkStep(t) \/ EvSelect(t) \/ EvReleaseNow(t) \/ Forget(t)
        \/ \E f \in Files : TimerFire(f)
Spec == Init /\ [][Next]_vars
FairSpec == Spec /\ \A f \in Files : WF_vars(TimerFire(f))

\* ---------------------------------------------------------------- properties (C24)
\* a descriptor handed to a reader stays the same open descriptor until released, unless Close was called
HeldOpen == \A t \in Threads, f \in Files : \A i \in 1..Len(held[t][f]) :
              ~closed[f] => (open[f] /\ fdid[f] = held[t][f][i])
RECURSIVE SumHeldOver(_, _)
SumHeldOver(TS, f) == IF TS = {} THEN 0 ELSE LET x == CHOOSE y \in TS : TRUE IN Len(held[x][f]) + SumHeldOver(TS \ {x}, f)
RefCount == \A f \in Files : refs[f] = SumHeldOver(Threads, f)
Pinned == {f \in Files : refs[f] > 0}
InFlight == {victim[t] : t \in {u \in Threads : pc[u] = "relnow"}}
\* evictions in flight (victim unlinked, its ReleaseNow not yet run) are the only transient excess
OpenBound == UsePool => Cardinality({f \in Files : open[f]}) <= Cap + Cardinality(Pinned \cup InFlight)
LruWF == /\ \A i, j \in 1..Len(lru) : i # j => lru[i] # lru[j]
         /\ \A f \in Files : reg[f] <=> \E i \in 1..Len(lru) : lru[i] = f
TypeOK == /\ \A f \in Files : refs[f] \in Nat /\ open[f] \in BOOLEAN
          /\ \A t \in Threads : pc[t] \in {"idle", "touch", "walk", "evsel", "relnow", "forget"}
\* liveness (no pool): an idle open descriptor is eventually closed or re-acquired
IdleEventuallyClosed == \A f \in Files : (refs[f] = 0 /\ open[f] /\ ~closed[f]) ~> (~open[f] \/ refs[f] > 0 \/ closed[f])
\* observation outside the listed property: a permanently closed member can stay registered
LeakedClosed == \A f \in Files : (closed[f] /\ reg[f]) => \E t \in Threads : pc[t] = "forget" /\ cur[t] = f
=============================================================================
