----------------------------- MODULE RefStoreFS -----------------------------
(* Implementation-level model of go-git's filesystem reference store for ONE
   reference name (storage/filesystem/dotgit: SetRef / setRefRwfs, Ref, RemoveRef,
   PackRefs), one action per *key* filesystem step, including what the code really
   does and the property-level spec forbids:
     - the loose file is rewritten in place (Truncate, then Write) under a flock
       on that inode, and opened with O_TRUNC *before* the lock when old = nil;
     - a reader falls back to packed-refs whenever the loose file is missing,
       unreadable or EMPTY;
     - O_CREATE makes an empty loose file before the old value is compared;
     - PackRefs removes the loose file holding only the packed-refs lock;
     - RemoveRef unlinks the loose file without its lock (inode identity matters:
       a writer may then lock, compare and write an orphaned inode).
   Processes run fixed programs (Prog); TLC explores every interleaving of their
   key steps.  `obs` is the observable call history; the invariant
   LinearizableWhenDone states the property-level requirement
   (RefRegister!Linearizable) on it.  The model is expected to VIOLATE it (that
   is the known design-level finding); the violating and the representative
   terminal schedules are replayed on the real code by the gated filesystem
   (harness c16), whose recorded histories are then judged by TraceRefHist.
   `sched` is the pid schedule (history variable, hidden from the VIEW).        *)
EXTENDS Naturals, Sequences, FiniteSets, TLC, Json, RefRegister

CONSTANTS Procs,       \* set of process ids (naturals)
          Prog,        \* [Procs -> Seq([op, old, new])]
          InitLoose,   \* "none" | value
          InitPacked,  \* "none" | value
          EmitSched    \* TRUE: print the schedule of every terminal state

Empty == "empty"

VARIABLES path,      \* inode number the loose path points to, 0 = no loose file
          content,   \* [1..nIno -> value | Empty]   (function over allocated inodes)
          flock,     \* [1..nIno -> Procs \cup {0}]  holder of the flock on that inode
          packed,    \* value in packed-refs, or None
          plock,     \* holder of the packed-refs lock, 0 = free
          pc,        \* [Procs -> [i |-> index into Prog[p], at |-> label]]
          h,         \* [Procs -> inode handle]
          buf,       \* [Procs -> value read]
          obs,       \* observable history: seq of [p, ev, op, old, new, val]
          sched      \* executed pid schedule (one entry per step)

fsvars == <<path, content, flock, packed, plock>>
vars == <<path, content, flock, packed, plock, pc, h, buf, obs, sched>>
View == <<path, content, flock, packed, plock, pc, h, buf, obs>>

nIno == Len(content)
Op(p) == Prog[p][pc[p].i]
Done(p) == pc[p].i > Len(Prog[p])
AllDone == \A p \in Procs : Done(p)

Goto(p, l) == pc' = [pc EXCEPT ![p].at = l]
Tick(p) == sched' = Append(sched, p)
Ev(p, e, v) == [p |-> p, ev |-> e, op |-> Op(p).op, old |-> Op(p).old, new |-> Op(p).new, val |-> v]
\* finish the current call with result v and move to the next op of the program
Finish(p, v) == /\ obs' = Append(obs, Ev(p, "res", v))
                /\ pc' = [pc EXCEPT ![p] = [i |-> pc[p].i + 1, at |-> "inv"]]

Init ==
  /\ path = IF InitLoose = None THEN 0 ELSE 1
  /\ content = IF InitLoose = None THEN <<>> ELSE <<InitLoose>>
  /\ flock = IF InitLoose = None THEN <<>> ELSE <<0>>
  /\ packed = InitPacked
  /\ plock = 0
  /\ pc = [p \in Procs |-> [i |-> 1, at |-> "inv"]]
  /\ h = [p \in Procs |-> 0]
  /\ buf = [p \in Procs |-> None]
  /\ obs = <<>>
  /\ sched = <<>>

\* ---- invocation (a schedulable step: the harness gates the call itself)
Invoke(p) ==
  /\ ~Done(p) /\ pc[p].at = "inv"
  /\ obs' = Append(obs, Ev(p, "inv", ""))
  /\ Goto(p, CASE Op(p).op = "cas" -> "c_stat" [] Op(p).op = "set" -> "s_open"
                  [] Op(p).op = "read" -> "r_stat" [] Op(p).op = "remove" -> "d_stat"
                  [] Op(p).op = "pack" -> "p_lock")
  /\ Tick(p) /\ UNCHANGED <<fsvars, h, buf>>

\* ---- CheckAndSetReference(new, old)
CStat(p) ==   \* Stat(ref): no loose file -> decide against packed-refs first (fix 3b70e89)
  /\ ~Done(p) /\ pc[p].at = "c_stat"
  /\ Goto(p, IF path = 0 THEN "c_pre" ELSE "c_open")
  /\ Tick(p) /\ UNCHANGED <<fsvars, h, buf, obs>>
CPre(p) ==    \* packedRef(name)
  /\ ~Done(p) /\ pc[p].at = "c_pre"
  /\ IF packed = None THEN Finish(p, "notfound")
     ELSE IF packed # Op(p).old THEN Finish(p, "changed")
     ELSE Goto(p, "c_open") /\ UNCHANGED obs
  /\ Tick(p) /\ UNCHANGED <<fsvars, h, buf>>
COpen(p) ==   \* OpenFile(ref, O_RDWR|O_CREATE): creates an EMPTY loose file if there is none
  /\ ~Done(p) /\ pc[p].at = "c_open"
  /\ IF path = 0
       THEN /\ content' = Append(content, Empty) /\ flock' = Append(flock, 0)
            /\ path' = nIno + 1 /\ h' = [h EXCEPT ![p] = nIno + 1]
       ELSE /\ h' = [h EXCEPT ![p] = path] /\ UNCHANGED <<content, flock, path>>
  /\ Goto(p, "c_lock")
  /\ Tick(p) /\ UNCHANGED <<packed, plock, buf, obs>>
CLock(p) ==   \* flock on the opened inode; blocks while another handle holds it
  /\ ~Done(p) /\ pc[p].at = "c_lock" /\ flock[h[p]] = 0
  /\ flock' = [flock EXCEPT ![h[p]] = p]
  /\ Goto(p, "c_read")
  /\ Tick(p) /\ UNCHANGED <<path, content, packed, plock, h, buf, obs>>
CRead(p) ==   \* ReadAll(f); empty -> consult packed-refs; compare with old
  /\ ~Done(p) /\ pc[p].at = "c_read"
  /\ buf' = [buf EXCEPT ![p] = content[h[p]]]
  /\ Goto(p, IF content[h[p]] = Empty THEN "c_rdpk"
             ELSE IF content[h[p]] = Op(p).old THEN "c_trunc" ELSE "c_close")
  /\ Tick(p) /\ UNCHANGED <<fsvars, h, obs>>
CRdPk(p) ==
  /\ ~Done(p) /\ pc[p].at = "c_rdpk"
  /\ buf' = [buf EXCEPT ![p] = packed]
  /\ Goto(p, IF packed = Op(p).old THEN "c_trunc" ELSE "c_close")
  /\ Tick(p) /\ UNCHANGED <<fsvars, h, obs>>
CTrunc(p) ==  \* Truncate(0): the window in which the loose file is empty
  /\ ~Done(p) /\ pc[p].at = "c_trunc"
  /\ content' = [content EXCEPT ![h[p]] = Empty]
  /\ Goto(p, "c_write")
  /\ Tick(p) /\ UNCHANGED <<path, flock, packed, plock, h, buf, obs>>
CWrite(p) ==
  /\ ~Done(p) /\ pc[p].at = "c_write"
  /\ content' = [content EXCEPT ![h[p]] = Op(p).new]
  /\ buf' = [buf EXCEPT ![p] = "ok"]
  /\ Goto(p, "c_close")
  /\ Tick(p) /\ UNCHANGED <<path, flock, packed, plock, h, obs>>
CClose(p) ==  \* Close releases the flock; the call returns
  /\ ~Done(p) /\ pc[p].at = "c_close"
  /\ flock' = [flock EXCEPT ![h[p]] = 0]
  /\ Finish(p, IF buf[p] = "ok" THEN "ok" ELSE IF buf[p] = None THEN "notfound" ELSE "changed")
  /\ Tick(p) /\ UNCHANGED <<path, content, packed, plock, h, buf>>

\* ---- SetReference(new)  (old = nil: O_TRUNC at open, before the lock)
SOpen(p) ==
  /\ ~Done(p) /\ pc[p].at = "s_open"
  /\ IF path = 0
       THEN /\ content' = Append(content, Empty) /\ flock' = Append(flock, 0)
            /\ path' = nIno + 1 /\ h' = [h EXCEPT ![p] = nIno + 1]
       ELSE /\ content' = [content EXCEPT ![path] = Empty]
            /\ h' = [h EXCEPT ![p] = path] /\ UNCHANGED <<flock, path>>
  /\ Goto(p, "s_lock")
  /\ Tick(p) /\ UNCHANGED <<packed, plock, buf, obs>>
SLock(p) ==
  /\ ~Done(p) /\ pc[p].at = "s_lock" /\ flock[h[p]] = 0
  /\ flock' = [flock EXCEPT ![h[p]] = p]
  /\ Goto(p, "s_write")
  /\ Tick(p) /\ UNCHANGED <<path, content, packed, plock, h, buf, obs>>
SWrite(p) ==
  /\ ~Done(p) /\ pc[p].at = "s_write"
  /\ content' = [content EXCEPT ![h[p]] = Op(p).new]
  /\ Goto(p, "s_close")
  /\ Tick(p) /\ UNCHANGED <<path, flock, packed, plock, h, buf, obs>>
SClose(p) ==
  /\ ~Done(p) /\ pc[p].at = "s_close"
  /\ flock' = [flock EXCEPT ![h[p]] = 0]
  /\ Finish(p, "ok")
  /\ Tick(p) /\ UNCHANGED <<path, content, packed, plock, h, buf>>

\* ---- Reference(name)
RStat(p) ==
  /\ ~Done(p) /\ pc[p].at = "r_stat"
  /\ Goto(p, IF path = 0 THEN "r_pk" ELSE "r_open")
  /\ Tick(p) /\ UNCHANGED <<fsvars, h, buf, obs>>
ROpen(p) ==
  /\ ~Done(p) /\ pc[p].at = "r_open"
  /\ IF path = 0 THEN Goto(p, "r_pk") /\ UNCHANGED h
     ELSE Goto(p, "r_read") /\ h' = [h EXCEPT ![p] = path]
  /\ Tick(p) /\ UNCHANGED <<fsvars, buf, obs>>
RRead(p) ==   \* empty loose file -> fall back to packed-refs
  /\ ~Done(p) /\ pc[p].at = "r_read"
  /\ IF content[h[p]] = Empty THEN Goto(p, "r_pk") /\ UNCHANGED obs
     ELSE Finish(p, content[h[p]])
  /\ Tick(p) /\ UNCHANGED <<fsvars, h, buf>>
RPk(p) ==
  /\ ~Done(p) /\ pc[p].at = "r_pk"
  /\ Finish(p, packed)
  /\ Tick(p) /\ UNCHANGED <<fsvars, h, buf>>

\* ---- RemoveReference(name)
DStat(p) ==
  /\ ~Done(p) /\ pc[p].at = "d_stat"
  /\ Goto(p, IF path = 0 THEN "d_lockpk" ELSE "d_rm")
  /\ Tick(p) /\ UNCHANGED <<fsvars, h, buf, obs>>
DRm(p) ==     \* unlink without the loose file's lock
  /\ ~Done(p) /\ pc[p].at = "d_rm"
  /\ path' = 0
  /\ Goto(p, "d_lockpk")
  /\ Tick(p) /\ UNCHANGED <<content, flock, packed, plock, h, buf, obs>>
DLockPk(p) ==
  /\ ~Done(p) /\ pc[p].at = "d_lockpk" /\ plock = 0
  /\ plock' = p
  /\ Goto(p, IF packed = None THEN "d_close" ELSE "d_rewrite")
  /\ Tick(p) /\ UNCHANGED <<path, content, flock, packed, h, buf, obs>>
DRewrite(p) ==  \* scan + temp file + rename (atomic replacement)
  /\ ~Done(p) /\ pc[p].at = "d_rewrite"
  /\ packed' = None
  /\ Goto(p, "d_close")
  /\ Tick(p) /\ UNCHANGED <<path, content, flock, plock, h, buf, obs>>
DClose(p) ==
  /\ ~Done(p) /\ pc[p].at = "d_close"
  /\ plock' = 0
  /\ Finish(p, "ok")
  /\ Tick(p) /\ UNCHANGED <<path, content, flock, packed, h, buf>>

\* ---- PackRefs()
PLock(p) ==
  /\ ~Done(p) /\ pc[p].at = "p_lock" /\ plock = 0
  /\ plock' = p
  /\ Goto(p, "p_stat")
  /\ Tick(p) /\ UNCHANGED <<path, content, flock, packed, h, buf, obs>>
PStat(p) ==   \* the loose-ref walk of PackRefs: Stat, Open, Read (no loose lock)
  /\ ~Done(p) /\ pc[p].at = "p_stat"
  /\ buf' = [buf EXCEPT ![p] = None]
  /\ Goto(p, IF path = 0 THEN "p_close" ELSE "p_open")
  /\ Tick(p) /\ UNCHANGED <<fsvars, h, obs>>
POpen(p) ==
  /\ ~Done(p) /\ pc[p].at = "p_open"
  /\ IF path = 0 THEN Goto(p, "p_close") /\ UNCHANGED h
     ELSE Goto(p, "p_read") /\ h' = [h EXCEPT ![p] = path]
  /\ Tick(p) /\ UNCHANGED <<fsvars, buf, obs>>
PRead(p) ==   \* empty file -> PackRefs fails with "ref file is empty"
  /\ ~Done(p) /\ pc[p].at = "p_read"
  /\ buf' = [buf EXCEPT ![p] = content[h[p]]]
  /\ Goto(p, IF content[h[p]] = Empty THEN "p_close" ELSE "p_rename")
  /\ Tick(p) /\ UNCHANGED <<fsvars, h, obs>>
PRename(p) == \* new packed-refs (loose value wins) renamed into place
  /\ ~Done(p) /\ pc[p].at = "p_rename"
  /\ packed' = buf[p]
  /\ Goto(p, "p_rmloose")
  /\ Tick(p) /\ UNCHANGED <<path, content, flock, plock, h, buf, obs>>
PRmLoose(p) == \* Remove(loose) holding only the packed-refs lock, without re-checking its value
  /\ ~Done(p) /\ pc[p].at = "p_rmloose"
  /\ path' = 0
  /\ Goto(p, "p_close")
  /\ Tick(p) /\ UNCHANGED <<content, flock, packed, plock, h, buf, obs>>
PClose(p) ==
  /\ ~Done(p) /\ pc[p].at = "p_close"
  /\ plock' = 0
  /\ Finish(p, IF buf[p] = Empty THEN "error" ELSE "ok")
  /\ Tick(p) /\ UNCHANGED <<path, content, flock, packed, h, buf>>

Step(p) == \/ Invoke(p)
           \/ CStat(p) \/ CPre(p) \/ COpen(p) \/ CLock(p) \/ CRead(p) \/ CRdPk(p) \/ CTrunc(p) \/ CWrite(p) \/ CClose(p)
           \/ SOpen(p) \/ SLock(p) \/ SWrite(p) \/ SClose(p)
           \/ RStat(p) \/ ROpen(p) \/ RRead(p) \/ RPk(p)
           \/ DStat(p) \/ DRm(p) \/ DLockPk(p) \/ DRewrite(p) \/ DClose(p)
           \/ PLock(p) \/ PStat(p) \/ POpen(p) \/ PRead(p) \/ PRename(p) \/ PRmLoose(p) \/ PClose(p)
Next == \E p \in Procs : Step(p)
Spec == Init /\ [][Next]_vars

\* ---------------------------------------------------------------- properties
InitVal == IF InitLoose # None THEN InitLoose ELSE InitPacked

\* what a reader sees once every process has finished (the replay appends this read as process 9, so that
\* a successful update that left no trace is noticed even when no scheduled read followed it)
FinalVal == IF path = 0 THEN packed ELSE IF content[path] = Empty THEN packed ELSE content[path]
FinalRead == << [p |-> 9, ev |-> "inv", op |-> "read", old |-> "", new |-> "", val |-> ""],
               [p |-> 9, ev |-> "res", op |-> "read", old |-> "", new |-> "", val |-> FinalVal] >>
ObsF == obs \o FinalRead
\* the property-level requirement (C16) on the observable history
LinearizableWhenDone == AllDone => Linearizable(OpsOf(ObsF), InitVal)
\* weaker: the updates alone are consistent (reads unconstrained)
UpdatesLinearizableWhenDone == AllDone => LinearizableWeak(OpsOf(ObsF), InitVal)

\* structural invariants of the model
TypeOK == /\ path \in 0..nIno /\ Len(flock) = nIno
          /\ \A i \in 1..nIno : flock[i] \in Procs \cup {0}
LockExclusive == \A i \in 1..nIno : \A p, q \in Procs :
                   (pc[p].at \in {"c_read", "c_rdpk", "c_trunc", "c_write", "c_close", "s_write", "s_close"} /\ h[p] = i /\
                    pc[q].at \in {"c_read", "c_rdpk", "c_trunc", "c_write", "c_close", "s_write", "s_close"} /\ h[q] = i) => p = q
NoDeadlock == AllDone \/ ENABLED Next

\* every terminal state prints one representative schedule with the spec's own verdict
EmitTerminal == (EmitSched /\ AllDone) =>
   PrintT(ToJson([sched |-> sched, lin |-> Linearizable(OpsOf(ObsF), InitVal),
                  weak |-> LinearizableWeak(OpsOf(ObsF), InitVal), obs |-> obs]))
=============================================================================
