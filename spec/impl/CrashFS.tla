------------------------------ MODULE CrashFS ------------------------------
(* C21, the model half.  Every mutating operation of go-git as its sequence of filesystem steps over the abstract
   .git tree of CrashFSCore, in two styles: "gogit" (the order go-git really performs, as recorded by the harness)
   and "safe" (temp file + rename for live files; the new pack in place before loose objects or old packs go).
   A crash may follow any step (every reachable state is a crash state) and a Write on a live file may be torn.
   TLC checks   clean => Recoverable   (the write-ordering discipline of CrashFSCore!Violations implies
   recoverability for all operations and all crash points) and prints every state, from which the check computes
   the windows in which the "gogit" style is predicted to be unrecoverable.                                    *)
EXTENDS CrashFSCore

(* ---- the small model: one branch, objects o (old history), n (what the operation adds), g (garbage) *)

MWorld(oldset) ==
      [refs |-> {"HEAD", "b"}, both |-> {"HEAD", "b"}, isrepo |-> TRUE, oldset |-> oldset,
       need |-> [r \in {"HEAD", "b"} |-> IF r = "b" THEN [old |-> {"o"}, new |-> {"o", "n"}] ELSE [old |-> {}, new |-> {}]]]

Stp(kind, cls) == [kind |-> kind, cls |-> cls, ref |-> "", obj |-> "", pack |-> "", val |-> "", last |-> TRUE, objs |-> {}, pk |-> <<>>]
RefStp(kind, val) == [Stp(kind, "ref") EXCEPT !.ref = "b", !.val = val]
ObjStp(kind, o) == [Stp(kind, "loose-object") EXCEPT !.obj = o]
PackStp(kind, cls, p, objs) == [Stp(kind, cls) EXCEPT !.pack = p, !.objs = objs]
SrcOf(cls) == CASE cls = "pack" -> "pack-tmp" [] cls = "loose-object" -> "obj-tmp"
                 [] cls = "packed-refs" -> "packed-refs-tmp" [] OTHER -> "gitdir-tmp"
Lab(st) == IF st.kind = "Rename" THEN "Rename(" \o SrcOf(st.cls) \o "->" \o st.cls \o ")"
           ELSE st.kind \o "(" \o st.cls \o ")"

(* a live file is replaced: go-git truncates and writes in place; the safe style writes a temp file and renames it *)
Put(style, cls, val) ==
  LET w == IF cls = "ref" THEN RefStp("Write", val) ELSE [Stp("Write", cls) EXCEPT !.val = val]
      t == IF cls = "ref" THEN RefStp("OpenTrunc", "") ELSE Stp("OpenTrunc", cls)
      rn == IF cls = "ref" THEN RefStp("Rename", val) ELSE [Stp("Rename", cls) EXCEPT !.val = val]
  IN IF style = "gogit" THEN <<t, w>>
     ELSE <<Stp("TempFile", "gitdir-tmp"), Stp("Write", "gitdir-tmp"), rn>>
NewObj(o) == <<Stp("TempFile", "obj-tmp"), Stp("Write", "obj-tmp"), ObjStp("Rename", o)>>
NewPack(p, objs) == <<Stp("TempFile", "pack-tmp"), Stp("Write", "pack-tmp"), PackStp("CreateNew", "idx", p, {}),
                      PackStp("Write", "idx", p, {}), PackStp("Rename", "pack", p, objs)>>
PackHead(p) == <<Stp("TempFile", "pack-tmp"), Stp("Write", "pack-tmp")>>
PackTail(p, objs) == <<PackStp("CreateNew", "idx", p, {}), PackStp("Write", "idx", p, {}), PackStp("Rename", "pack", p, objs)>>
PackedRewrite(tok) == <<Stp("TempFile", "packed-refs-tmp"), Stp("Write", "packed-refs-tmp"),
                        [Stp("Rename", "packed-refs") EXCEPT !.pk = [b |-> tok]]>>

Ops == {"add", "commit", "commit-ref-first", "checkout", "reset", "set-ref-cas", "clone", "fetch", "receive-pack", "repack", "repack-packed",
        "prune", "pack-refs", "pack-refs-remove-first", "set-config", "set-index"}
Styles == {"gogit", "safe"}

Program(op, style) ==
  CASE op = "add"          -> NewObj("n") \o Put(style, "index", "new")
    [] op = "commit"       -> NewObj("n") \o Put(style, "index", "new") \o Put(style, "ref", "new")
    [] op = "commit-ref-first" -> Put(style, "ref", "new") \o NewObj("n") \o Put(style, "index", "new")   \* a mutant: shows the guard is needed
    [] op = "checkout"     -> Put(style, "HEAD", "new") \o Put(style, "ref", "old") \o Put(style, "index", "new")
    [] op = "set-ref-cas"  -> IF style = "gogit" THEN <<RefStp("OpenRW", ""), RefStp("Truncate", ""), RefStp("Write", "old")>>
                              ELSE Put(style, "ref", "old")
    [] op = "reset"        -> Put(style, "ref", "old") \o Put(style, "index", "new")
    [] op = "fetch"        -> NewPack("p2", {"n"}) \o Put(style, "ref", "new")
    \* clone: HEAD first holds the in-progress marker refs/heads/.invalid ("other"), as git's clone does
    [] op = "clone"        -> Put(style, "HEAD", "other") \o Put(style, "config", "new") \o NewPack("p2", {"o", "n"})
                              \o Put(style, "ref", "new") \o Put(style, "HEAD", "new") \o Put(style, "ref", "new")
                              \o Put(style, "index", "new") \o Put(style, "config", "new")
    [] op = "receive-pack" -> NewPack("p2", {"n"}) \o Put(style, "ref", "new")
    [] op = "repack"       -> IF style = "gogit" THEN PackHead("p2") \o <<ObjStp("Remove", "o")>> \o PackTail("p2", {"o"})
                              ELSE PackHead("p2") \o PackTail("p2", {"o"}) \o <<ObjStp("Remove", "o")>>
    [] op = "repack-packed" -> (IF style = "gogit" THEN PackHead("p2") \o <<ObjStp("Remove", "n")>> \o PackTail("p2", {"o", "n"})
                                ELSE PackHead("p2") \o PackTail("p2", {"o", "n"}) \o <<ObjStp("Remove", "n")>>)
                               \o <<PackStp("Remove", "pack", "p1", {}), PackStp("Remove", "idx", "p1", {})>>
    [] op = "prune"        -> <<ObjStp("Remove", "g")>>
    [] op = "pack-refs"    -> PackedRewrite("old") \o <<RefStp("Remove", "")>>
    [] op = "pack-refs-remove-first" -> <<RefStp("Remove", "")>> \o PackedRewrite("old")                \* a mutant
    [] op = "set-config"   -> Put(style, "config", "new")
    [] op = "set-index"    -> Put(style, "index", "new")

Files0 == [x \in {"HEAD", "config", "index", "b"} |-> "old"]
InitState(op) ==
  CASE op \in {"reset", "set-ref-cas"} -> [f |-> [Files0 EXCEPT !["b"] = "new"], pk |-> <<>>, loose |-> {"o", "n"}, packs |-> <<>>]
    [] op = "repack-packed" -> [f |-> [Files0 EXCEPT !["b"] = "new"], pk |-> <<>>, loose |-> {"n"},
                                packs |-> [p1 |-> [objs |-> {"o"}, pack |-> TRUE, idx |-> "ok"]]]
    [] op = "prune" -> [f |-> Files0, pk |-> <<>>, loose |-> {"o", "g"}, packs |-> <<>>]
    [] op = "clone" -> [f |-> [x \in DOMAIN Files0 |-> "absent"], pk |-> <<>>, loose |-> {}, packs |-> <<>>]
    [] OTHER -> [f |-> Files0, pk |-> <<>>, loose |-> {"o"}, packs |-> <<>>]

VARIABLES op, style, S, pc, torn, clean, after

\* the before-state of reset / set-ref-cas / repack-packed has the branch at its newer value
\* clone starts from a directory that is not a repository: nothing exists before, so nothing can be lost
MW == IF op = "clone" THEN [MWorld({}) EXCEPT !.isrepo = FALSE, !.both = {}]
      ELSE MWorld(IF op \in {"reset", "set-ref-cas", "repack-packed"} THEN {"o", "n"} ELSE {"o"})

vars == <<op, style, S, pc, torn, clean, after>>

Init == /\ op \in Ops /\ style \in Styles
        /\ S = InitState(op) /\ pc = 1 /\ torn = FALSE /\ clean = TRUE /\ after = "start"

Prog == Program(op, style)

Step == /\ pc <= Len(Prog)
        /\ LET st == Prog[pc] IN
             \/ /\ ~torn /\ st.kind = "Write" /\ Live(st)              \* the process dies inside the write
                /\ torn' = TRUE /\ S' = Tear(MW, S, st) /\ after' = "Torn" \o Lab(st)
                /\ clean' = (clean /\ Violations(MW, S, st) = {})
                /\ UNCHANGED <<op, style, pc>>
             \/ /\ S' = Apply(MW, S, st)
                /\ torn' = FALSE /\ pc' = pc + 1 /\ after' = Lab(st)
                /\ clean' = (clean /\ Violations(MW, S, st) = {})
                /\ UNCHANGED <<op, style>>

Next == Step \/ (pc > Len(Prog) /\ UNCHANGED vars)

NextLab == IF pc <= Len(Prog) THEN Lab(Prog[pc]) ELSE "end"

TypeOK == /\ pc \in 1..(Len(Prog) + 1)
          /\ \A x \in DOMAIN S.f : S.f[x] \in {"absent", "empty", "torn", "partial", "old", "new", "other"}

(* The theorem of the model: as long as every step so far respected the discipline, every crash state is recoverable. *)
DisciplineImpliesRecoverable == clean => Recoverable(ViewOf(MW, S))
(* ... and the safe style is what the discipline asks for (the two mutants are unsafe in both styles). *)
SafeStyleIsClean == (style = "safe" /\ op \notin {"commit-ref-first", "pack-refs-remove-first"}) => clean
(* the complete operation is always fine *)
CompleteIsRecoverable == (pc > Len(Prog) /\ op \notin {"commit-ref-first", "pack-refs-remove-first"}) => Recoverable(ViewOf(MW, S))

(* Every state is printed: the check computes the predicted windows of the gogit style from these lines. *)
Emit == PrintT(ToJson([op |-> op, style |-> style, k |-> pc - 1, torn |-> torn, after |-> after, next |-> NextLab,
                       failed |-> FailedOf(ViewOf(MW, S)), clean |-> clean]))
=============================================================================
