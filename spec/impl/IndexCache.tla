----------------------------- MODULE IndexCache -----------------------------
(* C20, implementation level (explorer): what storage/filesystem/index.go + indexcache.go + the worktree do.
   disk  = (content, mtime, size) of .git/index;  cache = (cells, mtime, size) kept by the long-lived storage.
   Index() validates the cache by (mtime, size) and returns a NEW SLICE OVER THE SAME ENTRY CELLS (copyIndex is a
   shallow copy), so an operation that mutates the entries it got from Index() one by one (doAddDirectory /
   doUpdateFileToIndex, Index.SkipUnless) mutates the cached cells in place, before SetIndex writes the file.
   An operation may fail between two cell mutations (FailOp): nothing is written, the (mtime, size) stamp still
   matches, and the cache now disagrees with the file.  DeepCopy = TRUE models the repair (Index() returns
   private cells): the invariant then holds.  External rewrites change the content and the size or the mtime.
   A modification time is 3*second + subsecond-part (three sub-second slots per second; time only moves forward): an external
   rewrite may keep the size and change the mtime ONLY BELOW ONE SECOND (how = "subsec").  The stamp must therefore
   be compared at full resolution: Granularity = "seconds" models a cache that keeps whole seconds only
   (modTime.Unix()) and violates the invariant; Granularity = "full" (what statIndexCache does) holds.          *)
EXTENDS Integers, FiniteSets, TLC
CONSTANTS DeepCopy, MaxClock, Granularity

Paths == {"a", "b"}          \* two files of one directory
Vals == {1, 2}

VARIABLES disk, cache, wt, pc, work, pending, clock
vars == <<disk, cache, wt, pc, work, pending, clock>>

Init == /\ disk = [content |-> [p \in Paths |-> 1], mtime |-> 0, size |-> 0]
        /\ cache = [present |-> FALSE, cells |-> [p \in Paths |-> 1], mtime |-> 0, size |-> 0]
        /\ wt = [p \in Paths |-> 1] /\ pc = "idle" /\ work = [p \in Paths |-> 1] /\ pending = {} /\ clock = 0

SameTime(a, b) == IF Granularity = "seconds" THEN a \div 3 = b \div 3 ELSE a = b
Hit == cache.present /\ SameTime(cache.mtime, disk.mtime) /\ cache.size = disk.size
\* what Index() returns right now
View == IF Hit THEN cache.cells ELSE disk.content

Edit(p, v) == /\ pc = "idle" /\ wt[p] # v /\ wt' = [wt EXCEPT ![p] = v]
              /\ UNCHANGED <<disk, cache, pc, work, pending, clock>>

\* an operation starts by calling Index(): on a miss the file is decoded and cached; the entries it gets are the cached cells
Begin(kind, ps) == /\ pc = "idle" /\ ps # {}
                   /\ cache' = IF Hit THEN cache ELSE [present |-> TRUE, cells |-> disk.content, mtime |-> disk.mtime, size |-> disk.size]
                   /\ work' = cache'.cells /\ pending' = ps /\ pc' = kind
                   /\ UNCHANGED <<disk, wt, clock>>

\* one entry is updated in place (any order: Go map iteration)
StepCell(p) == /\ pc # "idle" /\ p \in pending
               /\ work' = [work EXCEPT ![p] = wt[p]]
               /\ cache' = IF DeepCopy THEN cache ELSE [cache EXCEPT !.cells[p] = wt[p]]   \* shared cell
               /\ pending' = pending \ {p}
               /\ UNCHANGED <<disk, wt, pc, clock>>

\* FailAt(k): a filesystem step of the operation fails; the operation returns its error, SetIndex is never reached
FailOp == /\ pc # "idle" /\ pc' = "idle" /\ pending' = {}
          /\ UNCHANGED <<disk, cache, wt, work, clock>>

\* SetIndex: write the file, stat it, cache the written index
Finish == /\ pc # "idle" /\ pending = {} /\ clock < MaxClock
          /\ clock' = clock + 1
          /\ disk' = [disk EXCEPT !.content = work, !.mtime = 3 * clock']
          /\ cache' = [present |-> TRUE, cells |-> work, mtime |-> 3 * clock', size |-> disk.size]
          /\ pc' = "idle" /\ UNCHANGED <<wt, work, pending>>

\* another process rewrites the file: the content changes and so does the size or the mtime (never neither)
External(p, v, how) == /\ pc = "idle" /\ clock < MaxClock /\ disk.content[p] # v
                       /\ how = "subsec" => disk.mtime % 3 < 2
                       /\ clock' = clock + 1
                       /\ disk' = [content |-> [disk.content EXCEPT ![p] = v],
                                   mtime |-> CASE how = "size" -> disk.mtime
                                               [] how = "subsec" -> disk.mtime + 1         \* later within the same second
                                               [] OTHER -> 3 * clock',
                                   size |-> IF how \in {"mtime", "subsec"} THEN disk.size ELSE disk.size + 1]
                       /\ UNCHANGED <<cache, wt, pc, work, pending>>

Next == \/ \E p \in Paths, v \in Vals : Edit(p, v)
        \/ \E p \in Paths : Begin("AddFile", {p})
        \/ Begin("AddDir", Paths) \/ Begin("SparseReset", Paths)
        \/ \E p \in Paths : StepCell(p)
        \/ FailOp \/ Finish
        \/ \E p \in Paths, v \in Vals, how \in {"size", "mtime", "subsec", "both"} : External(p, v, how)

\* the property, observed whenever no operation is in flight
ViewIsDisk == pc = "idle" => View = disk.content
TypeOK == clock \in 0..MaxClock /\ pending \subseteq Paths
=============================================================================
