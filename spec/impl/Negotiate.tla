------------------------------ MODULE Negotiate ------------------------------
(* Implementation-level model of the pack negotiation of the stateful v0/v1
   protocol (upload-pack <-> fetch-pack), the half of C36 that TLC explores for
   all interleavings: a client that owns an ancestor-closed set of the server's
   commits (plus, possibly, a commit the server has never seen) asks for the tip
   and sends its commits as `have` lines in batches of `Window` followed by a
   flush; the server answers ACK/NAK as git's upload-pack does (multi_ack_detailed
   or the plain single-ACK mode) and, after `done`, sends the pack
   Anc(want) \ Anc(common).

   Checked: no deadlock (an ACK/flush mismatch shows up as one), termination,
   every ACKed commit is really common, and  done => pack \cup client \supseteq Anc(want). *)
EXTENDS Integers, Sequences, FiniteSets, TLC

CONSTANTS N,        \* server commits 1..N, the client wants N
          Dags,     \* set of parent functions
          Window,   \* haves per flush
          MultiAck  \* TRUE: multi_ack_detailed, FALSE: plain

VARIABLES dag, cli, queue, cpc, gotAck, gotReady, c2s, s2c, spc, common, pack
vars == <<dag, cli, queue, cpc, gotAck, gotReady, c2s, s2c, spc, common, pack>>

ParOfN(P, S) == UNION {P[c] : c \in S}
RECURSIVE AncN(_, _)
AncN(P, S) == LET S2 == S \cup ParOfN(P, S) IN IF S2 = S THEN S ELSE AncN(P, S2)

Orders(S) == {q \in [1..Cardinality(S) -> S] : \A i, j \in 1..Cardinality(S) : i # j => q[i] # q[j]}

Msg(t, c, st) == [t |-> t, c |-> c, st |-> st]

TypeOK == /\ cpc \in {"start", "sending", "waiting", "finishing", "fin"}
          /\ spc \in {"idle", "neg", "fin"}
          /\ common \subseteq 1..N

Init == /\ dag \in Dags
        /\ cli \in {S \in SUBSET (1..(N-1)) : S = AncN(dag, S)}
        \* 0 is a commit only the client has (diverged history)
        /\ \E extra \in {{}, {0}} : queue \in Orders(cli \cup extra)
        /\ cpc = "start" /\ gotAck = FALSE /\ gotReady = FALSE
        /\ c2s = <<>> /\ s2c = <<>>
        /\ spc = "idle" /\ common = {} /\ pack = {-1}

---------------------------------------------------------------------------
\* client
CStart == /\ cpc = "start"
          /\ c2s' = c2s \o <<Msg("want", N, ""), Msg("flush", 0, "")>>
          /\ cpc' = "sending"
          /\ UNCHANGED <<dag, cli, queue, gotAck, gotReady, s2c, spc, common, pack>>

Stop == queue = <<>> \/ gotReady \/ (~MultiAck /\ gotAck)

CSendBatch == /\ cpc = "sending" /\ ~Stop
              /\ LET k == IF Len(queue) < Window THEN Len(queue) ELSE Window
                 IN /\ c2s' = c2s \o [i \in 1..k |-> Msg("have", queue[i], "")] \o <<Msg("flush", 0, "")>>
                    /\ queue' = SubSeq(queue, k + 1, Len(queue))
              /\ cpc' = "waiting"
              /\ UNCHANGED <<dag, cli, gotAck, gotReady, s2c, spc, common, pack>>

CSendDone == /\ cpc = "sending" /\ Stop
             /\ c2s' = Append(c2s, Msg("done", 0, ""))
             /\ cpc' = "finishing"
             /\ UNCHANGED <<dag, cli, queue, gotAck, gotReady, s2c, spc, common, pack>>

\* reading the answers to one batch: ACKs, closed by NAK (multi_ack) or by the single plain ACK
CRecv == /\ cpc = "waiting" /\ s2c # <<>>
         /\ LET m == Head(s2c) IN
            /\ s2c' = Tail(s2c)
            /\ IF m.t = "ack"
               THEN /\ gotAck' = TRUE
                    /\ gotReady' = (gotReady \/ m.st = "ready")
                    /\ cpc' = IF MultiAck THEN "waiting" ELSE "sending"
               ELSE /\ m.t = "nak"
                    /\ cpc' = "sending"
                    /\ UNCHANGED <<gotAck, gotReady>>
         /\ UNCHANGED <<dag, cli, queue, c2s, spc, common, pack>>

CFinish == /\ cpc = "finishing" /\ s2c # <<>>
           /\ LET m == Head(s2c) IN
              /\ s2c' = Tail(s2c)
              /\ cpc' = IF m.t = "pack" THEN "fin" ELSE "finishing"
           /\ UNCHANGED <<dag, cli, queue, gotAck, gotReady, c2s, spc, common, pack>>

---------------------------------------------------------------------------
\* server
OkToGiveUp == AncN(dag, {N}) \cap common # {}

SRecv == /\ spc # "fin" /\ c2s # <<>>
         /\ LET m == Head(c2s) IN
            /\ c2s' = Tail(c2s)
            /\ CASE m.t = "want" -> /\ spc' = "neg" /\ UNCHANGED <<common, s2c, pack>>
                 [] m.t = "have" ->
                      IF m.c \in 1..N /\ m.c \notin common
                      THEN /\ common' = common \cup {m.c}
                           /\ s2c' = IF MultiAck THEN Append(s2c, Msg("ack", m.c, "common"))
                                     ELSE IF common = {} THEN Append(s2c, Msg("ack", m.c, "plain")) ELSE s2c
                           /\ UNCHANGED <<spc, pack>>
                      ELSE UNCHANGED <<common, s2c, spc, pack>>
                 [] m.t = "flush" ->
                      /\ IF spc = "idle" THEN UNCHANGED s2c   \* the flush closing the want list
                         ELSE IF MultiAck
                              THEN s2c' = (IF common # {} /\ OkToGiveUp
                                           THEN Append(s2c, Msg("ack", CHOOSE c \in common : TRUE, "ready")) ELSE s2c)
                                          \o <<Msg("nak", 0, "")>>
                              ELSE s2c' = IF common = {} THEN Append(s2c, Msg("nak", 0, "")) ELSE s2c
                      /\ UNCHANGED <<common, spc, pack>>
                 [] m.t = "done" ->
                      /\ pack' = AncN(dag, {N}) \ AncN(dag, common)
                      /\ s2c' = (IF common # {} THEN (IF MultiAck THEN Append(s2c, Msg("ack", CHOOSE c \in common : TRUE, "final")) ELSE s2c)
                                 ELSE Append(s2c, Msg("nak", 0, "")))
                                \o <<Msg("pack", 0, "")>>
                      /\ spc' = "fin"
                      /\ UNCHANGED common
         /\ UNCHANGED <<dag, cli, queue, cpc, gotAck, gotReady>>

\* the want-list flush must be seen in state "neg": want switches idle -> neg first
Finished == cpc = "fin" /\ UNCHANGED vars

Next == CStart \/ CSendBatch \/ CSendDone \/ CRecv \/ CFinish \/ SRecv \/ Finished
Spec == Init /\ [][Next]_vars /\ WF_vars(CStart \/ CSendBatch \/ CSendDone \/ CRecv \/ CFinish \/ SRecv)

---------------------------------------------------------------------------
\* done => the pack together with what the client has covers everything reachable from the want
DoneCovers == pack # {-1} => AncN(dag, {N}) \subseteq pack \cup cli
\* the server only ever treats as common commits that the client really has
AcksAreCommon == common \subseteq cli
Terminates == <>(cpc = "fin")
=============================================================================
