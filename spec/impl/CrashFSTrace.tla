--------------------------- MODULE CrashFSTrace ---------------------------
(* C21, batch trace validation (code -> spec).
   1. Every fact record projected from a real crashed directory (c21_states.ndjson) is judged with the
      Recoverable predicate of CrashFS: the verdict of the check comes from here.
   2. Every recorded step sequence of a real operation (c21_traces.ndjson) is replayed through the CrashFS
      machine: for each step the discipline guards it violates, and for the state after it the conjuncts the
      machine predicts to fail.  The check compares prediction and reality per crash point (spec drift).   *)
EXTENDS CrashFSCore

Traces == ndJsonDeserialize("c21_traces.ndjson")
Facts  == ndJsonDeserialize("c21_states.ndjson")

RealView(f) ==
  [init       |-> ~f.isrepo /\ ~f.headfinal,
   opens      |-> f.opens, config |-> f.config, index |-> f.index, lists |-> f.lists,
   unresolved |-> \E i \in 1..Len(f.refs) : f.refs[i].st = "unresolved",
   lost       |-> Len(f.lost) > 0,
   oldclosure |-> f.oldclosure,
   refclosure |-> \A i \in 1..Len(f.refs) : f.refs[i].closure,
   foreign    |-> \E i \in 1..Len(f.refs) : f.refs[i].val = "foreign",
   gitrun     |-> f.gitrun, gfsck |-> f.git.fsck, gshow |-> f.git.showref, gold |-> f.git.oldobjs]

ASSUME ndJsonSerialize("c21_verdicts.ndjson",
         [i \in 1..Len(Facts) |-> [id |-> Facts[i].id, failed |-> FailedOf(RealView(Facts[i]))]])

WorldOf(t) == [refs |-> ToSet(t.refs), both |-> ToSet(t.both), isrepo |-> t.isrepo, oldset |-> ToSet(t.oldset),
               need |-> [r \in ToSet(t.refs) |-> [old |-> ToSet(t.need[r].old), new |-> ToSet(t.need[r].new)]]]
State0(t) == [f |-> t.f, pk |-> t.pk, loose |-> ToSet(t.loose),
              packs |-> [p \in DOMAIN t.packs |-> [objs |-> ToSet(t.packs[p].objs), pack |-> TRUE, idx |-> "ok"]]]
StepOf(s) == [kind |-> s.kind, cls |-> s.cls, ref |-> s.ref, obj |-> s.obj, pack |-> s.pack, val |-> s.val,
              last |-> s.last, objs |-> ToSet(s.objs), pk |-> s.pk]

RECURSIVE Replay(_, _, _, _)
Replay(W, St, steps, k) ==
  IF k > Len(steps) THEN <<>>
  ELSE LET st == StepOf(steps[k])
           S2 == Apply(W, St, st)
       IN <<[k |-> k, lab |-> steps[k].lab, viol |-> Violations(W, St, st), failed |-> FailedOf(ViewOf(W, S2))]>>
          \o Replay(W, S2, steps, k + 1)

Pred(t) == [op |-> t.op, start |-> FailedOf(ViewOf(WorldOf(t), State0(t))),
            steps |-> Replay(WorldOf(t), State0(t), t.steps, 1)]

ASSUME ndJsonSerialize("c21_pred.ndjson", [i \in 1..Len(Traces) |-> Pred(Traces[i])])

VARIABLE ti
TInit == ti \in 1..Len(Traces)
TNext == UNCHANGED ti
\* sanity of the recorded data: the before-state of every recorded operation is recoverable in the machine's eyes
BeforeStateRecoverable == Recoverable(ViewOf(WorldOf(Traces[ti]), State0(Traces[ti])))
=============================================================================
