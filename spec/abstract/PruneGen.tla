------------------------------- MODULE PruneGen -------------------------------
(* Engine A generator for C38, push --prune with identity and renaming refspecs: one TLC state = one
   scenario (commit graph, local heads, remote references under the destination names, refspec kind,
   force, prune) with the post-state Transport!PrunePost requires. *)
EXTENDS Transport, TLC, Json

CONSTANTS N, Dags, LAs, LBs, RVals, EmitAll

VARIABLES scn, out
vars == <<scn, out>>

Kinds == {"id", "wild-ren", "exact-ren"}

Scenarios ==
  {s \in [dag : Dags, la : LAs, lb : LBs, ra : RVals, rb : RVals, rc : RVals,
          kind : Kinds, force : BOOLEAN, prune : BOOLEAN] :
     /\ (s.kind = "exact-ren" => (s.la # 0 /\ s.rb = 0 /\ s.rc = 0 /\ s.lb = 0))   \* one source, one destination
     /\ (s.la # 0 \/ s.lb # 0) }                                                      \* git refuses a push without sources

Loc(s) == ("a" :> s.la) @@ ("b" :> s.lb) @@ ("c" :> 0)
\* remote: destination of a, b, c hold ra, rb, rc; refs/heads/z always holds the root
Rem(s) == [n \in PrNames(s.kind) |->
             IF n = PrDst(s.kind, "a") THEN s.ra
             ELSE IF n = PrDst(s.kind, "b") THEN s.rb
             ELSE IF n = PrDst(s.kind, "c") THEN s.rc
             ELSE 1]
Opt(s) == [force |-> s.force, prune |-> s.prune]

Init == /\ scn \in Scenarios
        /\ out = PrunePost(scn.dag, Loc(scn), Rem(scn), scn.kind, Opt(scn))
Next == UNCHANGED vars

-----------------------------------------------------------------------------
\* a reference with a local source is never deleted
SourceKept == \A x \in PrSources(scn.kind, Loc(scn)) : out.gitRefs[PrDst(scn.kind, x)] # 0
\* without prune nothing is deleted
NoPruneNoDelete == ~scn.prune => \A n \in PrNames(scn.kind) : (Rem(scn)[n] # 0 => out.gitRefs[n] # 0)
\* what is deleted has no local counterpart and lies inside the destination namespace
PrunedOnlyOrphans == \A n \in out.pruned : PrCounterpart(scn.kind, n) # "" /\ PrLocal(Loc(scn), PrCounterpart(scn.kind, n)) = 0
\* references outside the destination namespace are untouched
OutsideUntouched == \A n \in PrNames(scn.kind) : PrCounterpart(scn.kind, n) = "" => out.gitRefs[n] = Rem(scn)[n]
\* a denied head keeps its value in both admitted outcomes
DeniedKept == \A n \in out.denied : out.gitRefs[n] = Rem(scn)[n] /\ out.allOrNothing[n] = Rem(scn)[n]

Emit == EmitAll => PrintT(ToJson([scn |-> scn, loc |-> Loc(scn), rem |-> Rem(scn), out |-> out]))
=============================================================================
