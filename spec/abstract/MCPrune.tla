------------------------------- MODULE MCPrune -------------------------------
EXTENDS PruneGen
QD(p2, p3, p4) == [c \in 1..4 |-> IF c = 1 THEN {} ELSE IF c = 2 THEN p2 ELSE IF c = 3 THEN p3 ELSE p4]
MCQDags == { QD({1}, {2}, {3}),      \* chain
             QD({1}, {1}, {2}) }     \* fork: 3 diverges from 2-4
MCLAs == {0, 2, 4}
MCLBs == {0, 3}
MCRVals == {0, 1, 3}
=============================================================================
