------------------------------ MODULE MCIdxMap ------------------------------
(* Model constants for IdxMap: ids with first bytes 00 / 01 / 7f / fe / ff, shared prefixes (7f ab 00 / 01 / ff,
   ids that differ only in their last byte), offsets around 2^31 and 2^32, prefixes of length 0..3 including
   one greater than every id and ff.. *)
EXTENDS IdxMap
MCIds == {<<0, 0, 0, 1>>, <<0, 0, 0, 2>>, <<1, 171, 0, 7>>, <<127, 171, 0, 7>>, <<127, 171, 1, 7>>, <<127, 171, 255, 7>>,
          <<127, 172, 0, 7>>, <<254, 255, 255, 255>>, <<255, 0, 0, 0>>, <<255, 255, 255, 254>>, <<255, 255, 255, 255>>}
MCOffs == <<"o12", "o2g-1", "o2g", "o4g+5", "o1t">>
MCCrcs == <<"c0", "c1", "cmid", "cmax">>
MCPrefixSet == {<<>>, <<0>>, <<1>>, <<2>>, <<127>>, <<254>>, <<255>>, <<0, 0>>, <<127, 171>>, <<127, 172>>, <<127, 173>>, <<255, 255>>,
               <<127, 171, 0>>, <<127, 171, 1>>, <<127, 171, 2>>, <<127, 171, 255>>, <<255, 255, 255>>, <<255, 0, 1>>, <<255, 0>>, <<255, 0, 0>>}
MCCorruptions == {"bad-magic", "bad-version", "fanout-non-monotone", "fanout-count-plus-one", "truncated", "off64-index-out-of-range",
                  "pack-checksum", "idx-checksum", "rev-bad-magic", "rev-truncated"}
MCStrict == {"bad-magic", "bad-version", "fanout-count-plus-one", "truncated", "rev-bad-magic", "rev-truncated"}
=============================================================================
