----------------------------- MODULE IndexStore -----------------------------
(* C20, property level.  The filesystem storage seen through its API has NO cache: reading the index is decoding
   the index file.  State: disk = the content of the index file (a version number: every successful write makes a
   new version; Torn after a write that failed part-way), view = what Index() returns.
   Worktree operations (which may fail at any of their filesystem steps) and external rewrites (which change the
   size or the modification time of the file) change disk; the invariant is the property:
                                  view = Decode(disk)     at every step.
   The module also generates the histories that the harness replays on the real Storage/Worktree (Engine A):
   every sequence of operations of length <= MaxOps; the harness makes the LAST operation of each history fail at
   its k-th filesystem step for every k (fault enumeration), so "fails part-way" is exhaustive per history.      *)
EXTENDS Integers, Sequences, TLC, Json
CONSTANTS MaxOps

WorktreeOps == {"AddFile", "AddDir", "AddAll", "AddGlob", "Remove", "Move", "Commit", "ResetSparse", "ResetHard",
                "ResetFiles", "Checkout", "CheckoutSparse", "Status"}
\* only the size changes / only the mtime (by whole seconds) / only the mtime and only below one second (same second,
\* other nanoseconds: mtimes have sub-second resolution) / both / the file is deleted
ExternalOps == {"ExtSize", "ExtMtime", "ExtSubsec", "ExtBoth", "ExtRemove"}
Writes(o) == o # "Status"

VARIABLES disk, view, hist, failed
vars == <<disk, view, hist, failed>>

Torn == -1
Decode(d) == IF d = Torn THEN -2 ELSE d        \* decoding a torn file is an error (-2); Index() then reports the error too

Init == disk = 0 /\ view = Decode(0) /\ hist = <<>> /\ failed = FALSE

\* a worktree operation that completes
Op(o) == /\ ~failed /\ Len(hist) < MaxOps
         /\ disk' = IF Writes(o) THEN Len(hist) + 1 ELSE disk
         /\ view' = Decode(disk')
         /\ hist' = Append(hist, o) /\ UNCHANGED failed
\* ... or fails at one of its filesystem steps: the file is unchanged, rewritten, or torn — the view follows the file
OpFails(o) == /\ ~failed /\ Len(hist) < MaxOps
              /\ disk' \in {disk, Len(hist) + 1, Torn}
              /\ view' = Decode(disk')
              /\ hist' = Append(hist, o) /\ failed' = TRUE     \* the harness enumerates the failing step; histories end here
External(e) == /\ ~failed /\ Len(hist) < MaxOps
               /\ disk' = Len(hist) + 1 /\ view' = Decode(disk')
               /\ hist' = Append(hist, e) /\ UNCHANGED failed

Next == \/ \E o \in WorktreeOps : Op(o) \/ OpFails(o)
        \/ \E e \in ExternalOps : External(e)
        \/ (Len(hist) = MaxOps \/ failed) /\ UNCHANGED vars

ViewIsDisk == view = Decode(disk)
TypeOK == Len(hist) <= MaxOps

\* every history whose last operation completed is printed once (the failing variants are derived by the harness)
Emit == (hist # <<>> /\ ~failed) => PrintT(ToJson(hist))
=============================================================================
