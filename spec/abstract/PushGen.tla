------------------------------- MODULE PushGen -------------------------------
(* Engine A generator for C38: one TLC state = one push scenario (commit graph, local
   and remote references, refspec items, options) with the outcome Transport!PushPost
   requires.  The harness builds both repositories with git fast-import and pushes
   through go-git->go-git, go-git->git, git->go-git after git->git confirmed the spec. *)
EXTENDS Transport, TLC, Json

CONSTANTS N, Dags, LocalA, RemoteA, TagPairs, ItemSets, EmitAll

VARIABLES scn, out
vars == <<scn, out>>

Item(s, d, f) == [src |-> s, dst |-> d, force |-> f]

\* named refspec sets
Items(k) ==
  CASE k = "a"        -> <<Item(HA, HA, FALSE)>>
    [] k = "+a"       -> <<Item(HA, HA, TRUE)>>
    [] k = "a,t"      -> <<Item(HA, HA, FALSE), Item(TG, TG, FALSE)>>
    [] k = "a,+t"     -> <<Item(HA, HA, FALSE), Item(TG, TG, TRUE)>>
    [] k = "b,a"      -> <<Item(HB, HB, FALSE), Item(HA, HA, FALSE)>>
    [] k = "del-a,b"  -> <<Item("", HA, FALSE), Item(HB, HB, FALSE)>>
    [] k = "a:b"      -> <<Item(HA, HB, FALSE)>>

Scenarios ==
  {s \in [dag : Dags, la : LocalA, ra : RemoteA, tp : TagPairs, items : ItemSets,
          force : BOOLEAN, lease : {"none", "ok", "stale"}, atomic : BOOLEAN] :
     /\ (s.lease # "none" => (~s.force /\ s.items # "+a"))
        \* a lease names the expected current value; combining it with "+"/--force is outside the
        \* domain (git lets the force override a stale lease, go-git refuses: both are safe)
     /\ (s.lease = "ok" => s.ra # 0)
        \* lease "stale" with ra = 0: the lease expects a commit but the reference is absent on the
        \* remote (somebody deleted it meanwhile) -- absent # expected, so the re-creation is denied
     /\ (s.items = "del-a,b" => s.ra # 0)                 \* git refuses to delete a missing ref
     /\ (s.items \in {"a,t", "a,+t"} => s.tp[1] # 0) }    \* a source must exist locally

\* local: a = la, b = N (always the newest commit), t = tp[1]; remote: a = ra, b = 1 (the root), t = tp[2]
Loc(s) == (HA :> s.la) @@ (HB :> N) @@ (TG :> s.tp[1])
Rem(s) == (HA :> s.ra) @@ (HB :> 1) @@ (TG :> s.tp[2])
Opt(s) == [force |-> s.force, lease |-> s.lease, atomic |-> s.atomic]

Init == /\ scn \in Scenarios
        /\ out = PushPost(scn.dag, Loc(scn), Rem(scn), Items(scn.items), Opt(scn))
Next == UNCHANGED vars

-----------------------------------------------------------------------------
its == Items(scn.items)
\* a denied item never changes the remote, in either admitted outcome
DeniedUntouched == \A n \in out.denied : out.gitRefs[n] = Rem(scn)[n] /\ out.allOrNothing[n] = Rem(scn)[n]
\* success <=> nothing denied; then both outcomes coincide
OkExact == out.ok => out.gitRefs = out.allOrNothing
\* an un-forced head update that is applied is a fast-forward (or leased)
OnlyFF == \A i \in 1..Len(its) :
   (out.verdict[i] = "allowed" /\ its[i].dst # TG /\ ~its[i].force /\ ~scn.force /\ scn.lease = "none"
      /\ Rem(scn)[its[i].dst] # 0 /\ its[i].src # "" )
      => Rem(scn)[its[i].dst] \in AncOf(scn.dag, {Loc(scn)[its[i].src]})
\* an existing tag moves only when forced
TagsSticky == (Rem(scn)[TG] # 0 /\ out.gitRefs[TG] # Rem(scn)[TG]) => (scn.force \/ \E i \in 1..Len(its) : its[i].dst = TG /\ its[i].force)
\* a stale lease protects the reference
LeaseHolds == (scn.lease = "stale" /\ ~\E i \in 1..Len(its) : its[i].dst = HA /\ its[i].force) => out.gitRefs[HA] = scn.ra
\* atomic failure changes nothing
AtomicAllOrNothing == (scn.atomic /\ ~out.ok) => out.gitRefs = Rem(scn)

Emit == EmitAll => PrintT(ToJson([scn |-> scn, loc |-> Loc(scn), rem |-> Rem(scn), items |-> its, out |-> out]))
=============================================================================
