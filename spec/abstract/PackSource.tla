------------------------------ MODULE PackSource ------------------------------
(* C08: where the packs come from that go-git must index exactly as git does.
   (a) spec-generated packs: the accepted states of PackGraph (ThinOn) rendered by the harness;
   (b) packs written by `git pack-objects` over generated histories: this module enumerates
       the option matrix and states what each option allows git to emit, so that the
       harness can check its reading of git (a violation of these is a SpecError, not a
       go-git divergence):
         window = 0 or depth = 0  =>  no delta entries
         ~dbo                     =>  no ofs-delta entries
         ~thin                    =>  every ref-delta base is in the pack
         chain depth <= depth
   Histories (built by the harness with git fast-import):
     linear   5 commits editing 3 text files (append / modify / add)
     similar  8 near-identical blobs in one commit (long chains)
     big      a 1.2 MiB blob edited twice
     dup      the same blob under several names, a tag, an empty tree / blob          *)
EXTENDS Integers, Sequences, FiniteSets, TLC, Json

CONSTANTS SelMod, SelSel,   \* scenarios whose index mod SelMod = SelSel are enumerated
          Emit

Hists   == {"linear", "similar", "big", "dup"}
Windows == {0, 1, 10}
Depths  == {0, 1, 4, 50}
Ranges  == {"all", "incremental"}      \* all objects of HEAD / only what HEAD adds over the first commit

Opts == [hist : Hists, window : Windows, depth : Depths, dbo : BOOLEAN, thin : BOOLEAN, range : Ranges]
\* --thin only means something for an incremental range; drop the redundant combination
Scenarios == {o \in Opts : o.thin => o.range = "incremental"}

DeltasAllowed(o)   == o.window > 0 /\ o.depth > 0
OfsAllowed(o)      == DeltasAllowed(o) /\ o.dbo
ExternalAllowed(o) == DeltasAllowed(o) /\ o.thin
MaxChain(o)        == IF DeltasAllowed(o) THEN o.depth ELSE 0

\* mixed-radix index of a scenario (seeded selection in the quick tier)
SIdx(o) == (IF o.hist = "linear" THEN 0 ELSE IF o.hist = "similar" THEN 1 ELSE IF o.hist = "big" THEN 2 ELSE 3)
           + 4 * ((IF o.window = 0 THEN 0 ELSE IF o.window = 1 THEN 1 ELSE 2)
           + 3 * ((IF o.depth = 0 THEN 0 ELSE IF o.depth = 1 THEN 1 ELSE IF o.depth = 4 THEN 2 ELSE 3)
           + 4 * ((IF o.dbo THEN 1 ELSE 0) + 2 * ((IF o.thin THEN 1 ELSE 0) + 2 * (IF o.range = "all" THEN 0 ELSE 1)))))

VARIABLES sc
Init == sc \in {o \in Scenarios : (SIdx(o) + (SIdx(o) \div 4)) % SelMod = SelSel}
Next == UNCHANGED sc

Row == [hist |-> sc.hist, window |-> sc.window, depth |-> sc.depth, dbo |-> sc.dbo, thin |-> sc.thin, range |-> sc.range,
        deltas |-> DeltasAllowed(sc), ofs |-> OfsAllowed(sc), external |-> ExternalAllowed(sc), maxchain |-> MaxChain(sc)]

S_ExternalNeedsThin == ExternalAllowed(sc) => (sc.thin /\ sc.range = "incremental")
S_OfsNeedsDeltas    == OfsAllowed(sc) => DeltasAllowed(sc)
S_ChainBound        == MaxChain(sc) <= 50
EmitRow == Emit => PrintT(ToJson(Row))
=============================================================================
