---------------------------- MODULE MCGcModel ----------------------------
EXTENDS GcModel
MCBlobs == {"b1", "b2", "b3"}
MCHeads == {"refs/heads/main", "refs/heads/dev"}
MCTagRefs == {"refs/tags/v1", "refs/tags/v2"}
MCCIds == <<"c1", "c2", "c3", "c4", "c5">>
MCGIds == <<"g1", "g2", "g3">>
MCGcOps == << [op |-> "prune", rd |-> "none", age |-> "none"],
              [op |-> "prune", rd |-> "none", age |-> "future"],
              [op |-> "prune", rd |-> "none", age |-> "past"],
              [op |-> "repack", rd |-> "ofs", age |-> "none"],
              [op |-> "repack", rd |-> "ref", age |-> "none"],
              [op |-> "repack", rd |-> "ofs", age |-> "future"],
              [op |-> "repack", rd |-> "ref", age |-> "future"],
              [op |-> "repack", rd |-> "ofs", age |-> "past"],
              [op |-> "repack", rd |-> "ref", age |-> "past"] >>
NoRefs == [n \in MCHeads \cup MCTagRefs |-> NoObj]
OnMain == [sym |-> "refs/heads/main", det |-> None]
NoIdx  == [a |-> None, d |-> None, m |-> None, u1 |-> None, u2 |-> None, u3 |-> None]
\* empty repository
S0 == [cm |-> <<>>, tg |-> <<>>, refs |-> NoRefs, head |-> OnMain, idx |-> NoIdx,
       shallow |-> {}, objs |-> {}, packed |-> {}, promisor |-> FALSE]
\* two commits on main (c2 adds d/b), everything loose, clean index
R1 == [a |-> "b1", d |-> None, m |-> None, par |-> <<>>]
R2 == [a |-> "b1", d |-> "b2", m |-> None, par |-> <<"c1">>]
O2 == {C("c1"), C("c2"), T("b1", None, None), T("b1", "b2", None), S("b2"), B("b1"), B("b2")}
S1 == [cm |-> <<R1, R2>>, tg |-> <<>>, refs |-> [NoRefs EXCEPT !["refs/heads/main"] = C("c2")], head |-> OnMain,
       idx |-> [NoIdx EXCEPT !.a = "b1", !.d = "b2"], shallow |-> {}, objs |-> O2, packed |-> {}, promisor |-> FALSE]
\* the same history packed, plus an annotated tag on c1, a side branch at c1 and a staged-only change (b3 at a)
S2 == [cm |-> <<R1, R2>>, tg |-> <<C("c1")>>,
       refs |-> [NoRefs EXCEPT !["refs/heads/main"] = C("c2"), !["refs/heads/dev"] = C("c1"), !["refs/tags/v1"] = G("g1")],
       head |-> OnMain, idx |-> [NoIdx EXCEPT !.a = "b3", !.d = "b2"], shallow |-> {},
       objs |-> O2 \cup {G("g1"), B("b3")}, packed |-> O2 \cup {G("g1")}, promisor |-> FALSE]
\* a merge whose second parent (c3) is reachable only through it, seen only from a detached HEAD; a tree-typed annotated tag
R3 == [a |-> "b3", d |-> None, m |-> None, par |-> <<"c1">>]
R4 == [a |-> "b3", d |-> "b2", m |-> None, par |-> <<"c2", "c3">>]
O3 == O2 \cup {C("c3"), C("c4"), T("b3", None, None), T("b3", "b2", None), B("b3"), G("g1")}
S3 == [cm |-> <<R1, R2, R3, R4>>, tg |-> <<T("b3", None, None)>>,
       refs |-> [NoRefs EXCEPT !["refs/heads/main"] = C("c1"), !["refs/tags/v1"] = G("g1")],
       head |-> [sym |-> None, det |-> "c4"], idx |-> [NoIdx EXCEPT !.a = "b3", !.d = "b2"], shallow |-> {},
       objs |-> O3, packed |-> {}, promisor |-> FALSE]
\* a merge stopped on a conflict whose other side is gone: path "u" has stages base=b1, ours=b2, theirs=b3;
\* b3 is named by the index stage only (the merged-in branch was deleted) and sits in the pack, as after `git gc`
S4 == [cm |-> <<R1, R2>>, tg |-> <<>>, refs |-> [NoRefs EXCEPT !["refs/heads/main"] = C("c2")], head |-> OnMain,
       idx |-> [NoIdx EXCEPT !.a = "b1", !.d = "b2", !.u1 = "b1", !.u2 = "b2", !.u3 = "b3"], shallow |-> {},
       objs |-> O2 \cup {B("b3")}, packed |-> O2 \cup {B("b3")}, promisor |-> FALSE]
MCInits == {S0, S1, S2, S3, S4}
\* modify/modify (three stages), add/add (no base), modify/delete (no "theirs")
MCConflictShapes == {<<"b1", "b2", "b3">>, <<None, "b3", "b2">>, <<"b3", "b1", None>>}
=============================================================================
