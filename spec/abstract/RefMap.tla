------------------------------- MODULE RefMap -------------------------------
(* Property-level specification of a reference store (C15, C17, C19): a map from
   names to values with set, compare-and-swap, remove and "pack".  Packing is an
   implementation matter: at this level it is a stuttering step on `refs`.

   The module is also a behaviour *generator* (Engine A): `hist` records each
   operation with the result and the complete map the specification expects
   afterwards; TLC, run without a VIEW, enumerates every history up to MaxOps and
   the invariant EmitHist prints each maximal one as JSON.  The harness replays
   the operations on the real storage and compares every observation.          *)
EXTENDS Naturals, Sequences, FiniteSets, TLC, Json

CONSTANTS Names,       \* reference names (strings)
          Hashes,      \* hash values (strings "h1", "h2", ...)
          SymOK,       \* set of <<name, target>> pairs: symbolic values that may be stored
          NoRemove,    \* names that are never removed (HEAD)
          Inits,       \* set of initial maps (records name -> value string)
          MaxOps,
          EmitAll      \* TRUE: print every history of length MaxOps (exhaustive replay)

None == "none"
Sym(t) == "sym:" \o t
Vals == Hashes \cup {Sym(p[2]) : p \in SymOK}

VARIABLES refs, hist, init
vars == <<refs, hist, init>>

TypeOK == refs \in [Names -> Vals \cup {None}]

Init == /\ init \in Inits
        /\ refs = init
        /\ hist = <<>>

Rec(op, n, v, old, res, st) == [op |-> op, n |-> n, v |-> v, old |-> old, res |-> res, st |-> st]

Set(n, v) ==
  /\ refs' = [refs EXCEPT ![n] = v]
  /\ hist' = Append(hist, Rec("set", n, v, None, "ok", refs'))

\* compare-and-swap on the *hash* of the current value (a symbolic reference has no hash:
\* go-git compares Hash() which is the zero hash for symbolic refs; the spec only generates
\* CAS with hash-valued `old`, so a symbolic current value never matches).
CAS(n, v, old) ==
  LET cur == refs[n]
      res == IF cur = None THEN "notfound" ELSE IF cur = old THEN "ok" ELSE "changed"
  IN /\ refs' = IF res = "ok" THEN [refs EXCEPT ![n] = v] ELSE refs
     /\ hist' = Append(hist, Rec("cas", n, v, old, res, refs'))

Remove(n) ==
  /\ refs' = [refs EXCEPT ![n] = None]
  /\ hist' = Append(hist, Rec("remove", n, None, None, "ok", refs'))

Pack ==
  /\ refs' = refs
  /\ hist' = Append(hist, Rec("pack", None, None, None, "ok", refs'))

Next ==
  /\ Len(hist) < MaxOps
  /\ UNCHANGED init
  /\ \/ \E n \in Names, h \in Hashes : Set(n, h)
     \/ \E p \in SymOK : Set(p[1], Sym(p[2]))
     \/ \E n \in Names, h \in Hashes, o \in Hashes : CAS(n, h, o)
     \* a conditional set may also install a symbolic value over a hash (re-attaching a detached HEAD):
     \* the new serialisation is shorter than the one it replaces
     \/ \E p \in SymOK, o \in Hashes : CAS(p[1], Sym(p[2]), o)
     \/ \E n \in Names \ NoRemove : Remove(n)
     \/ Pack

Spec == Init /\ [][Next]_vars

---------------------------------------------------------------------------
\* Properties of the abstract store (they are what C15 means by "like a map")
\* last record is consistent with the map
LastConsistent == hist # <<>> => hist[Len(hist)].st = refs
\* a failed CAS leaves the map as it was before
CASFrame == \A i \in 1..Len(hist) :
              (hist[i].op = "cas" /\ hist[i].res # "ok") =>
                 hist[i].st = (IF i = 1 THEN init ELSE hist[i-1].st)
\* pack never changes the map
PackStutter == \A i \in 1..Len(hist) :
              hist[i].op = "pack" => hist[i].st = (IF i = 1 THEN init ELSE hist[i-1].st)

EmitHist == (EmitAll /\ Len(hist) = MaxOps) => PrintT(ToJson([init |-> init, steps |-> hist]))
=============================================================================
