-------------------------------- MODULE Repo --------------------------------
(* Property-level specification of a repository with a worktree, for the porcelain
   properties C25 (forced checkout / hard reset materialise the target exactly),
   C27 (status), C28 (add / remove / move / clean / commit), C29 (a refused
   operation changes nothing), C30 (non-forced checkout and merge / keep resets
   never lose local changes) and C32 (sparse checkout).

   The state is the classical three trees plus a target commit:
       H  tree of the HEAD commit,   I  index (stage 0),   W  worktree files,
       T  tree of the commit an operation moves to.
   A tree maps each path of the universe to an entry "none" or "<kind>:<blob>",
   kind f (regular), x (executable), l (symlink); trees are consistent with
   respect to directory / file conflicts (a path and a path below it never both
   exist).  Every (H, I, W, T, op) combination within the bounded universe is one
   TLC state; `exp` is what the specification expects of the operation:

       verdict "refuse"   the operation must return an error (state unchanged)
               "either"   it may succeed or refuse; IF it succeeds the post-state
                          must be inside the allowed sets below; a refusal must
                          leave everything unchanged (C29)
               "ok"       it must succeed with the post-state below
       head    "T" | "H" | "I"  which tree HEAD's commit has afterwards ("I" = a new
                          commit recording the index)
       idx, wt            per path the SET of allowed entries afterwards
       st                 (C27) per path the porcelain status <<staging, worktree>>

   The module is a rule table in the sense of DESIGN 2.1 (Engine C) whose rows are
   real states; the theorems at the end are TLC invariants over all of them.     *)
EXTENDS Naturals, Sequences, FiniteSets, TLC, Json, SequencesExt

CONSTANTS Paths,        \* set of path strings
          Under,        \* set of <<p, q>>: q lies below p (p is a proper leading directory of q)
          Entries,      \* entry strings other than "none"
          KindOf,       \* [Entries -> {"f", "x", "l"}]
          PreStates,    \* "any": every consistent H, I, W, T;  "clean": only clean pre-states (I = H, W = H);
                        \* "dirty-full": H = I = T = every path present, W = every file present with either content
                        \*  (local modifications everywhere: the sparse operations of C30 / C32)
          Ops,          \* operation names (subset of AllOps)
          Cone,         \* C32: [SparseSets -> set of paths inside the cone]; unused elsewhere
          SparseSets    \* C32: names of sparse directory sets

None == "none"
E0 == Entries \cup {None}
Maps == [Paths -> E0]
DF(t) == \A pq \in Under : ~(t[pq[1]] # None /\ t[pq[2]] # None)
Trees == {t \in Maps : DF(t)}

VARIABLES H, I, W, T, op, arg, exp
vars == <<H, I, W, T, op, arg, exp>>

Kind(e) == IF e = None THEN None ELSE KindOf[e]

Tracked(p)   == I[p] # None \/ H[p] # None
Untracked(p) == I[p] = None /\ W[p] # None
LocalWt(p)   == W[p] # I[p]                    \* unstaged modification, deletion, or untracked file
Staged(p)    == I[p] # H[p]
Touched(p)   == T[p] # H[p]

Single(t) == [p \in Paths |-> {t[p]}]

\* ------------------------------------------------------------------ C25: forced checkout / hard reset
\* a path below or above a path that changes kind (file <-> directory) may collide with
\* untracked content; the property text only speaks about tracked content and about
\* untracked files NOT in the target, so those collisions are left unconstrained.
Collides(p) == W[p] # None /\ \E pq \in Under : (pq[1] = p /\ T[pq[2]] # None) \/ (pq[2] = p /\ T[pq[1]] # None)
HardPost ==
  [verdict |-> "either", head |-> "T",
   idx |-> Single(T),
   wt  |-> [p \in Paths |->
             IF T[p] # None THEN {T[p]}
             ELSE IF I[p] # None THEN (IF H[p] # None THEN {None}   \* tracked and dropped by the target: goes away
                                       ELSE {None, W[p]})           \* staged only: git deletes it; leaving it
                                                                    \* untracked also satisfies the property
             ELSE IF Collides(p) THEN E0
             ELSE {W[p]}]]                                  \* not in the index = untracked: still there, unchanged

\* ------------------------------------------------------------------ C30: non-forced switch
\* git's two-way merge (read-tree -m -u H T), per path:
\*   T = H            nothing to do: index entry and file stay
\*   T # H, I = T     the index already has the target entry: nothing is written, the file stays
\*   T # H, I # T     the switch must WRITE T[p] into the index and the worktree; that is only
\*                    possible without loss when nothing is staged (I = H) and the file is
\*                    clean (W = I) - or already equals T
Write(p)       == T[p] # H[p] /\ I[p] # T[p]
LosesWt(p)     == Write(p) /\ W[p] # None /\ W[p] # I[p] /\ W[p] # T[p]   \* a deleted file loses nothing
LosesStaged(p) == Write(p) /\ I[p] # H[p]
\* an untracked file sitting where the target needs a directory (or below a target file)
LosesByDF(p)   == Untracked(p) /\ \E pq \in Under : (pq[1] = p /\ T[pq[2]] # None) \/ (pq[2] = p /\ T[pq[1]] # None)

\* mode "checkout": staged content must survive (in the index, or at least in the worktree file).
\* mode "keep" / "merge": git-reset(1) resets index entries (the table in its DISCUSSION section); the
\*   specification is no stricter than git there: the index may hold I or T for unwritten paths, and in
\*   merge mode a path whose staged content equals the file (W = I # H) may be reset to T as git does.
\* the path above / below p changes in the switch: git's directory/file handling decides; unconstrained
DFMoved(p) == \E pq \in Under : (pq[1] = p /\ T[pq[2]] # H[pq[2]]) \/ (pq[2] = p /\ T[pq[1]] # H[pq[1]])
DFRelated(p) == \E pq \in Under : (pq[1] = p /\ (W[pq[2]] # None \/ I[pq[2]] # None)) \/ (pq[2] = p /\ (W[pq[1]] # None \/ I[pq[1]] # None))
SoftSwitch(mode) ==
  \* paths entangled in a directory / file move never force a refusal here (git's own handling of
  \* those cases is intricate and the specification must not be stricter than git)
  LET must == \E p \in Paths : ~DFMoved(p) /\ ~DFRelated(p) /\ (LosesWt(p) \/ (mode = "checkout" /\ LosesStaged(p)))
  IN [verdict |-> IF must THEN "refuse" ELSE "either", head |-> "T",
      idx |-> [p \in Paths |-> IF DFMoved(p) \/ DFRelated(p) THEN E0
                               ELSE IF Write(p) THEN {T[p]}
                               \* staged content that exists nowhere else must stay staged
                               ELSE IF mode = "checkout" /\ I[p] # None /\ I[p] # H[p] /\ I[p] # W[p] THEN {I[p]}
                               ELSE {I[p], T[p]}],
      wt  |-> [p \in Paths |-> IF DFMoved(p) \/ DFRelated(p) THEN E0
                               ELSE IF Write(p) THEN {T[p]}
                               ELSE IF W[p] = None THEN {None, T[p]}       \* re-creating a deleted file loses nothing
                               ELSE IF mode = "merge" /\ W[p] = I[p] /\ I[p] # H[p] THEN {W[p], T[p]}
                               ELSE {W[p]}]]

\* ------------------------------------------------------------------ C28: add / remove / move / clean / commit
AddPost(ps, all) ==   \* git add <paths>: index takes the worktree state of those paths (deletions included)
  LET nothing == ~all /\ \A p \in ps : W[p] = None /\ I[p] = None     \* add -A with nothing to do is a no-op
  IN [verdict |-> IF nothing THEN "refuse" ELSE "ok", head |-> "H",
      idx |-> [p \in Paths |-> IF p \in ps THEN {W[p]} ELSE {I[p]}],
      wt |-> Single(W)]

CleanEntangled(p) == \E pq \in Under : (pq[1] = p /\ I[pq[2]] # None) \/ (pq[2] = p /\ I[pq[1]] # None)
RemovePost(p) == \* git rm -f <p>
  [verdict |-> IF I[p] = None THEN "refuse" ELSE "ok", head |-> "H",
   idx |-> [q \in Paths |-> IF q = p THEN {None} ELSE {I[q]}],
   wt  |-> [q \in Paths |-> IF q = p THEN {None} ELSE {W[q]}]]

\* git mv only looks at the worktree: the destination file must not exist (an index-only entry is replaced)
Free(q) == W[q] = None /\ \A pq \in Under : (pq[1] = q => W[pq[2]] = None) /\ (pq[2] = q => W[pq[1]] = None)
MovePost(p, q) == \* git mv <p> <q>
  [verdict |-> IF I[p] = None \/ W[p] = None \/ ~Free(q) THEN "refuse" ELSE "ok", head |-> "H",
   idx |-> [r \in Paths |-> IF r = p THEN {None} ELSE IF r = q THEN {I[p]} ELSE {I[r]}],
   wt  |-> [r \in Paths |-> IF r = p THEN {None} ELSE IF r = q THEN {W[p]} ELSE {W[r]}]]

\* (an untracked file below / above a path that the index still holds as the other kind is, for git, inside a
\*  tracked name: git clean leaves it - found by the git witness; both outcomes are allowed there)
CleanPost ==     \* git clean -f -d: untracked files go, everything else stays
  [verdict |-> "ok", head |-> "H", idx |-> Single(I),
   nodir |-> TRUE,      \* an empty directory tree in the worktree is gone afterwards
   wt |-> [p \in Paths |-> IF Untracked(p) THEN (IF CleanEntangled(p) THEN {None, W[p]} ELSE {None}) ELSE {W[p]}]]

CommitPost ==    \* records exactly the index; refuses an empty commit
  [verdict |-> IF I = H THEN "refuse" ELSE "ok", head |-> "I", idx |-> Single(I), wt |-> Single(W)]

\* ------------------------------------------------------------------ C27: status
TypeChange(a, b) == a # None /\ b # None /\ (Kind(a) = "l") # (Kind(b) = "l")
Code(a, b) == IF a = b THEN " " ELSE IF a = None THEN "A" ELSE IF b = None THEN "D"
              ELSE IF TypeChange(a, b) THEN "T" ELSE "M"
StatusOf(p) == IF Untracked(p) /\ H[p] = None THEN <<"?", "?">>
               ELSE <<Code(H[p], I[p]), IF I[p] = None THEN (IF W[p] = None THEN " " ELSE "?") ELSE Code(I[p], W[p])>>
StatusPost == [verdict |-> "ok", head |-> "H", idx |-> Single(I), wt |-> Single(W),
               st |-> [p \in Paths |-> StatusOf(p)]]

\* ------------------------------------------------------------------ C32: sparse checkout (forced) with directory set s
SparsePost(s) ==
  [verdict |-> "either", head |-> "T",
   idx |-> Single(T),
   skip |-> [p \in Paths |-> T[p] # None /\ p \notin Cone[s]],
   wt  |-> [p \in Paths |->
             IF T[p] # None THEN (IF p \in Cone[s] THEN {T[p]} ELSE {None})
             ELSE IF Tracked(p) THEN {None} ELSE {W[p]}]]

\* a keep reset that narrows the sparse set: files leaving the cone are removed from the worktree, so a local
\* modification on any of them must make the reset refuse (C30); files inside the cone keep their modifications
SparseKeepPost(s) ==
  LET must == \E p \in Paths : T[p] # None /\ p \notin Cone[s] /\ W[p] # None /\ W[p] # I[p]
  IN [verdict |-> IF must THEN "refuse" ELSE "either", head |-> "T",
      idx |-> Single(T),
      skip |-> [p \in Paths |-> T[p] # None /\ p \notin Cone[s]],
      wt  |-> [p \in Paths |-> IF T[p] # None THEN (IF p \in Cone[s] THEN {W[p]} ELSE {None}) ELSE {W[p]}]]

\* ------------------------------------------------------------------ C29: calls that must be refused outright
\* invalid options, a commit or branch that does not exist, a branch name that is taken: the call returns an
\* error and nothing at all changes (HEAD, branches, index, files).
BadOps == {"reset-hard-badsparse", "reset-merge-badsparse", "reset-keep-badsparse", "reset-mixed-badsparse",   \* SparseDirs names no directory of T
           "reset-hard-missing",            \* reset to a commit id that is not in the repository
           "checkout-create-existing",      \* checkout -b <a branch that exists>
           "checkout-missing-branch",       \* checkout <no such branch>
           "checkout-branch-and-hash",      \* branch and hash together without Create
           "checkout-force-missing-hash",   \* checkout -f <a commit id that is not in the repository>
           "merge-nonff",                   \* fast-forward merge of a branch that does not descend from HEAD
           "merge-unsupported"}             \* merge with a strategy other than fast-forward
RefusePost == [verdict |-> "refuse", head |-> "H", idx |-> Single(I), wt |-> Single(W)]
\* resets to HEAD itself (the commit option left empty): the same rules as a reset to a commit with T = H
HeadOps == {"reset-merge-head", "reset-keep-head"}
\* Repository.Merge with the fast-forward strategy is documented as a reference-only operation: the current
\* branch moves to T (a descendant of H), index and files are left for a later reset / checkout
RefOnlyFF == [verdict |-> "either", head |-> "T", idx |-> Single(I), wt |-> Single(W)]

\* ------------------------------------------------------------------ table
AllOps == {"reset-hard", "checkout-force", "checkout-force-create", "checkout", "checkout-twin", "checkout-create", "reset-merge", "reset-keep",
           "add", "add-all", "remove", "move", "clean", "commit", "status", "sparse", "sparse2", "sparse-keep", "pull", "merge-ff"} \cup BadOps \cup HeadOps

Args(o) == CASE o \in {"add", "remove"} -> {<<p>> : p \in Paths}
             [] o = "move" -> {<<pq[1], pq[2]>> : pq \in {x \in Paths \X Paths : x[1] # x[2]}}
             [] o \in {"sparse", "sparse-keep"} -> {<<s>> : s \in SparseSets}
             \* clean -d also removes directories that hold nothing ("empty-dir": the worktree has an empty
             \* directory tree outside the tracked paths, e.g. what removing its last file left behind)
             [] o = "clean" -> {<<"plain">>, <<"empty-dir">>}
             [] o = "sparse2" -> {<<s, s0>> : s \in SparseSets, s0 \in SparseSets}
             [] OTHER -> {<<>>}

\* operations naming a path that is entangled in a directory / file conflict with existing index or
\* worktree content behave like their recursive variants in go-git's API; they are left unspecified
\* (only C29's frame condition applies to them).
Entangled(p) == \E pq \in Under : (pq[1] = p /\ (I[pq[2]] # None \/ W[pq[2]] # None)) \/ (pq[2] = p /\ (I[pq[1]] # None \/ W[pq[1]] # None))
Unspecified(e) == [e EXCEPT !.verdict = "unspecified"]

ExpectRaw(o, a) ==
  CASE o \in {"reset-hard", "checkout-force", "checkout-force-create"} -> HardPost
    [] o = "checkout"    -> SoftSwitch("checkout")
    \* switching to another branch on the SAME commit / creating a branch at HEAD: T = H, nothing to write
    [] o \in {"checkout-twin", "checkout-create"} -> SoftSwitch("checkout")
    [] o \in {"reset-keep", "reset-keep-head"}   -> SoftSwitch("keep")
    [] o \in {"reset-merge", "reset-merge-head"} -> SoftSwitch("merge")
    \* pull = fetch + fast-forward of the current branch to T (a descendant of H): git's two-way merge, as checkout
    [] o = "pull"        -> SoftSwitch("checkout")
    [] o = "merge-ff"    -> RefOnlyFF
    [] o \in BadOps      -> RefusePost
    [] o = "add"         -> AddPost({a[1]}, FALSE)
    [] o = "add-all"     -> AddPost(Paths, TRUE)
    [] o = "remove"      -> RemovePost(a[1])
    [] o = "move"        -> MovePost(a[1], a[2])
    [] o = "clean"       -> CleanPost
    [] o = "commit"      -> CommitPost
    [] o = "status"      -> StatusPost
    [] o = "sparse"      -> SparsePost(a[1])
    [] o = "sparse2"     -> SparsePost(a[1])      \* the same outcome from a worktree that is already sparse (a[2])
    [] o = "sparse-keep" -> SparseKeepPost(a[1])

Expect(o, a) == IF o \in {"add", "remove", "move"} /\ \E i \in 1..Len(a) : Entangled(a[i])
                THEN Unspecified(ExpectRaw(o, a)) ELSE ExpectRaw(o, a)

\* pre-states: H, I, T any consistent trees; W any consistent worktree.  Operations that do
\* not look at T get T = H so that the table has no duplicate rows.
UsesT(o) == o \in {"reset-hard", "checkout-force", "checkout-force-create", "checkout", "reset-merge", "reset-keep", "sparse", "sparse2", "sparse-keep", "pull", "merge-ff", "merge-nonff",
                    "reset-hard-badsparse", "reset-merge-badsparse", "reset-keep-badsparse", "reset-mixed-badsparse", "checkout-branch-and-hash"}
Init == /\ op \in Ops /\ arg \in Args(op)
        /\ IF PreStates = "dirty-full"
             THEN /\ H = [p \in Paths |-> "f:b1"] /\ I = H /\ T = H
                  /\ W \in [Paths -> Entries]
             ELSE IF op = "sparse2"
             \* every path tracked, the worktree already narrowed to the cone of arg[2]
             THEN /\ H = [p \in Paths |-> "f:b1"] /\ I = H /\ T = H
                  /\ W = [p \in Paths |-> IF p \in Cone[arg[2]] THEN H[p] ELSE None]
             ELSE /\ H \in Trees /\ I \in Trees /\ W \in Trees /\ T \in Trees
                  /\ (~UsesT(op) => T = H)
                  /\ (PreStates = "clean" => (I = H /\ W = H))
        /\ exp = Expect(op, arg)
Next == UNCHANGED vars
Spec == Init /\ [][Next]_vars

Row == [H |-> H, I |-> I, W |-> W, T |-> T, op |-> op, arg |-> arg, exp |-> exp]
Emit == PrintT(ToJson(Row))

\* ------------------------------------------------------------------ theorems (TLC invariants over every row)
\* C25: a successful hard reset leaves no tracked change: index = T and every target path holds T
HardIsClean == op \in {"reset-hard", "checkout-force", "checkout-force-create"} =>
                 \A p \in Paths : exp.idx[p] = {T[p]} /\ (T[p] # None => exp.wt[p] = {T[p]})
\* C25: untracked files not in the target survive (outside directory / file collisions)
HardKeepsUntracked == op \in {"reset-hard", "checkout-force", "checkout-force-create"} =>
                 \A p \in Paths : (Untracked(p) /\ T[p] = None /\ ~Collides(p)) => exp.wt[p] = {W[p]}
\* C30: if any path must be written over a dirty file, the operation must refuse
DirtyWriteRefuses == op \in {"checkout", "reset-merge", "reset-keep"} =>
                 ((\E p \in Paths : ~DFMoved(p) /\ ~DFRelated(p) /\ Write(p) /\ W[p] # None /\ W[p] # I[p] /\ W[p] # T[p]) => exp.verdict = "refuse")
\* C30: whenever success is allowed, every local worktree modification survives or equals what is written
SwitchLosesNothing == (op \in {"checkout", "reset-merge", "reset-keep"} /\ exp.verdict # "refuse") =>
                 \A p \in Paths : (LocalWt(p) /\ W[p] # None /\ ~DFMoved(p) /\ ~DFRelated(p)) => exp.wt[p] = {W[p]}
\* C30: checkout / keep also keep staged content
SwitchKeepsStaged == (op \in {"checkout"} /\ exp.verdict # "refuse") =>
                 \A p \in Paths : (Staged(p) /\ I[p] # None /\ I[p] # W[p] /\ ~DFMoved(p) /\ ~DFRelated(p)) => exp.idx[p] = {I[p]}
\* C28: add-all followed by status would be clean in the worktree column: index = worktree
AddAllMatches == op = "add-all" => \A p \in Paths : exp.idx[p] = {W[p]}
\* C27: a path is reported unmodified in both columns exactly when the three trees agree on it
StatusCleanIff == op = "status" => \A p \in Paths :
                 (exp.st[p] = <<" ", " ">>) <=> (H[p] = I[p] /\ I[p] = W[p])
\* every allowed post-tree set is non-empty; allowed trees stay D/F consistent when unique
BadOptionsChangeNothing == op \in BadOps => exp.verdict = "refuse" /\ exp.idx = Single(I) /\ exp.wt = Single(W) /\ exp.head = "H"
\* C30 for sparse keep resets: a success never drops a modified file
SparseKeepLosesNothing == (op = "sparse-keep" /\ exp.verdict # "refuse") =>
                            \A p \in Paths : (W[p] # None /\ W[p] # I[p]) => exp.wt[p] = {W[p]}
WellFormed == \A p \in Paths : exp.idx[p] # {} /\ exp.wt[p] # {}
=============================================================================
