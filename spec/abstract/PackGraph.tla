------------------------------ MODULE PackGraph ------------------------------
(* The abstract pack ("token level" of a git packfile) and its corruption actions.

   A pack is  header (signature, version, count)  ++  entries  ++  trailer.
   An entry is (kind, content symbol, base designator) plus the header/body fields a
   malicious writer controls: declared size, inflated length, zlib checksum, and for
   deltas the two size fields of the delta header.  Bytes (zlib, SHA) are produced by
   the harness (harness/cmd/vhpack/packw.go) and interpreted by git; TLC enumerates
   the entry graphs and the corruption classes and computes the verdict:

     Verdict(p)  \in {"accept", "reject", "may"}
        reject : git index-pack refuses the pack for a structural reason; go-git must too
        accept : a structurally valid pack; go-git must accept it and yield exactly
                 Objects(p) (every one hashing to its name)
        may    : git accepts, go-git is allowed to refuse (version 3, depth > limit,
                 bytes after the trailer); if it accepts, objects must still be right
     StreamVerdict(p) : the same for a purely sequential reader that does not resolve
                 deltas (go-git's Scanner): reject only for framing/entry-local defects.

   Used by C09 (this table), C07/C08 (WellFormed / Resolve on packs parsed from real
   bytes, see PackRecord.tla).                                                        *)
EXTENDS Integers, Sequences, FiniteSets, TLC, Json, IOUtils, SequencesExt

CONSTANTS MinN, MaxN,     \* base packs have MinN..MaxN entries
          Rots,           \* subset of 0..3: rotations of the type assignment commit,tree,blob,tag
          MaxCorr,        \* corruption steps applied (0, 1 or 2)
          PairMod, PairSel, \* base packs whose index mod PairMod = PairSel get the second step
          DeepMod, DeepSel, \* base packs whose index mod DeepMod = DeepSel get the (scaled, costly) Deepen step
          DepthLimit,     \* git's / go-git's maximum delta chain depth (4095), for Deepen
          ThinOn,         \* TRUE: the benign action Thin (ref-delta on a base the receiver already has) is enabled (C08)
          Emit            \* "none" | "table" | "print"

FullKinds == {"commit", "tree", "blob", "tag"}
TypeSeq   == <<"commit", "tree", "blob", "tag">>
TypeAt(i, rot) == TypeSeq[((i + rot) % 4) + 1]

Ent(k, o, b) == [k |-> k, tb |-> "ok", o |-> o, b |-> b, bx |-> (IF b = 0 THEN "none" ELSE "ok"),
                 decl |-> 0, infl |-> 0, z |-> FALSE, ds |-> 0, dt |-> 0]

IsDelta(e) == e.k \in {"ofs", "ref"}
\* thin pack: a ref-delta whose base is not in the pack but is known to the receiver (a blob)
IsThin(e) == e.k = "ref" /\ e.bx = "thin"
N(p) == Len(p.es)

---------------------------------------------------------------------------
(* Graph level *)

\* index of the entry e (at position i) designates as its base, 0 if the designator is not
\* a valid pointer to another entry of this pack
BaseOf(p, i) ==
  LET e == p.es[i] IN
  IF ~IsDelta(e) \/ e.bx # "ok" \/ e.b = i \/ e.b < 1 \/ e.b > N(p) THEN 0
  ELSE IF e.k = "ofs" /\ e.b > i THEN 0 ELSE e.b

\* root (non-delta entry) of the chain of i, 0 if the chain is stuck or cyclic
RECURSIVE Root(_, _, _)
Root(p, i, fuel) ==
  IF ~IsDelta(p.es[i]) \/ IsThin(p.es[i]) THEN i
  ELSE IF fuel = 0 \/ BaseOf(p, i) = 0 THEN 0
  ELSE Root(p, BaseOf(p, i), fuel - 1)

RECURSIVE Depth(_, _, _)
Depth(p, i, fuel) ==
  IF IsThin(p.es[i]) THEN 1 ELSE
  IF ~IsDelta(p.es[i]) \/ fuel = 0 \/ BaseOf(p, i) = 0 THEN 0
  ELSE 1 + Depth(p, BaseOf(p, i), fuel - 1)

\* DESIGN C07: ofs base strictly earlier, ref base present, acyclic
WellFormed(p) == \A i \in 1..N(p) : Root(p, i, N(p)) # 0

---------------------------------------------------------------------------
(* Entry level *)

\* what a sequential reader can decide about one entry
EntryStreamOK(e) == /\ e.tb = "ok" /\ ~e.z /\ e.decl = e.infl
\* what a resolving reader decides in addition: the delta instruction stream is exactly the
\* nominal one (any change of its length or of its two size fields makes patch-delta fail)
EntryLocalOK(e) == /\ EntryStreamOK(e)
                   /\ IsDelta(e) => (e.decl = 0 /\ e.infl = 0 /\ e.ds = 0 /\ e.dt = 0)

\* resolved type of entry i, "bad" if it cannot be resolved
RECURSIVE Res(_, _, _)
Res(p, i, fuel) ==
  LET e == p.es[i] IN
  IF ~EntryLocalOK(e) THEN "bad"
  ELSE IF ~IsDelta(e) THEN e.k
  ELSE IF IsThin(e) THEN "blob"
  ELSE IF fuel = 0 \/ BaseOf(p, i) = 0 THEN "bad"
  ELSE Res(p, BaseOf(p, i), fuel - 1)

ResT(p, i) == Res(p, i, N(p))
\* type used to render the content of entry i (blob when unresolvable: any content will do)
RenderT(p, i) == LET r == Root(p, i, N(p)) IN IF r = 0 \/ IsThin(p.es[r]) THEN "blob" ELSE p.es[r].k

---------------------------------------------------------------------------
(* Pack level *)

HeaderOK(p)  == p.sig = "ok" /\ p.ver \in {2, 3} /\ p.cnt = 0
FramingOK(p) == HeaderOK(p) /\ p.cut.w = "none" /\ p.tr = "ok"
AllOK(p)     == \A i \in 1..N(p) : ResT(p, i) # "bad"
Lenient(p)   == p.ver = 3 \/ p.junk \/ p.deep.l = "over"

\* git index-pack: "REF_DELTA at offset .. already resolved (duplicate base ..?)": the object a
\* ref-delta names occurs twice in the pack (p.dup is the original, the copy is the last entry)
DupRefBase(p) == p.dup # 0 /\ \E i \in 1..N(p) : p.es[i].k = "ref" /\ BaseOf(p, i) \in {p.dup, N(p)}

Verdict(p) == IF ~FramingOK(p) \/ ~AllOK(p) \/ DupRefBase(p) THEN "reject"
              ELSE IF Lenient(p) THEN "may" ELSE "accept"

StreamReject(p) == ~FramingOK(p) \/ \E i \in 1..N(p) : ~EntryStreamOK(p.es[i])
StreamVerdict(p) == IF StreamReject(p) THEN "reject"
                    ELSE IF Verdict(p) = "accept" THEN "accept" ELSE "may"

\* ---- why a pack is rejected: the defect classes present in the record (finding signatures are
\* made of these; positions are deliberately dropped) ----
SizeDefects(e) ==
  IF e.decl = e.infl THEN (IF IsDelta(e) /\ e.decl # 0 THEN {"DeltaStream" \o (IF e.decl = 1 THEN "+1" ELSE "-1")} ELSE {})
  ELSE (IF e.decl = 1 THEN {"DeclSize+1"} ELSE IF e.decl = -1 THEN {"DeclSize-1"} ELSE {})
       \cup (IF e.infl = 1 THEN {"Inflate+1"} ELSE IF e.infl = -1 THEN {"Inflate-1"} ELSE {})

EntryStreamDefects(e) ==
  (IF e.tb # "ok" THEN {"TypeBits-" \o e.tb} ELSE {}) \cup (IF e.z THEN {"ZlibChecksum"} ELSE {})
  \cup (IF e.decl # e.infl THEN SizeDefects(e) ELSE {})

EntryDefects(p, i) ==
  LET e == p.es[i] IN
  EntryStreamDefects(e) \cup SizeDefects(e)
  \cup (IF IsDelta(e) /\ e.ds # 0 THEN {"DeltaSrcSize" \o (IF e.ds = 1 THEN "+1" ELSE "-1")} ELSE {})
  \cup (IF IsDelta(e) /\ e.dt # 0 THEN {"DeltaTgtSize" \o (IF e.dt = 1 THEN "+1" ELSE "-1")} ELSE {})
  \cup (IF e.k = "ofs" /\ e.bx # "ok" THEN {"Ofs-" \o e.bx} ELSE {})
  \cup (IF e.k = "ref" /\ e.bx = "ext" THEN {"Ref-dangling"} ELSE {})
  \cup (IF e.k = "ref" /\ e.bx = "ok" /\ e.b = i THEN {"Ref-self"} ELSE {})
  \cup (IF IsDelta(e) /\ BaseOf(p, i) # 0 /\ Root(p, i, N(p)) = 0
            /\ \A j \in 1..N(p) : IsDelta(p.es[j]) => (p.es[j].bx = "ok" /\ p.es[j].b # j) THEN {"Ref-cycle"} ELSE {})

FramingDefects(p) ==
  (IF p.sig # "ok" THEN {"BadSignature"} ELSE {}) \cup (IF p.ver \notin {2, 3} THEN {"BadVersion"} ELSE {})
  \cup (IF p.cnt = 1 THEN {"Count+1"} ELSE IF p.cnt = -1 THEN {"Count-1"} ELSE {})
  \cup (IF p.cut.w = "none" THEN {} ELSE {"Truncate-" \o p.cut.w})
  \cup (IF p.tr # "ok" THEN {"FlipTrailer"} ELSE {})

Defects(p) == FramingDefects(p) \cup UNION {EntryDefects(p, i) : i \in 1..N(p)}
                \cup (IF DupRefBase(p) THEN {"DupRefBase"} ELSE {})
StreamDefects(p) == FramingDefects(p) \cup UNION {EntryStreamDefects(p.es[i]) : i \in 1..N(p)}

\* number of intermediate ofs-deltas the harness inserts below entry deep.at so that its chain
\* depth is exactly DepthLimit - 1 ("under"), DepthLimit ("max": the deepest chain git pack-objects
\* --depth=4095 may write) or DepthLimit + 1 ("over": git index-pack has no limit, a reader may refuse)
ExtraN(p) == IF p.deep.l = "none" THEN 0
             ELSE DepthLimit + (IF p.deep.l = "over" THEN 1 ELSE IF p.deep.l = "under" THEN -1 ELSE 0) - Depth(p, p.deep.at, N(p))

\* Resolve: the objects of an accepted pack: (entry, resolved type, content symbol, length adjustment)
Objects(p) == {[i |-> i, t |-> ResT(p, i), o |-> p.es[i].o,
                adj |-> (IF IsDelta(p.es[i]) THEN 0 ELSE p.es[i].infl)] : i \in 1..N(p)}

---------------------------------------------------------------------------
(* Base packs: every well-formed entry graph with MinN..MaxN entries *)

EntChoices(n, i) == {<<"full", 0>>} \cup {<<"ofs", j>> : j \in 1..(i-1)} \cup {<<"ref", j>> : j \in (1..n) \ {i}}
AllChoices(n) == UNION {EntChoices(n, i) : i \in 1..n}
Shapes(n) == {s \in [1..n -> AllChoices(n)] : \A i \in 1..n : s[i] \in EntChoices(n, i)}

MkPack(n, rot, s) ==
  [n |-> n, rot |-> rot,
   es |-> [i \in 1..n |-> IF s[i][1] = "full" THEN Ent(TypeAt(i, rot), i, 0) ELSE Ent(s[i][1], i, s[i][2])],
   sig |-> "ok", ver |-> 2, cnt |-> 0, cut |-> [w |-> "none", at |-> 0], tr |-> "ok", junk |-> FALSE,
   deep |-> [at |-> 0, l |-> "none"], dup |-> 0]

BasePacks == UNION {{q \in {MkPack(n, r, s) : r \in Rots, s \in Shapes(n)} : WellFormed(q)} : n \in MinN..MaxN}

---------------------------------------------------------------------------
(* Corruption actions.  Each yields [p |-> pack', tag |-> class]; the class (no positions)
   is what finding signatures are made of.  A field is only changed while it is nominal,
   so the reachable set is a clean product and pairs commute.                          *)

Upd(p, i, e) == [p EXCEPT !.es[i] = e]
Untouched(p) == p.deep.l = "none"     \* a deepened pack gets no further corruption (cost)

PM(d) == IF d = 1 THEN "+1" ELSE "-1"

EntryActs(p, i) ==
  LET e == p.es[i] IN
    {[p |-> Upd(p, i, [e EXCEPT !.decl = d]), tag |-> "DeclSize" \o PM(d)] : d \in (IF e.decl = 0 THEN {-1, 1} ELSE {})}
  \cup
    {[p |-> Upd(p, i, [e EXCEPT !.infl = d]), tag |-> "Inflate" \o PM(d)] : d \in (IF e.infl = 0 THEN {-1, 1} ELSE {})}
  \cup
    (IF e.z THEN {} ELSE {[p |-> Upd(p, i, [e EXCEPT !.z = TRUE]), tag |-> "ZlibChecksum"]})
  \cup
    {[p |-> Upd(p, i, [e EXCEPT !.tb = t]), tag |-> "TypeBits-" \o t] : t \in (IF e.tb = "ok" THEN {"t0", "t5"} ELSE {})}
  \cup
    (IF ~IsDelta(e) THEN {} ELSE
       {[p |-> Upd(p, i, [e EXCEPT !.ds = d]), tag |-> "DeltaSrcSize" \o PM(d)] : d \in (IF e.ds = 0 THEN {-1, 1} ELSE {})}
       \cup
       {[p |-> Upd(p, i, [e EXCEPT !.dt = d]), tag |-> "DeltaTgtSize" \o PM(d)] : d \in (IF e.dt = 0 THEN {-1, 1} ELSE {})})
  \cup
    (IF e.k = "ofs" /\ e.bx = "ok"
     THEN {[p |-> Upd(p, i, [e EXCEPT !.bx = x]), tag |-> "Ofs-" \o x] : x \in {"zero", "mid", "hdr", "start", "before", "ovf"}}
     ELSE {})
  \cup
    (IF e.k = "ref" /\ e.bx = "ok"
     THEN {[p |-> Upd(p, i, [e EXCEPT !.bx = "ext"]), tag |-> "Ref-dangling"],
           [p |-> Upd(p, i, [e EXCEPT !.b = i]), tag |-> "Ref-self"]}
          \cup (IF ThinOn /\ \A j \in 1..N(p) : ~IsThin(p.es[j])
                THEN {[p |-> Upd(p, i, [e EXCEPT !.bx = "thin"]), tag |-> "Thin"]} ELSE {})
          \cup
          \* retarget to an entry whose chain passes through i: a cycle of length 2..N
          {[p |-> Upd(p, i, [e EXCEPT !.b = j]), tag |-> "Ref-cycle"] :
             j \in {jj \in (1..N(p)) \ {i, e.b} : Root(Upd(p, i, [e EXCEPT !.b = jj]), i, N(p)) = 0}}
     ELSE {})

CutActs(p) ==
  IF p.cut.w # "none" THEN {} ELSE
    {[p |-> [p EXCEPT !.cut = [w |-> "hdr", at |-> 0]], tag |-> "Truncate-hdr"],
     [p |-> [p EXCEPT !.cut = [w |-> "trailer", at |-> 0]], tag |-> "Truncate-trailer"]}
    \cup {[p |-> [p EXCEPT !.cut = [w |-> "start", at |-> i]], tag |-> "Truncate-start"] : i \in 1..N(p)}
    \cup {[p |-> [p EXCEPT !.cut = [w |-> "mid", at |-> i]], tag |-> "Truncate-mid"] : i \in 1..N(p)}

PackActs(p) ==
    (IF p.sig = "ok" THEN {[p |-> [p EXCEPT !.sig = "bad"], tag |-> "BadSignature"]} ELSE {})
  \cup {[p |-> [p EXCEPT !.ver = v], tag |-> (IF v = 3 THEN "Version3" ELSE "BadVersion")] : v \in (IF p.ver = 2 THEN {1, 3, 4} ELSE {})}
  \cup {[p |-> [p EXCEPT !.cnt = d], tag |-> "Count" \o PM(d)] : d \in (IF p.cnt = 0 THEN {-1, 1} ELSE {})}
  \cup (IF p.tr = "ok" THEN {[p |-> [p EXCEPT !.tr = "flip"], tag |-> "FlipTrailer"]} ELSE {})
  \cup (IF p.junk THEN {} ELSE {[p |-> [p EXCEPT !.junk = TRUE], tag |-> "TrailingJunk"]})
  \cup CutActs(p)
  \* benign: a second copy of a full entry (git packs may contain duplicates)
  \cup {[p |-> [p EXCEPT !.es = Append(p.es, p.es[j]), !.dup = j],
          tag |-> (IF \E i \in 1..N(p) : p.es[i].k = "ref" /\ p.es[i].bx = "ok" /\ p.es[i].b = j THEN "DupRefBase" ELSE "DupFull")] :
          j \in (IF p.dup = 0 THEN {jj \in 1..N(p) : ~IsDelta(p.es[jj])} ELSE {})}

\* scaled: stretch the chain of a leaf delta (base earlier in the pack) to the depth limit / one more
DeepActs(p, first) ==
  IF ~first THEN {} ELSE
  {[p |-> [p EXCEPT !.deep = [at |-> i, l |-> l]], tag |-> "Depth-" \o l] :
     i \in {ii \in 1..N(p) : /\ IsDelta(p.es[ii]) /\ BaseOf(p, ii) # 0 /\ BaseOf(p, ii) < ii
                              /\ \A j \in 1..N(p) : BaseOf(p, j) # ii},
     l \in {"under", "max", "over"}}

Succ(p, first) ==
  IF ~Untouched(p) THEN {}
  ELSE UNION {EntryActs(p, i) : i \in 1..N(p)} \cup PackActs(p) \cup DeepActs(p, first)

BenignTags == {"DupFull", "Depth-under", "Depth-max", "Thin"}
MayTags    == {"Version3", "TrailingJunk", "Depth-over"}
SizeTags   == {"DeclSize+1", "DeclSize-1", "Inflate+1", "Inflate-1"}

\* the only way two non-benign steps give a valid pack: declared size and data of one *full*
\* entry changed consistently (a different, valid object)
Compensated(p) == \A i \in 1..N(p) : LET e == p.es[i] IN
                     (e.decl # 0 \/ e.infl # 0) => (~IsDelta(e) /\ e.decl = e.infl)

---------------------------------------------------------------------------
(* The enumerated cases are real TLC states *)

VARIABLES st     \* [p |-> pack, tags |-> set of classes applied, k |-> number of steps, sel |-> gets a 2nd step, deep |-> may be deepened]
vars == <<st>>

BaseSeq == SetToSeq(BasePacks)
Sel(idx) == idx % PairMod = PairSel
DSel(idx) == idx % DeepMod = DeepSel

Init == \E idx \in 1..Len(BaseSeq) : st = [p |-> BaseSeq[idx], tags |-> {}, k |-> 0, sel |-> Sel(idx), deep |-> DSel(idx)]
Next == /\ st.k < MaxCorr
        /\ st.k = 1 => st.sel
        /\ \E x \in Succ(st.p, st.k = 0 /\ st.deep) : st' = [st EXCEPT !.p = x.p, !.tags = st.tags \cup {x.tag}, !.k = st.k + 1]
Spec == Init /\ [][Next]_vars

V == Verdict(st.p)

\* spec-level theorems, checked on every enumerated case
T_BaseAccepted  == st.k = 0 => V = "accept"
T_AcceptWF      == V # "reject" => (WellFormed(st.p) /\ FramingOK(st.p) /\ ~DupRefBase(st.p))
T_StreamSound   == StreamReject(st.p) => V = "reject"          \* a sequential reader never rejects a valid pack
T_StreamAccept  == StreamVerdict(st.p) = "accept" <=> V = "accept"
T_OnlyBenign    == V # "reject" => (st.tags \subseteq (BenignTags \cup MayTags) \/ (Compensated(st.p) /\ st.tags \subseteq (BenignTags \cup MayTags \cup SizeTags)))
T_HardRejects   == (st.tags \ (BenignTags \cup MayTags \cup SizeTags)) # {} => V = "reject"
T_MayIffLenient == V = "may" <=> (V # "reject" /\ (st.tags \cap MayTags) # {})
T_Defects       == (V = "reject" <=> Defects(st.p) # {}) /\ (StreamReject(st.p) <=> StreamDefects(st.p) # {})
T_DeltaType     == V # "reject" => \A i \in 1..N(st.p) : (IsDelta(st.p.es[i]) /\ ~IsThin(st.p.es[i])) => ResT(st.p, i) = ResT(st.p, BaseOf(st.p, i))
T_ObjectCount   == V # "reject" => Cardinality(Objects(st.p)) = N(st.p) /\ ExtraN(st.p) >= 0
\* chain depth boundary: DepthLimit - 1 and DepthLimit must be accepted, DepthLimit + 1 may be refused
T_DepthClasses  == /\ (st.tags # {} /\ st.tags \subseteq {"Depth-under", "Depth-max"}) => V = "accept"
                   /\ st.tags = {"Depth-over"} => V = "may"
T_DepthBound    == V = "accept" => \A i \in 1..N(st.p) : Depth(st.p, i, N(st.p)) + (IF st.p.deep.at = i THEN ExtraN(st.p) ELSE 0) <= DepthLimit

---------------------------------------------------------------------------
(* The same cases as a table for the conformance harness *)

SortedTags(T) == SetToSortSeq(T, LAMBDA a, b : TRUE)

Row(p, tags) ==
  [n |-> N(p), rot |-> p.rot, sig |-> p.sig, ver |-> p.ver, cnt |-> p.cnt, cutw |-> p.cut.w, cutat |-> p.cut.at,
   tr |-> p.tr, junk |-> p.junk, deepat |-> p.deep.at, deepl |-> p.deep.l, extra |-> ExtraN(p), dup |-> p.dup,
   es |-> [i \in 1..N(p) |-> [k |-> p.es[i].k, tb |-> p.es[i].tb, o |-> p.es[i].o, b |-> p.es[i].b, bx |-> p.es[i].bx,
                               decl |-> p.es[i].decl, infl |-> p.es[i].infl, z |-> p.es[i].z,
                               ds |-> p.es[i].ds, dt |-> p.es[i].dt, rt |-> RenderT(p, i),
                               ed |-> SortedTags(EntryDefects(p, i))]],
   why |-> SortedTags(Defects(p)), swhy |-> SortedTags(StreamDefects(p)),
   tags |-> SortedTags(tags), v |-> Verdict(p), sv |-> StreamVerdict(p),
   objs |-> IF Verdict(p) = "reject" THEN <<>> ELSE SetToSeq(Objects(p))]

Step1(p, deep) == {[p |-> x.p, tags |-> {x.tag}] : x \in Succ(p, deep)}
Step2(c) == {[p |-> x.p, tags |-> c.tags \cup {x.tag}] : x \in Succ(c.p, FALSE)}

CasesOf(idx) ==
  LET b  == BaseSeq[idx]
      s1 == IF MaxCorr >= 1 THEN Step1(b, DSel(idx)) ELSE {}
      s2 == IF MaxCorr >= 2 /\ Sel(idx) THEN UNION {Step2(c) : c \in s1} ELSE {}
  IN {[p |-> b, tags |-> {}]} \cup s1 \cup s2

\* (a parameter keeps TLC from evaluating the table eagerly as a constant definition)
Rows(file) == FlattenSeq([idx \in 1..Len(BaseSeq) |-> SetToSeq({Row(c.p, c.tags) : c \in CasesOf(idx)})])

\* Emit = "table": one sequential pass writes packgraph_rows.ndjson;
\* Emit = "print": every enumerated state prints its row (parallel BFS; collected by the runner)
ASSUME Emit = "table" => ndJsonSerialize("packgraph_rows.ndjson", Rows("packgraph_rows.ndjson"))
EmitRow == Emit = "print" => PrintT(ToJson(Row(st.p, st.tags)))
=============================================================================
