------------------------------ MODULE PackRequest ------------------------------
(* C07: the requests handed to go-git's packfile.Encoder.  The object universe is fixed
   (the harness materialises it once per source storage); a scenario chooses which
   families of objects are requested, whether ids are repeated in the request, the delta
   window, the delta kind and the storage the objects are read from.  TLC enumerates the
   scenarios and computes the request sequence and the set the pack must contain
   (Requested = the request without repetitions); the harness encodes, parses the bytes
   back with its own reader and PackRecord.tla judges the result.

   Families (content classes of the property text):
     chain  c1..c5   five blobs, each the previous one plus a line   (long delta chains)
     near   x, x1 (x plus one byte), xx (x twice)                     (similar blobs that delta well)
     eb, et          empty blob, empty tree
     trees  t1, t2   similar trees (t2 = t1 plus an entry)
     cm, tg          a commit of t1 and an annotated tag of it
     big    b1, b2   two similar blobs > 64 KiB (copy instructions split at 64 KiB)
     huge   h1, h2   a 17 MiB blob and the same blob without its first 5 MiB (12 MiB): the shared run reaches beyond offset 16 MiB
                     (copy instructions need the fourth offset byte); rendered lazily from a seeded
                     generator, only in the memory source; enumerated apart from the family product
                     because one encoding costs seconds                                             *)
EXTENDS Integers, Sequences, FiniteSets, TLC, Json

CONSTANTS Windows, Kinds, Sources,   \* option matrix
          HugeWindows, HugeKinds,    \* option rows of the huge pair (empty sets: not enumerated)
          SelMod, SelSel,            \* family combinations whose index mod SelMod = SelSel are enumerated
          Emit

Chain == <<"c1", "c2", "c3", "c4", "c5">>
FamilyChoices == [chain |-> {"none", "two", "all"}, near |-> {"none", "all"}, eb |-> {"n", "y"}, et |-> {"n", "y"},
                  trees |-> {"none", "one", "both"}, cm |-> {"n", "y"}, tg |-> {"n", "y"},
                  big |-> {"none", "one", "both"}, dup |-> {"none", "first", "all"}]

Fams == [chain : FamilyChoices.chain, near : FamilyChoices.near, eb : FamilyChoices.eb, et : FamilyChoices.et,
         trees : FamilyChoices.trees, cm : FamilyChoices.cm, tg : FamilyChoices.tg, big : FamilyChoices.big,
         dup : FamilyChoices.dup, huge : {"none"}]
HugeOnly == [chain |-> "none", near |-> "none", eb |-> "n", et |-> "n", trees |-> "none", cm |-> "n", tg |-> "n",
             big |-> "none", dup |-> "none", huge |-> "pair"]

\* mixed-radix index of a family combination (for the seeded selection)
Idx(f) == LET a == IF f.chain = "none" THEN 0 ELSE IF f.chain = "two" THEN 1 ELSE 2
              b == IF f.near = "none" THEN 0 ELSE 1
              c == IF f.eb = "n" THEN 0 ELSE 1
              d == IF f.et = "n" THEN 0 ELSE 1
              e == IF f.trees = "none" THEN 0 ELSE IF f.trees = "one" THEN 1 ELSE 2
              g == IF f.cm = "n" THEN 0 ELSE 1
              h == IF f.tg = "n" THEN 0 ELSE 1
              k == IF f.big = "none" THEN 0 ELSE IF f.big = "one" THEN 1 ELSE 2
              m == IF f.dup = "none" THEN 0 ELSE IF f.dup = "first" THEN 1 ELSE 2
          IN a + 3 * (b + 2 * (c + 2 * (d + 2 * (e + 3 * (g + 2 * (h + 2 * (k + 3 * m)))))))

Base(f) ==
     (IF f.chain = "none" THEN <<>> ELSE IF f.chain = "two" THEN <<"c1", "c5">> ELSE Chain)
  \o (IF f.near = "none" THEN <<>> ELSE <<"x", "x1", "xx">>)
  \o (IF f.eb = "y" THEN <<"eb">> ELSE <<>>) \o (IF f.et = "y" THEN <<"et">> ELSE <<>>)
  \o (IF f.trees = "none" THEN <<>> ELSE IF f.trees = "one" THEN <<"t1">> ELSE <<"t1", "t2">>)
  \o (IF f.cm = "y" THEN <<"cm">> ELSE <<>>) \o (IF f.tg = "y" THEN <<"tg">> ELSE <<>>)
  \o (IF f.big = "none" THEN <<>> ELSE IF f.big = "one" THEN <<"b1">> ELSE <<"b1", "b2">>)
  \o (IF f.huge = "pair" THEN <<"h1", "h2">> ELSE <<>>)

\* the request sequence: repetitions are part of the request, not of the result
Request(f) == LET b == Base(f) IN
              IF f.dup = "none" \/ b = <<>> THEN b
              ELSE IF f.dup = "first" THEN b \o <<b[1]>>
              ELSE b \o b

Requested(f) == {Request(f)[i] : i \in 1..Len(Request(f))}

VARIABLES sc
SelFams == {f \in Fams : Base(f) # <<>> /\ Idx(f) % SelMod = SelSel}
Init == \/ \E f \in SelFams, w \in Windows, k \in Kinds, s \in Sources :
             sc = [f |-> f, window |-> w, kind |-> k, src |-> s]
        \/ \E w \in HugeWindows, k \in HugeKinds :
             sc = [f |-> HugeOnly, window |-> w, kind |-> k, src |-> "memory"]
Next == UNCHANGED sc

Row == [req |-> Request(sc.f), want |-> Requested(sc.f), window |-> sc.window, kind |-> sc.kind, src |-> sc.src,
        fam |-> sc.f, idx |-> Idx(sc.f)]

\* theorems
Q_NoLoss    == Requested(sc.f) = {Base(sc.f)[i] : i \in 1..Len(Base(sc.f))}       \* repetition adds nothing
Q_DupLonger == sc.f.dup # "none" => Len(Request(sc.f)) > Cardinality(Requested(sc.f))
Q_Injective == Cardinality(Requested(sc.f)) = Len(Base(sc.f))                      \* families are disjoint
EmitRow     == Emit => PrintT(ToJson(Row))
=============================================================================
