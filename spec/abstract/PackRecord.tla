------------------------------ MODULE PackRecord ------------------------------
(* Acceptance predicate for packs that real code produced (C07: go-git's Encoder,
   C08: git pack-objects as parsed by go-git).  The harness' own minimal pack reader
   turns the bytes into one record per pack:

     [req     |-> <<ids>>                       the requested object ids (C07) / git's listing (C08)
      count   |-> n                             count field of the header
      version |-> 2, sigok, trailerok           header / trailer facts
      junk    |-> number of bytes after the trailer
      es      |-> << [off, kind, neg, baseid, id, type, size] >>   entries in pack order ]

   kind is commit/tree/blob/tag/ofs/ref; for ofs `neg` is the encoded distance, for ref
   `baseid` the named base; id/type/size are what the entry resolves to when the harness
   follows *that* pointer ("" when it cannot).  Which entry a pointer designates, and
   whether the graph is well-formed, is decided here by re-using PackGraph: the record
   is mapped to an abstract pack (ToGraph) and PackGraph!WellFormed / Depth are evaluated.

   Every record is one TLC state (Init enumerates them) with its reasons as a state
   variable; failing records are printed as [i, why] (EmitBad) and collected by the runner. *)
EXTENDS PackGraph

CONSTANTS RecFile,        \* ndjson file with the records
          ExternalOK,     \* TRUE: ref-deltas may name a base outside the pack (thin packs, C08)
          DupOK           \* TRUE: the pack may contain an object twice (git accepts such packs; C08)

Recs == ndJsonDeserialize(RecFile)

\* index of the entry designated by entry i of record r, 0 if none
PtrIdx(r, i) ==
  LET e == r.es[i] IN
  IF e.kind = "ofs" THEN
     LET c == {j \in 1..Len(r.es) : r.es[j].off = e.off - e.neg} IN
     IF c = {} THEN 0 ELSE CHOOSE j \in c : TRUE
  ELSE IF e.kind = "ref" THEN
     LET c == {j \in 1..Len(r.es) : j # i /\ r.es[j].id = e.baseid} IN
     IF c = {} THEN 0 ELSE CHOOSE j \in c : \A k \in c : j <= k
  ELSE 0

External(r, i) == r.es[i].kind = "ref" /\ PtrIdx(r, i) = 0 /\ r.es[i].baseid \in {r.ext[k] : k \in 1..Len(r.ext)}

\* the record as an abstract pack of PackGraph; an external (thin) base becomes a full entry
ToGraph(r) ==
  [n |-> Len(r.es), rot |-> 0,
   es |-> [i \in 1..Len(r.es) |->
             IF r.es[i].kind \in {"ofs", "ref"} /\ ~(ExternalOK /\ External(r, i))
             THEN [Ent(r.es[i].kind, i, PtrIdx(r, i)) EXCEPT !.bx = IF PtrIdx(r, i) = 0 THEN "ext" ELSE "ok"]
             ELSE Ent(IF r.es[i].kind \in {"ofs", "ref"} THEN r.es[i].type ELSE r.es[i].kind, i, 0)],
   sig |-> (IF r.sigok THEN "ok" ELSE "bad"), ver |-> r.version, cnt |-> r.count - Len(r.es),
   cut |-> [w |-> "none", at |-> 0], tr |-> (IF r.trailerok THEN "ok" ELSE "flip"), junk |-> r.junk > 0,
   deep |-> [at |-> 0, l |-> "none"], dup |-> 0]

Ids(r) == {r.es[i].id : i \in 1..Len(r.es)}
Req(r) == {r.req[i] : i \in 1..Len(r.req)}

Reasons(r) ==
  LET g == ToGraph(r) IN
    (IF r.sigok /\ r.version = 2 THEN {} ELSE {"bad-header"})
  \cup (IF r.count = Len(r.es) THEN {} ELSE {"count-mismatch"})
  \cup (IF r.trailerok THEN {} ELSE {"trailer-mismatch"})
  \cup (IF r.junk = 0 THEN {} ELSE {"bytes-after-trailer"})
  \cup (IF \A i \in 1..Len(r.es) : r.es[i].kind = "ofs" => (r.es[i].neg > 0 /\ PtrIdx(r, i) # 0 /\ PtrIdx(r, i) < i) THEN {} ELSE {"ofs-base-not-an-earlier-entry"})
  \cup (IF \A i \in 1..Len(r.es) : r.es[i].kind = "ref" => (PtrIdx(r, i) # 0 \/ (ExternalOK /\ External(r, i))) THEN {} ELSE {"ref-base-not-in-pack"})
  \cup (IF WellFormed(g) THEN {} ELSE {"delta-graph-not-well-formed"})
  \cup (IF \A i \in 1..Len(r.es) : Depth(g, i, Len(r.es)) <= DepthLimit THEN {} ELSE {"chain-too-deep"})
  \cup (IF \A i \in 1..Len(r.es) : r.es[i].id # "" THEN {} ELSE {"entry-does-not-resolve"})
  \cup (IF \A i \in 1..Len(r.es) : PtrIdx(r, i) # 0 => r.es[i].type = r.es[PtrIdx(r, i)].type THEN {} ELSE {"delta-changes-type"})
  \cup (IF DupOK \/ Cardinality(Ids(r)) = Len(r.es) THEN {} ELSE {"duplicate-object"})
  \cup (IF Req(r) \subseteq Ids(r) THEN {} ELSE {"requested-object-missing"})
  \cup (IF Ids(r) \subseteq Req(r) THEN {} ELSE {"unrequested-object"})

VARIABLES ri, why
rvars == <<ri, why, st>>
RInit == ri \in 1..Len(Recs) /\ why = Reasons(Recs[ri]) /\ st = <<>>
RNext == UNCHANGED rvars

\* spec-level sanity: a record without reasons is an accepted PackGraph pack
R_AcceptedIsValid == why = {} => Verdict(ToGraph(Recs[ri])) = "accept"

\* failing records are reported from the states (parallel), collected by the runner
EmitBad == why # {} => PrintT(ToJson([i |-> ri, why |-> SetToSortSeq(why, LAMBDA a, b : TRUE)]))
=============================================================================
