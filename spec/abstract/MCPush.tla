------------------------------- MODULE MCPush -------------------------------
EXTENDS PushGen
PD(p2, p3, p4) == [c \in 1..4 |-> IF c = 1 THEN {} ELSE IF c = 2 THEN p2 ELSE IF c = 3 THEN p3 ELSE p4]
MCPDags == { PD({1}, {2}, {3}),      \* chain
             PD({1}, {1}, {2}),      \* fork: 3 diverges from 2-4
             PD({1}, {1}, {2,3}) }   \* diamond
MCPDagsAll == {p \in [1..4 -> SUBSET (1..4)] : \A c \in 1..4 : p[c] \subseteq 1..(c-1) /\ Cardinality(p[c]) <= 2 /\ (c > 1 => p[c] # {})}
MCLocalA == {2, 3, 4}
MCRemoteA == {0, 1, 2, 3}
MCTagPairs == {<<0, 0>>, <<2, 0>>, <<2, 2>>, <<3, 2>>, <<2, 3>>}
MCItemSets == {"a", "+a", "a,t", "a,+t", "b,a", "del-a,b", "a:b"}
=============================================================================
