------------------------------ MODULE Sideband ------------------------------
(* Sideband multiplexing (C34, second half).

   Property level: a producer writes byte strings on channels 1 (pack data), 2 (progress) and 3 (error)
   through the muxer, optionally followed by a flush packet; a consumer reads with caller buffers of
   arbitrary sizes.  The bytes delivered are exactly the channel-1 bytes written before the first error
   message, in order; a Read returns a full buffer while data remains, otherwise what remains together
   with "eof" (flush or end of stream) or "err" (a channel-3 message); the progress sink receives exactly
   the channel-2 bytes written before that point.  `Want(k)` computes the answer of the k-th read from the
   sizes alone.

   Implementation level (checked against Want by TLC): the muxer cuts each write into pieces of at most
   Piece bytes (one pkt-line each); the demuxer takes the next piece, copies what fits into the caller's
   buffer and keeps the rest as `pending` for the next call.

   Sizes are real byte counts (Piece = 995 for side-band, 65515 for side-band-64k), so no scaling is
   needed between the model and the replay.  Engine A: `hist` = writes, flush flag, reads with the
   expected (count, status), final drain with the expected totals.                                   *)
EXTENDS Naturals, Sequences, FiniteSets, TLC, Json

CONSTANTS Piece,       \* max payload bytes per packet (MaxPackedSize - 5)
          Sizes,       \* sizes a producer may write
          Bufs,        \* caller buffer sizes
          MaxWrites, MaxReads,
          HistOn

Min(a, b) == IF a < b THEN a ELSE b
RECURSIVE SumTo(_, _, _)
\* sum of f[i].n for i < upto with f[i].ch = ch
SumTo(ws, upto, ch) == IF upto <= 1 THEN 0
                       ELSE SumTo(ws, upto - 1, ch) + (IF ws[upto - 1].ch = ch THEN ws[upto - 1].n ELSE 0)

\* index of the first non-empty error write (Len+1 if none)
FirstErr(ws) == LET S == {i \in 1..Len(ws) : ws[i].ch = 3 /\ ws[i].n > 0}
                IN IF S = {} THEN Len(ws) + 1 ELSE CHOOSE i \in S : \A j \in S : i <= j
DataTotal(ws) == SumTo(ws, FirstErr(ws), 1)
ProgTotal(ws) == SumTo(ws, FirstErr(ws), 2)
Ending(ws)    == IF FirstErr(ws) <= Len(ws) THEN "err" ELSE "eof"

\* the muxer: pieces of one write
RECURSIVE Pieces(_, _)
Pieces(ch, n) == IF n = 0 THEN <<>> ELSE <<[ch |-> ch, n |-> Min(n, Piece)]>> \o Pieces(ch, n - Min(n, Piece))
RECURSIVE Mux(_, _)
Mux(ws, i) == IF i > Len(ws) THEN <<>> ELSE Pieces(ws[i].ch, ws[i].n) \o Mux(ws, i + 1)

VARIABLES phase,     \* "write" | "read" | "done"
          writes,    \* sequence of [ch, n]
          flush,     \* a flush packet follows the writes
          pkts,      \* impl: packets not yet taken by the demuxer
          pending,   \* impl: bytes of the current channel-1 piece not yet delivered
          got,       \* channel-1 bytes delivered so far
          prog,      \* channel-2 bytes passed to the progress sink so far
          nreads,
          last,      \* [n, st, wn, wst]: result of the last read and what the property-level spec wants
          hist
vars == <<phase, writes, flush, pkts, pending, got, prog, nreads, last, hist>>

H(e) == IF HistOn THEN Append(hist, e) ELSE hist

Init == /\ phase = "write" /\ writes = <<>> /\ flush \in BOOLEAN /\ pkts = <<>> /\ pending = 0
        /\ got = 0 /\ prog = 0 /\ nreads = 0 /\ last = [n |-> 0, st |-> "ok", wn |-> 0, wst |-> "ok"] /\ hist = <<>>

Write(ch, n) == /\ phase = "write" /\ Len(writes) < MaxWrites
                /\ writes' = Append(writes, [ch |-> ch, n |-> n])
                /\ UNCHANGED <<phase, flush, pkts, pending, got, prog, nreads, last, hist>>

StartReading == /\ phase = "write" /\ phase' = "read"
                /\ pkts' = Mux(writes, 1)
                /\ UNCHANGED <<writes, flush, pending, got, prog, nreads, last, hist>>

\* property level: answer to a read of b bytes when `g` bytes were delivered before
Want(b, g) == LET rem == DataTotal(writes) - g IN
              IF b <= rem THEN [n |-> b, st |-> "ok"] ELSE [n |-> rem, st |-> Ending(writes)]

\* impl level: Demuxer.Read(b) = repeat doRead until b is full or something ends the stream
RECURSIVE Fill(_, _, _, _, _)
\* need: bytes still wanted, ps: packets left, pend: pending bytes, n: delivered in this call, pr: progress bytes added
Fill(need, ps, pend, n, pr) ==
  IF need = 0 THEN [n |-> n, st |-> "ok", ps |-> ps, pend |-> pend, pr |-> pr]
  ELSE IF pend > 0 THEN LET c == Min(need, pend) IN Fill(need - c, ps, pend - c, n + c, pr)
  ELSE IF ps = <<>> THEN [n |-> n, st |-> "eof", ps |-> ps, pend |-> 0, pr |-> pr]     \* flush or end of stream
  ELSE LET p == Head(ps) IN
       IF p.ch = 1 THEN LET c == Min(need, p.n) IN Fill(need - c, Tail(ps), p.n - c, n + c, pr)
       ELSE IF p.ch = 2 THEN Fill(need, Tail(ps), 0, n, pr + p.n)
       ELSE [n |-> n, st |-> "err", ps |-> Tail(ps), pend |-> 0, pr |-> pr]

Read(b) == /\ phase = "read"
           /\ LET f == Fill(b, pkts, pending, 0, 0)
                  w == Want(b, got) IN
              /\ pkts' = f.ps /\ pending' = f.pend /\ got' = got + f.n /\ prog' = prog + f.pr
              /\ last' = [n |-> f.n, st |-> f.st, wn |-> w.n, wst |-> w.st]
              /\ nreads' = nreads + 1
              /\ phase' = IF f.st = "ok" THEN "read" ELSE "done"
              /\ hist' = H([b |-> b, n |-> w.n, st |-> w.st])
           /\ UNCHANGED <<writes, flush>>

Huge == 1000000
Next == \/ \E ch \in 1..3, n \in Sizes : Write(ch, n)
        \/ StartReading
        \/ \E b \in Bufs : nreads < MaxReads /\ Read(b)
        \/ nreads >= MaxReads /\ Read(Huge)            \* final drain (io.ReadAll)

Spec == Init /\ [][Next]_vars
---------------------------------------------------------------------------
\* C34 (sideband half): every read returns what the property-level spec computes from the sizes alone
Faithful == last.n = last.wn /\ last.st = last.wst
\* at the end everything written on channel 1 / 2 before the first error has been delivered exactly once
Complete == phase = "done" => (got = DataTotal(writes) /\ prog = ProgTotal(writes))
\* the muxer never produces an over-long or empty packet
MuxOK == \A i \in 1..Len(pkts) : pkts[i].n >= 1 /\ pkts[i].n <= Piece
EmitHist == (HistOn /\ phase = "done") =>
              PrintT(ToJson([piece |-> Piece, writes |-> writes, flush |-> flush, reads |-> hist,
                             data |-> DataTotal(writes), prog |-> ProgTotal(writes), ending |-> Ending(writes)]))
=============================================================================
