----------------------------- MODULE PktStream -----------------------------
(* Pkt-line framing under arbitrary chunking (C34).

   Property level: a writer emits packets; whatever way the byte stream is cut into pieces by the
   transport, each reader call observes Expect(kind of the next packet, reader operation) and
   consumes exactly that packet (or nothing, for a peek).  Expect is the oracle for the replay.

   Implementation level (checked here by TLC against Expect, for every chunking): the reader is
   the automaton  header = ReadFull(4 bytes) ; parse ; body = ReadFull(len-4)  where every
   underlying Read may return any non-empty prefix of what is requested and available (action
   Deliver).  The byte stream is modelled in *units*: 4 header units per packet and 0..3 payload
   units (payload of 0, 1, 2 bytes = that many units; a long payload = first byte, bulk, last byte).

   Packet kinds
     d0 d1 d2 dM1 dM   data, payload 0 / 1 / 2 / 65515 / 65516 (= max) bytes
     err               data packet "ERR <text>\n"  (observed as an error line, still consumed)
     flush delim rend  0000 0001 0002
     b0003 bzzzz bfff1 malformed length headers (4 bytes, no body): rejected, the 4 bytes are consumed and
                       the following packet is still delivered (no loss of synchronisation)
     tb                truncated body: header 0006, one payload byte, end of stream   (last packet only)
     th                truncated header: two header bytes, end of stream              (last packet only)

   Observation classes (what the Go errors can distinguish): data, errline, flush, delim, rend, eof,
   invalid-length (ErrInvalidPktLen: malformed or short header, or caller buffer < 4),
   unexpected-eof (io.ErrUnexpectedEOF: body cut short, or caller buffer too small for the packet).

   Reader operations: read_full (buffer 65520), read_exact (buffer = packet), read_short (buffer one byte
   too small: the packet is dropped, the stream stays in sync), read_tiny (buffer < 4: refused, nothing
   consumed), readline, scan (pktline.Scanner), peek (PeekLine: same answer, nothing consumed).

   Engine A: `hist` records writes, reader calls with the expected observation, and the size of every
   delivery; EmitHist prints complete behaviours; the harness turns the deliveries into cut points of
   the real byte stream and replays the reader calls against go-git's pktline package.            *)
EXTENDS Naturals, Sequences, FiniteSets, TLC, Json

CONSTANTS Kinds,        \* packet kinds the writer may emit
          Ops,          \* reader operations
          MaxPkts,      \* packets per behaviour
          MaxInFlight,  \* packets written but not yet consumed
          MaxExtra,     \* reader calls that consume nothing (peek, read_tiny) per behaviour
          HistOn        \* TRUE: record and print behaviours (replay; the writer then writes everything and closes
                        \* before the reader starts -- the interleaving of the two is not observable); FALSE: state space only

Data    == {"d0", "d1", "d2", "dM1", "dM", "err"}
Special == {"flush", "delim", "rend"}
Bad     == {"b0003", "bzzzz", "bfff1"}
Trunc   == {"tb", "th"}

PUnits(k) == CASE k = "d1" -> 1 [] k = "d2" -> 2 [] k \in {"dM1", "dM", "err"} -> 3 [] k = "tb" -> 2 [] OTHER -> 0
\* units of the packet that really are on the wire
HdrOnWire(k)  == IF k = "th" THEN 2 ELSE 4
BodyOnWire(k) == IF k = "tb" THEN 1 ELSE PUnits(k)

Obs(r, pay, consumed) == [r |-> r, pay |-> pay, consumed |-> consumed]

\* ---- the property-level oracle: what a reader call observes when the next packet has kind k
\*      (k = "eof": nothing left and the writer has closed)
Expect(k, op) ==
  IF op = "read_tiny" THEN Obs("invalid-length", "none", FALSE)
  ELSE IF k = "eof" THEN Obs("eof", "none", FALSE)
  ELSE IF k = "th" THEN Obs(IF op = "peek" THEN "eof" ELSE "invalid-length", "none", op # "peek")
  ELSE IF k \in Bad THEN Obs("invalid-length", "none", op # "peek")
  ELSE IF k \in Special THEN Obs(k, "none", op # "peek")
  ELSE IF k = "tb" THEN Obs(IF op = "peek" THEN "eof" ELSE "unexpected-eof", "none", op # "peek")
  ELSE IF op = "read_short" /\ PUnits(k) > 0 THEN Obs("unexpected-eof", "none", TRUE)
  ELSE IF k = "err" THEN Obs("errline", k, op # "peek")
  ELSE Obs("data", k, op # "peek")

VARIABLES q,        \* kinds written and not yet consumed (the wire, packet granularity)
          budget,   \* packets the writer may still emit
          closed,   \* writer has closed the stream
          rd,       \* reader automaton
          last,     \* last completed observation with the oracle's answer: [got, want]
          extra,    \* non-consuming reader calls made so far
          hist
vars == <<q, budget, closed, rd, last, extra, hist>>

Idle == [ph |-> "idle", op |-> "none", need |-> 0, have |-> 0]
H(e) == IF HistOn THEN Append(hist, e) ELSE hist

Init == /\ q = <<>> /\ budget = MaxPkts /\ closed = FALSE /\ rd = Idle
        /\ last = [got |-> Obs("none", "none", FALSE), want |-> Obs("none", "none", FALSE)]
        /\ hist = <<>> /\ extra = 0

Write(k) == /\ budget > 0 /\ ~closed /\ Len(q) < MaxInFlight
            /\ q' = Append(q, k) /\ budget' = budget - 1
            /\ closed' = (k \in Trunc)          \* a truncated packet is the end of the stream
            /\ hist' = H([e |-> "w", k |-> k])
            /\ UNCHANGED <<rd, last, extra>>

Close == /\ ~closed /\ closed' = TRUE /\ hist' = H([e |-> "close"]) /\ UNCHANGED <<q, budget, rd, last, extra>>

\* completion of a reader call: observation o for the head packet
Complete(o, op) ==
  LET k == IF q = <<>> THEN "eof" ELSE Head(q) IN
  /\ last' = [got |-> o, want |-> Expect(k, op)]
  /\ q' = IF o.consumed /\ q # <<>> THEN Tail(q) ELSE q
  /\ rd' = Idle
  /\ hist' = H([e |-> "r", op |-> op, k |-> k, x |-> Expect(k, op)])

NonConsuming == {"peek", "read_tiny"}
Call(op) ==
  /\ rd.ph = "idle" /\ (HistOn => closed)
  /\ IF op \in NonConsuming THEN extra < MaxExtra /\ extra' = extra + 1 ELSE extra' = extra
  /\ IF op = "read_tiny" THEN Complete(Obs("invalid-length", "none", FALSE), op) /\ UNCHANGED <<budget, closed>>
     ELSE IF q = <<>> THEN closed /\ Complete(Obs("eof", "none", FALSE), op) /\ UNCHANGED <<budget, closed>>
     ELSE /\ rd' = [ph |-> "hdr", op |-> op, need |-> 4, have |-> 0]
          /\ hist' = H([e |-> "call", op |-> op])
          /\ UNCHANGED <<q, budget, closed, last>>

\* units of the current section (header / body) that exist on the wire and have not been delivered
Avail == LET k == Head(q) IN
         IF rd.ph = "hdr" THEN HdrOnWire(k) - rd.have ELSE BodyOnWire(k) - rd.have

\* one underlying Read returns n units (any non-empty prefix of what is requested and available)
Deliver(n) ==
  /\ rd.ph \in {"hdr", "body", "drain"} /\ n >= 1 /\ n <= rd.need /\ n <= Avail
  /\ UNCHANGED <<budget, closed, extra>>
  /\ LET op == rd.op
         k == Head(q)
         h2 == IF HistOn THEN Append(hist, [e |-> "c", n |-> n]) ELSE hist IN
     IF rd.need > n
     THEN rd' = [rd EXCEPT !.need = @ - n, !.have = @ + n] /\ hist' = h2 /\ UNCHANGED <<q, last>>
     ELSE \* section complete
       IF rd.ph = "hdr" THEN
          (IF k \in Bad \/ k \in Special \/ PUnits(k) = 0
           THEN /\ last' = [got |-> (IF k \in Bad THEN Obs("invalid-length", "none", op # "peek")
                                     ELSE IF k \in Special THEN Obs(k, "none", op # "peek")
                                     ELSE Obs("data", k, op # "peek")), want |-> Expect(k, op)]
                /\ q' = IF op # "peek" THEN Tail(q) ELSE q
                /\ rd' = Idle
                /\ hist' = (IF HistOn THEN Append(h2, [e |-> "r", op |-> op, k |-> k, x |-> Expect(k, op)]) ELSE hist)
           ELSE /\ rd' = [ph |-> IF op = "read_short" THEN "drain" ELSE "body", op |-> op, need |-> PUnits(k), have |-> 0]
                /\ hist' = h2 /\ UNCHANGED <<q, last>>)
       ELSE /\ last' = [got |-> (IF rd.ph = "drain" THEN Obs("unexpected-eof", "none", TRUE)
                                 ELSE IF k = "err" THEN Obs("errline", k, op # "peek")
                                 ELSE Obs("data", k, op # "peek")), want |-> Expect(k, op)]
            /\ q' = IF rd.ph = "drain" \/ op # "peek" THEN Tail(q) ELSE q
            /\ rd' = Idle
            /\ hist' = (IF HistOn THEN Append(h2, [e |-> "r", op |-> op, k |-> k, x |-> Expect(k, op)]) ELSE hist)

\* the stream ends inside the section being read (only possible for the truncated kinds)
EndInside ==
  /\ rd.ph \in {"hdr", "body", "drain"} /\ rd.need > 0 /\ Avail = 0 /\ closed /\ Len(q) = 1
  /\ UNCHANGED <<budget, closed, extra>>
  /\ LET op == rd.op
         k == Head(q)
         o == IF op = "peek" THEN Obs("eof", "none", FALSE)
              ELSE IF rd.ph = "hdr" THEN Obs("invalid-length", "none", TRUE)
              ELSE Obs("unexpected-eof", "none", TRUE) IN
     /\ last' = [got |-> o, want |-> Expect(k, op)]
     /\ q' = IF o.consumed THEN Tail(q) ELSE q
     /\ rd' = Idle
     /\ hist' = H([e |-> "r", op |-> op, k |-> k, x |-> Expect(k, op)])

Done == rd.ph = "idle" /\ q = <<>> /\ closed
\* replay mode: a behaviour is complete once the reader has seen the end of the stream
Finished == HistOn /\ Done /\ last.got.r = "eof"

Next == /\ ~Finished
        /\ \/ \E k \in Kinds : Write(k)
           \/ Close
           \/ \E op \in Ops : Call(op)
           \/ \E n \in 1..4 : Deliver(n)
           \/ EndInside

Spec == Init /\ [][Next]_vars

---------------------------------------------------------------------------
TypeOK == /\ q \in Seq(Kinds) /\ Len(q) <= MaxInFlight /\ budget \in 0..MaxPkts
          /\ rd.ph \in {"idle", "hdr", "body", "drain"}
\* C34 (pkt-line half): whatever the chunking, every reader call observes what the oracle says
\* (same result class, same payload, same consumption) -- "received = sent"
Faithful == last.got = last.want
\* a truncated packet is always the last thing on the wire
TruncLast == \A i \in 1..Len(q) : q[i] \in Trunc => (i = Len(q) /\ closed)
\* a reader never waits for units that cannot come while the stream is healthy
NoStuck == (rd.ph # "idle" /\ Avail = 0 /\ rd.need > 0) => (Head(q) \in Trunc)

EmitHist == Finished => PrintT(ToJson([h |-> hist]))
=============================================================================
