--------------------------- MODULE PinnedHandles ---------------------------
(* Property-level model of one shared, reference-counted file descriptor (go-git's SharedFile
   behind a LazyIndex / pack handle) as its READERS see it (C23).

   Every reader (holder) acquires the descriptor before it reads and releases it when it is
   done.  The implementation keeps ONE counter `refs`; the ghost variable `holds` says whose
   references they are.  The descriptor may be closed (fd-pool eviction, grace timer,
   CloseIdleDescriptors) only while nobody holds it.

     Balanced    refs = sum of holds                 every release matches one acquire of the SAME reader
     PinnedOpen  holds[h] > 0  =>  open              a reader's handle stays pinned until its own release
     ReadSafe    a Read by a holder never meets a closed descriptor

   A release by a reader that holds nothing is not an action of this spec (Release is guarded by
   holds[h] > 0).  With Faulty = TRUE the implementation-shaped step BadRelease is added - a release
   issued by a reader that holds nothing, which the single counter cannot tell from a legitimate one
   and which therefore consumes somebody else's reference; TLC then shows the way to a read on a
   closed descriptor:  Acquire(r1) Acquire(r2) Release(r2) BadRelease(r2) CloseFile Read(r1).
   That counterexample is the directed schedule of the conformance driver (vhgc c23h).

   Check(evs) folds the same transition rules over a recorded event sequence of one descriptor
   (trace validation, TracePinnedHandles).                                                       *)
EXTENDS Naturals, Sequences, FiniteSets

CONSTANTS Holders, MaxHold, Faulty

VARIABLES refs, holds, open, readFailed
vars == <<refs, holds, open, readFailed>>

RECURSIVE SumOver(_, _)
SumOver(f, S) == IF S = {} THEN 0 ELSE LET x == CHOOSE y \in S : TRUE IN f[x] + SumOver(f, S \ {x})
Total == SumOver(holds, Holders)

Init == refs = 0 /\ holds = [h \in Holders |-> 0] /\ open = FALSE /\ readFailed = FALSE

Acquire(h)   == /\ holds[h] < MaxHold
                /\ refs' = refs + 1 /\ holds' = [holds EXCEPT ![h] = @ + 1] /\ open' = TRUE /\ UNCHANGED readFailed
Release(h)   == /\ holds[h] > 0
                /\ refs' = refs - 1 /\ holds' = [holds EXCEPT ![h] = @ - 1] /\ UNCHANGED <<open, readFailed>>
\* eviction / grace timer / CloseIdleDescriptors: only an unpinned descriptor is closed
CloseFile    == /\ refs = 0 /\ open /\ open' = FALSE /\ UNCHANGED <<refs, holds, readFailed>>
Read(h)      == /\ holds[h] > 0 /\ readFailed' = (readFailed \/ ~open) /\ UNCHANGED <<refs, holds, open>>
\* NOT part of the specification: a release by somebody who holds nothing (the counter ignores underflow at 0)
BadRelease(h) == /\ Faulty /\ holds[h] = 0
                 /\ refs' = (IF refs > 0 THEN refs - 1 ELSE 0) /\ UNCHANGED <<holds, open, readFailed>>

Next == \E h \in Holders : Acquire(h) \/ Release(h) \/ Read(h) \/ BadRelease(h)
        \/ CloseFile
Spec == Init /\ [][Next]_vars

Balanced   == refs = Total
PinnedOpen == \A h \in Holders : holds[h] > 0 => open
ReadSafe   == ~readFailed

\* ---------------------------------------------------------------- trace validation
\* evs: sequence of [h, ev, refs, open] recorded under the descriptor's mutex (post-state: refs, open \in {0,1}).
\* Result: [at |-> index of the first event the spec rejects (0 = accepted), why |-> reason]
Held(hs, h) == IF h \in DOMAIN hs THEN hs[h] ELSE 0
Put(hs, h, v) == [x \in DOMAIN hs \cup {h} |-> IF x = h THEN v ELSE hs[x]]

RECURSIVE Fold(_, _, _, _)
Fold(evs, i, hs, tot) ==
  IF i > Len(evs) THEN [at |-> 0, why |-> "", h |-> ""]
  ELSE LET e == evs[i]
           cur == Held(hs, e.h)
       IN IF e.ev = "Release" /\ cur = 0
            THEN [at |-> i, why |-> "release-without-acquire", h |-> e.h]          \* Release's guard
          ELSE LET nh == IF e.ev = "Acquire" THEN Put(hs, e.h, cur + 1)
                         ELSE IF e.ev = "Release" THEN Put(hs, e.h, cur - 1) ELSE hs
                   nt == IF e.ev = "Acquire" THEN tot + 1 ELSE IF e.ev = "Release" THEN tot - 1 ELSE tot
               IN IF nt > 0 /\ e.open = 0 /\ e.closed = 0
                    THEN [at |-> i, why |-> "closed-while-pinned", h |-> e.h]      \* PinnedOpen
                  ELSE IF e.ev \in {"Acquire", "Release"} /\ e.refs # nt
                    THEN [at |-> i, why |-> "refcount-differs", h |-> e.h]         \* Balanced
                  ELSE Fold(evs, i + 1, nh, nt)
Check(evs) == Fold(evs, 1, <<>>, 0)
=============================================================================
