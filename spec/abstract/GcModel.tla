------------------------------ MODULE GcModel ------------------------------
(* Property-level model of a repository under garbage collection (C22).

   A repository is: commits (root tree, parents), trees (two paths "a" and "d/b", so a
   root tree may own a sub-tree, plus an optional gitlink "m"), blobs, annotated tags
   (target = any object), references (branches -> commits, tag refs -> any object),
   HEAD (attached to a branch or detached at a commit), the index (path -> blob: staged
   content, whether or not committed), the shallow list, the physical object set `objs`
   with its layout (`packed`: in a pack; the others are loose), and the promisor flag
   (partial clone: blobs withheld by the remote are legitimately absent).

       Live == Closure(references + detached HEAD + index blobs)       (cut at shallow commits)

   Garbage collection (Prune, Repack, any options) must keep every live object:
       Keep \subseteq objs'  /\  objs' \subseteq objs  /\  refs, HEAD, index, shallow unchanged
   where Keep = Live, or all of objs when the age limit protects everything
   ("only objects/packs older than T" with T before any object was written).
   Object content is a function of the object identity (Content below): a kept object
   must still decode to exactly Content(o).

   Engine A: TLC enumerates every repository state reachable by <= MaxOps operations
   (VIEW = the repository state: one witness history per distinct state) and prints
   the history, the final state, Live with the reason each object is live, and the
   expectation (keep = "live"/"all") for every GC variant in GcOps.  GC operations
   also occur inside histories (with the most aggressive outcome the spec allows:
   objs' = Keep), so that repositories that have already been collected are covered. *)
EXTENDS Naturals, Sequences, FiniteSets, TLC, Json

CONSTANTS Blobs,      \* blob symbols
          Heads,      \* branch reference names (values: commits)
          TagRefs,    \* tag reference names (values: any object)
          CIds,       \* sequence of commit symbols, in creation order
          GIds,       \* sequence of annotated tag symbols, in creation order
          Inits,      \* initial repository states
          GcOps,      \* sequence of GC variants [op, rd, age]
          ConflictShapes, \* set of <<stage1, stage2, stage3>> blob triples (None = stage absent) a conflict may leave
          WithPromisor, WithLink, WithMidGc,
          MaxOps, Emit

None  == "none"
Link  == "link"
NoObj == <<>>                       \* value of an absent reference (a tuple, like every object id)
RefNames == Heads \cup TagRefs
Paths == {"a", "d"}                 \* "d" stands for the nested path d/b

\* ---- object identities (all fields are strings)
B(b) == <<"B", b>>
S(d) == <<"S", d>>                  \* sub-tree d/ = { b -> blob d }
T(a, d, m) == <<"T", a, d, m>>      \* root tree { a -> blob a, d -> S(d), m -> gitlink }
C(c) == <<"C", c>>
G(g) == <<"G", g>>
Kind(o) == o[1]

CIdx(c) == CHOOSE i \in 1..Len(CIds) : CIds[i] = c
GIdx(g) == CHOOSE i \in 1..Len(GIds) : GIds[i] = g
SeqRange(s) == {s[i] : i \in 1..Len(s)}

VARIABLES st, hist, init
vars == <<st, hist, init>>
\* st = [cm, tg, refs, head, idx, shallow, objs, packed, promisor]
\*   cm : Seq([a, d, m, par])  commit CIds[i] has root tree T(a,d,m) and parents par (sequence of commit symbols)
\*   tg : Seq(object id)       tag GIds[i] points at tg[i]
\*   head : [sym, det]         attached: sym = branch name, det = None;  detached: sym = None, det = commit symbol

TreeOfRec(r) == T(r.a, r.d, r.m)
TreeOf(s, c) == TreeOfRec(s.cm[CIdx(c)])
TreeParts(t) == {t} \cup (IF t[2] # None THEN {B(t[2])} ELSE {}) \cup (IF t[3] # None THEN {S(t[3]), B(t[3])} ELSE {})

\* Content(o): what the object refers to (its decoded form) - a function of identity and history only
Content(s, o) ==
  CASE Kind(o) = "B" -> {}
    [] Kind(o) = "S" -> {B(o[2])}
    [] Kind(o) = "T" -> (IF o[2] # None THEN {B(o[2])} ELSE {}) \cup (IF o[3] # None THEN {S(o[3])} ELSE {})
    [] Kind(o) = "C" -> {TreeOf(s, o[2])} \cup {C(p) : p \in SeqRange(s.cm[CIdx(o[2])].par)}
    [] Kind(o) = "G" -> {s.tg[GIdx(o[2])]}

\* Children followed by reachability: absent objects cannot be descended into; shallow commits hide their parents
Children(s, o) ==
  IF o \notin s.objs THEN {}
  ELSE IF Kind(o) = "C" /\ o[2] \in s.shallow THEN {TreeOf(s, o[2])}
  ELSE Content(s, o)

\* least set containing X and closed under Children (frontier iteration)
RECURSIVE Grow(_, _, _)
Grow(s, done, front) == IF front = {} THEN done
                        ELSE LET d2 == done \cup front
                             IN Grow(s, d2, UNION {Children(s, o) : o \in front} \ d2)
Closure(s, X) == Grow(s, {}, X)

RefRoots(s)   == {s.refs[n] : n \in {x \in RefNames : s.refs[x] # NoObj}}
HeadRoots(s)  == IF s.head.det # None THEN {C(s.head.det)} ELSE {}
\* the index: stage-0 entries (paths a, d/b, gitlink m) and one possibly unmerged path "u" whose
\* conflict stages 1 (base), 2 (ours), 3 (theirs) each name a blob (None = stage absent).  Every blob
\* the index names - in whatever stage - is staged content and a root.
Stages == {"u1", "u2", "u3"}
Unmerged(s)   == \E x \in Stages : s.idx[x] # None
StageRoots(s) == {B(s.idx[p]) : p \in {x \in Stages : s.idx[x] # None}}
Stage0Roots(s) == {B(s.idx[p]) : p \in {x \in Paths : s.idx[x] # None}}
IndexRoots(s) == Stage0Roots(s) \cup StageRoots(s)
Roots(s) == RefRoots(s) \cup HeadRoots(s) \cup IndexRoots(s)
Reach(s) == Closure(s, Roots(s))
Live(s)  == Reach(s) \cap s.objs

HeadCommit(s) == IF s.head.det # None THEN s.head.det
                 ELSE IF s.refs[s.head.sym] = NoObj THEN None ELSE s.refs[s.head.sym][2]
\* an object may be given a new reference only if everything below it is still there (no resurrection of
\* half-collected garbage - the hazard git's prune expiry exists for; outside this property)
Excused(s, x) == x \in s.objs \/ (s.promisor /\ Kind(x) = "B")
NothingBroken(s) == \A o \in s.objs : \A x \in Children(s, o) : Excused(s, x)
Whole(s, o) == o \in s.objs /\ (NothingBroken(s) \/ \A x \in Closure(s, {o}) : Excused(s, x))
Commits(s) == {c \in {CIds[i] : i \in 1..Len(s.cm)} : Whole(s, C(c))}

\* why an object is live (spec-level scenario key for signatures)
Loc(s, o) == IF o \in s.packed THEN "packed" ELSE "loose"
LiveInfo(s) == LET CR == Closure(s, RefRoots(s))
                   CH == Closure(s, HeadRoots(s))
                   CI == Closure(s, Stage0Roots(s))
                   CU == Closure(s, StageRoots(s))
                   via(o) == (IF o \in CR THEN {"ref"} ELSE {}) \cup (IF o \in CH THEN {"head"} ELSE {}) \cup (IF o \in CI THEN {"index"} ELSE {}) \cup (IF o \in CU THEN {"unmerged"} ELSE {})
               IN {[o |-> o, via |-> via(o), loc |-> Loc(s, o), kids |-> Content(s, o)] : o \in (CR \cup CH \cup CI \cup CU) \cap s.objs}

\* ---------------------------------------------------------------- GC
KeepSet(s, age) == IF age = "past" THEN s.objs ELSE Live(s)
\* the postcondition (the property): s2 is an admissible result of collecting s
GcPost(s, s2, age) ==
  /\ KeepSet(s, age) \subseteq s2.objs
  /\ s2.objs \subseteq s.objs
  /\ \A o \in KeepSet(s, age) : Content(s2, o) = Content(s, o)
  /\ s2.refs = s.refs /\ s2.head = s.head /\ s2.idx = s.idx /\ s2.shallow = s.shallow
\* most aggressive admissible outcomes (used as the representative successor inside histories)
PruneMin(s, age)  == [s EXCEPT !.objs = KeepSet(s, age) \cup s.packed, !.packed = s.packed]
RepackMin(s, age) == IF age = "past" THEN [s EXCEPT !.packed = s.packed \cup Live(s)]
                     ELSE [s EXCEPT !.objs = Live(s) \cup (s.objs \ s.packed), !.packed = Live(s)]
GcExpect(s) == [i \in 1..Len(GcOps) |-> [op |-> GcOps[i].op, rd |-> GcOps[i].rd, age |-> GcOps[i].age,
                                          keep |-> IF GcOps[i].age = "past" THEN "all" ELSE "live"]]

\* ---------------------------------------------------------------- history operations
StepX(op, a, b, c, new, keep, info, pre) ==
  /\ st' = new
  /\ hist' = Append(hist, [op |-> op, a |-> a, b |-> b, c |-> c, keep |-> keep, info |-> info, pre |-> pre])
  /\ UNCHANGED init
Step(op, a, b, c, new) == StepX(op, a, b, c, new, {}, {}, <<>>)

\* stage only: the blob is written, the index entry set; nothing references it but the index
Add(p, b) == Step("add", p, b, None, [st EXCEPT !.idx[p] = b, !.objs = @ \cup {B(b)}])
AddLink   == /\ WithLink /\ st.idx.m = None
             /\ Step("addlink", None, None, None, [st EXCEPT !.idx.m = Link])

\* a merge / cherry-pick / stash-pop stopped on a conflict: path "u" gets conflict stages.  The stage blobs are
\* written (as the merge machinery does) and nothing but the index needs to name them: the merged-in commit is
\* known only to MERGE_HEAD, its branch may be gone, am -3 synthesises blobs that are in no commit at all.
Conflict(b1, b2, b3) ==
  /\ ~Unmerged(st)
  /\ Step("conflict", b1, b2, b3, [st EXCEPT !.idx.u1 = b1, !.idx.u2 = b2, !.idx.u3 = b3,
                                              !.objs = @ \cup {B(x) : x \in {b1, b2, b3} \ {None}}])
\* the conflict is resolved by dropping the path (git rm): the stages go away, their blobs become garbage unless named elsewhere
Resolve == /\ Unmerged(st)
           /\ Step("resolve", None, None, None, [st EXCEPT !.idx.u1 = None, !.idx.u2 = None, !.idx.u3 = None])

\* commit the index; `extra` = None or a second parent (merge commit)
Commit(extra) ==
  /\ Len(st.cm) < Len(CIds) /\ ~Unmerged(st)            \* an index with conflict stages cannot be committed
  /\ LET c == CIds[Len(st.cm) + 1]
         hc == HeadCommit(st)
         par == (IF hc = None THEN <<>> ELSE <<hc>>) \o (IF extra = None THEN <<>> ELSE <<extra>>)
         r == [a |-> st.idx.a, d |-> st.idx.d, m |-> st.idx.m, par |-> par]
         s1 == [st EXCEPT !.cm = Append(@, r), !.objs = @ \cup {C(c)} \cup TreeParts(TreeOfRec(r))]
     IN /\ extra # None => (hc # None /\ extra # hc)
        /\ Step("commit", extra, c, None,
                IF st.head.det # None THEN [s1 EXCEPT !.head.det = c] ELSE [s1 EXCEPT !.refs[st.head.sym] = C(c)])

\* move the current branch (or detached HEAD) to another commit; index untouched
ResetSoft(c) ==
  /\ HeadCommit(st) # None /\ c # HeadCommit(st)
  /\ Step("resetsoft", c, None, None,
          IF st.head.det # None THEN [st EXCEPT !.head.det = c] ELSE [st EXCEPT !.refs[st.head.sym] = C(c)])

\* checkout --detach / switch keeping the index (go-git CheckoutOptions.Keep)
CheckoutDetached(c) == /\ st.head.det # c
                       /\ Step("detach", c, None, None, [st EXCEPT !.head = [sym |-> None, det |-> c]])
CheckoutBranch(n)   == /\ st.head.sym # n /\ st.refs[n] # NoObj
                       /\ Step("switch", n, None, None, [st EXCEPT !.head = [sym |-> n, det |-> None]])

TagTargets(s) == (IF HeadCommit(s) = None THEN {} ELSE {C(HeadCommit(s)), TreeOf(s, HeadCommit(s))})
            \cup IndexRoots(s)
            \cup {g \in {G(GIds[i]) : i \in 1..Len(s.tg)} : Whole(s, g)}
TagAnnotated(n, o) ==
  /\ Len(st.tg) < Len(GIds) /\ st.refs[n] = NoObj /\ o \in st.objs
  /\ LET g == GIds[Len(st.tg) + 1]
     IN Step("tag", n, o, g, [st EXCEPT !.tg = Append(@, o), !.objs = @ \cup {G(g)}, !.refs[n] = G(g)])

SetRef(n, o) == /\ o \in st.objs /\ st.refs[n] # o
                /\ Step("setref", n, o, None, [st EXCEPT !.refs[n] = o])
DeleteRef(n) == /\ st.refs[n] # NoObj
                /\ Step("delref", n, None, None, [st EXCEPT !.refs[n] = NoObj])
PackRefs     == /\ RefRoots(st) # {}
                /\ Step("packrefs", None, None, None, st)

\* turn commit c into a shallow root: its ancestry (as far as nothing else needs it) is physically absent
\* (L = Live(st), passed in by Next)
MakeShallow(c, L) ==
  /\ st.packed = {} /\ ~st.promisor /\ c \notin st.shallow
  /\ st.cm[CIdx(c)].par # <<>> /\ C(c) \in L
  /\ LET s1 == [st EXCEPT !.shallow = @ \cup {c}]
         L1 == Live(s1)
     IN Step("shallow", c, L1, None, [s1 EXCEPT !.objs = L1])   \* as a fresh shallow clone: exactly what is reachable

\* all objects into one pack, no loose objects left.  pr: the pack is a promisor pack and the blobs W are withheld
Withholdable(s) == {o \in s.objs : Kind(o) = "B"} \ (IndexRoots(s) \cup RefRoots(s) \cup {s.tg[i] : i \in 1..Len(s.tg)})
PackAll(pr, W) ==
  /\ st.objs # {} /\ (st.promisor => pr) /\ (pr => WithPromisor) /\ (~pr => W = {})
  /\ (st.objs \ W) # st.packed \/ W # {} \/ pr # st.promisor
  /\ Step("packall", IF pr THEN "promisor" ELSE "plain", W, None,
          [st EXCEPT !.objs = @ \ W, !.packed = st.objs \ W, !.promisor = pr])
MakeLoose == /\ st.packed # {} /\ ~st.promisor
             /\ Step("makeloose", None, None, None, [st EXCEPT !.packed = {}])

\* GC inside a history (representative outcome); the final fan-out over GcOps is in GcExpect.
\* L = Live(st), I = LiveInfo(st), passed in by Next (computed once per state)
KeepOf(L, age) == IF age = "past" THEN st.objs ELSE L
PruneOp(age, L, I) ==
  /\ WithMidGc
  /\ StepX("prune", None, None, age, [st EXCEPT !.objs = KeepOf(L, age) \cup st.packed], KeepOf(L, age), I, <<st>>)
RepackOp(rd, age, L, I) ==
  /\ WithMidGc
  /\ StepX("repack", rd, None, age, [st EXCEPT !.objs = L \cup (st.objs \ st.packed), !.packed = L], KeepOf(L, age), I, <<st>>)

Next ==
  LET CS == Commits(st)
      TT == TagTargets(st)
      I  == LiveInfo(st)
      L  == {r.o : r \in I}           \* = Live(st) (invariant ViaTotal)
  IN
  /\ Len(hist) < MaxOps
  /\ \/ \E p \in Paths, b \in Blobs : st.idx[p] # b /\ Add(p, b)
     \/ AddLink
     \/ \E c \in ConflictShapes : Conflict(c[1], c[2], c[3])
     \/ Resolve
     \/ \E e \in {None} \cup CS : Commit(e)
     \/ \E c \in CS : ResetSoft(c)
     \/ \E c \in CS : CheckoutDetached(c)
     \/ \E n \in Heads : CheckoutBranch(n)
     \/ \E n \in TagRefs, o \in TT : TagAnnotated(n, o)
     \/ \E n \in Heads, c \in CS : SetRef(n, C(c))
     \/ \E n \in TagRefs, o \in TT : SetRef(n, o)
     \/ \E n \in RefNames : DeleteRef(n)
     \/ PackRefs
     \/ \E c \in CS : MakeShallow(c, L)
     \/ PackAll(FALSE, {})
     \/ \E b \in Withholdable(st) \cup {NoObj} : PackAll(TRUE, IF b = NoObj THEN {} ELSE {b})
     \/ MakeLoose
     \/ \E age \in {"none", "past", "future"} : PruneOp(age, L, I)
     \/ \E rd \in {"ofs", "ref"}, age \in {"none", "future"} : RepackOp(rd, age, L, I)

Init == /\ init \in Inits /\ st = init /\ hist = <<>>
Spec == Init /\ [][Next]_vars
StateView == st

\* ---------------------------------------------------------------- theorems about the model (INVARIANTS)
TypeOK ==
  /\ st.objs \subseteq ({B(b) : b \in Blobs} \cup {S(b) : b \in Blobs} \cup {C(CIds[i]) : i \in 1..Len(st.cm)}
                        \cup {G(GIds[i]) : i \in 1..Len(st.tg)}
                        \cup {T(a, d, m) : a \in Blobs \cup {None}, d \in Blobs \cup {None}, m \in {None, Link}})
  /\ st.packed \subseteq st.objs
  /\ \A n \in Heads : st.refs[n] = NoObj \/ Kind(st.refs[n]) = "C"
  /\ (st.head.sym = None) # (st.head.det = None)
\* the repository is connected: everything reachable is present, except blobs withheld in a partial clone
Connected == \A o \in Reach(st) : o \in st.objs \/ (st.promisor /\ Kind(o) = "B")
\* staged content is always present
IndexPresent == IndexRoots(st) \subseteq st.objs
\* GC in the model satisfies the postcondition, is idempotent on Live and keeps the repository connected
GcSound == LET L == Live(st) IN \A age \in {"none", "past"} :
             LET P == PruneMin(st, age)
                 R == RepackMin(st, age)
             IN /\ GcPost(st, P, age) /\ GcPost(st, R, age)
                /\ Live(P) = L /\ Live(R) = L
\* a GC step inside a history is exactly the representative outcome and satisfies the postcondition
LastGcAdmissible ==
  (Len(hist) > 0 /\ hist[Len(hist)].op \in {"prune", "repack"}) =>
     LET h == hist[Len(hist)]
         pre == h.pre[1]
     IN /\ st = (IF h.op = "prune" THEN PruneMin(pre, h.c) ELSE RepackMin(pre, h.c))
        /\ GcPost(pre, st, h.c)
        /\ h.keep = KeepSet(pre, h.c)
\* everything live has a reason
ViaTotal == /\ \A r \in LiveInfo(st) : r.via # {}
            /\ {r.o : r \in LiveInfo(st)} = Live(st)

EmitState == Emit => PrintT(ToJson([init |-> init, steps |-> hist, final |-> st, live |-> LiveInfo(st), gcs |-> GcExpect(st)]))
=============================================================================
