---------------------------- MODULE MCRecvPackConc ----------------------------
(* Model constants for RecvPackConc (two concurrent pushes, C39). *)
EXTENDS RecvPackConc
MCNames == {"refs/heads/a", "refs/heads/b"}
MCOlds == {"none", "c1", "c2"}
MCNews == {"none", "c1", "c2", "c3"}
MCPack == {"c3"}
R0 == [n \in MCNames |-> "none"]
MCInits == { [refs |-> [R0 EXCEPT !["refs/heads/a"] = "c1"], objs |-> {"c1", "c2"}],
             [refs |-> R0, objs |-> {"c1", "c2"}] }
\* thorough: lists of <= 2 commands on a single name
MCOneName == {"refs/heads/a"}
MCInitsOne == { [refs |-> [n \in MCOneName |-> "c1"], objs |-> {"c1", "c2"}],
                [refs |-> [n \in MCOneName |-> "none"], objs |-> {"c1", "c2"}] }
=============================================================================
