---------------------------- MODULE StorerModel ----------------------------
(* Property-level model of a go-git storage.Storer (C17, C19): references (a map
   with CAS, see RefMap), an object set, the index, the shallow list and the
   configuration.  Every backend - memory, filesystem under every option
   combination, and the transactional wrapper - must return, after every call,
   exactly the observations this model computes, including error kinds.

   For C19 the same histories are run through a transactional storage: before
   Commit the view through the transaction equals this model's state and the base
   equals `init`; after Commit the base equals the model's state.

   Behaviour generator (Engine A): `hist` records each operation with its result and
   the complete expected state; TLC enumerates all histories up to MaxOps.       *)
EXTENDS Naturals, Sequences, FiniteSets, TLC, Json

CONSTANTS Names, Hashes, SymOK, NoRemove,      \* as in RefMap
          Objects,      \* object symbols
          PackSets,     \* sets of objects that arrive together as one pack (PackfileWriter), may overlap
          IdxVals,      \* index symbols other than "none"
          ShallowSets,  \* possible arguments of SetShallow (sets of commit symbols)
          CfgVals,      \* configuration symbols other than the initial one
          Inits,        \* initial states
          Focus,        \* "all": every operation at every step;  "packalt": reference operations with a
                        \*  PackRefs after each one (re-packing histories: loose and packed layers alternate)
          MaxOps, EmitAll

None == "none"
Sym(t) == "sym:" \o t
Vals == Hashes \cup {Sym(p[2]) : p \in SymOK}

VARIABLES st, hist, init
vars == <<st, hist, init>>
\* st = [refs, objs, idx, shallow, cfg]

TypeOK == /\ st.refs \in [Names -> Vals \cup {None}]
          /\ st.objs \subseteq Objects
          /\ st.idx \in IdxVals \cup {None}
          /\ st.shallow \in ShallowSets \cup {{}}

Init == /\ init \in Inits /\ st = init /\ hist = <<>>

Rec(op, a, b, c, res) == [op |-> op, a |-> a, b |-> b, c |-> c, res |-> res, st |-> st']
Do(op, a, b, c, res, new) == st' = new /\ hist' = Append(hist, [op |-> op, a |-> a, b |-> b, c |-> c, res |-> res, st |-> new])

SetRef(n, v)    == Do("set", n, v, None, "ok", [st EXCEPT !.refs[n] = v])
CAS(n, v, old)  == LET cur == st.refs[n]
                       res == IF cur = None THEN "notfound" ELSE IF cur = old THEN "ok" ELSE "changed"
                   IN Do("cas", n, v, old, res, IF res = "ok" THEN [st EXCEPT !.refs[n] = v] ELSE st)
RemoveRef(n)    == Do("remove", n, None, None, "ok", [st EXCEPT !.refs[n] = None])
Pack            == Do("pack", None, None, None, "ok", st)
SetObj(o)       == Do("setobj", o, None, None, "ok", [st EXCEPT !.objs = @ \cup {o}])
AddPack(S)      == Do("addpack", S, None, None, "ok", [st EXCEPT !.objs = @ \cup S])
SetIndex(i)     == Do("setindex", i, None, None, "ok", [st EXCEPT !.idx = i])
SetShallow(S)   == Do("setshallow", S, None, None, "ok", [st EXCEPT !.shallow = S])
SetConfig(c)    == Do("setconfig", c, None, None, "ok", [st EXCEPT !.cfg = c])

RefOp == \/ \E n \in Names, h \in Hashes : SetRef(n, h)
         \/ \E p \in SymOK : SetRef(p[1], Sym(p[2]))
         \/ \E n \in Names, h \in Hashes, o \in Hashes : CAS(n, h, o)
         \/ \E p \in SymOK, o \in Hashes : CAS(p[1], Sym(p[2]), o)     \* symbolic value installed over a hash
         \/ \E n \in Names \ NoRemove : RemoveRef(n)

Next ==
  /\ Len(hist) < MaxOps
  /\ UNCHANGED init
  /\ IF Focus = "packalt" THEN (IF Len(hist) % 2 = 1 THEN Pack ELSE RefOp) ELSE
     \/ RefOp
     \/ Pack
     \/ \E o \in Objects : SetObj(o)
     \/ \E S \in PackSets : AddPack(S)
     \/ \E i \in IdxVals : SetIndex(i)
     \/ \E S \in ShallowSets \cup {{}} : SetShallow(S)
     \/ \E c \in CfgVals : SetConfig(c)

Spec == Init /\ [][Next]_vars

\* ---- properties of the model itself
Prev(i) == IF i = 1 THEN init ELSE hist[i-1].st
FailedChangesNothing == \A i \in 1..Len(hist) : hist[i].res # "ok" => hist[i].st = Prev(i)
ObjectsOnlyGrow == \A i \in 1..Len(hist) : Prev(i).objs \subseteq hist[i].st.objs
FrameRefs == \A i \in 1..Len(hist) : hist[i].op \in {"setobj", "addpack", "setindex", "setshallow", "setconfig", "pack"} => hist[i].st.refs = Prev(i).refs
FrameObjs == \A i \in 1..Len(hist) : hist[i].op \notin {"setobj", "addpack"} => hist[i].st.objs = Prev(i).objs
ShallowReplaces == \A i \in 1..Len(hist) : hist[i].op = "setshallow" => hist[i].st.shallow = hist[i].a

EmitHist == (EmitAll /\ Len(hist) = MaxOps) => PrintT(ToJson([init |-> init, steps |-> hist]))
=============================================================================
