------------------------------ MODULE Transport ------------------------------
(* Property-level specification of git's transfer operations between two
   repositories (C36 fetch/clone, C38 push, C39 receive-pack).

   A repository is (objs, refs): `objs` a set of object ids, `refs` a map from
   reference names to an object id or None.  Object ids are symbols; the harness
   interprets them as real commits/tags built with `git fast-import`.

   This module only contains *operators* (pure functions of the pre-state that
   return the post-state and the observable reply).  The generator modules
   (RecvPackGen, FetchGen, PushGen) turn them into TLC state spaces whose states
   are the scenarios replayed against go-git and git.                          *)
EXTENDS Integers, Sequences, FiniteSets

None == "none"      \* "no object": an absent reference, and the all-zero id on the wire

-----------------------------------------------------------------------------
(* receive-pack (C39).

   A command is [name, old, new]; old = None is the zero id (create), new = None
   the zero id (delete).  Commands are executed one after the other (git runs one
   reference transaction per command unless `atomic` was negotiated), each one
   against the references left by its predecessors:

     apply  <=>  refs[name] = old  /\  (new = None \/ new \in objs')

   where objs' already contains the objects of the pack sent with the request.
   The report has exactly one status per command, in command order.            *)

CmdKind(c) == IF c.old = None THEN "create" ELSE IF c.new = None THEN "delete" ELSE "update"

\* why a command is refused ("ok" = applied)
Judge(refs, objs, c) ==
  LET cur == refs[c.name] IN
  IF c.old = None /\ cur # None THEN "exists"            \* create of an existing reference
  ELSE IF c.old # None /\ cur = None THEN "absent"       \* update/delete of a missing reference
  ELSE IF c.old # cur THEN "stale-old"                   \* the client's view is out of date
  ELSE IF c.new # None /\ c.new \notin objs THEN "missing-new"
  ELSE "ok"

Status(c, j) == [name |-> c.name, status |-> IF j = "ok" THEN "ok" ELSE "ng",
                 why |-> j, kind |-> CmdKind(c)]

RECURSIVE RPFold(_, _, _, _)
RPFold(refs, objs, cmds, rep) ==
  IF cmds = <<>> THEN [refs |-> refs, report |-> rep]
  ELSE LET c == Head(cmds)
           j == Judge(refs, objs, c)
           refs2 == IF j = "ok" THEN [refs EXCEPT ![c.name] = c.new] ELSE refs
       IN RPFold(refs2, objs, Tail(cmds), Append(rep, Status(c, j)))

NeedsPack(cmds) == \E i \in 1..Len(cmds) : cmds[i].new # None

\* the pack accompanies the request iff some command is not a delete
ReceivePack(refs, objs, cmds, pack) ==
  LET objs2 == IF NeedsPack(cmds) THEN objs \cup pack ELSE objs
      r == RPFold(refs, objs2, cmds, <<>>)
  IN [refs |-> r.refs, objs |-> objs2, report |-> r.report, unpack |-> "ok"]

\* ---- concurrent pushes: every outcome must be that of some serial execution of the
\* individual commands that respects each client's own command order (each command is
\* an atomic compare-and-swap).
RECURSIVE Merges(_, _)
Merges(s, t) ==   \* all interleavings of two sequences of <<client, index>> tags
  IF s = <<>> THEN {t} ELSE IF t = <<>> THEN {s}
  ELSE {<<Head(s)>> \o m : m \in Merges(Tail(s), t)} \cup {<<Head(t)>> \o m : m \in Merges(s, Tail(t))}

Tagged(k, cmds) == [i \in 1..Len(cmds) |-> <<k, i>>]

\* outcome of one serial order `ord` (sequence of <<client, index>>) of the two command lists
SerialOutcome(refs, objs, c1, c2, ord) ==
  LET cmdOf(t) == IF t[1] = 1 THEN c1[t[2]] ELSE c2[t[2]]
      r == RPFold(refs, objs, [i \in 1..Len(ord) |-> cmdOf(ord[i])], <<>>)
      repOf(k) == LET idx == {i \in 1..Len(ord) : ord[i][1] = k}
                      f[n \in 0..Len(ord)] ==   \* statuses of client k in order
                         IF n = 0 THEN <<>> ELSE IF n \in idx THEN Append(f[n-1], r.report[n].status) ELSE f[n-1]
                  IN f[Len(ord)]
  IN [refs |-> r.refs, rep1 |-> repOf(1), rep2 |-> repOf(2)]

ConcurrentAllowed(refs, objs, c1, c2, pack) ==
  LET objs2 == IF NeedsPack(c1) \/ NeedsPack(c2) THEN objs \cup pack ELSE objs
  IN {SerialOutcome(refs, objs2, c1, c2, ord) : ord \in Merges(Tagged(1, c1), Tagged(2, c2))}

-----------------------------------------------------------------------------
(* Commit graphs.  Commits are 1..N, P[c] the set of parents of c (P[c] \subseteq 1..c-1).
   An annotated tag object is named by the commit it peels to; object ids are symbols. *)

ParOf(P, S) == UNION {P[c] : c \in S}

RECURSIVE AncOf(_, _)
AncOf(P, S) == LET S2 == S \cup ParOf(P, S) IN IF S2 = S THEN S ELSE AncOf(P, S2)

\* commits within k parent steps of S
RECURSIVE Within(_, _, _)
Within(P, S, k) == IF k = 0 THEN S ELSE Within(P, S \cup ParOf(P, S), k - 1)

\* ancestry walk that does not look behind the commits in `sh` (a shallow client's grafts)
RECURSIVE AncCut(_, _, _)
AncCut(P, S, sh) == LET S2 == S \cup ParOf(P, S \ sh) IN IF S2 = S THEN S ELSE AncCut(P, S2, sh)

-----------------------------------------------------------------------------
(* fetch (C36).

   Server: heads a, b (0 = absent) and one tag t = [kind, at] with kind \in {"none","ann","lw"}.
   Client: [commits, shallow, refs] with refs over the three tracked names.
   Options: refspec \in {"all","one"}  ("+refs/heads/*:refs/remotes/origin/*" | "+refs/heads/a:refs/remotes/origin/a"),
            tags \in {"follow","all","none"}, depth (0 = unlimited).

   Post-state (what git does, and what C36 requires of every client/server pairing):
     - tracking refs = server heads mapped through the refspec;
     - depth = 0: the client gains every commit reachable from the fetched tips, not looking
       behind its own shallow commits; the shallow set is unchanged;
     - depth = d: the client gains the commits within d-1 steps of the tips; the commits exactly
       d-1 steps away are shallow (git lists root commits there too); commits the client had
       marked shallow that now lie strictly inside the depth are unshallowed (deepening), the
       other old shallow marks stay;
     - tags: "all" fetches the tag like a head; "follow" creates it iff the commit it peels to
       is on the client after the transfer of the heads; "none" never.                    *)

OA == "refs/remotes/origin/a"
OB == "refs/remotes/origin/b"
TT == "refs/tags/t"

HeadTips(srv, o) == {srv.a} \cup (IF o.refspec = "all" /\ srv.b # 0 THEN {srv.b} ELSE {})
TagTips(srv, o) == IF o.tags = "all" /\ srv.tag.kind # "none" THEN {srv.tag.at} ELSE {}

TagVal(srv) == IF srv.tag.kind = "ann" THEN <<"tag", srv.tag.at>> ELSE <<"commit", srv.tag.at>>

\* The references a fetch asks for, with the value they get.
Wanted(srv, o) == {<<OA, <<"commit", srv.a>>>>}
                  \cup (IF o.refspec = "all" /\ srv.b # 0 THEN {<<OB, <<"commit", srv.b>>>>} ELSE {})
                  \cup (IF o.tags = "all" /\ srv.tag.kind # "none" THEN {<<TT, TagVal(srv)>>} ELSE {})

\* Tips a depth is counted from: git only sends wants for the references whose local value
\* differs from the remote one (transport_fetch_refs), and all of them if none differs.
DepthTips(srv, cl, o) ==
  LET w == Wanted(srv, o)
      ch == {p \in w : cl.refs[p[1]] # p[2]}
  IN {p[2][2] : p \in (IF ch = {} THEN w ELSE ch)}

FetchPost(P, srv, cl, o) ==
  LET tips == HeadTips(srv, o) \cup TagTips(srv, o)
      dtips == DepthTips(srv, cl, o)
      commits2 == IF o.depth = 0 THEN cl.commits \cup AncCut(P, tips, cl.shallow)
                  ELSE cl.commits \cup Within(P, dtips, o.depth - 1)
      \* commits strictly inside the requested depth: a client-shallow commit among them is unshallowed
      interior == IF o.depth <= 1 THEN {} ELSE Within(P, dtips, o.depth - 2)
      \* shallow' = (old \ unshallowed) \cup new boundary
      shallow2 == IF o.depth = 0 THEN cl.shallow
                  ELSE (cl.shallow \ interior) \cup (Within(P, dtips, o.depth - 1) \ interior)
      followed == /\ srv.tag.kind # "none"
                  /\ \/ o.tags = "all"
                     \/ o.tags = "follow" /\ srv.tag.at \in commits2
      refs2 == [n \in {OA, OB, TT} |->
                  IF n = OA THEN <<"commit", srv.a>>
                  ELSE IF n = OB THEN (IF o.refspec = "all" /\ srv.b # 0 THEN <<"commit", srv.b>> ELSE cl.refs[n])
                  ELSE (IF followed /\ cl.refs[n] = <<"none", 0>> THEN TagVal(srv) ELSE cl.refs[n])]
  IN [commits |-> commits2, shallow |-> shallow2, refs |-> refs2]

\* what must hold of any client state that claims this post-state: every commit reachable from a
\* reference without passing a shallow commit is present
Connected(P, cl) ==
  LET tips == {cl.refs[n][2] : n \in {n \in DOMAIN cl.refs : cl.refs[n][1] # "none"}}
  IN AncCut(P, tips, cl.shallow) \subseteq cl.commits

-----------------------------------------------------------------------------
(* push (C38).

   Local and remote references: heads a, b and a (lightweight) tag t; value 0 = absent.
   A push is a list of items [src, dst, force]: src = 0 is a delete request (":dst").
   Options: force (every item forced), lease \in {"none","ok","stale"} on refs/heads/a
   (--force-with-lease=refs/heads/a:<expected>; "ok": expected = the remote value; "stale":
   expected = some other commit -- this includes a reference that is absent on the remote
   because it was deleted meanwhile: absent is not the expected value either),
   atomic.

   Per item, with old = remote[dst] and new = local value of src:
     new = old                  nothing to do
     lease on dst and stale     denied unless the item is forced ("+" / --force override a lease in git)
     lease on dst and ok        allowed
     delete / create            allowed      (a delete only exists when explicitly requested)
     update of a tag            allowed iff forced
     update of a head           allowed iff forced or old is an ancestor of new

   The push succeeds iff nothing is denied.  git applies the allowed items of a failed
   non-atomic push; C38 requires: denied items never change the remote; an allowed item
   leaves old or new; success => exactly the requested updates; atomic failure => nothing. *)

HA == "refs/heads/a"
HB == "refs/heads/b"
TG == "refs/tags/t"

IsTagName(n) == n = TG

PushJudge(P, rem, it, new, o) ==
  LET old == rem[it.dst]
      forced == it.force \/ o.force
  IN IF new = old THEN "noop"
     ELSE IF o.lease # "none" /\ it.dst = HA THEN (IF o.lease = "ok" \/ forced THEN "allowed" ELSE "denied")
     ELSE IF new = 0 \/ old = 0 THEN "allowed"
     ELSE IF forced THEN "allowed"
     ELSE IF IsTagName(it.dst) THEN "denied"
     ELSE IF old \in AncOf(P, {new}) THEN "allowed" ELSE "denied"

PushPost(P, loc, rem, items, o) ==
  LET newOf(it) == IF it.src = "" THEN 0 ELSE loc[it.src]
      verdict == [i \in 1..Len(items) |-> PushJudge(P, rem, items[i], newOf(items[i]), o)]
      denied == {items[i].dst : i \in {j \in 1..Len(items) : verdict[j] = "denied"}}
      allowed == {i \in 1..Len(items) : verdict[i] = "allowed"}
      ok == denied = {}
      applyAll == [n \in DOMAIN rem |->
                     IF \E i \in allowed : items[i].dst = n
                     THEN newOf(items[CHOOSE i \in allowed : items[i].dst = n]) ELSE rem[n]]
      gitRefs == IF ok \/ ~o.atomic THEN applyAll ELSE rem
  IN [ok |-> ok, denied |-> denied, verdict |-> verdict,
      gitRefs |-> gitRefs,                      \* what git leaves on the remote
      allOrNothing |-> IF ok THEN applyAll ELSE rem]   \* the other outcome C38 admits for a failed push

-----------------------------------------------------------------------------
(* push --prune with renaming refspecs (C38).

   Local heads are named by short names ("a", "b"; "c" and "z" never exist locally).  A refspec kind maps
   a local head to a remote name:
     "id"         refs/heads/*:refs/heads/*                 x -> refs/heads/x
     "wild-ren"   refs/heads/*:refs/remotes/laptop/*        x -> refs/remotes/laptop/x
     "exact-ren"  refs/heads/a:refs/heads/m                 a -> refs/heads/m
   The remote holds references under the destination names (and refs/heads/z, which lies inside the
   destination namespace only for "id").

   Post-state (git push [--prune] [--force]):
     - every local head matched by the refspec is pushed to its destination: created, fast-forwarded,
       or moved when forced; a non-fast-forward without force is denied and leaves the value;
     - with prune, every remote reference inside the destination namespace whose local counterpart
       (the name the REVERSED refspec maps it to) does not exist is deleted;
     - nothing else is touched: a reference with a local source is never deleted.            *)

PrShort == {"a", "b", "c"}
PrDst(k, x) == IF k = "id" THEN "refs/heads/" \o x
               ELSE IF k = "wild-ren" THEN "refs/remotes/laptop/" \o x
               ELSE "refs/heads/m"
PrZ == "refs/heads/z"
PrNames(k) == {PrDst(k, x) : x \in PrShort} \cup {PrZ}
\* local heads the refspec pushes
PrSources(k, loc) == IF k = "exact-ren" THEN {"a"} ELSE {x \in {"a", "b"} : loc[x] # 0}
\* the local counterpart of a remote name under the reversed refspec ("" = outside the namespace)
PrCounterpart(k, n) ==
  IF k = "exact-ren" THEN (IF n = "refs/heads/m" THEN "a" ELSE "")
  ELSE IF \E x \in PrShort : n = PrDst(k, x) THEN CHOOSE x \in PrShort : n = PrDst(k, x)
  ELSE IF k = "id" /\ n = PrZ THEN "z" ELSE ""
PrLocal(loc, x) == IF x \in DOMAIN loc THEN loc[x] ELSE 0

PrunePost(P, loc, rem, k, o) ==
  LET srcs == PrSources(k, loc)
      verdictOf(x) == LET new == loc[x]
                          old == rem[PrDst(k, x)]
                      IN IF new = old THEN "noop"
                         ELSE IF old = 0 \/ o.force THEN "allowed"
                         ELSE IF old \in AncOf(P, {new}) THEN "allowed" ELSE "denied"
      denied == {PrDst(k, x) : x \in {y \in srcs : verdictOf(y) = "denied"}}
      pruned == IF o.prune
                THEN {n \in PrNames(k) : /\ rem[n] # 0
                                         /\ PrCounterpart(k, n) # ""
                                         /\ PrLocal(loc, PrCounterpart(k, n)) = 0}
                ELSE {}
      applied == [n \in PrNames(k) |->
                    IF n \in pruned THEN 0
                    ELSE IF \E x \in srcs : PrDst(k, x) = n /\ verdictOf(x) = "allowed"
                         THEN loc[CHOOSE x \in srcs : PrDst(k, x) = n /\ verdictOf(x) = "allowed"]
                         ELSE rem[n]]
  IN [ok |-> denied = {}, denied |-> denied, pruned |-> pruned,
      verdict |-> [x \in srcs |-> verdictOf(x)],
      gitRefs |-> applied,
      allOrNothing |-> IF denied = {} THEN applied ELSE rem]
=============================================================================
