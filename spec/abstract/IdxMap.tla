------------------------------- MODULE IdxMap -------------------------------
(* Pack index as a finite map (C10).

   State: m = a set of entries [id, off, crc] with pairwise distinct ids and offsets.  The answers of every
   query of the idxfile.Index interface are functions of m alone (Answers); every implementation (MemoryIndex
   after Encode/Decode, LazyIndex over idx+rev, the mmap PackScanner) must give exactly these answers.

   ids are <<b1, b2, b3, t>>: the first three bytes and the last byte of the object id (the harness fills the
   16 bytes in between with one constant), so the order of ids, fanout buckets and prefix matches are
   determined by the model.  Offsets and crcs are symbolic names (TLC integers are 32 bit); Offs lists the
   offsets in increasing numeric order: 12, 2^31-1, 2^31, 2^32+5, 2^40.

   Corruption classes: Corruptions is the set of ways the harness damages the files a map is written to.
   The property-level verdict is the same for all: an implementation must never return an answer that differs
   from Answers(m) without an error (Outcome "wrong-answer" / "panic" are violations); for the classes in
   Strict the damage must be noticed (constructor or query error) whatever the map is.

   Engine A: every map up to MaxN entries is an initial state; EmitHist prints the map with its full answer
   table; the harness asks the same questions of the real implementations.                                *)
EXTENDS Naturals, Sequences, FiniteSets, TLC, Json, SequencesExt

CONSTANTS Ids, Offs, Crcs, PrefixSet, MaxN, Corruptions, Strict, Emit

RECURSIVE LexLess(_, _)
LexLess(a, b) == IF a = <<>> THEN b # <<>> ELSE IF b = <<>> THEN FALSE
                 ELSE IF Head(a) # Head(b) THEN Head(a) < Head(b) ELSE LexLess(Tail(a), Tail(b))
IdSeq == SetToSortSeq(Ids, LexLess)                          \* the universe in id order
IdxOf(s, x) == CHOOSE i \in 1..Len(s) : s[i] = x
OffSet == {Offs[i] : i \in 1..Len(Offs)}
OffLess(a, b) == IdxOf(Offs, a) < IdxOf(Offs, b)
CrcOf(id) == Crcs[((IdxOf(IdSeq, id) - 1) % Len(Crcs)) + 1]

InjMap(f) == \A a, b \in DOMAIN f : a # b => f[a] # f[b]
\* a pack's first object sits at offset 12 (right behind the pack header), so a non-empty index always has that
\* offset -- git's own size check of an idx (at most n-1 64-bit offsets) relies on it
WellFormed(S, f) == S = {} \/ \E i \in S : f[i] = Offs[1]
Maps == UNION {{ {[id |-> i, off |-> f[i], crc |-> CrcOf(i)] : i \in S} : f \in {g \in [S -> OffSet] : InjMap(g) /\ WellFormed(S, g)} }
               : S \in {T \in SUBSET Ids : Cardinality(T) <= MaxN}}

HasPrefix(id, p) == Len(p) <= Len(id) /\ \A i \in 1..Len(p) : id[i] = p[i]
ById(m)  == SetToSortSeq(m, LAMBDA a, b : LexLess(a.id, b.id))
ByOff(m) == SetToSortSeq(m, LAMBDA a, b : OffLess(a.off, b.off))
Lookup(m, id) == IF \E e \in m : e.id = id THEN CHOOSE e \in m : e.id = id ELSE [id |-> id, off |-> "none", crc |-> "none"]

AnswersOf(m, sorted, ps) ==
  [count   |-> Cardinality(m),
   entries |-> sorted,
   byoff   |-> ByOff(m),
   find    |-> [k \in 1..Len(IdSeq) |-> LET e == Lookup(m, IdSeq[k]) IN
                  [id |-> IdSeq[k], has |-> e.off # "none", off |-> e.off, crc |-> e.crc]],
   hashat  |-> [k \in 1..Len(Offs) |-> [off |-> Offs[k],
                  id |-> IF \E e \in m : e.off = Offs[k] THEN (CHOOSE e \in m : e.off = Offs[k]).id ELSE <<>>]],
   prefix  |-> [k \in 1..Len(ps) |-> [p |-> ps[k], ids |-> SelectSeq([j \in 1..Len(sorted) |-> sorted[j].id], LAMBDA i : HasPrefix(i, ps[k]))]],
   corrupt |-> SetToSeq({[c |-> c, strict |-> c \in Strict] : c \in Corruptions})]

PrefixSeq == SetToSortSeq(PrefixSet, LexLess)
\* (bound through \E so that TLC evaluates the sorted sequence once)
Answers(m) == CHOOSE r \in {AnswersOf(m, s, PrefixSeq) : s \in {ById(m)}} : TRUE

VARIABLES m, a
Init == m \in Maps /\ a = Answers(m)
Next == UNCHANGED <<m, a>>
Spec == Init /\ [][Next]_<<m, a>>

\* ---- theorems about the map model (checked on every map)
A == a
Sorted == \A i \in 1..Len(A.entries) - 1 : LexLess(A.entries[i].id, A.entries[i+1].id)
OffSorted == \A i \in 1..Len(A.byoff) - 1 : OffLess(A.byoff[i].off, A.byoff[i+1].off)
SameEntries == ToSet(A.entries) = m /\ ToSet(A.byoff) = m /\ Len(A.entries) = A.count /\ Len(A.byoff) = A.count
\* offset -> id is the inverse of id -> offset
OffInverse == \A k \in 1..Len(A.find) : A.find[k].has =>
              \E j \in 1..Len(A.hashat) : A.hashat[j].off = A.find[k].off /\ A.hashat[j].id = A.find[k].id
\* a prefix selects a contiguous run of the sorted entries; the empty prefix selects everything
PrefixRun == \A k \in 1..Len(A.prefix) :
               LET ids == A.prefix[k].ids
                   all == [j \in 1..Len(A.entries) |-> A.entries[j].id] IN
               /\ (A.prefix[k].p = <<>> => ids = all)
               /\ \E lo \in 1..Len(all) + 1 : ids = SubSeq(all, lo, lo + Len(ids) - 1)
EmitHist == Emit => PrintT(ToJson([m |-> ById(m), a |-> A]))
=============================================================================
