------------------------------ MODULE FetchGen ------------------------------
(* Engine A generator for C36.  One TLC state = one fetch scenario:

     a server history (commit graph P on 1..N, head a = N, optional head b, optional tag),
     an optional first stage (the server once had only a = px; the client fetched it, fully
     or with depth 1, and possibly committed on top of it: prior state partial / shallow /
     diverged; px = 0: the client starts empty),
     the options of the fetch under test.

   `steps` holds, per fetch, the server references, the options and the client post-state
   (references, shallow set) that Transport!FetchPost requires.  The harness realises the
   scenario with git fast-import and runs it through every client/server pairing.        *)
EXTENDS Transport, TLC, Json

CONSTANTS N,          \* commits 1..N
          Dags,       \* set of parent functions [1..N -> SUBSET 1..N]
          BVals,      \* values of head b (0 = absent)
          TagAts,     \* commits a tag may point to
          Depths,     \* depths of the fetch under test from an empty client (0 = full)
          Deepen,     \* depths of a deepening fetch of a client that was fetched with depth 2
          PBs,        \* second head of the first stage: a client with TWO independent shallow boundaries
          Deepen2,    \* depths of the deepening fetch of such a client
          EmitAll

VARIABLES scn, steps
vars == <<scn, steps>>

NoRef == <<"none", 0>>
Empty == [commits |-> {}, shallow |-> {}, refs |-> [n \in {OA, OB, TT} |-> NoRef]]

Tags == {[kind |-> "none", at |-> 0]} \cup [kind : {"ann", "lw"}, at : TagAts]

\* prior: px = 0 (empty client) | px > 0 with d1 \in {0,1,2} and local \in BOOLEAN
\*        | px > 0, pb > 0, d1 = 1: the first stage had two heads a = px, b = pb and the client fetched both
\*          with depth 1: two boundary commits, each cutting its own branch
Priors == {[px |-> 0, d1 |-> 0, local |-> FALSE, pb |-> 0]}
          \cup {[px |-> x, d1 |-> d, local |-> l, pb |-> 0] : x \in 1..(N-1), d \in {0, 1, 2}, l \in BOOLEAN}
          \cup {p \in {[px |-> x, d1 |-> 1, local |-> FALSE, pb |-> y] : x \in 1..N, y \in PBs} : p.px # p.pb}
             \* px = N: head a does not move between the stages (deepening the same history)

Scenarios ==
  {s \in [dag : Dags, b : BVals, tag : Tags, prior : Priors,
          refspec : {"all", "one"}, tags : {"follow", "all", "none"}, depth : Depths \cup Deepen \cup Deepen2] :
     \* a depth-limited fetch starts from an empty client, or deepens a client that is already
     \* shallow with non-shallow commits (first fetch with depth 2, then depth \in Deepen)
     /\ (s.prior.px = 0 => s.depth \in Depths)
     /\ (s.prior.px # 0 /\ s.prior.d1 # 2 /\ s.prior.pb = 0 => s.depth = 0)
     \* the client with two boundaries deepens (or fetches fully), possibly only ONE branch
     \* (refspec "one"): the other branch's boundary commit must stay in its shallow file
     /\ (s.prior.pb # 0 => (s.depth \in {0} \cup Deepen2 /\ s.tags = "none" /\ s.tag.kind = "none"))
     /\ (s.prior.px # 0 /\ s.prior.d1 = 2 => s.depth \in {0} \cup Deepen)
     \* not generated: deepening with auto-followed tags -- git also counts the depth from a followed
     \* tag whose target the client already owns (it becomes a want of the same request)
     /\ (s.depth \in Deepen => (s.tags # "follow" \/ s.tag.kind = "none"))
     /\ (s.prior.local => s.prior.d1 = 0)                \* local commits only on a full prior
     /\ s.b < N }

Srv1(s) == [a |-> s.prior.px, b |-> s.prior.pb, tag |-> [kind |-> "none", at |-> 0]]
Srv2(s) == [a |-> N, b |-> s.b, tag |-> s.tag]
Opt1(s) == [refspec |-> "all", tags |-> IF s.prior.pb = 0 THEN "follow" ELSE "none", depth |-> s.prior.d1]
Opt2(s) == [refspec |-> s.refspec, tags |-> s.tags, depth |-> s.depth]

Step(P, srv, cl, o) ==
  LET post == FetchPost(P, srv, cl, o)
  IN [srv |-> srv, opt |-> o, refs |-> post.refs, shallow |-> post.shallow, commits |-> post.commits]

StepsOf(s) ==
  IF s.prior.px = 0 THEN <<Step(s.dag, Srv2(s), Empty, Opt2(s))>>
  ELSE LET s1 == Step(s.dag, Srv1(s), Empty, Opt1(s))
           c1 == [commits |-> s1.commits, shallow |-> s1.shallow, refs |-> s1.refs]
       IN <<s1, Step(s.dag, Srv2(s), c1, Opt2(s))>>

Init == /\ scn \in Scenarios
        /\ steps = StepsOf(scn)
Next == UNCHANGED vars

-----------------------------------------------------------------------------
\* theorems of the specification
Last == steps[Len(steps)]
AsClient(st) == [commits |-> st.commits, shallow |-> st.shallow, refs |-> st.refs]
\* the required post-state is connected up to its shallow boundary (what fsck checks)
PostConnected == \A i \in 1..Len(steps) : Connected(scn.dag, AsClient(steps[i]))
\* a deepening fetch retires exactly the old boundary commits that now lie strictly inside the
\* requested depth of the FETCHED tips; every other old boundary commit stays shallow:
\*   shallow' = (old \ unshallowed) \cup new
Interior == IF Last.opt.depth <= 1 \/ Len(steps) < 2 THEN {}
            ELSE Within(scn.dag, DepthTips(Last.srv, AsClient(steps[1]), Last.opt), Last.opt.depth - 2)
OldBoundaryKept == (Len(steps) = 2 /\ Last.opt.depth > 0) =>
                     /\ (steps[1].shallow \ Interior) \subseteq Last.shallow
                     /\ Last.shallow \cap Interior = {}
\* a plain fetch never changes the boundary
PlainKeepsBoundary == (Len(steps) = 2 /\ Last.opt.depth = 0) => Last.shallow = steps[1].shallow
\* a full fetch into a non-shallow client yields the full closure of the fetched tips
FullClosure == (Last.opt.depth = 0 /\ Last.shallow = {}) =>
                 AncOf(scn.dag, HeadTips(Last.srv, Last.opt)) \subseteq Last.commits
\* tracking refs equal the server heads mapped through the refspec
RefsMapped == /\ Last.refs[OA] = <<"commit", N>>
              /\ (Last.opt.refspec = "all" /\ scn.b # 0) => Last.refs[OB] = <<"commit", scn.b>>
              /\ (Last.opt.tags = "none") => Last.refs[TT] = NoRef
\* shallow commits are present
ShallowSane == \A c \in Last.shallow : c \in Last.commits
\* a followed tag never points outside the client's commits
TagInside == Last.refs[TT] # NoRef => Last.refs[TT][2] \in Last.commits

Emit == EmitAll => PrintT(ToJson([scn |-> scn, steps |-> steps]))
=============================================================================
