-------------------------- MODULE IndexStoreTrace --------------------------
(* C20, batch trace validation.  Each record of c20_obs.ndjson holds, for the end of one replayed history,
   cached = Storer.Index() of the long-lived storage and fresh = the decode of the index file by a brand-new
   storage (= Decode(disk)).  The property of IndexStore, view = Decode(disk), is evaluated on every record;
   a failing record is classified by WHAT differs (the class is part of the signature).                      *)
EXTENDS Integers, Sequences, FiniteSets, TLC, Json

Recs == ndJsonDeserialize("c20_obs.ndjson")

Keys(v) == {<<v.entries[i].name, v.entries[i].stage>> : i \in 1..Len(v.entries)}
EntryOf(v, k) == LET i == CHOOSE j \in 1..Len(v.entries) : <<v.entries[j].name, v.entries[j].stage>> = k IN v.entries[i]
Fields == <<"hash", "mode", "size", "skip", "ita", "mtime">>
FieldDiffers(c, f, fld) ==
  \E k \in Keys(c) : LET a == EntryOf(c, k)  b == EntryOf(f, k) IN
     CASE fld = "hash" -> a.hash # b.hash [] fld = "mode" -> a.mode # b.mode [] fld = "size" -> a.size # b.size
       [] fld = "skip" -> a.skip # b.skip [] fld = "ita" -> a.ita # b.ita [] fld = "mtime" -> a.mtime # b.mtime
ToSetS(s) == {s[j] : j \in 1..Len(s)}

Judge(r) ==
  LET c == r.cached  f == r.fresh IN
  IF c.err # "" \/ f.err # "" THEN
       (IF c.err # "" /\ f.err # "" THEN "ok" ELSE IF c.err # "" THEN "cached-error:disk-decodes" ELSE "cached-served:disk-undecodable")
  ELSE IF c = f THEN "ok"
  ELSE IF Keys(c) # Keys(f) THEN "entry-set-differs"
  ELSE LET d == ToSetS(SelectSeq(Fields, LAMBDA fld : FieldDiffers(c, f, fld)))
           content == d \cap {"hash", "mode", "size", "mtime"} # {}      \* what the entry says about the file
           flags   == d \cap {"skip", "ita"} # {}                        \* how the entry is to be treated
       IN IF content /\ flags THEN "entry-content+flags-differ"
          ELSE IF content THEN "entry-content-differs"
          ELSE IF flags THEN "entry-flags-differ"
          ELSE IF c.version # f.version THEN "version-differs" ELSE IF c.exts # f.exts THEN "extensions-differ" ELSE "order-differs"

ASSUME ndJsonSerialize("c20_verdicts.ndjson", [i \in 1..Len(Recs) |-> [id |-> Recs[i].id, class |-> Judge(Recs[i])]])

VARIABLE i
TInit == i \in 1..Len(Recs)
TNext == UNCHANGED i
\* sanity of the records: an observation without any injected fault and without an operation error must satisfy the property
\* only if the implementation is right — so nothing is asserted here beyond well-formedness
WellFormed == Recs[i].count >= 1 /\ Len(Recs[i].hist) >= 1
=============================================================================
