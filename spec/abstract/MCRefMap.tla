------------------------------ MODULE MCRefMap ------------------------------
(* Model constants for RefMap (TLC cfg files cannot contain tuples or functions). *)
EXTENDS RefMap
MCNames == {"HEAD", "refs/heads/a", "refs/tags/t", "refs/remotes/o/HEAD"}
MCHashes == {"h1", "h2"}
MCSymOK == {<<"HEAD", "refs/heads/a">>, <<"refs/remotes/o/HEAD", "refs/heads/a">>}
MCNoRemove == {"HEAD"}
\* initial maps: the harness realises each one loose, packed (by git) and mixed
I0 == [n \in MCNames |-> IF n = "HEAD" THEN "sym:refs/heads/a" ELSE "none"]
I1 == [I0 EXCEPT !["refs/heads/a"] = "h1"]
I2 == [I1 EXCEPT !["refs/tags/t"] = "h2", !["refs/remotes/o/HEAD"] = "sym:refs/heads/a"]
I3 == [I1 EXCEPT !["refs/tags/t"] = "h2"]
MCInits == {I0, I1, I2, I3}
=============================================================================
