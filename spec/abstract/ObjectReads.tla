---------------------------- MODULE ObjectReads ----------------------------
(* Property-level oracle for C23: concurrent reads of a repository whose content only grows.

   The repository is a set of KEYS (objects, references, the index), each with one
   stored value, fixed for ever (an object is content addressed; the driver writes
   every reference once).  Writers PUBLISH keys: a publish operation makes each of
   its keys present at some instant between its invocation and its response (a pack
   appears at its rename, a loose object at its own, a reference at the end).
   A repack publishes nothing and removes nothing.  Keys are never deleted.

   A READ of key k is linearizable against the set of published keys iff
     - it never fails (no error other than not-found),
     - if it finds k, it returns exactly the stored value of k (as far as its API
       shows it: whole content, presence only, or size only), and
     - found / not-found is explained by one publication instant of k:
           there is an instant t within the publish operation of k such that every
           read that found k ended after t and every read that did not find k began
           before t
       (a key that was present from the start has t = 0; a key never published has no t,
        so every read of it must say not-found).

   Time is the position in the recorded event log (each invoke and each response takes
   one position; "instants" are the gaps 0..N between positions).                    *)
EXTENDS Naturals, Sequences, FiniteSets

NotFound == "notfound"

\* An operation record (one per API call), as recorded by the driver:
\*   [p, kind, api, keys, val, inv, rsp]
\*   kind = "read":    keys = <<k>>, val = [r |-> "found"/"notfound"/"error", t, size, c]
\*   kind = "publish": keys = the keys made present;  kind = "repack" / "reindex" / "other": keys = <<>>
\* stored : [key -> [t, size, c]]   the stored triple (type, size, content id) of every key of the universe
\* init   : keys present before the first operation

Keys(o) == {o.keys[i] : i \in 1..Len(o.keys)}

\* does the value a read returned agree with the stored triple, as far as the API exposes it?
ValueOK(api, val, st) ==
  CASE api = "full" -> val.t = st.t /\ val.size = st.size /\ val.c = st.c
    [] api = "has"  -> TRUE
    [] api = "size" -> val.size = st.size
    [] api = "type" -> val.t = st.t /\ val.size = st.size
    [] OTHER        -> FALSE

ReadsOf(ops, k)     == {o \in ops : o.kind = "read" /\ k \in Keys(o)}
PublishesOf(ops, k) == {o \in ops : o.kind = "publish" /\ k \in Keys(o)}

\* the admissible publication instants of k: gaps g (between log position g and g+1)
Instants(ops, init, k, N) ==
  IF k \in init THEN {0}
  ELSE UNION {{g \in 0..N : P.inv <= g /\ g < P.rsp} : P \in PublishesOf(ops, k)}

Explained(ops, init, k, N) ==
  LET R == ReadsOf(ops, k)
      found == {r \in R : r.val.r = "found"}
      miss  == {r \in R : r.val.r = NotFound}
  IN IF found = {} /\ Instants(ops, init, k, N) = {}
       THEN TRUE                                     \* never published, never found
       ELSE \E g \in Instants(ops, init, k, N) :
              /\ \A r \in found : g < r.rsp         \* it ended after the key appeared
              /\ \A r \in miss  : r.inv <= g         \* it began before the key appeared

\* ---- verdict with a reason, per read (first matching class)
\*  "error"            the call failed
\*  "wrong-content"    found, but not the stored value
\*  "phantom"          found a key that was never published / before its publication began
\*  "stale-notfound"   not found although the publication had completed before the read began
\*  "unexplained"      each read alone is fine, but no single publication instant explains them all
\* the checks a read can fail on its own
Alone(ops, init, stored, N, r) ==
  LET k == r.keys[1]
      I == Instants(ops, init, k, N)
  IN IF r.val.r = "error" THEN "error"
     ELSE IF r.val.r = "found" /\ ~ValueOK(r.api, r.val, stored[k]) THEN "wrong-content"
     ELSE IF r.val.r = "found" /\ ~(\E g \in I : g < r.rsp) THEN "phantom"
     ELSE IF r.val.r = NotFound /\ I # {} /\ ~(\E g \in I : r.inv <= g) THEN "stale-notfound"
     ELSE "ok"
\* the same without building the instant sets (used on long recorded histories; MCObjectReads checks AloneFast = Alone)
AloneFast(ops, init, stored, r) ==
  LET k == r.keys[1]
      Ps == PublishesOf(ops, k)
  IN IF r.val.r = "error" THEN "error"
     ELSE IF r.val.r = "found" /\ ~ValueOK(r.api, r.val, stored[k]) THEN "wrong-content"
     ELSE IF r.val.r = "found" /\ k \notin init /\ ~(\E P \in Ps : P.inv < r.rsp) THEN "phantom"
     ELSE IF r.val.r = NotFound /\ (k \in init \/ (Ps # {} /\ \A P \in Ps : P.rsp <= r.inv)) THEN "stale-notfound"
     ELSE "ok"
\* Explained without instant sets: the latest start of a not-found read lies before the earliest end of a found read,
\* within one publish operation
ExplainedFast(ops, init, k) ==
  LET R == ReadsOf(ops, k)
      found == {r \in R : r.val.r = "found"}
      miss  == {r \in R : r.val.r = NotFound}
      Ps == PublishesOf(ops, k)
  IN IF k \in init THEN miss = {}
     ELSE IF found = {} /\ Ps = {} THEN TRUE
     ELSE \E P \in Ps :
            /\ \A r \in found : P.inv < r.rsp
            /\ \A r \in miss  : r.inv < P.rsp
            /\ \A f \in found, m \in miss : m.inv < f.rsp

\* "unexplained": the reads that are fine on their own still have no common publication instant.
\* Classes(seq, ...)[i] is the class of operation seq[i] ("ok" for everything that is not a read).
Classes(seq, init, stored, N) ==
  LET n     == Len(seq)
      all   == {seq[j] : j \in 1..n}
      alone == [i \in 1..n |-> IF seq[i].kind = "read" THEN AloneFast(all, init, stored, seq[i]) ELSE "ok"]
      fine  == {seq[i] : i \in {j \in 1..n : alone[j] = "ok"}}
      keys  == {seq[i].keys[1] : i \in {j \in 1..n : seq[j].kind = "read"}}
      expl  == [k \in keys |-> ExplainedFast(fine, init, k)]
  IN [i \in 1..n |-> IF alone[i] # "ok" THEN alone[i]
                     ELSE IF seq[i].kind = "read" /\ ~expl[seq[i].keys[1]] THEN "unexplained"
                     ELSE "ok"]

\* what the writers were doing while the read was in flight (scenario key)
During(ops, r) == {o.kind : o \in {w \in ops : w.kind # "read" /\ w.p # r.p /\ w.inv < r.rsp /\ r.inv < w.rsp}}
\* what had completed before the read began (for stale reads: what the reader's storage has missed)
Missed(ops, r) == {o.api : o \in {w \in ops : w.kind \in {"publish", "repack"} /\ w.rsp < r.inv}}
\* a reindex by the reading side completed after every publish of the key and before the read
Reindexed(ops, r) ==
  \E x \in ops : /\ x.kind = "reindex" /\ x.rsp < r.inv
                 /\ \A P \in PublishesOf(ops, r.keys[1]) : P.rsp < x.inv

\* scenario key of a rejected read (spec-level; becomes the signature)
Scenario(ops, init, r) ==
  LET k == r.keys[1]
      reps == {o \in ops : o.kind = "repack"}
      cured(x) == \E y \in ops : y.kind = "reindex" /\ x.rsp < y.inv /\ y.rsp < r.inv
  IN [pubvia   |-> {P.api : P \in PublishesOf(ops, k)} \cup (IF k \in init THEN {"init"} ELSE {}),
      repack   |-> IF \E x \in reps : x.inv < r.rsp /\ r.inv < x.rsp THEN "during"
                   ELSE IF \E x \in reps : x.rsp < r.inv /\ ~cured(x) THEN "before"
                   ELSE IF \E x \in reps : x.rsp < r.inv THEN "before-then-reindexed"
                   ELSE "none",
      reindexed |-> Reindexed(ops, r),
      coread   |-> \E x \in ReadsOf(ops, k) : x # r /\ x.inv < r.rsp /\ r.inv < x.rsp,
      during   |-> During(ops, r)]

Accepted(seq, init, stored, N) == LET c == Classes(seq, init, stored, N) IN \A i \in 1..Len(seq) : c[i] = "ok"

\* ---- the textbook definition, for one key (used by MCObjectReads to validate Explained):
\* a total order of the operations that respects real time and is a legal sequential execution of
\* "publish adds the key; read finds it iff it is there"
RECURSIVE LinFrom(_, _)
LinFrom(rem, present) ==
  \/ rem = {}
  \/ \E o \in rem :
       /\ \A q \in rem \ {o} : ~(q.rsp < o.inv)
       /\ IF o.kind = "publish" THEN LinFrom(rem \ {o}, TRUE)
          ELSE /\ (o.val.r = "found") = present
               /\ LinFrom(rem \ {o}, present)
=============================================================================
