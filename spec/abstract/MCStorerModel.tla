---------------------------- MODULE MCStorerModel ----------------------------
EXTENDS StorerModel
MCNames == {"HEAD", "refs/heads/a", "refs/tags/t"}
MCHashes == {"h1", "h2"}
MCSymOK == {<<"HEAD", "refs/heads/a">>, <<"HEAD", "refs/tags/t">>}
MCNoRemove == {"HEAD"}
MCObjects == {"blobA", "blobB", "treeT", "commitC", "tagG"}
MCPackSets == {{"blobA", "blobB"}, {"blobB", "treeT", "commitC"}}
MCIdxVals == {"i1", "i2"}
MCShallowSets == {{"h1"}, {"h1", "h2"}}
MCCfgVals == {"c1", "c2"}
R0 == [n \in MCNames |-> IF n = "HEAD" THEN "sym:refs/heads/a" ELSE "none"]
S0 == [refs |-> R0, objs |-> {}, idx |-> "none", shallow |-> {}, cfg |-> "c0"]
S1 == [refs |-> [R0 EXCEPT !["refs/heads/a"] = "h1", !["refs/tags/t"] = "h2"], objs |-> {"blobA", "commitC"}, idx |-> "i1", shallow |-> {"h1"}, cfg |-> "c1"]
MCInits == {S0, S1}
=============================================================================
