------------------------------ MODULE PackIndex ------------------------------
(* C08: what the .idx (version 2) and .rev files of a pack must contain, as a predicate
   over tokens.  The harness parses the pack with its own reader (entries: id as a
   sequence of byte values, offset, crc32 of the entry bytes) and decodes the idx / rev
   *bytes go-git wrote* into tokens (fanout table, names, crcs, offsets, rev positions,
   the pack checksum fields); this module says whether those tokens are the index of
   that pack.  Byte equality with git's own files is compared separately (cmp).

     record = [es      |-> << [id |-> <<b1..bk>>, off |-> n, crc |-> n] >>,      the pack (harness reader; crc as hex text)
               names   |-> << <<b1..bk>> >>, crcs, offs |-> << n >>,            the idx tables (go-git's bytes)
               fanout  |-> << 256 n >>, large |-> number of 64-bit offset slots,
               rev     |-> << idx positions >>, packsum_ok, idxsum_ok, revsum_ok, revhdr_ok |-> BOOLEAN ]  *)
EXTENDS Integers, Sequences, FiniteSets, TLC, Json, SequencesExt

CONSTANTS IdxFile

IRecs == ndJsonDeserialize(IdxFile)

RECURSIVE LexLess(_, _, _)
LexLess(a, b, k) == IF k > Len(a) \/ k > Len(b) THEN Len(a) < Len(b)
                    ELSE IF a[k] # b[k] THEN a[k] < b[k] ELSE LexLess(a, b, k + 1)

\* (a pack may contain an object twice; git lists it twice, so the order is not strict)
Ascending(names) == \A i \in 1..(Len(names) - 1) : names[i] = names[i+1] \/ LexLess(names[i], names[i+1], 1)

\* position in the idx of the pack entry e (0 if absent)
PosOf(r, e) == LET c == {i \in 1..Len(r.names) : r.names[i] = e.id} IN IF c = {} THEN 0 ELSE CHOOSE i \in c : TRUE

IdxReasons(r) ==
  LET n == Len(r.es) IN
    (IF Len(r.names) = n /\ Len(r.crcs) = n /\ Len(r.offs) = n /\ Len(r.rev) = n THEN {} ELSE {"table-length"})
  \cup (IF Ascending(r.names) THEN {} ELSE {"names-not-ascending"})
  \cup (IF {r.names[i] : i \in 1..Len(r.names)} = {r.es[i].id : i \in 1..n} THEN {} ELSE {"names-are-not-the-pack-objects"})
  \cup (IF Len(r.fanout) = 256 /\ \A b \in 0..255 :
             r.fanout[b + 1] = Cardinality({i \in 1..Len(r.names) : r.names[i][1] <= b}) THEN {} ELSE {"fanout"})
  \* every pack entry is listed with its own offset and crc (duplicates: some position carries it)
  \cup (IF \A k \in 1..n : \E i \in 1..Len(r.names) : r.names[i] = r.es[k].id /\ r.offs[i] = r.es[k].off /\ r.crcs[i] = r.es[k].crc
        THEN {} ELSE {"offset-or-crc"})
  \* all offsets here are below 2^31 (TLC integers are): the 64-bit offset table must be empty
  \cup (IF r.large = 0 THEN {} ELSE {"large-offset-table"})
  \* rev: a permutation of the idx positions (0-based) in ascending pack offset
  \cup (IF Len(r.rev) = Len(r.offs) /\ {r.rev[i] : i \in 1..Len(r.rev)} = 0..(Len(r.offs) - 1)
           /\ \A i \in 1..(Len(r.rev) - 1) : r.offs[r.rev[i] + 1] < r.offs[r.rev[i+1] + 1] THEN {} ELSE {"rev-not-by-offset"})
  \cup (IF r.packsum_ok /\ r.idxsum_ok /\ r.revsum_ok /\ r.revhdr_ok THEN {} ELSE {"checksum-or-header"})

VARIABLES ii, iwhy
IInit == ii \in 1..Len(IRecs) /\ iwhy = IdxReasons(IRecs[ii])
INext == UNCHANGED <<ii, iwhy>>
EmitIBad == iwhy # {} => PrintT(ToJson([i |-> ii, why |-> SetToSortSeq(iwhy, LAMBDA a, b : TRUE)]))
\* adjacent order implies global order
I_Sorted == iwhy = {} => \A i, j \in 1..Len(IRecs[ii].names) : i < j => LexLess(IRecs[ii].names[i], IRecs[ii].names[j], 1) \/ IRecs[ii].names[i] = IRecs[ii].names[j]
=============================================================================
