----------------------------- MODULE MCRecvPack -----------------------------
(* Model constants for RecvPackGen (sequential receive-pack histories, C39). *)
EXTENDS RecvPackGen
MCNames == {"refs/heads/a", "refs/heads/b"}
\* c1, c2: commits the server has; c3: commit carried by the pack; cx: a commit
\* nobody ever sends (missing object)
MCOlds == {"none", "c1", "c2", "c3"}
MCNews == {"none", "c1", "c2", "c3", "cx"}
MCPack == {"c3"}
R0 == [n \in MCNames |-> "none"]
MCInits == { [refs |-> R0, objs |-> {"c1", "c2"}],
             [refs |-> [R0 EXCEPT !["refs/heads/a"] = "c1"], objs |-> {"c1", "c2"}],
             [refs |-> [R0 EXCEPT !["refs/heads/a"] = "c1", !["refs/heads/b"] = "c2"], objs |-> {"c1", "c2"}] }
\* thorough: lists of exactly <= 3 commands over a reduced id universe
MCOlds3 == {"none", "c1", "c2"}
MCNews3 == {"none", "c2", "c3", "cx"}
=============================================================================
