---------------------------- MODULE RefRegister ----------------------------
(* Property-level specification for C16: one reference is an atomic register with
   read, set, compare-and-swap, remove and pack (a no-op), and every concurrent
   history of calls must be LINEARIZABLE against that sequential register:
     - a successful check-and-set was made against the value it expected,
     - no successful update is lost,
     - a reader returns the previous or the new value, never an absent, empty or
       stale one.
   The module defines the sequential semantics (Apply) and linearizability of a
   finite complete history (Linearizable), used
     (1) as the invariant TLC checks on the implementation-level model
         RefStoreFS (design level: finds the schedules that break it), and
     (2) as the acceptance predicate TLC evaluates on histories recorded from the
         real go-git code driven by the gated filesystem (TraceRefHist).        *)
EXTENDS Naturals, Sequences, FiniteSets

None == "none"

\* An operation record: [id, p, op, old, new, res, inv, rsp]
\*   op \in {"read","cas","set","remove","pack"}; inv/rsp = positions in the event log.

\* sequential semantics: value before -> <<value after, result>>
Apply(val, o) ==
  CASE o.op = "read"   -> <<val, val>>
    [] o.op = "set"    -> <<o.new, "ok">>
    [] o.op = "remove" -> <<None, "ok">>
    [] o.op = "pack"   -> <<val, "ok">>
    [] o.op = "cas"    -> IF val = None THEN <<val, "notfound">>
                          ELSE IF val = o.old THEN <<o.new, "ok">>
                          ELSE <<val, "changed">>

Before(a, b) == a.rsp < b.inv          \* real-time precedence

RECURSIVE LinFrom(_, _, _)
\* weak = TRUE ignores the values returned by reads (used only to classify a rejected
\* history: are the updates themselves inconsistent, or only what a reader saw?)
LinFrom(rem, val, weak) ==
  \/ rem = {}
  \/ \E o \in rem :
       /\ \A q \in rem \ {o} : ~Before(q, o)
       /\ LET r == Apply(val, o) IN
            /\ (r[2] = o.res \/ (weak /\ o.op = "read"))
            /\ LinFrom(rem \ {o}, r[1], weak)

Linearizable(ops, init)     == LinFrom(ops, init, FALSE)
LinearizableWeak(ops, init) == LinFrom(ops, init, TRUE)

\* Build operation records from an event log: sequence of
\*   [p, ev \in {"inv","res"}, op, old, new, val]  (val = result on "res")
OpsOf(log) ==
  LET invs == {i \in 1..Len(log) : log[i].ev = "inv"}
      RspOf(i) == CHOOSE j \in (i+1)..Len(log) :
                     /\ log[j].ev = "res" /\ log[j].p = log[i].p
                     /\ \A k \in (i+1)..(j-1) : ~(log[k].ev = "res" /\ log[k].p = log[i].p)
  IN {[id |-> i, p |-> log[i].p, op |-> log[i].op, old |-> log[i].old, new |-> log[i].new,
       res |-> log[RspOf(i)].val, inv |-> i, rsp |-> RspOf(i)] : i \in invs}
=============================================================================
