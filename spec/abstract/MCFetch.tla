------------------------------- MODULE MCFetch -------------------------------
(* Model constants for FetchGen (C36). *)
EXTENDS FetchGen
\* hand-picked shapes on 5 commits: chain, diamond+tail, criss-cross, two roots, fork-merge-late, octopus-ish
D(p2, p3, p4, p5) == [c \in 1..5 |-> IF c = 1 THEN {} ELSE IF c = 2 THEN p2 ELSE IF c = 3 THEN p3 ELSE IF c = 4 THEN p4 ELSE p5]
MCDags5 == { D({1}, {2}, {3}, {4}),        \* chain
             D({1}, {1}, {2,3}, {4}),      \* diamond then tail
             D({1}, {1}, {2,3}, {2,3}),    \* criss-cross (tips 4 and 5)
             D({}, {1,2}, {3}, {4}),       \* two roots merged early
             D({1}, {2}, {1}, {3,4}),      \* long and short side merged at the tip
             D({1}, {1}, {2}, {3,4}),      \* fork, two-step sides, merge
             D({}, {1}, {2}, {3,4}),       \* unrelated root joins at the tip
             D({1}, {2}, {2}, {3,4}) }     \* fork at 2
\* every graph on 4 commits with at most two parents per commit
MCDags4 == {p \in [1..4 -> SUBSET (1..4)] : \A c \in 1..4 : p[c] \subseteq 1..(c-1) /\ Cardinality(p[c]) <= 2}
MCB5q == {0, 1, 4}
MCB5qq == {0, 4}
MCB5 == 0..4
MCB4 == 0..3
MCTag5q == {1, 4, 5}
MCTag5 == 1..5
MCTag4 == 1..4
MCB4q == {0, 1, 3}
MCB4qq == {0, 3}
MCTag4qq == {1, 4}
MCTag4q == {1, 3, 4}
MCDepths == {0, 1, 2}
MCDeepen == {3, 4}
MCPBs5 == {2, 3}
MCPBs4 == {2, 3}
MCDeepen2 == {2, 3}
=============================================================================
