-------------------------- MODULE LinkedWorktrees --------------------------
(* Property-level specification for C33: a repository with a main worktree and
   linked worktrees.  Each worktree has its own HEAD, index and files; branches
   and commits are shared.  One tracked file "f" whose content is a version
   symbol is enough to tell worktrees apart.

     commits  sequence of contents: commit k records content commits[k]
     refs     branch name -> commit number (0 = branch does not exist)
     wt       per worktree: exists, head ("detached" or a branch name), headc (commit),
              idx (staged content), file (content on disk)

   Every operation acts in ONE worktree; the frame property (checked by TLC as an
   action property on the model and by the replay on the implementation) is that
   the HEAD, index and files of every OTHER worktree are unchanged, while branch
   updates are visible from everywhere.
   Behaviour generator (Engine A): hist = operations with the complete expected
   state after each step.                                                      *)
EXTENDS Naturals, Sequences, FiniteSets, TLC, Json

CONSTANTS Linked,      \* names of linked worktrees (also the branch created for them)
          Versions,    \* file contents
          V0,          \* the initial content (an element of Versions)
          MaxCommits, MaxOps, EmitAll

Main == "main"
WTs == {Main} \cup Linked
Absent == [exists |-> FALSE, head |-> "none", headc |-> 0, idx |-> "none", file |-> "none"]

VARIABLES commits, refs, wt, hist,
          stale   \* linked names whose directory (with its .git file) was left behind by a remove
vars == <<commits, refs, wt, hist, stale>>

Init == /\ commits = <<V0>>
        /\ refs = [b \in {"master"} \cup Linked |-> IF b = "master" THEN 1 ELSE 0]
        /\ wt = [w \in WTs |-> IF w = Main THEN [exists |-> TRUE, head |-> "master", headc |-> 1, idx |-> V0, file |-> V0] ELSE Absent]
        /\ hist = <<>> /\ stale = {}

State(c, r, t) == [commits |-> c, refs |-> r, wt |-> t]
Log(op, w, a, res) == hist' = Append(hist, [op |-> op, w |-> w, a |-> a, res |-> res, st |-> State(commits', refs', wt')])

Edit(w, v) == /\ wt[w].exists /\ wt[w].file # v
              /\ wt' = [wt EXCEPT ![w].file = v] /\ UNCHANGED <<commits, refs>> /\ Log("edit", w, v, "ok") /\ UNCHANGED stale
Stage(w) == /\ wt[w].exists /\ wt[w].idx # wt[w].file
            /\ wt' = [wt EXCEPT ![w].idx = wt[w].file] /\ UNCHANGED <<commits, refs>> /\ Log("stage", w, "none", "ok") /\ UNCHANGED stale
Commit(w) == /\ wt[w].exists /\ Len(commits) < MaxCommits /\ wt[w].idx # commits[wt[w].headc]
             /\ commits' = Append(commits, wt[w].idx)
             /\ LET k == Len(commits) + 1 IN
                  /\ wt' = [wt EXCEPT ![w].headc = k]
                  /\ refs' = IF wt[w].head = "detached" THEN refs ELSE [refs EXCEPT ![wt[w].head] = k]
             /\ Log("commit", w, "none", "ok") /\ UNCHANGED stale
ResetHard(w, c) == /\ wt[w].exists /\ c \in 1..Len(commits) /\ c # wt[w].headc
                   /\ wt' = [wt EXCEPT ![w].headc = c, ![w].idx = commits[c], ![w].file = commits[c]]
                   /\ refs' = IF wt[w].head = "detached" THEN refs ELSE [refs EXCEPT ![wt[w].head] = c]
                   /\ UNCHANGED commits /\ Log("reset-hard", w, c, "ok") /\ UNCHANGED stale
\* git worktree add <dir> (-b <name> | --detach): starts at the main worktree's HEAD commit
WtAdd(w, detached) ==
  /\ w \in Linked /\ ~wt[w].exists /\ (detached \/ refs[w] = 0)
  /\ LET c == wt[Main].headc IN
       /\ wt' = [wt EXCEPT ![w] = [exists |-> TRUE, head |-> IF detached THEN "detached" ELSE w, headc |-> c, idx |-> commits[c], file |-> commits[c]]]
       /\ refs' = IF detached THEN refs ELSE [refs EXCEPT ![w] = c]
  /\ stale' = stale \ {w}      \* the replay clears the directory before adding
  /\ UNCHANGED commits /\ Log(IF detached THEN "wt-add-detached" ELSE "wt-add", w, "none", "ok")
\* A second add under a name that is in use is refused and must leave the existing worktree alone
WtAddDup(w) == /\ w \in Linked /\ wt[w].exists
               /\ UNCHANGED <<commits, refs, wt, stale>> /\ Log("wt-add-dup", w, "none", "refused")
\* Remove deletes the administrative entry only; the directory and its .git file stay behind
WtRemove(w) == /\ w \in Linked /\ wt[w].exists
               /\ wt' = [wt EXCEPT ![w] = Absent] /\ stale' = stale \cup {w}
               /\ UNCHANGED <<commits, refs>> /\ Log("wt-remove", w, "none", "ok")
\* Someone opens the left-behind directory and tries to work in it (edit, stage, commit).  It is not a
\* worktree any more (git: "not a git repository"), so nothing of the repository may change: in particular
\* the operations must not land in the main worktree's HEAD, index or branch.
UseStale(w) == /\ w \in stale
               /\ UNCHANGED <<commits, refs, wt, stale>> /\ Log("use-stale", w, "none", "refused")

Next == /\ Len(hist) < MaxOps
        /\ \/ \E w \in WTs, v \in Versions : Edit(w, v)
           \/ \E w \in WTs : Stage(w) \/ Commit(w)
           \/ \E w \in WTs, c \in 1..MaxCommits : ResetHard(w, c)
           \/ \E w \in Linked, d \in BOOLEAN : WtAdd(w, d)
           \/ \E w \in Linked : WtRemove(w) \/ UseStale(w) \/ WtAddDup(w)
Spec == Init /\ [][Next]_vars

\* ---- properties of the model (C33)
\* an operation in one worktree leaves every other worktree's HEAD, index and files alone
Isolation == [][\A i \in {Len(hist')} : i > Len(hist) =>
                 \A v \in WTs : v # hist'[i].w => wt'[v] = wt[v]]_vars
\* two worktrees never have the same branch checked out
OneWorktreePerBranch == \A a, b \in WTs : (a # b /\ wt[a].exists /\ wt[b].exists /\ wt[a].head # "detached") => wt[a].head # wt[b].head
\* a worktree on a branch is at that branch's commit (refs are shared and consistent)
HeadMatchesBranch == \A w \in WTs : (wt[w].exists /\ wt[w].head # "detached") => refs[wt[w].head] = wt[w].headc
TypeOK == /\ Len(commits) \in 1..MaxCommits /\ \A w \in WTs : wt[w].headc \in 0..Len(commits)
EmitHist == (EmitAll /\ Len(hist) = MaxOps) => PrintT(ToJson(hist))
=============================================================================
