------------------------------ MODULE ObjectStoreRead ------------------------------
(* C11: reading a filesystem object store.  The repository content is fixed (built by git:
   three packs, loose objects, an alternate, delta chains, an object stored both loose and
   packed, one large blob); the actions are *reads*.  The abstract store is a function
   slot -> [type, loc]; a read never changes it, so every read - whatever was read before,
   i.e. whatever is in the object LRU, whichever pack was used last, whichever index file
   is open - must return the object of that slot (type, size, bytes as git cat-file reports
   them: git interprets the slot's Id), or NotFound exactly when the slot is absent or the
   requested type is not its type.  TLC enumerates read sequences (histories); the harness
   replays each on a fresh Storage per option row.

   Slots:  p1a p1b p1c  blobs of pack 1: a base and a delta chain of depth 1 and 2
           p2t p2c      tree and commit of pack 2
           p3g          annotated tag in pack 3
           both         blob present loose and in pack 3
           loose        blob only loose
           big          blob larger than LargeObjectThreshold, packed as a delta in pack 1
           alt          blob only in the alternate object directory
           none         an id that is nowhere                                             *)
EXTENDS Integers, Sequences, FiniteSets, TLC, Json

CONSTANTS MaxLen,        \* histories have 1..MaxLen reads
          Emit

Slots == {"p1a", "p1b", "p1c", "p2t", "p2c", "p3g", "both", "loose", "big", "alt", "none"}
TypeOf == [s \in Slots |-> CASE s = "p2t" -> "tree" [] s = "p2c" -> "commit" [] s = "p3g" -> "tag"
                             [] s = "none" -> "absent" [] OTHER -> "blob"]
Present == Slots \ {"none"}
Types == {"commit", "tree", "blob", "tag"}
OfType(t) == {s \in Present : TypeOf[s] = t}

\* the read alphabet
Wrong(s) == IF TypeOf[s] = "blob" THEN "tree" ELSE "blob"     \* a type the slot does not have
Ops ==    {[op |-> "get", s |-> s, t |-> "any"] : s \in Slots}
     \cup {[op |-> "get", s |-> s, t |-> TypeOf[s]] : s \in Present}
     \cup {[op |-> "get", s |-> s, t |-> Wrong(s)] : s \in Present}
     \cup {[op |-> "size", s |-> s, t |-> "any"] : s \in Slots}
     \cup {[op |-> "has", s |-> s, t |-> "any"] : s \in Slots}
     \cup {[op |-> "delta", s |-> s, t |-> "any"] : s \in Slots}
     \cup {[op |-> "byoffset", s |-> s, t |-> "any"] : s \in {"p1a", "p1b", "p1c", "p2t", "p2c", "p3g", "big"}}
     \cup {[op |-> "iter1", s |-> "none", t |-> t] : t \in Types \cup {"any"}}      \* iterator, one element consumed, closed
     \cup {[op |-> "iterall", s |-> "none", t |-> t] : t \in Types \cup {"any"}}
     \cup {[op |-> "prefix", s |-> s, t |-> "any"] : s \in {"p1a", "loose", "both", "alt", "none"}}

\* what the abstract store answers
Expect(o) ==
  CASE o.op = "get"      -> IF o.s \in Present /\ (o.t = "any" \/ o.t = TypeOf[o.s]) THEN [r |-> "object", slots |-> {o.s}] ELSE [r |-> "notfound", slots |-> {}]
    [] o.op = "delta"    -> IF o.s \in Present THEN [r |-> "object", slots |-> {o.s}] ELSE [r |-> "notfound", slots |-> {}]
    [] o.op = "byoffset" -> [r |-> "object", slots |-> {o.s}]
    [] o.op = "size"     -> IF o.s \in Present THEN [r |-> "size", slots |-> {o.s}] ELSE [r |-> "notfound", slots |-> {}]
    [] o.op = "has"      -> IF o.s \in Present THEN [r |-> "yes", slots |-> {o.s}] ELSE [r |-> "no", slots |-> {}]
    \* one element of the right type (which one is not determined), all elements exactly once
    [] o.op = "iter1"    -> [r |-> "one-of", slots |-> IF o.t = "any" THEN Present ELSE OfType(o.t)]
    [] o.op = "iterall"  -> [r |-> "all-of", slots |-> IF o.t = "any" THEN Present ELSE OfType(o.t)]
    \* every stored id that starts with the first byte(s) of the slot's id: at least the slot itself
    [] o.op = "prefix"   -> [r |-> "superset", slots |-> IF o.s \in Present THEN {o.s} ELSE {}]

VARIABLES hist
Init == hist = <<>>
Next == Len(hist) < MaxLen /\ \E o \in Ops : hist' = Append(hist, [op |-> o.op, s |-> o.s, t |-> o.t, expect |-> Expect(o)])

\* theorems: the expectation of a read depends on the read only (reads are observers), and NotFound
\* is answered exactly for absent slots / wrong types
R_Observer == \A i, j \in 1..Len(hist) : (hist[i].op = hist[j].op /\ hist[i].s = hist[j].s /\ hist[i].t = hist[j].t) => hist[i].expect = hist[j].expect
R_NotFound == \A i \in 1..Len(hist) : hist[i].expect.r = "notfound" <=>
                 (hist[i].op \in {"get", "size", "delta"} /\ (hist[i].s = "none" \/ (hist[i].op = "get" /\ hist[i].t \notin {"any", TypeOf[hist[i].s]})))
R_IterTyped == \A i \in 1..Len(hist) : hist[i].op \in {"iter1", "iterall"} =>
                 \A s \in hist[i].expect.slots : hist[i].t \in {"any", TypeOf[s]}
EmitHist == (Emit /\ Len(hist) = MaxLen) => PrintT(ToJson(hist))
=============================================================================
