CONSTANTS
 Names <- MCNames
 Hashes <- MCHashes
 SymOK <- MCSymOK
 NoRemove <- MCNoRemove
 Inits <- MCInits
 MaxOps = 2
 EmitAll = TRUE
INIT Init
NEXT Next
INVARIANTS TypeOK LastConsistent CASFrame PackStutter EmitHist
CHECK_DEADLOCK FALSE
