---------------------------- MODULE MCPackGraph ----------------------------
(* Model constants for PackGraph (cfg files cannot contain sets of integers built by expression). *)
EXTENDS PackGraph
MCRots0 == {0}
MCRots1 == {1}
MCRots2 == {2}
MCRots3 == {3}
MCRotsAll == {0, 1, 2, 3}
=============================================================================
