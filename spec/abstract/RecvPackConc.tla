----------------------------- MODULE RecvPackConc -----------------------------
(* C39, concurrent pushes: one TLC state per (initial server, command list of
   client 1, command list of client 2).  `allowed` is the set of outcomes of the
   serial executions of the individual commands (Transport!ConcurrentAllowed); the
   harness drives two real ReceivePack calls through every schedule of their
   reference-storer steps and requires the observed outcome to be in `allowed`. *)
EXTENDS Transport, TLC, Json

CONSTANTS Names, Olds, News, Pack, Inits, MaxCmds, EmitAll

Cmds == {c \in [name : Names, old : Olds, new : News] : ~(c.old = None /\ c.new = None)}
VARIABLES cinit, cc1, cc2, allowed
cvars == <<cinit, cc1, cc2, allowed>>
ConcLists == UNION {[1..n -> Cmds] : n \in 1..MaxCmds}
CInit == /\ cinit \in Inits
         /\ cc1 \in ConcLists
         /\ cc2 \in ConcLists
         \* only contending pairs are interesting: both touch a common name
         /\ \E i \in 1..Len(cc1), j \in 1..Len(cc2) : cc1[i].name = cc2[j].name
         /\ allowed = ConcurrentAllowed(cinit.refs, cinit.objs, cc1, cc2, Pack)
CNext == UNCHANGED cvars
\* at least one and at most (number of interleavings) outcomes; when the two clients send the
\* same single command the outcome is unique
ConcBound == /\ Cardinality(allowed) >= 1
             /\ Cardinality(allowed) <= Cardinality(Merges(Tagged(1, cc1), Tagged(2, cc2)))
\* in every allowed outcome each client gets one status per command
ConcOnePer == \A o \in allowed : Len(o.rep1) = Len(cc1) /\ Len(o.rep2) = Len(cc2)
\* two successful *different* updates of one reference from the same old value are never both ok
NoLostUpdate == \A o \in allowed : \A i \in 1..Len(cc1), j \in 1..Len(cc2) :
   (Len(cc1) = 1 /\ Len(cc2) = 1 /\ cc1[i].name = cc2[j].name /\ cc1[i].old = cc2[j].old /\ cc1[i].new # cc1[i].old /\ cc2[j].new # cc2[j].old)
      => ~(o.rep1[i] = "ok" /\ o.rep2[j] = "ok")
ConcEmit == EmitAll => PrintT(ToJson([init |-> cinit, c1 |-> cc1, c2 |-> cc2,
                                      allowed |-> allowed,
                                      pack |-> <<NeedsPack(cc1), NeedsPack(cc2)>>,
                                      kinds |-> <<[i \in 1..Len(cc1) |-> CmdKind(cc1[i])], [i \in 1..Len(cc2) |-> CmdKind(cc2[i])]>>]))
=============================================================================
