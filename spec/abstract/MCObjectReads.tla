---------------------------- MODULE MCObjectReads ----------------------------
(* Model half of C23's oracle: on every history of one key with at most one publish and up to
   three reads (every arrangement of the 2n invoke/response positions, every found/not-found
   outcome, key initially present or not), the instant-based acceptance used for trace validation
   (ObjectReads!Explained) coincides with linearizability against the sequential set
   specification (ObjectReads!LinFrom).                                                       *)
EXTENDS ObjectReads, TLC, SequencesExt

CONSTANTS MaxReads

Procs == 1..(MaxReads + 1)
VARIABLES ops, present0
K == "k"
Val(found) == [r |-> IF found THEN "found" ELSE NotFound, t |-> "blob", size |-> 1, c |-> "x"]

\* all ways to give n operations disjoint invoke < response positions in 1..2n
Arrangements(n) == {f \in [1..n -> (1..(2*n)) \X (1..(2*n))] :
                      /\ \A i \in 1..n : f[i][1] < f[i][2]
                      /\ \A i, j \in 1..n : i # j => {f[i][1], f[i][2]} \cap {f[j][1], f[j][2]} = {}}

Init == \E n \in 1..(MaxReads + 1), withPub \in BOOLEAN, f \in Arrangements(MaxReads + 1), res \in [1..(MaxReads + 1) -> BOOLEAN] :
          /\ present0 \in BOOLEAN
          /\ ops = {[p |-> i, kind |-> IF withPub /\ i = 1 THEN "publish" ELSE "read", api |-> "has", keys |-> <<K>>,
                      val |-> Val(res[i]), inv |-> f[i][1], rsp |-> f[i][2]] : i \in 1..n}
Next == UNCHANGED <<ops, present0>>

N == 2 * (MaxReads + 1)
InitKeys == IF present0 THEN {K} ELSE {}
\* a publish of a key that is already there changes nothing: the sequential spec starts from present0
Equivalent == Explained(ops, InitKeys, K, N) = LinFrom(ops, present0)
\* per-read classes are consistent with the whole-history verdict
FastIsSame ==
  /\ ExplainedFast(ops, InitKeys, K) = Explained(ops, InitKeys, K, N)
  /\ \A r \in {o \in ops : o.kind = "read"} :
        AloneFast(ops, InitKeys, [k \in {K} |-> [t |-> "blob", size |-> 1, c |-> "x"]], r) = Alone(ops, InitKeys, [k \in {K} |-> [t |-> "blob", size |-> 1, c |-> "x"]], N, r)
ClassesConsistent ==
  Accepted(SetToSeq(ops), InitKeys, [k \in {K} |-> [t |-> "blob", size |-> 1, c |-> "x"]], N) = Explained(ops, InitKeys, K, N)
=============================================================================
