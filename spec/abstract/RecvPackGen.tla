----------------------------- MODULE RecvPackGen -----------------------------
(* Engine A generator for C39: histories of receive-pack requests against one
   server repository.  Every TLC state is one history; `hist` carries, per push,
   the command list and what the specification (Transport!ReceivePack) expects:
   the report (one status per command, in order, with the spec-level reason) and
   the reference map afterwards.  The harness replays the history against
   transport.ReceivePack (memory and filesystem storage) and `git receive-pack`. *)
EXTENDS Transport, TLC, Json

CONSTANTS Names,      \* reference names
          Olds,       \* ids usable as old value (None = zero id)
          News,       \* ids usable as new value (None = zero id: delete)
          Pack,       \* ids contained in the pack the client sends
          Inits,      \* initial servers: records [refs, objs]
          MaxCmds, MaxPushes, EmitAll

VARIABLES refs, objs, hist, init
vars == <<refs, objs, hist, init>>

\* Not generated: the command with two zero ids (malformed), and a delete whose old id names an
\* object the server cannot have (only the pack carries it and a delete-only request has no
\* pack): git deliberately skips the old-value check when it cannot parse the old id of a delete
\* ("allowing deletion of corrupt ref", builtin/receive-pack.c update()), so git is no witness there.
Cmds == {c \in [name : Names, old : Olds, new : News] :
            /\ ~(c.old = None /\ c.new = None)
            /\ ~(c.new = None /\ c.old \in Pack)}
CmdLists == UNION {[1..n -> Cmds] : n \in 1..MaxCmds}

Init == /\ init \in Inits
        /\ refs = init.refs
        /\ objs = init.objs
        /\ hist = <<>>

Push(cmds) ==
  LET r == ReceivePack(refs, objs, cmds, Pack) IN
  /\ refs' = r.refs
  /\ objs' = r.objs
  /\ hist' = Append(hist, [cmds |-> cmds, report |-> r.report, unpack |-> r.unpack,
                           refs |-> r.refs, pack |-> NeedsPack(cmds)])

Next == /\ Len(hist) < MaxPushes
        /\ UNCHANGED init
        /\ \E cmds \in CmdLists : Push(cmds)

-----------------------------------------------------------------------------
\* what C39 means, as theorems of the specification
Prev(i) == IF i = 1 THEN init.refs ELSE hist[i-1].refs

\* no reference ever points to an object the repository does not have
NoDangling == \A n \in Names : refs[n] = None \/ refs[n] \in objs
\* exactly one status per command, in command order
OnePerCommand == \A i \in 1..Len(hist) :
   /\ Len(hist[i].report) = Len(hist[i].cmds)
   /\ \A k \in 1..Len(hist[i].cmds) : hist[i].report[k].name = hist[i].cmds[k].name
\* a reference changes only if one of its commands was reported ok, and then it holds the
\* new value of the last such command
Frame == \A i \in 1..Len(hist) : \A n \in Names :
   LET oks == {k \in 1..Len(hist[i].cmds) : hist[i].cmds[k].name = n /\ hist[i].report[k].status = "ok"}
   IN IF oks = {} THEN hist[i].refs[n] = Prev(i)[n]
      ELSE hist[i].refs[n] = hist[i].cmds[CHOOSE k \in oks : \A j \in oks : j <= k].new
\* an applied command saw its old value: the first ok command on a name has old = previous value
SawOld == \A i \in 1..Len(hist) : \A k \in 1..Len(hist[i].cmds) :
   (hist[i].report[k].status = "ok" /\ \A j \in 1..(k-1) : hist[i].cmds[j].name # hist[i].cmds[k].name)
      => hist[i].cmds[k].old = Prev(i)[hist[i].cmds[k].name]

EmitHist == (EmitAll /\ Len(hist) = MaxPushes) =>
              PrintT(ToJson([init |-> init, steps |-> hist]))

=============================================================================
