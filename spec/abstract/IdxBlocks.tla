------------------------------ MODULE IdxBlocks ------------------------------
(* Pack index as a finite map, size class "several read blocks with a partial last block" (C10).

   IdxMap.tla enumerates every small map.  On-disk readers of an index (LazyIndex, the mmap scanner, git) do
   not see a map but tables that they scan in fixed-size blocks; whether they still implement the map must
   not depend on how the table length relates to the block size, nor on where in a block the entries with a
   64-bit offset sit.  This module states the same map property for that size class.

   A layout [b, k, r, place] stands for the map with n = b*k + r entries whose ids, in id order, are numbered
   p = 0 .. n-1 (the harness renders id(p), crc(p) and the offsets by fixed formulas: small(p) < 2^31 and
   big(p) >= 2^31, both increasing in p).  `place` says, by block position, which entries have a big (64-bit)
   offset.  With q = p % b and blk = p \div b, last = (n-1) \div b:

     none             no entry
     first-block      blk = 0 (except p = 0)
     last-block       blk = last
     pen-tail         blk = last-1 and q >= r      (the part of the second-to-last block that lies beyond the
                                                     length of the partial last block)
     pen-head         blk = last-1 and q < r
     every-5th        p % 5 = 4
     all-but-first    p >= 1                        (git's limit: at most n-1 64-bit offsets)

   Entry 0 always keeps the small offset 12 (the first object of a pack).  The answers every implementation
   must give are functions of the layout alone: Count = n; entry p is found under id(p) with its offset and
   crc; ids between the entries are absent; Entries() is p = 0..n-1; EntriesByOffset() is ByOff: all small
   entries in p order followed by all big entries in p order; the 64-bit table has N64 entries.            *)
EXTENDS Naturals, Sequences, FiniteSets, TLC, Json

CONSTANTS Blocks,      \* block sizes in table entries (8192 = 32 KiB of 4-byte offsets; 1024 = one 4 KiB page)
          Ks,          \* full blocks
          Rs,          \* entries in the partial last block (0 = no partial block); only r < b is used
          Places,
          MaxN,        \* layouts with more entries are left out
          Emit

Layouts == {l \in [b : Blocks, k : Ks, r : Rs, place : Places] : l.r < l.b /\ l.b * l.k + l.r >= 1 /\ l.b * l.k + l.r <= MaxN}
N(l) == l.b * l.k + l.r
LastBlk(l) == (N(l) - 1) \div l.b

Big(l, p) ==
  LET q == p % l.b
      blk == p \div l.b
      last == LastBlk(l) IN
  /\ p >= 1
  /\ CASE l.place = "none" -> FALSE
       [] l.place = "first-block" -> blk = 0
       [] l.place = "last-block" -> blk = last
       [] l.place = "pen-tail" -> last >= 1 /\ blk = last - 1 /\ q >= l.r
       [] l.place = "pen-head" -> last >= 1 /\ blk = last - 1 /\ q < l.r
       [] l.place = "every-5th" -> p % 5 = 4
       [] l.place = "all-but-first" -> TRUE

\* Big is tabulated once per layout (bf); the answers are computed from the table
BigFn(l) == [p \in 0..(N(l) - 1) |-> Big(l, p)]
Pos(n) == [i \in 1..n |-> i - 1]
AnswersOf(n, bf) == LET bigs   == SelectSeq(Pos(n), LAMBDA p : bf[p])
                        smalls == SelectSeq(Pos(n), LAMBDA p : ~bf[p])
                    IN [n |-> n, big |-> bigs, byoff |-> smalls \o bigs, n64 |-> Len(bigs)]

VARIABLES lay, bigf, ans
vars == <<lay, bigf, ans>>
Init == /\ lay \in Layouts
        /\ bigf = BigFn(lay)
        /\ ans = AnswersOf(N(lay), bigf)
Next == UNCHANGED vars
Spec == Init /\ [][Next]_vars

\* ---- theorems of the model (checked on every layout)
\* git's idx size rule: at most n-1 entries can have a 64-bit offset; entry 0 is small
AtMostNminus1 == ans.n64 <= ans.n - 1 /\ (ans.n >= 1 => ans.byoff[1] = 0)
\* the by-offset order lists every entry exactly once
Permutation == Len(ans.byoff) = ans.n /\ {ans.byoff[i] : i \in 1..Len(ans.byoff)} = 0..(ans.n - 1)
\* small entries precede big ones, each group in id order
Ordered == \A i \in 1..Len(ans.byoff) - 1 :
              LET x == ans.byoff[i]  y == ans.byoff[i + 1] IN
              (bigf[x] = bigf[y] => x < y) /\ (bigf[x] => bigf[y])
\* the placements that name the second-to-last block are empty unless there are two blocks
PenNeedsTwo == (lay.place \in {"pen-tail", "pen-head"} /\ LastBlk(lay) = 0) => ans.n64 = 0
EmitHist == Emit => PrintT(ToJson([lay |-> lay, a |-> ans]))
=============================================================================
