------------------------------- MODULE MCRepo -------------------------------
(* Model constants for Repo: four bounded universes. *)
EXTENDS Repo
E4 == {"f:b1", "f:b2", "x:b1", "l:b1"}
K4 == [e \in E4 |-> IF e = "x:b1" THEN "x" ELSE IF e = "l:b1" THEN "l" ELSE "f"]
E2 == {"f:b1", "f:b2"}
K2 == [e \in E2 |-> "f"]
E1 == {"f:b1"}
K1 == [e \in E1 |-> "f"]
NoUnder == {}
\* universe 1: one path, every kind
P1 == {"a"}
\* universe DF: a path and a path below it
PDF == {"d", "d/b"}
UDF == {<<"d", "d/b">>}
\* universe 2: two independent paths
P2 == {"a", "b"}
\* universe S (C32): names that share string prefixes but not components, and a selection three
\* components deep next to an excluded sibling that sorts before it (a/b/0 vs a/b/c/w)
PS == {"a/x", "ab/y", "a/b/0", "a/b/c/w", "c/v", "f"}
SS == {"a", "ab", "a/b", "a/b/c", "a+ab", "c"}
ConeS == [s \in SS |-> CASE s = "a" -> {"a/x", "a/b/0", "a/b/c/w"} [] s = "ab" -> {"ab/y"} [] s = "a/b" -> {"a/b/0", "a/b/c/w"}
                          [] s = "a/b/c" -> {"a/b/c/w"} [] s = "a+ab" -> {"a/x", "a/b/0", "a/b/c/w", "ab/y"} [] s = "c" -> {"c/v"}]
NoCone == [s \in {} |-> {}]
OpsMain == {"reset-hard", "checkout-force", "checkout-force-create", "checkout", "checkout-twin", "checkout-create", "reset-merge", "reset-keep", "add", "add-all", "remove", "move", "clean", "commit", "status"}
\* C29 adds the calls that must be refused outright, resets to HEAD itself and pull
OpsRefusal == {"pull", "merge-ff", "merge-nonff", "merge-unsupported", "reset-merge-head", "reset-keep-head", "reset-hard-badsparse", "reset-merge-badsparse", "reset-keep-badsparse", "reset-mixed-badsparse",
               "reset-hard-missing", "checkout-create-existing", "checkout-missing-branch", "checkout-branch-and-hash", "checkout-force-missing-hash"}
OpsMainR == OpsMain \cup OpsRefusal
OpsNoMoveR == OpsMainR \ {"move"}
OpsNoMove == OpsMain \ {"move"}
OpsSparse == {"sparse", "sparse2"}
OpsSparseDirty == {"sparse", "sparse-keep"}
=============================================================================
