-------------------------- MODULE ObjectVisibility --------------------------
(* Property-level specification for C18: once an object write or a pack write has
   returned successfully, the object is visible to every lookup on the same
   storage (has, size, get, type iteration, prefix search), whatever reads or
   still-open writers were interleaved.
   Writers are opened and closed as separate steps so that reads can be
   interleaved at every point; while a writer is open its object may or may not be
   visible ("maybe"), after a successful Close it MUST be ("yes").
   Packs can also be superseded on the live handle (DeleteOldObjectPackAndIndex, what
   RepackObjects does with old packs): an object that then has no loose copy is no
   longer promised ("maybe") until it is written again - and a pack with the same
   content (hence the same pack id) written again MUST make it visible again.
   Behaviour generator (Engine A): hist = operations with the expected visibility
   of every object after each step.                                            *)
EXTENDS Naturals, Sequences, FiniteSets, TLC, Json

CONSTANTS Objs, Writers, Kinds, ReadKinds, MaxOps, EmitAll

Idle == [kind |-> "idle", obj |-> "none"]
VARIABLES published, wstate, hist,
          loose,    \* objects with a loose copy (raw / lazy writers, SetEncodedObject)
          packed,   \* objects whose single-object pack is present
          unsure    \* objects dropped with their pack and not written since
vars == <<published, wstate, hist, loose, packed, unsure>>

TypeOK == /\ published \subseteq Objs
          /\ \A w \in Writers : wstate[w] = Idle \/ (wstate[w].kind \in Kinds /\ wstate[w].obj \in Objs)

Init == published = {} /\ wstate = [w \in Writers |-> Idle] /\ hist = <<>> /\ loose = {} /\ packed = {} /\ unsure = {}

Visible(pub, ws, uns) == [o \in Objs |-> IF o \in pub THEN "yes"
                                    ELSE IF o \in uns \/ \E w \in Writers : ws[w] # Idle /\ ws[w].obj = o THEN "maybe" ELSE "no"]

Log(op, w, kind, o) == hist' = Append(hist, [op |-> op, w |-> w, kind |-> kind, o |-> o, vis |-> Visible(published', wstate', unsure')])

Open(w, k, o) == /\ wstate[w] = Idle
                 /\ \A v \in Writers : wstate[v] = Idle \/ wstate[v].obj # o   \* one writer per object at a time
                 /\ wstate' = [wstate EXCEPT ![w] = [kind |-> k, obj |-> o]]
                 /\ UNCHANGED <<published, loose, packed, unsure>> /\ Log("open", w, k, o)
Close(w) == /\ wstate[w] # Idle
            /\ published' = published \cup {wstate[w].obj}
            /\ IF wstate[w].kind = "pack" THEN packed' = packed \cup {wstate[w].obj} /\ UNCHANGED loose
                                          ELSE loose' = loose \cup {wstate[w].obj} /\ UNCHANGED packed
            /\ unsure' = unsure \ {wstate[w].obj}
            /\ wstate' = [wstate EXCEPT ![w] = Idle]
            /\ Log("close", w, wstate[w].kind, wstate[w].obj)
SetObj(o) == /\ published' = published \cup {o} /\ loose' = loose \cup {o} /\ unsure' = unsure \ {o}
             /\ UNCHANGED <<wstate, packed>> /\ Log("set", "none", "set", o)
\* a whole pack arrives in one step (open, write, close of a PackfileWriter)
SetPack(o) == /\ \A v \in Writers : wstate[v] = Idle \/ wstate[v].obj # o
              /\ published' = published \cup {o} /\ packed' = packed \cup {o} /\ unsure' = unsure \ {o}
              /\ UNCHANGED <<wstate, loose>> /\ Log("setpack", "none", "pack", o)
\* the pack of o is superseded and deleted on the live handle
DropPack(o) == /\ o \in packed
               /\ \A v \in Writers : wstate[v] = Idle \/ wstate[v].obj # o
               /\ packed' = packed \ {o}
               /\ published' = loose \cup packed'
               /\ unsure' = IF o \in loose THEN unsure ELSE unsure \cup {o}
               /\ UNCHANGED <<wstate, loose>> /\ Log("droppack", "none", "pack", o)
Read(k) == /\ UNCHANGED <<published, wstate, loose, packed, unsure>> /\ Log("read", "none", k, "none")

Next == /\ Len(hist) < MaxOps
        /\ \/ \E w \in Writers, k \in Kinds, o \in Objs : Open(w, k, o)
           \/ \E w \in Writers : Close(w)
           \/ \E o \in Objs : SetObj(o) \/ SetPack(o) \/ DropPack(o)
           \/ \E k \in ReadKinds : Read(k)
Spec == Init /\ [][Next]_vars

\* the property: read-your-writes after a successful close, at every later point
\* (until the object's pack is dropped, which ends the promise unless a loose copy exists)
PublishedStaysVisible == \A i \in 1..Len(hist) : \A o \in Objs :
    (hist[i].op \in {"close", "set", "setpack"} /\ hist[i].o = o) =>
        \A j \in i..Len(hist) : (\A k \in (i+1)..j : ~(hist[k].op = "droppack" /\ hist[k].o = o)) => hist[j].vis[o] = "yes"
LooseSurvivesDrop == \A o \in loose : o \in published
EmitHist == (EmitAll /\ Len(hist) = MaxOps) => PrintT(ToJson(hist))
=============================================================================
