-------------------------- MODULE ObjectVisibility --------------------------
(* Property-level specification for C18: once an object write or a pack write has
   returned successfully, the object is visible to every lookup on the same
   storage (has, size, get, type iteration, prefix search), whatever reads or
   still-open writers were interleaved.
   Writers are opened and closed as separate steps so that reads can be
   interleaved at every point; while a writer is open its object may or may not be
   visible ("maybe"), after a successful Close it MUST be ("yes").
   Behaviour generator (Engine A): hist = operations with the expected visibility
   of every object after each step.                                            *)
EXTENDS Naturals, Sequences, FiniteSets, TLC, Json

CONSTANTS Objs, Writers, Kinds, ReadKinds, MaxOps, EmitAll

Idle == [kind |-> "idle", obj |-> "none"]
VARIABLES published, wstate, hist
vars == <<published, wstate, hist>>

TypeOK == /\ published \subseteq Objs
          /\ \A w \in Writers : wstate[w] = Idle \/ (wstate[w].kind \in Kinds /\ wstate[w].obj \in Objs)

Init == published = {} /\ wstate = [w \in Writers |-> Idle] /\ hist = <<>>

Visible(pub, ws) == [o \in Objs |-> IF o \in pub THEN "yes"
                                    ELSE IF \E w \in Writers : ws[w] # Idle /\ ws[w].obj = o THEN "maybe" ELSE "no"]

Log(op, w, kind, o) == hist' = Append(hist, [op |-> op, w |-> w, kind |-> kind, o |-> o, vis |-> Visible(published', wstate')])

Open(w, k, o) == /\ wstate[w] = Idle
                 /\ \A v \in Writers : wstate[v] = Idle \/ wstate[v].obj # o   \* one writer per object at a time
                 /\ wstate' = [wstate EXCEPT ![w] = [kind |-> k, obj |-> o]]
                 /\ UNCHANGED published /\ Log("open", w, k, o)
Close(w) == /\ wstate[w] # Idle
            /\ published' = published \cup {wstate[w].obj}
            /\ wstate' = [wstate EXCEPT ![w] = Idle]
            /\ Log("close", w, wstate[w].kind, wstate[w].obj)
SetObj(o) == /\ published' = published \cup {o} /\ UNCHANGED wstate /\ Log("set", "none", "set", o)
Read(k) == /\ UNCHANGED <<published, wstate>> /\ Log("read", "none", k, "none")

Next == /\ Len(hist) < MaxOps
        /\ \/ \E w \in Writers, k \in Kinds, o \in Objs : Open(w, k, o)
           \/ \E w \in Writers : Close(w)
           \/ \E o \in Objs : SetObj(o)
           \/ \E k \in ReadKinds : Read(k)
Spec == Init /\ [][Next]_vars

\* the property: read-your-writes after a successful close, at every later point
PublishedStaysVisible == \A i \in 1..Len(hist) : \A o \in Objs :
    (hist[i].op \in {"close", "set"} /\ hist[i].o = o) => \A j \in i..Len(hist) : hist[j].vis[o] = "yes"
EmitHist == (EmitAll /\ Len(hist) = MaxOps) => PrintT(ToJson(hist))
=============================================================================
