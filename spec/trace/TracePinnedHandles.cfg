CONSTANTS Holders = {} MaxHold = 0 Faulty = FALSE
INIT TInit
NEXT TNext
CHECK_DEADLOCK FALSE
