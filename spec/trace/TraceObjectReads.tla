-------------------------- MODULE TraceObjectReads --------------------------
(* Batch trace validation for C23 (Engine B): every line of objreads.ndjson is one history
   recorded from real go-git storages (R reader goroutines on one Storage, one writer on
   another Storage of the same repository):
     {"id": k, "n": N, "init": [keys], "stored": {key: {t,size,c}}, "ops": [ {p,kind,api,keys,val,inv,rsp}, ... ]}
   For every history the acceptance predicate of ObjectReads is evaluated and every read that is
   not "ok" is written back with its class and its spec-level scenario key.                   *)
EXTENDS ObjectReads, TLC, Json, IOUtils, SequencesExt

Hists == ndJsonDeserialize("objreads.ndjson")

OpsOf(h) == {h.ops[i] : i \in 1..Len(h.ops)}
InitOf(h) == {h.init[i] : i \in 1..Len(h.init)}

Bad(h) == LET ops == OpsOf(h)
              init == InitOf(h)
              cls == Classes(h.ops, init, h.stored, h.n)
          IN {[i |-> i, class |-> cls[i], scen |-> Scenario(ops, init, h.ops[i])] : i \in {j \in 1..Len(h.ops) : cls[j] # "ok"}}

Verdict(k) == LET h == Hists[k] b == Bad(h) IN [id |-> h.id, acc |-> b = {}, bad |-> SetToSeq(b)]

ASSUME ndJsonSerialize("objreads_verdicts.ndjson", [k \in 1..Len(Hists) |-> Verdict(k)])

VARIABLES k
Init == k \in 1..Len(Hists)
Next == UNCHANGED k
=============================================================================
