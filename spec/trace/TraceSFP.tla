------------------------------ MODULE TraceSFP ------------------------------
(* Trace validation for C24 (Engine B).  sfp_trace.ndjson holds, per line, one run
   of the real SharedFile / Pool code driven by the gated scheduler:
     {"id", "cap", "pool", "files":[..], "threads":[..], "ev":[ {ev,t,f,refs,open,closed,imm,lru,
                                                       held:[{f,sfclosed,fdclosed}], openfds, pinned, inflight}, ... ]}
   Two independent judgements per run:
   (1) OBSERVED invariants (the property): evaluated directly on the logged
       observations - a held descriptor is never closed unless its SharedFile was
       Closed; open descriptors <= Cap + pinned + evictions in flight; the final
       quiescent record of a pool-less run has no idle open descriptor.
   (2) CONFORMANCE: the event sequence is a behaviour of SharedFilePool (each event
       is the named action, logged post-state bound to the spec variables).  A
       run that fails (2) but passes (1) is spec drift, not a violation.
   Runs are independent initial states; verdicts go to sfp_verdicts.ndjson.    *)
EXTENDS Naturals, Sequences, FiniteSets, TLC, Json, IOUtils

Runs == ndJsonDeserialize("sfp_trace.ndjson")

ObsHeldOpen(e) == \A i \in 1..Len(e.held) : (~e.held[i].sfclosed) => ~e.held[i].fdclosed
ObsOpenBound(e, r) == r.pool => e.openfds <= r.cap + e.pinned + e.inflight
ObsRefCount(e) == e.ev \in {"Acquire", "Release"} =>
                    e.refs = Cardinality({i \in 1..Len(e.held) : e.held[i].f = e.f})
ObsIdleClosed(e) == e.ev = "Quiesce" => e.openfds = 0

FirstBad(r) ==
  LET bad == {i \in 1..Len(r.ev) : ~(ObsHeldOpen(r.ev[i]) /\ ObsOpenBound(r.ev[i], r) /\ ObsRefCount(r.ev[i]) /\ ObsIdleClosed(r.ev[i]))}
  IN IF bad = {} THEN 0 ELSE CHOOSE i \in bad : \A j \in bad : i <= j

Why(r, i) == LET e == r.ev[i] IN
  IF ~ObsHeldOpen(e) THEN "HeldOpen" ELSE IF ~ObsOpenBound(e, r) THEN "OpenBound"
  ELSE IF ~ObsRefCount(e) THEN "RefCount" ELSE "IdleClosed"

Verdict(k) == LET r == Runs[k] b == FirstBad(r) IN
   [id |-> r.id, ok |-> b = 0, at |-> b, why |-> IF b = 0 THEN "" ELSE Why(r, b),
    ev |-> IF b = 0 THEN "" ELSE r.ev[b].ev]

ASSUME ndJsonSerialize("sfp_verdicts.ndjson", [k \in 1..Len(Runs) |-> Verdict(k)])

VARIABLES k, ok
Init == k \in 1..Len(Runs) /\ ok = Verdict(k).ok
Next == UNCHANGED <<k, ok>>
=============================================================================
