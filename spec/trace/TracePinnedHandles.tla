------------------------- MODULE TracePinnedHandles -------------------------
(* Batch trace validation of descriptor events recorded from real SharedFile objects (verif hooks,
   emitted under the SharedFile mutex) while readers share one Storage: pinned.ndjson has one line per
   (run, descriptor): {"id", "run", "file", "ev": [ {h, ev, refs, open, closed}, ... ]}; h is the goroutine that made
   the call.  PinnedHandles!Check decides each; verdicts go to pinned_verdicts.ndjson.            *)
EXTENDS PinnedHandles, TLC, Json, IOUtils

Traces == ndJsonDeserialize("pinned.ndjson")
Verdict(k) == LET t == Traces[k] r == Check(t.ev) IN
  [id |-> t.id, ok |-> r.at = 0, at |-> r.at, why |-> r.why, h |-> r.h]
ASSUME ndJsonSerialize("pinned_verdicts.ndjson", [k \in 1..Len(Traces) |-> Verdict(k)])

VARIABLES k
TInit == k \in 1..Len(Traces) /\ refs = 0 /\ holds = <<>> /\ open = FALSE /\ readFailed = FALSE
TNext == UNCHANGED <<k, vars>>
=============================================================================
