---------------------------- MODULE TraceSFPConf ----------------------------
(* Conformance half of C24 trace validation: every recorded run of one configuration
   (sfp_conf.ndjson) must be a behaviour of the implementation-level model
   SharedFilePool.  Each logged event is matched with the named action and the
   logged post-state is bound to the spec variables; the only silent steps are a
   no-op Forget of an unregistered member and a late timer callback after Stop.
   Acceptance = the log position reaches the end (high-water mark, -workers 1). *)
EXTENDS SharedFilePool, Json, IOUtils

Runs == ndJsonDeserialize("sfp_conf.ndjson")     \* all runs of ONE configuration (Files, Threads, Cap, UsePool)
VARIABLES l, k
Log == Runs[k].ev
tvars == <<vars, l, k>>

E == Log[l]
IsEvent(n) == l <= Len(Log) /\ Log[l].ev = n /\ l' = l + 1 /\ UNCHANGED k
Post(f) == /\ refs'[f] = E.refs /\ open'[f] = E.open /\ closed'[f] = E.closed /\ immediate'[f] = E.imm

TAcquire == IsEvent("Acquire") /\ AcquireCS(E.t, E.f) /\ Post(E.f)
TAcquireClosed == IsEvent("AcquireClosed") /\ closed[E.f] /\ AcquireCS(E.t, E.f)
TRelease == IsEvent("Release") /\ Release(E.t, E.f) /\ Post(E.f)
TTimer == IsEvent("TimerFire") /\ ((TimerFire(E.f) /\ Post(E.f)) \/ (timer[E.f] = 0 /\ UNCHANGED vars))
TClose == IsEvent("Close") /\ CloseCS(E.t, E.f) /\ Post(E.f)
TReleaseNow == /\ IsEvent("ReleaseNow")
               /\ \/ (pc[E.t] = "relnow" /\ victim[E.t] = E.f /\ EvReleaseNow(E.t))
                  \/ (pc[E.t] = "idle" /\ ExtReleaseNow(E.t, E.f))
               /\ Post(E.f)
TPinned == IsEvent("Pinned") /\ pc[E.t] = "walk" /\ walk[E.t] >= 2 /\ lru[walk[E.t]] = E.f /\ WalkStep(E.t)
TTouch == (IsEvent("TouchHit") \/ IsEvent("TouchRegister")) /\ cur[E.t] = E.f /\ TouchStart(E.t) /\ lru' = E.lru
TEvict == IsEvent("Evict") /\ EvSelect(E.t) /\ victim'[E.t] = E.f /\ lru' = E.lru
TForget == IsEvent("Forget") /\ cur[E.t] = E.f /\ Forget(E.t) /\ lru' = E.lru
TQuiesce == IsEvent("Quiesce") /\ UNCHANGED vars
\* silent: Forget of a member that is not registered returns without an event
SilentForget == \E t \in Threads : pc[t] = "forget" /\ ~reg[cur[t]] /\ Forget(t) /\ UNCHANGED <<l, k>>

TNext == TAcquire \/ TAcquireClosed \/ TRelease \/ TTimer \/ TClose \/ TReleaseNow \/ TPinned \/ TTouch
         \/ TEvict \/ TForget \/ TQuiesce \/ SilentForget
TInit == Init /\ l = 1 /\ k \in 1..Len(Runs)
TSpec == TInit /\ [][TNext]_tvars

\* per-run high-water mark of the log position in TLC register k (-workers 1)
ASSUME \A i \in 1..Len(Runs) : TLCSet(i, 0)
HW == IF TLCGet(k) < l THEN TLCSet(k, l) ELSE TRUE
Accepted == PrintT(ToJson([conf |-> [i \in 1..Len(Runs) |-> [id |-> Runs[i].id, hw |-> TLCGet(i), len |-> Len(Runs[i].ev)]]]))
=============================================================================
