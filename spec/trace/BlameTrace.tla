---------------------------- MODULE BlameTrace ----------------------------
(* Batch trace validation for C46: go-git's recorded blame outputs (blame_out.ndjson, one record
   [h, at, out] per blame) are judged by Blame!Admissible against the histories TLC generated
   (blame_hist.ndjson); the records that fail are written to blame_bad.ndjson with the failing clause. *)
EXTENDS Blame
HistRows == ndJsonDeserialize("blame_hist.ndjson")
Outs == ndJsonDeserialize("blame_out.ndjson")
HOf(o) == HistRows[o.h]
Judged == [i \in 1..Len(Outs) |-> [i |-> i, h |-> Outs[i].h, at |-> Outs[i].at, out |-> Outs[i].out,
                                   why |-> WhyNot(HOf(Outs[i]), Outs[i].at, Outs[i].out), det |-> HOf(Outs[i]).det,
                                   merge |-> HOf(Outs[i]).merge[Outs[i].at]]]
Bad == SelectSeq(Judged, LAMBDA j : j.why # "ok")
ASSUME ndJsonSerialize("blame_bad.ndjson", Bad)
ASSUME ndJsonSerialize("blame_judged_count.ndjson", <<[n |-> Len(Outs), bad |-> Len(Bad)]>>)
VARIABLE dummy
TInit == dummy = 0 /\ hi = 0 /\ at = 0
TNext == UNCHANGED <<dummy, hi, at>>
=============================================================================
