---------------------------- MODULE TraceRefHist ----------------------------
(* Batch trace validation for C16 (Engine B): every line of refhist.ndjson is one
   history recorded from real go-git processes driven by the gated filesystem:
     {"id": k, "init": "h1" | "none", "log": [ {p, ev, op, old, new, val}, ... ]}
   Each history is one TLC state; `acc` is the property-level verdict
   (RefRegister!Linearizable) and `weak` the classification verdict.  Rejected
   histories are written to refhist_rejected.ndjson for the runner.            *)
EXTENDS RefRegister, TLC, Json, IOUtils, SequencesExt

Hists == ndJsonDeserialize("refhist.ndjson")

Verdict(k) == LET h == Hists[k] ops == OpsOf(h.log) IN
                [id |-> h.id, acc |-> Linearizable(ops, h.init), weak |-> LinearizableWeak(ops, h.init)]

ASSUME ndJsonSerialize("refhist_verdicts.ndjson", [k \in 1..Len(Hists) |-> Verdict(k)])

VARIABLES k, acc
Init == k \in 1..Len(Hists) /\ acc = Verdict(k).acc
Next == UNCHANGED <<k, acc>>
=============================================================================
