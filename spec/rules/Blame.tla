------------------------------- MODULE Blame -------------------------------
(* What a blame of one file may say.  C46.

   A HISTORY is [par (ordered parents, DagUniverse!DagSeqs), tm (committer instants), ver (one version of
   the file per commit: a sequence of line symbols, naturals)].  A BLAME of the file at commit `at` is a
   sequence `out` of commits, one per line of ver[at].

   Admissible(h, at, out) - holds for the answer of ANY diff-based blame, whatever diff algorithm it uses
   (moved and duplicated lines make the exact answer depend on the diff heuristics):
     (length)   one answer per line;
     (contains) the blamed commit's version contains the line, and so does every version on some parent path
                from `at` down to the blamed commit (the line was passed along that path);
     (changed)  the blamed commit is a root or differs from EVERY parent's version (a commit that took a
                parent's version unchanged introduced nothing);
     (count)    in a history without merges no commit is blamed for more copies of a line than its version
                has (through a merge two lines may reach the same origin line along different parents).
   Determinate(h) - every version is strictly increasing (no duplicates, no moves) and every symbol is
   introduced (present in a commit, absent from all its parents) by exactly one commit.  Then the origin of a
   line is that commit, for every minimal diff: Origin(h, at) is the exact answer and git agrees.        *)
EXTENDS DagUniverse, Integers, TLC, Json, SequencesExt

CONSTANTS Hists, Emit
HistSeq == Hists      \* (TLC caches a defined constant, not an overridden one)

NCm(h) == Len(h.par)
Has(s, x) == \E i \in DOMAIN s : s[i] = x
Count(s, x) == Cardinality({i \in DOMAIN s : s[i] = x})
Parents(h, c) == SeqRange(h.par[c])

\* Conn(h, x, at)[c]: some parent path from `at` to c runs through versions that all contain x
Conn(h, x, at) ==
  LET f[k \in 0..(NCm(h) - 1)] ==          \* f[k] decides commit NCm - k (parents have smaller numbers)
        LET c == NCm(h) - k IN
        /\ c <= at /\ Has(h.ver[c], x)
        /\ (c = at \/ \E d \in (c + 1)..at : c \in Parents(h, d) /\ f[NCm(h) - d])
  IN [c \in 1..NCm(h) |-> f[NCm(h) - c]]

Increasing(s) == \A i \in 1..(Len(s) - 1) : s[i] < s[i + 1]
\* First-parent-determinate class: every version is strictly increasing (no duplicates, no moves), but a
\* symbol may be introduced by several commits (independently on two branches, or again after a deletion).
\* Two increasing versions have exactly one longest common subsequence - all their common symbols - so every
\* minimal diff aligns every common line, and git's rule decides the answer: a parent whose version is
\* identical to the commit's takes everything (the first such parent, whatever its position); otherwise a line
\* goes to the FIRST parent (in parent order) that has it; a line no parent has is the commit's own.
FPDet(h) == \A c \in 1..NCm(h) : Increasing(h.ver[c])
FPOriginMap(h) ==
  LET O[c \in 1..NCm(h)] ==
        LET same == {k \in 1..Len(h.par[c]) : h.ver[h.par[c][k]] = h.ver[c]}
        IN [i \in DOMAIN h.ver[c] |->
              LET x == h.ver[c][i]
                  with == {k \in 1..Len(h.par[c]) : Has(h.ver[h.par[c][k]], x)}
                  k == IF same # {} THEN CHOOSE a \in same : \A b \in same : a <= b
                       ELSE IF with # {} THEN CHOOSE a \in with : \A b \in with : a <= b ELSE 0
              IN IF k = 0 THEN c
                 ELSE LET p == h.par[c][k]  pi == CHOOSE q \in DOMAIN h.ver[p] : h.ver[p][q] = x IN O[p][pi]]
  IN O
FPOrigin(h, at) == FPOriginMap(h)[at]
\* scenario tag: some ancestor-or-self of `at` is a merge identical to a parent that is not its first parent
\* while an earlier parent shares a line with it (git: the identical parent takes all)
IdentLater(h, at) == \E c \in AncOf(ParSet(h.par))[at] : \E k \in 2..Len(h.par[c]) :
                        /\ h.ver[h.par[c][k]] = h.ver[c]
                        /\ \E j \in 1..(k - 1) : h.ver[h.par[c][j]] # h.ver[c] /\ \E x \in SeqRange(h.ver[c]) : Has(h.ver[h.par[c][j]], x)

HasMerge(h, at) == \E c \in AncOf(ParSet(h.par))[at] : Len(h.par[c]) > 1

\* some ancestor-or-self of `at` is a merge two of whose parents share an ancestor (blame reaches it along both)
Diamond(h, at) == LET A == AncOf(ParSet(h.par)) IN
                  \E m \in A[at] : \E j, k \in 1..Len(h.par[m]) : j < k /\ A[h.par[m][j]] \cap A[h.par[m][k]] # {}
Clauses(h, at, out) ==
  [length   |-> Len(out) = Len(h.ver[at]) /\ \A i \in DOMAIN out : out[i] \in 1..NCm(h),
   contains |-> \A i \in DOMAIN out : i <= Len(h.ver[at]) /\ out[i] \in 1..NCm(h) => Conn(h, h.ver[at][i], at)[out[i]],
   changed  |-> \A i \in DOMAIN out : out[i] \in 1..NCm(h) => \A p \in Parents(h, out[i]) : h.ver[p] # h.ver[out[i]],
   count    |-> HasMerge(h, at) \/ \A c \in 1..NCm(h) : \A x \in SeqRange(h.ver[at]) :
                   Cardinality({i \in DOMAIN out : i <= Len(h.ver[at]) /\ out[i] = c /\ h.ver[at][i] = x}) <= Count(h.ver[c], x)]
Admissible(h, at, out) == LET k == Clauses(h, at, out) IN k.length /\ k.contains /\ k.changed /\ k.count
WhyNot(h, at, out) == LET k == Clauses(h, at, out) IN
  IF ~k.length THEN "length" ELSE IF ~k.contains THEN "line-not-passed-down-to-blamed-commit"
  ELSE IF ~k.changed THEN "blamed-commit-equals-a-parent" ELSE IF ~k.count THEN "more-copies-than-the-commit-has" ELSE "ok"

Intro(h, x) == {c \in 1..NCm(h) : Has(h.ver[c], x) /\ \A p \in Parents(h, c) : ~Has(h.ver[p], x)}
Symbols(h) == UNION {SeqRange(h.ver[c]) : c \in 1..NCm(h)}
Determinate(h) == /\ \A c \in 1..NCm(h) : Increasing(h.ver[c])
                  /\ \A x \in Symbols(h) : Cardinality(Intro(h, x)) = 1
Origin(h, at) == [i \in DOMAIN h.ver[at] |-> CHOOSE c \in Intro(h, h.ver[at][i]) : TRUE]

Row(hi) == LET h == HistSeq[hi] IN
  [h |-> hi, par |-> h.par, tm |-> h.tm, ver |-> h.ver, det |-> Determinate(h),
   anc |-> [c \in 1..NCm(h) |-> SetToSeq(AncOf(ParSet(h.par))[c])],
   merge |-> [c \in 1..NCm(h) |-> HasMerge(h, c)],
   origin |-> IF Determinate(h) THEN [c \in 1..NCm(h) |-> Origin(h, c)] ELSE <<>>,
   diamond |-> [c \in 1..NCm(h) |-> Diamond(h, c)],
   identlater |-> [c \in 1..NCm(h) |-> IdentLater(h, c)],
   fp |-> FPDet(h), fporigin |-> IF FPDet(h) THEN FPOriginMap(h) ELSE <<>>]
ASSUME Emit => ndJsonSerialize("blame_hist.ndjson", [hi \in 1..Len(HistSeq) |-> Row(hi)])

VARIABLES hi, at
vars == <<hi, at>>
Init == hi \in 1..Len(HistSeq) /\ at \in 1..Len(HistSeq[hi].par)
Next == UNCHANGED vars
Spec == Init /\ [][Next]_vars
H0 == HistSeq[hi]
\* theorems: the exact answer of the determinate class is admissible, blames only ancestors, and is the
\* only admissible answer that blames the introducing commit of each symbol
OriginAdmissible == Determinate(H0) => Admissible(H0, at, Origin(H0, at))
OriginIsAncestor == Determinate(H0) => \A i \in DOMAIN H0.ver[at] : Origin(H0, at)[i] \in AncOf(ParSet(H0.par))[at]
\* on the determinate class the first-parent rule gives the introducing commit; its answer is always admissible
FPAgreesWithOrigin == Determinate(H0) => FPOrigin(H0, at) = Origin(H0, at)
FPAdmissible       == FPDet(H0) => Admissible(H0, at, FPOrigin(H0, at))
\* blaming `at` for everything is admissible exactly when `at` differs from all its parents ... and only then
SelfBlame == Admissible(H0, at, [i \in DOMAIN H0.ver[at] |-> at]) <=> (\A p \in Parents(H0, at) : H0.ver[p] # H0.ver[at])
=============================================================================
