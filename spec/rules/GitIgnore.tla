------------------------------ MODULE GitIgnore ------------------------------
(* git's ignore rules (dir.c: add_patterns_from_buffer / trim_trailing_spaces / parse_path_pattern /
   last_matching_pattern_from_list / match_basename / match_pathname / prep_exclude, and wildmatch.c),
   transcribed over a small alphabet.  A *pattern set* is three ordered lists of pattern lines:
       x  = .git/info/exclude          (lowest priority)
       r  = .gitignore in the root
       n  = .gitignore in directory a/ (highest priority, only in effect below a/)
   Every pattern set of the bounded domain is one TLC state; for every set the verdict of every query
   (path, isDir) is computed here (ignored?, which list and line decided) and serialised for the Go
   harness (harness/cmd/vhtext/c49.go), which asks go-git's gitignore.Scope walk and
   `git check-ignore --no-index -v -n -z --stdin` the same questions (Engine C, three-way).

   symbols of a pattern line:  a b * ? / ! ** [ab] bs(backslash) sp(space)
   path components:            a b ab as("a ")                                           *)
EXTENDS Naturals, Integers, Sequences, FiniteSets, TLC, Json, IOUtils, SequencesExt

CONSTANTS N,        \* D1: every single line of 1..N symbols over Alpha, alone in r or alone in n
          M,        \* D2: every pair of lines of 1..M symbols over PairAlpha, in the three arrangements
          PairAlpha,
          Emit

Alpha == {"a", "b", "*", "?", "/", "!", "**", "[ab]", "bs", "sp"}
LinesOver(A, k) == UNION {[1..m -> A] : m \in 1..k}

(* ---------------- lexical level ---------------- *)
RECURSIVE Expand(_)
Expand(l) == IF l = <<>> THEN <<>>
             ELSE (IF Head(l) = "**" THEN <<"*", "*">> ELSE <<Head(l)>>) \o Expand(Tail(l))

\* trim_trailing_spaces(): a backslash protects the next character; a trailing backslash ends the scan
RECURSIVE TrimFrom(_, _, _)
TrimFrom(l, i, ls) ==
  IF i > Len(l) THEN (IF ls = 0 THEN l ELSE SubSeq(l, 1, ls - 1))
  ELSE IF l[i] = "sp" THEN TrimFrom(l, i + 1, IF ls = 0 THEN i ELSE ls)
  ELSE IF l[i] = "bs" THEN (IF i + 1 > Len(l) THEN l ELSE TrimFrom(l, i + 2, 0))
  ELSE TrimFrom(l, i + 1, 0)
Trim(l) == TrimFrom(l, 1, 0)

\* parse_path_pattern()
Parse(line) ==
  LET t   == Trim(Expand(line))
      neg == Len(t) > 0 /\ t[1] = "!"
      u   == IF neg THEN Tail(t) ELSE t
      dir == Len(u) > 0 /\ u[Len(u)] = "/"
      p   == IF dir THEN SubSeq(u, 1, Len(u) - 1) ELSE u
  IN [neg |-> neg, dironly |-> dir, nodir |-> \A i \in 1..Len(p) : p[i] # "/", p |-> p]

(* ---------------- wildmatch.c: dowild() without the abort codes (pure pruning) ---------------- *)
StarEnd(p, i) == IF \E k \in i..Len(p) : p[k] # "*"
                 THEN CHOOSE k \in i..Len(p) : p[k] # "*" /\ \A m \in i..(k-1) : p[m] = "*"
                 ELSE Len(p) + 1
NoSlash(t, from, to) == \A x \in from..to : t[x] # "/"

RECURSIVE WM(_, _, _, _, _)
WM(p, t, i, j, pn) ==      \* pn: WM_PATHNAME
  IF i > Len(p) THEN j > Len(t)
  ELSE LET c == p[i] IN
    IF c = "*" THEN
      LET k        == StarEnd(p, i)
          many     == k - i >= 2
          \* "**" is special only between slashes / pattern ends (and only with WM_PATHNAME)
          boundary == /\ (i = 1 \/ p[i-1] = "/")
                      /\ (k > Len(p) \/ p[k] = "/" \/ (p[k] = "bs" /\ k + 1 <= Len(p) /\ p[k+1] = "/"))
          ms       == IF ~pn THEN TRUE ELSE many /\ boundary          \* match_slash
          \* "**/" may match zero directories
          zero     == pn /\ many /\ boundary /\ k <= Len(p) /\ p[k] = "/" /\ WM(p, t, k + 1, j, pn)
      IN \/ zero
         \/ IF k > Len(p) THEN ms \/ NoSlash(t, j, Len(t))
            ELSE \E jj \in j..Len(t) : (ms \/ NoSlash(t, j, jj - 1)) /\ WM(p, t, k, jj, pn)
    ELSE IF c = "bs" THEN i < Len(p) /\ j <= Len(t) /\ t[j] = p[i+1] /\ WM(p, t, i + 2, j + 1, pn)
    ELSE IF c = "?" THEN j <= Len(t) /\ (pn => t[j] # "/") /\ WM(p, t, i + 1, j + 1, pn)
    ELSE IF c = "[ab]" THEN j <= Len(t) /\ t[j] \in {"a", "b"} /\ WM(p, t, i + 1, j + 1, pn)
    ELSE j <= Len(t) /\ t[j] = c /\ WM(p, t, i + 1, j + 1, pn)
Wild(p, t, pn) == WM(p, t, 1, 1, pn)

(* ---------------- paths and queries ---------------- *)
CompChars(c) == CASE c = "a" -> <<"a">> [] c = "b" -> <<"b">> [] c = "ab" -> <<"a", "b">> [] c = "as" -> <<"a", "sp">>
RECURSIVE JoinPath(_)
JoinPath(cs) == IF Len(cs) = 0 THEN <<>> ELSE IF Len(cs) = 1 THEN CompChars(cs[1])
                ELSE CompChars(cs[1]) \o <<"/">> \o JoinPath(Tail(cs))

DirPrefixes == UNION {[1..m -> {"a", "b"}] : m \in 0..2}
\* + paths with a component "ab" *between* literal components (x/ab/y and a/x/ab/y): they tell `**/x/y` (x and y adjacent)
\*   from `**/x/**/y`; the inserted component matches neither x nor y, and its directory is not matched by `**/x/y`
GapPaths == {<<x, "ab", y>> : x \in {"a", "b"}, y \in {"a", "b"}} \cup {<<"a", x, "ab", y>> : x \in {"a", "b"}, y \in {"a", "b"}}
Paths    == {pre \o <<last>> : pre \in DirPrefixes, last \in {"a", "b", "ab", "as"}} \cup GapPaths
Queries  == {[p |-> pa, d |-> dd] : pa \in Paths, dd \in BOOLEAN}
QSeq     == SetToSortSeq(Queries, LAMBDA x, y : TRUE)      \* fixed enumeration, emitted with the table
QIdx     == 1..Len(QSeq)
IdxOf(pa, dd) == CHOOSE i \in QIdx : QSeq[i].p = pa /\ QSeq[i].d = dd

(* ---------------- one pattern against one path ---------------- *)
\* base = 0: pattern comes from the root (.gitignore or info/exclude); base = 1: from a/.gitignore
PatMatch(pat, q, base) ==
  IF pat.dironly /\ ~q.d THEN FALSE                                   \* PATTERN_FLAG_MUSTBEDIR
  ELSE IF pat.nodir THEN Wild(pat.p, CompChars(q.p[Len(q.p)]), FALSE) \* match_basename
  ELSE LET pp   == IF Len(pat.p) > 0 /\ pat.p[1] = "/" THEN Tail(pat.p) ELSE pat.p   \* one leading slash
       IN IF base = 0 THEN Wild(pp, JoinPath(q.p), TRUE)              \* match_pathname
          ELSE Len(q.p) >= 2 /\ q.p[1] = "a" /\ Wild(pp, JoinPath(Tail(q.p)), TRUE)

(* ---------------- domain ---------------- *)
\* Outside the domain: in git 2.39 wildmatch.c decides whether a "**" run that follows a non-slash character and is
\* followed by '/' (or ends the pattern) is "special" by comparing a pattern pointer with a text pointer
\* ("prev_p < text", undefined behaviour, fixed in later releases): `a**/b` may or may not match `ab`.
\* gitignore(5) calls such consecutive asterisks invalid.  Lines of that shape are not enumerated.
Ambiguous(line) ==
  LET pat == Parse(line)
      p   == pat.p
  IN ~pat.nodir /\
     \E i \in 2..Len(p) :
        /\ p[i] = "*" /\ p[i-1] \notin {"*", "/"}
        /\ LET k == StarEnd(p, i) IN
             /\ k - i >= 2
             /\ (k > Len(p) \/ p[k] = "/" \/ (p[k] = "bs" /\ k + 1 <= Len(p) /\ p[k+1] = "/"))
Lines1 == {l \in LinesOver(Alpha, N) : ~Ambiguous(l)}
Lines2 == {l \in LinesOver(PairAlpha, M) : ~Ambiguous(l)}
\* D3: a "**" followed by two literal segments -- leading (**/x/y), anchored (/**/x/y) and in the middle (a/**/x/y),
\* optionally directory-only; alone in the root / in a/, and negated after an excluding line
StarLines == {pre \o <<"**", "/", x, "/", y>> \o suf : pre \in {<<>>, <<"/">>, <<"a", "/">>}, x \in {"a", "b"}, y \in {"a", "b"},
                                                       suf \in {<<>>, <<"/">>}}
StarFirst == {<<"*">>, <<"b">>}
AllLines == Lines1 \cup Lines2 \cup StarLines \cup {<<"!">> \o l : l \in StarLines} \cup StarFirst
Sets == {[x |-> <<>>, r |-> <<l>>, n |-> <<>>] : l \in Lines1} \cup
        {[x |-> <<>>, r |-> <<>>, n |-> <<l>>] : l \in Lines1} \cup
        {[x |-> <<>>, r |-> <<l1, l2>>, n |-> <<>>] : l1 \in Lines2, l2 \in Lines2} \cup
        {[x |-> <<>>, r |-> <<l1>>, n |-> <<l2>>] : l1 \in Lines2, l2 \in Lines2} \cup
        {[x |-> <<l1>>, r |-> <<l2>>, n |-> <<>>] : l1 \in Lines2, l2 \in Lines2} \cup
        {[x |-> <<>>, r |-> <<l>>, n |-> <<>>] : l \in StarLines} \cup
        {[x |-> <<>>, r |-> <<>>, n |-> <<l>>] : l \in StarLines} \cup
        {[x |-> <<>>, r |-> <<f, <<"!">> \o l>>, n |-> <<>>] : f \in StarFirst, l \in StarLines}

\* memo tables (constant definitions are evaluated once by TLC)
ParseTab == [l \in AllLines |-> Parse(l)]
MatchTab == [l \in AllLines |-> [i \in QIdx |-> [b \in {0, 1} |-> PatMatch(ParseTab[l], QSeq[i], b)]]]

(* ---------------- last_matching_pattern_from_lists + prep_exclude ---------------- *)
\* scan one list from its last line to its first; 0 = no line matches
LastIn(list, qi, base) ==
  LET hits == {k \in 1..Len(list) : MatchTab[list[k]][qi][base]}
  IN IF hits = {} THEN 0 ELSE CHOOSE k \in hits : \A m \in hits : m <= k

\* decision code: 0 none; src*10+line, src 3 = a/.gitignore, 2 = root .gitignore, 1 = info/exclude; negative = "!"
Code(set, src, k) == LET l == CASE src = 3 -> set.n[k] [] src = 2 -> set.r[k] [] OTHER -> set.x[k]
                     IN IF ParseTab[l].neg THEN 0 - (src * 10 + k) ELSE src * 10 + k
LM(set, qi, nested) ==
  LET kn == IF nested THEN LastIn(set.n, qi, 1) ELSE 0
      kr == LastIn(set.r, qi, 0)
      kx == LastIn(set.x, qi, 0)
  IN IF kn # 0 THEN Code(set, 3, kn) ELSE IF kr # 0 THEN Code(set, 2, kr) ELSE IF kx # 0 THEN Code(set, 1, kx) ELSE 0

\* a/.gitignore is on the stack while looking at anything strictly below a/
UnderA(pa) == Len(pa) >= 2 /\ pa[1] = "a"

\* index of the k-th leading directory of query i (as a directory query)
ParIdx == [i \in QIdx |-> [k \in 1..3 |-> IF k < Len(QSeq[i].p) THEN IdxOf(SubSeq(QSeq[i].p, 1, k), TRUE) ELSE 0]]

RECURSIVE Walk(_, _, _)
Walk(set, qi, k) ==       \* k-th leading directory of the query (prep_exclude), then the query itself
  IF k >= Len(QSeq[qi].p) THEN LM(set, qi, UnderA(QSeq[qi].p))
  ELSE LET di == ParIdx[qi][k]
           c  == LM(set, di, UnderA(QSeq[di].p))
       IN IF c > 0 THEN c                 \* excluded parent: its pattern decides, nothing below is read
          ELSE Walk(set, qi, k + 1)
Verdict(set, qi) == Walk(set, qi, 1)
Verdicts(set) == [i \in QIdx |-> Verdict(set, i)]

\* the queries that can exist: with patterns in a/.gitignore, "a" is a directory
Feasible(set, qi) == ~(Len(set.n) > 0 /\ QSeq[qi].p = <<"a">> /\ ~QSeq[qi].d)

Row(set, vv) == [x |-> set.x, r |-> set.r, n |-> set.n,
                 v |-> [i \in QIdx |-> IF Feasible(set, i) THEN vv[i] ELSE 99]]

ASSUME Emit => ndJsonSerialize("ign_queries.ndjson", QSeq)

(* ---------------- states and theorems ---------------- *)
VARIABLES set, v
vars == <<set, v>>
Init == set \in Sets /\ v = Verdicts(set)
Next == UNCHANGED vars
Spec == Init /\ [][Next]_vars

\* the table: one JSON line per state on stdout (collected by the runner)
EmitRow == Emit => PrintT(ToJson(Row(set, v)))

Ign(i) == v[i] > 0
AllLinesOf(s) == s.x \o s.r \o s.n
IsPrefixPath(a, b) == Len(a) < Len(b) /\ SubSeq(b, 1, Len(a)) = a
PrefixPairs == {<<i, j>> \in QIdx \X QIdx : QSeq[i].d /\ IsPrefixPath(QSeq[i].p, QSeq[j].p)}

\* "It is not possible to re-include a file if a parent directory of that file is excluded."
ExcludedParentWins == \A pr \in PrefixPairs : (Ign(pr[1]) /\ Feasible(set, pr[2])) => Ign(pr[2])
\* a set without a positive pattern ignores nothing
OnlyNegationsIgnoreNothing ==
  (\A k \in 1..Len(AllLinesOf(set)) : ParseTab[AllLinesOf(set)[k]].neg) => \A i \in QIdx : ~Ign(i)
\* a directory-only pattern alone never decides for a non-directory by itself
DirOnlyNeedsDir ==
  (Len(AllLinesOf(set)) = 1 /\ ParseTab[AllLinesOf(set)[1]].dironly) =>
     \A i \in QIdx : (Ign(i) /\ ~QSeq[i].d) => \E pr \in PrefixPairs : pr[2] = i /\ Ign(pr[1])
\* gitignore(5): "**/foo" matches file or directory "foo" anywhere, the same as pattern "foo"
\* (stated for literal names; checked on the single-line sets)
Literal(l) == \A k \in 1..Len(l) : l[k] \in {"a", "b"}
LeadingStarStar ==
  (set.x = <<>> /\ set.n = <<>> /\ Len(set.r) = 1 /\ Literal(set.r[1]) /\ Len(set.r[1]) + 2 <= N) =>
     LET other == [x |-> <<>>, r |-> << <<"**", "/">> \o set.r[1] >>, n |-> <<>>]
     IN \A i \in QIdx : Ign(i) = (Verdict(other, i) > 0)
\* a/.gitignore never decides anything outside a/
NestedIsLocal == \A i \in QIdx : (v[i] \in {31, 32, -31, -32}) => UnderA(QSeq[i].p)
=============================================================================
