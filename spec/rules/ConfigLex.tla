------------------------------ MODULE ConfigLex ------------------------------
(* git's configuration file lexer (config.c, git 2.39: git_parse_source / get_next_char /
   get_base_var / get_extended_base_var / get_value / parse_value) transcribed as a character
   automaton over byte *classes*, plus git's interpretation of values as booleans and integers
   (git_parse_maybe_bool / git_parse_int with k m g suffixes) and the reference value quoting of
   config.c write_pair for the write side.  Every generated file is one TLC state; its meaning --
   an ordered list of (key, value | no value) or "error" -- is computed here and serialised for the Go
   harness (harness/cmd/vhtext/c48.go), which decodes the same bytes with go-git's format/config
   Decoder and with `git config --file f --list --null` (Engine C, three-way).

   byte classes (harness renders them):
     k  lower-case letter (not n)     K  upper-case letter       n  the letter n (escape letter)
     d  digit                         x  a byte that is neither key character, space nor special
     sp space   tab   nl newline      =  ;  #  [  ]  .          q  double quote     bs backslash  *)
EXTENDS Naturals, Integers, Sequences, FiniteSets, TLC, Json, IOUtils, SequencesExt

CONSTANTS BodyAlpha, BodyLen,      \* D1: "[k]" nl \o b     for every b over BodyAlpha, Len(b) <= BodyLen
          HeadAlpha, HeadLen,      \* D2: "[" \o h \o nl "k=x" nl   for every h over HeadAlpha, Len(h) <= HeadLen
          SubAlpha, SubLen,        \* D2b: "[k " q \o h \o nl "k=x" nl  for every h over SubAlpha (inside a subsection name)
          ValAlpha, ValLen,        \* D3 (write side): every value / subsection name over ValAlpha, Len <= ValLen
          Emit

Over(A, n) == UNION {[1..m -> A] : m \in 0..n}

IsSpace(c)   == c \in {"sp", "tab", "nl"}
IsAlpha(c)   == c \in {"k", "K", "n", "t"}      \* "t" only occurs in escapes written by the reference encoder
IsKeyChar(c) == IsAlpha(c) \/ c = "d"
Lower(c)     == IF c = "K" THEN "k" ELSE c

\* get_next_char: past the end the source yields '\n' with eof set
Eof(s, i) == i > Len(s)
Ch(s, i)  == IF i > Len(s) THEN "nl" ELSE s[i]

(* ---------------- parse_value ---------------- *)
\* returns [ok, pos (index after the terminating newline), v (value), tags]
RECURSIVE PV(_, _, _, _, _, _, _)
PV(s, i, quote, comment, space, val, tags) ==
  LET c == Ch(s, i) IN
  IF c = "nl" THEN
       IF quote THEN [ok |-> FALSE, pos |-> i + 1, v |-> <<>>, tags |-> tags \cup {"newline-in-quotes"}]
       ELSE [ok |-> TRUE, pos |-> i + 1, v |-> val, tags |-> tags \cup (IF space > 0 THEN {"trailing-space"} ELSE {})]
  ELSE IF comment THEN PV(s, i + 1, quote, comment, space, val, tags)
  ELSE IF IsSpace(c) /\ ~quote THEN
       PV(s, i + 1, quote, comment, IF Len(val) > 0 THEN space + 1 ELSE space, val,
          tags \cup (IF Len(val) = 0 THEN {"leading-space"} ELSE {}))
  ELSE IF ~quote /\ c \in {";", "#"} THEN PV(s, i + 1, quote, TRUE, space, val, tags \cup {"comment-after-value"})
  ELSE LET val2  == val \o [j \in 1..space |-> "sp"]          \* for (; space; space--) addch(' ')
           tags2 == tags \cup (IF space > 0 THEN {"inner-space"} ELSE {})
       IN IF c = "bs" THEN
            LET e == Ch(s, i + 1) IN
            IF e = "nl" /\ ~Eof(s, i + 1) THEN PV(s, i + 2, quote, comment, 0, val2, tags2 \cup {"continuation"})
            ELSE IF e = "nl" THEN       \* backslash at end of file: get_next_char gives '\n' -> continuation, then eof
                 PV(s, i + 2, quote, comment, 0, val2, tags2 \cup {"continuation-at-eof"})
            ELSE IF e = "n" THEN PV(s, i + 2, quote, comment, 0, Append(val2, "nl"), tags2 \cup {"escape-n"})
            ELSE IF e = "t" THEN PV(s, i + 2, quote, comment, 0, Append(val2, "tab"), tags2 \cup {"escape-t"})
            ELSE IF e \in {"bs", "q"} THEN PV(s, i + 2, quote, comment, 0, Append(val2, e), tags2 \cup {"escape-self"})
            ELSE [ok |-> FALSE, pos |-> i + 2, v |-> <<>>, tags |-> tags2 \cup {"unknown-escape"}]
          ELSE IF c = "q" THEN PV(s, i + 1, ~quote, comment, 0, val2, tags2 \cup {"quote"})
          ELSE PV(s, i + 1, quote, comment, 0, Append(val2, c),
                  tags2 \cup (IF quote /\ c \in {";", "#"} THEN {"comment-char-in-quotes"} ELSE {})
                        \cup (IF quote /\ IsSpace(c) THEN {"space-in-quotes"} ELSE {}))

(* ---------------- get_value ---------------- *)
RECURSIVE KeyEnd(_, _)
KeyEnd(s, i) == IF ~Eof(s, i) /\ IsKeyChar(Ch(s, i)) THEN KeyEnd(s, i + 1) ELSE i
RECURSIVE SkipBlank(_, _)
SkipBlank(s, i) == IF Ch(s, i) \in {"sp", "tab"} /\ ~Eof(s, i) THEN SkipBlank(s, i + 1) ELSE i

NoValue == <<"novalue">>      \* marker: key without "= value" (git: NULL, boolean true)

\* i = index of the first key character; returns [ok, pos, key, v, tags]
GetValue(s, i) ==
  LET e    == KeyEnd(s, i + 1)
      key  == [j \in 1..(e - i) |-> Lower(s[i + j - 1])]
      kt   == (IF \E j \in i..(e-1) : s[j] = "K" THEN {"key-case"} ELSE {}) \cup
              (IF \E j \in i..(e-1) : s[j] = "d" THEN {"key-digit"} ELSE {})
      b    == SkipBlank(s, e)
      c    == Ch(s, b)
  IN IF c = "nl" THEN [ok |-> TRUE, pos |-> b + 1, key |-> key, v |-> NoValue, tags |-> kt \cup {"valueless"}]
     ELSE IF c # "=" THEN [ok |-> FALSE, pos |-> b + 1, key |-> key, v |-> <<>>, tags |-> kt \cup {"junk-after-key"}]
     ELSE LET r == PV(s, b + 1, FALSE, FALSE, 0, <<>>, {})
          IN [ok |-> r.ok, pos |-> r.pos, key |-> key, v |-> r.v, tags |-> kt \cup r.tags]

(* ---------------- get_base_var / get_extended_base_var ---------------- *)
\* i = index after '['; returns [ok, pos (after ']'), name, tags]
RECURSIVE ExtQuoted(_, _, _, _)
ExtQuoted(s, i, name, tags) ==       \* inside the double quotes of [base "extension"]
  LET c == Ch(s, i) IN
  IF c = "nl" THEN [ok |-> FALSE, pos |-> i + 1, name |-> name, tags |-> tags \cup {"newline-in-subsection"}]
  ELSE IF c = "q" THEN
       IF Ch(s, i + 1) = "]" /\ ~Eof(s, i + 1) THEN [ok |-> TRUE, pos |-> i + 2, name |-> name, tags |-> tags]
       ELSE [ok |-> FALSE, pos |-> i + 2, name |-> name, tags |-> tags \cup {"junk-after-subsection"}]
  ELSE IF c = "bs" THEN
       LET e == Ch(s, i + 1) IN
       IF e = "nl" THEN [ok |-> FALSE, pos |-> i + 2, name |-> name, tags |-> tags \cup {"newline-in-subsection"}]
       ELSE ExtQuoted(s, i + 2, Append(name, e), tags \cup {"subsection-escape"})
  ELSE ExtQuoted(s, i + 1, Append(name, c),
                 tags \cup (IF c = "K" THEN {"subsection-case"} ELSE {}) \cup (IF IsSpace(c) THEN {"subsection-space"} ELSE {}))

RECURSIVE ExtSpaces(_, _, _, _)
ExtSpaces(s, i, name, tags) ==       \* do { if (c == '\n') error; c = next } while (isspace(c))
  LET c == Ch(s, i) IN
  IF c = "nl" THEN [ok |-> FALSE, pos |-> i + 1, name |-> name, tags |-> tags \cup {"newline-in-header"}]
  ELSE IF IsSpace(c) THEN ExtSpaces(s, i + 1, name, tags)
  ELSE IF c # "q" THEN [ok |-> FALSE, pos |-> i + 1, name |-> name, tags |-> tags \cup {"junk-in-header"}]
  ELSE ExtQuoted(s, i + 1, Append(name, "."), tags \cup {"subsection"})

RECURSIVE BaseVar(_, _, _, _)
BaseVar(s, i, name, tags) ==
  LET c == Ch(s, i) IN
  IF Eof(s, i) THEN [ok |-> FALSE, pos |-> i + 1, name |-> name, tags |-> tags \cup {"eof-in-header"}]
  ELSE IF c = "]" THEN [ok |-> TRUE, pos |-> i + 1, name |-> name, tags |-> tags]
  ELSE IF IsSpace(c) THEN
       IF c = "nl" THEN [ok |-> FALSE, pos |-> i + 1, name |-> name, tags |-> tags \cup {"newline-in-header"}]
       ELSE ExtSpaces(s, i + 1, name, tags)
  ELSE IF ~IsKeyChar(c) /\ c # "." THEN [ok |-> FALSE, pos |-> i + 1, name |-> name, tags |-> tags \cup {"junk-in-header"}]
  ELSE BaseVar(s, i + 1, Append(name, Lower(c)),
               tags \cup (IF c = "K" THEN {"section-case"} ELSE {}) \cup (IF c = "." THEN {"dotted-section"} ELSE {})
                    \cup (IF c = "d" THEN {"section-digit"} ELSE {}))

(* ---------------- git_parse_source ---------------- *)
\* result: [err, ents (sequence of [k, v]), tags]
RECURSIVE Src(_, _, _, _, _, _)
Src(s, i, base, comment, ents, tags) ==
  LET c == Ch(s, i) IN
  IF Eof(s, i) THEN [err |-> FALSE, ents |-> ents, tags |-> tags]
  ELSE IF c = "nl" THEN Src(s, i + 1, base, FALSE, ents, tags)
  ELSE IF comment \/ IsSpace(c) THEN Src(s, i + 1, base, comment, ents, tags)
  ELSE IF c \in {"#", ";"} THEN Src(s, i + 1, base, TRUE, ents, tags \cup {"comment-line"})
  ELSE IF c = "[" THEN
       LET r == BaseVar(s, i + 1, <<>>, {}) IN
       IF ~r.ok \/ Len(r.name) < 1 THEN [err |-> TRUE, ents |-> ents, tags |-> tags \cup r.tags \cup {"bad-header"}]
       ELSE LET j == SkipBlank(s, r.pos) IN      \* "[k] k = v": an entry may follow the header on its line
            Src(s, r.pos, Append(r.name, "."), FALSE, ents,
                tags \cup r.tags \cup (IF Ch(s, j) \notin {"nl", "#", ";"} THEN {"entry-on-header-line"} ELSE {}))
  ELSE IF ~IsAlpha(c) THEN [err |-> TRUE, ents |-> ents, tags |-> tags \cup {"junk-at-line-start"}]
  ELSE LET r == GetValue(s, i) IN
       IF ~r.ok THEN [err |-> TRUE, ents |-> ents, tags |-> tags \cup r.tags]
       ELSE Src(s, r.pos, base, FALSE, Append(ents, [k |-> base \o r.key, v |-> r.v]),
                tags \cup r.tags \cup (IF base = <<>> THEN {"no-section"} ELSE {}))

ParseFile(s) == Src(s, 1, <<>>, FALSE, <<>>, {})

(* ---------------- value interpretation (config.c git_parse_maybe_bool, git_parse_int) ---------------- *)
\* tokens are whole words here (TLC strings are atomic); "novalue" = key without '='
BoolTokens == {"novalue", "", "true", "TRUE", "True", "yes", "YES", "on", "On", "false", "FALSE", "no", "off", "OFF",
               "1", "0", "2", "-1", "00", "1k", "t", "T", "f", "y", "tru", "x"}
TrueWords  == {"true", "TRUE", "True", "yes", "YES", "on", "On"}
FalseWords == {"false", "FALSE", "no", "off", "OFF", ""}
IntOf      == [t \in {"1", "0", "2", "-1", "00", "1k"} |->
                 CASE t = "1" -> 1 [] t = "0" -> 0 [] t = "2" -> 2 [] t = "-1" -> 0 - 1 [] t = "00" -> 0 [] t = "1k" -> 1024]
\* "true" | "false" | "error"
GitBool(t) == IF t = "novalue" THEN "true"
              ELSE IF t \in TrueWords THEN "true"
              ELSE IF t \in FalseWords THEN "false"
              ELSE IF t \in DOMAIN IntOf THEN (IF IntOf[t] # 0 THEN "true" ELSE "false")
              ELSE "error"
IntTokens == {"10", "0", "1k", "1K", "2m", "1g", "-1", "", "novalue", "x", "1x", "010", " 7"}
GitInt == [t \in IntTokens |->
             CASE t = "10" -> "10" [] t = "0" -> "0" [] t = "1k" -> "1024" [] t = "1K" -> "1024" [] t = "2m" -> "2097152"
               [] t = "1g" -> "1073741824" [] t = "-1" -> "-1" [] t = "010" -> "8" [] t = " 7" -> "7"
               [] OTHER -> "error"]

(* ---------------- write side: reference quoting (config.c write_pair) ---------------- *)
NeedsQuote(v) == \/ (Len(v) > 0 /\ (v[1] = "sp" \/ v[Len(v)] = "sp"))
                 \/ \E j \in 1..Len(v) : v[j] \in {";", "#"}
RECURSIVE EscVal(_)
EscVal(v) == IF v = <<>> THEN <<>>
             ELSE (CASE Head(v) = "nl" -> <<"bs", "n">> [] Head(v) = "tab" -> <<"bs", "t">>
                     [] Head(v) = "q" -> <<"bs", "q">> [] Head(v) = "bs" -> <<"bs", "bs">> [] OTHER -> <<Head(v)>>) \o EscVal(Tail(v))
RefEncodeValue(v) == IF NeedsQuote(v) THEN <<"q">> \o EscVal(v) \o <<"q">> ELSE EscVal(v)
RECURSIVE EscSub(_)
EscSub(v) == IF v = <<>> THEN <<>>
             ELSE (IF Head(v) \in {"q", "bs"} THEN <<"bs", Head(v)>> ELSE <<Head(v)>>) \o EscSub(Tail(v))
RefFile(sub, v) == <<"[", "k", "sp", "q">> \o EscSub(sub) \o <<"q", "]", "nl", "tab", "k", "sp", "=", "sp">> \o RefEncodeValue(v) \o <<"nl">>

(* ---------------- domain ---------------- *)
BodyPre == <<"[", "k", "]", "nl">>
HeadSuf == <<"nl", "k", "=", "x", "nl">>
SubPre  == <<"[", "k", "sp", "q">>
\* D2c: two subsection headers in one file -- the same or different section (k / n), the same or different subsection name
\* (k, K, xk), directly after each other or with a subsection-less section (with or without an option) in between.  The
\* meaning of a file is judged per variable: every (section.subsection.key) with its ordered values (ByKey).
Hdr(sec, sub) == <<"[", sec, "sp", "q">> \o sub \o <<"q", "]", "nl">>
Plain(sec)    == <<"[", sec, "]", "nl">>
Opt(key, val) == <<key, "=", val, "nl">>
Secs == {"k", "n"}
Subs == {<<"k">>, <<"K">>, <<"x", "k">>}
Mids == {<<>>} \cup {Plain(sc) : sc \in Secs} \cup {Plain(sc) \o Opt("k", "d") : sc \in Secs}
MultiRecs == {[f     |-> Hdr(s1, u1) \o Opt("k", "x") \o mid \o Hdr(s2, u2) \o Opt("n", "d"),
               shape |-> (IF u1 = u2 /\ s1 # s2 THEN {"subsection-name-reused"} ELSE {}) \cup
                         (IF u1 = u2 /\ s1 = s2 THEN {"subsection-reopened"} ELSE {}) \cup
                         (IF mid # <<>> THEN {"plain-section-between"} ELSE {}) \cup {"two-subsections"}] :
                 s1 \in Secs, s2 \in Secs, u1 \in Subs, u2 \in Subs, mid \in Mids}
MultiFiles == {m.f : m \in MultiRecs}
ShapeOf(f) == UNION {m.shape : m \in {mm \in MultiRecs : mm.f = f}}
ByKey(ents) == LET ks == {ents[j].k : j \in 1..Len(ents)} IN
               SetToSeq({[k |-> key, vs |-> LET hit == SelectSeq(ents, LAMBDA e : e.k = key) IN [j \in 1..Len(hit) |-> hit[j].v]] : key \in ks})
Files == {BodyPre \o b : b \in Over(BodyAlpha, BodyLen)} \cup {<<"[">> \o h \o HeadSuf : h \in Over(HeadAlpha, HeadLen)}
         \cup {SubPre \o h \o HeadSuf : h \in Over(SubAlpha, SubLen)} \cup MultiFiles
Vals  == Over(ValAlpha, ValLen)

Row(f) == LET r == ParseFile(f) IN
          [f |-> f, err |-> r.err, ents |-> IF r.err THEN <<>> ELSE r.ents,
           multi |-> f \in MultiFiles, bykey |-> IF r.err THEN <<>> ELSE ByKey(r.ents),
           tags |-> SetToSortSeq(r.tags \cup (IF f \in MultiFiles THEN ShapeOf(f) ELSE {}), LAMBDA a, b : TRUE)]
\* write side: a value (as option value and as subsection name) and what must be read back
WRow(v) == [v |-> v, tabfree |-> \A j \in 1..Len(v) : v[j] # "tab"]

(* ---------------- edit semantics: load, change one variable, write (git config --replace-all) ----------------
   Variable names are case-insensitive (section and key are folded by the lexer above), so the spelling of a key in the
   file does not matter for which entries belong to a variable.  Setting a variable to a list of values replaces *all*
   its entries; every other variable keeps its entries.  A file here is a sequence of entries [var, sp, val]:
     var  the variable (already folded), sp the spelling class of the key as written in the file
          ("canon" = the spelling go-git itself writes, "upper" = all capitals, "other" = another mix of cases),
     val  an abstract value id.
   The harness renders such a file, loads it with config.Unmarshal, assigns the new values through the Config value,
   marshals, and reads every variable back with go-git and with git config --get-all / --list.                     *)
EditVars   == {"remote.url", "remote.fetch", "url.insteadof", "branch.merge", "branch.remote"}
MultiVars  == {"remote.url", "remote.fetch", "url.insteadof"}
Spellings  == {"canon", "upper", "other"}
GetAll(es, var)  == LET hit == SelectSeq(es, LAMBDA e : e.var = var) IN [j \in 1..Len(hit) |-> hit[j].val]
SetAll(es, var, vals) == SelectSeq(es, LAMBDA e : e.var # var) \o [j \in 1..Len(vals) |-> [var |-> var, sp |-> "canon", val |-> vals[j]]]
\* an edit scenario: the edited variable occurs with the spellings sps (old values o1, o2), a bystander variable by is
\* present once with spelling bsp (value o3); it is set to nnew new values
Scenario(var, sps, by, bsp, nnew) ==
  [file |-> [j \in 1..Len(sps) |-> [var |-> var, sp |-> sps[j], val |-> IF j = 1 THEN "o1" ELSE "o2"]]
            \o << [var |-> by, sp |-> bsp, val |-> "o3"] >>,
   var  |-> var,
   new  |-> [j \in 1..nnew |-> IF j = 1 THEN "n1" ELSE "n2"]]
\* one bystander per edited variable (a fixed cycle through the variables keeps the table small)
Bystander(var) == CASE var = "remote.url" -> "remote.fetch" [] var = "remote.fetch" -> "url.insteadof"
                    [] var = "url.insteadof" -> "branch.merge" [] var = "branch.merge" -> "branch.remote" [] OTHER -> "remote.url"
Edits == {Scenario(var, sps, Bystander(var), bsp, nnew) :
             var \in EditVars, sps \in UNION {[1..m -> Spellings] : m \in 1..2}, bsp \in Spellings, nnew \in 1..2}
ValidEdit(e) == /\ e.file[Len(e.file)].var # e.var                               \* the bystander is another variable
                /\ (e.var \notin MultiVars => (Len(e.new) = 1 /\ Len(e.file) = 2))  \* single-valued: one entry, one value
EditDomain == {e \in Edits : ValidEdit(e)}
ERow(e) == LET after == SetAll(e.file, e.var, e.new) IN
           [file |-> e.file, var |-> e.var, new |-> e.new,
            want |-> [v \in EditVars |-> GetAll(after, v)]]

ASSUME Emit => /\ ndJsonSerialize("cfg_rows.ndjson", SetToSeq({Row(f) : f \in Files}))
               /\ ndJsonSerialize("cfg_wrows.ndjson", SetToSeq({WRow(v) : v \in Vals}))
               /\ ndJsonSerialize("cfg_bool.ndjson", SetToSeq({[t |-> t, b |-> GitBool(t)] : t \in BoolTokens}))
               /\ ndJsonSerialize("cfg_int.ndjson", SetToSeq({[t |-> t, i |-> GitInt[t]] : t \in IntTokens}))
               /\ ndJsonSerialize("cfg_edit.ndjson", SetToSeq({ERow(e) : e \in EditDomain}))

(* ---------------- states and theorems ---------------- *)
VARIABLES kind, str
vars == <<kind, str>>
Init == \/ kind = "file" /\ str \in Files
        \/ kind = "val" /\ str \in Vals
        \/ kind = "edit" /\ str \in EditDomain
Next == UNCHANGED vars
Spec == Init /\ [][Next]_vars

P == ParseFile(str)
\* keys git reports are lower case in section and key, contain the separating dot(s)
KeysWellFormed == (kind = "file" /\ ~P.err) =>
   \A j \in 1..Len(P.ents) : LET k == P.ents[j].k IN Len(k) >= 1 /\ IsKeyChar(k[Len(k)]) /\ \A m \in 1..Len(k) : k[m] # "K" \/ \E d \in 1..(m-1) : k[d] = "."
\* a value never starts or ends with an unquoted blank: only quoting can produce edge blanks
NoEdgeBlanksUnquoted == (kind = "file" /\ ~P.err /\ "quote" \notin P.tags /\ "escape-n" \notin P.tags) =>
   \A j \in 1..Len(P.ents) : LET v == P.ents[j].v IN
       (v # NoValue /\ Len(v) > 0) => (~IsSpace(v[1]) /\ ~IsSpace(v[Len(v)]))
\* appending a comment line never changes the meaning of a file that ends in a newline
CommentNeutral == (kind = "file" /\ Len(str) > 0 /\ str[Len(str)] = "nl") =>
   LET Q == ParseFile(str \o <<"#", "x", "nl">>) IN Q.err = P.err /\ (~P.err => Q.ents = P.ents)
\* write side: the reference encoding (git's own quoting) of every value and subsection name reads back as itself
\* edit semantics: after setting a variable, reading it gives exactly the new values whatever the old spellings were,
\* and every other variable reads as before
SetThenGet == kind = "edit" =>
   LET after == SetAll(str.file, str.var, str.new) IN
   /\ GetAll(after, str.var) = str.new
   /\ \A v \in EditVars \ {str.var} : GetAll(after, v) = GetAll(str.file, v)
\* a variable belongs to the header that precedes it: the two options of a two-header file are reported under their own headers
TwoHeaders == (kind = "file" /\ str \in MultiFiles) =>
   /\ ~P.err
   /\ Len(P.ents) >= 2 /\ P.ents[1].v = <<"x">> /\ P.ents[Len(P.ents)].v = <<"d">>
   /\ P.ents[1].k[1] = str[2] /\ P.ents[1].k[Len(P.ents[1].k)] = "k" /\ P.ents[Len(P.ents)].k[Len(P.ents[Len(P.ents)].k)] = "n"
RefRoundTrip == kind = "val" =>
   LET sub == IF \A j \in 1..Len(str) : str[j] # "nl" THEN str ELSE <<>>     \* a subsection name cannot hold a newline
       R   == ParseFile(RefFile(sub, str))
   IN ~R.err /\ Len(R.ents) = 1 /\ R.ents[1].v = str /\ R.ents[1].k = <<"k", ".">> \o sub \o <<".", "k">>
=============================================================================
