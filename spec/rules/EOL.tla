-------------------------------- MODULE EOL --------------------------------
(* git's line-ending conversion (convert.c, git 2.39), transcribed over an alphabet of byte
   *classes*.  Every string over the alphabet up to MaxLen is one TLC initial state; the
   conversion results are computed here and serialised as the rule table that the Go harness
   (harness/cmd/vhtext/c31.go) replays into go-git and git (Engine C).

   transcribed functions
     Gather(s)                  gather_stats()
     IsBinary(st)               convert_is_binary()
     WillConvertLFtoCRLF(st,a)  will_convert_lf_to_crlf()   (incl. the "safer autocrlf" rule)
     LFtoCRLF(s)                the copy loop of crlf_to_worktree()
     StripCR(s), CRLFtoLF(s)    the two copy loops of crlf_to_git() (guessed / declared text)
     HasCRLFInIndex(b)          has_crlf_in_index() on the blob b stored in the index
     ToWorktree(s, cfg)         crlf_to_worktree() under core.autocrlf = cfg, no attributes
     ToGit(w, cfg, idxcrlf)     crlf_to_git()      under core.autocrlf = cfg, no attributes
     ToWorktreeText / ToGitText the same two with the attribute "text eol=crlf" (CRLF_TEXT_CRLF):
                                they expose the bare copy loops, against which go-git's stream
                                writers (convert.NewCRLFWriter / NewLFWriter) are judged.

   alphabet (harness renders each class to several concrete bytes)
     LF CR NUL   the bytes themselves
     a           one printable byte (>= 32 except DEL, or BS HT ESC FF)
     P           128 printable bytes  (so that printable >> 7 reaches 1, 2, ...)
     ctl         one non-printable byte (< 32 other than BS HT LF FF CR ESC NUL SUB, or DEL)
     Z           SUB (0x1a, ^Z): non-printable, but not counted when it is the last byte
     big         only in BigStrs: a printable run of >= 128*(MaxLen+1) bytes whose concrete
                 length the harness chooses so that a copy-buffer boundary falls at every
                 position of the rest of the content (long lines / chunked writers)       *)
EXTENDS Naturals, Integers, Sequences, FiniteSets, TLC, Json, IOUtils, SequencesExt

CONSTANTS MaxLen,      \* strings of length 0..MaxLen over Alpha are enumerated
          BigLen,      \* strings "big" \o t with Len(t) <= BigLen are enumerated in addition
          Emit         \* TRUE: write eol_rows.ndjson

Alpha  == {"LF", "CR", "NUL", "a", "ctl", "P", "Z"}
Strs   == UNION {[1..n -> Alpha] : n \in 0..MaxLen}
BigStrs == {<<"big">> \o t : t \in UNION {[1..n -> Alpha] : n \in 1..BigLen}}
Domain == Strs \cup BigStrs
Cfgs   == {"true", "input", "false"}

PrintableW(c)    == CASE c = "a" -> 1 [] c = "P" -> 128 [] c = "big" -> 128 * (MaxLen + 1) [] OTHER -> 0
NonPrintableW(c) == IF c \in {"NUL", "ctl", "Z"} THEN 1 ELSE 0

(* ---------------- gather_stats: a transcription of the C loop ---------------- *)
Stat0 == [nul |-> 0, lonecr |-> 0, lonelf |-> 0, crlf |-> 0, printable |-> 0, nonprintable |-> 0]

RECURSIVE GatherFrom(_, _, _)
GatherFrom(s, i, st) ==
  IF i > Len(s) THEN st
  ELSE LET c == s[i] IN
    IF c = "CR" THEN
      IF i + 1 <= Len(s) /\ s[i+1] = "LF"
        THEN GatherFrom(s, i + 2, [st EXCEPT !.crlf = @ + 1])          \* stats->crlf++; i++; continue
        ELSE GatherFrom(s, i + 1, [st EXCEPT !.lonecr = @ + 1])
    ELSE IF c = "LF" THEN GatherFrom(s, i + 1, [st EXCEPT !.lonelf = @ + 1])
    ELSE GatherFrom(s, i + 1, [st EXCEPT !.nul = @ + (IF c = "NUL" THEN 1 ELSE 0),
                                         !.printable = @ + PrintableW(c),
                                         !.nonprintable = @ + NonPrintableW(c)])

Gather(s) ==
  LET st == GatherFrom(s, 1, Stat0)
  IN  \* "If file ends with EOF then don't count this EOF as non-printable."
      IF Len(s) >= 1 /\ s[Len(s)] = "Z" THEN [st EXCEPT !.nonprintable = @ - 1] ELSE st

\* the same counts, stated declaratively (cross-checked against the loop by invariant StatsAgree)
CountIdx(s, P(_)) == Cardinality({i \in 1..Len(s) : P(i)})
DeclCRLF(s)   == CountIdx(s, LAMBDA i : s[i] = "CR" /\ i < Len(s) /\ s[i+1] = "LF")
DeclLoneCR(s) == CountIdx(s, LAMBDA i : s[i] = "CR" /\ ~(i < Len(s) /\ s[i+1] = "LF"))
DeclLoneLF(s) == CountIdx(s, LAMBDA i : s[i] = "LF" /\ ~(i > 1 /\ s[i-1] = "CR"))

(* ---------------- convert_is_binary ---------------- *)
Shr7(n) == n \div 128
IsBinary(st) == \/ st.lonecr > 0
                \/ st.nul > 0
                \/ Shr7(st.printable) < st.nonprintable

(* ---------------- the copy loops ---------------- *)
\* crlf_to_worktree: every LF that is not preceded by CR gets a CR in front
RECURSIVE LFtoCRLFFrom(_, _)
LFtoCRLFFrom(s, i) ==
  IF i > Len(s) THEN <<>>
  ELSE IF s[i] = "LF" /\ ~(i > 1 /\ s[i-1] = "CR")
       THEN <<"CR", "LF">> \o LFtoCRLFFrom(s, i + 1)
       ELSE <<s[i]>> \o LFtoCRLFFrom(s, i + 1)
LFtoCRLF(s) == LFtoCRLFFrom(s, 1)

\* crlf_to_git, guessed (auto) case: "we can strip a CR without looking at what follows it"
StripCR(s) == SelectSeq(s, LAMBDA c : c # "CR")

\* crlf_to_git, declared-text case: drop a CR only when an LF follows
RECURSIVE CRLFtoLFFrom(_, _)
CRLFtoLFFrom(s, i) ==
  IF i > Len(s) THEN <<>>
  ELSE IF s[i] = "CR" /\ i < Len(s) /\ s[i+1] = "LF"
       THEN CRLFtoLFFrom(s, i + 1)
       ELSE <<s[i]>> \o CRLFtoLFFrom(s, i + 1)
CRLFtoLF(s) == CRLFtoLFFrom(s, 1)

(* ---------------- decisions ---------------- *)
\* crlf_action for a path without attributes: autocrlf=false -> CRLF_BINARY,
\* true -> CRLF_AUTO_CRLF, input -> CRLF_AUTO_INPUT.  output_eol: AUTO_CRLF -> CRLF, AUTO_INPUT -> LF.
OutputEolIsCRLF(cfg) == cfg = "true"
IsAuto(cfg)          == cfg \in {"true", "input"}

WillConvertLFtoCRLF(st, cfg) ==
  /\ OutputEolIsCRLF(cfg)
  /\ st.lonelf > 0                                   \* No "naked" LF? Nothing to convert
  /\ IsAuto(cfg) => /\ ~(st.lonecr > 0 \/ st.crlf > 0)   \* any CR or CRLF line endings: do not touch it
                    /\ ~IsBinary(st)

ToWorktree(s, cfg) ==
  IF Len(s) = 0 \/ ~OutputEolIsCRLF(cfg) THEN s
  ELSE IF WillConvertLFtoCRLF(Gather(s), cfg) THEN LFtoCRLF(s) ELSE s

\* has_crlf_in_index: the blob in the index has a CR, is not binary and has a CRLF
HasCRLFInIndex(b) ==
  /\ \E i \in 1..Len(b) : b[i] = "CR"
  /\ LET st == Gather(b) IN ~IsBinary(st) /\ st.crlf > 0

ToGit(w, cfg, idxcrlf) ==
  IF cfg = "false" \/ Len(w) = 0 THEN w               \* CRLF_BINARY || (src && !len)
  ELSE LET st == Gather(w) IN
       IF st.crlf = 0 THEN w                          \* No CRLF? Nothing to convert
       ELSE IF IsBinary(st) THEN w
       ELSE IF idxcrlf THEN w                         \* index version has CRLF: do not convert
       ELSE StripCR(w)

\* attribute "text eol=crlf" (CRLF_TEXT_CRLF): no guessing, no index rule
ToWorktreeText(s) == IF Len(s) = 0 \/ Gather(s).lonelf = 0 THEN s ELSE LFtoCRLF(s)
ToGitText(w)      == IF Len(w) = 0 \/ Gather(w).crlf = 0 THEN w ELSE CRLFtoLF(w)

\* `git ls-files --eol` class of a blob (gather_convert_stats / convert_stats_ascii)
EolClass(s) ==
  IF Len(s) = 0 THEN "none"
  ELSE LET st == Gather(s) IN
       IF IsBinary(st) THEN "-text"
       ELSE IF st.crlf > 0 /\ st.lonelf > 0 THEN "mixed"
       ELSE IF st.crlf > 0 THEN "crlf"
       ELSE IF st.lonelf > 0 THEN "lf"
       ELSE "none"

(* ---------------- table ---------------- *)
\* "=" encodes "output equals input" (keeps the table small); anything else is the output string
Enc(in, out) == IF out = in THEN "=" ELSE out

\* spec-level class of the input, used in finding signatures
Tags(s) == LET st == Gather(s) IN
  (IF st.nul > 0 THEN {"nul"} ELSE {}) \cup (IF st.lonecr > 0 THEN {"lonecr"} ELSE {}) \cup
  (IF st.lonelf > 0 THEN {"lonelf"} ELSE {}) \cup (IF st.crlf > 0 THEN {"crlf"} ELSE {}) \cup
  (IF IsBinary(st) THEN {"binary"} ELSE {"text"})
TagSeq(s) == SetToSortSeq(Tags(s), LAMBDA x, y : TRUE)

Row(s) ==
  LET st == Gather(s) IN
  [s    |-> s,
   st   |-> st,
   bin  |-> IsBinary(st),
   cls  |-> EolClass(s),
   tags |-> TagSeq(s),
   hci  |-> HasCRLFInIndex(s),
   wt   |-> [c \in Cfgs |-> Enc(s, ToWorktree(s, c))],
   g0   |-> [c \in Cfgs |-> Enc(s, ToGit(s, c, FALSE))],
   g1   |-> [c \in Cfgs |-> Enc(s, ToGit(s, c, TRUE))],
   \* round trip: blob s is checked out, the worktree file is added back while s is in the index
   rt   |-> [c \in Cfgs |-> Enc(s, ToGit(ToWorktree(s, c), c, HasCRLFInIndex(s)))],
   kw   |-> Enc(s, ToWorktreeText(s)),
   kg   |-> Enc(s, ToGitText(s)),
   kl   |-> Enc(s, LFtoCRLF(s)),
   ks   |-> Enc(s, StripCR(s))]

ASSUME Emit => ndJsonSerialize("eol_rows.ndjson", SetToSeq({Row(s) : s \in Domain}))

(* ---------------- states and theorems ---------------- *)
VARIABLES str, cfg
vars == <<str, cfg>>
Init == str \in Domain /\ cfg \in Cfgs
Next == UNCHANGED vars
Spec == Init /\ [][Next]_vars

St  == Gather(str)
WT  == ToWorktree(str, cfg)

\* the property's round trip: checkout, then add of the unchanged file, stores the same blob
RoundTrip == ToGit(WT, cfg, HasCRLFInIndex(str)) = str
\* adding a normalised blob's checkout to a fresh index gives it back when it has no CR at all
RoundTripFresh == (\A i \in 1..Len(str) : str[i] # "CR") => ToGit(WT, cfg, FALSE) = str
\* the loop and the declarative counts agree
StatsAgree == /\ St.crlf = DeclCRLF(str) /\ St.lonecr = DeclLoneCR(str) /\ St.lonelf = DeclLoneLF(str)
              /\ St.nonprintable >= 0
\* binary content is never touched, in either direction, under any setting
BinaryUntouched == IsBinary(St) => /\ WT = str /\ ToGit(str, cfg, FALSE) = str /\ ToGit(str, cfg, TRUE) = str
\* only autocrlf=true changes bytes on checkout; false changes nothing at all
OnlyTrueConverts == /\ cfg # "true" => WT = str
                    /\ cfg = "false" => ToGit(str, cfg, FALSE) = str
\* safe-crlf: checkout changes bytes only for content without any CR, and leaves no lone LF
SafeCRLF == WT # str => /\ \A i \in 1..Len(str) : str[i] # "CR"
                        /\ Gather(WT).lonelf = 0 /\ Gather(WT).lonecr = 0
                        /\ ~IsBinary(Gather(WT))
\* why "strip a CR without looking" is right: without lone CR both loops agree
StripJustified == St.lonecr = 0 => StripCR(str) = CRLFtoLF(str)
\* add is idempotent and (fresh index) leaves no CRLF in text
AddIdempotent == LET g == ToGit(str, cfg, FALSE) IN
                 /\ ToGit(g, cfg, FALSE) = g
                 /\ (IsAuto(cfg) /\ ~IsBinary(St)) => Gather(g).crlf = 0
\* the kernels invert each other on CRLF-free input
KernelInverse == St.crlf = 0 => CRLFtoLF(LFtoCRLF(str)) = str
\* the index rule only ever applies to text with CRLF
IndexRule == HasCRLFInIndex(str) <=> (EolClass(str) \in {"crlf", "mixed"})
=============================================================================
