------------------------------ MODULE TreeJail ------------------------------
(* C26: worktree operations never touch paths outside the worktree or in .git.

   Model half: attack scenarios are enumerated here (every scenario is a TLC state) and handed to the
   harness, which writes them as RAW tree objects / planted symlinks and drives the real worktree API.
   A scenario = [c1, c2, planted, ntfs, hfs]:
     c2       the entries of the commit that is checked out (paths of <= MaxDepth components + a kind)
     c1       an earlier commit checked out first (symlink-then-directory swaps), possibly empty
     planted  symbolic links already present in the worktree before any operation
     ntfs,hfs core.protectNTFS / core.protectHFS
   Components are tokens; disguised spellings of .git are single tokens ("<dotgit-sp>" = ".git " ...).
   Forbidden(c, ntfs, hfs): the component may not be created / traversed by a worktree operation
   (git's verify_path: .git in any case always; NTFS forms under protectNTFS; HFS forms under protectHFS).
   The judgement of recorded footprints is in TreeJailTrace.                                          *)
EXTENDS PathJail, Json, IOUtils, SequencesExt

CONSTANTS MaxDepth, EmitRows

WT == <<"wt">>
DotGitCase == {".git", ".GIT", ".Git"}
DotGitNTFS == {"<git~1>", "<dotgit-sp>", "<dotgit-dot>", "<dotgit-ads>"}
DotGitHFS  == {"<dotgit-zw>"}
Forbidden(c, ntfs, hfs) == c \in DotGitCase \/ (ntfs /\ c \in DotGitNTFS) \/ (hfs /\ c \in DotGitHFS)

\* components of attack paths
Comp == {"a", "b", ".git", ".GIT", "<git~1>", "<dotgit-sp>", "<dotgit-dot>", "<dotgit-ads>", "<dotgit-zw>", "..", ".", "lnk", "hooks"}
\* every component class also in a middle position (a/<c>/hooks), whatever MaxDepth is
Deep  == {<<"a", c, "hooks">> : c \in Comp}
Paths == UNION {[1..k -> Comp] : k \in 1..MaxDepth} \cup Deep

\* link targets (relative to the link's directory)
Targets == {<<".git">>, <<"..", "outside">>, <<"a">>, <<".git", "hooks">>, <<"..">>}

File(p) == [path |-> p, kind |-> "file", target |-> <<>>]
Link(p, t) == [path |-> p, kind |-> "link", target |-> t]

\* 1. a single malicious entry (file) at every path, 2. a symlink entry at short paths with every target,
\* 3. planted symlink "lnk" + an entry below it, 4. swap: c1 has symlink lnk -> t, c2 has lnk/<x> as a file
Single  == {[c1 |-> <<>>, c2 |-> <<File(p)>>, planted |-> <<>>] : p \in Paths}
SymEnt  == {[c1 |-> <<>>, c2 |-> <<Link(p, t), File(<<"a">>)>>, planted |-> <<>>] : p \in {q \in Paths : Len(q) <= 2}, t \in Targets}
Below   == {p \in Paths : Len(p) >= 2 /\ p[1] = "lnk"}
Planted == {[c1 |-> <<>>, c2 |-> <<File(p)>>, planted |-> <<[at |-> <<"lnk">>, to |-> t]>>] : p \in Below, t \in Targets}
Swap    == {[c1 |-> <<Link(<<"lnk">>, t), File(<<"a">>)>>, c2 |-> <<File(p), File(<<"a">>)>>, planted |-> <<>>] : p \in Below, t \in Targets}
\* a symlink entry and a file below it in the SAME commit
Same    == {[c1 |-> <<>>, c2 |-> <<Link(<<"lnk">>, t), File(p)>>, planted |-> <<>>] : p \in Below, t \in Targets}
\* a planted link in the FINAL position of an entry (the entry itself is "lnk"), pointing at files and directories
FileTargets == {<<".git", "decoy">>, <<"..", "outside", "secret">>}
PlantedFinal == {[c1 |-> <<>>, c2 |-> <<e, File(<<"a">>)>>, planted |-> <<[at |-> <<"lnk">>, to |-> t]>>] :
                    e \in {File(<<"lnk">>), Link(<<"lnk">>, <<"a">>)}, t \in Targets \cup FileTargets}
\* a DANGLING planted link in the final position: its target does not exist when the operation starts (so a
\* Stat of the entry says "not there" although the link is), pointing into .git and outside the worktree
DanglingTargets == {<<".git", "hooks", "post-checkout">>, <<"..", "outside", "new-file">>, <<".git", "new-file">>}
DanglingAt == {<<"lnk">>, <<"b", "lnk">>}
DanglingTo(p) == {IF Len(p) = 1 THEN d ELSE <<"..">> \o d : d \in DanglingTargets}
DanglingFinal == UNION {{[c1 |-> <<>>, c2 |-> <<File(p), File(<<"a">>)>>, planted |-> <<[at |-> p, to |-> t]>>] : t \in DanglingTo(p)} :
                          p \in DanglingAt}
Shapes  == Single \cup SymEnt \cup Planted \cup Swap \cup Same \cup PlantedFinal \cup DanglingFinal
Scenarios == {[c1 |-> s.c1, c2 |-> s.c2, planted |-> s.planted, ntfs |-> n, hfs |-> h] : s \in Shapes, n \in BOOLEAN, h \in BOOLEAN}

\* scenario key for finding signatures (first that applies)
AllComps(s) == UNION {{e.path[i] : i \in 1..Len(e.path)} : e \in {s.c2[j] : j \in 1..Len(s.c2)} \cup {s.c1[j] : j \in 1..Len(s.c1)}}
Key(s) == IF s.planted # <<>> /\ s.c2[1].path = s.planted[1].at /\ s.planted[1].to[Len(s.planted[1].to)] \in {"post-checkout", "new-file"}
             THEN "planted-dangling-final"
          ELSE IF s.planted # <<>> /\ s.c2[1].path = <<"lnk">> THEN "planted-symlink-final"
          ELSE IF s.planted # <<>> THEN "planted-symlink"
          ELSE IF s.c1 # <<>> THEN "symlink-then-dir-swap"
          ELSE IF \E j \in 1..Len(s.c2) : s.c2[j].kind = "link" /\ Len(s.c2) = 2 /\ s.c2[2].path # <<"a">> THEN "symlink-and-child-in-one-tree"
          ELSE IF ".." \in AllComps(s) THEN "dotdot"
          ELSE IF AllComps(s) \cap {".git"} # {} THEN "dotgit"
          ELSE IF AllComps(s) \cap {".GIT"} # {} THEN "dotgit-case"
          ELSE IF AllComps(s) \cap DotGitNTFS # {} THEN "dotgit-ntfs"
          ELSE IF AllComps(s) \cap DotGitHFS # {} THEN "dotgit-hfs"
          ELSE IF \E j \in 1..Len(s.c2) : s.c2[j].kind = "link" THEN "symlink-entry"
          ELSE IF "." \in AllComps(s) THEN "dot"
          ELSE "plain"

\* does the scenario contain anything a checkout has to refuse or neutralise?
EntryBad(e, n, h) == \E i \in 1..Len(e.path) : e.path[i] \in {"..", "."} \/ Forbidden(e.path[i], n, h)
Benign(s) == /\ s.planted = <<>> /\ s.c1 = <<>>
             /\ \A j \in 1..Len(s.c2) : ~EntryBad(s.c2[j], s.ntfs, s.hfs) /\ s.c2[j].kind = "file"

Row(s) == [c1 |-> s.c1, c2 |-> s.c2, planted |-> s.planted, ntfs |-> s.ntfs, hfs |-> s.hfs, key |-> Key(s), benign |-> Benign(s)]
ASSUME EmitRows => ndJsonSerialize("treejail_rows.ndjson", SetToSeq({Row(s) : s \in Scenarios}))

\* ---- submodule scenarios: a .gitmodules with name / path taken from the sets below, a gitlink entry at the
\* path, optionally a planted symlink; driven through Submodules(), Submodule.Init and Submodule.Repository
SubNames == {<<"sub">>, <<"..", "evil">>, <<"..", "..", "evil">>, <<"a", "..", "..", "evil">>, <<".git">>, <<"..">>,
             <<"sub", "..", "..", "..", "..", "outside">>, <<"<dotgit-sp>">>}
SubPaths == {<<"sub">>, <<"..", "outside">>, <<".git", "hooks">>, <<".git">>, <<"a", ".git">>, <<"lnk">>, <<"lnk", "x">>, <<".GIT", "x">>}
SubPlants == {<<>>, <<[at |-> <<"lnk">>, to |-> <<"..", "outside">>]>>, <<[at |-> <<"lnk">>, to |-> <<".git">>]>>}
SubKey(n, p, pl) == IF n # <<"sub">> THEN "submodule-name" ELSE IF pl # <<>> THEN "submodule-path-symlink"
                    ELSE IF p # <<"sub">> THEN "submodule-path" ELSE "submodule-plain"
SubScenarios == {[name |-> n, path |-> p, planted |-> pl, ntfs |-> b, hfs |-> FALSE, key |-> SubKey(n, p, pl)] :
                    n \in SubNames, p \in SubPaths, pl \in SubPlants, b \in BOOLEAN}
ASSUME EmitRows => ndJsonSerialize("treejail_subs.ndjson", SetToSeq(SubScenarios))

\* the storage side of a submodule operation: requests made on the repository's storage filesystem must stay
\* inside the git dir; requests made on a module filesystem (a Chroot child) must stay below .git/modules/<x>
GD  == WT \o <<".git">>
MOD == GD \o <<"modules">>
StoreLocOK(res, onModule) == Inside(res, GD) /\ (onModule => (Inside(res, MOD) /\ Len(res.p) > Len(MOD)))

VARIABLE sc
Init == sc \in Scenarios
Next == UNCHANGED sc

\* ---- the footprint predicate (used by TreeJailTrace; stated here so that theorems can be checked on it)
\* loc: a location; inside the worktree, and no component below the worktree root is a forbidden one,
\* except that the LAST component of a deeper path may be ".git" or a spelling of it (the position of a
\* submodule's gitlink file "sub/.git": touching that file is not touching the inside of a git directory).
NoDotGit(loc, n, h) == LET t == Strip(WT, loc) IN
   \A i \in 1..Len(t) : Forbidden(t[i], n, h) => (i = Len(t) /\ i > 1)
LocOK(r, n, h) == Inside(r, WT) /\ NoDotGit(r.p, n, h)

\* theorems on the scenario space: an entry path that is lexically fine and has no link below it is OK under
\* both readings; every non-benign Single scenario is caught by LocOK of the lexical reading
BenignIsOK == Benign(sc) => \A j \in 1..Len(sc.c2) : LocOK(Lex(WT \o sc.c2[j].path), sc.ntfs, sc.hfs)
BadSingleIsNotOK == (sc.c1 = <<>> /\ sc.planted = <<>> /\ Len(sc.c2) = 1 /\ EntryBad(sc.c2[1], sc.ntfs, sc.hfs)
                      /\ \A i \in 1..Len(sc.c2[1].path) : sc.c2[1].path[i] \notin {"."})
                    => \/ ~LocOK(Lex(WT \o sc.c2[1].path), sc.ntfs, sc.hfs)
                       \/ \E i \in 1..Len(sc.c2[1].path) : sc.c2[1].path[i] = ".."     \* a/.. is lexically harmless
                       \/ LET p == sc.c2[1].path IN Len(p) > 1 /\ \A i \in 1..Len(p)-1 : ~Forbidden(p[i], sc.ntfs, sc.hfs)   \* only the tolerated gitlink-file position
=============================================================================
