----------------------------- MODULE IdentCodec -----------------------------
(* git's reading of an identity line (the text after "author " / "committer " / "tagger "):
   ident.c split_ident_line, and how pretty.c (git log --format=%an %ae %ad) reports the parts.

   A line is a sequence of symbol classes:
     "w" a word without blanks or angle brackets      "sp" one space      "lt" '<'    "gt" '>'
     "num" a decimal timestamp    "big" a 13 digit timestamp     "neg" a negative number ("-5")
     "zp" +hhmm   "zm" -hhmm   "zmz" -0000   "z9" +9999   "z3" +hhm (three digits)
   The harness renders each symbol to concrete text; positions of the returned parts refer to
   the symbols of the line.                                                              *)
EXTENDS Naturals, Sequences, FiniteSets, TLC, Json, IOUtils, SequencesExt

CONSTANTS Emit

Names  == {<<>>, <<"w">>, <<"w", "sp", "w">>, <<"sp", "w">>, <<"w", "gt", "w">>}
Sep    == {<<"sp">>, <<>>, <<"sp", "sp">>}
Emails == {<<"lt", "w", "gt">>, <<"lt", "gt">>, <<"lt", "w", "lt", "w", "gt">>, <<"lt", "w", "gt", "gt">>,
           <<"lt", "w", "gt", "w", "gt">>, <<"w">>, <<"lt", "w">>, <<"lt", "w", "sp", "w", "gt">>}
Dates  == {<<"num", "sp", "zp">>, <<"num", "sp", "zm">>, <<"num", "sp", "zmz">>, <<"num", "sp", "z9">>,
           <<"num">>, <<>>, <<"neg", "sp", "zp">>, <<"big", "sp", "zp">>, <<"num", "sp", "w">>,
           <<"num", "sp", "sp", "zp">>, <<"w", "sp", "zp">>, <<"num", "zp">>, <<"num", "sp", "z3">>,
           <<"num", "sp", "zp", "sp", "w">>}
Domain == {n \o s1 \o e \o s2 \o d : n \in Names, s1 \in Sep, e \in Emails, s2 \in Sep, d \in Dates}

Digits == {"num", "big"}
Zones  == {"zp", "zm", "zmz", "z9", "z3"}
MaxOf(S) == CHOOSE m \in S : \A o \in S : o <= m
MinOf(S) == CHOOSE m \in S : \A o \in S : m <= o
Sub(l, a, b) == [i \in 1..(IF b >= a THEN b - a + 1 ELSE 0) |-> l[a + i - 1]]   \* l[a..b]

\* split_ident_line.  ok = FALSE: git reports nothing at all for this identity.
\* name = l[1..nameEnd], mail = l[mailBegin..mailEnd-1], date / tz = positions or 0.
Split(l) ==
  LET lts == {i \in 1..Len(l) : l[i] = "lt"} IN
  IF lts = {} THEN [ok |-> FALSE, name |-> <<>>, mail |-> <<>>, date |-> 0, tz |-> 0]
  ELSE
  LET lt == MinOf(lts)
      nonsp == {i \in 1..lt-1 : l[i] # "sp"}
      nameEnd == IF nonsp = {} THEN 0 ELSE MaxOf(nonsp)
      gts == {i \in lt+1..Len(l) : l[i] = "gt"}
  IN IF gts = {} THEN [ok |-> FALSE, name |-> <<>>, mail |-> <<>>, date |-> 0, tz |-> 0]
     ELSE
     LET mailEnd == MinOf(gts)
         lastgt == MaxOf({i \in 1..Len(l) : l[i] = "gt"})
         \* first position after lastgt that is not a space (Len+1 if none)
         skip(from) == MinOf({i \in from..Len(l)+1 : i = Len(l)+1 \/ l[i] # "sp"})
         d == skip(lastgt + 1)
         hasDate == d <= Len(l) /\ l[d] \in Digits
         z == IF hasDate THEN skip(d + 1) ELSE 0
         hasTz == hasDate /\ z <= Len(l) /\ l[z] \in Zones
     IN [ok |-> TRUE, name |-> Sub(l, 1, nameEnd), mail |-> Sub(l, lt + 1, mailEnd - 1),
         date |-> IF hasTz THEN d ELSE 0, tz |-> IF hasTz THEN z ELSE 0]

\* the canonical form "name <mail> ts +hhmm" that an encoder emits
NonCanon(l) ==
  LET s == Split(l) IN
  IF ~s.ok THEN "no-angle-brackets"
  ELSE IF s.date = 0 THEN "no-date"
  ELSE IF l # s.name \o <<"sp", "lt">> \o s.mail \o <<"gt", "sp", l[s.date], "sp", l[s.tz]>> THEN "spacing-or-extra-text"
  ELSE IF Len(s.name) > 0 /\ s.name[1] = "sp" THEN "spacing-or-extra-text"
  ELSE IF l[s.tz] \notin {"zp", "zm"} THEN "odd-zone"
  ELSE "canonical"

DateKey(l) == LET s == Split(l) IN
  IF ~s.ok THEN "unparsable" ELSE IF s.date = 0 THEN "person-only" ELSE l[s.date] \o "/" \o l[s.tz]

\* first structural peculiarity of the line (scenario key for finding signatures)
Shape(l) ==
  LET s == Split(l) IN
  IF ~s.ok THEN "no-angle-brackets"
  ELSE
  LET lt == MinOf({i \in 1..Len(l) : l[i] = "lt"})
      mailEnd == lt + Len(s.mail) + 1
      lastgt == MaxOf({i \in 1..Len(l) : l[i] = "gt"})
      tail == IF s.date # 0 THEN Sub(l, lastgt + 1, Len(l)) ELSE <<>>
  IN IF \E i \in 1..Len(s.mail) : s.mail[i] = "lt" THEN "lt-inside-mail"
     ELSE IF lastgt # mailEnd THEN "gt-after-mail"
     ELSE IF \E i \in 1..lt-1 : l[i] = "gt" THEN "gt-in-name"
     ELSE IF \E i \in 1..Len(s.mail) : s.mail[i] = "sp" THEN "blank-inside-mail"
     ELSE IF Sub(l, Len(s.name) + 1, lt) # <<"sp", "lt">> \/ (Len(s.name) > 0 /\ s.name[1] = "sp") THEN "blanks-around-name"
     ELSE IF s.date = 0 THEN "plain-person"
     ELSE IF tail # <<"sp", l[s.date], "sp", l[s.tz]>> THEN "date-spacing-or-trailing-text"
     ELSE "plain"

Row(l) == LET s == Split(l) IN
  [l |-> l, ok |-> s.ok, name |-> s.name, mail |-> s.mail, date |-> s.date, tz |-> s.tz,
   nc |-> NonCanon(l), dk |-> DateKey(l), shape |-> Shape(l)]

ASSUME Emit => ndJsonSerialize("ident_rows.ndjson", SetToSeq({Row(l) : l \in Domain}))

VARIABLES line
Init == line \in Domain
Next == UNCHANGED line
Spec == Init /\ [][Next]_line

\* name and mail never contain the brackets that delimit them; a date is always followed by its zone
PartsWellFormed ==
  LET s == Split(line) IN
  s.ok => /\ \A i \in 1..Len(s.name) : s.name[i] # "lt"
          /\ \A i \in 1..Len(s.mail) : s.mail[i] # "gt"
          /\ (s.date = 0 <=> s.tz = 0)
          /\ (s.date # 0 => s.date < s.tz /\ line[s.date] \in Digits /\ line[s.tz] \in Zones)
          /\ (Len(s.name) > 0 => s.name[Len(s.name)] # "sp")
\* canonical lines are fully consumed: every symbol belongs to exactly one part or is a delimiter
CanonicalConsumed ==
  NonCanon(line) = "canonical" =>
     LET s == Split(line) IN Len(line) = Len(s.name) + Len(s.mail) + 7
=============================================================================
