------------------------------ MODULE MCBlame ------------------------------
(* Model constants for Blame: hand-made histories and histories decoded from integer keys
   (5 commits, <= 2 ordered parents, 5 instants); `det` keys give the determinate class by construction
   (10 symbols, symbol s may only be introduced by commit ((s-1) % 5) + 1, versions are increasing),
   `any` keys give arbitrary versions over 3 symbols with duplicates and moves.                    *)
EXTENDS Blame

Dgt(x, base, i) == (x \div (base ^ (i - 1))) % base
BOpt == [i \in 1..5 |-> SetToSeq(InjSeqs(1..(i - 1), 2))]           \* 1, 2, 5, 10, 17 ordered parent lists
DagOf(k) == << <<>>, BOpt[2][(k % 2) + 1], BOpt[3][((k \div 2) % 5) + 1], BOpt[4][((k \div 10) % 10) + 1], BOpt[5][((k \div 100) % 17) + 1] >>
TmOf(k) == [i \in 1..5 |-> Dgt(k, 5, i) + 1]
RECURSIVE Asc(_)
Asc(S) == IF S = {} THEN <<>> ELSE LET m == CHOOSE x \in S : \A y \in S : x <= y IN <<m>> \o Asc(S \ {m})
Bit(k, i) == (k \div (2 ^ (i - 1))) % 2 = 1
Own(c) == {s \in 1..10 : ((s - 1) % 5) + 1 = c}
\* key <<dag, tm, keep1, keep2, new>>: keep bits (10 per commit, 2 commits per key ... 5 commits: keep1 has c2,c3; keep2 has c4,c5)
DetHist(k) ==
  LET par == DagOf(k[1])
      keep(c) == IF c <= 3 THEN {s \in 1..10 : Bit(k[3], (c - 2) * 10 + s)} ELSE {s \in 1..10 : Bit(k[4], (c - 4) * 10 + s)}
      new(c) == LET n == {s \in Own(c) : Bit(k[5], c * 2 - (IF s <= 5 THEN 1 ELSE 0))} IN n
      v[c \in 1..5] == LET inh == UNION {SeqRange(v[p]) : p \in SeqRange(par[c])}
                           got == (IF c = 1 THEN {} ELSE inh \cap keep(c)) \cup new(c)
                       IN Asc(IF got = {} THEN {c} ELSE got)        \* never an empty file; c \in Own(c)
  IN [par |-> par, tm |-> TmOf(k[2]), ver |-> [c \in 1..5 |-> v[c]]]
\* key <<dag, tm, v12, v34, v5>>: versions from base-4 digits over symbols 1..3 (0 = no line), 4 digits each
AnyHist(k) ==
  LET digs(c) == IF c <= 2 THEN [i \in 1..4 |-> Dgt(k[3], 4, (c - 1) * 4 + i)]
                 ELSE IF c <= 4 THEN [i \in 1..4 |-> Dgt(k[4], 4, (c - 3) * 4 + i)] ELSE [i \in 1..4 |-> Dgt(k[5], 4, i)]
      vv(c) == LET s == SelectSeq(digs(c), LAMBDA d : d # 0) IN IF s = <<>> THEN <<1>> ELSE s
  IN [par |-> DagOf(k[1]), tm |-> TmOf(k[2]), ver |-> [c \in 1..5 |-> vv(c)]]

\* key <<dag, tm, v123, v45>>: increasing versions over 6 symbols, any subset per commit (6 bits each): symbols are
\* introduced independently on several branches and re-introduced - the first-parent-determinate class
FPHist(k) ==
  LET bits(c) == IF c <= 3 THEN {s \in 1..6 : Bit(k[3], (c - 1) * 6 + s)} ELSE {s \in 1..6 : Bit(k[4], (c - 4) * 6 + s)}
  IN [par |-> DagOf(k[1]), tm |-> TmOf(k[2]), ver |-> [c \in 1..5 |-> Asc(IF bits(c) = {} THEN {c} ELSE bits(c))]]
\* both sides of a merge create the same lines independently; the second parent is the younger side
HBoth  == [par |-> << <<>>, <<1>>, <<2>>, <<1>>, <<3, 4>> >>, tm |-> <<1, 2, 3, 4, 5>>,
           ver |-> << <<5>>, <<1, 2, 5>>, <<1, 2, 3, 5>>, <<1, 2, 4, 5>>, <<1, 2, 3, 4, 5>> >>]
\* DIAMOND histories (first-parent-determinate by construction): a file of L = 6..8 positions; position i holds one
\* of three variants of its line, symbol 3(i-1)+v+1 for v = 0 (base text), 1, 2 - so every version is increasing.
\* A commit with one parent keeps the parent's variant of a position or rewrites it to variant 1 or 2; a merge takes,
\* per position, the first parent's variant, the second parent's, or RESTORES THE BASE TEXT (variant 0): the common
\* ancestor is then reached through both parents with different, overlapping sets of needed lines.
\* key <<shape+len, tm, d2, d3, d4, d5>>: one base-4 digit per position and commit (4^8 < 2^20).
DShapes == << << <<>>, <<1>>, <<1>>, <<2, 3>>, <<4>> >>,       \* B; P1; P2; M = (P1, P2); child of M
              << <<>>, <<1>>, <<1>>, <<3, 2>>, <<4>> >>,       \* M = (P2, P1)
              << <<>>, <<1>>, <<2>>, <<1>>, <<3, 4>> >>,       \* B; A1; P1 = child of A1; P2; M = (P1, P2)
              << <<>>, <<1>>, <<2>>, <<1>>, <<4, 3>> >>,       \* M = (P2, P1)
              << <<>>, <<1>>, <<1>>, <<2, 3>>, <<4, 1>> >> >>  \* a second merge with the base itself
DiamondHist(k) ==
  LET par == DShapes[(k[1] % 5) + 1]
      L == 6 + ((k[1] \div 5) % 3)
      dg(c, i) == Dgt(k[c + 1], 4, i)
      v[c \in 1..5] ==        \* v[c][i]: the variant of position i in commit c
        IF par[c] = <<>> THEN [i \in 1..L |-> 0]
        ELSE IF Len(par[c]) = 1
          THEN [i \in 1..L |-> IF dg(c, i) <= 1 THEN v[par[c][1]][i] ELSE dg(c, i) - 1]
          ELSE [i \in 1..L |-> IF dg(c, i) = 0 THEN 0 ELSE IF dg(c, i) = 2 THEN v[par[c][2]][i] ELSE v[par[c][1]][i]]
  IN [par |-> par, tm |-> TmOf(k[2]), ver |-> [c \in 1..5 |-> [i \in 1..L |-> 3 * (i - 1) + v[c][i] + 1]]]
\* the diamond of the seeded demo: P1 rewrites positions 2 and 6, P2 positions 4 and 7; the merge keeps P1's 6 and
\* P2's 4 and restores 2 and 7 to the base text
HDiamond == [par |-> << <<>>, <<1>>, <<1>>, <<2, 3>> >>, tm |-> <<1, 2, 3, 4>>,
             ver |-> << <<1, 4, 7, 10, 13, 16, 19, 22>>, <<1, 5, 7, 10, 13, 17, 19, 22>>, <<1, 4, 7, 12, 13, 16, 21, 22>>,
                        <<1, 4, 7, 12, 13, 17, 19, 22>> >>]
\* hand-made: a move, a duplicate, a revert, an unchanged merge, a merge that keeps both sides
HMove  == [par |-> << <<>>, <<1>>, <<2>> >>, tm |-> <<1, 2, 3>>, ver |-> << <<1, 2, 3>>, <<2, 3, 1>>, <<2, 3, 1, 1>> >>]
HRevert == [par |-> << <<>>, <<1>>, <<2>>, <<3>> >>, tm |-> <<1, 2, 3, 4>>, ver |-> << <<1, 2>>, <<1>>, <<1, 2>>, <<1, 2>> >>]
HMerge == [par |-> << <<>>, <<1>>, <<1>>, <<2, 3>>, <<4>> >>, tm |-> <<1, 3, 2, 4, 5>>,
           ver |-> << <<3, 6>>, <<2, 3, 6>>, <<3, 6, 8>>, <<2, 3, 4, 6, 8>>, <<2, 3, 4, 8, 10>> >>]
HSame  == [par |-> << <<>>, <<1>>, <<1>>, <<3, 2>> >>, tm |-> <<1, 2, 2, 3>>, ver |-> << <<1>>, <<1, 2>>, <<1, 3>>, <<1, 2>> >>]
MCFixedH == <<HMove, HRevert, HMerge, HSame, HBoth, HDiamond>>
=============================================================================
