------------------------------ MODULE MCBlame ------------------------------
(* Model constants for Blame: hand-made histories and histories decoded from integer keys
   (5 commits, <= 2 ordered parents, 5 instants); `det` keys give the determinate class by construction
   (10 symbols, symbol s may only be introduced by commit ((s-1) % 5) + 1, versions are increasing),
   `any` keys give arbitrary versions over 3 symbols with duplicates and moves.                    *)
EXTENDS Blame

Dgt(x, base, i) == (x \div (base ^ (i - 1))) % base
BOpt == [i \in 1..5 |-> SetToSeq(InjSeqs(1..(i - 1), 2))]           \* 1, 2, 5, 10, 17 ordered parent lists
DagOf(k) == << <<>>, BOpt[2][(k % 2) + 1], BOpt[3][((k \div 2) % 5) + 1], BOpt[4][((k \div 10) % 10) + 1], BOpt[5][((k \div 100) % 17) + 1] >>
TmOf(k) == [i \in 1..5 |-> Dgt(k, 5, i) + 1]
RECURSIVE Asc(_)
Asc(S) == IF S = {} THEN <<>> ELSE LET m == CHOOSE x \in S : \A y \in S : x <= y IN <<m>> \o Asc(S \ {m})
Bit(k, i) == (k \div (2 ^ (i - 1))) % 2 = 1
Own(c) == {s \in 1..10 : ((s - 1) % 5) + 1 = c}
\* key <<dag, tm, keep1, keep2, new>>: keep bits (10 per commit, 2 commits per key ... 5 commits: keep1 has c2,c3; keep2 has c4,c5)
DetHist(k) ==
  LET par == DagOf(k[1])
      keep(c) == IF c <= 3 THEN {s \in 1..10 : Bit(k[3], (c - 2) * 10 + s)} ELSE {s \in 1..10 : Bit(k[4], (c - 4) * 10 + s)}
      new(c) == LET n == {s \in Own(c) : Bit(k[5], c * 2 - (IF s <= 5 THEN 1 ELSE 0))} IN n
      v[c \in 1..5] == LET inh == UNION {SeqRange(v[p]) : p \in SeqRange(par[c])}
                           got == (IF c = 1 THEN {} ELSE inh \cap keep(c)) \cup new(c)
                       IN Asc(IF got = {} THEN {c} ELSE got)        \* never an empty file; c \in Own(c)
  IN [par |-> par, tm |-> TmOf(k[2]), ver |-> [c \in 1..5 |-> v[c]]]
\* key <<dag, tm, v12, v34, v5>>: versions from base-4 digits over symbols 1..3 (0 = no line), 4 digits each
AnyHist(k) ==
  LET digs(c) == IF c <= 2 THEN [i \in 1..4 |-> Dgt(k[3], 4, (c - 1) * 4 + i)]
                 ELSE IF c <= 4 THEN [i \in 1..4 |-> Dgt(k[4], 4, (c - 3) * 4 + i)] ELSE [i \in 1..4 |-> Dgt(k[5], 4, i)]
      vv(c) == LET s == SelectSeq(digs(c), LAMBDA d : d # 0) IN IF s = <<>> THEN <<1>> ELSE s
  IN [par |-> DagOf(k[1]), tm |-> TmOf(k[2]), ver |-> [c \in 1..5 |-> vv(c)]]

\* key <<dag, tm, v123, v45>>: increasing versions over 6 symbols, any subset per commit (6 bits each): symbols are
\* introduced independently on several branches and re-introduced - the first-parent-determinate class
FPHist(k) ==
  LET bits(c) == IF c <= 3 THEN {s \in 1..6 : Bit(k[3], (c - 1) * 6 + s)} ELSE {s \in 1..6 : Bit(k[4], (c - 4) * 6 + s)}
  IN [par |-> DagOf(k[1]), tm |-> TmOf(k[2]), ver |-> [c \in 1..5 |-> Asc(IF bits(c) = {} THEN {c} ELSE bits(c))]]
\* both sides of a merge create the same lines independently; the second parent is the younger side
HBoth  == [par |-> << <<>>, <<1>>, <<2>>, <<1>>, <<3, 4>> >>, tm |-> <<1, 2, 3, 4, 5>>,
           ver |-> << <<5>>, <<1, 2, 5>>, <<1, 2, 3, 5>>, <<1, 2, 4, 5>>, <<1, 2, 3, 4, 5>> >>]
\* hand-made: a move, a duplicate, a revert, an unchanged merge, a merge that keeps both sides
HMove  == [par |-> << <<>>, <<1>>, <<2>> >>, tm |-> <<1, 2, 3>>, ver |-> << <<1, 2, 3>>, <<2, 3, 1>>, <<2, 3, 1, 1>> >>]
HRevert == [par |-> << <<>>, <<1>>, <<2>>, <<3>> >>, tm |-> <<1, 2, 3, 4>>, ver |-> << <<1, 2>>, <<1>>, <<1, 2>>, <<1, 2>> >>]
HMerge == [par |-> << <<>>, <<1>>, <<1>>, <<2, 3>>, <<4>> >>, tm |-> <<1, 3, 2, 4, 5>>,
           ver |-> << <<3, 6>>, <<2, 3, 6>>, <<3, 6, 8>>, <<2, 3, 4, 6, 8>>, <<2, 3, 4, 8, 10>> >>]
HSame  == [par |-> << <<>>, <<1>>, <<1>>, <<3, 2>> >>, tm |-> <<1, 2, 2, 3>>, ver |-> << <<1>>, <<1, 2>>, <<1, 3>>, <<1, 2>> >>]
MCFixedH == <<HMove, HRevert, HMerge, HSame, HBoth>>
=============================================================================
