------------------------------ MODULE Revision ------------------------------
(* gitrevisions(7) as implemented by git's object-name.c (get_oid_1, get_oid_basic,
   repo_dwim_ref, get_short_oid, get_parent, get_nth_ancestor, peel_onion,
   get_oid_oneline), transcribed over small abstract repositories.  C47.

   The observation is  `git rev-parse --verify --quiet '<rev>^{commit}'`; go-git's
   Repository.ResolveRevision(<rev>) must return the same commit, and where git finds
   <rev> ambiguous or unresolvable go-git must not return a commit.

   A REPOSITORY  R  is a record
     par   ordered parent sequences (a member of DagUniverse!DagSeqs), commits are 1..Len(par)
     tm    committer instants (ties and children older than parents allowed)
     msg   commit -> message class  ("fix", "fix2", "feat")
     tagA  the commit the annotated tag object TA points at; the tag object TB points at TA
           (nested tag); TR is the tree of commit 1 (a ref may point at a tree)
     refs  function  full reference name -> target,  a name is a sequence of components,
           a target is [k |-> "obj", o |-> object, s |-> <<>>] or [k |-> "sym", o |-> 0, s |-> name]
     twinC commits that have an unreachable twin COMMIT sharing exactly their first 4 hex digits
     twinB commits that have a twin BLOB sharing exactly their first 4 hex digits
   Hex digits are not modelled: the component "#<o><f>" stands for "the hexadecimal name of
   object o in form f" where f is  full (40 digits), p7/p5/p4 (prefix of that many digits),
   p3 (below git's minimum abbreviation), u7/u5 (upper-case prefix), w5/w7 (the first 4 / 6 digits of
   the object followed by a digit that is NOT its next digit nor any other object's: an odd-length
   abbreviation naming nothing; the harness prefers a digit whose bits are a subset of the real one); twins agree on the first
   4 digits and differ in the 5th (so p5 must look at the odd digit to tell them apart).  A ref may be *named* by such a component
   (a branch called like an abbreviated commit id).  The harness renders the symbols after it
   has created the objects (harness/cmd/vhdag2/c47.go).

   An EXPRESSION is [n |-> typed name (components), s |-> sequence of suffix tokens].     *)
EXTENDS DagUniverse, Integers, TLC, Json, SequencesExt

CONSTANTS Repos,      \* sequence of repositories
          Sfx,        \* set of suffix tokens enumerated (subset of DOMAIN SfxInfo)
          MaxSfx,     \* maximal number of suffixes per expression
          SfxWide,    \* a larger token set, enumerated in sequences of length <= 2 only
          Emit        \* TRUE: write revision_rows.ndjson / revision_repos.ndjson

\* TLC re-evaluates an overridden CONSTANT at every reference but caches a defined constant:
\* everything below refers to these three definitions only.
RepoSeq == Repos
SfxSet  == Sfx
Depth   == MaxSfx
WideSet == SfxWide

TA == 6   TB == 7   TR == 8          \* non-commit objects (commits are 1..5)
Obj(o) == [k |-> "obj", o |-> o, s |-> <<>>]
Sym(n) == [k |-> "sym", o |-> 0, s |-> n]

MinOf(S) == CHOOSE x \in S : \A y \in S : x <= y

\* ------------------------------------------------------------------ objects
NC(R) == Len(R.par)
IsCommit(R, o) == o \in 1..NC(R)
\* ^{commit}: peel annotated tags, then require a commit  (0 = error)
Peel(R, o)     == IF IsCommit(R, o) THEN o ELSE IF o \in {TA, TB} THEN R.tagA ELSE 0
\* ^{}: peel tags until a non-tag
PeelTags(R, o) == IF o \in {TA, TB} THEN R.tagA ELSE o
KindOf(R, o)   == IF IsCommit(R, o) THEN "commit" ELSE IF o = TA THEN "tag" ELSE IF o = TB THEN "nested-tag"
                  ELSE IF o = TR THEN "tree" ELSE "none"

\* ------------------------------------------------------------------ hex names
Forms == {"full", "p7", "p5", "p4", "p3", "u7", "u5", "w5", "w7"}
HexObjs == {1, 2, 3, TA}
HexTable == [x \in HexObjs \X Forms |-> "#" \o ToString(x[1]) \o x[2]]
HexSyms == {HexTable[x] : x \in HexObjs \X Forms}
HexInfoF == [h \in HexSyms |-> LET x == CHOOSE y \in HexObjs \X Forms : HexTable[y] = h IN [o |-> x[1], f |-> x[2]]]
HexInfo(h) == HexInfoF[h]
Hex(o, f) == HexTable[<<o, f>>]

\* get_short_oid: hint is "committish" (under ~ ^ ^{commit} ^{/re}) or "none" (under ^{}).
\* Result: [o |-> object or 0, why |-> tag]
ShortOid(R, h, hint) ==
  LET i == HexInfo(h) IN
  IF ~(IsCommit(R, i.o) \/ i.o = TA)        THEN [o |-> 0, why |-> "short-oid-no-object"]
  ELSE IF i.f = "p3"                         THEN [o |-> 0, why |-> "short-oid-below-minimum-length"]
  ELSE IF i.f \in {"w5", "w7"}               THEN [o |-> 0, why |-> "short-oid-wrong-last-odd-digit"]
  ELSE IF i.f = "p4" /\ i.o \in R.twinC
                                             THEN [o |-> 0, why |-> "short-oid-ambiguous-two-commits"]
  ELSE IF i.f = "p4" /\ i.o \in R.twinB /\ hint = "none"
                                             THEN [o |-> 0, why |-> "short-oid-ambiguous-commit-blob-no-hint"]
  ELSE [o |-> i.o, why |-> (IF i.f = "p4" /\ i.o \in R.twinB THEN "short-oid-commit-beats-blob"
                            ELSE IF i.f \in {"u7", "u5"} THEN "short-oid-uppercase-" \o (IF i.f = "u5" THEN "odd" ELSE "odd7")
                            ELSE IF i.f = "p5" /\ i.o \in (R.twinC \cup R.twinB) THEN "short-oid-odd-digit-decides"
                            ELSE "short-oid-unique")]

\* ------------------------------------------------------------------ references
RECURSIVE Deref(_, _, _)
Deref(R, full, fuel) ==
  IF fuel = 0 \/ full \notin DOMAIN R.refs THEN 0
  ELSE LET t == R.refs[full] IN IF t.k = "obj" THEN t.o ELSE Deref(R, t.s, fuel - 1)

\* refs.c ref_rev_parse_rules, in order
Rules(nm) == << nm, <<"refs">> \o nm, <<"refs", "tags">> \o nm, <<"refs", "heads">> \o nm,
                <<"refs", "remotes">> \o nm, <<"refs", "remotes">> \o nm \o <<"HEAD">> >>

\* repo_dwim_ref: the first rule whose name resolves wins (dangling symrefs are skipped)
\* R.res is Deref tabulated over DOMAIN R.refs (built once per repository, see Tabulate)
Res(R, full) == IF full \in DOMAIN R.res THEN R.res[full] ELSE 0
Dwim(R, nm) ==
  LET rs == Rules(nm)
      os == [i \in 1..6 |-> Res(R, rs[i])]
      hits == {i \in 1..6 : os[i] # 0}
  IN IF hits = {} THEN [rule |-> 0, o |-> 0, n |-> 0]
     ELSE LET i == MinOf(hits) IN [rule |-> i, o |-> os[i], n |-> Cardinality(hits)]
Tabulate(R) == [R EXCEPT !.res = [full \in DOMAIN R.refs |-> Deref(R, full, 5)]]

IsHexName(nm) == Len(nm) = 1 /\ nm[1] \in HexSyms

\* get_oid_basic + get_short_oid.  "@" alone is HEAD (interpret_empty_at).
BaseResolve(R, nm0, hint) ==
  LET nm == IF nm0 = <<"@">> THEN <<"HEAD">> ELSE nm0
      d  == Dwim(R, nm)
  IN IF IsHexName(nm) /\ HexInfo(nm[1]).f = "full"
       THEN LET o == HexInfo(nm[1]).o IN      \* 40 hex digits: the object id wins over any ref
            IF IsCommit(R, o) \/ o = TA
              THEN [o |-> o, why |-> IF d.rule # 0 THEN "full-oid-shadows-ref" ELSE "full-oid"]
              ELSE [o |-> 0, why |-> "full-oid-no-object"]
     ELSE IF d.rule # 0
       THEN [o |-> d.o, why |-> (IF d.rule = 1 /\ Len(nm) = 1 /\ nm # <<"HEAD">> THEN "ref-toplevel-name-" ELSE "")
                                 \o "ref-rule" \o ToString(d.rule)
                                 \o (IF d.n > 1 THEN "-ambiguous-refname" ELSE "")
                                 \o (IF IsHexName(nm) THEN "-shadows-short-oid" ELSE "")
                                 \o "-to-" \o KindOf(R, d.o)]
     ELSE IF IsHexName(nm) THEN ShortOid(R, nm[1], hint)
     ELSE [o |-> 0, why |-> "no-such-name"]

\* ------------------------------------------------------------------ regex search
\* message classes and the (literal) patterns enumerated; "!-p" is the negation of p
Msgs == {"fix", "fix2", "feat"}
PatMatches == [fix |-> {"fix", "fix2"}, fix2 |-> {"fix2"}, feat |-> {"feat"}, zzz |-> {}]
Matches(R, c, pat, neg) == (R.msg[c] \in PatMatches[pat]) # neg

\* commit_list_insert_by_date: before the first entry that is strictly older
InsertByDate(R, list, c) ==
  LET older == {i \in 1..Len(list) : R.tm[list[i]] < R.tm[c]}
      k == IF older = {} THEN Len(list) + 1 ELSE MinOf(older)
  IN SubSeq(list, 1, k - 1) \o <<c>> \o SubSeq(list, k, Len(list))

RECURSIVE InsertParents(_, _, _, _)
\* pop_most_recent_commit: parents not yet seen, in parent order.  Returns <<list, seen>>
InsertParents(R, list, seen, ps) ==
  IF ps = <<>> THEN <<list, seen>>
  ELSE IF Head(ps) \in seen THEN InsertParents(R, list, seen, Tail(ps))
  ELSE InsertParents(R, InsertByDate(R, list, Head(ps)), seen \cup {Head(ps)}, Tail(ps))

RECURSIVE Walk(_, _, _, _, _)
\* get_oid_oneline: youngest-first walk, first commit whose message matches
Walk(R, list, seen, pat, neg) ==
  IF list = <<>> THEN 0
  ELSE LET c == Head(list)
           nx == InsertParents(R, Tail(list), seen, R.par[c])
       IN IF Matches(R, c, pat, neg) THEN c ELSE Walk(R, nx[1], nx[2], pat, neg)

Oneline(R, c, pat, neg) == Walk(R, <<c>>, {c}, pat, neg)

\* ------------------------------------------------------------------ suffixes
SI(k, n) == [k |-> k, n |-> n]
SfxInfo ==
  "~" :> SI("tilde", 1) @@ "~0" :> SI("tilde", 0) @@ "~1" :> SI("tilde", 1) @@ "~2" :> SI("tilde", 2) @@ "~3" :> SI("tilde", 3)
  @@ "^" :> SI("caret", 1) @@ "^0" :> SI("caret", 0) @@ "^1" :> SI("caret", 1) @@ "^2" :> SI("caret", 2) @@ "^3" :> SI("caret", 3)
  @@ "^{commit}" :> SI("type", 0) @@ "^{}" :> SI("peel", 0)
  @@ "^{/fix}" :> SI("re", 0) @@ "^{/fix2}" :> SI("re", 0) @@ "^{/feat}" :> SI("re", 0) @@ "^{/zzz}" :> SI("re", 0)
  @@ "^{/!-fix}" :> SI("re", 1) @@ "^{/!-feat}" :> SI("re", 1)       \* n = 1: negated pattern
PatOf == "^{/fix}" :> "fix" @@ "^{/fix2}" :> "fix2" @@ "^{/feat}" :> "feat" @@ "^{/zzz}" :> "zzz"
         @@ "^{/!-fix}" :> "fix" @@ "^{/!-feat}" :> "feat"

RECURSIVE NthFirst(_, _, _)
NthFirst(R, c, n) == IF n = 0 THEN c ELSE IF R.par[c] = <<>> THEN 0 ELSE NthFirst(R, R.par[c][1], n - 1)

\* one suffix applied to object o (0 = error so far): the resulting object
ApplyO(R, o, s) ==
  LET i == SfxInfo[s]  c == Peel(R, o) IN
  IF o = 0 THEN 0
  ELSE IF i.k = "type" THEN c
  ELSE IF i.k = "peel" THEN PeelTags(R, o)
  ELSE IF c = 0 THEN 0
  ELSE IF i.k = "tilde" THEN NthFirst(R, c, i.n)
  ELSE IF i.k = "caret" THEN (IF i.n = 0 THEN c ELSE IF i.n > Len(R.par[c]) THEN 0 ELSE R.par[c][i.n])
  ELSE Oneline(R, c, PatOf[s], i.n = 1)

\* ... and the scenario tag of that step (used for finding signatures only)
ApplyWhy(R, o, s) ==
  LET i == SfxInfo[s]  c == Peel(R, o) IN
  IF o = 0 THEN "after-error"
  ELSE IF i.k = "type" THEN (IF c = 0 THEN "type-commit-on-" \o KindOf(R, o) ELSE "type-commit")
  ELSE IF i.k = "peel" THEN "peel-" \o KindOf(R, o)
  ELSE IF c = 0 THEN i.k \o "-on-" \o KindOf(R, o)
  ELSE IF i.k = "tilde" THEN (IF NthFirst(R, c, i.n) = 0 THEN "tilde-beyond-root" ELSE IF i.n = 0 THEN "tilde-0" ELSE "tilde-n")
  ELSE IF i.k = "caret" THEN
         (IF i.n = 0 THEN "caret-0" ELSE "caret-" \o ToString(i.n) \o "-of-" \o ToString(Len(R.par[c])) \o "-parents")
  ELSE \* regex
       LET neg == i.n = 1
           A == R.anc[c]
           M == {x \in A : Matches(R, x, PatOf[s], neg)}
           w == Oneline(R, c, PatOf[s], neg)
           skew == \E x \in A : \E p \in SeqRange(R.par[x]) : R.tm[x] <= R.tm[p]
       IN (IF neg THEN "regex-negated-" ELSE "regex-")
          \o (IF M = {} THEN "no-match" ELSE IF Cardinality(M) = 1 THEN "single-match"
              ELSE IF (\A x \in M : x \in R.anc[w]) /\ ~skew THEN "multi-match-linear"
              ELSE "multi-match-branching-or-skewed")
Apply(R, o, s) == [o |-> ApplyO(R, o, s), why |-> ApplyWhy(R, o, s)]

\* which lookup hint the base name is resolved under: decided by the first suffix
\* (the observation appends ^{commit}); peel_onion clears the hint for ^{}
HintOf(s) == IF s = <<>> THEN "committish" ELSE IF SfxInfo[s[1]].k = "peel" THEN "none" ELSE "committish"

RECURSIVE ChainO(_, _, _, _)
\* ChainO: the object after the first k suffixes of sq, starting from object o
ChainO(R, sq, k, o) == IF k = 0 THEN o ELSE ApplyO(R, ChainO(R, sq, k - 1, o), sq[k])
\* the state [o, why] after all suffixes, starting from the base state
ChainS(R, sq, k, base) == IF k = 0 THEN base
                          ELSE LET prev == ChainO(R, sq, k - 1, base.o) IN
                               [o |-> ApplyO(R, prev, sq[k]), why |-> ApplyWhy(R, prev, sq[k])]
Chain(R, e, k, base) == ChainS(R, e.s, k, base)
\* the commit named by base object bo followed by suffixes sq (and the final ^{commit})
From(R, bo, sq) == Peel(R, ChainO(R, sq, Len(sq), bo))

\* one pass: [exp |-> the commit <e>^{commit} names (0 if git reports an error),
\*            why |-> scenario tag of the LAST step, bwhy |-> scenario tag of the base name]
Eval(R, e) == LET b  == BaseResolve(R, e.n, HintOf(e.s))
                  st == Chain(R, e, Len(e.s), b)
              IN [exp |-> Peel(R, st.o), bwhy |-> b.why,
                  why |-> IF st.o # 0 /\ Peel(R, st.o) = 0 THEN st.why \o "-final-not-commit" ELSE st.why]
Resolve(R, e) == Eval(R, e).exp

\* go-git documents ~, ^ (0, 1, 2), ^{commit}, ^{}, ^{/re}; "^3" is refused by its parser.
SupportedS(sq) == \A i \in 1..Len(sq) : ~(SfxInfo[sq[i]].k = "caret" /\ SfxInfo[sq[i]].n > 2)
Supported(e) == SupportedS(e.s)

\* ------------------------------------------------------------------ :/regex
\* get_oid_oneline over all refs: for_each_ref (sorted by name; given as RefOrder(R)) then HEAD,
\* each prepended, then a stable sort by date.  Only emitted for repositories that define reforder.
RECURSIVE FoldInsert(_, _, _)
FoldInsert(R, list, todo) == IF todo = <<>> THEN list ELSE FoldInsert(R, InsertByDate(R, list, Head(todo)), Tail(todo))
\* for_each_ref order of the slot universe (bytewise order of the rendered names; hex digits sort
\* before "m", "tags", "x"); names outside refs/ are not iterated
Rank(n) == IF Len(n) < 2 \/ n[1] # "refs" THEN 0
           ELSE IF n = <<"refs", "x">> THEN 40
           ELSE IF n[2] = "heads" THEN (IF n[3] \in HexSyms THEN 10 ELSE IF n[3] = "m" THEN 11 ELSE IF n[3] = "tags" THEN 12 ELSE 13)
           ELSE IF n[2] = "remotes" THEN (IF n[3] = "o" THEN (IF n[4] = "HEAD" THEN 20 ELSE 21) ELSE IF Len(n) = 3 THEN 22 ELSE 23)
           ELSE IF n[2] = "tags" THEN (IF n[3] \in HexSyms THEN 30 ELSE IF n[3] = "heads" THEN 31 ELSE 32)
           ELSE 0
RefOrder(R) == SortSeq(SetToSeq({n \in DOMAIN R.refs : Rank(n) # 0}), LAMBDA a, b : Rank(a) < Rank(b))
ColonStart(R) ==
  LET tips == [i \in 1..Len(RefOrder(R)) |-> Peel(R, Deref(R, RefOrder(R)[i], 5))]
      withHead == Reverse(tips) \* commit_list_insert prepends
      h == Peel(R, Deref(R, <<"HEAD">>, 5))
      all == (IF h = 0 THEN <<>> ELSE <<h>>) \o withHead
  IN FoldInsert(R, <<>>, SelectSeq(all, LAMBDA x : x # 0))
ColonResolve(R, pat, neg) == LET st == ColonStart(R) IN Walk(R, st, SeqRange(st), pat, neg)

\* ------------------------------------------------------------------ domain
AllSlots(R) == DOMAIN R.refs \cup R.probe
TypedNames(R) == ({SubSeq(n, i, Len(n)) : n \in AllSlots(R), i \in 1..4} \ {<<>>})
                 \cup {<<"@">>, <<"HEAD">>, <<"y">>} \cup {<<h>> : h \in R.hexnames}
RECURSIVE SeqsOver(_, _)
SeqsOver(A, k) == IF k = 0 THEN {<<>>} ELSE LET P == SeqsOver(A, k - 1) IN P \cup {Append(p, s) : p \in {q \in P : Len(q) = k - 1}, s \in A}
SfxSeqs(k) == SeqsOver(SfxSet, k) \cup SeqsOver(WideSet, 2)
\* every repository is asked the same expressions: the union of all typed names
NameSeq == SetToSeq(UNION {TypedNames(RepoSeq[ri]) : ri \in 1..Len(RepoSeq)})
SfxSeqList == SetToSeq(SfxSeqs(Depth))

ColonPats == {<<"fix", FALSE>>, <<"fix2", FALSE>>, <<"feat", FALSE>>, <<"zzz", FALSE>>, <<"fix", TRUE>>}

ColonRow(R, ri, p) ==
  [r |-> ri, n |-> <<":/", (IF p[2] THEN "!-" ELSE "") \o p[1]>>, s |-> <<>>,
   exp |-> ColonResolve(R, p[1], p[2]), sup |-> FALSE,
   why |-> "colon-regex", bwhy |-> "colon-regex", bo |-> 0, prev |-> "base"]

\* the row of (repository ri, typed name nm, suffix sequence sq); bc / bn are nm resolved under the
\* two lookup hints
RowAt(ri, nm, sq, bc, bn) ==
  LET R  == RepoSeq[ri]
      b  == IF HintOf(sq) = "none" THEN bn ELSE bc
      st == ChainS(R, sq, Len(sq), b)
  IN [r |-> ri, n |-> nm, s |-> sq, exp |-> Peel(R, st.o), sup |-> SupportedS(sq), bwhy |-> b.why, bo |-> b.o,
      prev |-> IF Len(sq) < 2 THEN "base" ELSE SfxInfo[sq[Len(sq) - 1]].k,      \* what the last suffix follows
      why |-> IF st.o # 0 /\ Peel(R, st.o) = 0 THEN st.why \o "-final-not-commit" ELSE st.why]
Chunk(ri, nm) ==
  LET bc == BaseResolve(RepoSeq[ri], nm, "committish")
      bn == BaseResolve(RepoSeq[ri], nm, "none")
  IN [j \in 1..Len(SfxSeqList) |-> RowAt(ri, nm, SfxSeqList[j], bc, bn)]
\* (an operator with a parameter, so that TLC does not evaluate the table eagerly - and once per worker)
ExprRowSeq(dummy) == FlattenSeq([k \in 1..(Len(RepoSeq) * Len(NameSeq)) |->
                            Chunk(((k - 1) \div Len(NameSeq)) + 1, NameSeq[((k - 1) % Len(NameSeq)) + 1])])
ColonRows == {ColonRow(RepoSeq[ri], ri, p) : ri \in 1..Len(RepoSeq), p \in ColonPats}

RefList(R) == SetToSeq({[n |-> nm, t |-> R.refs[nm]] : nm \in DOMAIN R.refs})
RepoRec(ri) == LET R == RepoSeq[ri] IN
  [r |-> ri, anc |-> [c \in 1..NC(R) |-> SetToSeq(R.anc[c])], par |-> R.par, tm |-> R.tm, msg |-> R.msg, tagA |-> R.tagA, refs |-> RefList(R),
   twinC |-> SetToSeq(R.twinC), twinB |-> SetToSeq(R.twinB),
   hex |-> SetToSeq({[sym |-> h, o |-> HexInfo(h).o, f |-> HexInfo(h).f] : h \in HexSyms})]

ASSUME Emit => /\ ndJsonSerialize("revision_repos.ndjson", [ri \in 1..Len(RepoSeq) |-> RepoRec(ri)])
               /\ ndJsonSerialize("revision_rows.ndjson", ExprRowSeq(0) \o SetToSeq(ColonRows))

\* ------------------------------------------------------------------ states and theorems
\* One state per table row: a chain of states per (repository, typed name) walks the suffix
\* sequences, so the rows are computed (and the theorems checked) by all TLC workers in parallel.
VARIABLES vr, vn, vj, vbc, vbn, row
vars == <<vr, vn, vj, vbc, vbn, row>>
Init == /\ vr \in 1..Len(RepoSeq) /\ vn \in 1..Len(NameSeq) /\ vj = 1
        /\ vbc = BaseResolve(RepoSeq[vr], NameSeq[vn], "committish")
        /\ vbn = BaseResolve(RepoSeq[vr], NameSeq[vn], "none")
        /\ row = RowAt(vr, NameSeq[vn], SfxSeqList[1], vbc, vbn)
Next == /\ vj < Len(SfxSeqList) /\ vj' = vj + 1
        /\ row' = RowAt(vr, NameSeq[vn], SfxSeqList[vj + 1], vbc, vbn)
        /\ UNCHANGED <<vr, vn, vbc, vbn>>
Spec == Init /\ [][Next]_vars
\* the run that only writes the table (ASSUME above) explores a single state
InitEmit == /\ vr = 1 /\ vn = 1 /\ vj = Len(SfxSeqList) /\ vbc = [o |-> 0, why |-> ""] /\ vbn = vbc
            /\ row = RowAt(1, NameSeq[1], SfxSeqList[vj], vbc, vbn)

\* theorems, stated per row; row.bo is the resolved base object of the row (the lookup hint of every
\* extension used below is the row's own hint)
out == row.exp
Short == Len(row.s) < Depth
Ext(t) == Append(row.s, t)
Thm(P(_, _)) == \A R0 \in {RepoSeq[row.r]} : P(R0, row.bo)

TypeOK        == out \in 0..5
\* the no-hint lookup, when it succeeds, names the same object as the committish lookup
BaseConsistent == /\ row.bo = (IF HintOf(row.s) = "none" THEN vbn.o ELSE vbc.o)
                  /\ (vbn.o # 0 => vbn.o = vbc.o)
RowConsistent == Thm(LAMBDA R0, B0 : From(R0, B0, row.s) = out)
\* e~0 = e^0 = e^{commit} = e
Identity      == Thm(LAMBDA R0, B0 : Short => /\ From(R0, B0, Ext("~0")) = out
                                                /\ From(R0, B0, Ext("^0")) = out
                                                /\ From(R0, B0, Ext("^{commit}")) = out)
\* e~ = e^ ; e~2 = e^^
FirstParent   == Thm(LAMBDA R0, B0 : Short => /\ From(R0, B0, Ext("~")) = From(R0, B0, Ext("^"))
                          /\ (Len(row.s) + 2 <= Depth => From(R0, B0, Ext("~2")) = From(R0, B0, Append(Ext("^"), "^"))))
\* a regex result matches and is reachable from the start commit
RegexSound    == Thm(LAMBDA R0, B0 : Short /\ out # 0 =>
                    \A t \in {"^{/fix}", "^{/fix2}", "^{/!-fix}"} :
                       LET w == From(R0, B0, Ext(t)) IN
                       w # 0 => /\ Matches(R0, w, PatOf[t], SfxInfo[t].n = 1)
                                /\ w \in R0.anc[out])
\* errors are absorbing
ErrorAbsorbs  == Thm(LAMBDA R0, B0 : Short /\ out = 0 /\ row.s # <<>> => \A t \in SfxSet : From(R0, B0, Ext(t)) = 0)
\* every result is an ancestor of (or equal to) what the base names
Descends      == Thm(LAMBDA R0, B0 : out # 0 /\ row.s # <<>> =>
                    LET b == From(R0, B0, <<>>) IN b # 0 => out \in R0.anc[b])
=============================================================================
