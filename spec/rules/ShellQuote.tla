----------------------------- MODULE ShellQuote -----------------------------
(* C41: remote command quoting is injection-free.

   Quote(s)        git's sq_quote_buf (quote.c): wrap in single quotes; ' and ! are written
                   with the close / backslash-escape / reopen idiom  '\''  and  '\!' .
   Line(svc,p,as)  the command line a git client sends to an ssh server:
                   svc SP Quote(p) { SP Quote(a) }.
   Sh(line)        a POSIX shell reading one command line (XCU 2.2 quoting, 2.3 token
                   recognition, 2.6 expansions) as far as it matters for "is this a single
                   simple command and what are its words": modes unquoted / single quote /
                   double quote / backslash; blanks split words; any *unquoted* operator,
                   newline, expansion character, glob character, word-initial ~ or # sets
                   `meta` (the line is no longer one simple command with literal words).
   Dequote(rest)   git's sq_dequote_to_argv (what git-shell applies to the argument).

   Theorem checked by TLC on the whole bounded domain (every (path, args) is a state):
     Sh(Line(svc,p,as)) = [words = <<svc, p, as...>>, meta = FALSE, open = FALSE, rawbang = FALSE]
     Dequote(rest of Line) = <<p, as...>>
   Text is a sequence of symbol *classes*; the harness (harness/cmd/vhjail/c41.go) renders
   each class to several concrete bytes.  "SP" is the literal 0x20 the builder writes
   between words; class "sp" is a blank inside the data (space or tab).               *)
EXTENDS Naturals, Sequences, FiniteSets, TLC, Json, IOUtils, SequencesExt

CONSTANTS MaxPath,   \* single-path rows: all paths of length 0..MaxPath
          MaxArg1,   \* rows with one extra argument: path and argument of length 0..MaxArg1
          MaxArg2,   \* rows with two extra arguments: all three of length 0..MaxArg2
          Emit       \* TRUE: write shellquote_rows.ndjson

\* data alphabet (symbol classes)
\*   a     ordinary byte                         sq  '      dq  "      bs  \      bang !
\*   sp    blank (space, tab)                    nl  newline
\*   exp   $ or `  (parameter / command substitution)
\*   op    ; | & ( ) < >  (control and redirection operators)
\*   glob  * ? [         tilde ~        hash #
Alpha == {"a", "sq", "dq", "bs", "bang", "sp", "nl", "exp", "op", "glob", "tilde", "hash"}

StrsUpTo(n) == UNION {[1..k -> Alpha] : k \in 0..n}

\* ---------------------------------------------------------------- Quote (sq_quote_buf)
NeedBs(c) == c \in {"sq", "bang"}          \* need_bs_quote()

RECURSIVE QuoteBody(_)
QuoteBody(s) == IF s = <<>> THEN <<>>
                ELSE (IF NeedBs(Head(s)) THEN <<"sq", "bs", Head(s), "sq">> ELSE <<Head(s)>>)
                     \o QuoteBody(Tail(s))
Quote(s) == <<"sq">> \o QuoteBody(s) \o <<"sq">>

\* origin of every symbol of Quote(s) / Line(): which part of the input produced it.  Used for
\* finding signatures (the class of the first symbol where a real command line departs from Line()).
RECURSIVE OriginBody(_)
OriginBody(s) == IF s = <<>> THEN <<>>
                 ELSE (IF NeedBs(Head(s)) THEN <<Head(s), Head(s), Head(s), Head(s)>> ELSE <<Head(s)>>)
                      \o OriginBody(Tail(s))
RECURSIVE OriginRest(_)
OriginRest(ws) == IF ws = <<>> THEN <<>>
                  ELSE <<"sep", "open">> \o OriginBody(Head(ws)) \o <<"close">> \o OriginRest(Tail(ws))
Origin(ws) == <<"svc">> \o OriginRest(ws)

\* deliberately wrong quoters, used only to show that Sh has teeth (NonVacuous below)
NaiveQuote(s) == <<"sq">> \o s \o <<"sq">>                  \* forgets to escape '
DqQuote(s)    == <<"dq">> \o s \o <<"dq">>                  \* double quotes

RECURSIVE Rest(_, _)
Rest(Q(_), ws) == IF ws = <<>> THEN <<>> ELSE <<"SP">> \o Q(Head(ws)) \o Rest(Q, Tail(ws))
LineWith(Q(_), svc, ws) == <<svc>> \o Rest(Q, ws)
Line(svc, ws) == LineWith(Quote, svc, ws)

\* ---------------------------------------------------------------- Sh (POSIX shell)
Sh0 == [mode |-> "u", cur |-> <<>>, inw |-> FALSE, words |-> <<>>, meta |-> FALSE, rawbang |-> FALSE]

EndWord(st) == IF st.inw THEN [st EXCEPT !.words = Append(@, st.cur), !.cur = <<>>, !.inw = FALSE] ELSE st
Put(st, c)  == [st EXCEPT !.cur = Append(@, c), !.inw = TRUE]
Meta(st)    == [st EXCEPT !.meta = TRUE]

Step(st, c) ==
  CASE st.mode = "u" ->
         (CASE c = "sq"               -> [st EXCEPT !.mode = "s", !.inw = TRUE]
            [] c = "dq"               -> [st EXCEPT !.mode = "d", !.inw = TRUE]
            [] c = "bs"               -> [st EXCEPT !.mode = "ub"]
            [] c \in {"sp", "SP", "tab"} -> EndWord(st)      \* "tab": only in recorded lines (ShellQuoteTrace)
            [] c \in {"nl", "op"}     -> Meta(EndWord(st))              \* ends the command
            [] c \in {"exp", "glob"}  -> Meta(Put(st, c))               \* would be expanded
            [] c \in {"tilde", "hash"} -> IF st.inw THEN Put(st, c) ELSE Meta(Put(st, c))
            [] c = "bang"             -> [Put(st, c) EXCEPT !.rawbang = TRUE]
            [] OTHER                  -> Put(st, c))
    [] st.mode = "ub" ->          \* backslash outside quotes: next char literal; \newline vanishes
         IF c = "nl" THEN [st EXCEPT !.mode = "u"] ELSE [Put(st, c) EXCEPT !.mode = "u"]
    [] st.mode = "s" ->           \* single quotes: everything literal up to the next '
         IF c = "sq" THEN [st EXCEPT !.mode = "u"]
         ELSE [Put(st, c) EXCEPT !.rawbang = @ \/ c = "bang"]
    [] st.mode = "d" ->           \* double quotes: $ ` \ keep their meaning
         (CASE c = "dq"  -> [st EXCEPT !.mode = "u"]
            [] c = "bs"  -> [st EXCEPT !.mode = "db"]
            [] c = "exp" -> Meta(Put(st, c))
            [] OTHER     -> [Put(st, c) EXCEPT !.rawbang = @ \/ c = "bang"])
    [] st.mode = "db" ->
         (CASE c \in {"exp", "dq", "bs"} -> [Put(st, c) EXCEPT !.mode = "d"]
            [] c = "nl"                  -> [st EXCEPT !.mode = "d"]
            [] OTHER                     -> [Put(Put(st, "bs"), c) EXCEPT !.mode = "d"])

RECURSIVE ShRun(_, _)
ShRun(st, s) == IF s = <<>> THEN st ELSE ShRun(Step(st, Head(s)), Tail(s))

Sh(line) == LET st == ShRun(Sh0, line)
                fin == EndWord(st)
            IN [words |-> fin.words, meta |-> fin.meta, open |-> st.mode # "u", rawbang |-> fin.rawbang]

\* ---------------------------------------------------------------- Dequote (sq_dequote_to_argv)
\* returns <<ok, argv>>; `s` is the text after "svc SP".  isspace(): only "SP"/"sp"/"nl" here.
IsSpace(c) == c \in {"SP", "sp", "nl", "tab"}

RECURSIVE DqStep(_, _, _)
\* inside a quoted region at index i (1-based, pointing at the char after the opening ');
\* returns <<ok, word, next>> where next = 0 at end of string, else index of the first char after the word
DqStep(s, i, acc) ==
  IF i > Len(s) THEN <<FALSE, acc, 0>>
  ELSE IF s[i] # "sq" THEN DqStep(s, i + 1, Append(acc, s[i]))
  ELSE \* stepped out of sq
    IF i = Len(s) THEN <<TRUE, acc, 0>>
    ELSE IF s[i+1] = "bs" /\ i + 3 <= Len(s) /\ NeedBs(s[i+2]) /\ s[i+3] = "sq"
         THEN DqStep(s, i + 4, Append(acc, s[i+2]))
    ELSE <<TRUE, acc, i + 1>>

RECURSIVE SkipSpace(_, _)
SkipSpace(s, i) == IF i <= Len(s) /\ IsSpace(s[i]) THEN SkipSpace(s, i + 1) ELSE i

RECURSIVE DqArgv(_, _, _)
DqArgv(s, i, argv) ==
  IF i > Len(s) \/ s[i] # "sq" THEN <<FALSE, argv>>
  ELSE LET r == DqStep(s, i + 1, <<>>) IN
       IF ~r[1] THEN <<FALSE, argv>>
       ELSE IF r[3] = 0 THEN <<TRUE, Append(argv, r[2])>>
       ELSE IF ~IsSpace(s[r[3]]) THEN <<FALSE, argv>>
       ELSE LET j == SkipSpace(s, r[3]) IN
            IF j > Len(s) THEN <<TRUE, Append(argv, r[2])>>     \* git: loop ends when *next = 0 ... see note
            ELSE DqArgv(s, j, Append(argv, r[2]))
\* note: git's loop would call sq_dequote_step on the empty remainder and fail; trailing blanks
\* never occur in Line(), so the difference is not reachable from the domain below.

Dequote(s) == DqArgv(s, 1, <<>>)

\* ---------------------------------------------------------------- domain
Cases == {<<p>> : p \in StrsUpTo(MaxPath)}
         \cup {<<p, a>> : p \in StrsUpTo(MaxArg1), a \in StrsUpTo(MaxArg1)}
         \cup {<<p, a, b>> : p \in StrsUpTo(MaxArg2), a \in StrsUpTo(MaxArg2), b \in StrsUpTo(MaxArg2)}

Svc == "svc"      \* the service name: one ordinary word (git-upload-pack, ...)

Row(ws) == [ws    |-> ws,
            line  |-> Line(Svc, ws),
            words |-> Sh(Line(Svc, ws)).words]

ASSUME Emit => ndJsonSerialize("shellquote_rows.ndjson", SetToSeq({Row(ws) : ws \in Cases}))

\* the automaton is not trivially satisfied: weaker quoters are caught by it
NonVacuous ==
  /\ \E p \in StrsUpTo(2) : Sh(LineWith(NaiveQuote, Svc, <<p>>)) # [words |-> <<<<Svc>>, p>>, meta |-> FALSE, open |-> FALSE, rawbang |-> FALSE]
  /\ \E p \in StrsUpTo(1) : Sh(LineWith(NaiveQuote, Svc, <<p>>)).open
  /\ \E p \in StrsUpTo(3) : LET r == Sh(LineWith(NaiveQuote, Svc, <<p>>)) IN r.meta /\ ~r.open
  /\ \E p \in StrsUpTo(1) : Sh(LineWith(DqQuote, Svc, <<p>>)).meta
  /\ \E p \in StrsUpTo(1) : Sh(<<Svc, "SP">> \o p).meta
  /\ \E p \in StrsUpTo(3) : Len(Sh(<<Svc, "SP">> \o p).words) = 3
ASSUME NonVacuous

VARIABLES ws, line
vars == <<ws, line>>
Init == ws \in Cases /\ line = Line(Svc, ws)
Next == UNCHANGED vars
Spec == Init /\ [][Next]_vars

\* spec-level theorems
ExactWords   == Sh(line) = [words |-> <<<<Svc>>>> \o ws, meta |-> FALSE, open |-> FALSE, rawbang |-> FALSE]
DequoteBack  == Dequote(SubSeq(line, 3, Len(line))) = <<TRUE, ws>>
OriginLen    == Len(Origin(ws)) = Len(line)
LenBound     == Len(line) <= 1 + 3 * Len(ws) + 4 * (Len(ws[1]) + (IF Len(ws) > 1 THEN Len(ws[2]) ELSE 0) + (IF Len(ws) > 2 THEN Len(ws[3]) ELSE 0))
=============================================================================
