---------------------------- MODULE UnifiedCheck ----------------------------
(* Batch trace validation for C45: every record written by harness/cmd/vhfmt/c45.go (a case of
   Unified.tla + the abstract patch go-git produced for it + go-git's statistics, and for a sample
   git's own patch / statistics for the same pair) is judged here with the predicates of
   Unified.tla.  One TLC state per record; the verdict is printed as one JSON line per record. *)
EXTENDS Unified

Recs == ndJsonDeserialize("uni_recs.ndjson")
N == Len(Recs)

Norm(f) == IF ~f.p THEN Absent
           ELSE [p |-> TRUE, lines |-> f.lines, nl |-> IF f.lines = <<>> THEN TRUE ELSE f.nl, mode |-> f.mode, bin |-> f.bin]
TreeOf(t) == [p \in Paths |-> Norm(t[p])]

PatchProblems(old, new, fps, ctx) ==
  LET o == TreeOf(old)  n == TreeOf(new)
      r == ApplyPatch(o, fps, n)
  IN UNION {FPProblems(fps[i], ctx) : i \in 1..Len(fps)} \cup
     (IF \A i \in 1..Len(fps) : BinaryMarkerOK(fps[i], o, n) THEN {} ELSE {"binary-marker-on-text"}) \cup
     \* the old mode a file patch states must be the mode of the file it is made from
     (IF \A i \in 1..Len(fps) : (fps[i].kind \in {"delete", "modify"} /\ fps[i].omode # "" /\ o[fps[i].opath].p /\ ~fps[i].rename)
                                   => fps[i].omode = o[fps[i].opath].mode
      THEN {} ELSE {"old-mode-inexact"}) \cup
     (IF ~r.ok THEN {"apply:" \o r.why}
      ELSE IF [p \in Paths |-> Norm(r.tree[p])] # n THEN {"wrong-result"} ELSE {})

NameMatches(name, fp) == name = fp.npath \/ name = fp.opath \/ name = fp.opath \o " => " \o fp.npath
\* git diff --numstat: one line per path with the added / deleted line counts of a minimal diff
\* between the old and the new content of that path (also across a type change, which the patch
\* itself writes as delete + create); paths with a binary side have no line statistics; a rename
\* line "a => b" carries the counts of its file patch
StatProblems(c, fps, stats) ==
  LET Of(name) == {j \in 1..Len(fps) : NameMatches(name, fps[j])}
      SumOver(S, G(_)) == FoldSet(LAMBDA j, acc : acc + G(j), 0, S)
      Renamed == \E j \in 1..Len(fps) : fps[j].rename
      Bin(p) == (c.old[p].p /\ c.old[p].bin) \/ (c.new[p].p /\ c.new[p].bin)
  IN
  (IF \A i \in 1..Len(stats) :
        IF stats[i].name \in Paths /\ ~Renamed
        THEN ~Bin(stats[i].name) /\ stats[i].add = c.min[stats[i].name].add /\ stats[i].del = c.min[stats[i].name].del
        ELSE /\ Of(stats[i].name) # {}
             /\ stats[i].add = SumOver(Of(stats[i].name), LAMBDA j : Adds(fps[j]))
             /\ stats[i].del = SumOver(Of(stats[i].name), LAMBDA j : Dels(fps[j]))
   THEN {} ELSE {"stats-differ"}) \cup
  (IF Renamed \/ \A p \in Paths : (~Bin(p) /\ c.min[p].add + c.min[p].del > 0) => \E i \in 1..Len(stats) : stats[i].name = p
   THEN {} ELSE {"stats-missing-file"}) \cup
  \* the statistics git diff --numstat prints are those of a minimal diff
  (IF \A j \in 1..Len(fps) :
        (fps[j].kind = "modify" /\ ~fps[j].rename /\ ~fps[j].binary /\ fps[j].opath = fps[j].npath /\ fps[j].opath \in Paths)
        => (Adds(fps[j]) = c.min[fps[j].opath].add /\ Dels(fps[j]) = c.min[fps[j].opath].del)
   THEN {} ELSE {"not-minimal"})

\* abstract scenario key for finding signatures (finite, independent of contents)
Class(f) == IF ~f.p THEN "absent" ELSE IF f.bin THEN "binary" ELSE IF f.mode = "120000" THEN "symlink"
            ELSE IF f.lines = <<>> THEN "empty" ELSE "text"
Key(c) == Class(c.old["f1"]) \o "->" \o Class(c.new["f1"]) \o
          (IF c.fam = "M" THEN ";multi-file"     \* the second file's kind is not part of the scenario key
           ELSE IF c.old["f2"].p \/ c.new["f2"].p THEN ";" \o Class(c.old["f2"]) \o "->" \o Class(c.new["f2"]) ELSE "") \o
          (IF c.ctx = 0 THEN ",ctx=0" ELSE "")

\* git apply --unidiff-zero does not reproduce the target from git diff -U0's own output when a hunk
\* only deletes the last line and that line lacks its newline (it removes an equal line that has
\* one): the git apply leg says nothing about such patches, whoever wrote them
GitApplyQuirk(c, fps) == c.ctx = 0 /\ \E j \in 1..Len(fps) : \E k \in 1..Len(fps[j].hunks) :
                            fps[j].hunks[k].nl = 0 /\ HasNonl(OldSide(fps[j].hunks[k]))

\* a patch of several files is the concatenation of the patches go-git writes for each file alone
\* (rec.solo: the same case restricted to one path at a time); rename pairs are one file patch over
\* two paths and are exempt
LeakProblems(rec) ==
  IF rec.soloerr # "" THEN {"unusable-solo-patch"}
  ELSE IF \E j \in 1..Len(rec.fps) : rec.fps[j].rename THEN {}
  ELSE IF rec.fps = rec.solo["f1"] \o rec.solo["f2"] THEN {} ELSE {"state-leaks-between-files"}

Verdict(rec) ==
  [id |-> rec.id, key |-> Key(rec.c), ctx |-> rec.c.ctx, quirk |-> rec.err = "" /\ GitApplyQuirk(rec.c, rec.fps),
   probs |-> IF rec.err # "" THEN <<"unusable-patch">>
             ELSE SetToSeq(PatchProblems(rec.c.old, rec.c.new, rec.fps, rec.c.ctx) \cup StatProblems(rec.c, rec.fps, rec.stats)
                           \cup LeakProblems(rec)),
   gprobs |-> IF ~rec.hasgit THEN <<>>
              ELSE IF rec.gerr # "" THEN <<"unusable-patch">>
              ELSE SetToSeq(PatchProblems(rec.c.old, rec.c.new, rec.gfps, rec.c.ctx) \cup StatProblems(rec.c, rec.gfps, rec.gstats))]

VARIABLES i, v
cvars == <<i, v>>
CInit == i \in 1..N /\ v = Verdict(Recs[i]) /\ case = 0
CNext == UNCHANGED <<cvars, case>>
Out == PrintT(ToJson(v))
=============================================================================
