------------------------------- MODULE RevList -------------------------------
(* C37  Object selection for transfer (revlist.Objects(wants, haves);
   git rev-list --objects <wants> --not <haves>).

   A scenario is a small repository: a commit graph of DagUniverse, a root tree per
   commit out of a tiny tree universe (three blobs, two two-entry subtrees that share
   one entry, content and directories that can be changed and changed back, a
   submodule entry, a tree without the directory), two annotated tags on arbitrary objects (a tag may point to the other
   tag), a want set and a have set (haves may name an object that is not stored).

     ReachW = Reach(wants)       Need = Reach(wants) \ Reach(haves)
     contract on the real result:   Need \subseteq Result \subseteq ReachW

   Objects are strings: "c1".."c5" commits, "rAA" .. root trees, "sA" "sB" subtrees,
   "bA" "bB" "bC" blobs, "t1" "t2" tags, "zz" an id that is not in the store, "xx" the
   (never stored) submodule commit.  Committer times are not part of Need/ReachW: the
   answers are functions of the graph; times are carried so that the harness builds
   them (the implementation's walk is time-ordered).

   Two domains:
   Mode = "grid"    exhaustive: every DAG of DagSets(N, K) x 3 tree patterns x every
                    non-empty want set and every have set OF COMMITS; one TLC state per
                    (DAG, pattern) with all its queries (rows have no tm: the harness crosses them with every
                    weak order of revlist_times.ndjson).
   Mode = "random"  Samples scenarios drawn by TLC (RandomElement, reproducible with
                    -seed) from the full product: DAG x weak order x tree per commit x
                    tag targets x wants (<= 3 objects of any type) x haves (<= 3 objects,
                    possibly the missing one); rows are printed from the states. *)
EXTENDS DagUniverse, TLC, Json, SequencesExt

CONSTANTS N, K, Mode, Samples,
          NPat      \* grid: number of tree patterns used (1..4)

\* ------------------------------------------------------------- tree universe
RootDef == [rAA  |-> [f |-> "bA", d |-> "sA",   m |-> FALSE],
            rBA  |-> [f |-> "bB", d |-> "sA",   m |-> FALSE],
            rAB  |-> [f |-> "bA", d |-> "sB",   m |-> FALSE],
            rBB  |-> [f |-> "bB", d |-> "sB",   m |-> FALSE],
            rAAm |-> [f |-> "bA", d |-> "sA",   m |-> TRUE],     \* plus a gitlink entry "m" -> "xx"
            rB   |-> [f |-> "bB", d |-> "none", m |-> FALSE]]    \* no directory at all
RootNames == DOMAIN RootDef
Subs      == {"sA", "sB"}
Blobs     == {"bA", "bB", "bC"}
\* a subtree has TWO entries: g (differs between sA and sB) and h -> bC (the same in both, and bC
\* occurs nowhere else).  A directory changed sA -> sB -> sA along a history therefore carries an
\* unchanged entry next to a changed-and-reverted one: the unchanged blob is introduced only by
\* the oldest commit that has the directory (a seen directory is not a completely collected one).
SubBlobs  == [sA |-> {"bA", "bC"}, sB |-> {"bB", "bC"}]
Tags      == {"t1", "t2"}
Missing   == "zz"

CNameF  == [c \in 1..N |-> "c" \o ToString(c)]
CName(c) == CNameF[c]
Commits  == {CName(c) : c \in 1..N}
CNumF   == [x \in Commits |-> CHOOSE c \in 1..N : CNameF[c] = x]
CNum(x)  == CNumF[x]

Stored == Commits \cup RootNames \cup Subs \cup Blobs \cup Tags

TreeClosure(r) ==
  IF r \in RootNames
    THEN {r, RootDef[r].f} \cup (IF RootDef[r].d = "none" THEN {} ELSE {RootDef[r].d} \cup SubBlobs[RootDef[r].d])
  ELSE IF r \in Subs THEN {r} \cup SubBlobs[r]
  ELSE {r}                                                        \* a blob
TC == [r \in RootNames \cup Subs \cup Blobs |-> TreeClosure(r)]

\* ReachFn(sc): object |-> set of objects reachable from it, for every stored object and the
\* missing id; sc = [par, tree, tag1, tag2, ...].  Computed once per scenario.
ReachFn(sc) ==
  LET A  == AncOf(sc.par)
      CR == [x \in Commits |-> UNION {{CNameF[a]} \cup TC[sc.tree[a]] : a \in A[CNumF[x]]}]
      NT == [x \in (Stored \ Tags) \cup {Missing} |->
               IF x \in Commits THEN CR[x] ELSE IF x = Missing THEN {} ELSE TC[x]]
      T1 == {"t1"} \cup NT[sc.tag1]                               \* tag1 never points to a tag
      T2 == {"t2"} \cup (IF sc.tag2 = "t1" THEN T1 ELSE NT[sc.tag2])
  IN [x \in Stored \cup {Missing} |-> IF x = "t1" THEN T1 ELSE IF x = "t2" THEN T2 ELSE NT[x]]

ObjReach(sc, x)  == ReachFn(sc)[x]
ReachOf(R, S)    == UNION {R[x] : x \in S}
ReachSet(sc, S)  == ReachOf(ReachFn(sc), S)
Need(sc)   == LET R == ReachFn(sc) IN ReachOf(R, sc.wants) \ ReachOf(R, sc.haves)
ReachW(sc) == ReachSet(sc, sc.wants)

Row(sc) == LET R == ReachFn(sc) IN
           [n |-> N, par |-> sc.par, tm |-> sc.tm, tree |-> sc.tree, tag1 |-> sc.tag1, tag2 |-> sc.tag2,
            wants |-> sc.wants, haves |-> sc.haves,
            need |-> ReachOf(R, sc.wants) \ ReachOf(R, sc.haves), reach |-> ReachOf(R, sc.wants)]

\* ------------------------------------------------------------------ domains
Dags == DagSets(N, K)
RootSeq == <<"rAA", "rBA", "rAB", "rBB", "rAAm", "rB">>
\* tree patterns for the grid: no directory at commit 1, then the directory changed and changed
\* back (sA, sB, sA, ...) with its entry h untouched / every commit its own tree / the file f
\* changed and changed back / one tree everywhere
PatternSeq == <<[c \in 1..N |-> IF c = 1 THEN "rB" ELSE IF c % 2 = 0 THEN "rAA" ELSE "rAB"],
                [c \in 1..N |-> RootSeq[((c - 1) % 6) + 1]],
                [c \in 1..N |-> IF c % 2 = 1 THEN "rAA" ELSE "rBA"],
                [c \in 1..N |-> "rAA"]>>
Patterns == {PatternSeq[i] : i \in 1..NPat}
GridBase == {[par |-> d, tm |-> <<>>, tree |-> p, tag1 |-> "c1", tag2 |-> "t1", wants |-> {}, haves |-> {}] :
                d \in Dags, p \in Patterns}
GridQ == ((SUBSET Commits) \ {{}}) \X (SUBSET Commits)           \* every (wants, haves) of commits
GridRow(g) == LET R == ReachFn(g) IN
              [n |-> N, par |-> g.par, tree |-> g.tree, tag1 |-> g.tag1, tag2 |-> g.tag2,
               q |-> {[wants |-> wh[1], haves |-> wh[2],
                       need |-> ReachOf(R, wh[1]) \ ReachOf(R, wh[2]), reach |-> ReachOf(R, wh[1])] : wh \in GridQ}]

\* (explicit set constructors: TLC keeps {x \in SUBSET S : P} lazy and RandomElement would re-enumerate it)
Small1(S)  == {{x} : x \in S} \cup {{x, y} : x \in S, y \in S} \cup {{x, y, z} : x \in S, y \in S, z \in S}
WantSets   == Small1(Stored)
HaveSets   == Small1(Stored \cup {Missing}) \cup {{}}
Tag1Tgts   == Stored \ Tags
Tag2Tgts   == Stored \ {"t2"}
Times      == {t : t \in WeakOrders(N)}
CommitSets == SUBSET Commits
\* every second sample asks about commits only (the time-ordered painted walk), the others about any objects
RandomScenario(i) == [par |-> RandomElement(Dags), tm |-> RandomElement(Times),
                   tree |-> [c \in 1..N |-> RandomElement(RootNames)],
                   tag1 |-> RandomElement(Tag1Tgts), tag2 |-> RandomElement(Tag2Tgts),
                   wants |-> IF i % 2 = 0 THEN RandomElement(CommitSets \ {{}}) ELSE RandomElement(WantSets),
                   haves |-> IF i % 2 = 0 THEN RandomElement(CommitSets) ELSE RandomElement(HaveSets)]

ASSUME Mode = "grid" => ndJsonSerialize("revlist_rows.ndjson", SetToSeq({GridRow(g) : g \in GridBase}))
ASSUME Mode = "grid" => ndJsonSerialize("revlist_times.ndjson", SetToSeq({[tm |-> t] : t \in Times}))

VARIABLE sc
Init == IF Mode = "grid" THEN sc \in GridBase
        ELSE \E i \in 1..Samples : sc = RandomScenario(i)
Next == UNCHANGED sc

\* ----------------------------------------------------------- spec-level theorems
\* (in grid mode a state stands for all its (wants, haves) queries)
Queries == IF Mode = "grid" THEN GridQ ELSE {<<sc.wants, sc.haves>>}
Laws ==
  LET R == ReachFn(sc)
      A == AncOf(sc.par)
  IN \A wh \in Queries :
     LET W == wh[1]  H == wh[2]
         RW == ReachOf(R, W)  RH == ReachOf(R, H)  Nd == RW \ RH
     IN /\ Nd \subseteq RW
        /\ \A w \in W : (w \notin RH) => w \in Nd
        /\ (H \subseteq {Missing}) => Nd = RW
        /\ \A h \in H : h \notin Nd
        /\ \A x \in RW : R[x] \subseteq RW                              \* ReachW is closed
        /\ "xx" \notin RW /\ Missing \notin RW                            \* never the submodule commit
        /\ \A x \in Nd \cap Commits : \A w \in W \cap Commits : \A y \in Commits :   \* no hole in needed history
              (CNumF[x] \in A[CNumF[y]] /\ CNumF[y] \in A[CNumF[w]]) => y \in Nd
EmitRow == (Mode = "random") => PrintT(ToJson(Row(sc)))
=============================================================================
