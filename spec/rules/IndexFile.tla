------------------------------ MODULE IndexFile ------------------------------
(* git's index file format (Documentation/gitformat-index.txt, read-cache.c), transcribed at
   token level.  The abstract index is

       ver    requested version 2..4
       ents   a function  name -> kind  over a small set of names; a kind stands for the set of
              cache entries recorded for that name (a merged entry with mode / id / flags, the
              stages of a conflict, or a conflict that was resolved and left a resolve-undo record)
       tail   extensions requested {TREE, EOIE, UNKOPT, UNKMAND} + trailer kind (sha | zero)

   Names are *byte sequences* (integers), so git's ordering rule (memcmp, shorter first, then
   stage) is evaluated by TLC on the real bytes; the harness renders them verbatim.

   The module computes for every abstract state
     Sorted(s)   the entries in the order every reader / writer must use,
     Layout      per entry the values of the fields whose value is forced by the format
                 (flag bits, 12-bit name length field = min(len, 0xFFF), extended-flags word present,
                 v2/v3 NUL padding 1..8, v4 strip-length interval + canonical varint),
     GitVer      the version git writes (3 iff an extended flag is set, unless 4 was requested),
     Reuc, Tree  the resolve-undo records and the cache-tree skeleton git records,
     Accept      whether a reader must accept the file (unknown lower-case extension => reject).
   The harness (harness/cmd/vhfmt/c12.go) only renders states into index.Index values / git
   commands, tokenises the produced bytes and compares them with these rows.                   *)
EXTENDS Integers, Sequences, FiniteSets, TLC, Json, IOUtils, SequencesExt, FiniteSetsExt

CONSTANTS MaxNames,    \* entry sets over at most MaxNames names with the full kind set
          MidNames,    \* ... and over exactly MidNames names with the medium kind set (0 = off)
          MaxSmall,    \* ... and over exactly MaxSmall names with the reduced kind set (0 = off)
          Emit         \* TRUE: serialise the tables

-----------------------------------------------------------------------------
\* names
Rep(b, n) == [i \in 1..n |-> b]
NameBytes == [
  a     |-> <<97>>,                       \* "a"
  am    |-> <<97, 45>>,                   \* "a-"
  adb   |-> <<97, 46, 98>>,               \* "a.b"
  asb   |-> <<97, 47, 98>>,               \* "a/b"   (D/F conflict with "a")
  L4094 |-> <<100, 47>> \o Rep(120, 4092),\* "d/xxx..." 0xFFE bytes
  L4095 |-> <<100, 47>> \o Rep(120, 4093),\* 0xFFF: the name-length field saturates
  L4096 |-> <<100, 47>> \o Rep(120, 4094),\* 0x1000
  M127  |-> <<109, 47>> \o Rep(121, 125), \* "m/yyy..." 127 bytes: strip length fits one varint byte
  M128  |-> <<109, 47>> \o Rep(121, 126), \* 128 bytes: two varint bytes when fully stripped
  z     |-> <<122>>,                      \* "z"
  u8    |-> <<195, 169>> ]                \* U+00E9 in UTF-8 (bytes >= 0x80 sort last: unsigned compare)
Names == DOMAIN NameBytes
\* (tables are built with :> / @@ so that TLC holds them as explicit values, not as lazy lambdas)
Table(S, F(_)) == FoldSet(LAMBDA p, acc : acc @@ (p :> F(p)), <<>>, S)
NLenTab == Table(Names, LAMBDA n : Len(NameBytes[n]))
NLen(n) == NLenTab[n]

\* length of the longest common prefix (table over name pairs, evaluated once)
CPRaw(x, y) == LET m == IF Len(x) < Len(y) THEN Len(x) ELSE Len(y)
                   d == {i \in 1..m : x[i] # y[i]}
               IN IF d = {} THEN m ELSE Min(d) - 1
CP == Table(Names \X Names, LAMBDA p : CPRaw(NameBytes[p[1]], NameBytes[p[2]]))

\* read-cache.c cache_name_stage_compare: memcmp over the common length, then length, then stage
NameLess(p, q) == LET x == NameBytes[p]  y == NameBytes[q]  c == CP[<<p, q>>]
                  IN IF c = Len(x) THEN Len(x) < Len(y)
                     ELSE IF c = Len(y) THEN FALSE ELSE x[c+1] < y[c+1]
NameLT == Table(Names \X Names, LAMBDA p : NameLess(p[1], p[2]))

\* a file name and a directory of the same name cannot both be in a (stage 0) index
DirOf(n) == IF \E i \in 1..NLen(n) : NameBytes[n][i] = 47
            THEN SubSeq(NameBytes[n], 1, Min({i \in 1..NLen(n) : NameBytes[n][i] = 47}) - 1) ELSE <<>>
DirTab == Table(Names, DirOf)
NoDF(S) == \A p, q \in S : DirTab[q] # NameBytes[p]

-----------------------------------------------------------------------------
\* entry kinds
E(st, mode, id, av, sw, ita) == [st |-> st, mode |-> mode, id |-> id, av |-> av, sw |-> sw, ita |-> ita]
KindEntries == [
  f1   |-> {E(0, "100644", "h1", FALSE, FALSE, FALSE)},
  x2   |-> {E(0, "100755", "h2", FALSE, FALSE, FALSE)},
  l1   |-> {E(0, "120000", "h1", FALSE, FALSE, FALSE)},
  g2   |-> {E(0, "160000", "h2", FALSE, FALSE, FALSE)},
  sw   |-> {E(0, "100644", "h1", FALSE, TRUE,  FALSE)},
  ita  |-> {E(0, "100644", "e",  FALSE, FALSE, TRUE)},       \* git add -N: the empty blob
  av   |-> {E(0, "100644", "h2", TRUE,  FALSE, FALSE)},
  avsw |-> {E(0, "100755", "h1", TRUE,  TRUE,  FALSE)},
  c123 |-> {E(1, "100644", "h1", FALSE, FALSE, FALSE), E(2, "100644", "h2", FALSE, FALSE, FALSE),
            E(3, "100755", "h1", FALSE, FALSE, FALSE)},
  c23  |-> {E(2, "100644", "h1", FALSE, FALSE, FALSE), E(3, "100644", "h2", FALSE, FALSE, FALSE)},
  c13  |-> {E(1, "100644", "h2", FALSE, FALSE, FALSE), E(3, "120000", "h1", FALSE, FALSE, FALSE)},
  r123 |-> {E(0, "100644", "h2", FALSE, FALSE, FALSE)},      \* resolved; undo record below
  r23  |-> {E(0, "100755", "h1", FALSE, FALSE, FALSE)} ]
Kinds == DOMAIN KindEntries
MidKinds   == {"f1", "x2", "sw", "ita", "av", "c123", "c23", "r123"}
SmallKinds == {"f1", "sw", "ita", "c23", "r123", "av"}
\* what the conflict looked like before it was resolved (recorded in REUC); "0" = stage absent
None == [mode |-> "0", id |-> ""]
U(mode, id) == [mode |-> mode, id |-> id]
KindUndo == [k \in Kinds |->
  CASE k = "r123" -> <<U("100644", "h1"), U("100644", "h2"), U("100755", "h1")>>
    [] k = "r23"  -> <<None, U("100644", "h1"), U("100644", "h2")>>
    [] OTHER      -> <<>>]
Unmerged(k) == \E e \in KindEntries[k] : e.st # 0
HasIta(k)   == \E e \in KindEntries[k] : e.ita
HasAv(k)    == \E e \in KindEntries[k] : e.av

-----------------------------------------------------------------------------
\* tails: extensions + trailer
Tails == [
  t0 |-> [x |-> {},                  tr |-> "sha"],
  t1 |-> [x |-> {},                  tr |-> "zero"],
  t2 |-> [x |-> {"TREE"},            tr |-> "sha"],
  t3 |-> [x |-> {"EOIE"},            tr |-> "sha"],
  t4 |-> [x |-> {"TREE", "EOIE"},    tr |-> "zero"],
  t5 |-> [x |-> {"UNKOPT"},          tr |-> "sha"],
  t6 |-> [x |-> {"UNKMAND"},         tr |-> "sha"],
  t7 |-> [x |-> {"TREE", "UNKOPT"},  tr |-> "sha"],
  t8 |-> [x |-> {"UNKMAND"},         tr |-> "zero"] ]
TailIds == DOMAIN Tails
\* a reader must refuse an extension it does not know whose signature does not start with 'A'..'Z'
Accept(t) == "UNKMAND" \notin Tails[t].x
\* extensions carrying information that a rewrite must preserve; the others are caches that any
\* writer may drop (git itself invalidates / regenerates them)
MustKeep == {"REUC"}
MayDrop  == {"TREE", "EOIE", "UNKOPT"}

-----------------------------------------------------------------------------
\* abstract states
EntSets(k, KS) == UNION {[S -> KS] : S \in {T \in SUBSET Names : Cardinality(T) = k /\ NoDF(T)}}
AllEnts == UNION {EntSets(k, Kinds) : k \in 0..MaxNames} \cup
           (IF MidNames > MaxNames THEN EntSets(MidNames, MidKinds) ELSE {}) \cup
           (IF MaxSmall > MaxNames THEN EntSets(MaxSmall, SmallKinds) ELSE {})

Flat(f) == UNION {{[n |-> n, e |-> e] : e \in KindEntries[f[n]]} : n \in DOMAIN f}
EntLess(a, b) == IF a.n = b.n THEN a.e.st < b.e.st ELSE NameLT[<<a.n, b.n>>]
Sorted(f) == SetToSortSeq(Flat(f), EntLess)

Ext(e) == e.sw \/ e.ita
HasExt(f) == \E x \in Flat(f) : Ext(x.e)
GitVer(ver, f) == IF ver = 4 THEN 4 ELSE IF HasExt(f) THEN 3 ELSE 2

\* git's offset varint (varint.c): most significant group first, each continuation adds one
RECURSIVE VarintHi(_)
VarintHi(n) == IF n = 0 THEN <<>> ELSE LET m == n - 1 IN VarintHi(m \div 128) \o <<128 + (m % 128)>>
Varint(n) == VarintHi(n \div 128) \o <<n % 128>>
RECURSIVE VarintVal(_, _)
VarintVal(acc, bs) == IF bs = <<>> THEN acc
                      ELSE VarintVal((acc + 1) * 128 + (Head(bs) % 128), Tail(bs))
Unvarint(bs) == VarintVal(Head(bs) % 128, Tail(bs))

Pad(hdr, len) == 8 - ((hdr + len) % 8)
LayoutOf(seq) == [i \in 1..Len(seq) |->
   LET x == seq[i]  len == NLen(x.n)
       hdr == 62 + (IF Ext(x.e) THEN 2 ELSE 0)
       prev == IF i = 1 THEN "" ELSE seq[i-1].n
       smin == IF i = 1 THEN 0 ELSE NLen(prev) - CP[<<prev, x.n>>]
       smax == IF i = 1 THEN 0 ELSE NLen(prev)
   IN [n |-> x.n, st |-> x.e.st, mode |-> x.e.mode, id |-> x.e.id,
       av |-> x.e.av, sw |-> x.e.sw, ita |-> x.e.ita,
       ext |-> Ext(x.e), nlen |-> IF len < 4095 THEN len ELSE 4095, pad |-> Pad(hdr, len),
       smin |-> smin, smax |-> smax, vmin |-> Varint(smin)]]

Reuc(f) == {[n |-> n, st |-> KindUndo[f[n]]] : n \in {m \in DOMAIN f : KindUndo[f[m]] # <<>>}}

\* cache-tree git records after write-tree (only defined for fully merged indexes without
\* intent-to-add entries): root, then one node per top-level directory in name order
TreeOK(f) == \A n \in DOMAIN f : ~Unmerged(f[n]) /\ ~HasIta(f[n])
Dirs(f) == {DirTab[n] : n \in DOMAIN f} \ {<<>>}
DirLess(x, y) == IF Len(x) # Len(y) THEN Len(x) < Len(y) ELSE x[1] < y[1]  \* cache-tree.c subtree_name_cmp
Tree(f) == IF ~TreeOK(f) \/ DOMAIN f = {} THEN <<>>
           ELSE <<[path |-> <<>>, count |-> Cardinality(DOMAIN f), subs |-> Cardinality(Dirs(f))]>> \o
                [i \in 1..Cardinality(Dirs(f)) |->
                   LET d == SetToSortSeq(Dirs(f), DirLess)[i]
                   IN [path |-> d, count |-> Cardinality({n \in DOMAIN f : DirTab[n] = d}), subs |-> 0]]

Row(f) == [ents   |-> SetToSeq({[n |-> n, k |-> f[n]] : n \in DOMAIN f}),
           lay    |-> LayoutOf(Sorted(f)),
           hasext |-> HasExt(f),
           reuc   |-> SetToSeq(Reuc(f)),
           treeok |-> TreeOK(f) /\ DOMAIN f # {},
           tree   |-> Tree(f),
           unm    |-> \E n \in DOMAIN f : Unmerged(f[n]),
           hasav  |-> \E n \in DOMAIN f : HasAv(f[n]),
           hasita |-> \E n \in DOMAIN f : HasIta(f[n])]

TailRow(t) == [t |-> t, x |-> SetToSeq(Tails[t].x), tr |-> Tails[t].tr, accept |-> Accept(t)]
VerRow == [v \in {2, 3, 4} |-> [plain |-> IF v = 4 THEN 4 ELSE 2, extended |-> IF v = 4 THEN 4 ELSE 3]]

ASSUME Emit => /\ ndJsonSerialize("index_rows.ndjson", SetToSeq({Row(f) : f \in AllEnts}))
               /\ ndJsonSerialize("index_tails.ndjson", SetToSeq({TailRow(t) : t \in TailIds}))
               /\ ndJsonSerialize("index_names.ndjson", SetToSeq({[n |-> n, bytes |-> NameBytes[n]] : n \in Names}))
               /\ ndJsonSerialize("index_meta.ndjson",
                    <<[mustkeep |-> SetToSeq(MustKeep), maydrop |-> SetToSeq(MayDrop),
                       gitver |-> [v \in {"2", "3", "4"} |->
                                    [plain |-> IF v = "4" THEN 4 ELSE 2, extended |-> IF v = "4" THEN 4 ELSE 3]]]>>)

-----------------------------------------------------------------------------
\* constant-level theorems (checked once)
\* what a v4 reader reconstructs from (previous name, strip, suffix)
Recon(prev, strip, suffix) == SubSeq(prev, 1, Len(prev) - strip) \o suffix
ASSUME \A p, q \in Names : LET c == CP[<<p, q>>] x == NameBytes[p] y == NameBytes[q]
                           IN \A s \in {Len(x) - c, Len(x)} :   \* both ends of the admissible interval
                                 Recon(x, s, SubSeq(y, Len(x) - s + 1, Len(y))) = y
ASSUME \A n \in 0..20000 : Unvarint(Varint(n)) = n
ASSUME Varint(127) = <<127>> /\ Varint(128) = <<128, 0>> /\ Varint(16511) = <<255, 127>> /\ Varint(16512) = <<128, 128, 0>>
ASSUME \A hdr \in {62, 64}, len \in 0..4200 : Pad(hdr, len) \in 1..8 /\ (hdr + len + Pad(hdr, len)) % 8 = 0
\* NameLT is a strict total order on the names
ASSUME \A p, q \in Names : (p # q) => (NameLT[<<p, q>>] # NameLT[<<q, p>>])
ASSUME \A p, q, r \in Names : (NameLT[<<p, q>>] /\ NameLT[<<q, r>>]) => NameLT[<<p, r>>]

-----------------------------------------------------------------------------
\* every (ver, entry set) is one TLC state; per-state theorems are invariants
\* (the tail is an independent factor: a 9-row table of its own, see TailRow)
VARIABLES ver, ents, lay
vars == <<ver, ents, lay>>
Init == /\ ver \in {2, 3, 4} /\ ents \in AllEnts
        /\ lay = LayoutOf(Sorted(ents))
Next == UNCHANGED vars
Spec == Init /\ [][Next]_vars

StrictlySorted == \A i \in 1..Len(lay)-1 :
                    \/ NameLT[<<lay[i].n, lay[i+1].n>>]
                    \/ (lay[i].n = lay[i+1].n /\ lay[i].st < lay[i+1].st)
CountOK == Len(lay) = Cardinality(Flat(ents))
\* the version git writes is 3 exactly when it is not 4 and some entry needs the extended flags word
VersionRule == (GitVer(ver, ents) = 3) <=> (ver # 4 /\ \E i \in 1..Len(lay) : lay[i].ext)
VersionFactor == GitVer(ver, ents) = IF HasExt(ents) THEN VerRow[ver].extended ELSE VerRow[ver].plain
\* name length field saturates, and an extended entry is never a conflict stage in this domain
NameLenRule == \A i \in 1..Len(lay) : lay[i].nlen = Min({NLen(lay[i].n), 4095})
StripRule == \A i \in 1..Len(lay) : /\ lay[i].smin <= lay[i].smax
                                    /\ Unvarint(lay[i].vmin) = lay[i].smin
                                    /\ (i > 1 /\ lay[i].n = lay[i-1].n) => lay[i].smin = 0
\* a resolved path is merged: resolve-undo names and unmerged names are disjoint
ReucDisjoint == \A r \in Reuc(ents) : ~Unmerged(ents[r.n])
TreeCounts == LET t == Tree(ents) IN
              Len(t) > 0 => t[1].count = Len(lay) /\ t[1].subs = Len(t) - 1
=============================================================================
