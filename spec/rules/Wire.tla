------------------------------- MODULE Wire -------------------------------
(* Smart-protocol messages (Documentation/gitprotocol-pack.txt, gitprotocol-capabilities.txt,
   connect.c / upload-pack.c / send-pack.c / receive-pack.c) at token level.

   A message value is a record with a type tag t.  Its encoding is a sequence of pkt-line tokens
       [k |-> "data", w |-> <<words before NUL, split at spaces>>, caps |-> <<words after NUL>>,
        nul |-> BOOLEAN, nl |-> BOOLEAN]   |   [k |-> "flush", ...]
   (object ids appear as the symbols h1, h2, h3, zero).  For every message type this module gives
     Values(t)          the bounded set of values TLC enumerates,
     Grammar(v, toks)   the admissible token sequences for v as git's peer reads them: structural
                        rules (where capabilities go, ordering, peeled entry right after its tag,
                        shallow lines after refs, flush placement, LF) and Parse(toks) = Content(v).
   The harness (harness/cmd/vhfmt/c35.go) builds the go-git value, checks Decode(Encode(v)) = v in
   Go, tokenises go-git's bytes and WireCheck.tla evaluates Grammar on every record.          *)
EXTENDS Integers, Sequences, FiniteSets, TLC, Json, IOUtils, SequencesExt, FiniteSetsExt

CONSTANTS Emit, Big   \* Big = TRUE: larger value sets (thorough tier)

H == {"h1", "h2", "h3"}
SubsetsUpTo(S, n) == {T \in SUBSET S : Cardinality(T) <= n}

-----------------------------------------------------------------------------
\* reference advertisement
\* the ref universe in git's advertisement order (HEAD first, then for-each-ref order = byte order)
RefOrder == << [n |-> "HEAD",          h |-> "h1", p |-> ""],
               [n |-> "refs/heads/m",  h |-> "h1", p |-> ""],
               [n |-> "refs/tags/a",   h |-> "h3", p |-> "h1"],   \* annotated tag: peeled to h1
               \* a name that extends an annotated tag's name with a byte below '^' (0x5e): in plain byte
               \* order "refs/tags/a.0" falls between "refs/tags/a" and "refs/tags/a^{}", yet the peeled
               \* entry of refs/tags/a must come immediately after refs/tags/a
               [n |-> "refs/tags/a.0", h |-> "h2", p |-> "h1"],
               [n |-> "refs/tags/t",   h |-> "h3", p |-> "h2"],
               [n |-> "refs/tags/u",   h |-> "h2", p |-> ""] >>
RefIdx == 1..Len(RefOrder)
Rank(name) == CHOOSE i \in RefIdx : RefOrder[i].n = name \/ RefOrder[i].n \o "^{}" = name

UploadCaps == <<"multi_ack", "thin-pack", "side-band", "side-band-64k", "ofs-delta", "shallow", "deepen-since",
                "deepen-not", "deepen-relative", "no-progress", "include-tag", "multi_ack_detailed", "no-done",
                "allow-tip-sha1-in-want", "allow-reachable-sha1-in-want", "filter">>
ValueCaps == <<"symref=HEAD:refs/heads/m", "object-format=sha1", "agent=git/2.39.5", "session-id=abc">>
ReceiveCaps == <<"report-status", "report-status-v2", "delete-refs", "side-band-64k", "quiet", "atomic", "ofs-delta",
                 "push-options">>
Singletons(q) == {<<q[i]>> : i \in 1..Len(q)}
AdvCapChoices == {<<>>} \cup Singletons(UploadCaps) \cup Singletons(ValueCaps) \cup Singletons(ReceiveCaps)
                 \cup {UploadCaps \o ValueCaps, ReceiveCaps \o <<"object-format=sha1", "agent=git/2.39.5">>,
                       <<"symref=HEAD:refs/heads/m", "symref=refs/remotes/o/HEAD:refs/remotes/o/m", "agent=x">>}
AdvValues == {[t |-> "adv", ver |-> ver, refs |-> rs, caps |-> c, shallows |-> sh] :
                ver \in {0, 1}, rs \in SUBSET RefIdx, c \in (IF Big THEN AdvCapChoices ELSE {<<>>, <<"multi_ack">>, UploadCaps \o ValueCaps,
                          <<"symref=HEAD:refs/heads/m", "symref=refs/remotes/o/HEAD:refs/remotes/o/m", "agent=x">>}),
                sh \in (IF Big THEN {{}, {"h1"}, {"h1", "h2"}} ELSE {{}, {"h1", "h2"}})}

Data(w) == [k |-> "data", w |-> w, caps |-> <<>>, nul |-> FALSE, nl |-> TRUE]
IsData(tk) == tk.k = "data"
IsFlush(tk) == tk.k = "flush"
Kw(tk) == IF IsData(tk) /\ Len(tk.w) > 0 THEN tk.w[1] ELSE ""
ToSetSeq(q) == {q[i] : i \in 1..Len(q)}
LastIsOnlyFlush(toks) == /\ Len(toks) > 0 /\ IsFlush(toks[Len(toks)])
                         /\ \A i \in 1..Len(toks)-1 : IsData(toks[i])
AllNl(toks) == \A i \in 1..Len(toks) : IsData(toks[i]) => toks[i].nl

\* what the advertisement says: set of <<name, id>> incl. peeled names, capability set, shallow set
AdvContent(v) == [refs |-> {<<RefOrder[i].n, RefOrder[i].h>> : i \in v.refs} \cup
                           {<<RefOrder[i].n \o "^{}", RefOrder[i].p>> : i \in {j \in v.refs : RefOrder[j].p # ""}},
                  caps |-> ToSetSeq(v.caps), shallows |-> v.shallows]
\* git's client (connect.c get_remote_heads): capabilities come from behind the NUL of the first
\* line, "capabilities^{}" is not a ref, "shallow" lines are collected, the rest are refs
AdvParse(body) == [refs |-> {<<body[i].w[2], body[i].w[1]>> : i \in {j \in 1..Len(body) :
                               IsData(body[j]) /\ Len(body[j].w) = 2 /\ body[j].w[1] # "shallow" /\ body[j].w[2] # "capabilities^{}"}},
                   caps |-> IF Len(body) > 0 /\ IsData(body[1]) THEN ToSetSeq(body[1].caps) ELSE {},
                   shallows |-> {body[i].w[2] : i \in {j \in 1..Len(body) : Kw(body[j]) = "shallow" /\ Len(body[j].w) = 2}}]
AdvProblems(v, toks) ==
  LET hasver == Len(toks) > 0 /\ Kw(toks[1]) = "version"
      body == IF hasver THEN Tail(toks) ELSE toks
      n == Len(body)
      refIdx == {i \in 1..n : IsData(body[i]) /\ Kw(body[i]) # "shallow"}
      shIdx == {i \in 1..n : Kw(body[i]) = "shallow"}
      names == [i \in refIdx |-> IF Len(body[i].w) >= 2 THEN body[i].w[2] ELSE ""]
      known(i) == \E j \in RefIdx : RefOrder[j].n = names[i] \/ RefOrder[j].n \o "^{}" = names[i]
      peeled(i) == \E j \in RefIdx : RefOrder[j].n \o "^{}" = names[i]
  IN
  (IF (v.ver = 1) = hasver /\ (hasver => toks[1].w = <<"version", "1">>) THEN {} ELSE {"version-line"}) \cup
  (IF LastIsOnlyFlush(body) THEN {} ELSE {"flush-placement"}) \cup
  (IF AllNl(toks) THEN {} ELSE {"missing-LF"}) \cup
  \* capabilities behind a NUL on the first line and nowhere else
  (IF n > 0 /\ IsData(body[1]) /\ body[1].nul /\ \A i \in 2..n : IsData(body[i]) => ~body[i].nul THEN {} ELSE {"capabilities-not-on-first-line"}) \cup
  \* an empty repository advertises the zero id under the name capabilities^{}
  (IF v.refs = {} THEN (IF refIdx = {1} /\ body[1].w = <<"zero", "capabilities^{}">> THEN {} ELSE {"no-refs-line"})
   ELSE (IF \A i \in refIdx : names[i] # "capabilities^{}" THEN {} ELSE {"capabilities^{}-with-refs"})) \cup
  \* shallow lines come after all refs
  (IF \A i \in refIdx, j \in shIdx : i < j THEN {} ELSE {"shallow-before-ref"}) \cup
  \* refs in advertisement order (HEAD first, then sorted), a peeled entry right after its tag
  (IF v.refs = {} \/ ~(\A i \in refIdx : known(i)) THEN {}
   ELSE (IF \A i, j \in refIdx : i < j => (Rank(names[i]) < Rank(names[j]) \/ (Rank(names[i]) = Rank(names[j]) /\ ~peeled(i) /\ peeled(j)))
         THEN {} ELSE {"ref-order"}) \cup
        (IF \A j \in refIdx : peeled(j) => (j - 1 \in refIdx /\ names[j-1] \o "^{}" = names[j]) THEN {} ELSE {"peeled-not-after-its-tag"})) \cup
  (IF AdvParse(body) = AdvContent(v) THEN {}
   ELSE IF AdvParse(body).refs # AdvContent(v).refs THEN {"content:refs"}
   ELSE IF AdvParse(body).caps # AdvContent(v).caps THEN {"content:capabilities"} ELSE {"content:shallows"})

-----------------------------------------------------------------------------
\* upload-request (want / shallow / deepen / filter) and upload-haves
ReqCapChoices == {<<>>, <<"multi_ack_detailed">>, <<"multi_ack_detailed", "side-band-64k", "thin-pack", "ofs-delta", "agent=go-git/6.x">>,
                  <<"shallow", "deepen-since", "deepen-not", "filter", "no-progress", "include-tag">>}
Depths == {"none", "deepen", "since", "not", "since+not"}
UlReqValues == {[t |-> "ulreq", wants |-> w, caps |-> c, shallows |-> s, depth |-> d, filter |-> f] :
                  w \in (SUBSET H) \ {{}}, c \in ReqCapChoices, s \in {{}, {"h1"}, {"h1", "h3"}}, d \in Depths,
                  f \in {"", "blob:none"}}
DepthLines(d) == CASE d = "none" -> {}
                   [] d = "deepen" -> {<<"deepen", "1">>}
                   [] d = "since" -> {<<"deepen-since", "1000000000">>}
                   [] d = "not" -> {<<"deepen-not", "refs/heads/m">>}
                   [] d = "since+not" -> {<<"deepen-since", "1000000000">>, <<"deepen-not", "refs/heads/m">>}
Stage(tk) == CASE Kw(tk) = "want" -> 1 [] Kw(tk) = "shallow" -> 2
               [] Kw(tk) \in {"deepen", "deepen-since", "deepen-not"} -> 3 [] Kw(tk) = "filter" -> 4 [] OTHER -> 9
UlReqProblems(v, toks) ==
  LET n == Len(toks) IN
  (IF LastIsOnlyFlush(toks) THEN {} ELSE {"flush-placement"}) \cup
  (IF AllNl(toks) THEN {} ELSE {"missing-LF"}) \cup
  (IF \A i \in 1..n : IsData(toks[i]) => (~toks[i].nul /\ Stage(toks[i]) # 9) THEN {} ELSE {"unknown-line"}) \cup
  \* capabilities ride on the first want line only
  (IF n > 0 /\ Kw(toks[1]) = "want" /\ Len(toks[1].w) >= 2 /\ SubSeq(toks[1].w, 3, Len(toks[1].w)) = v.caps
      /\ \A i \in 2..n : Kw(toks[i]) = "want" => Len(toks[i].w) = 2 THEN {} ELSE {"capabilities-not-on-first-want"}) \cup
  (IF \A i, j \in 1..n : (i < j /\ IsData(toks[i]) /\ IsData(toks[j])) => Stage(toks[i]) <= Stage(toks[j]) THEN {} ELSE {"line-order"}) \cup
  (IF {toks[i].w[2] : i \in {j \in 1..n : Kw(toks[j]) = "want" /\ Len(toks[j].w) >= 2}} = v.wants THEN {} ELSE {"content:wants"}) \cup
  (IF {toks[i].w[2] : i \in {j \in 1..n : Kw(toks[j]) = "shallow" /\ Len(toks[j].w) = 2}} = v.shallows THEN {} ELSE {"content:shallows"}) \cup
  (IF {toks[i].w : i \in {j \in 1..n : IsData(toks[j]) /\ Stage(toks[j]) = 3}} = DepthLines(v.depth) THEN {} ELSE {"content:depth"}) \cup
  (IF {toks[i].w : i \in {j \in 1..n : Kw(toks[j]) = "filter"}} = (IF v.filter = "" THEN {} ELSE {<<"filter", v.filter>>}) THEN {} ELSE {"content:filter"})

HavesValues == {[t |-> "haves", haves |-> hs, done |-> d] : hs \in SUBSET H, d \in BOOLEAN}
HavesProblems(v, toks) ==
  LET n == Len(toks) IN
  (IF n > 0 /\ (IF v.done THEN IsData(toks[n]) /\ toks[n].w = <<"done">> ELSE IsFlush(toks[n]))
      /\ \A i \in 1..n-1 : Kw(toks[i]) = "have" /\ Len(toks[i].w) = 2 THEN {} ELSE {"have-lines-then-done-or-flush"}) \cup
  (IF AllNl(toks) THEN {} ELSE {"missing-LF"}) \cup
  (IF {toks[i].w[2] : i \in {j \in 1..n : Kw(toks[j]) = "have" /\ Len(toks[j].w) = 2}} = v.haves THEN {} ELSE {"content:haves"})

-----------------------------------------------------------------------------
\* server response (ACK / NAK), shallow-update
Statuses == {"continue", "common", "ready"}
Ack(h, s) == [h |-> h, s |-> s]
SrvValues == {[t |-> "srvresp", acks |-> a] : a \in
                {<<>>, <<Ack("h1", "")>>, <<Ack("h2", "")>>} \cup
                {<<Ack("h1", s)>> : s \in Statuses} \cup
                {<<Ack("h1", s), Ack("h2", "")>> : s \in Statuses} \cup
                {<<Ack("h1", s1), Ack("h2", s2)>> : s1 \in Statuses, s2 \in Statuses} \cup
                {<<Ack("h1", "common"), Ack("h2", "common"), Ack("h3", "ready"), Ack("h3", "")>>}}
SrvParse(toks) == [i \in 1..Len(toks) |-> IF Kw(toks[i]) = "ACK" /\ Len(toks[i].w) \in {2, 3}
                                           THEN Ack(toks[i].w[2], IF Len(toks[i].w) = 3 THEN toks[i].w[3] ELSE "") ELSE Ack("?", "?")]
SrvProblems(v, toks) ==
  (IF AllNl(toks) /\ \A i \in 1..Len(toks) : IsData(toks[i]) THEN {} ELSE {"missing-LF-or-flush"}) \cup
  (IF v.acks = <<>> THEN (IF Len(toks) = 1 /\ toks[1].w = <<"NAK">> THEN {} ELSE {"NAK-expected"})
   ELSE IF SrvParse(toks) = v.acks THEN {} ELSE {"content:acks"})

ShUpdValues == {[t |-> "shupd", sh |-> s, unsh |-> u] : s \in SubsetsUpTo(H, 2), u \in SubsetsUpTo(H, 2)}
ShUpdProblems(v, toks) ==
  LET n == Len(toks) IN
  (IF LastIsOnlyFlush(toks) THEN {} ELSE {"flush-placement"}) \cup
  (IF AllNl(toks) THEN {} ELSE {"missing-LF"}) \cup
  (IF \A i \in 1..n-1 : Kw(toks[i]) \in {"shallow", "unshallow"} /\ Len(toks[i].w) = 2 THEN {} ELSE {"unknown-line"}) \cup
  (IF {toks[i].w[2] : i \in {j \in 1..n : Kw(toks[j]) = "shallow" /\ Len(toks[j].w) = 2}} = v.sh
      /\ {toks[i].w[2] : i \in {j \in 1..n : Kw(toks[j]) = "unshallow" /\ Len(toks[j].w) = 2}} = v.unsh THEN {} ELSE {"content"})

-----------------------------------------------------------------------------
\* update requests (push commands), push options, report-status
Cmd(o, n, name) == [old |-> o, new |-> n, name |-> name]
CmdUniverse == {Cmd("zero", "h1", "refs/heads/m"), Cmd("h1", "h2", "refs/heads/m"), Cmd("h1", "zero", "refs/heads/m"),
                Cmd("zero", "h3", "refs/tags/t"), Cmd("h2", "zero", "refs/tags/u")}
CmdSeqs == {q \in UNION {[1..k -> CmdUniverse] : k \in 1..(IF Big THEN 3 ELSE 2)} :
              \A i, j \in 1..Len(q) : i # j => q[i].name # q[j].name}
PushCapChoices == {<<>>, <<"report-status">>, <<"report-status-v2", "side-band-64k", "atomic", "push-options", "object-format=sha1", "agent=go-git/6.x">>}
UpdReqValues == {[t |-> "updreq", cmds |-> q, caps |-> c, shallows |-> s] : q \in CmdSeqs, c \in PushCapChoices, s \in {{}, {"h1"}}}
UpdReqProblems(v, toks) ==
  LET n == Len(toks)
      cmdIdx == {i \in 1..n : IsData(toks[i]) /\ Kw(toks[i]) # "shallow"}
      first == IF cmdIdx = {} THEN 0 ELSE Min(cmdIdx)
      seqOf == SetToSortSeq(cmdIdx, LAMBDA a, b : a < b)
  IN
  (IF LastIsOnlyFlush(toks) THEN {} ELSE {"flush-placement"}) \cup
  (IF \A i \in 1..n : Kw(toks[i]) = "shallow" => (Len(toks[i].w) = 2 /\ \A j \in cmdIdx : i < j) THEN {} ELSE {"shallow-after-command"}) \cup
  \* the first command carries NUL + capabilities, the others do not
  (IF first # 0 /\ toks[first].nul /\ ToSetSeq(toks[first].caps) = ToSetSeq(v.caps) /\ \A i \in cmdIdx \ {first} : ~toks[i].nul
   THEN {} ELSE {"capabilities-not-on-first-command"}) \cup
  (IF Len(seqOf) = Len(v.cmds) /\ \A k \in 1..Len(seqOf) : toks[seqOf[k]].w = <<v.cmds[k].old, v.cmds[k].new, v.cmds[k].name>>
   THEN {} ELSE {"content:commands"}) \cup
  (IF {toks[i].w[2] : i \in {j \in 1..n : Kw(toks[j]) = "shallow" /\ Len(toks[j].w) = 2}} = v.shallows THEN {} ELSE {"content:shallows"})

PushOptValues == {[t |-> "pushopts", opts |-> o] : o \in {<<>>, <<"ci.skip">>, <<"a=b", "c">>, <<"two words", "x">>}}
Join(ws) == FoldLeft(LAMBDA acc, x : IF acc = "" THEN x ELSE acc \o " " \o x, "", ws)
PushOptProblems(v, toks) ==
  (IF LastIsOnlyFlush(toks) THEN {} ELSE {"flush-placement"}) \cup
  (IF Len(toks) = Len(v.opts) + 1 /\ \A i \in 1..Len(v.opts) : IsData(toks[i]) /\ ~toks[i].nul /\ Join(toks[i].w) = v.opts[i]
   THEN {} ELSE {"content:options"})

St(name, s) == [name |-> name, s |-> s]
ReportValues == {[t |-> "report", unpack |-> u, st |-> s] : u \in {"ok", "index-pack failed"},
                   s \in {<<>>, <<St("refs/heads/m", "ok")>>, <<St("refs/heads/m", "non-fast-forward")>>,
                          <<St("refs/heads/m", "ok"), St("refs/tags/t", "failed to lock")>>,
                          <<St("refs/tags/t", "ok"), St("refs/heads/m", "ok"), St("refs/tags/u", "deny deleting")>>}}
ReportProblems(v, toks) ==
  LET n == Len(toks) IN
  (IF LastIsOnlyFlush(toks) THEN {} ELSE {"flush-placement"}) \cup
  (IF AllNl(toks) THEN {} ELSE {"missing-LF"}) \cup
  \* the unpack status comes first
  (IF n >= 2 /\ Kw(toks[1]) = "unpack" /\ Join(Tail(toks[1].w)) = v.unpack THEN {} ELSE {"unpack-line"}) \cup
  (IF n = Len(v.st) + 2 /\ \A i \in 1..Len(v.st) :
        LET tk == toks[i + 1] IN
        IF v.st[i].s = "ok" THEN tk.w = <<"ok", v.st[i].name>>
        ELSE Len(tk.w) >= 3 /\ tk.w[1] = "ng" /\ tk.w[2] = v.st[i].name /\ Join(SubSeq(tk.w, 3, Len(tk.w))) = v.st[i].s
   THEN {} ELSE {"content:command-status"})

-----------------------------------------------------------------------------
\* protocol v2: command request and ls-refs output
V2CmdValues == {[t |-> "v2cmd", cmd |-> c, caps |-> cp, args |-> a] :
                  c \in {"ls-refs", "fetch"}, cp \in {<<>>, <<"agent=go-git/6.x">>, <<"agent=go-git/6.x", "object-format=sha1">>},
                  a \in {<<>>, <<"peel">>, <<"peel", "symrefs", "ref-prefix refs/heads/">>}}
V2CmdProblems(v, toks) ==
  LET n == Len(toks)
      dl == {i \in 1..n : toks[i].k = "delim"}
  IN
  (IF n > 0 /\ IsFlush(toks[n]) /\ \A i \in 1..n-1 : ~IsFlush(toks[i]) THEN {} ELSE {"flush-placement"}) \cup
  (IF n > 0 /\ IsData(toks[1]) /\ toks[1].w = <<"command=" \o v.cmd>> THEN {} ELSE {"command-line"}) \cup
  \* capabilities follow the command, then a delimiter iff there are arguments, then the arguments
  (IF v.args = <<>> THEN (IF Cardinality(dl) <= 1 /\ (dl # {} => dl = {n - 1}) THEN {} ELSE {"delimiter"})
   ELSE (IF Cardinality(dl) = 1 THEN {} ELSE {"delimiter"})) \cup
  (IF Cardinality(dl) <= 1 THEN
     LET d == IF dl = {} THEN n ELSE Min(dl) IN
     (IF [i \in 1..d-2 |-> Join(toks[i+1].w)] = v.caps THEN {} ELSE {"content:capabilities"}) \cup
     (IF [i \in 1..n-1-d |-> Join(toks[d+i].w)] = v.args THEN {} ELSE {"content:arguments"})
   ELSE {})

LsRef(n, h, sym, p) == [n |-> n, h |-> h, sym |-> sym, p |-> p]
LsRefsValues == {[t |-> "lsrefs", refs |-> r] : r \in
                   {<<>>,
                    <<LsRef("HEAD", "h1", "refs/heads/m", ""), LsRef("refs/heads/m", "h1", "", ""), LsRef("refs/tags/t", "h3", "", "h2")>>,
                    <<LsRef("refs/heads/m", "h1", "", ""), LsRef("refs/tags/u", "h2", "", "")>>,
                    <<LsRef("refs/tags/a", "h3", "", "h1"), LsRef("refs/tags/t", "h3", "", "h2")>>}}
\* (LsRefsOutput.Encode writes the ref lines only; the flush-pkt that ends the section belongs to the caller)
LsRefsProblems(v, toks) ==
  (IF \A i \in 1..Len(toks) : IsFlush(toks[i]) => i = Len(toks) THEN {} ELSE {"flush-placement"}) \cup
  (IF AllNl(toks) THEN {} ELSE {"missing-LF"}) \cup
  (IF Len(SelectSeq(toks, IsData)) = Len(v.refs) /\ \A i \in 1..Len(v.refs) :
        LET r == v.refs[i]
            want == <<r.h, r.n>> \o (IF r.sym = "" THEN <<>> ELSE <<"symref-target:" \o r.sym>>) \o (IF r.p = "" THEN <<>> ELSE <<"peeled:" \o r.p>>)
        IN IsData(toks[i]) /\ ~toks[i].nul /\ toks[i].w = want
   THEN {} ELSE {"content:refs"})

-----------------------------------------------------------------------------
AllValues == AdvValues \cup UlReqValues \cup HavesValues \cup SrvValues \cup ShUpdValues \cup UpdReqValues
             \cup PushOptValues \cup ReportValues \cup V2CmdValues \cup LsRefsValues
Problems(v, toks) ==
  CASE v.t = "adv" -> AdvProblems(v, toks) [] v.t = "ulreq" -> UlReqProblems(v, toks) [] v.t = "haves" -> HavesProblems(v, toks)
    [] v.t = "srvresp" -> SrvProblems(v, toks) [] v.t = "shupd" -> ShUpdProblems(v, toks) [] v.t = "updreq" -> UpdReqProblems(v, toks)
    [] v.t = "pushopts" -> PushOptProblems(v, toks) [] v.t = "report" -> ReportProblems(v, toks)
    [] v.t = "v2cmd" -> V2CmdProblems(v, toks) [] v.t = "lsrefs" -> LsRefsProblems(v, toks)

\* JSON form of a value (sets become sequences; refs are expanded)
J(v) ==
  CASE v.t = "adv" -> [t |-> "adv", ver |-> v.ver, refs |-> [i \in 1..Cardinality(v.refs) |-> RefOrder[SetToSortSeq(v.refs, LAMBDA a, b : a < b)[i]]],
                       caps |-> v.caps, shallows |-> SetToSeq(v.shallows),
                       \* what a client must see: <<name, id>> pairs incl. peeled entries (AdvContent)
                       exp |-> SetToSeq(AdvContent(v).refs)]
    [] v.t = "ulreq" -> [t |-> "ulreq", wants |-> SetToSeq(v.wants), caps |-> v.caps, shallows |-> SetToSeq(v.shallows), depth |-> v.depth, filter |-> v.filter]
    [] v.t = "haves" -> [t |-> "haves", haves |-> SetToSeq(v.haves), done |-> v.done]
    [] v.t = "shupd" -> [t |-> "shupd", sh |-> SetToSeq(v.sh), unsh |-> SetToSeq(v.unsh)]
    [] v.t = "updreq" -> [t |-> "updreq", cmds |-> v.cmds, caps |-> v.caps, shallows |-> SetToSeq(v.shallows)]
    [] OTHER -> v
ASSUME Emit => ndJsonSerialize("wire_values.ndjson", SetToSeq({J(v) : v \in AllValues}))

\* canonical encodings (what git itself writes) satisfy the grammar: theorems on the whole domain
Flush == [k |-> "flush", w |-> <<>>, caps |-> <<>>, nul |-> FALSE, nl |-> FALSE]
CanonAdv(v) ==
  LET ord == SetToSortSeq(v.refs, LAMBDA a, b : a < b)
      lines == FlattenSeq([i \in 1..Len(ord) |-> <<Data(<<RefOrder[ord[i]].h, RefOrder[ord[i]].n>>)>> \o
                  (IF RefOrder[ord[i]].p = "" THEN <<>> ELSE <<Data(<<RefOrder[ord[i]].p, RefOrder[ord[i]].n \o "^{}">>)>>)])
      body == IF lines = <<>> THEN <<Data(<<"zero", "capabilities^{}">>)>> ELSE lines
      first == [body[1] EXCEPT !.nul = TRUE, !.caps = v.caps]
      sh == SetToSortSeq(v.shallows, LAMBDA a, b : TRUE)
  IN (IF v.ver = 1 THEN <<Data(<<"version", "1">>)>> ELSE <<>>) \o <<first>> \o Tail(body)
     \o [i \in 1..Len(sh) |-> Data(<<"shallow", sh[i]>>)] \o <<Flush>>

VARIABLES val
Init == val \in AllValues
Next == UNCHANGED val
CanonAdvOK == val.t = "adv" => AdvProblems(val, CanonAdv(val)) = {}
\* moving the capabilities off the first line, or the peeled entry away from its tag, is rejected
AdvNegative == (val.t = "adv" /\ Cardinality(val.refs) >= 2) =>
                 LET c == CanonAdv(val)  o == IF val.ver = 1 THEN 1 ELSE 0
                     moved == [c EXCEPT ![o + 1] = [@ EXCEPT !.nul = FALSE, !.caps = <<>>], ![o + 2] = [@ EXCEPT !.nul = TRUE, !.caps = val.caps]]
                 IN "capabilities-not-on-first-line" \in AdvProblems(val, moved)
=============================================================================
