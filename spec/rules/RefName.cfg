CONSTANTS MaxLen = 3  Emit = TRUE
INIT Init
NEXT Next
INVARIANTS ValidImpliesSafe ValidImpliesGit PrefixClosed OnlyDashDiffers WhyAgrees
CHECK_DEADLOCK FALSE
