---------------------------- MODULE TreeJailHist ----------------------------
(* C26, stateful form: a HISTORY of operations on one long-lived worktree handle in which the KIND of a
   path component changes between operations.

   The modelled worktree has one interesting component d.  It starts as a real directory (commit "dir":
   d/a, a).  A history is
       checkout(dir) ; [prime] ; swap ; probe ; [probe]
   prime   an operation through the handle on a file directly inside d while d is a directory
           (Add d/a, or a status walk) - whatever the implementation learns about d, it learns it here;
   swap    d becomes a symbolic link d -> t (t = .git or ../outside): by Checkout or hard Reset to a commit
           in which d is a link, or directly on disk behind the handle's back;
   probe   Add / Move-into / Move-out-of / Remove of a direct child of d (a: existed in the directory,
           config, packed-refs: exist below .git, new: exists nowhere).
   The state variable dk is the kind of d NOW; every step is stamped with the kind at the time of the call.
   Jail predicate, evaluated against the CURRENT tree at every step: no request of an operation may go
   through a component that is a symbolic link at the time of the call.  For this model that is
   Through(step): the step's path lies below d and dk = "link".  ThroughIffEscapes ties it to PathJail:
   with the link table of the current tree, the symlink reading of d/<child> leaves the jail
   (TreeJail!LocOK fails) exactly when Through holds - so the recorded footprint of every step can be
   judged by TreeJailTrace with the link table snapshotted when the step starts.
   The harness replays every emitted history on an on-disk worktree twice: with ONE reused *Worktree
   handle and with a fresh handle per step (control).                                                *)
EXTENDS TreeJail

CONSTANTS EmitHist,     \* TRUE: print every complete history as JSON
          MaxProbes     \* probes per history (1 or 2)

DComp    == "d"
HTargets == {<<".git">>, <<"..", "outside">>}
Children == {"a", "config", "packed-refs", "new"}
Primes   == {"add", "status"}
SwapBy   == {"checkout", "reset", "disk"}
ProbeOps == {"add", "move-in", "move-out", "remove"}


VARIABLES hist, dk, tgt, phase, nprobe
hvars == <<hist, dk, tgt, phase, nprobe, sc>>

HStep(op, arg, child) == [op |-> op, arg |-> arg, path |-> IF child = "" THEN <<>> ELSE <<DComp, child>>,
                         dk |-> dk, tgt |-> tgt]

HInit == /\ dk = "dir" /\ tgt = <<>> /\ phase = "prime" /\ nprobe = 0
         /\ hist = <<[op |-> "checkout", arg |-> "dir", path |-> <<>>, dk |-> "absent", tgt |-> <<>>]>>
         /\ sc = [c1 |-> <<>>, c2 |-> <<>>, planted |-> <<>>, ntfs |-> TRUE, hfs |-> FALSE]

HPrime(p) == /\ phase = "prime"
            /\ hist' = Append(hist, HStep(p, "", IF p = "add" THEN "a" ELSE ""))
            /\ phase' = "swap" /\ UNCHANGED <<dk, tgt, nprobe, sc>>
SkipPrime == /\ phase = "prime" /\ phase' = "swap" /\ UNCHANGED <<hist, dk, tgt, nprobe, sc>>

HSwap(by, t) == /\ phase = "swap"
               /\ hist' = Append(hist, [op |-> by, arg |-> "link", path |-> <<>>, dk |-> dk, tgt |-> t])
               /\ dk' = "link" /\ tgt' = t /\ phase' = "probe" /\ UNCHANGED <<nprobe, sc>>

HProbe(op, c) == /\ phase = "probe" /\ nprobe < MaxProbes
                /\ hist' = Append(hist, HStep(op, "", c))
                /\ nprobe' = nprobe + 1 /\ UNCHANGED <<dk, tgt, phase, sc>>

HNext == \/ \E p \in Primes : HPrime(p)
         \/ SkipPrime
         \/ \E by \in SwapBy, t \in HTargets : HSwap(by, t)
         \/ \E op \in ProbeOps, c \in Children : HProbe(op, c)

\* ---- the jail predicate on a step, against the tree current at the time of the call
Through(s) == s.path # <<>> /\ s.dk = "link"
CurLinks(s) == IF s.dk = "link" THEN <<[at |-> WT \o <<DComp>>, to |-> s.tgt, kind |-> "rel"]>> ELSE <<>>
ThroughIffEscapes ==
  \A i \in 1..Len(hist) :
     LET s == hist[i] IN
       s.path # <<>> => (Through(s) <=> ~LocOK(Phys(WT \o s.path, CurLinks(s), TRUE), TRUE, FALSE))
\* the lexical reading never sees the problem: only the current tree tells
LexicallyInnocent == \A i \in 1..Len(hist) : hist[i].path # <<>> => LocOK(Lex(WT \o hist[i].path), TRUE, FALSE)
\* after the swap d stays a link (no modelled operation may turn it back by going through it)
KindMonotone == phase = "probe" => dk = "link"

Complete == phase = "probe" /\ nprobe >= 1
Emit == (EmitHist /\ Complete) =>
          PrintT(ToJson([steps |-> hist, must |-> [i \in 1..Len(hist) |-> Through(hist[i])]]))
=============================================================================
