----------------------------- MODULE MCRevision -----------------------------
(* Model constants for Revision: three hand-made repositories whose names collide on purpose,
   plus repositories decoded from integer keys (the check passes seeded keys; everything about a
   repository - graph, instants, messages, refs, twins - is decoded here, in TLA+).           *)
EXTENDS Revision

D(x, base, i) == (x \div (base ^ (i - 1))) % base       \* i-th digit of x

Slot == [ top  |-> <<"x">>,                     rx   |-> <<"refs", "x">>,
          tx   |-> <<"refs", "tags", "x">>,     hx   |-> <<"refs", "heads", "x">>,
          rmx  |-> <<"refs", "remotes", "x">>,  rmxH |-> <<"refs", "remotes", "x", "HEAD">>,
          htx  |-> <<"refs", "heads", "tags", "x">>, thx |-> <<"refs", "tags", "heads", "x">>,
          hm   |-> <<"refs", "heads", "m">>,    om   |-> <<"refs", "remotes", "o", "m">>,
          oH   |-> <<"refs", "remotes", "o", "HEAD">>, head |-> <<"HEAD">> ]
StaticSlots == {Slot[k] : k \in DOMAIN Slot}
HexSlots == {<<"refs", "heads", Hex(o, f)>> : o \in {1, 2, 3}, f \in {"p4", "p7", "full"}}
            \cup {<<"refs", "tags", Hex(o, f)>> : o \in {1, 2, 3}, f \in {"p4", "p7", "full"}}

Mk(par, tm, msg, tagA, refs, twinC, twinB) ==
  Tabulate([par |-> par, tm |-> tm, msg |-> msg, tagA |-> tagA, refs |-> refs, twinC |-> twinC, twinB |-> twinB, res |-> <<>>,
   anc |-> AncOf(ParSet(par)), probe |-> StaticSlots \cup {<<"refs", "heads", "nobranch">>}, hexnames |-> HexSyms])

\* A: octopus merge; tag/branch/remote collisions; hex-named branch and tag; twins
RepoA == Mk(<< <<>>, <<1>>, <<1>>, <<1>>, <<2, 3, 4>> >>, <<1, 2, 4, 3, 5>>,
            <<"feat", "fix", "fix2", "fix", "feat">>, 3,
            Slot.head :> Sym(Slot.hm) @@ Slot.hm :> Obj(5) @@ Slot.tx :> Obj(TA) @@ Slot.hx :> Obj(4)
            @@ Slot.rmxH :> Sym(Slot.om) @@ Slot.om :> Obj(2) @@ Slot.oH :> Sym(Slot.om)
            @@ Slot.htx :> Obj(1) @@ <<"refs", "heads", Hex(2, "p7")>> :> Obj(3)
            @@ <<"refs", "tags", Hex(3, "full")>> :> Obj(1),
            {2}, {3})
\* B: linear, skewed and tied instants; nested tag; tree tag; detached HEAD; dangling symref; top-level ref
RepoB == Mk(<< <<>>, <<1>>, <<2>>, <<3>>, <<4>> >>, <<3, 5, 2, 2, 4>>,
            <<"fix", "feat", "fix2", "fix", "feat">>, 2,
            Slot.head :> Obj(4) @@ Slot.hm :> Obj(5) @@ Slot.rx :> Obj(2) @@ Slot.top :> Obj(3)
            @@ Slot.tx :> Obj(TB) @@ Slot.rmx :> Obj(1) @@ Slot.thx :> Obj(TR) @@ Slot.oH :> Sym(Slot.om)
            @@ <<"refs", "heads", Hex(1, "p4")>> :> Obj(5),
            {1}, {})
\* C: two roots, merges with reversed parent order, unborn HEAD, tag on a tree shadowing a branch
RepoC == Mk(<< <<>>, <<>>, <<2, 1>>, <<3>>, <<4, 2>> >>, <<2, 1, 3, 3, 3>>,
            <<"fix2", "fix", "feat", "feat", "fix">>, 4,
            Slot.head :> Sym(<<"refs", "heads", "nobranch">>) @@ Slot.hm :> Obj(5) @@ Slot.hx :> Obj(3)
            @@ Slot.tx :> Obj(TR) @@ Slot.rmx :> Obj(4) @@ Slot.om :> Obj(TA) @@ Slot.oH :> Obj(1)
            @@ <<"refs", "tags", Hex(2, "p7")>> :> Obj(TB) @@ <<"refs", "heads", Hex(1, "full")>> :> Obj(2),
            {}, {1, 3})

ParOpt == [i \in 1..5 |-> SetToSeq(InjSeqs(1..(i - 1), 3))]        \* 1, 2, 5, 16, 41 ordered parent lists
HexSlotSeq == SetToSeq(HexSlots)
\* target digit 0..8 : absent, commits 1..5, TA, TB, TR-or-symbolic
Tgt(d, symTo) == IF d \in 1..5 THEN Obj(d) ELSE IF d = 6 THEN Obj(TA) ELSE IF d = 7 THEN Obj(TB)
                 ELSE IF symTo = <<>> THEN Obj(TR) ELSE Sym(symTo)
HeadOf(x) == IF (x % 8) <= 3 THEN Sym(Slot.hm) ELSE IF (x % 8) = 4 THEN Sym(Slot.hx)
             ELSE IF (x % 8) = 5 THEN Sym(<<"refs", "heads", "nobranch">>) ELSE Obj(((x \div 8) % 5) + 1)
RandRepo(k) ==
  LET par == << <<>>, ParOpt[2][(k[1] % 2) + 1], ParOpt[3][((k[1] \div 2) % 5) + 1],
                 ParOpt[4][((k[1] \div 10) % 16) + 1], ParOpt[5][((k[1] \div 160) % 41) + 1] >>
      tm  == [i \in 1..5 |-> D(k[2], 5, i) + 1]
      ms  == <<"fix", "fix2", "feat">>
      msg == [i \in 1..5 |-> ms[D(k[3], 3, i) + 1]]
      names == << Slot.top, Slot.rx, Slot.tx, Slot.hx, Slot.rmx, Slot.rmxH, Slot.htx, Slot.thx, Slot.hm, Slot.om, Slot.oH,
                  HexSlotSeq[(k[6] % Len(HexSlotSeq)) + 1], HexSlotSeq[((k[6] \div 32) % Len(HexSlotSeq)) + 1] >>
      symTo == [i \in 1..13 |-> IF i = 6 \/ i = 11 THEN Slot.om ELSE <<>>]
      \* digits: slots 1..7 from k[4], 8..13 from k[5]; a digit >= 9 (half of the range) means absent
      dig == [i \in 1..13 |-> IF i <= 7 THEN D(k[4], 14, i) ELSE D(k[5], 14, i - 7)]
      present == {i \in 1..13 : dig[i] \in 1..8 /\ ~(i = 6 /\ dig[5] \in 1..8)}     \* D/F conflict: refs/remotes/x vs x/HEAD
      hd == HeadOf(k[7])
      refs == [n \in {names[i] : i \in present} \cup {Slot.head} |->
                 IF n = Slot.head THEN hd
                 ELSE LET i == MinOf({j \in present : names[j] = n}) IN Tgt(dig[i], symTo[i])]
      tC == {c \in 1..3 : D(k[8], 4, c) = 1}
      tB == {c \in 1..3 : D(k[8], 4, c) = 2}
  IN Mk(par, tm, msg, ((k[7] \div 64) % 5) + 1, refs, tC, tB)

MCSfxQuick == {"~", "~0", "~2", "^", "^0", "^2", "^3", "^{commit}", "^{}", "^{/fix}", "^{/fix2}", "^{/!-fix}"}
MCSfxDeep  == {"~", "^", "^2", "^0", "^3", "^{commit}", "^{}", "^{/fix}"}
MCSfxFull  == DOMAIN SfxInfo
MCSfxNone  == {}
=============================================================================
