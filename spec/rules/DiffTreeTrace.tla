--------------------------- MODULE DiffTreeTrace ---------------------------
(* C44, batch trace validation (code -> spec).  The harness records, for every pair of trees,
   what object.DiffTreeWithOptions (rename detection on, options o) returned:
      [a |-> tree, b |-> tree, o |-> [limit, exact, score], out |-> <<[fp, tp, f, t], ...>>]
   (o = the DiffTreeOptions the row asked for).  TLC evaluates DiffTree!AdmissibleUnder on every record and writes the indexes of the records
   that are not admissible.  The predicate lives in DiffTree.tla; nothing is decided in Go. *)
EXTENDS DiffTree

CONSTANT TraceFile      \* "" = no trace to validate in this run (table generation)

Recs == ndJsonDeserialize(TraceFile)
Why(r) ==
  {"invented-" \o c.k : c \in Expand(r.out) \ Diff(r.a, r.b)} \cup
  {"lost-" \o c.k : c \in Diff(r.a, r.b) \ Expand(r.out)} \cup
  (IF \E i, j \in 1..Len(r.out) : i # j /\ PathsUsed(r.out)[i] \cap PathsUsed(r.out)[j] # {} THEN {"path-used-twice"} ELSE {})
BadIdx == {i \in 1..Len(Recs) : ~AdmissibleUnder(Recs[i].o, Recs[i].a, Recs[i].b, Recs[i].out)}
Renames == Cardinality({i \in 1..Len(Recs) : \E k \in 1..Len(Recs[i].out) :
                          LET o == Recs[i].out[k] IN o.fp # "" /\ o.tp # "" /\ o.fp # o.tp})
ASSUME TraceFile # "" => JsonSerialize("difftree_rename_verdict.json",
          [n |-> Len(Recs), renames |-> Renames,
           bad |-> LET bs == SetToSortSeq(BadIdx, LAMBDA x, y : x < y)
                   IN [i \in 1..Len(bs) |-> [i |-> bs[i], why |-> SetSeq(Why(Recs[bs[i]])), oc |-> OptClass(Recs[bs[i]].o)]]])

TInit == ta = 0 /\ tb = 0 /\ d = 0
=============================================================================
