------------------------------ MODULE Archive ------------------------------
(* C50.  What `git archive` puts into an archive (git 2.39.5: archive.c write_archive_entries,
   archive-tar.c write_tar_entry, archive-zip.c write_zip_entry), as a rule over small trees.

   A tree is a set of leaf paths; a path is a sequence of components.  The kind of a leaf is
   fixed by its name: l = symbolic link, m = gitlink, ax/x = executable file, everything else a
   regular file (d/f is the empty blob, "nlong" stands for a 120-byte name).  Directories are
   the proper prefixes of the leaves.  Components are ranked in byte order; the siblings
   a (file) < ax/ (directory) < axd/ (directory) are string prefixes of one another on purpose:
   pathspec "a" must not select ax/x, and pathspec "axd/e" must select neither a nor ax/
   (a path is above a pathspec only at a component boundary).  For these names rank order is
   still git's tree order ("ax/" < "axd/" because '/' < 'd'); the subtle orders are C04's.

   Request = (tree, prefix, pathspecs).  Entries(req, fmt) is the ordered list git writes:
     - the prefix itself as one directory entry when it ends in "/";
     - every selected leaf and every directory above a selected leaf, in tree order,
       a gitlink as an (empty) directory;
     - a pathspec selects a leaf if it names it, names a directory above it, or is a wildcard
       matching it ('*' crosses '/'); a pathspec that selects nothing makes git fail.
   Modes: tar applies umask 002 (files 664, executables and directories 775, links 777);
   zip records Unix attributes only for executables (755) and links (777).
   Every request of the bounded domain is one TLC state; theorems are invariants.          *)
EXTENDS Integers, Sequences, FiniteSets, TLC, Json, IOUtils, SequencesExt

CONSTANTS Emit,
          Full       \* TRUE: every subset of Leaves is a tree; FALSE: the subsets with at most 2 or at least 8 leaves

Leaves == {<<"a">>, <<"ax", "x">>, <<"axd", "e">>, <<"d", "e">>, <<"d", "f">>, <<"d", "s", "e">>, <<"l">>, <<"m">>, <<"nlong">>}
CompOrder == <<"a", "ax", "axd", "d", "e", "f", "l", "m", "nlong", "s", "x">>
Rank == [c \in {CompOrder[i] : i \in 1..Len(CompOrder)} |-> CHOOSE i \in 1..Len(CompOrder) : CompOrder[i] = c]

Kind(p) == CASE p = <<"l">> -> "link" [] p = <<"m">> -> "gitlink" [] p = <<"ax", "x">> -> "exec" [] OTHER -> "file"

ArPrefixes == {"", "p/", "p/q/", "p-"}
EndsInSlash(pre) == pre \in {"p/", "p/q/"}

\* pathspecs: literal paths and one wildcard
Lit(p)  == [k |-> "lit", p |-> p, s |-> ""]
GlobE   == [k |-> "glob", p |-> <<>>, s |-> "*e"]               \* "*e": every path whose last byte is 'e'
Filters == {{}, {Lit(<<"a">>)}, {Lit(<<"d">>)}, {Lit(<<"d", "e">>)}, {Lit(<<"d", "s">>)}, {GlobE},
            {Lit(<<"a">>), Lit(<<"zz">>)}, {Lit(<<"m">>)}, {Lit(<<"d", "e">>), Lit(<<"ax">>)},
            {Lit(<<"axd", "e">>)}}          \* two components; the siblings a (file) and ax/ (directory) are
                                            \* proper string prefixes of its first component and must not be selected

IsPrefixSeq(a, b) == Len(a) <= Len(b) /\ \A i \in 1..Len(a) : a[i] = b[i]
Matches(f, p) == IF f.k = "lit" THEN IsPrefixSeq(f.p, p)          \* names the leaf or a directory above it
                 ELSE p[Len(p)] = "e"                               \* the only component ending in 'e' is "e"
Fails(tree, F)    == \E f \in F : \A p \in tree : ~Matches(f, p)    \* "pathspec did not match any files"
\* why a failing request might be mistaken for a good one (tags for finding signatures)
FailWhy(tree, F) ==
  LET U == {f \in F : \A p \in tree : ~Matches(f, p)}
  IN (IF \E f \in F \ U : TRUE THEN {"another-pathspec-matches"} ELSE {})
     \cup (IF \E f \in U : f.k = "lit" /\ \E p \in tree : \E n \in 1..(Len(f.p) - 1) : IsPrefixSeq(SubSeq(f.p, 1, n), p)
           THEN {"only-a-parent-directory-exists"} ELSE {})
Selected(tree, F) == IF F = {} THEN tree ELSE {p \in tree : \E f \in F : Matches(f, p)}
DirsOf(S) == UNION {{SubSeq(p, 1, n) : n \in 1..(Len(p) - 1)} : p \in S}        \* proper, non-empty prefixes
DirsAbove(S) == {q \in DirsOf(S) : \E p \in S : Len(q) < Len(p) /\ IsPrefixSeq(q, p)}

\* tree order: depth-first, siblings by rank; a directory precedes what it contains
PathLess(a, b) ==
  LET n == IF Len(a) < Len(b) THEN Len(a) ELSE Len(b)
      D == {i \in 1..n : a[i] # b[i]}
  IN IF D # {} THEN Rank[a[CHOOSE i \in D : \A j \in D : i <= j]] < Rank[b[CHOOSE i \in D : \A j \in D : i <= j]]
     ELSE Len(a) < Len(b)
Ordered(S) == SetToSortSeq(S, PathLess)

RECURSIVE Join(_)
Join(p) == IF Len(p) = 1 THEN p[1] ELSE p[1] \o "/" \o Join(Tail(p))

\* content tokens: the harness renders "c:<path>" as that text + newline, "empty" as no bytes
Content(p) == IF p = <<"d", "f">> THEN "empty" ELSE "c:" \o Join(p)
LinkTarget == "a"

TarEntry(pre, p, isdir) ==
  IF isdir \/ Kind(p) = "gitlink"
  THEN [name |-> pre \o Join(p) \o "/", type |-> "dir", mode |-> "775", data |-> ""]
  ELSE CASE Kind(p) = "link" -> [name |-> pre \o Join(p), type |-> "link", mode |-> "777", data |-> LinkTarget]
         [] Kind(p) = "exec" -> [name |-> pre \o Join(p), type |-> "file", mode |-> "775", data |-> Content(p)]
         [] OTHER            -> [name |-> pre \o Join(p), type |-> "file", mode |-> "664", data |-> Content(p)]
ZipEntry(pre, p, isdir) ==
  IF isdir \/ Kind(p) = "gitlink"
  THEN [name |-> pre \o Join(p) \o "/", type |-> "dir", mode |-> "dos", data |-> ""]
  ELSE CASE Kind(p) = "link" -> [name |-> pre \o Join(p), type |-> "link", mode |-> "777", data |-> LinkTarget]
         [] Kind(p) = "exec" -> [name |-> pre \o Join(p), type |-> "file", mode |-> "755", data |-> Content(p)]
         [] OTHER            -> [name |-> pre \o Join(p), type |-> "file", mode |-> "dos", data |-> Content(p)]

Items(tree, F) == LET S == Selected(tree, F) IN Ordered(S \cup DirsAbove(S))
Entries(tree, pre, F, E(_, _, _), premode) ==
  LET S  == Selected(tree, F)
      it == Items(tree, F)
      body == [i \in 1..Len(it) |-> E(pre, it[i], it[i] \notin S)]
  IN IF EndsInSlash(pre) THEN <<[name |-> pre, type |-> "dir", mode |-> premode, data |-> ""]>> \o body ELSE body

Trees    == IF Full THEN SUBSET Leaves ELSE {t \in SUBSET Leaves : Cardinality(t) <= 2 \/ Cardinality(t) >= 8}
Requests == [tree : Trees, pre : ArPrefixes, f : Filters]
SpecOf(F) == SetToSortSeq({IF f.k = "lit" THEN Join(f.p) ELSE f.s : f \in F}, LAMBDA x, y : TRUE)
\* the archived object is a commit: its id is recorded as the archive comment (pax global header /
\* zip comment) and its committer time is the modification time of every entry
Row(q) == [tree |-> SetToSortSeq({[name |-> Join(p), kind |-> Kind(p), data |-> IF Kind(p) = "link" THEN LinkTarget ELSE Content(p)] : p \in q.tree},
                                 LAMBDA x, y : TRUE),
           comment |-> "commit-id", mtime |-> "commit-time",
           pre |-> q.pre, spec |-> SpecOf(q.f),
           fail |-> Fails(q.tree, q.f),
           failwhy |-> SetToSortSeq(IF Fails(q.tree, q.f) THEN FailWhy(q.tree, q.f) ELSE {}, LAMBDA x, y : TRUE),
           speckinds |-> SetToSortSeq({f.k : f \in q.f}, LAMBDA x, y : TRUE),
           tar |-> IF Fails(q.tree, q.f) THEN <<>> ELSE Entries(q.tree, q.pre, q.f, TarEntry, "775"),
           zip |-> IF Fails(q.tree, q.f) THEN <<>> ELSE Entries(q.tree, q.pre, q.f, ZipEntry, "dos")]

ASSUME Emit => LET qs == SetToSeq(Requests)
               IN ndJsonSerialize("archive_rows.ndjson", [i \in 1..Len(qs) |-> Row(qs[i])])

VARIABLES req, row
vars == <<req, row>>
Init == req \in Requests /\ row = Row(req)
Next == UNCHANGED vars
Spec == Init /\ [][Next]_vars

\* ---------------------------------------------------------------- theorems (TLC invariants)
Names(es) == {es[i].name : i \in 1..Len(es)}
\* tar and zip list the same names in the same order
SameListing == [i \in 1..Len(row.tar) |-> row.tar[i].name] = [i \in 1..Len(row.zip) |-> row.zip[i].name]
NoDupNames  == Cardinality(Names(row.tar)) = Len(row.tar)
\* without pathspecs every leaf is archived; with them nothing outside the selection is
AllWithoutSpec == (req.f = {} /\ ~row.fail) =>
   \A p \in req.tree : \E i \in 1..Len(row.tar) : row.tar[i].name \in {req.pre \o Join(p), req.pre \o Join(p) \o "/"}
\* every entry lives under the prefix, and every directory entry above a listed file is listed before it
UnderPrefix == \A i \in 1..Len(row.tar) : \E p \in Leaves \cup DirsOf(Leaves) :
                   row.tar[i].name \in {req.pre, req.pre \o Join(p), req.pre \o Join(p) \o "/"}
ParentsFirst == \A p \in Selected(req.tree, req.f) : \A d \in DirsAbove({p}) : ~row.fail =>
   \E i, j \in 1..Len(row.tar) : i < j /\ row.tar[i].name = req.pre \o Join(d) \o "/"
                                        /\ row.tar[j].name \in {req.pre \o Join(p), req.pre \o Join(p) \o "/"}
\* a failing request has a pathspec that selects nothing; an empty selection without failure only for the empty request
FailIffUnmatched == /\ row.fail <=> \E f \in req.f : Selected(req.tree, {f}) = {}
                    /\ (row.failwhy # <<>> => row.fail)
=============================================================================
