------------------------------- MODULE Delta -------------------------------
(* git's delta format (patch-delta.c, delta.h), transcribed at byte level (C06).

   Apply(srcLen, d) is what git's patch_delta() decides for a source buffer of srcLen bytes
   and the delta byte string d: either Reject(reason) or the list of *segments* the result
   is made of (copy [off, off+len) of the source / insert literal bytes).  Bytes(src, segs)
   flattens segments to the result bytes.  Transcribed:

     * delta_size < DELTA_SIZE_MIN (4)                         -> NULL
     * get_delta_hdr_size: 7 bits per byte, little endian, stops at the first byte without
       0x80 *or at the end of the buffer* (no error for a truncated header; the second header
       is then read past the end and the final `data != top` test fails)
     * first header must equal the source size
     * loop `while (data < top)`:  cmd & 0x80 -> copy, offset bytes selected by bits 0..3,
       size bytes by bits 4..6, each argument byte needs `data < top`; size 0 means 0x10000;
       cp_off + cp_size > src_size or cp_size > remaining -> bad;
       cmd in 1..127 -> insert cmd literal bytes (cmd > remaining or cmd > top - data -> bad);
       cmd = 0 -> reserved, bad
     * afterwards `data != top || size != 0` -> bad

   TLC integers are 32 bit: header values and offsets saturate at Huge (= 2^30).  Every
   source in the model is shorter than 2^21 bytes and a delta of <= 8 bytes cannot produce
   2^21 bytes, so a saturated value is rejected for the same reason as the exact one.

   The module is used three ways:
     rule table (Engine C)  every row (srcLen, delta) of a bounded domain is a TLC state, the
                            verdict is a state variable, the table is serialised for the harness
                            (Mode = "raw": all byte strings over Alpha; Mode = "body":
                            Enc(srcLen) \o Enc(tgtSize) \o body for all bodies over Alpha;
                            Mode = "ops": every sequence of up to MaxOps well-formed commands -- copy(off, size)
                            with off in OpOffs, size in OpSizes inside the source, or a one-byte insert -- behind
                            canonical headers, with the exact target size and one byte more: this is where the
                            *order* of copies matters (forward, backward, backward then forward again));
     theorems               invariants below (result size, prefix-freeness, no trailing bytes);
     trace validation       Mode = "rt": records (src, tgt, delta) produced by go-git's
                            DiffDelta are loaded from ndjson and Bytes(src, Apply(..)) = tgt is
                            evaluated here (Engine B, acceptance predicate in TLA+).          *)
EXTENDS Naturals, Sequences, FiniteSets, TLC, Json, IOUtils, SequencesExt

CONSTANTS Mode,        \* "raw" | "body" | "ops" | "rt"
          Alpha,       \* representative bytes
          SrcLens,     \* source lengths (contents are Src(n))
          TgtSizes,    \* body mode: declared target sizes
          MinLen, MaxLen,   \* length range of the enumerated stream / body
          SampleN,     \* 0: exhaustive; n > 0: a RandomSubset(n) of the strings of length MaxLen (plus all shorter)
          OutFile,     \* rows are written here (ndjson); "" = do not write
          InFile,      \* rt mode: recorded (src, tgt, delta) triples
          Seed,
          OpOffs, OpSizes, MaxOps,   \* ops mode: well-formed command sequences (copy offsets / sizes, number of commands)
          RawFirst,    \* raw mode: only strings whose first byte is in this set (256 = the empty string); lets several TLC runs share the table
          PairLen,     \* > 0: also write the symbolic (src, tgt) pairs over {A,B}^<=PairLen for the round-trip half
          Split        \* TRUE: one initial state per part of the domain, rows are successors (parallel workers)

Huge     == 1073741824          \* 2^30, saturation value
BigShift == 2097152             \* 2^21
Min2(a, b) == IF a < b THEN a ELSE b

\* source contents: neighbouring bytes differ, period 251
Src(n) == IF n = 0 THEN <<>> ELSE [i \in 1..n |-> ((i * 37) + 11) % 251]

---------------------------------------------------------------------------
\* get_delta_hdr_size.  Precondition pos <= Len(d).  Result [v: value, n: next position].
RECURSIVE HdrFrom(_, _, _, _)
HdrFrom(d, pos, shift, acc) ==
  LET c == d[pos]
      lo == c % 128
      a == IF shift >= BigShift THEN (IF lo = 0 THEN acc ELSE Huge) ELSE Min2(Huge, acc + lo * shift)
  IN IF c >= 128 /\ pos + 1 <= Len(d) THEN HdrFrom(d, pos + 1, Min2(shift * 128, BigShift), a)
     ELSE [v |-> a, n |-> pos + 1]
Hdr(d, pos) == HdrFrom(d, pos, 1, 0)

\* LEB128 encoding of n (canonical), used to build well-formed headers in body mode
RECURSIVE Enc(_)
Enc(n) == IF n < 128 THEN <<n>> ELSE <<128 + (n % 128)>> \o Enc(n \div 128)

Bit(b, m) == (b \div m) % 2 = 1          \* m is a power of two

\* PARSE_CP_PARAM x 7.  Result [ok, off, size, n]: parameter k (1..4 offset bytes, 5..7 size bytes) is
\* present iff bit k-1 of cmd is set; present parameters are consecutive bytes from pos; each needs data < top.
CopyArgs(d, pos, cmd) ==
  LET has(k)  == Bit(cmd, CASE k = 1 -> 1 [] k = 2 -> 2 [] k = 3 -> 4 [] k = 4 -> 8 [] k = 5 -> 16 [] k = 6 -> 32 [] k = 7 -> 64)
      before(k) == Cardinality({j \in 1..(k-1) : has(j)})
      total   == before(8)
      val(k)  == IF has(k) THEN d[pos + before(k)] ELSE 0
      off4    == IF val(4) >= 64 THEN Huge ELSE val(4) * 16777216
  IN IF pos + total - 1 > Len(d) THEN [ok |-> FALSE, off |-> 0, size |-> 0, n |-> pos]
     ELSE [ok |-> TRUE, off |-> Min2(Huge, val(1) + val(2) * 256 + val(3) * 65536 + off4),
           size |-> val(5) + val(6) * 256 + val(7) * 65536, n |-> pos + total]

Rej(why) == [ok |-> FALSE, why |-> why, segs |-> <<>>]

RECURSIVE Run(_, _, _, _, _)
Run(srcLen, d, pos, remaining, segs) ==
  IF pos > Len(d)
  THEN IF remaining = 0 THEN [ok |-> TRUE, why |-> "ok", segs |-> segs] ELSE Rej("target-size-not-reached")
  ELSE LET cmd == d[pos] IN
    IF cmd >= 128 THEN
      LET p == CopyArgs(d, pos + 1, cmd) IN
      IF ~p.ok THEN Rej("copy-args-truncated")
      ELSE LET size == IF p.size = 0 THEN 65536 ELSE p.size IN
           IF p.off + size > srcLen THEN Rej("copy-outside-source")
           ELSE IF size > remaining THEN Rej("copy-exceeds-target")
           ELSE Run(srcLen, d, p.n, remaining - size, Append(segs, [k |-> "copy", off |-> p.off, len |-> size]))
    ELSE IF cmd > 0 THEN
      IF cmd > remaining THEN Rej("insert-exceeds-target")
      ELSE IF cmd > Len(d) - pos THEN Rej("insert-truncated")
      ELSE Run(srcLen, d, pos + 1 + cmd, remaining - cmd,
               Append(segs, [k |-> "ins", off |-> 0, len |-> cmd, bytes |-> SubSeq(d, pos + 1, pos + cmd)]))
    ELSE Rej("opcode-zero")

Apply(srcLen, d) ==
  IF Len(d) < 4 THEN Rej("delta-shorter-than-4")
  ELSE LET h1 == Hdr(d, 1) IN
       IF h1.v # srcLen THEN Rej("source-size-mismatch")
       ELSE IF h1.n > Len(d) THEN Rej("header-truncated")
       ELSE LET h2 == Hdr(d, h1.n) IN Run(srcLen, d, h2.n, h2.v, <<>>)

\* the declared target size (0 when the header cannot be read); Huge = saturated
Declared(d) == IF Len(d) = 0 THEN 0
               ELSE LET h1 == Hdr(d, 1) IN IF h1.n > Len(d) THEN 0 ELSE Hdr(d, h1.n).v

SegBytes(src, s) == IF s.k = "copy" THEN SubSeq(src, s.off + 1, s.off + s.len) ELSE s.bytes
RECURSIVE Flat(_, _, _)
Flat(src, segs, i) == IF i > Len(segs) THEN <<>> ELSE SegBytes(src, segs[i]) \o Flat(src, segs, i + 1)
Bytes(src, segs) == Flat(src, segs, 1)
SegLen(segs) == LET S[i \in 0..Len(segs)] == IF i = 0 THEN 0 ELSE S[i-1] + segs[i].len IN S[Len(segs)]

\* abstract scenario key of an accepted delta (for finding signatures): the op kinds used
Kinds(segs) == SetToSortSeq({IF s.k = "copy" THEN (IF s.len = 65536 THEN "copy64k" ELSE "copy") ELSE "ins" : s \in ToSet(segs)} ,
                            LAMBDA a, b : TRUE)

---------------------------------------------------------------------------
\* the enumerated domain
Strs(lo, hi) == UNION {[1..n -> Alpha] : n \in lo..hi}
\* deterministic seeded sample of the strings of length n: string number k in base |Alpha|
AlphaSeq == SetToSortSeq(Alpha, <)
NA == Cardinality(Alpha)
RECURSIVE Pow(_, _)
Pow(b, e) == IF e = 0 THEN 1 ELSE b * Pow(b, e - 1)
NthStr(k, n) == [i \in 1..n |-> AlphaSeq[((k \div Pow(NA, i - 1)) % NA) + 1]]
Sample(n) == {NthStr(((Seed % 1000) * 104729 + j * 9973) % Pow(NA, n), n) : j \in 1..SampleN}
AllStrs == IF SampleN = 0 THEN Strs(MinLen, MaxLen) ELSE Strs(MinLen, MaxLen - 1) \cup Sample(MaxLen)

\* raw mode: every string is paired with the source its first header names (if it is in SrcLens) and
\* with one source it does not name (MismatchSrc) -- all other pairings are the same case "source-size-mismatch".
MismatchSrc == 2
RawSrcs(x) == {n \in SrcLens : n = MismatchSrc \/ (Len(x) > 0 /\ Hdr(x, 1).v = n)}
\* the domain is split into parts so that TLC's workers enumerate it in parallel (one part = one initial state)
\* body mode: declared target sizes per source length (TgtSizes = {} selects the built-in choice: around the
\* sizes the short op streams can produce from that source)
TgtFor(n) == IF TgtSizes # {} THEN TgtSizes
             ELSE IF n < 128 THEN 0..4 ELSE IF n < 65536 THEN {1, 3, n - 1, n} ELSE {65536, 65537, 131072}
TgtAll == UNION {TgtFor(n) : n \in SrcLens}
\* the symbolic (source, target) pairs for the round-trip half; the harness expands every
\* symbol to a block of bytes (1, 16 or 16*4097 bytes) and records go-git's DiffDelta output
\* ops mode.  A copy command as git's encoder writes it: zero argument bytes are omitted, size 0x10000 has no size byte.
ByteOf(x, i) == (x \div Pow(256, i)) % 256
EncCopy(off, size) ==
  LET sz  == IF size = 65536 THEN 0 ELSE size
      oi  == SelectSeq(<<0, 1, 2, 3>>, LAMBDA i : ByteOf(off, i) # 0)
      si  == SelectSeq(<<0, 1, 2>>, LAMBDA i : ByteOf(sz, i) # 0)
      flg == (IF ByteOf(off, 0) # 0 THEN 1 ELSE 0) + (IF ByteOf(off, 1) # 0 THEN 2 ELSE 0) + (IF ByteOf(off, 2) # 0 THEN 4 ELSE 0)
             + (IF ByteOf(off, 3) # 0 THEN 8 ELSE 0) + (IF ByteOf(sz, 0) # 0 THEN 16 ELSE 0) + (IF ByteOf(sz, 1) # 0 THEN 32 ELSE 0)
             + (IF ByteOf(sz, 2) # 0 THEN 64 ELSE 0)
  IN <<128 + flg>> \o [j \in 1..Len(oi) |-> ByteOf(off, oi[j])] \o [j \in 1..Len(si) |-> ByteOf(sz, si[j])]
OpsFor(n) == {[k |-> "copy", off |-> o, len |-> z] : <<o, z>> \in {<<o, z>> \in OpOffs \X OpSizes : o + z <= n}} \cup {[k |-> "ins", off |-> 0, len |-> 1]}
EncOp(op) == IF op.k = "copy" THEN EncCopy(op.off, op.len) ELSE <<1, 127>>
RECURSIVE EncOps(_, _)
EncOps(ops, i) == IF i > Len(ops) THEN <<>> ELSE EncOp(ops[i]) \o EncOps(ops, i + 1)
OpsTotal(ops) == LET S[i \in 0..Len(ops)] == IF i = 0 THEN 0 ELSE S[i-1] + ops[i].len IN S[Len(ops)]
OpsRows(n) == UNION {{[s |-> n, d |-> Enc(n) \o Enc(OpsTotal(ops) + extra) \o EncOps(ops, 1)] : extra \in {0, 1}}
                     : ops \in UNION {[1..m -> OpsFor(n)] : m \in 1..MaxOps}}

\* order of the copies of an accepted delta (abstract scenario key): "fwd" every copy starts at or after the end of the
\* previous one; "back" some copy starts before the end of the previous one; "back-fwd" a backward copy is later
\* followed by a forward one
CopySegs(segs) == SelectSeq(segs, LAMBDA g : g.k = "copy")
Order(segs) == LET c == CopySegs(segs)
                   back(i) == i > 1 /\ c[i].off < c[i-1].off + c[i-1].len
                   fwd(i)  == i > 1 /\ c[i].off >= c[i-1].off + c[i-1].len
               IN IF \E i, j \in 1..Len(c) : i < j /\ back(i) /\ fwd(j) THEN "back-fwd"
                  ELSE IF \E i \in 1..Len(c) : back(i) THEN "back" ELSE "fwd"

SymStrs == UNION {[1..n -> {"A", "B"}] : n \in 0..PairLen}
Pairs == {[a |-> x, b |-> y] : x \in SymStrs, y \in SymStrs}
Parts == IF Mode = "raw" THEN {[first |-> b] : b \in (Alpha \cup {256}) \cap RawFirst}
         ELSE IF Mode = "body" THEN {[s |-> n, t |-> t] : <<n, t>> \in {<<n, t>> \in SrcLens \X TgtAll : t \in TgtFor(n)}}
         ELSE IF Mode = "ops" THEN {[s |-> n] : n \in SrcLens}
         ELSE {}
StartingWith(b) == IF b = 256 THEN (IF MinLen = 0 THEN {<<>>} ELSE {})
                   ELSE {x \in AllStrs : Len(x) > 0 /\ x[1] = b}
RowsOf(p) == IF Mode = "raw"
             THEN UNION {{[s |-> n, d |-> x] : n \in RawSrcs(x)} : x \in StartingWith(p.first)}
             ELSE IF Mode = "ops" THEN OpsRows(p.s)
             ELSE {[s |-> p.s, d |-> Enc(p.s) \o Enc(p.t) \o x] : x \in AllStrs}
Domain == IF Mode \in {"raw", "body", "ops"} THEN UNION {RowsOf(p) : p \in Parts} ELSE {}

HdrTerminated(d) == Len(d) >= 2 /\ LET h1 == Hdr(d, 1) IN h1.n <= Len(d) /\ d[h1.n - 1] < 128 /\ d[Hdr(d, h1.n).n - 1] < 128
SmallSrc == 300      \* expected bytes are written for sources up to this length; longer: segments only
Row(x) == LET r == Apply(x.s, x.d) IN
          [s |-> x.s, d |-> x.d, ok |-> r.ok, why |-> r.why, segs |-> r.segs, kinds |-> Kinds(r.segs), order |-> Order(r.segs),
           t |-> Declared(x.d), term |-> HdrTerminated(x.d),
           out |-> IF r.ok /\ x.s <= SmallSrc THEN Bytes(Src(x.s), r.segs) ELSE <<>>]

ASSUME (Mode \in {"raw", "body", "ops"} /\ OutFile # "") =>
          /\ ndJsonSerialize(OutFile, SetToSeq({Row(x) : x \in Domain}))
          /\ ndJsonSerialize("delta_sources.ndjson", SetToSeq({[n |-> n, bytes |-> Src(n)] : n \in SrcLens}))

ASSUME PairLen > 0 => ndJsonSerialize("delta_pairs.ndjson", SetToSeq(Pairs))

---------------------------------------------------------------------------
\* round-trip records (Engine B): {"src":[...], "tgt":[...], "delta":[...]}
RtOK(rec) == LET r == Apply(Len(rec.src), rec.delta) IN r.ok /\ Bytes(rec.src, r.segs) = rec.tgt
RtWhy(rec) == LET r == Apply(Len(rec.src), rec.delta) IN IF ~r.ok THEN r.why ELSE "wrong-bytes"
ASSUME Mode = "rt" =>
          LET recs == ndJsonDeserialize(InFile) IN
          JsonSerialize("delta_rt_bad.json",
             [bad |-> SetToSeq({[i |-> i, why |-> RtWhy(recs[i])] : i \in {j \in 1..Len(recs) : ~RtOK(recs[j])}}),
              n |-> Len(recs)])

---------------------------------------------------------------------------
VARIABLES phase, part, row, res
vars == <<phase, part, row, res>>
NoRow == [s |-> 0, d |-> <<>>]
\* (rt mode has one idle state: the records are validated by the ASSUME above -- TLC re-evaluates a
\*  deserialisation inside Init once per element, which costs minutes for a few MB of records)
Init == IF Mode = "rt"
        THEN phase = "idle" /\ row = NoRow /\ res = Rej("none") /\ part = 0
        ELSE IF Split
        THEN /\ phase = "part" /\ row = NoRow /\ res = Rej("none") /\ part \in Parts
        ELSE /\ phase = "row" /\ part = 0 /\ row \in Domain /\ res = Apply(row.s, row.d)
Next == /\ phase = "part" /\ phase' = "row" /\ UNCHANGED part
        /\ row' \in RowsOf(part)
        /\ res' = Apply(row'.s, row'.d)
Spec == Init /\ [][Next]_vars

\* ---- spec-level theorems, checked on every enumerated row
\* an accepted delta produces exactly the declared number of bytes, from inside the source
SizeExact == (phase = "row" /\ res.ok) => /\ SegLen(res.segs) = Declared(row.d)
                       /\ \A i \in 1..Len(res.segs) : res.segs[i].k = "copy" => res.segs[i].off + res.segs[i].len <= row.s
                       /\ Len(row.d) >= 4
\* no proper prefix of an accepted delta is accepted: a streaming applier that reaches the end of
\* its input early can never be looking at a valid delta ("no partial output successfully")
\* (git does not reject a size header whose last byte still has the continuation bit when it ends
\*  exactly at the end of the delta -- e.g. 00 80 80 80 is the empty result for an empty source -- so both
\*  theorems are stated for deltas whose two headers are terminated)
PrefixFree == (phase = "row" /\ res.ok /\ HdrTerminated(row.d)) =>
                 \A n \in 0..Len(row.d) - 1 : LET p == SubSeq(row.d, 1, n) IN HdrTerminated(p) => ~Apply(row.s, p).ok
\* an accepted delta followed by any further byte is rejected (all delta bytes are consumed)
NoTrailing == (phase = "row" /\ res.ok /\ HdrTerminated(row.d)) => \A b \in Alpha : ~Apply(row.s, Append(row.d, b)).ok
\* ops mode: a well-formed command sequence with the exact target size is accepted, with one byte more it is rejected
OpsVerdict == (Mode = "ops" /\ phase = "row") => (res.ok <=> SegLen(res.segs) = Declared(row.d) /\ res.segs # <<>>)
\* the verdict does not depend on the source contents, only on its length (so Src(n) is representative)
\* -- holds by construction: Apply takes srcLen only.
\* the canonical header encoding decodes to itself
ASSUME EncDec == \A n \in SrcLens \cup TgtSizes : LET e == Enc(n) IN Hdr(e, 1) = [v |-> n, n |-> Len(e) + 1]
=============================================================================
