-------------------------- MODULE CommitGraphFile --------------------------
(* What a commit-graph file (or split chain) must say about a history (gitformat-commit-graph(5),
   commit-graph.c), derived from the commit objects alone.  C51.

   A GRAPH is a record
     par    ordered parent sequences (DagUniverse!DagSeqs): commits are 1..Len(par)
     tm     committer instants, one [b |-> 0..2, s |-> 0..] per commit, standing for
            Base + b * 2^31 + s seconds: b is a "symbolic large gap" (TLC integers are 32 bit), so that
            corrected-date offsets cross 2^31 (GDO2 overflow chunk) and 2^32 exactly at chosen commits
     cuts   <<k1, k2>>, k1 <= k2: the split chain has the layers 1..k1, k1+1..k2, k2+1..N (empty ones dropped)

   Per commit the file stores: root tree, parents (two slots; three or more parents go through the
   extra-edge list, whose last entry per commit carries the terminator bit), commit time, generation
   number v1 (topological level = 1 + max over parents, roots 1) and generation number v2 (corrected
   commit date = max(own time, 1 + max over parents' corrected dates), stored as offset from the own
   time; offsets >= 2^31 go to the overflow chunk).                                               *)
EXTENDS DagUniverse, Integers, TLC, Json, SequencesExt

CONSTANTS Graphs, Emit
GraphSeq == Graphs        \* (TLC caches a defined constant, not an overridden one)

T(b, s) == [b |-> b, s |-> s]
Later(x, y)   == x.b > y.b \/ (x.b = y.b /\ x.s > y.s)           \* x strictly later than y
LaterEq(x, y) == x = y \/ Later(x, y)
Succ(x) == T(x.b, x.s + 1)
MaxT(S) == CHOOSE x \in S : \A y \in S : LaterEq(x, y)
MaxN(S) == IF S = {} THEN 0 ELSE CHOOSE x \in S : \A y \in S : y <= x

NCom(G) == Len(G.par)
\* generation number v1
Gen(G) == LET g[c \in 1..NCom(G)] == 1 + MaxN({g[p] : p \in SeqRange(G.par[c])}) IN g
\* generation number v2: corrected commit date
CD(G) == LET d[c \in 1..NCom(G)] == MaxT({G.tm[c]} \cup {Succ(d[p]) : p \in SeqRange(G.par[c])}) IN d
\* its stored form: offset = hi * 2^31 + lo  (lo may be negative when hi > 0)
Off(G, c) == [hi |-> CD(G)[c].b - G.tm[c].b, lo |-> CD(G)[c].s - G.tm[c].s]
OffClass(o) == IF o.hi >= 3 \/ (o.hi = 2 /\ o.lo >= 0) THEN "ge-2^32"
               ELSE IF o.hi = 2 \/ (o.hi = 1 /\ o.lo >= 0) THEN "2^31-to-2^32"
               ELSE IF o.hi = 0 /\ o.lo = 0 THEN "zero" ELSE "lt-2^31"
Overflows(o) == OffClass(o) \in {"2^31-to-2^32", "ge-2^32"}

\* the two parent slots and the extra-edge list
Slots(G, c) == LET ps == G.par[c] IN
  [p1 |-> IF Len(ps) >= 1 THEN ps[1] ELSE 0,
   p2 |-> IF Len(ps) = 2 THEN ps[2] ELSE 0,
   octopus |-> Len(ps) > 2,
   extra |-> IF Len(ps) > 2 THEN SubSeq(ps, 2, Len(ps)) ELSE <<>>]      \* the last one carries the terminator bit
NumExtra(G) == LET n[c \in 0..NCom(G)] == IF c = 0 THEN 0 ELSE n[c - 1] + Len(Slots(G, c).extra) IN n[NCom(G)]
NumOverflow(G) == Cardinality({c \in 1..NCom(G) : Overflows(Off(G, c))})
\* (chunk order is free in the format; this is the order git 2.39 writes)
Chunks(G) == <<"OIDF", "OIDL", "CDAT", "GDA2">> \o (IF NumOverflow(G) > 0 THEN <<"GDO2">> ELSE <<>>)
             \o (IF NumExtra(G) > 0 THEN <<"EDGE">> ELSE <<>>)
LayerOf(G, c) == IF c <= G.cuts[1] THEN 1 ELSE IF c <= G.cuts[2] THEN 2 ELSE 3

CommitRec(G, c) ==
  [c |-> c, par |-> G.par[c], tm |-> G.tm[c], gen |-> Gen(G)[c], cd |-> CD(G)[c], off |-> Off(G, c),
   offclass |-> OffClass(Off(G, c)), slots |-> Slots(G, c), layer |-> LayerOf(G, c)]
Row(gi) == LET G == GraphSeq[gi] IN
  [g |-> gi, par |-> G.par, cuts |-> G.cuts, commits |-> [c \in 1..NCom(G) |-> CommitRec(G, c)],
   nextra |-> NumExtra(G), noverflow |-> NumOverflow(G), chunks |-> Chunks(G)]

ASSUME Emit => ndJsonSerialize("commitgraph_rows.ndjson", [gi \in 1..Len(GraphSeq) |-> Row(gi)])

VARIABLES gi, row
vars == <<gi, row>>
Init == gi \in 1..Len(GraphSeq) /\ row = Row(gi)
Next == UNCHANGED vars
Spec == Init /\ [][Next]_vars

G0 == GraphSeq[gi]
\* theorems
GenAgrees    == \A c \in 1..NCom(G0) : Gen(G0)[c] = GenOf(ParSet(G0.par))[c]          \* two definitions of the level
GenMonotone  == \A c \in 1..NCom(G0) : \A p \in SeqRange(G0.par[c]) : Gen(G0)[c] > Gen(G0)[p]
GenTight     == \A c \in 1..NCom(G0) : G0.par[c] # <<>> => \E p \in SeqRange(G0.par[c]) : Gen(G0)[c] = Gen(G0)[p] + 1
CDMonotone   == \A c \in 1..NCom(G0) : /\ LaterEq(CD(G0)[c], G0.tm[c])
                                       /\ \A p \in SeqRange(G0.par[c]) : Later(CD(G0)[c], CD(G0)[p])
OffNonNeg    == \A c \in 1..NCom(G0) : LET o == Off(G0, c) IN o.hi >= 0 /\ (o.hi = 0 => o.lo >= 0)
OffZeroIffOwn == \A c \in 1..NCom(G0) : (OffClass(Off(G0, c)) = "zero") <=> (CD(G0)[c] = G0.tm[c])
ExtraCount   == row.nextra = Cardinality({<<c, i>> \in (1..NCom(G0)) \X (2..6) : Len(G0.par[c]) > 2 /\ i <= Len(G0.par[c])})
ChunkRule    == /\ ("EDGE" \in SeqRange(row.chunks)) <=> (\E c \in 1..NCom(G0) : Len(G0.par[c]) > 2)
                /\ ("GDO2" \in SeqRange(row.chunks)) <=> (\E c \in 1..NCom(G0) : Overflows(Off(G0, c)))
=============================================================================
