---------------------------- MODULE CommitStruct ----------------------------
(* The struct -> bytes -> struct direction of C02 for commits.

   A well-formed in-memory commit is  [np, enc, extras, sig, sig256, msg]  (tree, author and
   committer are always present).  Encode(c) is git's canonical emission (commit_tree_extended
   followed by signing) as a sequence of header-line kinds of CommitCodec; the theorems say
   that every encoding is Canonical in the sense of CommitCodec and that CommitCodec's Dec
   gives the struct back.  Each struct is one TLC state; the encodings are serialised in the
   row format of CommitCodec (the harness builds the struct from the row's fields, calls
   Commit.Encode and compares with the rendered row, then decodes it again).              *)
EXTENDS CommitCodec

CONSTANTS MaxExtras, EmitS

ExtraShapes == {<<"other">>, <<"mergetag", "cont", "cont">>, <<"other", "cont", "contE", "cont">>, <<"gpgsigx">>}
SigShapes   == {<<>>, <<"gpgsig">>, <<"gpgsig", "cont", "cont">>, <<"gpgsig", "cont", "contE", "cont">>}
Sig256Shapes == {<<>>, <<"gpgsig256", "cont">>}

Structs == [np : 0..2, enc : BOOLEAN, extras : SeqsUpTo(ExtraShapes, MaxExtras),
            sig : SigShapes, sig256 : Sig256Shapes, msg : Ends \ {"eof"}]

Encode(c) == <<"tree">> \o [i \in 1..c.np |-> "parent"] \o <<"author", "committer">> \o
             (IF c.enc THEN <<"encoding">> ELSE <<>>) \o Flat(c.extras) \o c.sig \o c.sig256

\* project CommitCodec's decoded record (positions) back to a struct, given the encoded header
KindsAt(h, ps) == [i \in 1..Len(ps) |-> h[ps[i]]]
Project(h, d) == [np |-> Len(d.parents), enc |-> d.enc # 0,
                  extras |-> [g \in 1..Len(d.extras) |-> KindsAt(h, d.extras[g])],
                  sig |-> KindsAt(h, d.sig), sig256 |-> KindsAt(h, d.sig256), msg |-> d.msg]

ASSUME EmitS => ndJsonSerialize("commit_struct_rows.ndjson", SetToSeq({Row(Encode(c), c.msg) : c \in Structs}))

VARIABLE cs
InitS == /\ cs \in Structs
         /\ hh = Encode(cs) /\ ee = cs.msg /\ dd = Dec(Encode(cs), cs.msg)
NextS == UNCHANGED <<hh, ee, dd, cs>>

\* Decode(Encode(c)) = c, and every encoding is canonical (so Encode(Decode(Encode(c))) = Encode(c))
RoundTrip == /\ Canonical(hh, ee)
             /\ Project(hh, dd) = cs
             /\ dd.author = dd.authorLog /\ dd.committer = dd.committerLog
\* the signature never leaks into the payload and the payload loses nothing else but gpgsig-prefixed extras
PayloadOfStruct == RangeOf(Payload(hh)) \cap RangeOf(dd.sig) = {}
=============================================================================
