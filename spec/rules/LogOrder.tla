------------------------------ MODULE LogOrder ------------------------------
(* C43  History traversal: which commits a log yields and what each order promises.

   Mode = "gen"    enumerates the scenarios: every commit graph WITH ORDERED PARENTS of
                   DagSeqs(n, K), n = 1..N (the walk always starts at the highest commit,
                   so the graphs on fewer commits stand for walks from lower commits) and
                   every weak order of committer times; writes log_scen.ndjson /
                   log_times_<n>.ndjson.  One TLC state per graph; the theorems below show
                   that every contract is satisfiable on every graph (non-vacuity).
   Mode = "check"  batch trace validation: log_records.ndjson holds one record per real
                   traversal made by the harness (harness/cmd/vhdag/c43.go):
                     [kind, order, backend, pseq, tm, from, all, refs, since, until, to, out, err]
                   out = the yielded commits in order (numbers; 0 = a commit that is not part
                   of the scenario).  One TLC state per record; Fails(rec) is the set of
                   violated clauses, printed for the records where it is not empty.

   Expected(rec)   the commits that must be yielded (as a set):
       from / all      Reach of the start commit, or of HEAD and every ref (--all)
       first-parent    the first-parent chain only
       since s         git's --since / --max-age: the walk does not go below a commit older
                       than s, so only commits with tm >= s that are connected to a start
                       through such commits (git 2.39 without --since-as-filter)
       until u         a plain filter tm <= u (git --until / --min-age)
       to t            git's  t..from  plus the tail itself:  (Reach(from) \ Reach(t)) \cup {t}
   Contracts (only judged on unlimited, single-start walks)
       dfs, default    a depth-first pre-order: every commit after the first is a parent of the
                       most recent earlier commit that still has an unvisited parent
       dfspost         depth-first, and after a two-parent merge whose parents are both new the
                       merged (second) parent comes before the base (first) parent
       bfs             distance from the start never decreases
       ctime           each commit is a newest member of the frontier (parents of what was
                       yielded, not yet yielded); git rev-list's default order
       fpp             exactly the first-parent chain, in order
       topo            no commit before any of its descendants           (--topo-order)
       date, author    topo, and each commit is a newest among those whose children are all out (--date-order)
*)
EXTENDS DagUniverse, TLC, Json, SequencesExt, Integers

CONSTANTS N, K, Mode

\* ----------------------------------------------------------------- expected sets
FPChain(pseq, c) ==
  LET F[x \in 1..Len(pseq)] == IF pseq[x] = <<>> THEN {x} ELSE {x} \cup F[pseq[x][1]] IN F[c]
FPSeq(pseq, c) ==
  LET F[x \in 1..Len(pseq)] == IF pseq[x] = <<>> THEN <<x>> ELSE <<x>> \o F[pseq[x][1]] IN F[c]

\* commits with tm >= s connected to a start through commits with tm >= s (edges: par)
SinceReach(par, tm, S, s) ==
  LET n == Len(par)
      F[k \in 0..n] == IF k = 0 THEN {}
                       ELSE LET c == n - k + 1   prev == F[k-1]
                            IN IF tm[c] >= s /\ (c \in S \/ \E d \in prev : c \in par[d]) THEN prev \cup {c} ELSE prev
  IN F[n]

Starts(rec) == IF rec.all THEN {rec.from} \cup SeqRange(rec.refs) ELSE {rec.from}
EdgePar(rec) == IF rec.order = "fpp"
                  THEN [c \in 1..Len(rec.pseq) |-> IF rec.pseq[c] = <<>> THEN {} ELSE {rec.pseq[c][1]}]
                  ELSE ParSet(rec.pseq)
Expected(rec) ==
  LET par  == EdgePar(rec)
      S    == Starts(rec)
      base == IF rec.since > 0 THEN SinceReach(par, rec.tm, S, rec.since) ELSE Reach(par, S)
      unt  == IF rec.until > 0 THEN {c \in base : rec.tm[c] <= rec.until} ELSE base
  IN IF rec.to > 0 THEN (unt \ Reach(par, {rec.to})) \cup ({rec.to} \cap unt) ELSE unt

\* --------------------------------------------------------------------- contracts
Before(out, i) == {out[k] : k \in 1..(i-1)}
MaxOf(S) == CHOOSE x \in S : \A y \in S : y <= x

DFSOK(par, out) ==
  \A i \in 2..Len(out) :
    LET vis == Before(out, i)
        J   == {j \in 1..(i-1) : par[out[j]] \ vis # {}}
    IN J # {} /\ out[i] \in par[out[MaxOf(J)]]

MergedFirst(pseq, out) ==
  \A i \in 1..Len(out) :
    LET ps == pseq[out[i]]  vis == Before(out, i) IN
    (Len(ps) = 2 /\ ps[1] \notin vis /\ ps[2] \notin vis /\ ps[1] \in SeqRange(out) /\ ps[2] \in SeqRange(out))
       => PosIn(out, ps[2]) < PosIn(out, ps[1])

BFSOK(par, from, out) ==
  LET D == DistFrom(par, from) IN \A i, j \in 1..Len(out) : i < j => D[out[i]] <= D[out[j]]

CTimeOK(par, tm, from, out) ==
  \A i \in 1..Len(out) :
    LET vis == Before(out, i)
        fr  == ({from} \cup UNION {par[v] : v \in vis}) \ vis
    IN out[i] \in fr /\ \A f \in fr : tm[f] <= tm[out[i]]

TopoOK(par, out) ==
  LET A == AncOf(par) IN \A i, j \in 1..Len(out) : i < j => ~(out[i] # out[j] /\ out[i] \in A[out[j]])

DateOK(par, tm, out) ==
  LET all == SeqRange(out) IN
  /\ TopoOK(par, out)
  /\ \A i \in 1..Len(out) :
       LET vis   == Before(out, i)
           ready == {c \in all \ vis : \A d \in all : (c \in par[d]) => d \in vis}
       IN out[i] \in ready /\ \A r \in ready : tm[r] <= tm[out[i]]

Contract(rec) ==
  LET par == ParSet(rec.pseq)  out == rec.out IN
  CASE rec.order \in {"default", "dfs"} -> DFSOK(par, out)
    [] rec.order = "dfspost"            -> DFSOK(par, out) /\ MergedFirst(rec.pseq, out)
    [] rec.order = "bfs"                -> BFSOK(par, rec.from, out)
    [] rec.order = "ctime"              -> CTimeOK(par, rec.tm, rec.from, out)
    [] rec.order = "fpp"                -> out = FPSeq(rec.pseq, rec.from)
    [] rec.order = "topo"               -> TopoOK(par, out)
    [] rec.order \in {"date", "author"} -> DateOK(par, rec.tm, out)
    [] OTHER                            -> FALSE

Unlimited(rec) == rec.since = 0 /\ rec.until = 0 /\ rec.to = 0 /\ ~rec.all

Fails(rec) ==
  IF rec.err # "" THEN {"error"}
  ELSE LET out == rec.out
           n   == Len(rec.pseq)
           ok  == \A i \in 1..Len(out) : out[i] \in 1..n
       IN IF ~ok THEN {"foreign-commit"}
          ELSE LET E == Expected(rec)  G == SeqRange(out) IN
               (IF E \ G # {} THEN {"missing"} ELSE {}) \cup
               (IF G \ E # {} THEN {"extra"} ELSE {}) \cup
               (IF NoDup(out) THEN {} ELSE {"duplicate"}) \cup
               (IF Unlimited(rec) /\ G = E /\ NoDup(out) /\ ~Contract(rec) THEN {"order"} ELSE {})

\* -------------------------------------------------------------- scenario generation
AllDags == UNION {DagSeqs(n, K) : n \in 1..N}
ASSUME Mode = "gen" => ndJsonSerialize("log_scen.ndjson", SetToSeq({[pseq |-> d] : d \in AllDags}))
ASSUME Mode = "gen" => \A n \in 1..N :
          ndJsonSerialize("log_times_" \o ToString(n) \o ".ndjson", SetToSeq({[tm |-> t] : t \in WeakOrders(n)}))

Records == IF Mode = "check" THEN ndJsonDeserialize("log_records.ndjson") ELSE <<>>

VARIABLES scen, idx
vars == <<scen, idx>>
Init == \/ Mode = "gen" /\ scen \in AllDags /\ idx = 0
        \/ Mode = "check" /\ scen = <<>> /\ idx \in 1..Len(Records)
Next == UNCHANGED vars

\* reference traversals (greedy, deterministic) used to show that the contracts are satisfiable
CandCTime(par, from, acc) == ({from} \cup UNION {par[v] : v \in SeqRange(acc)}) \ SeqRange(acc)
CandDate(par, from, acc)  == LET all == Reach(par, {from}) IN
                             {c \in all \ SeqRange(acc) : \A d \in all : (c \in par[d]) => d \in SeqRange(acc)}
RECURSIVE Greedy(_, _, _, _, _)
\* repeatedly take the newest (ties: lowest number) candidate until there is none
Greedy(par, tm, from, kind, acc) ==
  LET c == IF kind = "ctime" THEN CandCTime(par, from, acc) ELSE CandDate(par, from, acc) IN
  IF c = {} THEN acc
  ELSE LET best == CHOOSE x \in c : \A y \in c : tm[y] < tm[x] \/ (tm[y] = tm[x] /\ x <= y)
       IN Greedy(par, tm, from, kind, Append(acc, best))
RefCTime(par, tm, from) == Greedy(par, tm, from, "ctime", <<>>)
RefDate(par, tm, from)  == Greedy(par, tm, from, "date", <<>>)

GenTheorems ==
  Mode = "gen" =>
    LET n == Len(scen)  par == ParSet(scen)  R == Reach(par, {n}) IN
    \A tm \in (IF n <= 3 THEN WeakOrders(n) ELSE {[c \in 1..n |-> c], [c \in 1..n |-> n + 1 - c], [c \in 1..n |-> 1]}) :
      LET ct == RefCTime(par, tm, n)  dt == RefDate(par, tm, n) IN
      /\ SeqRange(ct) = R /\ NoDup(ct) /\ CTimeOK(par, tm, n, ct)
      /\ SeqRange(dt) = R /\ NoDup(dt) /\ DateOK(par, tm, dt) /\ TopoOK(par, dt)
      /\ FPChain(scen, n) \subseteq R /\ SeqRange(FPSeq(scen, n)) = FPChain(scen, n)
      /\ SinceReach(par, tm, {n}, 1) = R                       \* a limit below every instant limits nothing
      /\ \A s \in 1..n : SinceReach(par, tm, {n}, s) \subseteq {c \in R : tm[c] >= s}
      /\ (~Skewed(par, tm)) => \A s \in 1..n : SinceReach(par, tm, {n}, s) = {c \in R : tm[c] >= s}

Report ==
  Mode = "check" =>
    LET f == Fails(Records[idx]) IN
    f = {} \/ PrintT(ToJson([i |-> idx, fails |-> f]))
=============================================================================
