---------------------------- MODULE DagUniverse ----------------------------
(* Shared universe of small commit graphs for the history-shaped properties
   (C42 DAGQueries, C37 RevList, C43 LogOrder; C47 / C51 / C46 EXTEND it too).

   INTERFACE (stable; add operators, never change the meaning of existing ones)
   -------------------------------------------------------------------------
   The module has NO CONSTANTS and NO VARIABLES: every operator takes the bound
   as an argument, so any module may `EXTENDS DagUniverse` (or INSTANCE it)
   without a cfg entry.

   Commits are the integers 1..N.  Commit c may only have parents in 1..c-1, so
   every parent function is acyclic by construction and 1 is always a root.
   Commit numbers say NOTHING about time: committer times are a separate
   function, so children older than their parents and ties are all present.

   Graphs
     DagSets(N, K)   set of parent functions  par \in [1..N -> SUBSET (1..N)]
                     (represented as sequences, so ToJson gives [[...],[...]])
                     with par[c] \subseteq 1..c-1 and Cardinality(par[c]) <= K.
                     |DagSets(4,3)| = 64, |DagSets(5,2)| = 616, |DagSets(5,4)| = 1024.
     DagSeqs(N, K)   the same with ORDERED parents: pseq[c] is a duplicate-free
                     sequence over 1..c-1 of length <= K (first parent = pseq[c][1]).
                     |DagSeqs(4,2)| = 100, |DagSeqs(4,3)| = 160, |DagSeqs(5,2)| = 1700.
     ParSet(pseq)    forgets the order: DagSeqs -> DagSets.
     ParAsc(par)     canonical ordered form of a set-DAG (parents ascending).
     ExtendDag(d, S) the DAG d with one more commit whose parents are S (a set or a
                     sequence, matching d) - for building graphs step by step in
                     -simulate mode beyond the exhaustive bound.

   Committer times
     TimeFns(N, T)   [1..N -> 1..T]   every assignment of T abstract instants
     WeakOrders(N)   the canonical representatives of all weak orders on 1..N
                     (time functions onto an initial segment 1..k): 1, 3, 13, 75,
                     541, 4683 for N = 1..6.
     Skewed(par, tm) some child is strictly older than one of its parents.
     The harness renders instant t as the committer time  Base + t * Step seconds.

   Graph queries (par is a set-DAG; use ParSet first for an ordered one)
     Nodes(par)            1..Len(par)
     AncOf(par)            function c |-> ancestors of c INCLUDING c
     Reach(par, S)         UNION of AncOf over S  (S may contain only nodes of par)
     IsAnc(par, a, b)      a is an ancestor of b or a = b   (git merge-base --is-ancestor a b)
     ChildrenOf(par, c)    {d : c \in par[d]}
     Roots(par), Heads(par)
     Maximal(par, S)       members of S that are not a proper ancestor of another member
     CutAt(par, Sh)        par with the parents of the commits in Sh removed (shallow boundary/grafts)
     GenOf(par)            function c |-> topological level, roots have 1 (commit-graph generation v1)
     DistFrom(par, s)      function c |-> length of the shortest parent path from s to c (N+1 if unreachable)
   Sequences
     SeqRange(s), NoDup(s), PosIn(s, x) (0 if absent)
*)
EXTENDS Naturals, FiniteSets, Sequences

SeqRange(s) == {s[i] : i \in DOMAIN s}
NoDup(s)    == \A i, j \in DOMAIN s : i # j => s[i] # s[j]
PosIn(s, x) == IF \E i \in DOMAIN s : s[i] = x THEN CHOOSE i \in DOMAIN s : s[i] = x ELSE 0

\* ---------------------------------------------------------------- graphs
ParChoices(c, K) == {S \in SUBSET (1..(c-1)) : Cardinality(S) <= K}

RECURSIVE DagSets(_, _)
DagSets(N, K) == IF N = 0 THEN {<<>>}
                 ELSE {Append(d, S) : d \in DagSets(N-1, K), S \in ParChoices(N, K)}

\* duplicate-free sequences over the set S of length <= K
RECURSIVE InjSeqs(_, _)
InjSeqs(S, K) == IF K = 0 THEN {<<>>}
                 ELSE {<<>>} \cup UNION {{<<x>> \o t : t \in InjSeqs(S \ {x}, K-1)} : x \in S}
                 \* t ranges over sequences avoiding x, so the result has no duplicates

RECURSIVE DagSeqs(_, _)
DagSeqs(N, K) == IF N = 0 THEN {<<>>}
                 ELSE {Append(d, ps) : d \in DagSeqs(N-1, K), ps \in InjSeqs(1..(N-1), K)}

ParSet(pseq) == [c \in DOMAIN pseq |-> SeqRange(pseq[c])]

\* ascending sequence of a finite set of naturals
RECURSIVE AscSeq(_)
AscSeq(S) == IF S = {} THEN <<>>
             ELSE LET m == CHOOSE x \in S : \A y \in S : x <= y IN <<m>> \o AscSeq(S \ {m})
ParAsc(par) == [c \in DOMAIN par |-> AscSeq(par[c])]

ExtendDag(d, S) == Append(d, S)

\* ----------------------------------------------------------------- times
TimeFns(N, T) == [1..N -> 1..T]
WeakOrders(N) == {t \in [1..N -> 1..N] : \E k \in 1..N : {t[i] : i \in 1..N} = 1..k}
Skewed(par, tm) == \E c \in DOMAIN par : \E p \in par[c] : tm[c] < tm[p]

\* --------------------------------------------------------------- queries
Nodes(par) == DOMAIN par

AncOf(par) ==
  LET A[c \in DOMAIN par] == {c} \cup UNION {A[p] : p \in par[c]} IN A

Reach(par, S) == LET A == AncOf(par) IN UNION {A[c] : c \in S}
IsAnc(par, a, b) == a \in AncOf(par)[b]
ChildrenOf(par, c) == {d \in DOMAIN par : c \in par[d]}
Roots(par) == {c \in DOMAIN par : par[c] = {}}
Heads(par) == {c \in DOMAIN par : ChildrenOf(par, c) = {}}
Maximal(par, S) == LET A == AncOf(par) IN {x \in S : \A y \in S : (y # x) => x \notin A[y]}
CutAt(par, Sh) == [c \in DOMAIN par |-> IF c \in Sh THEN {} ELSE par[c]]

GenOf(par) ==
  LET Max(S) == IF S = {} THEN 0 ELSE CHOOSE x \in S : \A y \in S : y <= x
      G[c \in DOMAIN par] == 1 + Max({G[p] : p \in par[c]})
  IN G

\* shortest parent-path distance from s (0 for s itself, Len(par)+1 = unreachable)
DistFrom(par, s) ==
  LET N == Len(par)
      Min(S) == CHOOSE x \in S : \A y \in S : x <= y
      \* D[c] computed top-down: c > s can never be reached; process nodes in decreasing order
      D[k \in 0..N] ==        \* D[k] = distance function restricted to nodes > N-k (as a function on 1..N)
        IF k = 0 THEN [c \in 1..N |-> N + 1]
        ELSE LET prev == D[k-1]
                 c == N - k + 1
                 viaKids == {prev[d] + 1 : d \in {d \in (c+1)..N : c \in par[d] /\ prev[d] <= N}}
                 v == IF c = s THEN 0 ELSE IF viaKids = {} THEN N + 1 ELSE Min(viaKids)
             IN [prev EXCEPT ![c] = v]
  IN D[N]
=============================================================================
