---------------------------- MODULE RefJailTrace ----------------------------
(* C14, batch trace validation: every filesystem call recorded while the reference / reflog API of
   storage/filesystem ran (jailfs records) is judged by PathJail.  Output: one verdict per record.  *)
EXTENDS PathJail, Json, IOUtils, SequencesExt

Recs  == ndJsonDeserialize("c14_trace.ndjson")
Scens == ndJsonDeserialize("c14_scen.ndjson")

Judge(r) ==
  LET sc   == Scens[r.sc]
      G    == sc.gitdir
      req  == r.base \o r.p
      ClsOf(s) == LET m == {i \in 1..Len(r.p) : r.p[i] = s} IN IF m = {} THEN <<>> ELSE r.pc[CHOOSE i \in m : TRUE]
      lx   == Lex(req)
      ph   == Phys(req, sc.links, FollowsFinal(r.op))
      okl  == Inside(lx, G) /\ RefsRegion(Strip(G, lx.p), r.op, r.tmp, ClsOf)
      okp  == Inside(ph, G) /\ RefsRegion(Strip(G, ph.p), r.op, r.tmp, ClsOf)
  IN [id |-> r.id, ok |-> okl /\ okp,
      via |-> IF ~okl THEN "lexical" ELSE IF ~okp THEN "symlink" ELSE "none",
      where |-> IF ~okl THEN Where(lx, G) ELSE IF ~okp THEN Where(ph, G) ELSE "refs"]

ASSUME ndJsonSerialize("c14_verdicts.ndjson", [i \in 1..Len(Recs) |-> Judge(Recs[i])])

VARIABLE k
TInit == k \in 1..Len(Recs)
TNext == UNCHANGED k
\* model-level sanity on recorded data: a request without dot components, outside any link, is judged
\* the same by both readings
ReadingsAgree == LET r == Recs[k] req == r.base \o r.p IN
                   ((\A i \in 1..Len(req) : req[i] \notin {"..", "."}) /\ Scens[r.sc].links = <<>>)
                     => Lex(req) = Phys(req, <<>>, TRUE)
=============================================================================
