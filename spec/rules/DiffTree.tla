------------------------------ MODULE DiffTree ------------------------------
(* C44.  What a recursive tree diff is, stated on flat maps (git diff-tree -r --no-renames).

   A tree is a function from leaf paths to leaf values; "-" = no entry.  Directories are not
   entries of the flat map: a directory exists exactly when a path below it is present, so a
   file "a" and anything below "a/" exclude each other.  A leaf value names kind and content:
   f1 f2 fe (regular file, blob 1 / blob 2 / the empty blob), x1 (executable, blob 1),
   l1 (symbolic link, blob 1), g1 g2 (gitlink to commit 1 / 2).  Two leaves are the same iff
   kind and content are the same (mode and object id in the real tree).

   The path names are chosen so that siblings sort around '/':  a-b < a.b < a/ < a0 < ab ,
   and so that file <-> directory swaps happen at "a".

   Diff(A, B) is the set of changes; rename detection may only *re-pair* a deletion and an
   insertion of that set (Admissible).  Every pair of trees of the bounded domain is one TLC
   state; the theorems are TLC invariants; the table is serialised for the three-way
   comparison spec / go-git / git.                                                        *)
EXTENDS Integers, Sequences, FiniteSets, TLC, Json, IOUtils, SequencesExt

CONSTANTS Cfgs,      \* set of sub-domains [sib |-> sibling leaf paths next to "a",
                     \*                     sub |-> leaf paths below the directory "a", vals |-> leaf values,
                     \*                     ren |-> TRUE: rename detection is also run with every option record];
                     \* all pairs of trees *within* one sub-domain are enumerated (see MCDiffTree.tla)
          Emit       \* TRUE: write difftree_rows.ndjson

Below == {"a/b", "a/c"}                       \* every path below the directory "a" used by any sub-domain
\* (a sub-domain with ren = TRUE and a single file value has the same content at several old and
\*  several new paths: e.g. {a.b, a} -> {a0, a/b} deletes two and adds two copies of one blob)
TreesOf(c) == {t \in [c.sib \cup {"a"} \cup c.sub -> c.vals \cup {"-"}] : t["a"] = "-" \/ \A p \in c.sub : t[p] = "-"}
Pairs == UNION {TreesOf(c) \X TreesOf(c) : c \in Cfgs}
ASSUME \A c \in Cfgs : c.sub \subseteq Below /\ c.sib \cap (Below \cup {"a"}) = {}

Present(t) == {p \in DOMAIN t : t[p] # "-"}

\* one change: path, kind, old leaf, new leaf
Ins(p, B)    == [p |-> p, k |-> "ins", f |-> "-",  t |-> B[p]]
Del(p, A)    == [p |-> p, k |-> "del", f |-> A[p], t |-> "-"]
Mod(p, A, B) == [p |-> p, k |-> "mod", f |-> A[p], t |-> B[p]]
Diff(A, B) ==
  {Ins(p, B)    : p \in Present(B) \ Present(A)} \cup
  {Del(p, A)    : p \in Present(A) \ Present(B)} \cup
  {Mod(p, A, B) : p \in {q \in Present(A) \cap Present(B) : A[q] # B[q]}}

\* applying a set of changes to a tree
Apply(A, C) == [p \in DOMAIN A |->
   IF \E c \in C : c.p = p THEN (CHOOSE c \in C : c.p = p).t ELSE A[p]]
InvChanges(C) == {[p |-> c.p, k |-> (CASE c.k = "ins" -> "del" [] c.k = "del" -> "ins" [] OTHER -> "mod"),
                f |-> c.t, t |-> c.f] : c \in C}

\* ---------------------------------------------------------------- rename detection
\* An output with renames is a set of records [fp, tp, f, t]: fp = "" for an insertion,
\* tp = "" for a deletion, fp = tp for a modification, fp # tp for a rename / copy-less move.
\* It is admissible iff splitting every rename back into its deletion and insertion gives
\* exactly Diff(A, B), and no path is used twice: nothing lost, nothing invented.
Split(o) ==
  IF o.fp = "" THEN {[p |-> o.tp, k |-> "ins", f |-> "-", t |-> o.t]}
  ELSE IF o.tp = "" THEN {[p |-> o.fp, k |-> "del", f |-> o.f, t |-> "-"]}
  ELSE IF o.fp = o.tp THEN {[p |-> o.fp, k |-> "mod", f |-> o.f, t |-> o.t]}
  ELSE {[p |-> o.fp, k |-> "del", f |-> o.f, t |-> "-"], [p |-> o.tp, k |-> "ins", f |-> "-", t |-> o.t]}
Expand(out) == UNION {Split(out[i]) : i \in 1..Len(out)}
PathsUsed(out) == [i \in 1..Len(out) |-> {out[i].fp, out[i].tp} \ {""}]
\* The options of the detector (object.DiffTreeOptions with DetectRenames on): RenameLimit bounds the
\* candidate matrix (0 = no limit), OnlyExactRenames switches the similarity pass off, RenameScore is the
\* similarity threshold.  They may change WHICH deletions and insertions are paired, never WHETHER the
\* output is a re-pairing of the plain diff: Admissible does not depend on them (AdmissibleUnder).
DefaultOpts == [limit |-> 0, exact |-> FALSE, score |-> 60]
RenameOpts  == {DefaultOpts, [limit |-> 1, exact |-> FALSE, score |-> 60], [limit |-> 3, exact |-> FALSE, score |-> 60],
                [limit |-> 1, exact |-> TRUE, score |-> 60]}
OptClass(o) == (IF o.limit = 0 THEN "limit=0" ELSE "limit>0") \o (IF o.exact THEN ",exact" ELSE "") \o
               (IF o.score = 60 THEN "" ELSE ",score")
Admissible(A, B, out) ==
  LET pu == PathsUsed(out)
      ex == Expand(out)
  IN /\ ex = Diff(A, B)
     /\ \A i, j \in 1..Len(out) : i # j => pu[i] \cap pu[j] = {}
\* (hence Apply(A, Expand(out)) = B: theorem Complete below, checked on every pair of the domain)

AdmissibleUnder(o, A, B, out) == o \in RenameOpts /\ Admissible(A, B, out)

\* the option records rename detection is run with for a pair: the detector only acts when the plain
\* diff has a deletion and an insertion; elsewhere (and outside the ren sub-domains) the default suffices
HasDelIns(A, B) == (Present(A) \ Present(B) # {}) /\ (Present(B) \ Present(A) # {})
RenPairs == UNION {TreesOf(c) \X TreesOf(c) : c \in {x \in Cfgs : x.ren}}
OptsFor(A, B) == IF <<A, B>> \in RenPairs /\ HasDelIns(A, B) THEN RenameOpts ELSE {DefaultOpts}

\* ---------------------------------------------------------------- the table
SetSeq(S) == SetToSortSeq(S, LAMBDA a, b : TRUE)
Row(A, B) == [a |-> A, b |-> B, diff |-> SetSeq(Diff(A, B)), opts |-> SetSeq(OptsFor(A, B))]

ASSUME Emit => LET ps == SetToSeq(Pairs)
               IN ndJsonSerialize("difftree_rows.ndjson", [i \in 1..Len(ps) |-> Row(ps[i][1], ps[i][2])])

VARIABLES ta, tb, d
vars == <<ta, tb, d>>
Init == \E pr \in Pairs : ta = pr[1] /\ tb = pr[2] /\ d = Diff(pr[1], pr[2])
Next == UNCHANGED vars
Spec == Init /\ [][Next]_vars

\* ---------------------------------------------------------------- theorems (TLC invariants)
Complete      == Apply(ta, d) = tb                               \* the changes transform the first tree into the second
Minimal       == (d = {}) <=> (ta = tb)
OnePerPath    == \A c1, c2 \in d : c1.p = c2.p => c1 = c2
Symmetric     == Diff(tb, ta) = InvChanges(d)
WellFormed    == \A c \in d : /\ (c.k = "ins" <=> c.f = "-") /\ (c.k = "del" <=> c.t = "-")
                              /\ (c.k = "mod" => c.f # c.t /\ c.f # "-" /\ c.t # "-")
\* a file <-> directory swap is a deletion plus insertions, never a modification
SwapIsDelIns  == LET sub == Below \cap DOMAIN tb IN
                 (ta["a"] # "-" /\ \E p \in sub : tb[p] # "-") =>
                    /\ \E c \in d : c.p = "a" /\ c.k = "del"
                    /\ \A p \in sub : tb[p] # "-" => \E c \in d : c.p = p /\ c.k = "ins"
\* the trivial rename output (no renames at all) is admissible, and so is any exact re-pairing
NoRenameAdmissible ==
  LET out == [i \in 1..Cardinality(d) |->
                LET c == SetSeq(d)[i] IN
                [fp |-> IF c.k = "ins" THEN "" ELSE c.p, tp |-> IF c.k = "del" THEN "" ELSE c.p, f |-> c.f, t |-> c.t]]
  IN Admissible(ta, tb, out)
\* whatever the options make the detector pair: EVERY re-pairing of deletions with insertions (any
\* partial injection, however dissimilar the contents) expands to exactly the plain diff, and an output
\* that drops the insertions of a group it gave up on (or their deletions) never does
Dels == {c \in d : c.k = "del"}
Inss == {c \in d : c.k = "ins"}
Matchings == UNION {{m \in [S -> Inss] : \A x, y \in S : x # y => m[x] # m[y]} : S \in SUBSET Dels}
OutOf(m) ==
  LET ren  == {[fp |-> c.p, tp |-> m[c].p, f |-> c.f, t |-> m[c].t] : c \in DOMAIN m}
      used == DOMAIN m \cup {m[c] : c \in DOMAIN m}
      rest == {[fp |-> IF c.k = "ins" THEN "" ELSE c.p, tp |-> IF c.k = "del" THEN "" ELSE c.p, f |-> c.f, t |-> c.t] : c \in d \ used}
  IN SetSeq(ren \cup rest)
AnyRepairingAdmissible == \A o \in OptsFor(ta, tb) : \A m \in Matchings : AdmissibleUnder(o, ta, tb, OutOf(m))
DroppingIsInadmissible == \A m \in Matchings : \A c \in d :
   LET out == OutOf(m) IN
   ~Admissible(ta, tb, SelectSeq(out, LAMBDA o : ~(c.p \in {o.fp, o.tp})))
=============================================================================
