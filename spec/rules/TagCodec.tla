------------------------------ MODULE TagCodec ------------------------------
(* git's reading of a stored annotated tag, over physical header lines and body lines.

   A stored tag is  h \o [blank line \o b]  with h a sequence of header-line kinds and b a
   sequence of body-line kinds (eof = TRUE: no blank line, no body).  Line texts are positional
   (harness/cmd/vhcodec/render.go), fields are named by positions.

   Transcribed rules (git 2.39):
     tag.c            parse_tag_buffer          Accept, object, type, tag (strict order)
     ref-filter.c     find_wholine              tagger as for-each-ref reports it (first `tagger ` line)
     gpg-interface.c  parse_signed_buffer       the signature starts at the LAST line that begins an armor
     gpg-interface.c  parse_signature           payload = text before it, then remove_signature
     commit.c         remove_signature          drops at most TWO signature-header regions (see RemoveSig)
     builtin/tag.c    build_tag_object          canonical emission order
   gpgsig-sha256 on tags is collected like parse_buffer_signed_by_header does for commits.        *)
EXTENDS Naturals, Sequences, FiniteSets, TLC, Json, IOUtils, SequencesExt

CONSTANTS MaxPrefix,   \* every header of length <= MaxPrefix over HKinds (mostly rejected ones)
          MaxTail,     \* <<object,type,tag>> \o tail, Len(tail) <= MaxTail
          MaxBody,     \* canonical headers x every body of length <= MaxBody over BKinds
          Emit

HKinds == {"object", "objectBad", "type", "typeBad", "tag", "tagger", "gpgsig", "gpgsig256", "gpgsigx",
           "other", "bare", "cont", "contE"}
Cont == {"cont", "contE"}
\* body lines: "text", "blankline", armor lines ("pgp" = BEGIN PGP SIGNATURE, "pgpmsg" = BEGIN PGP
\* MESSAGE, "ssh", "x509"), "data" (a base64 looking line), "ipgp" (armor preceded by a space),
\* "tnl" text without trailing LF (only meaningful as last line)
BKinds == {"text", "blankline", "pgp", "pgpmsg", "ssh", "x509", "data", "ipgp"}
Armor  == {"pgp", "pgpmsg", "ssh", "x509"}

SeqsUpTo(S, n) == UNION {[1..k -> S] : k \in 0..n}
OTT == <<"object", "type", "tag">>
FewBodies == {<<>>, <<"text">>, <<"text", "pgp", "data">>, <<"text", "pgp", "data", "ssh", "data">>,
              <<"blankline", "text">>, <<"text", "pgp", "data", "text">>}
CanonHeaders == {OTT, OTT \o <<"tagger">>, OTT \o <<"tagger", "gpgsig256", "cont">>}
\* <<h, eof, b>>
Domain == {<<h, TRUE, <<>>>> : h \in SeqsUpTo(HKinds, MaxPrefix) \ {<<>>}}
          \cup {<<h, FALSE, <<"text">>>> : h \in SeqsUpTo(HKinds, MaxPrefix) \ {<<>>}}
          \cup {<<OTT \o t, FALSE, b>> : t \in SeqsUpTo(HKinds, MaxTail), b \in FewBodies}
          \cup {<<h, FALSE, b>> : h \in CanonHeaders, b \in SeqsUpTo(BKinds, MaxBody)}

MaxOf(S) == CHOOSE m \in S : \A o \in S : o <= m
MinOf(S) == CHOOSE m \in S : \A o \in S : m <= o
Pos(h, k) == {i \in 1..Len(h) : h[i] = k}
FirstPos(h, k) == IF Pos(h, k) = {} THEN 0 ELSE MinOf(Pos(h, k))
RangeOf(s) == {s[i] : i \in 1..Len(s)}
Ident(n) == [i \in 1..n |-> i]

\* ---- parse_tag_buffer --------------------------------------------------------------
RejectWhy(h) ==
  IF h[1] # "object" THEN (IF h[1] = "objectBad" THEN "bad-object-id" ELSE "first-line-not-object")
  ELSE IF Len(h) < 2 \/ h[2] \notin {"type", "typeBad"} THEN "second-line-not-type"
  ELSE IF h[2] = "typeBad" THEN "unknown-type"
  ELSE IF Len(h) < 3 \/ h[3] # "tag" THEN "third-line-not-tag"
  ELSE "ok"
Accept(h) == RejectWhy(h) = "ok"

Tagger(h) == FirstPos(h, "tagger")

\* ---- gpgsig-sha256 header (parse_buffer_signed_by_header with the sha256 header name) ---------
Sig256(h) ==
  LET f[i \in 0..Len(h)] ==
        IF i = 0 THEN [insig |-> FALSE, sig |-> <<>>]
        ELSE LET p == f[i-1] IN
             IF (p.insig /\ h[i] \in Cont) \/ h[i] = "gpgsig256"
             THEN [insig |-> TRUE, sig |-> Append(p.sig, i)]
             ELSE [insig |-> FALSE, sig |-> p.sig]
  IN f[Len(h)].sig

\* ---- body: parse_signed_buffer ------------------------------------------------------------
\* index of the body line where the signature starts, 0 if the tag carries no inline signature
Split(b) == LET a == {i \in 1..Len(b) : b[i] \in Armor} IN IF a = {} THEN 0 ELSE MaxOf(a)
MsgLen(b) == IF Split(b) = 0 THEN Len(b) ELSE Split(b) - 1

\* ---- remove_signature: at most two regions; a region is a gpgsig / gpgsig-sha256 header line plus
\*      the lines until the next line that neither continues it nor starts with the letters gpgsig.
\*      A second signature header directly after the first restarts the SAME region (the first header
\*      stays in the payload).  With a third region git writes past its two-element array: undefined.
RemoveSig(h) ==
  LET f[i \in 0..Len(h)] ==
        IF i = 0 THEN [insig |-> FALSE, cur |-> 1, reg |-> <<<<0, 0>>, <<0, 0>>, <<0, 0>>>>, undef |-> FALSE]
        ELSE LET p == f[i-1]
                 k == h[i]
             IN IF p.insig /\ k \in Cont
                THEN [p EXCEPT !.reg[p.cur] = <<@[1], i>>]
                ELSE IF k \in {"gpgsig", "gpgsig256"}
                THEN [p EXCEPT !.insig = TRUE, !.reg[p.cur] = <<i, i>>, !.undef = @ \/ p.cur = 3]
                ELSE IF k = "gpgsigx" THEN p
                ELSE [p EXCEPT !.insig = FALSE, !.cur = IF p.insig /\ p.cur # 3 THEN p.cur + 1 ELSE p.cur]
      r == f[Len(h)]
      gone == UNION {{i \in 1..Len(h) : r.reg[j][1] # 0 /\ r.reg[j][1] <= i /\ i <= r.reg[j][2]} : j \in 1..2}
  IN [undef |-> r.undef, keep |-> SelectSeq(Ident(Len(h)), LAMBDA i : i \notin gone)]

\* gpg-interface.c parse_payload_metadata: the verifier only runs when the payload has a tagger header
Verifiable(h) == Pos(h, "tagger") # {}
\* verify-tag: payload = header lines kept, blank line, message part of the body; signature = rest
Signed(b) == Split(b) # 0

\* ---- canonical emission: object, type, tag, tagger, (gpgsig-sha256), blank, message, signature ---
EncOrder(h) == <<1, 2, 3>> \o (IF Tagger(h) = 0 THEN <<>> ELSE <<Tagger(h)>>) \o Sig256(h)
NonCanon(h, eof) ==
  IF eof THEN "no-blank-line"
  ELSE IF Cardinality(Pos(h, "object") \cup Pos(h, "type") \cup Pos(h, "tag") \cup Pos(h, "tagger")) > 3 + (IF Tagger(h) = 0 THEN 0 ELSE 1)
       THEN "duplicate-standard-header"
  ELSE IF \E i \in 1..Len(h) : i \notin RangeOf(EncOrder(h)) THEN "unknown-or-dropped-header"
  ELSE IF Cardinality(Pos(h, "gpgsig256")) > 1 THEN "several-signature-headers"
  ELSE IF EncOrder(h) # Ident(Len(h)) THEN "header-order"
  ELSE "canonical"
Canonical(h, eof) == Accept(h) /\ NonCanon(h, eof) = "canonical"

TaggerKey(h) == IF Tagger(h) = 0 THEN "absent"
                ELSE (IF Tagger(h) = 4 THEN "inplace" ELSE "displaced") \o
                     (IF Cardinality(Pos(h, "tagger")) > 1 THEN "+dup" ELSE "")
BodyKey(b) == LET n == Cardinality({i \in 1..Len(b) : b[i] \in Armor}) IN
              IF n = 0 THEN "unsigned"
              ELSE (IF n = 1 THEN "one-block" ELSE "several-blocks") \o (IF Split(b) = 1 THEN "+empty-message" ELSE "")
SigHdrKey(h) == LET n == Cardinality(Pos(h, "gpgsig") \cup Pos(h, "gpgsig256")) IN
                IF n = 0 THEN "no-signature-header"
                \* a gpgsig-prefixed header that directly follows a signature region (header + continuation lines)
                ELSE IF \E i \in 2..Len(h) : /\ h[i] \in {"gpgsig", "gpgsig256", "gpgsigx"}
                                              /\ \E j \in 1..i-1 : h[j] \in {"gpgsig", "gpgsig256"} /\ \A k \in j+1..i-1 : h[k] \in Cont
                     THEN "adjacent-signature-headers"
                ELSE IF Pos(h, "gpgsigx") # {} THEN "with-gpgsig-prefixed-header"
                ELSE IF n = 1 THEN "one-signature-header" ELSE "separate-signature-headers"

Row(h, eof, b) ==
  [h |-> h, eof |-> eof, b |-> b, acc |-> Accept(h), why |-> RejectWhy(h),
   tagger |-> Tagger(h), sig256 |-> Sig256(h), split |-> Split(b), msglen |-> MsgLen(b),
   keep |-> RemoveSig(h).keep, undef |-> RemoveSig(h).undef, verifiable |-> Verifiable(h),
   canon |-> Canonical(h, eof), nc |-> NonCanon(h, eof),
   tk |-> TaggerKey(h), bk |-> BodyKey(b), hk |-> SigHdrKey(h)]

ASSUME Emit => ndJsonSerialize("tag_rows.ndjson", SetToSeq({Row(x[1], x[2], x[3]) : x \in Domain}))

VARIABLES hh, eo, bb
vars == <<hh, eo, bb>>
Init == \E x \in Domain : hh = x[1] /\ eo = x[2] /\ bb = x[3]
Next == UNCHANGED vars
Spec == Init /\ [][Next]_vars

\* message and signature partition the body; the signature, when present, starts with an armor line
BodyPartition == /\ MsgLen(bb) <= Len(bb)
                 /\ (Split(bb) # 0 => bb[Split(bb)] \in Armor /\ \A i \in Split(bb)+1..Len(bb) : bb[i] \notin Armor)
                 /\ (Split(bb) = 0 => \A i \in 1..Len(bb) : bb[i] \notin Armor)
\* the payload never contains a line of a signature header region it removed, and keeps every other header line
PayloadKeepsNonSig == \A i \in 1..Len(hh) : hh[i] \notin {"gpgsig", "gpgsig256", "gpgsigx"} \cup Cont => i \in RangeOf(RemoveSig(hh).keep)
\* canonical tags: every header line is decoded, the payload drops exactly the gpgsig-sha256 header
CanonicalUnambiguous ==
  Canonical(hh, eo) => /\ EncOrder(hh) = Ident(Len(hh))
                       /\ ~RemoveSig(hh).undef
                       /\ RangeOf(RemoveSig(hh).keep) = (1..Len(hh)) \ RangeOf(Sig256(hh))
\* re-encoding the decoded fields yields a canonical tag
ReencodeIsCanonical ==
  (Accept(hh) /\ ~eo) => LET o == EncOrder(hh)
                             s0 == Sig256(hh)
                             h2 == [i \in 1..Len(o) |-> IF Len(s0) > 0 /\ o[i] \in RangeOf(s0) /\ o[i] # s0[1] /\ hh[o[i]] \notin Cont
                                                         THEN "cont" ELSE hh[o[i]]]
                         IN Canonical(h2, FALSE) /\ [i \in 1..Len(Sig256(h2)) |-> o[Sig256(h2)[i]]] = Sig256(hh)
=============================================================================
