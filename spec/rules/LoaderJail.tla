----------------------------- MODULE LoaderJail -----------------------------
(* C40: repository loaders never serve a repository outside their root.

   The sandbox is defined HERE (Tree): a root directory R = <<"root">> with repositories, gitfiles and
   symbolic links inside it, and repositories outside it; the harness materialises exactly this tree
   (loaderjail_tree.json) and asks the real loader (transport.FilesystemLoader, directly and through the
   backend HTTP handler) for every request in Requests.  A request is a sequence of path tokens.
   Property (judged by LoaderJailTrace on the recorded outcome): if a storage is returned, the location
   of its filesystem root - under the lexical and the symlink-following reading of PathJail - is inside
   R; every filesystem request that succeeded while loading is inside R; the repository identity
   observed through the served storage (its HEAD) is one of the repositories inside R.             *)
EXTENDS PathJail, Json, IOUtils, SequencesExt

CONSTANTS MaxReq,     \* requests of 1..MaxReq tokens
          EmitRows

R == <<"root">>

\* kind: repo (worktree with .git dir), bare, gitfile (a .git file "gitdir: <to>"), link (symlink)
\* tk: how `to` is to be read: "rel" relative to the entry's directory, "root" absolute, given relative to the sandbox origin
Tree == <<
  [kind |-> "repo",    at |-> <<"root", "a">>,            id |-> "in-a"],
  [kind |-> "bare",    at |-> <<"root", "bare.git">>,     id |-> "in-bare"],
  [kind |-> "repo",    at |-> <<"outside", "repo">>,      id |-> "out-repo"],
  [kind |-> "bare",    at |-> <<"outside", "bare.git">>,  id |-> "out-bare"],
  [kind |-> "bare",    at |-> <<"sib.git">>,              id |-> "out-sib"],        \* siblings of R: one ".." away
  [kind |-> "repo",    at |-> <<"sibr">>,                 id |-> "out-sibr"],
  \* a sibling directory whose NAME extends R's name (R = .../root, sibling = .../root-private): outside R although
  \* its host path has R's host path as a textual prefix
  [kind |-> "bare",    at |-> <<"root-private", "secret.git">>, id |-> "out-privbare"],
  [kind |-> "repo",    at |-> <<"root-private", "w">>,    id |-> "out-privrepo"],
  \* absolute gitfiles whose text starts with R's host path but which leave R (tk "root": written un-normalised)
  [kind |-> "gitfile", at |-> <<"root", "gfabsdd">>,      to |-> <<"root", "..", "sibr", ".git">>, tk |-> "root"],
  [kind |-> "gitfile", at |-> <<"root", "gfabspriv">>,    to |-> <<"root-private", "w", ".git">>, tk |-> "root"],
  [kind |-> "gitfile", at |-> <<"root", "gfrel">>,        to |-> <<"..", "a", ".git">>, tk |-> "rel"],
  [kind |-> "gitfile", at |-> <<"root", "gfout">>,        to |-> <<"..", "..", "outside", "repo", ".git">>, tk |-> "rel"],
  [kind |-> "gitfile", at |-> <<"root", "gfabs">>,        to |-> <<"outside", "repo", ".git">>, tk |-> "root"],
  [kind |-> "gitfile", at |-> <<"root", "gfabsin">>,      to |-> <<"root", "a", ".git">>, tk |-> "root"],
  [kind |-> "gitfile", at |-> <<"root", "gflink">>,       to |-> <<"..", "lnkout", ".git">>, tk |-> "rel"],
  [kind |-> "link",    at |-> <<"root", "lnkout">>,       to |-> <<"..", "outside", "repo">>, tk |-> "rel"],
  [kind |-> "link",    at |-> <<"root", "lnkin">>,        to |-> <<"a">>, tk |-> "rel"],
  [kind |-> "link",    at |-> <<"root", "lnkabs">>,       to |-> <<"outside", "repo">>, tk |-> "root"],
  [kind |-> "link",    at |-> <<"root", "lnkbare">>,      to |-> <<"..", "outside", "bare.git">>, tk |-> "rel"],
  [kind |-> "link",    at |-> <<"root", "lnkgit", ".git">>, to |-> <<"..", "..", "outside", "repo", ".git">>, tk |-> "rel"],
  [kind |-> "link",    at |-> <<"root", "a", "sub">>,     to |-> <<"..", "..", "outside", "repo">>, tk |-> "rel"] >>

Links == SelectSeq([i \in 1..Len(Tree) |-> IF Tree[i].kind = "link"
                                            THEN [at |-> Tree[i].at, to |-> Tree[i].to, kind |-> Tree[i].tk]
                                            ELSE [at |-> <<"-">>, to |-> <<>>, kind |-> "none"]],
                   LAMBDA l : l.kind # "none")

\* git directories of the repositories, and which are inside R
GitDir(e) == IF e.kind = "repo" THEN e.at \o <<".git">> ELSE e.at
RepoIdx == {i \in 1..Len(Tree) : Tree[i].kind \in {"repo", "bare"}}
InsideIds  == {Tree[i].id : i \in {j \in RepoIdx : IsPrefixOf(R, Tree[j].at)}}
OutsideIds == {Tree[i].id : i \in {j \in RepoIdx : ~IsPrefixOf(R, Tree[j].at)}}

\* ---- requests
ReqTok == {"a", "bare.git", "bare", "gfrel", "gfout", "gfabs", "gfabsin", "gflink", "lnkout", "lnkin", "lnkabs",
           "lnkbare", "lnkgit", "sub", ".git", "..", ".", "", "outside", "repo", "%2e%2e", "nope", "ABS",
           "sib", "sib.git", "sibr", "secret.git", "w", "gfabsdd", "gfabspriv", "ABSR", "ABSR..", "ABSRX"}
\* host-absolute prefixes (only as first token): ABS = host path of the sandbox origin, ABSR = host path of R itself,
\* ABSR.. = host path of R followed by "/.." (un-normalised), ABSRX = host path of R with the suffix "-private"
AbsTok == {"ABS", "ABSR", "ABSR..", "ABSRX"}
Requests == {q \in UNION {[1..k -> ReqTok] : k \in 1..MaxReq} : \A i \in 2..Len(q) : q[i] \notin AbsTok}

\* scenario key of a request for finding signatures (first that applies)
Key(q) == IF q[1] \in AbsTok THEN "host-absolute-path"
          ELSE IF \E i \in 1..Len(q) : q[i] = ".." THEN "dotdot"
          ELSE IF \E i \in 1..Len(q) : q[i] \in {"gfout", "gfabs", "gflink", "gfrel", "gfabsin", "gfabsdd", "gfabspriv"} THEN "gitfile"
          ELSE IF \E i \in 1..Len(q) : q[i] \in {"lnkout", "lnkabs", "lnkbare", "lnkgit", "sub", "lnkin"} THEN "symlink"
          ELSE "plain"

\* the request read as a location below R (ABS leaves the sandbox reading: it is a host path)
AsReq(q) == R \o q
LexIn(q)  == q[1] \notin AbsTok /\ Inside(Lex(AsReq(q)), R)
PhysIn(q) == q[1] \notin AbsTok /\ Inside(Phys(AsReq(q), Links, TRUE), R)

Row(q) == [req |-> q, key |-> Key(q), lexin |-> LexIn(q), physin |-> PhysIn(q)]
ASSUME EmitRows => /\ ndJsonSerialize("loaderjail_rows.ndjson", SetToSeq({Row(q) : q \in Requests}))
                   /\ JsonSerialize("loaderjail_tree.json", [root |-> R, tree |-> Tree])

VARIABLE req
Init == req \in Requests
Next == UNCHANGED req
\* model-level theorems about the tree and the two readings
PlainStaysIn   == Key(req) = "plain" => LexIn(req) /\ PhysIn(req)            \* only dots, links, gitfiles or host paths can leave R
NoDotsLexIn    == (req[1] \notin AbsTok /\ \A i \in 1..Len(req) : req[i] # "..") => LexIn(req)
TreeHasEscapes == /\ \E q \in Requests : LexIn(q) /\ ~PhysIn(q)              \* the planted links really lead outside
                  /\ InsideIds # {} /\ OutsideIds # {}
=============================================================================
