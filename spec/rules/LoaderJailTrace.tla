-------------------------- MODULE LoaderJailTrace --------------------------
(* C40, batch trace validation of recorded Load outcomes (see LoaderJail).  One verdict per record. *)
EXTENDS LoaderJail

Recs == ndJsonDeserialize("c40_trace.ndjson")

BadTouches(r) == {i \in 1..Len(r.touches) :
                    LET t == r.touches[i] IN ~t.err /\ ~Jailed(t.base \o t.p, Links, t.op, R)}

Judge(r) ==
  LET rootLex  == Lex(r.root)
      rootPhys == Phys(r.root, Links, TRUE)
      rootBad  == r.served /\ ~(Inside(rootLex, R) /\ Inside(rootPhys, R))
      idBad    == r.served /\ r.ident \in OutsideIds
      bt       == BadTouches(r)
  IN [id |-> r.id,
      ok |-> ~rootBad /\ ~idBad /\ bt = {},
      class |-> IF rootBad THEN "served-root-outside" ELSE IF idBad THEN "content-from-outside"
                ELSE IF bt # {} THEN "touch-outside" ELSE "ok",
      via |-> IF rootBad /\ ~Inside(rootLex, R) THEN "lexical" ELSE IF rootBad THEN "symlink" ELSE "none",
      key |-> Key(r.req),
      known_ident |-> ~r.served \/ r.ident \in InsideIds \cup OutsideIds \cup {"?"}]

ASSUME ndJsonSerialize("c40_verdicts.ndjson", [i \in 1..Len(Recs) |-> Judge(Recs[i])])

VARIABLE k
TInit == k \in 1..Len(Recs) /\ req = Recs[k].req
TNext == UNCHANGED <<k, req>>
\* sanity on recorded data: the judgement is total and an accepted record shows no outside identity
JudgeSane == LET v == Judge(Recs[k]) IN
               /\ v.class \in {"ok", "served-root-outside", "content-from-outside", "touch-outside"}
               /\ (v.ok => (~Recs[k].served \/ Recs[k].ident \notin OutsideIds))
=============================================================================
