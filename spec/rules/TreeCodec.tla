------------------------------ MODULE TreeCodec ------------------------------
(* C04.  git's tree-object rules, transcribed (git 2.39.5):

     tree-walk.c  decode_tree_entry / get_mode      -> Parsable
     cache.h      canon_mode, ce_permissions         -> Canon      (what `git ls-tree` prints)
     fsck.c       fsck_tree, verify_ordered          -> Fsck       (message ids of `git fsck --strict`)
     path.c       is_ntfs_dotgit, is_ntfs_dot_generic
     utf8.c       is_hfs_dot_generic                 -> the .git / .gitmodules families
     tree.c / read-cache.c base_name_compare          -> KeyLess, CanonSort (a directory sorts as name + "/")

   A tree is a sequence of raw entries [n |-> name, m |-> raw mode, id |-> "h" | "z"].
   A name is a sequence of *tokens*.  The single-character tokens of `Ord` are listed in
   byte order, so comparing token ranks is comparing bytes; the harness renders every token
   to bytes that keep that order (harness/cmd/vhtree/c04.go).  Word tokens ("modules",
   "x4096", ...) only occur in one-entry trees, where order is irrelevant.
   A raw mode is the sequence of digits written in the object (8 = a non-octal character).

   Every tree of the bounded domain is one TLC initial state; the theorems at the end are
   TLC invariants; the rule table (tree, decoded entries, fsck ids, must-accept verdict,
   canonical order) is serialised for the three-way comparison spec / go-git / git.       *)
EXTENDS Integers, Sequences, FiniteSets, TLC, Json, IOUtils, SequencesExt

CONSTANTS MaxLen,      \* multi-entry trees of length 2..MaxLen over the sort domain
          Full,        \* TRUE: one-entry trees are the full product names x modes x ids
          Emit         \* TRUE: write treecodec_rows.ndjson

\* ---------------------------------------------------------------- characters
Ord == <<"ctl", "sp", "-", ".", "/", "0", "1", ":", "A", "G", "I", "T", "bs",
         "a", "b", "g", "i", "t", "~", "del", "zw">>
OrdSet == {Ord[i] : i \in 1..Len(Ord)}
RkMap  == [c \in OrdSet |-> CHOOSE i \in 1..Len(Ord) : Ord[i] = c]
Rk(c)  == IF c \in OrdSet THEN RkMap[c] ELSE 50     \* word tokens: never compared (see SortDomainOnly)
SlashRk == Rk("/")
Lower(c) == CASE c = "A" -> "a" [] c = "G" -> "g" [] c = "I" -> "i" [] c = "T" -> "t"
              [] c = "MODULES" -> "modules" [] OTHER -> c

\* ---------------------------------------------------------------- the names and raw modes of the domain
Reg == <<1,0,0,6,4,4>>
Dir == <<4,0,0,0,0>>
Sub == <<1,6,0,0,0,0>>
Modes == {Reg, <<1,0,0,7,5,5>>, <<1,0,0,6,6,4>>, <<0,1,0,0,6,4,4>>, Dir, <<0,4,0,0,0,0>>,
          <<1,2,0,0,0,0>>, Sub, <<1,0,0,0,0,0>>, <<0>>, <<7,7,7>>, <<1,0,0,6,1,0>>, <<1,0,0,7,0,0>>,
          <<4,0,7,5,5>>, <<1,1,0,0,6,4,4>>, <<0,0,1,0,0,6,4,4>>, <<1,2,0,7,7,7>>, <<>>, <<1,0,0,6,4,8>>}
SortNames == {<<"a">>, <<"a", "-">>, <<"a", ".", "b">>, <<"a", "0">>, <<"a", "b">>, <<"b">>}
SpecialNames == {
  <<>>, <<".">>, <<".", ".">>, <<".", ".", ".">>,
  <<".", "g", "i", "t">>, <<".", "G", "I", "T">>, <<".", "g", "I", "t">>,
  <<"g", "i", "t", "~", "1">>, <<"G", "I", "T", "~", "1">>, <<"g", "i", "t", "~", "0">>,
  <<".", "g", "zw", "i", "t">>, <<".", "g", "i", "t", "zw">>, <<"zw", ".", "g", "i", "t">>,
  <<".", "g", "i", "t", "sp">>, <<".", "g", "i", "t", ".">>, <<".", "g", "i", "t", ":", "a">>,
  <<".", "g", "i", "t", "a">>, <<".", "g", "i">>, <<"g", "i", "t">>,
  <<"a", "bs", ".", "g", "i", "t">>, <<"a", "bs", ".", "g", "i", "t", "bs", "b">>, <<"a", "bs", "b">>,
  <<"a", "bs", ".", ".">>, <<".", "bs", "a">>, <<"a", "bs", ".", ".", "b">>,
  <<"a", "/", "b">>, <<"/">>, <<"ctl">>, <<"a", "ctl", "b">>, <<"a", "del">>,
  <<"a", "sp", "b">>, <<"sp">>, <<"zw">>, <<"A">>, <<"-", "a">>, <<"~">>, <<":">>,
  <<".", "g", "i", "t", "modules">>, <<".", "G", "I", "T", "MODULES">>, <<".", "g", "i", "t", "modules", "sp">>,
  <<".", "g", "zw", "i", "t", "modules">>, <<"g", "i", "t", "mod", "~", "1">>, <<"gi7eba", "~", "1">>,
  <<"a", "bs", ".", "g", "i", "t", "modules">>, <<".", "g", "i", "t", "modules", "a">>,
  <<".", "g", "i", "t", "ignore">>, <<".", "g", "i", "t", "attributes">>, <<".", "mailmap">>,
  <<".", "g", "i", "t", "ignore", ".">>,
  <<"x4096">>, <<"x4097">>}
Names == SortNames \cup SpecialNames

Lnk == <<1,2,0,0,0,0>>

IsPrefixOf(p, s) == Len(p) <= Len(s) /\ \A i \in 1..Len(p) : p[i] = s[i]
LowerSeq(s) == [i \in 1..Len(s) |-> Lower(s[i])]

\* ---------------------------------------------------------------- modes
RECURSIVE ValRec(_)
ValRec(m) == IF Len(m) = 0 THEN 0 ELSE ValRec(SubSeq(m, 1, Len(m) - 1)) * 8 + m[Len(m)]
RECURSIVE Digits(_)
Digits(v) == IF v < 8 THEN <<v>> ELSE Append(Digits(v \div 8), v % 8)

ModeOK(m) == Len(m) > 0 /\ \A i \in 1..Len(m) : m[i] \in 0..7          \* get_mode
\* (TLC evaluates constant definitions once: the value of every mode string of the domain is tabulated)
ModeSet == Modes \cup {Digits(ValRec(m)) : m \in {x \in Modes : ModeOK(x)}}
ValMap  == [m \in ModeSet |-> ValRec(m)]
Val(m)  == ValMap[m]
Fmt(v)    == (v \div 4096) % 16                                           \* (mode & S_IFMT) >> 12
IsReg(v)  == Fmt(v) = 8
IsLnk(v)  == Fmt(v) = 10
IsDir(v)  == Fmt(v) = 4
\* canon_mode: S_ISREG ? S_IFREG | ce_permissions : S_ISLNK ? S_IFLNK : S_ISDIR ? S_IFDIR : S_IFGITLINK
\* ce_permissions(mode) = (mode & 0100) ? 0755 : 0644         (owner execute bit only)
Canon(v) == IF IsReg(v) THEN (IF (v \div 64) % 2 = 1 THEN 33261 ELSE 33188)       \* 100755 / 100644
            ELSE IF IsLnk(v) THEN 40960 ELSE IF IsDir(v) THEN 16384 ELSE 57344       \* 120000 40000 160000
Kind(v)  == IF IsReg(v) \/ IsLnk(v) THEN "blob" ELSE IF IsDir(v) THEN "tree" ELSE "commit"
Raw16(v) == v % 65536                                                     \* fsck keeps an unsigned short
StdModes == {33188, 33261, 40960, 16384, 57344}      \* 100644 100755 120000 40000 160000

\* ---------------------------------------------------------------- parsing
\* decode_tree_entry, entry by entry; `tail` describes the bytes after the last entry:
\* "ok" nothing, "trunc" the last object id is cut short, "extra" one stray byte follows.
EntryOK(e) == ModeOK(e.m) /\ Len(e.n) > 0
Parsable(t) == t.tail = "ok" /\ \A i \in 1..Len(t.es) : EntryOK(t.es[i])

\* why a tree does not parse (rule tags, for finding signatures)
Malformed(t) ==
  (IF t.tail # "ok" THEN {"tail-" \o t.tail} ELSE {})
  \cup (IF \E i \in 1..Len(t.es) : Len(t.es[i].m) = 0 THEN {"mode-empty"} ELSE {})
  \cup (IF \E i \in 1..Len(t.es) : \E j \in 1..Len(t.es[i].m) : t.es[i].m[j] \notin 0..7 THEN {"mode-nonoctal"} ELSE {})
  \cup (IF \E i \in 1..Len(t.es) : Len(t.es[i].n) = 0 THEN {"name-empty"} ELSE {})
\* what git ls-tree lists
Dec(t) == [i \in 1..Len(t.es) |-> [n |-> t.es[i].n, m |-> Digits(Canon(Val(t.es[i].m))),
                                    k |-> Kind(Val(t.es[i].m)), id |-> t.es[i].id]]

\* ---------------------------------------------------------------- name classes
Strip(n) == SelectSeq(n, LAMBDA c : c # "zw")                \* next_hfs_char skips ignorable code points
HfsDot(n, w) == LowerSeq(Strip(n)) = <<".">> \o w
\* only_spaces_and_periods up to the end or one of `stops`
TailOK(n, from, stops) ==
  LET S == {j \in from..Len(n) : n[j] \in stops}
      e == IF S = {} THEN Len(n) + 1 ELSE Min(S)
  IN \A j \in from..(e - 1) : n[j] \in {".", "sp"}
NtfsDotGit(n) ==
  \/ /\ Len(n) >= 4 /\ n[1] = "." /\ LowerSeq(SubSeq(n, 2, 4)) = <<"g", "i", "t">>
     /\ TailOK(n, 5, {"bs", "/", ":"})
  \/ /\ Len(n) >= 5 /\ LowerSeq(SubSeq(n, 1, 3)) = <<"g", "i", "t">> /\ n[4] = "~" /\ n[5] = "1"
     /\ TailOK(n, 6, {"bs", "/", ":"})
\* is_ntfs_dot_generic: ".<w>" + spaces/periods/ADS; short name <w[:6]>~1..4; fall-back short name
NtfsDot(n, w, short6, fallback) ==
  \/ /\ Len(n) >= 1 + Len(w) /\ n[1] = "." /\ LowerSeq(SubSeq(n, 2, 1 + Len(w))) = w
     /\ TailOK(n, 2 + Len(w), {":"})
  \/ /\ short6 # <<>> /\ Len(n) >= Len(short6) + 2 /\ LowerSeq(SubSeq(n, 1, Len(short6))) = short6
     /\ n[Len(short6) + 1] = "~" /\ n[Len(short6) + 2] = "1"
     /\ TailOK(n, Len(short6) + 3, {":"})
  \/ /\ fallback # "" /\ Len(n) >= 3 /\ n[1] = fallback /\ n[2] = "~" /\ n[3] = "1"
     /\ TailOK(n, 4, {":"})
GM == <<"g", "i", "t", "modules">>
GI == <<"g", "i", "t", "ignore">>
GA == <<"g", "i", "t", "attributes">>
MM == <<"mailmap">>
IsGitmodules(n)     == HfsDot(n, GM) \/ NtfsDot(n, GM, <<"g", "i", "t", "mod">>, "gi7eba")
IsGitignore0(n)     == HfsDot(n, GI) \/ NtfsDot(n, GI, <<>>, "")
IsGitattributes0(n) == HfsDot(n, GA) \/ NtfsDot(n, GA, <<>>, "")
IsMailmap0(n)       == HfsDot(n, MM) \/ NtfsDot(n, MM, <<>>, "")
\* the suffixes after each backslash (fsck_tree's backslash loop)
BsSuffixes(n) == {SubSeq(n, i + 1, Len(n)) : i \in {j \in 1..Len(n) : n[j] = "bs"}}
HasDotGit0(n) == HfsDot(n, <<"g", "i", "t">>) \/ NtfsDotGit(n) \/ \E s \in BsSuffixes(n) : NtfsDotGit(s)
GitmodulesLike0(n) == IsGitmodules(n) \/ \E s \in BsSuffixes(n) : NtfsDot(s, GM, <<"g", "i", "t", "mod">>, "gi7eba")
\* tabulated once per name of the domain
NC == [n \in Names |-> [dotgit |-> HasDotGit0(n), gm |-> GitmodulesLike0(n), ga |-> IsGitattributes0(n),
                        gi |-> IsGitignore0(n), mm |-> IsMailmap0(n)]]
HasDotGit(n)       == NC[n].dotgit
GitmodulesLike(n)  == NC[n].gm
IsGitattributes(n) == NC[n].ga
IsGitignore(n)     == NC[n].gi
IsMailmap(n)       == NC[n].mm

\* ---------------------------------------------------------------- ordering
\* fsck.c verify_ordered with its candidate stack, on raw 16-bit modes
ChRk(n, i) == IF i <= Len(n) THEN Rk(n[i]) ELSE 0
LtSlash(r) == 0 < r /\ r < SlashRk
RECURSIVE PopLoop(_, _)
PopLoop(stk, name2) ==
  IF Len(stk) = 0 THEN [dup |-> FALSE, stk |-> <<>>]
  ELSE LET f == stk[Len(stk)]
           rest == SubSeq(stk, 1, Len(stk) - 1)
       IN IF ~IsPrefixOf(f, name2) THEN PopLoop(rest, name2)
          ELSE IF Len(f) = Len(name2) THEN [dup |-> TRUE, stk |-> rest]
          ELSE IF LtSlash(Rk(name2[Len(f) + 1])) THEN [dup |-> FALSE, stk |-> stk]
          ELSE PopLoop(rest, name2)

\* result: [r |-> "ok" | "unordered" | "dups", stk |-> candidates]
VerifyOrdered(m1, n1, m2, n2, stk) ==
  LET len == IF Len(n1) < Len(n2) THEN Len(n1) ELSE Len(n2)
      D == {i \in 1..len : n1[i] # n2[i]}
  IN IF D # {} THEN [r |-> IF Rk(n1[Min(D)]) < Rk(n2[Min(D)]) THEN "ok" ELSE "unordered", stk |-> stk]
     ELSE LET c1r == ChRk(n1, len + 1)
              c2r == ChRk(n2, len + 1)
          IN IF c1r = 0 /\ c2r = 0 THEN [r |-> "dups", stk |-> stk]
             ELSE LET c1 == IF c1r = 0 /\ IsDir(m1) THEN SlashRk ELSE c1r
                      c2 == IF c2r = 0 /\ IsDir(m2) THEN SlashRk ELSE c2r
                      ord == IF c1 < c2 THEN "ok" ELSE "unordered"
                  IN IF c1 = 0 /\ LtSlash(c2) THEN [r |-> ord, stk |-> Append(stk, n1)]
                     ELSE IF c2 = SlashRk /\ LtSlash(c1)
                          THEN LET p == PopLoop(stk, n2)
                               IN IF p.dup THEN [r |-> "dups", stk |-> p.stk] ELSE [r |-> ord, stk |-> p.stk]
                          ELSE [r |-> ord, stk |-> stk]

RECURSIVE OrderScan(_, _, _, _)
\* folds verify_ordered over consecutive entries; acc = [uno, dup]
OrderScan(es, i, stk, acc) ==
  IF i > Len(es) THEN acc
  ELSE LET v == VerifyOrdered(Raw16(Val(es[i-1].m)), es[i-1].n, Raw16(Val(es[i].m)), es[i].n, stk)
       IN OrderScan(es, i + 1, v.stk, [uno |-> acc.uno \/ v.r = "unordered", dup |-> acc.dup \/ v.r = "dups"])
Order(es) == OrderScan(es, 2, <<>>, [uno |-> FALSE, dup |-> FALSE])

\* declarative versions (base_name_compare): key = name, plus "/" for a directory
Key(e) == IF IsDir(Val(e.m)) THEN Append(e.n, "/") ELSE e.n
SeqLess(a, b) ==
  LET len == IF Len(a) < Len(b) THEN Len(a) ELSE Len(b)
      D == {i \in 1..len : a[i] # b[i]}
  IN IF D # {} THEN Rk(a[Min(D)]) < Rk(b[Min(D)]) ELSE Len(a) < Len(b)
KeyLess(e1, e2) == SeqLess(Key(e1), Key(e2))
DeclSorted(es)  == \A i \in 1..Len(es) - 1 : KeyLess(es[i], es[i+1])
DupFree(es)     == \A i, j \in 1..Len(es) : i # j => es[i].n # es[j].n
\* canonical order as a permutation of indexes (git mktree / write-tree order)
Perm(es)        == SortSeq([i \in 1..Len(es) |-> i], LAMBDA i, j : KeyLess(es[i], es[j]))
CanonSort(es)   == LET p == Perm(es) IN [i \in 1..Len(es) |-> es[p[i]]]

\* ---------------------------------------------------------------- fsck
\* every flag of fsck_tree except the two ordering flags is an OR over the entries
EntryIds0(e) ==
  LET lnk == IsLnk(Raw16(Val(e.m)))
  IN (IF e.id = "z" THEN {"nullSha1"} ELSE {})
     \cup (IF \E i \in 1..Len(e.n) : e.n[i] = "/" THEN {"fullPathname"} ELSE {})
     \cup (IF e.n = <<".">> THEN {"hasDot"} ELSE {})
     \cup (IF e.n = <<".", ".">> THEN {"hasDotdot"} ELSE {})
     \cup (IF HasDotGit(e.n) THEN {"hasDotgit"} ELSE {})
     \cup (IF e.m[1] = 0 THEN {"zeroPaddedFilemode"} ELSE {})
     \cup (IF Raw16(Val(e.m)) \notin StdModes THEN {"badFilemode"} ELSE {})
     \cup (IF lnk /\ GitmodulesLike(e.n) THEN {"gitmodulesSymlink"} ELSE {})
     \cup (IF lnk /\ IsGitattributes(e.n) THEN {"gitattributesSymlink"} ELSE {})
     \cup (IF lnk /\ IsGitignore(e.n) THEN {"gitignoreSymlink"} ELSE {})
     \cup (IF lnk /\ IsMailmap(e.n) THEN {"mailmapSymlink"} ELSE {})
\* The per-entry rules are a name rule and a mode rule that only meet in "is a symbolic link":
\* the reduced domain takes every name with a file, a directory and a link mode, and every raw
\* mode and id with an ordinary name and with .gitmodules.
SingleEntries == IF Full THEN [n : Names, m : Modes, id : {"h", "z"}]
                 ELSE [n : Names, m : {Reg, Dir, Lnk}, id : {"h"}]
                      \cup [n : {<<"a">>, <<".", "g", "i", "t", "modules">>}, m : Modes, id : {"h", "z"}]
Singles == {[es |-> <<e>>, tail |-> "ok"] : e \in SingleEntries}
Tails   == {[es |-> <<e>>, tail |-> tl] : e \in [n : SortNames, m : {Reg, Dir}, id : {"h"}], tl \in {"trunc", "extra"}}
SortEntries == [n : SortNames, m : {Reg, Dir, Sub}, id : {"h"}]
\* pairs mix all three kinds; in the reduced domain longer trees mix files and directories only
\* (a gitlink sorts like a file: the pairs already show that)
SortEntriesLong == IF Full THEN SortEntries ELSE [n : SortNames, m : {Reg, Dir}, id : {"h"}]
Multi   == {[es |-> s, tail |-> "ok"] : s \in [1..2 -> SortEntries] \cup UNION {[1..k -> SortEntriesLong] : k \in 3..MaxLen}}
\* a few two-entry trees whose second entry is broken (the error must not hide behind a good first entry)
MixedEntries == [n : {<<"b">>, <<>>}, m : {Reg, <<>>, <<1,0,0,6,4,8>>, <<0,4,0,0,0,0>>}, id : {"h"}]
Mixed   == {[es |-> <<[n |-> <<"a">>, m |-> Reg, id |-> "h"], e>>, tail |-> tl] : e \in MixedEntries, tl \in {"ok", "trunc"}}
\* tabulated once for every entry of the domain and its re-encoded form
EncE(e)  == [e EXCEPT !.m = Digits(Val(e.m))]
EntryDom == LET D == {e \in SingleEntries \cup SortEntries \cup MixedEntries : EntryOK(e)}
            IN D \cup {EncE(e) : e \in D}
EI == [e \in EntryDom |-> EntryIds0(e)]
FsckParsed(es) ==
  LET o == Order(es)
  IN UNION {EI[es[i]] : i \in 1..Len(es)}
     \cup (IF o.dup THEN {"duplicateEntries"} ELSE {})
     \cup (IF o.uno THEN {"treeNotSorted"} ELSE {})
Fsck(t) == IF Parsable(t) THEN FsckParsed(t.es) ELSE {"badTree"}
\* message ids that stay informational under --strict (fsck.h: FSCK_INFO)
InfoIds == {"badFilemode", "gitattributesSymlink", "gitignoreSymlink", "mailmapSymlink"}
Clean(t) == Fsck(t) \subseteq InfoIds

\* ---------------------------------------------------------------- encoding (go-git's vocabulary)
\* A go-git TreeEntry carries a numeric mode; Tree.Encode prints it with %o.  EncForm is the tree
\* whose raw modes are those digits: leading zeros disappear, the value 0 is printed as "0".
Encodable(t) == t.tail = "ok" /\ \A i \in 1..Len(t.es) : ModeOK(t.es[i].m)
EncForm(t) == [es |-> [i \in 1..Len(t.es) |-> EncE(t.es[i])], tail |-> "ok"]

\* entries git itself accepts in a tree it writes: fsck --strict raises nothing for the one-entry tree
\* and the mode is written exactly as one of the five standard modes
ValidGitEntry(e) == EntryOK(e) /\ Val(e.m) \in StdModes /\ Fsck([es |-> <<e>>, tail |-> "ok"]) = {}
\* go-git documents a stricter producer gate (Tree.Encode / pathutil.ValidTreePath doc comments):
\* control characters, "." / ".." also between backslashes, names over 4096 bytes, and the
\* informational fsck symlink rules are refused too.
BsParts(n) ==
  LET cuts == <<0>> \o SetToSortSeq({j \in 1..Len(n) : n[j] = "bs"}, LAMBDA x, y : x < y) \o <<Len(n) + 1>>
  IN {SubSeq(n, cuts[k] + 1, cuts[k+1] - 1) : k \in 1..Len(cuts) - 1}
ExtraRules(e) ==
  (IF \E i \in 1..Len(e.n) : e.n[i] \in {"ctl", "del"} THEN {"x-control-char"} ELSE {})
  \cup (IF \E p \in BsParts(e.n) : p \in {<<".">>, <<".", ".">>} THEN {"x-backslash-dot-component"} ELSE {})
  \cup (IF e.n = <<"x4097">> THEN {"x-name-over-4096"} ELSE {})
  \cup (IF ModeOK(e.m) /\ IsLnk(Val(e.m)) /\ (IsGitattributes(e.n) \/ IsGitignore(e.n) \/ IsMailmap(e.n))
        THEN {"x-info-symlink"} ELSE {})
ValidEntry(e) == ValidGitEntry(e) /\ ExtraRules(e) = {}

MustAcceptSet(t)  == Parsable(t) /\ DupFree(t.es) /\ \A i \in 1..Len(t.es) : ValidEntry(t.es[i])
GitAcceptsSet(t)  == Parsable(t) /\ DupFree(t.es) /\ \A i \in 1..Len(t.es) : ValidGitEntry(t.es[i])

\* reasons an entry set is not must-accept (for finding signatures)
Why(t) ==
  IF ~Encodable(t) THEN {"unparsable"}
  ELSE (IF \E i \in 1..Len(t.es) : Len(t.es[i].n) = 0 THEN {"emptyName"} ELSE {})
       \cup UNION {Fsck([es |-> <<t.es[i]>>, tail |-> "ok"]) : i \in {j \in 1..Len(t.es) : EntryOK(t.es[j])}}
       \cup UNION {ExtraRules(t.es[i]) : i \in 1..Len(t.es)}
       \cup (IF DupFree(t.es) THEN {} ELSE {"dup-name"})

\* ---------------------------------------------------------------- domain
Trees == {[es |-> <<>>, tail |-> "ok"]} \cup Singles \cup Tails \cup Multi \cup Mixed

\* order is only computed by rank on single-character tokens
SortDomainOnly == \A t \in Trees : Len(t.es) > 1 => \A i \in 1..Len(t.es) : \A j \in 1..Len(t.es[i].n) :
                     t.es[i].n[j] \in OrdSet
ASSUME SortDomainOnly

\* ---------------------------------------------------------------- the table
SetSeq(S) == SetToSortSeq(S, LAMBDA a, b : TRUE)
Row(t) ==
  LET enc == Encodable(t)
      ef  == IF enc THEN EncForm(t) ELSE t
  IN [es |-> t.es, tail |-> t.tail,
      parse |-> Parsable(t),                                  \* git ls-tree succeeds
      bad |-> SetSeq(Malformed(t)),
      dec |-> IF Parsable(t) THEN Dec(t) ELSE <<>>,           \* ... and lists these entries
      fsck |-> SetSeq(Fsck(t)), clean |-> Clean(t),           \* git fsck --strict on the raw object
      enc |-> enc,                                            \* the entries exist in go-git's vocabulary
      encm |-> IF enc THEN [i \in 1..Len(ef.es) |-> ef.es[i].m] ELSE <<>>,   \* the mode digits Encode must print
      dupfree |-> DupFree(t.es),
      encfsck |-> IF enc THEN SetSeq(Fsck(ef)) ELSE <<>>,     \* fsck ids of what Tree.Encode would write
      encclean |-> enc /\ Clean(ef),
      must |-> MustAcceptSet(t), mustgit |-> GitAcceptsSet(t),
      why |-> SetSeq(Why(t)),
      sorted |-> enc /\ DeclSorted(t.es),                     \* entries already in canonical order
      perm |-> IF enc THEN Perm(t.es) ELSE <<>>]

ASSUME Emit => LET ts == SetToSeq(Trees)
               IN ndJsonSerialize("treecodec_rows.ndjson", [i \in 1..Len(ts) |-> Row(ts[i])])

VARIABLES tree, row
vars == <<tree, row>>
Init == tree \in Trees /\ row = Row(tree)
Next == UNCHANGED vars
Spec == Init /\ [][Next]_vars

\* ---------------------------------------------------------------- theorems (TLC invariants)
\* git's stateful ordering check agrees with the declarative definition
AlgoMatchesDecl == Parsable(tree) =>
   LET o == Order(tree.es) IN (~o.uno /\ ~o.dup) <=> (DeclSorted(tree.es) /\ DupFree(tree.es))
\* what go-git must accept is, once sorted, exactly what git fsck --strict passes silently
MustAcceptIsClean == row.must =>
   Fsck(EncForm([es |-> CanonSort(tree.es), tail |-> "ok"])) = {}
\* go-git's documented gate is never more permissive than git
MustImpliesGit == (row.must => row.mustgit) /\ (row.parse <=> row.bad = <<>>)
\* a tree fsck passes is parsable, canonical, duplicate-free, and decodes to itself
CleanIsCanonical == row.clean =>
   /\ row.parse /\ DeclSorted(tree.es) /\ DupFree(tree.es)
   /\ \A i \in 1..Len(tree.es) : Fsck([es |-> <<tree.es[i]>>, tail |-> "ok"]) \subseteq InfoIds
\* the canonical order is a sorted permutation, and sorting a sorted tree changes nothing
SortIsSorted == (row.enc /\ DupFree(tree.es)) =>
   /\ DeclSorted(CanonSort(tree.es))
   /\ {row.perm[i] : i \in 1..Len(row.perm)} = 1..Len(tree.es)
   /\ (row.sorted <=> row.perm = [i \in 1..Len(tree.es) |-> i])
\* decode(encode(x)) = x for the standard modes, and canonicalisation is idempotent
RoundTrip == row.enc =>
   LET d == Dec(EncForm(tree)) IN
   \A i \in 1..Len(tree.es) :
      LET v == Val(tree.es[i].m) IN
      /\ Val(Digits(v)) = v
      /\ Val(d[i].m) = Canon(v) /\ Canon(Canon(v)) = Canon(v) /\ Canon(v) \in StdModes
      /\ (v \in StdModes => Canon(v) = v)
\* Encode never turns an unclean tree clean except by dropping leading zeros
EncOnlyDropsPadding == (row.enc /\ row.parse) => (row.encfsck = row.fsck \/ "zeroPaddedFilemode" \in Fsck(tree))
=============================================================================
