------------------------------ MODULE RefJail ------------------------------
(* C14: reference and reflog storage cannot escape the refs namespace.

   Model half.  Reference names are sequences of tokens (below); every name in the bounded domain is a
   TLC state.  NameLoc(n) is where the name lands when it is used verbatim as a path below the git
   directory on the *most permissive* filesystem reading: "/" and "\" separate components, components
   that NTFS / HFS+ fold to ".." or "." are folded.  MustRefuse(n): that location is not a loose-ref slot
   (below refs/, or a one-level [A-Z_]+ pseudo-ref), so storing / reading / deleting it would touch
   something else - the storage must refuse the name.
   Theorems (invariants): every name below refs/ that git's check-ref-format accepts (RefName!Valid) never
   needs to be refused; MustRefuse is monotone under a harmless prefix.
   Conformance half: harness/cmd/vhjail/c14.go runs the real ops over a recording filesystem;
   RefJailTrace.tla judges the footprints.                                                          *)
EXTENDS PathJail, Json, IOUtils, SequencesExt

CONSTANTS MaxBody,   \* names = prefix \o body, body of 0..MaxBody tokens
          EmitRows

VARIABLES str, ok    \* only to instantiate RefName
RN == INSTANCE RefName WITH MaxLen <- 0, Emit <- FALSE

\* tokens:  w ordinary word   d "."   dd ".."   ddsp ".. "   ddzw ".<U+200C>."   ddads "..::$DATA"-like
\*          dsp ". "   bs "\"   ctl control char   ":"   config = lowercase metadata name (config, index,
\*          objects, packed-refs, ...)   HEAD, PSEUDO = [A-Z_]+ names   evil = a name that is a planted
\*          symlinked directory in the sandbox
Tok == {"refs", "heads", "w", "/", "d", "dd", "ddsp", "ddzw", "ddads", "dsp", "bs", "ctl", ":",
        "config", "HEAD", "PSEUDO", "evil"}
NamePrefixes == {<<>>, <<"refs", "/">>, <<"refs", "/", "heads", "/">>, <<"refs", "/", "heads", "/", "evil", "/">>, <<"/">>}
Bodies == UNION {[1..k -> Tok] : k \in 0..MaxBody}
Names == {p \o b : p \in NamePrefixes, b \in Bodies} \ {<<>>}

\* ---- components under the permissive reading
IsSep(t) == t \in {"/", "bs"}
RECURSIVE SplitAcc(_, _, _)
SplitAcc(s, cur, acc) == IF s = <<>> THEN Append(acc, cur)
                         ELSE IF IsSep(Head(s)) THEN SplitAcc(Tail(s), <<>>, Append(acc, cur))
                         ELSE SplitAcc(Tail(s), Append(cur, Head(s)), acc)
Comps(n) == SplitAcc(n, <<>>, <<>>)                      \* sequence of token sequences

\* what a component folds to on NTFS / HFS+ : "..", ".", "" or itself (as one atomic string token list)
DotDotLike == {"dd", "ddsp", "ddzw", "ddads"}
DotLike    == {"d", "dsp"}
Fold(c) == IF c = <<>> THEN ""
           ELSE IF c[1] \in DotDotLike /\ Len(c) = 1 THEN ".."
           ELSE IF c[1] \in {"dd", "ddsp", "ddads"} /\ c[2] = ":" THEN ".."            \* NTFS: ":" starts an ADS suffix
           ELSE IF c[1] \in DotLike /\ (Len(c) = 1 \/ c[2] = ":") THEN "."
           ELSE "x"                                          \* some real name
\* a real component keeps its identity as the token sequence itself; the location is a sequence of
\* "real components" = token sequences, built by the same walk as PathJail!Lex
RECURSIVE NameWalk(_, _)
NameWalk(cur, rest) ==
  IF rest = <<>> THEN [p |-> cur, out |-> FALSE]
  ELSE LET f == Fold(Head(rest)) IN
       IF f \in {"", "."} THEN NameWalk(cur, Tail(rest))
       ELSE IF f = ".." THEN (IF cur = <<>> THEN [p |-> <<>>, out |-> TRUE] ELSE NameWalk(PFront(cur), Tail(rest)))
       ELSE NameWalk(Append(cur, Head(rest)), Tail(rest))
NameLoc(n) == NameWalk(<<>>, Comps(n))

PseudoComp(c) == Len(c) > 0 /\ \A i \in 1..Len(c) : c[i] \in {"HEAD", "PSEUDO"}
HasCtl(n) == \E i \in 1..Len(n) : n[i] = "ctl"
LooseSlot(l) == /\ ~l.out
                /\ \/ Len(l.p) >= 1 /\ l.p[1] = <<"refs">>       \* refs/ itself is still inside the namespace
                   \/ Len(l.p) = 1 /\ PseudoComp(l.p[1])
MustRefuse(n) == ~LooseSlot(NameLoc(n))
\* names that reach a loose slot only through the planted symlinked directory
ViaEvil(n) == \E i \in 1..Len(Comps(n)) - 1 : Comps(n)[i] = <<"evil">>

\* ---- link with RefName (git check-ref-format), over RefName's alphabet
Expand(t) == CASE t = "d" -> <<".">> [] t = "dd" -> <<".", ".">> [] t = "ddsp" -> <<".", ".", "sp">>
               [] t = "ddzw" -> <<".", "hi", ".">> [] t = "ddads" -> <<".", ".", ":", ":", "w">>
               [] t = "dsp" -> <<".", "sp">> [] t \in {"config", "HEAD", "PSEUDO", "evil"} -> <<"w">>
               [] OTHER -> <<t>>
RECURSIVE ExpandAll(_)
ExpandAll(n) == IF n = <<>> THEN <<>> ELSE Expand(Head(n)) \o ExpandAll(Tail(n))

\* ---- tags for finding signatures (finite)
Tags(n) ==
  (IF \E i \in 1..Len(n) : n[i] = "dd" THEN {"dotdot"} ELSE {}) \cup
  (IF \E i \in 1..Len(n) : n[i] \in {"ddsp", "ddzw", "ddads", "dsp"} THEN {"ntfs-hfs-disguise"} ELSE {}) \cup
  (IF \E i \in 1..Len(n) : n[i] = "d" THEN {"dot"} ELSE {}) \cup
  (IF \E i \in 1..Len(n) : n[i] = "bs" THEN {"backslash"} ELSE {}) \cup
  (IF HasCtl(n) THEN {"ctl"} ELSE {}) \cup
  (IF \E i \in 1..Len(n) : n[i] = ":" THEN {"colon"} ELSE {}) \cup
  (IF \E i \in 1..Len(Comps(n)) : Comps(n)[i] = <<>> THEN {"empty-component"} ELSE {}) \cup
  (IF Len(Comps(n)) = 1 /\ ~PseudoComp(Comps(n)[1]) THEN {"onelevel-nonpseudo"} ELSE {}) \cup
  (IF ViaEvil(n) THEN {"symlinked-dir"} ELSE {})
TagSeq(n) == SetToSortSeq(Tags(n), LAMBDA a, b : TRUE)
\* the one tag used as scenario key of a finding signature (first that applies)
TagPriority == <<"symlinked-dir", "dotdot", "ntfs-hfs-disguise", "onelevel-nonpseudo", "empty-component", "backslash", "dot", "ctl", "colon">>
KeyTag(n) == LET m == {i \in 1..Len(TagPriority) : TagPriority[i] \in Tags(n)}
             IN IF m = {} THEN "plain" ELSE TagPriority[CHOOSE i \in m : \A j \in m : i <= j]

Row(n) == [name |-> n, refuse |-> MustRefuse(n), tags |-> TagSeq(n), key |-> KeyTag(n), valid |-> RN!Valid(ExpandAll(n))]
ASSUME EmitRows => ndJsonSerialize("refjail_rows.ndjson", SetToSeq({Row(n) : n \in Names}))

VARIABLE name
vars == <<name, str, ok>>
Init == name \in Names /\ str = <<>> /\ ok = MustRefuse(name)
Next == UNCHANGED vars

\* theorems
\* what git check-ref-format accepts below refs/ is always storable
ValidNeverRefused == (RN!Valid(ExpandAll(name)) /\ Len(name) >= 2 /\ name[1] = "refs" /\ name[2] = "/") => ~ok
PrefixMonotone    == ~MustRefuse(name) /\ name[1] = "refs" => ~MustRefuse(<<"refs", "/", "w", "/">> \o SubSeq(name, 3, Len(name)))
EscapeNeedsDots   == (ok /\ Len(name) >= 2 /\ name[1] = "refs" /\ name[2] = "/") => \E i \in 1..Len(name) : name[i] \in DotDotLike
=============================================================================
