------------------------- MODULE MCCommitGraphFile -------------------------
(* Model constants for CommitGraphFile: hand-made histories for every chunk rule and boundary, and
   histories decoded from integer keys (6 commits, up to 4 parents, 12 instants, two cuts).     *)
EXTENDS CommitGraphFile

Dg(x, base, i) == (x \div (base ^ (i - 1))) % base
Lin(n) == [i \in 1..n |-> IF i = 1 THEN <<>> ELSE <<i - 1>>]
\* two octopus merges (4 and 3 parents): two runs in the extra-edge list
GOct == [par |-> << <<>>, <<1>>, <<1>>, <<1>>, <<4, 3, 2, 1>>, <<5, 2, 3>> >>,
         tm |-> << T(0, 1), T(0, 2), T(0, 2), T(0, 3), T(0, 4), T(0, 9) >>, cuts |-> <<3, 5>>]
\* offsets exactly 2^31, 2^31 - 1, 0, 2^32 + 1, 2^32
GOvf1 == [par |-> Lin(6), tm |-> << T(1, 0), T(0, 1), T(0, 3), T(2, 0), T(0, 0), T(0, 2) >>, cuts |-> <<2, 4>>]
\* ... and 2^32 - 1, with an octopus whose corrected date comes from its LAST parent
GOvf2 == [par |-> << <<>>, <<>>, <<>>, <<1, 2, 3>>, <<4>>, <<5, 1>> >>,
          tm |-> << T(0, 5), T(0, 1), T(2, 1), T(0, 3), T(0, 2), T(1, 7) >>, cuts |-> <<0, 3>>]
GRoot == [par |-> << <<>> >>, tm |-> << T(0, 0) >>, cuts |-> <<0, 0>>]
\* two roots, merge with the younger parent first, level comes from the second parent
GMerge == [par |-> << <<>>, <<1>>, <<2>>, <<>>, <<4, 3>>, <<5, 1>> >>,
           tm |-> << T(0, 1), T(0, 2), T(0, 3), T(0, 9), T(0, 4), T(0, 4) >>, cuts |-> <<4, 4>>]
MCFixed == <<GOct, GOvf1, GOvf2, GRoot, GMerge>>

POpt == [i \in 1..6 |-> SetToSeq(InjSeqs(1..(i - 1), 4))]       \* 1, 2, 5, 16, 65, 206 ordered parent lists
Inst == << T(0, 0), T(0, 1), T(0, 2), T(0, 3), T(0, 4), T(0, 5), T(1, 0), T(1, 1), T(1, 2), T(2, 0), T(2, 1), T(2, 2) >>
\* key: <<k1 (parents of 2..4), k2 (5), k3 (6), k4 (instants 1..3), k5 (instants 4..6), k6 (cuts)>>
RandGraph(k) ==
  LET par == << <<>>, POpt[2][(k[1] % 2) + 1], POpt[3][((k[1] \div 2) % 5) + 1], POpt[4][((k[1] \div 10) % 16) + 1],
                POpt[5][(k[2] % 65) + 1], POpt[6][(k[3] % 206) + 1] >>
      tm == [i \in 1..6 |-> Inst[(IF i <= 3 THEN Dg(k[4], 12, i) ELSE Dg(k[5], 12, i - 3)) + 1]]
      a == k[6] % 7  b == (k[6] \div 7) % 7
  IN [par |-> par, tm |-> tm, cuts |-> <<IF a <= b THEN a ELSE b, IF a <= b THEN b ELSE a>>]
=============================================================================
