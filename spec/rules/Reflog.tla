------------------------------- MODULE Reflog -------------------------------
(* git's reflog line format, transcribed over symbol classes.

   writer side (refs/files-backend.c log_ref_write_fd, refs.c copy_reflog_msg, ident.c fmt_ident):
       old SP new SP name SP '<' mail '>' SP ts SP zone [TAB normalised-message] LF
     - the message is normalised: every run of blanks (space, TAB, LF, CR - git's isspace; a
       vertical tab is NOT a blank) becomes one space, leading and trailing blanks are dropped;
       an empty normalised message leaves no TAB behind
     - name and mail are written without LF, '<' and '>' (strbuf_addstr_without_crud)
   reader side (refs/files-backend.c show_one_reflog_ent, as listed by git log -g):
     - a line is listed only if: two ids, the FIRST '>' is followed by SP, a NON-ZERO decimal
       timestamp, SP, sign and four digits; everything else is silently skipped
     - the identity is the text up to that '>', split by split_ident_line
     - the message is the text after the TAB (or after the zone if there is no TAB)

   Three tables, each row a TLC state:
     "enc"  an entry handed to a reflog writer      -> the line a conforming writer produces
     "line" a stored line                           -> what git lists for it                    *)
EXTENDS Naturals, Sequences, FiniteSets, TLC, Json, IOUtils, SequencesExt

CONSTANTS MaxMsg,   \* messages of <= MaxMsg symbols
          Emit

MsgSyms == {"a", "sp", "tab", "lf", "cr", "vt"}
Blank   == {"sp", "tab", "lf", "cr"}
SeqsUpTo(S, n) == UNION {[1..k -> S] : k \in 0..n}

\* ---- copy_reflog_msg + strbuf_rtrim ---------------------------------------------------
NormMsg(m) ==
  LET f[i \in 0..Len(m)] ==
        IF i = 0 THEN [was |-> TRUE, out |-> <<>>]
        ELSE LET p == f[i-1]
                 c == m[i]
             IN IF p.was /\ c \in Blank THEN p
                ELSE [was |-> c \in Blank, out |-> Append(p.out, IF c \in Blank THEN "sp" ELSE c)]
      o == f[Len(m)].out
  IN IF Len(o) > 0 /\ o[Len(o)] = "sp" THEN SubSeq(o, 1, Len(o) - 1) ELSE o

\* ---- identities handed to a writer ----------------------------------------------------
Names == {<<"w">>, <<"w", "sp", "w">>, <<"w", "gt", "w">>, <<"w", "lt", "w">>, <<"w", "lf", "w">>}
Mails == {<<"w">>, <<>>}
Crud  == {"lf", "lt", "gt"}
Sanitize(s) == SelectSeq(s, LAMBDA c : c \notin Crud)
Zones == {"z0", "zp", "zm", "zmax", "zmin"}      \* +0000 +0530 -0330 +1400 -1200
Stamps == {"num", "zero"}

\* "enc" rows: messages in full with a plain identity; identities x zones x stamps with a few messages
FewMsgs == {<<>>, <<"a">>, <<"a", "sp", "a">>, <<"sp", "lf">>}
EncDomain == {[m |-> m, name |-> <<"w", "sp", "w">>, mail |-> <<"w">>, zone |-> "zp", ts |-> "num"] : m \in SeqsUpTo(MsgSyms, MaxMsg)}
             \cup {[m |-> m, name |-> n, mail |-> e, zone |-> z, ts |-> t] : m \in FewMsgs, n \in Names, e \in Mails, z \in Zones, t \in Stamps}

\* what git lists for the line a conforming writer appends for entry x
EncRow(x) == [kind |-> "enc", m |-> x.m, name |-> x.name, mail |-> x.mail, zone |-> x.zone, ts |-> x.ts,
              norm |-> NormMsg(x.m), lname |-> Sanitize(x.name), lmail |-> Sanitize(x.mail),
              listed |-> x.ts # "zero",      \* git's own reader skips entries with timestamp 0
              \* the TAB is written only when the NORMALISED message is non-empty (checked byte for byte against git)
              tab |-> NormMsg(x.m) # <<>>,
              ik |-> IF Sanitize(x.name) # x.name THEN "name-with-crud" ELSE "plain-identity",
              mk |-> IF \E i \in 1..Len(x.m) : x.m[i] = "vt" THEN "message-with-vertical-tab"
                     ELSE IF x.m = NormMsg(x.m) THEN "normal-message"
                     ELSE "message-needs-normalising"]

\* ---- stored lines --------------------------------------------------------------------
LIdents == {<<"w", "sp", "lt", "w", "gt">>, <<"lt", "gt">>, <<"sp", "lt", "w", "gt">>, <<"w", "sp", "lt", "w", "gt", "gt">>,
            <<"w", "gt", "sp", "lt", "w", "gt">>, <<"w", "sp", "w", "sp", "lt", "w", "gt">>}
LStamps == {"num", "zero"}
LZones  == {"zp", "zm", "zmz", "z3"}             \* +0530 -0330 -0000 +053
LTails  == {<<>>, <<"tab">>, <<"tab", "a">>, <<"tab", "a", "tab", "a">>, <<"tab", "a", "sp", "sp", "a">>, <<"sp", "a">>}
LineDomain == {[id |-> i, ts |-> t, zone |-> z, tail |-> l] : i \in LIdents, t \in LStamps, z \in LZones, l \in LTails}

MinOf(S) == CHOOSE m \in S : \A o \in S : m <= o
MaxOf(S) == CHOOSE m \in S : \A o \in S : o <= m
\* show_one_reflog_ent on  <ids> id SP ts SP zone tail LF
LineRow(x) ==
  LET id == x.id
      gt1 == MinOf({i \in 1..Len(id) : id[i] = "gt"})          \* every LIdent has a '>'
      \* after the first '>' git wants SP and then the timestamp: only true if that '>' is the last symbol of the identity
      shapeOK == gt1 = Len(id)
      listed == shapeOK /\ x.ts # "zero" /\ x.zone # "z3"
      lt1 == MinOf({i \in 1..Len(id) : id[i] = "lt"})
      nonsp == {i \in 1..lt1-1 : id[i] # "sp"}
      nameEnd == IF nonsp = {} THEN 0 ELSE MaxOf(nonsp)
      msg == IF Len(x.tail) > 0 /\ x.tail[1] = "tab" THEN SubSeq(x.tail, 2, Len(x.tail)) ELSE x.tail
  IN [kind |-> "line", id |-> id, ts |-> x.ts, zone |-> x.zone, tail |-> x.tail, listed |-> listed,
      why |-> IF ~shapeOK THEN "first-gt-not-before-timestamp" ELSE IF x.ts = "zero" THEN "zero-timestamp"
              ELSE IF x.zone = "z3" THEN "short-zone" ELSE "ok",
      lname |-> IF listed THEN SubSeq(id, 1, nameEnd) ELSE <<>>,
      lmail |-> IF listed THEN SubSeq(id, lt1 + 1, gt1 - 1) ELSE <<>>, lmailAt |-> lt1 + 1,
      lmsg |-> IF listed THEN msg ELSE <<>>,
      \* could git's own writer have produced this line?  (fmt_ident: "name SP <mail>", zone printed
      \* with %+05d, message normalised and introduced by TAB only when it was given)
      writable |-> /\ id \in {<<"w", "sp", "lt", "w", "gt">>, <<"w", "sp", "w", "sp", "lt", "w", "gt">>}
                   /\ x.zone \in {"zp", "zm"}
                   /\ (x.tail = <<>> \/ (x.tail[1] = "tab" /\ NormMsg(msg) = msg)),
      tk |-> IF x.tail = <<>> THEN "no-message" ELSE IF x.tail[1] # "tab" THEN "message-without-tab"
             ELSE IF Len(x.tail) = 1 THEN "tab-empty-message"
             ELSE IF \E i \in 2..Len(x.tail) : x.tail[i] = "tab" THEN "tab-inside-message" ELSE "plain-message"]

ASSUME Emit => ndJsonSerialize("reflog_enc_rows.ndjson", SetToSeq({EncRow(x) : x \in EncDomain}))
ASSUME Emit => ndJsonSerialize("reflog_line_rows.ndjson", SetToSeq({LineRow(x) : x \in LineDomain}))

VARIABLES kind, row
vars == <<kind, row>>
Init == \/ \E x \in EncDomain : kind = "enc" /\ row = EncRow(x)
        \/ \E x \in LineDomain : kind = "line" /\ row = LineRow(x)
Next == UNCHANGED vars
Spec == Init /\ [][Next]_vars

\* normalisation theorems (git's writer never stores a message that would break the line format)
NormIdempotent == kind = "enc" => NormMsg(row.norm) = row.norm
NormShape == kind = "enc" =>
   LET n == row.norm IN
   /\ \A i \in 1..Len(n) : n[i] \in {"a", "sp", "vt"}                        \* no TAB / LF / CR survives
   /\ (Len(n) > 0 => n[1] # "sp" /\ n[Len(n)] # "sp")
   /\ \A i \in 1..Len(n)-1 : ~(n[i] = "sp" /\ n[i+1] = "sp")
NormKeepsWords == kind = "enc" =>
   SelectSeq(row.norm, LAMBDA c : c \notin Blank) = SelectSeq(row.m, LAMBDA c : c \notin Blank)
\* a sanitised identity always yields a line the reader lists with that very identity
SanitizedListable == kind = "enc" => \A i \in 1..Len(row.lname) : row.lname[i] \notin Crud
\* stored lines: a listed line never has an empty field boundary problem
ListedHasParts == (kind = "line" /\ row.listed) => row.why = "ok"
=============================================================================
