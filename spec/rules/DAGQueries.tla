----------------------------- MODULE DAGQueries -----------------------------
(* C42  Ancestry and merge-base queries (git merge-base --is-ancestor / --all /
   --independent, and the fast-forward test incl. shallow variants), as functions of
   the commit graph ONLY: none of the answers may depend on committer times.

   Every DAG of DagSets(N, K) is one TLC state; the row with all answers of that DAG
   is serialised to dagq_rows.ndjson, the committer-time assignments (every weak order
   on 1..N) to dagq_times.ndjson.  A *scenario* is (row, time assignment); the harness
   (harness/cmd/vhdag/c42.go) renders each scenario as real commit objects and compares
   go-git's answers (and, on a seeded sample, git's) with the row.

   IsAncestor(a, b)        a = b or a is reachable from b            (--is-ancestor a b)
   MergeBases(a, b)        the maximal common ancestors               (--all a b)
   Independent(S)          members of S not reachable from another     (--independent S)
   FastForward(o, n, Sh)   o reachable from n when the parents of the commits in Sh are
                           cut off (a shallow repository: .git/shallow = Sh), i.e. what
                           `git merge-base --is-ancestor o n` answers in that repository.
   Present(Sh)             commits a shallow clone of all heads with boundary Sh stores. *)
EXTENDS DagUniverse, TLC, Json, SequencesExt

CONSTANTS N,      \* commits 1..N
          K,      \* at most K parents
          MaxSh,  \* shallow sets of at most MaxSh commits
          Emit    \* TRUE: write the tables

Dags == DagSets(N, K)

IsAncestor(par, a, b) == IsAnc(par, a, b)
Common(par, a, b)     == AncOf(par)[a] \cap AncOf(par)[b]
MergeBases(par, a, b) == Maximal(par, Common(par, a, b))
Independent(par, S)   == Maximal(par, S)
FastForward(par, o, n, Sh) == IsAnc(CutAt(par, Sh), o, n)
Present(par, Sh)      == Reach(CutAt(par, Sh), Heads(par))

\* only commits that have parents can be a shallow boundary (git never lists a root in .git/shallow)
ShallowSets(par) == {Sh \in SUBSET {c \in 1..N : par[c] # {}} : Cardinality(Sh) <= MaxSh}

Subsets3 == {S \in SUBSET (1..N) : Cardinality(S) \in 1..3}

\* the same answers with the ancestor function computed once per graph (TLC speed only)
MaxA(A, S) == {x \in S : \A y \in S : (y # x) => x \notin A[y]}
Row(par) ==
  LET A == AncOf(par) IN
  [n   |-> N,
   par |-> par,
   anc |-> {p \in (1..N) \X (1..N) : p[1] \in A[p[2]]},
   mb  |-> {[a |-> p[1], b |-> p[2], r |-> MaxA(A, A[p[1]] \cap A[p[2]])] : p \in {q \in (1..N) \X (1..N) : q[1] <= q[2]}},
   ind |-> {[s |-> S, r |-> MaxA(A, S)] : S \in Subsets3},
   ff  |-> {LET C == AncOf(CutAt(par, Sh)) IN
            [sh |-> Sh, present |-> UNION {C[h] : h \in Heads(par)},
             yes |-> {p \in (1..N) \X (1..N) : p[1] \in C[p[2]]}] : Sh \in ShallowSets(par)}]
RowAgrees(par) ==      \* the fast form equals the defining operators
  LET r == Row(par) IN
  /\ r.anc = {p \in (1..N) \X (1..N) : IsAncestor(par, p[1], p[2])}
  /\ \A m \in r.mb : m.r = MergeBases(par, m.a, m.b)
  /\ \A i \in r.ind : i.r = Independent(par, i.s)
  /\ \A f \in r.ff : /\ f.present = Present(par, f.sh)
                      /\ f.yes = {p \in (1..N) \X (1..N) : FastForward(par, p[1], p[2], f.sh)}

ASSUME Emit => ndJsonSerialize("dagq_rows.ndjson", SetToSeq({Row(d) : d \in Dags}))
ASSUME Emit => ndJsonSerialize("dagq_times.ndjson", SetToSeq({[tm |-> t] : t \in WeakOrders(N)}))

VARIABLES dag
Init == dag \in Dags
Next == UNCHANGED dag

\* ---- spec-level theorems, checked on every DAG of the domain
TypeOK == /\ Len(dag) = N
          /\ \A c \in 1..N : dag[c] \subseteq 1..(c-1) /\ Cardinality(dag[c]) <= K
AncPartialOrder ==      \* reflexive, antisymmetric, transitive
  /\ \A a \in 1..N : IsAncestor(dag, a, a)
  /\ \A a, b \in 1..N : (IsAncestor(dag, a, b) /\ IsAncestor(dag, b, a)) => a = b
  /\ \A a, b, c \in 1..N : (IsAncestor(dag, a, b) /\ IsAncestor(dag, b, c)) => IsAncestor(dag, a, c)
MergeBaseLaws ==
  \A a, b \in 1..N :
    LET M == MergeBases(dag, a, b) IN
    /\ M = MergeBases(dag, b, a)
    /\ M \subseteq Common(dag, a, b)
    /\ \A x, y \in M : x # y => ~IsAncestor(dag, x, y)                    \* an antichain
    /\ \A c \in Common(dag, a, b) : \E m \in M : IsAncestor(dag, c, m)    \* dominates every common ancestor
    /\ (IsAncestor(dag, a, b) <=> M = {a})
    /\ (M = {} <=> Common(dag, a, b) = {})
IndependentLaws ==
  \A S \in Subsets3 :
    LET I == Independent(dag, S) IN
    /\ I \subseteq S /\ I # {}
    /\ \A x, y \in I : x # y => ~IsAncestor(dag, x, y)
    /\ \A s \in S : \E i \in I : IsAncestor(dag, s, i)
RowOK == RowAgrees(dag)
FastForwardLaws ==
  /\ \A o, n \in 1..N : FastForward(dag, o, n, {}) <=> IsAncestor(dag, o, n)
  /\ \A Sh \in SUBSET (1..N) : \A o, n \in 1..N :
        /\ FastForward(dag, o, n, Sh) => IsAncestor(dag, o, n)         \* cutting history never creates ancestry
        /\ (FastForward(dag, o, n, Sh) /\ n \in Present(dag, Sh)) => o \in Present(dag, Sh)
=============================================================================
