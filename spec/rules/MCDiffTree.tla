---------------------------- MODULE MCDiffTree ----------------------------
(* Model constants for DiffTree / DiffTreeTrace (cfg files cannot hold records). *)
EXTENDS DiffTreeTrace

\* ordering around '/', file <-> directory <-> gitlink swaps
QOrder  == [sib |-> {"a.b", "a0"}, sub |-> {"a/b"}, vals |-> {"f1", "g1"}, ren |-> FALSE]
\* kinds and mode-only changes, the empty blob
QKinds  == [sib |-> {"ab"}, sub |-> {"a/b"}, vals |-> {"f1", "fe", "x1", "l1"}, ren |-> FALSE]
\* identical content at several paths, content changes (rename pairing)
QRename == [sib |-> {"a.b", "a0"}, sub |-> {"a/b"}, vals |-> {"f1", "f2"}, ren |-> TRUE]
\* one content at up to four paths at a time (a.b, a0 and a | a/b, a/c): several deletions and several insertions of the same blob
QDup    == [sib |-> {"a.b", "a0"}, sub |-> {"a/b", "a/c"}, vals |-> {"f1"}, ren |-> TRUE]
MCQuick == {QOrder, QKinds, QRename, QDup}

TOrder  == [sib |-> {"a-b", "a.b", "a0"}, sub |-> {"a/b"}, vals |-> {"f1", "g1"}, ren |-> FALSE]
TMix    == [sib |-> {"a.b", "a0"}, sub |-> {"a/b"}, vals |-> {"f1", "f2", "g1"}, ren |-> TRUE]
TKinds  == [sib |-> {"ab"}, sub |-> {"a/b", "a/c"}, vals |-> {"f1", "fe", "x1", "l1", "g1"}, ren |-> FALSE]
MCThorough == {TOrder, TMix, TKinds, QDup}
=============================================================================
