---------------------------- MODULE MCDiffTree ----------------------------
(* Model constants for DiffTree / DiffTreeTrace (cfg files cannot hold records). *)
EXTENDS DiffTreeTrace

\* ordering around '/', file <-> directory <-> gitlink swaps
QOrder  == [sib |-> {"a.b", "a0"}, sub |-> {"a/b"}, vals |-> {"f1", "g1"}]
\* kinds and mode-only changes, the empty blob
QKinds  == [sib |-> {"ab"}, sub |-> {"a/b"}, vals |-> {"f1", "fe", "x1", "l1"}]
\* identical content at several paths, content changes (rename pairing)
QRename == [sib |-> {"a.b", "a0"}, sub |-> {"a/b"}, vals |-> {"f1", "f2"}]
MCQuick == {QOrder, QKinds, QRename}

TOrder  == [sib |-> {"a-b", "a.b", "a0"}, sub |-> {"a/b"}, vals |-> {"f1", "g1"}]
TMix    == [sib |-> {"a.b", "a0"}, sub |-> {"a/b"}, vals |-> {"f1", "f2", "g1"}]
TKinds  == [sib |-> {"ab"}, sub |-> {"a/b", "a/c"}, vals |-> {"f1", "fe", "x1", "l1", "g1"}]
MCThorough == {TOrder, TMix, TKinds}
=============================================================================
