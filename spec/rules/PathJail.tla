------------------------------ MODULE PathJail ------------------------------
(* A tiny filesystem with symbolic links, path resolution, and jail predicates (C14, C40, C26).

   A location is a sequence of component strings below the sandbox origin <<>>.  A *request* is what
   code hands to a filesystem API: the components of the Chroot chain it went through (base) followed
   by the raw components of the path argument (which may contain "", ".", "..").  Two readings of a
   request are modelled, because both exist in the filesystems go-git runs on:
     Lex(req)          purely lexical: ".." removes the previous component (path.Clean; billy chroot helpers);
     Phys(req, L, f)   what a kernel does: walk component by component, replace a component that is a
                       symbolic link in L by its target (relative to the link's directory, or absolute),
                       ".." goes to the parent of the *resolved* location; the final component is followed
                       iff f.
   Both return [p |-> location, out |-> went above the sandbox origin or through an absolute link that
   leaves the sandbox, loop |-> ran out of fuel].
   A request is inside a jail iff *both* readings end inside it.  Link tables are data of the scenario
   (the harness reports the symlinks it planted; links created by the code under test are added when
   recorded).                                                                                        *)
EXTENDS Naturals, Sequences, FiniteSets, TLC

PFront(s) == SubSeq(s, 1, Len(s) - 1)
IsPrefixOf(a, b) == Len(a) <= Len(b) /\ SubSeq(b, 1, Len(a)) = a
Strip(a, b) == SubSeq(b, Len(a) + 1, Len(b))          \* b without its prefix a

Res(p, out, loop) == [p |-> p, out |-> out, loop |-> loop]

\* ---------------------------------------------------------------- lexical reading
RECURSIVE LexWalk(_, _)
LexWalk(cur, rest) ==
  IF rest = <<>> THEN Res(cur, FALSE, FALSE)
  ELSE LET c == Head(rest) t == Tail(rest) IN
       IF c \in {"", "."} THEN LexWalk(cur, t)
       ELSE IF c = ".." THEN (IF cur = <<>> THEN Res(<<>>, TRUE, FALSE) ELSE LexWalk(PFront(cur), t))
       ELSE LexWalk(Append(cur, c), t)
Lex(req) == LexWalk(<<>>, req)

\* ---------------------------------------------------------------- physical reading
\* L: sequence of links [at |-> location, to |-> components, kind |-> "rel" | "root" | "out"]
\*   rel: target relative to the link's directory; root: absolute target given relative to the sandbox
\*   origin; out: absolute target outside the sandbox.
LinkIdx(L, loc) == {i \in 1..Len(L) : L[i].at = loc}
MaxHops == 12

RECURSIVE PhysWalk(_, _, _, _, _)
PhysWalk(L, cur, rest, follow, fuel) ==
  IF rest = <<>> THEN Res(cur, FALSE, FALSE)
  ELSE LET c == Head(rest) t == Tail(rest) IN
       IF c \in {"", "."} THEN PhysWalk(L, cur, t, follow, fuel)
       ELSE IF c = ".." THEN (IF cur = <<>> THEN Res(<<>>, TRUE, FALSE) ELSE PhysWalk(L, PFront(cur), t, follow, fuel))
       ELSE LET n == Append(cur, c)
                li == LinkIdx(L, n)
            IN IF li # {} /\ (t # <<>> \/ follow)
               THEN IF fuel = 0 THEN Res(n, FALSE, TRUE)
                    ELSE LET l == L[CHOOSE i \in li : TRUE] IN
                         IF l.kind = "out" THEN Res(n, TRUE, FALSE)
                         ELSE PhysWalk(L, IF l.kind = "root" THEN <<>> ELSE cur, l.to \o t, follow, fuel - 1)
               ELSE PhysWalk(L, n, t, follow, fuel)
Phys(req, L, follow) == PhysWalk(L, <<>>, req, follow, MaxHops)

\* which filesystem calls act on the target of a symbolic link in the final component.  Stat does follow
\* it, but only to learn the kind of the entry: looking at a link is not counted as reading or changing
\* the file behind it (a Stat *through* a linked directory still is a request for the resolved place).
FollowsFinal(op) == op \notin {"Stat", "Lstat", "Remove", "Rename", "RenameTo", "Readlink", "Symlink", "Lchown"}

\* ---------------------------------------------------------------- jails
Inside(r, root) == ~r.out /\ ~r.loop /\ IsPrefixOf(root, r.p)
\* a request stays below `root` under both readings
Jailed(req, L, op, root) == Inside(Lex(req), root) /\ Inside(Phys(req, L, FollowsFinal(op)), root)

\* character classes of a name (the harness projects every byte to one class):
\*   "U" A-Z   "_"   "l" a-z   "d" 0-9   "." dot   "o" anything else
IsPseudoCls(cs) == Len(cs) > 0 /\ \A i \in 1..Len(cs) : cs[i] \in {"U", "_"}

\* ---- C14: the refs namespace of a git directory G.  t = location relative to G.
\* names(s): class sequence of a raw request component equal to s, if any (<<>> otherwise)
RefsRegion(t, op, tmp, ClsOf(_)) ==
  \/ t = <<>> /\ op \in {"Stat", "Lstat", "ReadDir", "MkdirAll", "TempFile", "Chroot"}       \* the git dir itself
  \/ Len(t) >= 1 /\ t[1] = "refs"
  \/ Len(t) >= 1 /\ t[1] = "logs" /\ (Len(t) = 1 \/ t[2] = "refs" \/ (Len(t) = 2 /\ IsPseudoCls(ClsOf(t[2]))))
  \/ Len(t) = 1 /\ (t[1] = "packed-refs" \/ IsPseudoCls(ClsOf(t[1])))
  \/ tmp /\ Len(t) \in {1, 2}                      \* a name handed out by TempFile in the git dir or a scratch dir of it

\* region names for finding signatures
Where(r, G) == IF r.loop THEN "symlink-loop"
               ELSE IF r.out THEN "outside-sandbox"
               ELSE IF ~IsPrefixOf(G, r.p) THEN "outside-gitdir"
               ELSE "gitdir-nonref"
=============================================================================
