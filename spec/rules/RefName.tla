------------------------------ MODULE RefName ------------------------------
(* git's reference-name rules (refs.c: check_refname_format / check_refname_component,
   `git check-ref-format`), transcribed over a small alphabet of symbol *classes*.
   Each symbol stands for one or more concrete bytes chosen by the harness
   (harness/cmd/vh/c13.go: symBytes).  The whole bounded domain is enumerated by
   TLC: every string is one initial state, the rule verdicts are state variables,
   and the spec-level theorems below are checked as invariants.  The table of
   (string, verdicts) is also serialised for the conformance harness (Engine C).

   ValidGit(s)  - what `git check-ref-format <s>` decides
   Valid(s)     - what go-git's reference-name validation must decide: ValidGit plus the
                  documented extra rule (branch / tag short names may not start with '-').
   Safe(s)      - C14: the name, used as a relative path below the git dir, stays
                  below it and inside refs/ (no "..", ".", empty, absolute).        *)
EXTENDS Naturals, Sequences, FiniteSets, TLC, Json, IOUtils, SequencesExt

CONSTANTS MaxLen,      \* strings of length 1..MaxLen are enumerated
          Emit         \* TRUE: write the table refname_rows.ndjson

\* symbol classes. "w" ordinary word char; "refs","heads","tags" are whole words (ordinary
\* chars as far as git is concerned, but they let the dash rule be reached); "lock" is the
\* four characters "lock"; "bs" backslash; "sp" space; "ctl" a control char or DEL; "hi" a
\* byte >= 0x80; "-" the dash; "wlock" is a word that ends in ".lock" (e.g. "x.lock"), so that a
\* NON-final component ending in .lock is reachable within short strings.
Alpha == {"w", "/", ".", "@", "{", "~", "^", ":", "?", "*", "[", "bs", "sp", "ctl", "hi", "-",
          "lock", "wlock", "refs", "heads", "tags"}
Bad   == {"~", "^", ":", "?", "*", "[", "bs", "sp", "ctl"}

Strs == UNION {[1..n -> Alpha] : n \in 1..MaxLen}

CompStart(s, i) == i = 1 \/ s[i-1] = "/"
CompEnd(s, i)   == i = Len(s) \/ s[i+1] = "/"

\* rule 6: no empty component (leading, trailing or doubled slash)
NoEmptyComp(s) == /\ s[1] # "/" /\ s[Len(s)] # "/"
                  /\ \A i \in 1..Len(s)-1 : ~(s[i] = "/" /\ s[i+1] = "/")

ValidGit(s) ==
  /\ Len(s) > 0
  /\ NoEmptyComp(s)
  /\ \E i \in 1..Len(s) : s[i] = "/"                                   \* rule 2 (no --allow-onelevel)
  /\ \A i \in 1..Len(s) : s[i] \notin Bad                              \* rules 4, 5, 10
  /\ \A i \in 1..Len(s) : s[i] = "." => ~CompStart(s, i)               \* rule 1 (leading dot)
  /\ \A i \in 1..Len(s)-1 : ~(s[i] = "." /\ s[i+1] = ".")              \* rule 3
  /\ \A i \in 1..Len(s)-1 : ~(s[i] = "@" /\ s[i+1] = "{")              \* rule 8
  /\ s[Len(s)] # "."                                                   \* rule 7
  /\ \A i \in 2..Len(s) : ~(s[i] = "lock" /\ s[i-1] = "." /\ CompEnd(s, i))  \* rule 1 (.lock)
  /\ \A i \in 1..Len(s) : ~(s[i] = "wlock" /\ CompEnd(s, i))
  \* rule 9 (the whole name "@") is implied by rule 2.

\* which rules reject s (for finding signatures; same conjuncts as ValidGit)
Why(s) ==
  (IF Len(s) > 0 /\ NoEmptyComp(s) THEN {} ELSE {"r6-empty-component"}) \cup
  (IF \E i \in 1..Len(s) : s[i] = "/" THEN {} ELSE {"r2-one-level"}) \cup
  (IF \A i \in 1..Len(s) : s[i] \notin Bad THEN {} ELSE {"r4510-bad-char"}) \cup
  (IF \A i \in 1..Len(s) : s[i] = "." => ~CompStart(s, i) THEN {} ELSE {"r1-leading-dot"}) \cup
  (IF \A i \in 1..Len(s)-1 : ~(s[i] = "." /\ s[i+1] = ".") THEN {} ELSE {"r3-dotdot"}) \cup
  (IF \A i \in 1..Len(s)-1 : ~(s[i] = "@" /\ s[i+1] = "{") THEN {} ELSE {"r8-at-brace"}) \cup
  (IF s[Len(s)] # "." THEN {} ELSE {"r7-trailing-dot"}) \cup
  (IF (\A i \in 2..Len(s) : ~(s[i] = "lock" /\ s[i-1] = "." /\ CompEnd(s, i))) /\
      (\A i \in 1..Len(s) : ~(s[i] = "wlock" /\ CompEnd(s, i))) THEN {} ELSE {"r1-dot-lock"})

\* index of the first symbol of component number k (1-based), 0 if none
CompFirst(s, k) ==
  LET starts == {i \in 1..Len(s) : CompStart(s, i)}
      nth[j \in 0..Len(s)] ==   \* j-th smallest element of starts
         IF j = 0 THEN 0
         ELSE LET prev == nth[j-1]
                  rest == {i \in starts : i > prev}
              IN IF rest = {} THEN Len(s) + 1 ELSE CHOOSE m \in rest : \A o \in rest : m <= o
  IN IF k <= Len(s) /\ nth[k] <= Len(s) THEN nth[k] ELSE 0

IsBranchOrTag(s) == /\ Len(s) >= 4 /\ s[1] = "refs" /\ s[2] = "/" /\ s[3] \in {"heads", "tags"} /\ s[4] = "/"

DashRule(s) == /\ IsBranchOrTag(s)
               /\ LET f == CompFirst(s, 3) IN f # 0 /\ s[f] = "-"

Valid(s) == ValidGit(s) /\ ~DashRule(s)

\* C14: interpreting the name as a slash-separated relative path
Safe(s) == /\ Len(s) > 0 /\ NoEmptyComp(s)
           /\ \A i \in 1..Len(s) : s[i] \notin {"bs", "ctl", ":"}
           /\ \A i \in 1..Len(s) : (s[i] = "." /\ CompStart(s, i)) =>
                 ~(CompEnd(s, i) \/ (i < Len(s) /\ s[i+1] = "." /\ CompEnd(s, i+1)))

Pre(p, s) == p \o s
RH == <<"refs", "/", "heads", "/">>
RT == <<"refs", "/", "tags", "/">>
RX == <<"refs", "/", "w", "/">>

WhySeq(s) == SetToSortSeq(Why(s) \cup (IF ValidGit(s) /\ DashRule(s) THEN {"x-leading-dash"} ELSE {}), LAMBDA a, b : TRUE)
Row(s) == [s |-> s, g |-> ValidGit(s), v |-> Valid(s), w |-> WhySeq(s),
           wh |-> WhySeq(Pre(RH, s)), wt |-> WhySeq(Pre(RT, s)), wx |-> WhySeq(Pre(RX, s)),
           gh |-> ValidGit(Pre(RH, s)), vh |-> Valid(Pre(RH, s)),
           gt |-> ValidGit(Pre(RT, s)), vt |-> Valid(Pre(RT, s)),
           gx |-> ValidGit(Pre(RX, s)), vx |-> Valid(Pre(RX, s))]

ASSUME Emit => ndJsonSerialize("refname_rows.ndjson", SetToSeq({Row(s) : s \in Strs}))

VARIABLES str, ok
vars == <<str, ok>>
Init == str \in Strs /\ ok = Valid(str)
Next == UNCHANGED vars
Spec == Init /\ [][Next]_vars

\* spec-level theorems (checked by TLC on the whole domain)
ValidImpliesSafe  == ok => Safe(str)                       \* every accepted name is a safe path (C14 link)
WhyAgrees         == (Why(str) = {}) <=> ValidGit(str)
ValidImpliesGit   == ok => ValidGit(str)                   \* go-git is never more permissive than git
PrefixClosed      == ok => Valid(Pre(RX, str))             \* prefixing a harmless component keeps validity
OnlyDashDiffers   == (ValidGit(str) /\ ~ok) => DashRule(str)
=============================================================================
