----------------------------- MODULE WireCheck -----------------------------
(* Batch trace validation for C35: every record written by harness/cmd/vhfmt/c35.go (an abstract
   message value of Wire.tla + the pkt-line tokens of go-git's encoding of it) is judged with the
   Grammar predicates of Wire.tla.  One TLC state per record, one JSON verdict line per record. *)
EXTENDS Wire

WRecs == ndJsonDeserialize("wire_recs.ndjson")
WN == Len(WRecs)
Seqs(q) == {q[i] : i \in 1..Len(q)}
\* JSON values back to the spec's value form (sequences that stand for sets become sets)
FromJ(j) ==
  CASE j.t = "adv" -> [t |-> "adv", ver |-> j.ver, refs |-> {Rank(j.refs[i].n) : i \in 1..Len(j.refs)}, caps |-> j.caps, shallows |-> Seqs(j.shallows)]
    [] j.t = "ulreq" -> [t |-> "ulreq", wants |-> Seqs(j.wants), caps |-> j.caps, shallows |-> Seqs(j.shallows), depth |-> j.depth, filter |-> j.filter]
    [] j.t = "haves" -> [t |-> "haves", haves |-> Seqs(j.haves), done |-> j.done]
    [] j.t = "shupd" -> [t |-> "shupd", sh |-> Seqs(j.sh), unsh |-> Seqs(j.unsh)]
    [] j.t = "updreq" -> [t |-> "updreq", cmds |-> j.cmds, caps |-> j.caps, shallows |-> Seqs(j.shallows)]
    [] OTHER -> j

WVerdict(rec) == [id |-> rec.id, t |-> rec.t,
                  probs |-> IF rec.err # "" THEN <<"unusable-encoding">> ELSE SetToSeq(Problems(FromJ(rec.v), rec.toks))]
VARIABLES wi, wv
WInit == wi \in 1..WN /\ wv = WVerdict(WRecs[wi]) /\ val = 0
WNext == UNCHANGED <<wi, wv, val>>
WOut == PrintT(ToJson(wv))
=============================================================================
