---------------------------- MODULE StatusEOL ----------------------------
(* Rule table for C27 under core.autocrlf: the status of ONE tracked text file whose
   committed blob (= index entry) has LF line endings, as a function of

     autocrlf   "true" | "input" | "false"
     wteol      line endings of the worktree copy: "lf" | "crlf"
     edited     the worktree copy also differs in one character (same length)
     layout     where the line endings fall in the byte stream: small file, large file,
                a CR exactly on / just before / just after a multiple of 4096 (buffered
                readers must not treat the CR and its LF as unrelated bytes) ...

   git compares the worktree file after the to-index conversion: with autocrlf true or
   input a CRLF in a text file becomes LF, so a pure line-ending difference is NOT a
   modification; with autocrlf false the bytes are compared as they are.
   (The index entry carries no cached stat data, as right after read-tree, so that the
   content IS compared: with a cached size that differs git reports a modification
   without reading the file, whatever core.autocrlf says - found when the first version
   of this table disagreed with git on every converting row.)
   Rows = TLC states; the expected porcelain code is computed here, git status is the
   second witness on every row (spec # git = SPEC error), go-git's Status is the subject. *)
EXTENDS Naturals, TLC, Json

CONSTANTS AutoCRLF, WtEol, Layouts

VARIABLES autocrlf, wteol, edited, layout, exp
vars == <<autocrlf, wteol, edited, layout, exp>>

Converted(a, e) == IF e = "crlf" /\ a \in {"true", "input"} THEN "lf" ELSE e
\* porcelain worktree column of the file: " " clean, "M" modified
Expect(a, e, ed) == IF ed THEN "M" ELSE IF Converted(a, e) = "lf" THEN " " ELSE "M"

Init == /\ autocrlf \in AutoCRLF /\ wteol \in WtEol /\ edited \in BOOLEAN /\ layout \in Layouts
        /\ exp = Expect(autocrlf, wteol, edited)
Next == UNCHANGED vars
Spec == Init /\ [][Next]_vars

\* ---- theorems of the table
\* where the line endings fall never matters
LayoutIrrelevant == \A l \in Layouts : exp = Expect(autocrlf, wteol, edited)
\* an edit is always reported; an unedited LF copy is always clean
EditReported == edited => exp = "M"
LfCopyClean == (~edited /\ wteol = "lf") => exp = " "
\* a CRLF copy is clean exactly when conversion is on
CrlfCleanIffConverting == (~edited /\ wteol = "crlf") => ((exp = " ") <=> (autocrlf \in {"true", "input"}))
Emit == PrintT(ToJson([autocrlf |-> autocrlf, wteol |-> wteol, edited |-> edited, layout |-> layout, exp |-> exp]))
=============================================================================
