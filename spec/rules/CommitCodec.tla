---------------------------- MODULE CommitCodec ----------------------------
(* git's reading of a stored commit object, transcribed over physical header *lines*.

   A stored commit is  h \o <end>  where h is a sequence of header-line KINDS and
   <end> says how the header block ends and what message follows.  The concrete text of
   a line is positional: the harness (harness/cmd/vhcodec/render.go) renders line i of
   kind k to bytes that mention i, so every line is distinguishable and the spec can
   name decoded fields by the *position* of the line they come from.

   Transcribed rules (git 2.39):
     commit.c  parse_commit_buffer               Accept, tree, parents
     pretty.c  parse_commit_header               author/committer as `git log --format` reports them (LAST line wins)
     ref-filter.c find_wholine                   author/committer as `git for-each-ref` reports them (FIRST line wins)
     commit.c  find_commit_header                encoding (FIRST line wins)
     commit.c  read_commit_extra_header_lines    extra headers (as `git commit --amend` carries them over)
     commit.c  parse_buffer_signed_by_header     signature / payload partition (used by C03 as well)
     commit.c  commit_tree_extended + sign       canonical emission order (Encode)

   Every (h, end) of the bounded domain is one TLC initial state; the theorems at the
   bottom are checked as invariants, and the table of rows is serialised for the
   conformance harness (Engine C, three-way: spec / go-git / git).                      *)
EXTENDS Naturals, Sequences, FiniteSets, TLC, Json, IOUtils, SequencesExt

CONSTANTS MaxTail,     \* h = <<first>> \o tail, Len(tail) <= MaxTail, all ends
          MaxTailLF,   \* additionally Len(tail) <= MaxTailLF with the plain end "mLF" only
          TailKinds,   \* kinds allowed after the first line
          Emit         \* TRUE: write commit_rows.ndjson

\* ---- vocabulary -------------------------------------------------------------------
\* "tree"/"parent": well-formed id.  "treeBad"/"parentBad": `tree `/`parent ` followed by a
\* malformed id (rendered >= 40 chars so that git's length guards do not hide it).
\* "bare": unknown key without a space.  "gpgsigx": unknown key that merely starts with
\* the letters gpgsig.  "cont": continuation line (" text").  "contE": continuation line
\* that is a single space.
AllKinds == {"tree", "treeBad", "parent", "parentBad", "author", "committer", "encoding",
             "gpgsig", "gpgsig256", "mergetag", "other", "bare", "gpgsigx", "cont", "contE"}
Cont     == {"cont", "contE"}
Standard == {"tree", "treeBad", "parent", "parentBad", "author", "committer", "encoding"}
FirstKinds == {"tree", "treeBad", "other"}

\* how the header block ends:
\*  "eof"      buffer ends after the last header line (no blank line)
\*  "blank"    blank line, empty message
\*  "m"        blank line, message without trailing LF
\*  "mLF"      blank line, one-line message with LF
\*  "mBlankM"  message with an inner blank line
\*  "blankM"   message that itself starts with a blank line
\*  "hdrM"     message whose lines look like headers (author, gpgsig, continuation)
Ends == {"eof", "blank", "m", "mLF", "mBlankM", "blankM", "hdrM"}

SeqsUpTo(S, n) == UNION {[1..k -> S] : k \in 0..n}
Bound(e) == IF e = "mLF" /\ MaxTailLF > MaxTail THEN MaxTailLF ELSE MaxTail
\* objects whose first line is not a well-formed tree line are rejected whatever follows: one more line is enough
Domain == {<<<<"tree">> \o t, e>> : t \in SeqsUpTo(TailKinds, MaxTail), e \in Ends}
          \cup {<<<<"tree">> \o t, "mLF">> : t \in SeqsUpTo(TailKinds, Bound("mLF"))}
          \cup {<<<<f>> \o t, e>> : f \in FirstKinds \ {"tree"}, t \in SeqsUpTo(TailKinds, 1), e \in Ends}

\* ---- helpers ----------------------------------------------------------------------
MaxOf(S) == CHOOSE m \in S : \A o \in S : o <= m
MinOf(S) == CHOOSE m \in S : \A o \in S : m <= o
Pos(h, k) == {i \in 1..Len(h) : h[i] = k}
FirstPos(h, k) == IF Pos(h, k) = {} THEN 0 ELSE MinOf(Pos(h, k))
LastPos(h, k)  == IF Pos(h, k) = {} THEN 0 ELSE MaxOf(Pos(h, k))
Ident(n) == [i \in 1..n |-> i]

\* number of lines directly after line 1 that begin with "parent "
NParLines(h) == MaxOf({n \in 0..Len(h)-1 : \A i \in 2..(1+n) : h[i] \in {"parent", "parentBad"}})

\* ---- parse_commit_buffer ------------------------------------------------------------
RejectWhy(h, e) ==
  IF h[1] # "tree" THEN (IF h[1] = "treeBad" THEN "bad-tree-id" ELSE "first-line-not-tree")
  ELSE IF Len(h) = 1 /\ e = "eof" THEN "tree-line-only"                 \* size <= hexsz+6
  ELSE IF \E i \in 2..(1+NParLines(h)) : h[i] = "parentBad" THEN "bad-parent-id"
  ELSE IF NParLines(h) > 0 /\ 1 + NParLines(h) = Len(h) /\ e = "eof" THEN "parent-line-last"
  ELSE "ok"
Accept(h, e) == RejectWhy(h, e) = "ok"

Parents(h) == [j \in 1..NParLines(h) |-> j + 1]      \* positions of the parent lines git links

\* ---- identities, encoding ------------------------------------------------------------
AuthorLog(h)    == LastPos(h, "author")       \* pretty.c
AuthorFER(h)    == FirstPos(h, "author")      \* ref-filter.c
CommitterLog(h) == LastPos(h, "committer")
CommitterFER(h) == FirstPos(h, "committer")
Encoding(h)     == FirstPos(h, "encoding")    \* find_commit_header

\* ---- parse_buffer_signed_by_header ----------------------------------------------------
\* hdr is the signature header of the repository's hash algorithm ("gpgsig" for sha1,
\* "gpgsig256" for sha256).  Result: the positions whose text forms the signature and the
\* positions that stay in the payload (the blank line and the message always stay).
GpgsigLike == {"gpgsig", "gpgsig256", "gpgsigx"}
SigScan(h, hdr) ==
  LET f[i \in 0..Len(h)] ==
        IF i = 0 THEN [insig |-> FALSE, other |-> FALSE, sig |-> <<>>, pay |-> <<>>]
        ELSE LET p == f[i-1]
                 k == h[i]
                 isSig == (p.insig /\ k \in Cont) \/ k = hdr
                 other2 == IF isSig THEN (IF k = hdr THEN FALSE ELSE p.other)
                           ELSE IF k \in GpgsigLike THEN TRUE
                           ELSE IF p.other /\ k \notin Cont THEN FALSE
                           ELSE p.other
             IN IF isSig
                THEN [insig |-> TRUE, other |-> other2, sig |-> Append(p.sig, i), pay |-> p.pay]
                ELSE [insig |-> FALSE, other |-> other2, sig |-> p.sig,
                      pay |-> IF other2 THEN p.pay ELSE Append(p.pay, i)]
  IN f[Len(h)]
Sig(h)        == SigScan(h, "gpgsig").sig
Sig256(h)     == SigScan(h, "gpgsig256").sig
Payload(h)    == SigScan(h, "gpgsig").pay        \* what verify-commit hands to gpg in a sha1 repository
Payload256(h) == SigScan(h, "gpgsig256").pay
\* gpg-interface.c parse_payload_metadata: git refuses to run the verifier (verify-commit fails
\* without asking gpg) unless the payload has a committer header; identity lines are never dropped
\* from the payload, so this is just the presence of a committer line in the header block
Verifiable(h) == Pos(h, "committer") # {}

\* ---- read_commit_extra_header_lines (exclude gpgsig, gpgsig-sha256) ------------------
\* Result: sequence of groups; a group is the sequence of positions <<key line, continuation...>>.
Excluded == Standard \cup {"gpgsig", "gpgsig256"}
Extras(h) ==
  LET f[i \in 0..Len(h)] ==
        IF i = 0 THEN [open |-> FALSE, list |-> <<>>]
        ELSE LET p == f[i-1]
                 k == h[i]
             IN IF k \in Cont
                THEN IF p.open
                     THEN [open |-> TRUE, list |-> [p.list EXCEPT ![Len(p.list)] = Append(@, i)]]
                     ELSE p
                ELSE IF k \in Excluded THEN [open |-> FALSE, list |-> p.list]
                ELSE [open |-> TRUE, list |-> Append(p.list, <<i>>)]
  IN f[Len(h)].list

\* continuation lines that belong to no header git keeps (after a standard header)
Orphans(h) == {i \in 1..Len(h) : h[i] \in Cont /\
                 LET prev == MaxOf({j \in 1..i : h[j] \notin Cont})   \* line 1 is never a continuation in an accepted commit
                 IN h[prev] \in Standard}

Msg(e) == IF e = "eof" THEN "none" ELSE e

\* ---- the decoded commit ---------------------------------------------------------------
Dec(h, e) == [tree |-> 1, parents |-> Parents(h),
              author |-> AuthorFER(h), authorLog |-> AuthorLog(h),
              committer |-> CommitterFER(h), committerLog |-> CommitterLog(h),
              enc |-> Encoding(h), extras |-> Extras(h),
              sig |-> Sig(h), sig256 |-> Sig256(h), msg |-> Msg(e)]

\* ---- canonical emission (commit_tree_extended, then signing appends the signature
\*      header(s) at the end of the header block) ------------------------------------------
Flat(ss) == LET f[i \in 0..Len(ss)] == IF i = 0 THEN <<>> ELSE f[i-1] \o ss[i] IN f[Len(ss)]
EncOrder(d) == <<d.tree>> \o d.parents \o
               (IF d.author = 0 THEN <<>> ELSE <<d.author>>) \o
               (IF d.committer = 0 THEN <<>> ELSE <<d.committer>>) \o
               (IF d.enc = 0 THEN <<>> ELSE <<d.enc>>) \o
               Flat(d.extras) \o d.sig \o d.sig256

\* why Encode(Decode(x)) cannot be x (first applicable reason, fixed priority)
NonCanon(h, e) ==
  LET d == Dec(h, e) IN
  IF e = "eof" THEN "no-blank-line"
  ELSE IF d.author = 0 \/ d.committer = 0 THEN "missing-author-or-committer"
  ELSE IF \E k \in {"tree", "author", "committer"} : Cardinality(Pos(h, k)) > 1 THEN "duplicate-standard-header"
  ELSE IF Pos(h, "treeBad") # {} \/ Pos(h, "parentBad") # {} \/ Cardinality(Pos(h, "parent")) > NParLines(h)
       THEN "dropped-tree-or-parent-line"
  ELSE IF Cardinality(Pos(h, "encoding")) > 1 THEN "duplicate-encoding"
  ELSE IF Orphans(h) # {} THEN "orphan-continuation"
  ELSE IF Cardinality(Pos(h, "gpgsig")) > 1 \/ Cardinality(Pos(h, "gpgsig256")) > 1 THEN "several-signature-headers"
  ELSE IF EncOrder(d) # Ident(Len(h)) THEN "header-order"
  ELSE "canonical"
Canonical(h, e) == Accept(h, e) /\ NonCanon(h, e) = "canonical"

\* spec-level scenario keys for finding signatures
Slot(h, k) ==   \* where the first line of kind k sits relative to the place commit_tree puts it
  LET p == FirstPos(h, k)
      want == IF k = "author" THEN 2 + NParLines(h)
              ELSE 2 + NParLines(h) + (IF FirstPos(h, "author") = 2 + NParLines(h) THEN 1 ELSE 0)
  IN IF p = 0 THEN "absent"
     ELSE (IF p = want THEN "inplace" ELSE "displaced") \o (IF Cardinality(Pos(h, k)) > 1 THEN "+dup" ELSE "")
ExtraKey(h) ==
  IF Orphans(h) # {} THEN "orphan-continuation"
  ELSE IF \E g \in 1..Len(Extras(h)) : h[Extras(h)[g][Len(Extras(h)[g])]] = "contE" /\ Len(Extras(h)[g]) > 1
       THEN "value-ends-with-empty-continuation"
  ELSE IF Pos(h, "bare") # {} THEN "has-key-without-value"
  ELSE "plain"
ParKey(h) == IF Pos(h, "parent") = {} THEN "none"
             ELSE IF Cardinality(Pos(h, "parent")) > NParLines(h) THEN "parent-line-outside-block" ELSE "block"
EncKey(h) == IF Pos(h, "encoding") = {} THEN "absent"
             ELSE IF Cardinality(Pos(h, "encoding")) > 1 THEN "dup" ELSE "single"
SigKey(h, hdr) ==
  LET s == SigScan(h, hdr).sig
      heads == {i \in 1..Len(s) : h[s[i]] = hdr}
  IN IF s = <<>> THEN "unsigned"
     ELSE IF Cardinality(heads) > 1 THEN "several-headers"
     ELSE IF Len(s) = 1 THEN "one-line" ELSE "multi-line"

Row(h, e) ==
  LET d == Dec(h, e) IN
  [h |-> h, e |-> e, acc |-> Accept(h, e), why |-> RejectWhy(h, e),
   parents |-> d.parents, author |-> d.author, authorLog |-> d.authorLog,
   committer |-> d.committer, committerLog |-> d.committerLog, enc |-> d.enc,
   extras |-> d.extras, sig |-> d.sig, sig256 |-> d.sig256, msg |-> d.msg,
   pay |-> Payload(h), pay256 |-> Payload256(h), verifiable |-> Verifiable(h),
   canon |-> Canonical(h, e), nc |-> NonCanon(h, e),
   pk |-> ParKey(h), ek |-> EncKey(h), ak |-> Slot(h, "author"), ck |-> Slot(h, "committer"), xk |-> ExtraKey(h),
   sk |-> SigKey(h, "gpgsig"), sk256 |-> SigKey(h, "gpgsig256")]

ASSUME Emit => ndJsonSerialize("commit_rows.ndjson", SetToSeq({Row(x[1], x[2]) : x \in Domain}))

\* ---- the domain as TLC states, theorems as invariants --------------------------------
VARIABLES hh, ee, dd
vars == <<hh, ee, dd>>
\* the domain is explored as a tree of prefixes (every prefix is itself a row), so that TLC's
\* workers share the work; Reachable = Domain is checked by the row count in checks/C02.py
Init == \E f \in FirstKinds, e \in Ends : hh = <<f>> /\ ee = e /\ dd = Dec(<<f>>, e)
Next == /\ Len(hh) < 1 + (IF hh[1] = "tree" THEN Bound(ee) ELSE 1)
        /\ \E k \in TailKinds : hh' = Append(hh, k) /\ ee' = ee /\ dd' = Dec(Append(hh, k), ee)
Spec == Init /\ [][Next]_vars

RangeOf(s) == {s[i] : i \in 1..Len(s)}

\* signature and payload partition the header lines, except lines that only look like a
\* signature header of the other algorithm (those are in neither)
SigPayloadPartition ==
  LET s == SigScan(hh, "gpgsig") IN
  /\ RangeOf(s.sig) \cap RangeOf(s.pay) = {}
  /\ \A i \in 1..Len(hh) : i \notin RangeOf(s.sig) \cup RangeOf(s.pay) =>
        (hh[i] \in {"gpgsig256", "gpgsigx"} \/ (hh[i] \in Cont /\ i > 1 /\ (i-1) \notin RangeOf(s.pay)))
  /\ \A i \in RangeOf(s.sig) : hh[i] \in Cont \cup {"gpgsig"}
\* an extra header is never a standard or signature header, and never shares a line with the signature
ExtrasDisjoint ==
  /\ \A g \in 1..Len(dd.extras) : hh[dd.extras[g][1]] \notin Excluded \cup Cont
  /\ RangeOf(Flat(dd.extras)) \cap (RangeOf(dd.sig) \cup RangeOf(dd.sig256)) = {}
\* canonical objects are unambiguous: log and for-each-ref report the same identities,
\* every header line is decoded into exactly one field, the payload is everything but the signature
\* (and but unknown headers whose name starts with gpgsig: git drops those from the payload too)
CanonicalUnambiguous ==
  Canonical(hh, ee) =>
     /\ dd.author = dd.authorLog /\ dd.committer = dd.committerLog
     /\ EncOrder(dd) = Ident(Len(hh))
     /\ RangeOf(Payload(hh)) = (1..Len(hh)) \ (RangeOf(dd.sig) \cup RangeOf(dd.sig256) \cup
            UNION {RangeOf(dd.extras[g]) : g \in {x \in 1..Len(dd.extras) : hh[dd.extras[x][1]] = "gpgsigx"}})
\* re-encoding the decoded fields of an accepted commit always yields a canonical commit
\* with the same decoded fields (Decode . Encode . Decode = Decode on the field level)
ReencodeIsCanonical ==
  (Accept(hh, ee) /\ ee # "eof" /\ dd.author # 0 /\ dd.committer # 0) =>
     LET o == EncOrder(dd)
         \* a codec emits ONE header per signature: further signature header lines become continuation lines
         merged(i) == \E s \in {dd.sig, dd.sig256} : Len(s) > 0 /\ o[i] \in RangeOf(s) /\ o[i] # s[1]
         h2 == [i \in 1..Len(o) |-> IF merged(i) /\ hh[o[i]] \notin Cont THEN "cont" ELSE hh[o[i]]]
         back(p) == IF p = 0 THEN 0 ELSE o[p]            \* position in h2 -> position in hh
         d2 == Dec(h2, ee)
     IN /\ Canonical(h2, ee)
        /\ back(d2.author) = dd.author /\ back(d2.committer) = dd.committer /\ back(d2.enc) = dd.enc
        /\ [i \in 1..Len(d2.parents) |-> o[d2.parents[i]]] = dd.parents
        /\ [i \in 1..Len(d2.sig) |-> o[d2.sig[i]]] = dd.sig
        /\ [i \in 1..Len(d2.sig256) |-> o[d2.sig256[i]]] = dd.sig256
        /\ [g \in 1..Len(d2.extras) |-> [j \in 1..Len(d2.extras[g]) |-> o[d2.extras[g][j]]]] = dd.extras
\* rejected objects are rejected for a reason about the first line or the parent block only
RejectLocal == ~Accept(hh, ee) => (hh[1] # "tree" \/ NParLines(hh) > 0 \/ Len(hh) = 1)
=============================================================================
