------------------------------ MODULE ObjFile ------------------------------
(* C01: the loose-object file format at token level.
     file    = zlib( header ++ content )            stored as objects/xx/<rest of hex id>
     header  = <<type, SP, decimal(size), NUL>>
     Id      = H(header ++ content)                  H uninterpreted here: git interprets it
   Writing direction: TLC enumerates entry point x type x object format x content class and
   states the header tokens and the placement rule every entry point must produce.
   Reading direction: header mutations of a valid file and the verdict of git's
   parse_loose_header / unpack_loose_rest (object-file.c).
   What this spec cannot say: that two implementations of SHA-1/SHA-256 or zlib agree - the
   harness delegates that to git (hash-object / cat-file on the same directory).          *)
EXTENDS Integers, Sequences, FiniteSets, TLC, Json

CONSTANTS Emit

\* "Switched*": the same operations on ONE live filesystem.Storage handle that was created without an object
\* format and switched to the row's format afterwards (Storage.SetObjectFormat - what a clone from a SHA-256
\* remote does during the first negotiation) and is then used without reopening.  SwitchedReadBack: git writes
\* the object into that directory, the switched handle reads it (id, type, size, bytes).
EntryPoints == {"SetEncodedObject", "RawObjectWriter", "LazyWriter", "WorktreeAdd", "ObjectHasher",
                "SwitchedSetEncodedObject", "SwitchedLazyWriter", "SwitchedReadBack"}
Types       == {"blob", "tree", "commit", "tag"}
Formats     == {"sha1", "sha256"}
\* content classes of the property text; sizes are what the harness renders
Contents    == {"empty", "onebyte", "nul", "headerlike", "overthreshold", "mib"}
SizeOf == [c \in Contents |-> CASE c = "empty" -> 0 [] c = "onebyte" -> 1 [] c = "nul" -> 64 [] c = "headerlike" -> 13
                                [] c = "overthreshold" -> 70000 [] c = "mib" -> 1048576]

WriteCases == {w \in [ep : EntryPoints, type : Types, fmt : Formats, content : Contents] :
                 w.ep = "WorktreeAdd" => w.type = "blob"}

\* what a correct writer produces (tokens)
Header(t, n) == <<t, "SP", n, "NUL">>
HexLen(f) == IF f = "sha1" THEN 40 ELSE 64
Expected(w) == [header |-> Header(w.type, SizeOf[w.content]), dirlen |-> 2, filelen |-> HexLen(w.fmt) - 2,
                stored |-> w.ep # "ObjectHasher"]           \* the hasher only names, it stores nothing

\* ---- reading direction: one mutation of the header / body of a valid blob file ----
Mutations == {"none", "size+1", "size-1", "leading-zero", "size-empty", "size-nondigit", "size-negative",
              "unknown-type", "uppercase-type", "no-space", "two-spaces", "no-nul", "trailing-garbage",
              "empty-file", "not-zlib", "truncated-zlib"}
\* git: parse_loose_header accepts exactly <type> SP <decimal without leading zeros> NUL and cat-file refuses
\* unknown type names.  The *length* rules (exactly `size` bytes, nothing after them) are enforced by
\* unpack_loose_rest / fsck but not by the streaming path `git cat-file` uses for blobs: for those classes the
\* CLI witness accepts, so the verdict is "lenient" (go-git may accept or refuse; nothing is compared).
\* Dropping the NUL of the header turns the first NUL of the content into the terminator: a length mismatch.
LengthMutations == {"size+1", "size-1", "trailing-garbage"}
ReadVerdict(m, c) == IF m = "none" THEN "accept"
                     ELSE IF m \in LengthMutations \/ (m = "no-nul" /\ c = "nul") THEN "lenient" ELSE "reject"

ReadCases == {[mut |-> m, fmt |-> f, content |-> c] : m \in Mutations, f \in Formats, c \in {"onebyte", "nul", "overthreshold"}}

VARIABLES cs
Init == \/ \E w \in WriteCases : cs = [dir |-> "write", w |-> w, expect |-> Expected(w)]
        \/ \E r \in ReadCases : cs = [dir |-> "read", r |-> r, verdict |-> ReadVerdict(r.mut, r.content)]
Next == UNCHANGED cs

O_HeaderShape == cs.dir = "write" => (Len(cs.expect.header) = 4 /\ cs.expect.header[1] \in Types /\ cs.expect.header[3] >= 0)
O_FanOut      == cs.dir = "write" => cs.expect.dirlen + cs.expect.filelen = HexLen(cs.w.fmt)
O_OnlyValid   == cs.dir = "read" => (cs.verdict = "accept" <=> cs.r.mut = "none")
O_HeaderGrammarRejects == (cs.dir = "read" /\ cs.r.mut \in {"leading-zero", "size-empty", "size-nondigit", "size-negative", "unknown-type",
                                                            "uppercase-type", "no-space", "two-spaces", "empty-file", "not-zlib", "truncated-zlib"})
                          => cs.verdict = "reject"
EmitRow == Emit => PrintT(ToJson(cs))
=============================================================================
