------------------------------ MODULE ObjFile ------------------------------
(* C01: the loose-object file format at token level.
     file    = zlib( header ++ content )            stored as objects/xx/<rest of hex id>
     header  = <<type, SP, decimal(size), NUL>>
     Id      = H(header ++ content)                  H uninterpreted here: git interprets it
   Writing direction: TLC enumerates entry point x type x object format x content class and
   states the header tokens and the placement rule every entry point must produce.
   Reading direction: header mutations of a valid file and the verdict of git's
   parse_loose_header / unpack_loose_rest (object-file.c).
   What this spec cannot say: that two implementations of SHA-1/SHA-256 or zlib agree - the
   harness delegates that to git (hash-object / cat-file on the same directory).          *)
EXTENDS Integers, Sequences, FiniteSets, TLC, Json

CONSTANTS Emit,
          NW,       \* number of object writers in a life-cycle history (2 quick, 3 thorough)
          MaxReclose \* repeated Close calls per history

\* "Switched*": the same operations on ONE live filesystem.Storage handle that was created without an object
\* format and switched to the row's format afterwards (Storage.SetObjectFormat - what a clone from a SHA-256
\* remote does during the first negotiation) and is then used without reopening.  SwitchedReadBack: git writes
\* the object into that directory, the switched handle reads it (id, type, size, bytes).
EntryPoints == {"SetEncodedObject", "RawObjectWriter", "LazyWriter", "WorktreeAdd", "ObjectHasher",
                "SwitchedSetEncodedObject", "SwitchedLazyWriter", "SwitchedReadBack"}
Types       == {"blob", "tree", "commit", "tag"}
Formats     == {"sha1", "sha256"}
\* content classes of the property text; sizes are what the harness renders
Contents    == {"empty", "onebyte", "nul", "headerlike", "overthreshold", "mib"}
SizeOf == [c \in Contents |-> CASE c = "empty" -> 0 [] c = "onebyte" -> 1 [] c = "nul" -> 64 [] c = "headerlike" -> 13
                                [] c = "overthreshold" -> 70000 [] c = "mib" -> 1048576]

WriteCases == {w \in [ep : EntryPoints, type : Types, fmt : Formats, content : Contents] :
                 w.ep = "WorktreeAdd" => w.type = "blob"}

\* what a correct writer produces (tokens)
Header(t, n) == <<t, "SP", n, "NUL">>
HexLen(f) == IF f = "sha1" THEN 40 ELSE 64
Expected(w) == [header |-> Header(w.type, SizeOf[w.content]), dirlen |-> 2, filelen |-> HexLen(w.fmt) - 2,
                stored |-> w.ep # "ObjectHasher"]           \* the hasher only names, it stores nothing

\* ---- reading direction: one mutation of the header / body of a valid blob file ----
Mutations == {"none", "size+1", "size-1", "leading-zero", "size-empty", "size-nondigit", "size-negative",
              "unknown-type", "uppercase-type", "no-space", "two-spaces", "no-nul", "trailing-garbage",
              "empty-file", "not-zlib", "truncated-zlib"}
\* git: parse_loose_header accepts exactly <type> SP <decimal without leading zeros> NUL and cat-file refuses
\* unknown type names.  The *length* rules (exactly `size` bytes, nothing after them) are enforced by
\* unpack_loose_rest / fsck but not by the streaming path `git cat-file` uses for blobs: for those classes the
\* CLI witness accepts, so the verdict is "lenient" (go-git may accept or refuse; nothing is compared).
\* Dropping the NUL of the header turns the first NUL of the content into the terminator: a length mismatch.
LengthMutations == {"size+1", "size-1", "trailing-garbage"}
ReadVerdict(m, c) == IF m = "none" THEN "accept"
                     ELSE IF m \in LengthMutations \/ (m = "no-nul" /\ c = "nul") THEN "lenient" ELSE "reject"

ReadCases == {[mut |-> m, fmt |-> f, content |-> c] : m \in Mutations, f \in Formats, c \in {"onebyte", "nul", "overthreshold"}}

VARIABLES cs

\* ---- writer life cycles: open / write / close as separate steps of several writers in ONE process ----
\* A loose-object writer (RawObjectWriter, LazyWriter; SetEncodedObject is the atomic variant) is opened,
\* receives its content, and is closed; Close may be called again on a closed writer (defer w.Close() next
\* to a checked w.Close() is ordinary Go; the repeated call may report "already closed", its result is not judged).  Writers are independent: whatever other writers did in between -
\* including a repeated Close, and including an earlier writer of the same process that was closed twice
\* (prior) - every successfully closed writer has published exactly its own object: git reads it back with
\* the writer's type, size and content.  The abstract store is the set of closed writers.
Writers == 1..NW
LifeApis == {"raw", "lazy", "set"}
Priors == {"none", "raw", "lazy"}        \* an earlier complete writer of that API, closed twice, before the history

Published(c) == {w \in Writers : c.ph[w] = "closed"}
PubSeq(c) == [w \in Writers |-> c.ph[w] = "closed"]

LifeInit == \E p \in Priors :
   cs = [dir |-> "life", prior |-> p, ph |-> [w \in Writers |-> "new"], api |-> [w \in Writers |-> "none"],
         re |-> [w \in Writers |-> FALSE], hist |-> <<>>]

LifeStep(c, op, w) == [c EXCEPT !.hist = Append(@, [op |-> op, w |-> w, api |-> c.api[w], pub |-> PubSeq(c)])]

LifeNext ==
  /\ cs.dir = "life"
  /\ \/ \E w \in Writers, a \in LifeApis :              \* writers are opened in index order (symmetry)
          /\ cs.ph[w] = "new" /\ \A v \in Writers : v < w => cs.ph[v] # "new"
          /\ cs' = LifeStep([cs EXCEPT !.ph[w] = (IF a = "set" THEN "closed" ELSE "open"), !.api[w] = a], IF a = "set" THEN "set" ELSE "open", w)
     \/ \E w \in Writers : cs.ph[w] = "open" /\ cs' = LifeStep([cs EXCEPT !.ph[w] = "written"], "write", w)
     \/ \E w \in Writers : cs.ph[w] = "written" /\ cs' = LifeStep([cs EXCEPT !.ph[w] = "closed"], "close", w)
     \/ \E w \in Writers : /\ cs.ph[w] = "closed" /\ cs.api[w] # "set" /\ ~cs.re[w]
                            /\ Cardinality({v \in Writers : cs.re[v]}) < MaxReclose
                            /\ cs' = LifeStep([cs EXCEPT !.re[w] = TRUE], "reclose", w)

Init == \/ \E w \in WriteCases : cs = [dir |-> "write", w |-> w, expect |-> Expected(w)]
        \/ \E r \in ReadCases : cs = [dir |-> "read", r |-> r, verdict |-> ReadVerdict(r.mut, r.content)]
        \/ LifeInit
Next == LifeNext \/ (cs.dir # "life" /\ UNCHANGED cs)

O_HeaderShape == cs.dir = "write" => (Len(cs.expect.header) = 4 /\ cs.expect.header[1] \in Types /\ cs.expect.header[3] >= 0)
O_FanOut      == cs.dir = "write" => cs.expect.dirlen + cs.expect.filelen = HexLen(cs.w.fmt)
O_OnlyValid   == cs.dir = "read" => (cs.verdict = "accept" <=> cs.r.mut = "none")
O_HeaderGrammarRejects == (cs.dir = "read" /\ cs.r.mut \in {"leading-zero", "size-empty", "size-nondigit", "size-negative", "unknown-type",
                                                            "uppercase-type", "no-space", "two-spaces", "empty-file", "not-zlib", "truncated-zlib"})
                          => cs.verdict = "reject"
\* life-cycle theorems: the published set is a function of each writer's own steps only
L_OwnStepsOnly == cs.dir = "life" => \A i \in 1..Len(cs.hist) : \A w \in Writers :
                     cs.hist[i].pub[w] <=> (\E j \in 1..i : cs.hist[j].w = w /\ cs.hist[j].op \in {"close", "set"})
L_RecloseNoop  == cs.dir = "life" => \A i \in 2..Len(cs.hist) : cs.hist[i].op = "reclose" => cs.hist[i].pub = cs.hist[i-1].pub
L_Monotone     == cs.dir = "life" => \A i \in 2..Len(cs.hist) : \A w \in Writers : cs.hist[i-1].pub[w] => cs.hist[i].pub[w]
LifeDone == cs.dir = "life" /\ \A w \in Writers : cs.ph[w] = "closed"
EmitRow == (Emit /\ (cs.dir # "life" \/ LifeDone)) =>
             PrintT(ToJson(IF cs.dir = "life" THEN [dir |-> "life", prior |-> cs.prior, hist |-> cs.hist] ELSE cs))
=============================================================================
